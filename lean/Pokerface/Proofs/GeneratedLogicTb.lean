import Pokerface.Model.Table
import Pokerface.Generated.LogicTb
/-
  K1, translated logic (glue between the seat manager and the hand engine): table/internal.go (`setupPosition`,
  `checkEndConditions`, `prepareNextGame`, `startGame`, `updatePlayerStates`, `updateGameState`), table/table.go
  (`Join`, `leave`, `Leave`, `Activate`, `Reserve`), table/state.go (`GetPlayerByGameIdx`, `ResetPositions`),
  seat_manager.go `getPlayableSeats`, match/table.go (`Join`, the "left" loop of `ApplySeatChanges`, `GetPlayers`),
  translated by `harness/cmd/genlogic` (Generated/LogicTb.lean, regenerated on every run).

  Every theorem `tb…_eq` states that a function of `Model/Table.lean` (or, for match.Table, the expression the
  `mt` lines of Driver/Main.lean evaluate on the seat-manager model) is, for ALL arguments, what the translated
  definition says: a function is translated as (the tracked fields it leaves, the list of steps it took); the
  theorem runs the model's pieces in the order of that list and any other list falls into a last branch the
  model never takes (`badInput`), so a reordered, dropped or added step breaks the equality.  Loops are
  translated as a function of one iteration; the theorem states the model's map / fold in terms of it.

  This file imports only the model and the generated file: its obligations do not depend on those of other areas.
-/
set_option linter.unusedSimpArgs false
set_option linter.unusedVariables false
namespace Pokerface.GeneratedLogic
open Pokerface Table
open Pokerface.Generated.Logic

/-! ### frame facts of the model (what the pieces of `prepareNextGame` leave alone) -/

theorem tb_foldl_modPl_frame {α : Type} (l : List α) (f : α → Nat) (g : α → TPlayer → TPlayer) (t : Table) :
    (l.foldl (fun t a => t.modPl (f a) (g a)) t).opts = t.opts ∧
    (l.foldl (fun t a => t.modPl (f a) (g a)) t).sm = t.sm ∧
    (l.foldl (fun t a => t.modPl (f a) (g a)) t).gameCount = t.gameCount ∧
    (l.foldl (fun t a => t.modPl (f a) (g a)) t).inPosition = t.inPosition := by
  induction l generalizing t with
  | nil => simp
  | cons a l ih => simp only [List.foldl_cons]; rw [(ih _).1, (ih _).2.1, (ih _).2.2.1, (ih _).2.2.2]; simp [modPl]

theorem tb_assignGameIdx_frame (t : Table) (seats : List Nat) :
    (t.assignGameIdx seats).opts = t.opts ∧ (t.assignGameIdx seats).sm = t.sm ∧
    (t.assignGameIdx seats).gameCount = t.gameCount ∧ (t.assignGameIdx seats).inPosition = t.inPosition := by
  unfold assignGameIdx
  have h := tb_foldl_modPl_frame seats.zipIdx (fun a => a.1) (fun a p => { p with gameIdx := (a.2 : Int) })
    { t with players := t.players.map (·.map fun p => { p with gameIdx := -1 }) }
  exact h

theorem tb_leave_frame (t : Table) (seat : Int) :
    (t.leave seat).1.opts = t.opts ∧ (t.leave seat).1.gameCount = t.gameCount ∧ (t.leave seat).1.inPosition = t.inPosition := by
  unfold leave
  rcases t.sm.step (.leave seat) with ⟨sm', e, r⟩
  cases e <;> simp [setPl]

theorem tb_applyFinal_frame (t : Table) (k : Nat) (f : Int) :
    (t.applyFinal k f).opts = t.opts ∧ (t.applyFinal k f).gameCount = t.gameCount ∧ (t.applyFinal k f).inPosition = t.inPosition := by
  unfold applyFinal
  split
  · simp
  · rename_i s _
    dsimp only
    by_cases hf : f = 0
    · rw [if_pos hf]
      split
      · have h := tb_leave_frame
          ({ (t.modPl s fun p => { p with bankroll := f }) with
              sm := ((t.modPl s fun p => { p with bankroll := f }).sm.step (.reserve (s : Int))).1 }) (s : Int)
        exact ⟨h.1, h.2.1, h.2.2⟩
      · simp [modPl]
    · rw [if_neg hf]; simp [modPl]

theorem tb_applyResult_frame (t : Table) (finals : List Int) :
    (t.applyResult finals).opts = t.opts ∧ (t.applyResult finals).gameCount = t.gameCount ∧
    (t.applyResult finals).inPosition = t.inPosition := by
  unfold applyResult
  generalize finals.zipIdx = l
  induction l generalizing t with
  | nil => simp
  | cons a l ih =>
    simp only [List.foldl_cons]
    have h := tb_applyFinal_frame t a.2 a.1
    rw [(ih _).1, (ih _).2.1, (ih _).2.2, h.1, h.2.1, h.2.2]
    exact ⟨rfl, rfl, rfl⟩

/-! ### internal.go `setupPosition` -/

/-- how `setupPosition` passes on an error of `Next()` that is not the seat manager's "insufficient number of
    players" (`return err`; the model's `panic` — an out-of-range slice expression in the Go code — stays `panic`) -/
def tbPassErr : SMErr → TErr
  | .panic => .panic
  | e => .sm e

/-- `PlayerInfo.Positions` of a sheet entry -/
def tbPositions (p : TPlayer) : List String :=
  (if p.dealer then ["dealer"] else []) ++ (if p.sb then ["sb"] else []) ++ (if p.bb then ["bb"] else [])

/-- one sheet entry after the translated iteration of the loop of `setupPosition` for its seat `i` (seat manager
    `sm'`): `Positions` and `Playable` are what the iteration leaves.  The iteration is entered with `hasPlayer = true`
    (the sheet entry is reached through the player of the seat); the model's `playable` also asks the seat to hold a
    player, which is the condition under which the Go loop does not skip the seat. -/
def tbCopyPos (sm' : SM) (i : Nat) (p : TPlayer) : TPlayer :=
  let s := sm'.seats[i]?
  let g := tbSetupStep true i sm'.dealer sm'.sb sm'.bb ((s.map (·.reserved)).getD false) ((s.map (·.active)).getD false)
    (tbPositions p) p.playable
  { p with dealer := g.2.1.contains "dealer", sb := g.2.1.contains "sb", bb := g.2.1.contains "bb",
           playable := g.2.2 && (s.bind (·.player)).isSome }

/-- internal.go `setupPosition`, one seat: positions — "dealer" iff the seat is the button; "sb" iff it is the small
    blind, else "bb" iff it is the big blind, in this order (last conjunct: the list written is exactly the one of the
    model's entry) — and `Playable = !IsReserved && IsActive`; a seat without a player is skipped (nothing is written) -/
theorem tbSetupStep_eq (sm' : SM) (i : Nat) (p : TPlayer) :
    ({ p with dealer := decide (sm'.dealer = some i), sb := decide (sm'.sb = some i),
              bb := decide (sm'.sb ≠ some i) && decide (sm'.bb = some i), playable := sm'.playable i } : TPlayer)
      = tbCopyPos sm' i p ∧
    (∀ (seat : Nat) (d s b : Option Nat) (r a : Bool) (ps : List String) (pl : Bool),
      tbSetupStep false seat d s b r a ps pl = ("", ps, pl)) ∧
    (∀ (seat : Nat) (d s b : Option Nat) (r a : Bool) (ps : List String) (pl : Bool),
      (tbSetupStep true seat d s b r a ps pl).1 = "GetPlayerByID(s.Player.ID)") ∧
    (∀ (r a : Bool) (ps : List String) (pl : Bool),
      (tbSetupStep true i sm'.dealer sm'.sb sm'.bb r a ps pl).2.1 = tbPositions (tbCopyPos sm' i p)) := by
  have h3 : ∀ (seat : Nat) (d s b : Option Nat) (r a : Bool) (ps : List String) (pl : Bool),
      (tbSetupStep true seat d s b r a ps pl).1 = "GetPlayerByID(s.Player.ID)" := by
    intro seat d s b r a ps pl
    unfold tbSetupStep
    simp only [Bool.not_true, Bool.false_eq_true, if_false]
    repeat' split
    all_goals rfl
  have hb : ∀ o : Option Nat, (some i == o) = decide (o = some i) := by
    intro o; rw [Lean.Grind.beq_eq_decide_eq]; cases o <;> simp [eq_comm]
  have h4 : ∀ (r a : Bool) (ps : List String) (pl : Bool),
      (tbSetupStep true i sm'.dealer sm'.sb sm'.bb r a ps pl).2.1 = tbPositions (tbCopyPos sm' i p) := by
    intro r a ps pl
    unfold tbCopyPos tbPositions tbSetupStep
    simp only [hb]
    generalize ((sm'.seats[i]?.map (·.reserved)).getD false) = r'
    generalize ((sm'.seats[i]?.map (·.active)).getD false) = a'
    by_cases hd : sm'.dealer = some i <;> by_cases hs : sm'.sb = some i <;> by_cases hbb : sm'.bb = some i <;>
      cases r <;> cases a <;> cases r' <;> cases a' <;> simp [hd, hs, hbb]
  refine ⟨?_, fun _ _ _ _ _ _ _ _ => rfl, h3, h4⟩
  unfold tbCopyPos tbSetupStep SM.playable
  simp only [hb]
  by_cases hd : sm'.dealer = some i <;> by_cases hs : sm'.sb = some i <;> by_cases hbb : sm'.bb = some i <;>
    cases hseat : sm'.seats[i]? <;> simp [hd, hs, hbb, hseat, Bool.and_comm]
  all_goals (first | done | (rename_i s; cases s.reserved <;> cases s.active <;> simp))

/-- internal.go `setupPosition`: nothing when the positions are in place; else `Next()`, whose error is passed on
    (`ErrInsufficientNumberOfPlayers` as the table's own) with `inPosition` untouched; else every sheet entry gets the
    translated iteration and `inPosition` is set -/
theorem tbSetupPosition_eq (t : Table) :
    t.setupPosition =
      (let n := t.sm.step .next
       let g := tbSetupPosition SMErr.insufficientPlayers t.inPosition n.2.1
       if g.2 = ["nil"] then ({ t with inPosition := g.1 }, none)
       else if g.2 = ["sm.Next()", "ErrInsufficientNumberOfPlayers"] then
         ({ t with sm := n.1, inPosition := g.1 }, some .insufficient)
       else if g.2 = ["sm.Next()", "return err"] then ({ t with sm := n.1, inPosition := g.1 }, n.2.1.map tbPassErr)
       else if g.2 = ["sm.Next()", "ResetPositions", "GetSeats", "seatsLoop", "nil"] then
         ({ t with sm := n.1, players := t.players.zipIdx.map fun (p, i) => p.map (tbCopyPos n.1 i), inPosition := g.1 }, none)
       else (t, some .badInput)) := by
  unfold setupPosition tbSetupPosition
  by_cases hp : t.inPosition = true
  · rcases t with ⟨o, sm, pls, ip, gc⟩
    simp only at hp
    subst hp
    simp
  · have hp' : t.inPosition = false := by simpa using hp
    rcases t with ⟨o, sm, pls, ip, gc⟩
    simp only at hp'
    subst hp'
    rcases hn : sm.step .next with ⟨sm', e, r⟩
    cases e with
    | none =>
      simp only [Option.isSome_none, Bool.false_eq_true, if_false, List.nil_append, List.cons_append]
      simp only [(tbSetupStep_eq sm' _ _).1]
      simp
    | some e => cases e <;> simp [tbPassErr] <;> decide

/-- state.go `ResetPositions`, one player: the positions are emptied -/
theorem tbResetPositionsStep_eq (ps : List String) : tbResetPositionsStep ps = [] := rfl

/-! ### internal.go `checkEndConditions` -/

/-- closed form: the game limit is tested first (`MaxGames > 0 && MaxGames == gameCount`), then the clock -/
theorem tbCheckEnd_closed (m g : Int) (timesUp : Bool) :
    tbCheckEnd m g timesUp =
      if m > 0 ∧ m = g then ["ErrMaxGamesExceeded"] else if timesUp then ["ErrTimesUp"] else ["nil"] := by
  unfold tbCheckEnd
  by_cases h1 : m > 0 <;> by_cases h2 : m = g <;> cases timesUp <;> simp [h1, h2]

/-- internal.go `checkEndConditions` without the clock (`timesUp = false`: the harness puts the end of the table far
    in the future) is the model's `maxGamesReached` -/
theorem tbCheckEnd_eq (t : Table) :
    t.maxGamesReached = decide (tbCheckEnd t.opts.maxGames t.gameCount false = ["ErrMaxGamesExceeded"]) := by
  rw [tbCheckEnd_closed]
  unfold maxGamesReached
  have key : ((t.opts.maxGames : Int) > 0 ∧ (t.opts.maxGames : Int) = t.gameCount) ↔
      (t.opts.maxGames > 0 ∧ t.opts.maxGames = t.gameCount) := by omega
  by_cases h : t.opts.maxGames > 0 ∧ t.opts.maxGames = t.gameCount
  · rw [if_pos (key.mpr h)]; simpa using h
  · rw [if_neg (fun h' => h (key.mp h'))]; simpa using h

/-! ### internal.go `startGame` -/

/-- `startGame`, the first loop, one player: the game index is cleared -/
theorem tbClearIdxStep_eq (g : Int) : tbClearIdxStep g = -1 := rfl

/-- `startGame`, the second loop, one playable seat `i`-th in `GetPlayableSeats` order: its player gets game index `i`
    and one player setting (bankroll, positions of that player) is appended to `opts.Players` -/
theorem tbAssignStep_closed {B P : Type} (i g : Int) (b : B) (ps : P) (acc : List (B × P)) :
    tbAssignStep i g b ps acc = (i, acc ++ [(b, ps)]) := rfl

/-- `startGame`: the game indices — every entry of the sheet gets the translated iteration of the first loop, then the
    playable seats, in order, the translated iteration of the second -/
theorem tbAssignGameIdx_eq (t : Table) (seats : List Nat) :
    t.assignGameIdx seats =
      seats.zipIdx.foldl (fun t (s, i) => t.modPl s fun p => { p with gameIdx := (tbAssignStep (i : Int) p.gameIdx () () []).1 })
        { t with players := t.players.map (·.map fun p => { p with gameIdx := tbClearIdxStep p.gameIdx }) } := rfl

/-- what `startGame` reads from the sheet for a playable seat: `Bankroll` and `Positions` (as the three flags of the
    model); a seat without an entry — the Go code would dereference nil — gives the model's zeros -/
def tbEntry (t : Table) (s : Nat) : Int × Bool × Bool × Bool :=
  match t.players[s]? with
  | some (some p) => (p.bankroll, p.dealer, p.sb, p.bb)
  | _ => (0, false, false, false)

def tbCfgOf (x : Int × Bool × Bool × Bool) : SeatCfg := { bankroll := x.1, dealer := x.2.1, sb := x.2.2.1, bb := x.2.2.2 }

theorem tb_foldl_append {α β : Type} (f : α → β) (l : List α) (acc : List β) :
    l.foldl (fun acc a => acc ++ [f a]) acc = acc ++ l.map f := by
  induction l generalizing acc with
  | nil => simp
  | cons a l ih => simp [ih]

/-- `startGame`: `GameOptions.Players` is what the translated iteration of the second loop appends, seat by seat in
    `GetPlayableSeats` order: the bankroll and the positions of that seat's own player -/
theorem tbGameSeats_eq (t : Table) (seats : List Nat) :
    t.gameSeats seats =
      (seats.foldl (fun acc s => (tbAssignStep 0 0 (tbEntry t s).1 (tbEntry t s).2 acc).2) []).map tbCfgOf := by
  simp only [tbAssignStep_closed]
  rw [tb_foldl_append (fun s => ((tbEntry t s).1, (tbEntry t s).2))]
  unfold gameSeats tbEntry tbCfgOf
  simp only [List.nil_append, List.map_map]
  apply List.map_congr_left
  intro s _
  simp only [Function.comp]
  rcases t.players[s]? with _ | _ | p <;> rfl

/-- seat_manager.go `getPlayableSeats`, one seat of the normalized order: kept iff `!IsReserved && IsActive && Player != nil` -/
theorem tbPlayableSeatsStep_closed {S : Type} (s : S) (r a h : Bool) (acc : List S) :
    tbPlayableSeatsStep s r a h acc = if !r && a && h then acc ++ [s] else acc := by
  unfold tbPlayableSeatsStep; cases r <;> cases a <;> cases h <;> rfl

theorem tb_foldl_filter {α : Type} (f : α → Bool) (l : List α) (acc : List α) :
    l.foldl (fun acc a => if f a then acc ++ [a] else acc) acc = acc ++ l.filter f := by
  induction l generalizing acc with
  | nil => simp
  | cons a l ih => by_cases h : f a <;> simp [ih, h, List.filter_cons]

/-- seat_manager.go `getPlayableSeats` (the members and the order of the next game): the translated iteration over the
    seats clockwise from the button -/
theorem tbPlayableSeats_eq (sm : SM) :
    playableSeats sm = sm.dealer.map fun d =>
      (sm.normalize d).foldl (fun acc i =>
        tbPlayableSeatsStep i ((sm.seats[i]?.map (·.reserved)).getD false) ((sm.seats[i]?.map (·.active)).getD false)
          ((sm.seats[i]?.bind (·.player)).isSome) acc) [] := by
  unfold playableSeats
  congr 1
  funext d
  simp only [tbPlayableSeatsStep_closed]
  have h := tb_foldl_filter (fun i : Nat => !((sm.seats[i]?.map (fun s : Seat => s.reserved)).getD false) &&
    ((sm.seats[i]?.map (fun s : Seat => s.active)).getD false) && (sm.seats[i]?.bind (fun s : Seat => s.player)).isSome)
    (sm.normalize d) []
  refine Eq.trans ?_ h.symm
  simp only [List.nil_append]
  apply List.filter_congr
  intro i _
  unfold SM.playable
  cases sm.seats[i]? with
  | none => simp
  | some s => rcases s with ⟨pl, a, r⟩; cases a <;> cases r <;> simp

/-- internal.go `startGame` together with the closing `updateGameState`, as `Table.prepareNextGame` inlines it (the
    definition is the text of the model; `tbPrepareNextGame_eq` shows that the model's `prepareNextGame` calls it) -/
def tbStartGameM (t : Table) (finals : List Int) : Table × TOut :=
  match playableSeats t.sm with
  | none => (t, { err := some .panic })
  | some seats =>
    let t := t.assignGameIdx seats
    let cfg := t.gameSeats seats
    match startRefusal cfg with
    | some e => (t, { err := some (.game e), cfg := some cfg })
    | none =>
      if finals.length ≠ cfg.length then (t, { err := some .badInput, cfg := some cfg })
      else
        let t := t.applyResult finals
        ({ t with gameCount := t.gameCount + 1, inPosition := false }, { cfg := some cfg })

/-- the steps of `startGame` up to and including `t.g.Start()` -/
def tbStartPrefix : List String :=
  ["deck", "ante", "blind.dealer", "blind.sb", "blind.bb", "clearLoop", "GetPlayableSeats", "assignLoop", "NewGame",
   "OnStateUpdated(updateGameState)", "Start"]

/-- internal.go `startGame`: the options, the two loops (game indices cleared, then handed out in `GetPlayableSeats`
    order while the player settings are collected), `NewGame`, the state callback, `Start()`.  A refusal of `Start()` is
    returned with `gameCount` and `inPosition` untouched; otherwise `gameCount++`, the hand is played (`wait`: the
    closing state writes the final stacks back, `applyResult`), and only then `inPosition = false`. -/
theorem tbStartGame_eq (t : Table) (finals : List Int) :
    tbStartGameM t finals =
      (match playableSeats t.sm with
       | none => (t, { err := some .panic })
       | some seats =>
         let t1 := t.assignGameIdx seats
         let cfg := t1.gameSeats seats
         let refusal := startRefusal cfg
         let g := tbStartGame t.gameCount t.inPosition refusal.isSome
         if g.2.2 = tbStartPrefix ++ ["return err"] then
           ({ t1 with gameCount := g.1.toNat, inPosition := g.2.1 }, { err := refusal.map .game, cfg := some cfg })
         else if g.2.2 = tbStartPrefix ++ ["wait", "nil"] then
           if finals.length ≠ cfg.length then (t1, { err := some .badInput, cfg := some cfg })
           else ({ t1.applyResult finals with gameCount := g.1.toNat, inPosition := g.2.1 }, { cfg := some cfg })
         else (t, { err := some .badInput })) := by
  unfold tbStartGameM
  cases hps : playableSeats t.sm with
  | none => rfl
  | some seats =>
    simp only
    have hf := tb_assignGameIdx_frame t seats
    have hr := tb_applyResult_frame (t.assignGameIdx seats) finals
    cases href : startRefusal ((t.assignGameIdx seats).gameSeats seats) with
    | some e =>
      simp only [tbStartGame, tbStartPrefix, Option.isSome_some, if_true, List.nil_append, List.cons_append, Option.map_some]
      rw [← hf.2.2.1, ← hf.2.2.2]
      simp
    | none =>
      simp only [tbStartGame, tbStartPrefix, Option.isSome_none, Bool.false_eq_true, if_false, List.nil_append, List.cons_append]
      by_cases hl : finals.length ≠ ((t.assignGameIdx seats).gameSeats seats).length
      · simp [hl]
      · have e1 : ((t.gameCount : Int) + 1).toNat = ((t.assignGameIdx seats).applyResult finals).gameCount + 1 := by
          rw [hr.2.1, hf.2.2.1]; omega
        simp [hl, e1]

/-! ### internal.go `prepareNextGame` -/

/-- `checkEndConditions` at game count `gc`, without the clock -/
def tbEndReached (t : Table) (gc : Int) : Bool := decide (tbCheckEnd t.opts.maxGames gc false ≠ ["nil"])

theorem tb_setupPosition_frame (t : Table) :
    t.setupPosition.1.opts = t.opts ∧ t.setupPosition.1.gameCount = t.gameCount := by
  unfold setupPosition
  split
  · exact ⟨rfl, rfl⟩
  · split <;> exact ⟨rfl, rfl⟩

theorem tb_startGameM_opts (t : Table) (finals : List Int) : (tbStartGameM t finals).1.opts = t.opts := by
  unfold tbStartGameM
  split
  · rfl
  · rename_i seats _
    have hf := tb_assignGameIdx_frame t seats
    have hr := tb_applyResult_frame (t.assignGameIdx seats) finals
    dsimp only
    split
    · exact hf.1
    · split
      · exact hf.1
      · exact hr.1.trans hf.1

/-- the model's `prepareNextGame`, with the part that is `startGame` named -/
theorem tb_prepareNextGame_unfold (t : Table) (finals : List Int) :
    t.prepareNextGame finals =
      (if t.maxGamesReached then (t, { err := some .maxGames })
       else match t.setupPosition with
         | (t1, some e) => (t1, { err := some e })
         | (t1, none) =>
           if (t1.gameCount = 0 ∧ t1.sm.playableCount < t1.opts.initialPlayers) ∨ t1.sm.playableCount < t1.opts.minPlayers then
             (t1, { err := some .insufficient })
           else
             let g1 := tbStartGameM t1 finals
             if g1.2.err.isSome then g1
             else if g1.1.maxGamesReached then (g1.1, { err := some .maxGames, cfg := g1.2.cfg })
             else (g1.1.setupPosition.1, { err := g1.1.setupPosition.2, cfg := g1.2.cfg })) := by
  unfold prepareNextGame tbStartGameM
  by_cases hm : t.maxGamesReached = true
  · rw [if_pos hm, if_pos hm]
  · rw [if_neg hm, if_neg hm]
    rcases t.setupPosition with ⟨t1, e1⟩
    cases e1 with
    | some e => rfl
    | none =>
      dsimp only
      by_cases hi : (t1.gameCount = 0 ∧ t1.sm.playableCount < t1.opts.initialPlayers) ∨ t1.sm.playableCount < t1.opts.minPlayers
      · rw [if_pos hi, if_pos hi]
      · rw [if_neg hi, if_neg hi]
        cases playableSeats t1.sm with
        | none => rfl
        | some seats =>
          dsimp only
          obtain href | ⟨e, href⟩ : startRefusal ((t1.assignGameIdx seats).gameSeats seats) = none ∨
              ∃ e, startRefusal ((t1.assignGameIdx seats).gameSeats seats) = some e := by
            cases startRefusal ((t1.assignGameIdx seats).gameSeats seats) <;> simp
          · simp only [href]
            by_cases hl : finals.length ≠ ((t1.assignGameIdx seats).gameSeats seats).length
            · simp only [if_pos hl]; rfl
            · simp only [if_neg hl, Option.isSome_none, Bool.false_eq_true, if_false]
              try (split <;> rfl)
          · simp only [href]; rfl

/-- a paused table starts nothing: the pause is tested before anything else -/
theorem tbPrepareNextGame_paused (gc i m : Int) (er : Int → Bool) (f1 : Bool) (pl : Int) (sf : Bool) (gca : Int) (f2 : Bool) :
    tbPrepareNextGame true gc i m er f1 pl sf gca f2 = ["ErrGameCancelled"] := rfl

/-- internal.go `prepareNextGame` (table not paused): the end conditions, `setupPosition`, the number of playable seats
    — read after `setupPosition` — against `InitialPlayers` (first game only) and `MinPlayers`, `startGame`, the end
    conditions again (with the game count `startGame` left), `setupPosition` again; every error is returned at once -/
theorem tbPrepareNextGame_eq (t : Table) (finals : List Int) :
    t.prepareNextGame finals =
      (let s1 := t.setupPosition
       let g1 := tbStartGameM s1.1 finals
       let s2 := g1.1.setupPosition
       let r := tbPrepareNextGame false t.gameCount t.opts.initialPlayers t.opts.minPlayers (tbEndReached t)
         s1.2.isSome s1.1.sm.playableCount g1.2.err.isSome g1.1.gameCount s2.2.isSome
       if r = ["checkEndConditions: return err"] then (t, { err := some .maxGames })
       else if r = ["checkEndConditions", "setupPosition", "return err"] then (s1.1, { err := s1.2 })
       else if r = ["checkEndConditions", "setupPosition", "GetPlayableSeatCount", "ErrInsufficientNumberOfPlayers"] then
         (s1.1, { err := some .insufficient })
       else if r = ["checkEndConditions", "setupPosition", "GetPlayableSeatCount", "startGame", "return err"] then g1
       else if r = ["checkEndConditions", "setupPosition", "GetPlayableSeatCount", "startGame", "checkEndConditions: return err"] then
         (g1.1, { err := some .maxGames, cfg := g1.2.cfg })
       else if r = ["checkEndConditions", "setupPosition", "GetPlayableSeatCount", "startGame", "checkEndConditions", "setupPosition",
           "return err"] then (s2.1, { err := s2.2, cfg := g1.2.cfg })
       else if r = ["checkEndConditions", "setupPosition", "GetPlayableSeatCount", "startGame", "checkEndConditions", "setupPosition",
           "nil"] then (s2.1, { cfg := g1.2.cfg })
       else (t, { err := some .badInput })) := by
  rw [tb_prepareNextGame_unfold]
  have hfr := tb_setupPosition_frame t
  have hmax : ∀ t' : Table, t'.opts = t.opts → t'.maxGamesReached = tbEndReached t t'.gameCount := by
    intro t' ho
    rw [tbCheckEnd_eq, tbEndReached, tbCheckEnd_closed, tbCheckEnd_closed, ho]
    by_cases h : ((t.opts.maxGames : Int) > 0 ∧ (t.opts.maxGames : Int) = (t'.gameCount : Int)) <;> simp [h]
  rw [hmax t rfl]
  unfold tbPrepareNextGame
  dsimp only
  cases her : tbEndReached t t.gameCount
  rotate_left
  · simp
  simp only [Bool.false_eq_true, if_false, List.nil_append, List.cons_append]
  rcases hsp : t.setupPosition with ⟨t1, e1⟩
  rw [hsp] at hfr
  simp only at hfr
  cases e1 with
  | some e => simp
  | none =>
    simp only [Option.isSome_none, Bool.false_eq_true, if_false, hfr.1, hfr.2]
    have hins : ((t.gameCount = 0 ∧ t1.sm.playableCount < t.opts.initialPlayers) ∨ t1.sm.playableCount < t.opts.minPlayers) ↔
        ((((t.gameCount : Int) == 0) && decide ((t1.sm.playableCount : Int) < (t.opts.initialPlayers : Int))) = true ∨
          decide ((t1.sm.playableCount : Int) < (t.opts.minPlayers : Int)) = true) := by
      simp only [Bool.and_eq_true, beq_iff_eq, decide_eq_true_eq]
      omega
    by_cases hi : (t.gameCount = 0 ∧ t1.sm.playableCount < t.opts.initialPlayers) ∨ t1.sm.playableCount < t.opts.minPlayers
    · rw [if_pos hi]
      rcases hins.mp hi with h | h
      · rw [if_pos h]; simp
      · by_cases h' : (((t.gameCount : Int) == 0) && decide ((t1.sm.playableCount : Int) < (t.opts.initialPlayers : Int))) = true
        · rw [if_pos h']; simp
        · rw [if_neg h', if_pos h]; simp
    · rw [if_neg hi]
      have h1 : (((t.gameCount : Int) == 0) && decide ((t1.sm.playableCount : Int) < (t.opts.initialPlayers : Int))) = false := by
        cases hc : (((t.gameCount : Int) == 0) && decide ((t1.sm.playableCount : Int) < (t.opts.initialPlayers : Int)))
        · rfl
        · exact absurd (hins.mpr (Or.inl hc)) hi
      have h2 : decide ((t1.sm.playableCount : Int) < (t.opts.minPlayers : Int)) = false := by
        cases hc : decide ((t1.sm.playableCount : Int) < (t.opts.minPlayers : Int))
        · rfl
        · exact absurd (hins.mpr (Or.inr hc)) hi
      rw [h1, h2]
      simp only [Bool.false_eq_true, if_false]
      have hgo := tb_startGameM_opts t1 finals
      rcases hg : tbStartGameM t1 finals with ⟨t2, o2⟩
      rw [hg] at hgo
      simp only at hgo
      cases hse : o2.err.isSome
      rotate_left
      · simp
      simp only [Bool.false_eq_true, if_false]
      rw [hmax t2 (hgo.trans hfr.1)]
      cases her2 : tbEndReached t (t2.gameCount : Int)
      rotate_left
      · simp
      simp only [Bool.false_eq_true, if_false]
      rcases hsp2 : t2.setupPosition with ⟨t3, e3⟩
      cases e3 <;> simp

/-! ### internal.go `updatePlayerStates`, `updateGameState`; state.go `GetPlayerByGameIdx` -/

/-- `updatePlayerStates`: the write-back runs only on a state whose event is "GameClosed" (the model applies the final
    stacks once, for the closing state of the hand) -/
theorem tbUpdateGuard_eq (noGameState : Bool) (event : String) :
    tbUpdateGuard noGameState event = (!noGameState && event == "GameClosed") := by
  unfold tbUpdateGuard
  cases noGameState <;> by_cases h : event = "GameClosed" <;> simp [h]

/-- `updateGameState`: the state is stored before `updatePlayerStates` reads it; then the state callback -/
theorem tbUpdateGameState_eq :
    tbUpdateGameState = ["GameState = gs", "updatePlayerStates(t.ts)", "emitStateUpdated", "nil"] := by decide

/-- state.go `GetPlayerByGameIdx`, one player: returned iff its game index is the one asked for -/
theorem tbByGameIdxStep_closed (g k : Int) : tbByGameIdxStep g k = (g == k) := by
  unfold tbByGameIdxStep; by_cases h : g = k <;> simp [h]

/-- state.go `GetPlayerByGameIdx`: the model's lookup is the translated test on every sheet entry -/
theorem tbByGameIdx_eq (t : Table) (k : Nat) :
    t.seatOfGameIdx k = (t.players.zipIdx.find? fun (p, _) => match p with
      | some p => tbByGameIdxStep p.gameIdx (k : Int)
      | none => false).map (·.2) := by
  unfold seatOfGameIdx
  congr 2
  funext x
  rcases x with ⟨p, i⟩
  cases p <;> simp [tbByGameIdxStep_closed]

/-- the reading of the steps of one iteration of the loop of `updatePlayerStates` on the player of seat `s` -/
def tbUpdEff (s : Nat) (t : Table) (e : String) : Table :=
  if e = "sm.Reserve(p.SeatID)" then { t with sm := (t.sm.step (.reserve (s : Int))).1 }
  else if e = "leave(p.SeatID)" then (t.leave (s : Int)).1
  else t

/-- internal.go `updatePlayerStates`, one entry of `Result.Players`: no player with that game index ⇒ nothing; else the
    bankroll becomes the final stack and, exactly when it is 0, the seat is reserved and — in "leave" mode only — left -/
theorem tbUpdateStep_eq (t : Table) (k : Nat) (final : Int) (mode : String) (hm : t.opts.leaveMode = (mode == "leave")) :
    t.applyFinal k final =
      (match t.seatOfGameIdx k with
       | none => t
       | some s =>
         let g := tbUpdateStep true final (((t.players[s]?).join.map (·.bankroll)).getD 0) mode
         g.2.foldl (tbUpdEff s) (t.modPl s fun p => { p with bankroll := g.1 })) ∧
    (∀ (final b0 : Int) (mode : String), tbUpdateStep false final b0 mode = (b0, ["GetPlayerByGameIdx(rs.Idx)"])) := by
  refine ⟨?_, fun _ _ _ => rfl⟩
  unfold applyFinal tbUpdateStep
  cases t.seatOfGameIdx k with
  | none => rfl
  | some s =>
    dsimp only
    by_cases hf : final = 0
    · subst hf
      by_cases hl : mode = "leave"
      · have hm' : t.opts.leaveMode = true := by rw [hm]; simp [hl]
        simp [tbUpdEff, hl, hm', modPl]
      · have hm' : t.opts.leaveMode = false := by rw [hm]; simp [hl]
        simp [tbUpdEff, hl, hm', modPl]
    · simp [hf, tbUpdEff]

/-! ### table.go `Join`, `leave`, `Leave`, `Activate`, `Reserve` -/

/-- closed form (`seatID`: the seat asked for, which nothing depends on): the game index is -1 whatever it was; on a refusal of `sm.Join` -1 is returned, nothing is stored and
    the player's `SeatID` is untouched; otherwise `SeatID` and the returned seat are the seat obtained -/
theorem tbJoin_closed (seatID gi0 sid0 : Int) (fails : Bool) (sid : Int) :
    tbJoin seatID gi0 sid0 fails sid =
      if fails then (-1, sid0, -1, ["sm.Join(seatID, p)", "return err"])
      else (-1, sid, sid, ["sm.Join(seatID, p)", "Players[sid] = p", "emitStateUpdated", "nil"]) := by
  unfold tbJoin; cases fails <;> rfl

/-- table.go `Join`: `GameIdx = -1`, `sm.Join`; its error is returned with nothing stored; otherwise the player is stored
    on the sheet at the seat obtained and that seat is returned -/
theorem tbJoin_eq (t : Table) (seat : Int) (pid : Nat) (bankroll : Int) (chose : Option Nat) (gi0 sid0 : Int) :
    t.step (.join seat pid bankroll chose) =
      (let r := t.sm.step (.join seat pid chose)
       let g := tbJoin seat gi0 sid0 r.2.1.isSome ((r.2.2.map Int.ofNat).getD (-1))
       if g.2.2.2 = ["sm.Join(seatID, p)", "return err"] then
         (t, { err := r.2.1.map .sm, ret := if g.2.2.1 = -1 then none else some g.2.2.1.toNat })
       else if g.2.2.2 = ["sm.Join(seatID, p)", "Players[sid] = p", "emitStateUpdated", "nil"] then
         match r.2.2 with
         | none => (t, { err := some .panic })
         | some _ =>
           (({ t with sm := r.1 }).setPl g.2.1.toNat (some { pid := pid, bankroll := bankroll, gameIdx := g.1 }),
            { ret := some g.2.2.1.toNat })
       else (t, { err := some .badInput })) := by
  simp only [tbJoin_closed]
  unfold Table.step
  rcases hr : t.sm.step (.join seat pid chose) with ⟨sm', e, r⟩
  cases e with
  | some e => simp [hr]
  | none => cases r <;> simp [hr]

/-- table.go `leave`: `sm.Leave`; its error is returned with the sheet untouched; otherwise the entry is deleted -/
theorem tbLeave_eq (t : Table) (seat : Int) :
    t.leave seat =
      (let r := t.sm.step (.leave seat)
       let g := tbLeave r.2.1.isSome
       if g = ["sm.Leave(seatID)", "return err"] then (t, r.2.1.map .sm)
       else if g = ["sm.Leave(seatID)", "delete(Players, seatID)", "nil"] then (({ t with sm := r.1 }).setPl seat.toNat none, none)
       else (t, some .badInput)) := by
  unfold leave tbLeave
  rcases t.sm.step (.leave seat) with ⟨sm', e, r⟩
  cases e <;> simp

/-- table.go `Leave`: `leave`, its error passed on -/
theorem tbLeaveOp_eq (t : Table) (seat : Int) :
    t.step (.leave seat) =
      (let l := t.leave seat
       let g := tbLeaveOp l.2.isSome
       if g = ["leave(seatID)", "return err"] then (l.1, { err := l.2 })
       else if g = ["leave(seatID)", "emitStateUpdated", "nil"] then (l.1, {})
       else (t, { err := some .badInput })) := by
  unfold Table.step tbLeaveOp
  rcases hl : t.leave seat with ⟨t', e⟩
  cases e <;> simp [hl]

/-- closed form of table.go `Activate`: `sm.Seat` first; `nil` is returned whatever happens; a new game is requested
    exactly when the seat exists, the table runs, is idle, and `GetPlayerCount() >= InitialPlayers` -/
theorem tbActivate_closed (fails running : Bool) (status : String) (pc init : Int) :
    tbActivate fails running status pc init =
      ["sm.Seat(seatID)"] ++ (if !fails && running && status == "idle" && decide (pc ≥ init) then ["NewGame(0)"] else []) ++ ["nil"] := by
  unfold tbActivate
  cases fails <;> cases running <;> by_cases h : status = "idle" <;> by_cases h2 : pc ≥ init <;> simp [h, h2]

/-- table.go `Activate`: the seat manager's `Seat`, whose error is swallowed (the table loop that `NewGame` wakes up is
    outside the model) -/
theorem tbActivate_eq (t : Table) (seat : Int) (running : Bool) (status : String) (pc init : Int) :
    t.step (.activate seat) =
      (let r := t.sm.step (.seat seat)
       let g := tbActivate r.2.1.isSome running status pc init
       if g.head? = some "sm.Seat(seatID)" ∧ g.getLast? = some "nil" then ({ t with sm := r.1 }, {})
       else if g.getLast? = some "return err" then ({ t with sm := r.1 }, { err := r.2.1.map .sm })
       else (t, { err := some .badInput })) := by
  simp only [tbActivate_closed]
  unfold Table.step
  generalize (!(t.sm.step (.seat seat)).2.1.isSome && running && status == "idle" && decide (pc ≥ init)) = c
  cases c <;> simp

/-- table.go `Reserve`: the seat manager's `Reserve`, its error passed on -/
theorem tbReserve_eq (t : Table) (seat : Int) :
    tbReserve = ["sm.Reserve(seatID)"] ∧
    t.step (.reserve seat) =
      (match t.sm.step (.reserve seat) with
       | (_, some e, _) => (t, { err := some (.sm e) })
       | (sm', none, _) => ({ t with sm := sm' }, {})) := ⟨by decide, rfl⟩

/-! ### match/table.go `Join`, `ApplySeatChanges` ("left"), `GetPlayers` -/

/-- what the `mt join` line of Driver/Main.lean evaluates -/
def tbMtJoin (sm : SM) (seat : Int) (pid : Nat) (chose : Option Nat) : SM × Option SMErr :=
  ((sm.step (.join seat pid chose)).1, (sm.step (.join seat pid chose)).2.1)

/-- what the `mt left` line of Driver/Main.lean evaluates (`none`: the seat does not exist, the Go code dereferences nil) -/
def tbMtLeft (sm : SM) (i : Nat) : Option SM :=
  match sm.seats[i]? with
  | none => none
  | some st => if st.player.isNone then some sm else some (sm.step (.leave (i : Int))).1

/-- closed form of match/table.go `Join`: `sm.Join` is called; its error is returned and no callback runs; otherwise
    `onPlayerJoined(playerID, sid)` with the seat OBTAINED, whatever seat was asked for -/
theorem tbMatchJoin_closed {P : Type} (pid : P) (seatID : Int) (fails : Bool) (sid : Int) :
    tbMatchJoin pid seatID fails sid = (fails, true, if fails then [] else [("onPlayerJoined", pid, sid)]) := by
  unfold tbMatchJoin; cases fails <;> rfl

/-- match/table.go `Join` on the seat-manager model: the error returned is the seat manager's, the seat manager is the
    one `Join` leaves, the callback carries the seat `Join` returned -/
theorem tbMatchJoin_eq (sm : SM) (seat : Int) (pid : Nat) (chose : Option Nat) :
    (let r := sm.step (.join seat pid chose)
     let g := tbMatchJoin pid seat r.2.1.isSome ((r.2.2.map Int.ofNat).getD (-1))
     tbMtJoin sm seat pid chose = (if g.2.1 then r.1 else sm, if g.1 then r.2.1 else none) ∧
     g.2.2 = if r.2.1.isSome then [] else [("onPlayerJoined", pid, (r.2.2.map Int.ofNat).getD (-1))]) := by
  simp only [tbMatchJoin_closed, tbMtJoin]
  rcases sm.step (.join seat pid chose) with ⟨sm', e, r⟩
  cases e <;> simp

/-- closed form of one iteration of the loop of `ApplySeatChanges`: a seat not reported "left", or holding nobody, is
    skipped; otherwise `sm.Leave(seatID)`, then `onPlayerLeft` with the player the seat held -/
theorem tbMatchLeftStep_closed {P : Type} (state : String) (occupied : Bool) (player : P) (seatID : Int) :
    tbMatchLeftStep state occupied player seatID =
      if state = "left" ∧ occupied then [("sm.Leave", player, seatID), ("onPlayerLeft", player, seatID)] else [] := by
  unfold tbMatchLeftStep
  by_cases h : state = "left" <;> cases occupied <;> simp [h]

/-- the `mt left` line is the translated iteration, its `sm.Leave` read as the seat manager's `Leave` (error ignored) -/
theorem tbMatchLeft_eq (sm : SM) (i : Nat) :
    tbMtLeft sm i = (sm.seats[i]?).map fun st =>
      (tbMatchLeftStep "left" st.player.isSome (st.player.getD 0) (i : Int)).foldl
        (fun sm e => if e.1 = "sm.Leave" then (sm.step (.leave e.2.2)).1 else sm) sm := by
  unfold tbMtLeft
  simp only [tbMatchLeftStep_closed]
  cases sm.seats[i]? with
  | none => rfl
  | some st => cases hp : st.player <;> simp [hp]

/-- one iteration of the loop of `GetPlayers`: the player of an occupied seat is appended -/
theorem tbMatchPlayersStep_closed {P : Type} (has : Bool) (p : P) (acc : List P) :
    tbMatchPlayersStep has p acc = if has then acc ++ [p] else acc := by
  unfold tbMatchPlayersStep; cases has <;> rfl

/-- match/table.go `GetPlayers`: the players of the occupied seats, in seat order (the `players=` field of the `mt` lines) -/
theorem tbMatchPlayers_eq (sm : SM) :
    sm.seats.filterMap (·.player) =
      sm.seats.foldl (fun acc s => tbMatchPlayersStep s.player.isSome (s.player.getD 0) acc) [] := by
  simp only [tbMatchPlayersStep_closed]
  suffices h : ∀ (l : List Seat) (acc : List Nat),
      l.foldl (fun acc s => if s.player.isSome then acc ++ [s.player.getD 0] else acc) acc = acc ++ l.filterMap (·.player) by
    simpa using (h sm.seats []).symm
  intro l
  induction l with
  | nil => simp
  | cons s l ih => intro acc; cases hp : s.player <;> simp [ih, hp, List.filterMap_cons]

/-! ### what the translated definitions compute, on concrete inputs (non-vacuity) -/

example : tbSetupStep true 3 (some 3) (some 3) (some 5) false true [] false = ("GetPlayerByID(s.Player.ID)", ["dealer", "sb"], true) := by decide
example : tbSetupStep true 5 (some 3) (some 3) (some 5) true true ["dealer"] true = ("GetPlayerByID(s.Player.ID)", ["bb"], false) := by decide
example : tbPrepareNextGame false 0 3 2 (fun _ => false) false 2 false 1 false =
    ["checkEndConditions", "setupPosition", "GetPlayableSeatCount", "ErrInsufficientNumberOfPlayers"] := by decide
example : tbPrepareNextGame false 1 3 2 (fun _ => false) false 2 false 2 false =
    ["checkEndConditions", "setupPosition", "GetPlayableSeatCount", "startGame", "checkEndConditions", "setupPosition", "nil"] := by decide
example : tbStartGame 4 true true = (4, true, tbStartPrefix ++ ["return err"]) := by decide
example : tbStartGame 4 true false = (5, false, tbStartPrefix ++ ["wait", "nil"]) := by decide
example : tbUpdateStep true 0 70 "leave" = (0, ["GetPlayerByGameIdx(rs.Idx)", "sm.Reserve(p.SeatID)", "leave(p.SeatID)"]) := by decide
example : tbMatchJoin "p1" (-1) false 4 = (false, true, [("onPlayerJoined", "p1", 4)]) := by decide

end Pokerface.GeneratedLogic
