/-
  C20 `rebalancing_settles`: every elimination-free sync that asks for something
  lowers the measure; the measure is bounded, hence so is the number of such syncs.
-/
import Pokerface.Proofs.RegMeasureSync

namespace Pokerface
open Reg

namespace Reg

/-! ### a numeric potential from the lexicographic measure -/

def enc (W m1 : Nat) (v : Vec) : Nat :=
  ((((m1 * W + v.m2) * W + v.b) * W + v.a) * W + v.s) * W + v.l

theorem step_lt {a' a y' y W : Nat} (h : a' < a ∨ (a' = a ∧ y' < y)) (hy : y' < W) :
    a' * W + y' < a * W + y := by
  rcases h with h | ⟨h1, h2⟩
  · have := Nat.mul_le_mul_right W (show a' + 1 ≤ a from h)
    rw [Nat.add_mul, Nat.one_mul] at this
    omega
  · subst h1; omega

theorem step_le {a' a y' y W : Nat} (h : a' < a ∨ (a' = a ∧ y' ≤ y)) (hy : y' < W) :
    a' * W + y' ≤ a * W + y := by
  rcases h with h | ⟨h1, h2⟩
  · have := Nat.mul_le_mul_right W (show a' + 1 ≤ a from h)
    rw [Nat.add_mul, Nat.one_mul] at this
    omega
  · subst h1; omega

/-- all components of a vector are below `W` -/
def Vec.below (v : Vec) (W : Nat) : Prop := v.m2 < W ∧ v.b < W ∧ v.a < W ∧ v.s < W ∧ v.l < W

theorem enc_lt {W m1' m1 : Nat} {v' v : Vec} (hb : v'.below W)
    (h : m1' < m1 ∨ (m1' = m1 ∧ lexLt v' v)) : enc W m1' v' < enc W m1 v := by
  obtain ⟨b1, b2, b3, b4, b5⟩ := hb
  unfold lexLt at h
  unfold enc
  apply step_lt _ b5
  by_cases e5 : (((m1' * W + v'.m2) * W + v'.b) * W + v'.a) * W + v'.s < (((m1 * W + v.m2) * W + v.b) * W + v.a) * W + v.s
  · exact Or.inl e5
  · right
    -- all earlier components are equal
    have k4 : ¬ (((m1' * W + v'.m2) * W + v'.b) * W + v'.a < ((m1 * W + v.m2) * W + v.b) * W + v.a) :=
      fun hh => e5 (step_lt (Or.inl hh) b4)
    have k3 : ¬ ((m1' * W + v'.m2) * W + v'.b < (m1 * W + v.m2) * W + v.b) :=
      fun hh => k4 (step_lt (Or.inl hh) b3)
    have k2 : ¬ (m1' * W + v'.m2 < m1 * W + v.m2) := fun hh => k3 (step_lt (Or.inl hh) b2)
    have k1 : ¬ (m1' < m1) := fun hh => k2 (step_lt (Or.inl hh) b1)
    have h1 : m1' = m1 := by omega
    subst h1
    have hm2 : ¬ (v'.m2 < v.m2) := fun hh => k2 (step_lt (Or.inr ⟨rfl, hh⟩) b1)
    have h2 : v'.m2 = v.m2 := by omega
    have hb' : ¬ (v'.b < v.b) := fun hh => k3 (step_lt (Or.inr ⟨by rw [h2], hh⟩) b2)
    have h3 : v'.b = v.b := by omega
    have ha' : ¬ (v'.a < v.a) := fun hh => k4 (step_lt (Or.inr ⟨by rw [h2, h3], hh⟩) b3)
    have h4 : v'.a = v.a := by omega
    have hs' : ¬ (v'.s < v.s) := fun hh => e5 (step_lt (Or.inr ⟨by rw [h2, h3, h4], hh⟩) b4)
    have h5 : v'.s = v.s := by omega
    refine ⟨by rw [h2, h3, h4, h5], by omega⟩

theorem enc_le {W m1' m1 : Nat} {v' v : Vec} (hb : v'.below W)
    (h : m1' < m1 ∨ (m1' = m1 ∧ lexLe v' v)) : enc W m1' v' ≤ enc W m1 v := by
  obtain ⟨b1, b2, b3, b4, b5⟩ := hb
  unfold lexLe at h
  unfold enc
  apply step_le _ b5
  by_cases e5 : (((m1' * W + v'.m2) * W + v'.b) * W + v'.a) * W + v'.s < (((m1 * W + v.m2) * W + v.b) * W + v.a) * W + v.s
  · exact Or.inl e5
  · right
    have k4 : ¬ (((m1' * W + v'.m2) * W + v'.b) * W + v'.a < ((m1 * W + v.m2) * W + v.b) * W + v.a) :=
      fun hh => e5 (step_lt (Or.inl hh) b4)
    have k3 : ¬ ((m1' * W + v'.m2) * W + v'.b < (m1 * W + v.m2) * W + v.b) :=
      fun hh => k4 (step_lt (Or.inl hh) b3)
    have k2 : ¬ (m1' * W + v'.m2 < m1 * W + v.m2) := fun hh => k3 (step_lt (Or.inl hh) b2)
    have k1 : ¬ (m1' < m1) := fun hh => k2 (step_lt (Or.inl hh) b1)
    have h1 : m1' = m1 := by omega
    subst h1
    have hm2 : ¬ (v'.m2 < v.m2) := fun hh => k2 (step_lt (Or.inr ⟨rfl, hh⟩) b1)
    have h2 : v'.m2 = v.m2 := by omega
    have hb' : ¬ (v'.b < v.b) := fun hh => k3 (step_lt (Or.inr ⟨by rw [h2], hh⟩) b2)
    have h3 : v'.b = v.b := by omega
    have ha' : ¬ (v'.a < v.a) := fun hh => k4 (step_lt (Or.inr ⟨by rw [h2, h3], hh⟩) b3)
    have h4 : v'.a = v.a := by omega
    have hs' : ¬ (v'.s < v.s) := fun hh => e5 (step_lt (Or.inr ⟨by rw [h2, h3, h4], hh⟩) b4)
    have h5 : v'.s = v.s := by omega
    refine ⟨by rw [h2, h3, h4, h5], by omega⟩

def pot (W : Nat) (r : Reg) : Nat := enc W (mu1 r) (muv r)

theorem pot_lt {W : Nat} {r' r : Reg} (hb : (muv r').below W) (h : MLt r' r) : pot W r' < pot W r :=
  enc_lt hb h

theorem pot_le {W : Nat} {r' r : Reg} (hb : (muv r').below W) (h : MLe r' r) : pot W r' ≤ pot W r :=
  enc_le hb h

/-! ### the components are bounded -/

theorem tot_le (g : RTable → Nat) (ts : List RTable) (c : Nat) (h : ∀ t ∈ ts, g t ≤ c) :
    tot g ts ≤ ts.length * c := by
  induction ts with
  | nil => simp [tot]
  | cons t ts ih =>
    rw [tot_cons, List.length_cons, Nat.add_mul, Nat.one_mul]
    have := h t (List.mem_cons_self ..)
    have := ih (fun t' ht' => h t' (List.mem_cons_of_mem _ ht'))
    omega

theorem flr_bounds (r : Reg) (hwf : WF r) (hpc : 0 ≤ r.playerCount) : 0 ≤ flr r ∧ flr r ≤ r.max := by
  unfold flr
  by_cases hR : 0 < r.requiredTables
  · exact ⟨floor_nonneg hpc hR, floor_le_max hR (le_ceilDiv_mul r.playerCount r.max hwf.maxpos)⟩
  · have h0 := ceilDiv_nonneg r.playerCount r.max hwf.maxpos hpc
    have : r.requiredTables = 0 := by unfold requiredTables at hR ⊢; omega
    rw [this]; simp

theorem muv_below (r : Reg) (h : RInv r) (Tmax : Nat) (hT : r.tables.length ≤ Tmax) :
    (muv r).below (Tmax * r.max + Tmax + 1) := by
  by_cases z : zeroed r
  · rw [muv_pos z]; unfold Vec.below; simp only; omega
  · rw [muv_neg z]
    have hpc : 0 ≤ r.playerCount := by
      rw [h.cnt]
      have := sumCount_nonneg r.tables (fun t ht => (h.wf.bnd t ht).1)
      omega
    obtain ⟨f0, f1⟩ := flr_bounds r h.wf hpc
    have hlen : r.tables.length * r.max ≤ Tmax * r.max := Nat.mul_le_mul_right _ hT
    have hlen1 : r.tables.length * 1 ≤ Tmax * 1 := Nat.mul_le_mul_right _ hT
    have c1 := tot_le (dF (flr r)) r.tables 1 (fun t _ => by simp only [dF]; omega)
    have c2 := tot_le (bF (flr r)) r.tables r.max (fun t ht => by
      have := h.wf.bnd t ht
      simp only [bF]; split <;> omega)
    have c3 := tot_le (aF (flr r)) r.tables 1 (fun t _ => by simp only [aF]; omega)
    have c4 := tot_le (sF (flr r)) r.tables r.max (fun t ht => by
      have := h.wf.bnd t ht
      simp only [sF]; omega)
    have c5 := tot_le (lF (flr r)) r.tables r.max (fun t ht => by
      have := h.wf.bnd t ht
      simp only [lF]; omega)
    unfold Vec.below vecOf
    simp only
    omega

end Reg

namespace RSys

/-- one elimination-free sync from a state satisfying the invariant -/
theorem quiet_step {s : RSys} (h : SInv s) (t : Nat) (stay rel keep ch : List Nat)
    (hok : s.ok (.sync t [] stay rel keep ch)) :
    MLe (s.step (.sync t [] stay rel keep ch)).r s.r ∧
    (s.asks (.sync t [] stay rel keep ch) = true → MLt (s.step (.sync t [] stay rel keep ch)).r s.r) ∧
    SameNeeds s.r (s.step (.sync t [] stay rel keep ch)).r ∧
    ((s.step (.sync t [] stay rel keep ch)).r.tableCount ≤ s.r.tableCount ∨
      (s.step (.sync t [] stay rel keep ch)).r.tableCount ≤ s.r.requiredTables) := by
  have hsa : s.syncAnswer t [] = s.r.syncState t 0 := rfl
  cases hm : s.env.membersOf t with
  | none =>
    have hft := (h.unknown_iff t).1 hm
    have h1 : (s.syncAnswer t []).1 = s.r.beginOp [] := by
      simp only [syncAnswer, syncState_eq, hft]
    have hstep : (s.step (.sync t [] stay rel keep ch)).r = s.r.beginOp [] := by
      simp only [step, hm, h1]
    rw [hstep]
    refine ⟨MLe_of_congr rfl rfl rfl rfl, ?_, ⟨rfl, rfl⟩, Or.inl (Int.le_refl _)⟩
    intro ha
    simp [asks, hm] at ha
  | some ms =>
    have hok' := hok
    simp only [ok, hm] at hok'
    rw [show s.syncAnswer t [] = ((s.syncAnswer t []).1, (s.syncAnswer t []).2.1,
      (s.syncAnswer t []).2.2.1, (s.syncAnswer t []).2.2.2) from rfl] at hok'
    simp only [] at hok'
    obtain ⟨hp1, hp2, hrl, hkeep, hrelbad⟩ := hok'
    obtain ⟨r1, relc, nw, t0, hft, hc0, hans, post⟩ := sync_facts h t [] stay ms hm hp1
    have hss : s.r.syncState t 0 = (r1, none, relc, nw) := hsa ▸ hans
    obtain ⟨m1, m2⟩ := syncState_meas s.r t t0 h.rinv hft
    obtain ⟨n1, n2⟩ := syncState_tc s.r t
    rw [hss] at m1 m2 n1 n2
    simp only at m1 m2 n1 n2
    have hbrk : s.broken t [] = (r1.findTable t).isNone := by simp only [broken, hans]
    have hask : s.asks (.sync t [] stay rel keep ch) = true →
        (relc ≠ 0 ∨ nw ≠ [] ∨ r1.findTable t = none) := by
      intro ha
      simp only [asks, hm, hans, hbrk, Option.isSome_some, Bool.true_and, Bool.or_eq_true,
        decide_eq_true_eq, Bool.not_eq_true', List.isEmpty_eq_false_iff, Option.isNone_iff_eq_none] at ha
      rcases ha with (h1 | h1) | h1
      · exact Or.inl h1
      · exact Or.inr (Or.inl h1)
      · exact Or.inr (Or.inr h1)
    by_cases hc : rel.isEmpty = true ∧ s.broken t [] = false
    · have hstep : (s.step (.sync t [] stay rel keep ch)).r = r1 := by
        simp only [step, hm, hans, hc, and_self, if_true]
      rw [hstep]
      refine ⟨m1, fun ha => m2 (hask ha), n1, ?_⟩
      rcases n2 with n2 | ⟨n2, _⟩
      · exact Or.inl (by omega)
      · exact Or.inl (by omega)
    · have hstep : (s.step (.sync t [] stay rel keep ch)).r = r1.releasePlayers rel ch := by
        simp only [step, hm, hans]
        rw [if_neg hc]
      have hbad : (r1.releasePlayers rel ch).badChoice = false := by
        rw [hans] at hrelbad
        simp only at hrelbad
        rcases hrelbad with h1 | h1
        · exact absurd h1 hc
        · exact h1
      rw [hstep]
      have m3 := releasePlayers_meas r1 rel ch post.wf hbad
      obtain ⟨k1, k2, k3⟩ := releasePlayers_tc r1 rel ch (by rw [n1.max]; exact h.rinv.wf.maxpos)
      refine ⟨MLe_trans m3 m1, fun ha => MLt_of_le_lt m3 (m2 (hask ha)), n1.trans k1, ?_⟩
      rcases k3 with k3 | k3
      · rcases n2 with n2 | ⟨n2, _⟩
        · exact Or.inl (by omega)
        · exact Or.inl (by omega)
      · exact Or.inr (by rw [n1.req] at k3; exact k3)

/-- the number of asking syncs of an elimination-free script is at most the potential -/
theorem askCount_le (mx Tmax : Nat) : ∀ (ops : List EOp) (s : RSys), SInv s → s.r.max = mx →
    s.r.tableCount ≤ Tmax → s.r.requiredTables ≤ Tmax →
    (∀ op ∈ ops, quietOp op = true) → s.allOk ops →
    s.askCount ops ≤ pot (Tmax * mx + Tmax + 1) s.r := by
  intro ops
  induction ops with
  | nil => intro s _ _ _ _ _ _; exact Nat.zero_le _
  | cons op ops ih =>
    intro s h hmx hT hR hq hok
    have hqo := hq op (List.mem_cons_self ..)
    cases op with
    | add ps ch => simp [quietOp] at hqo
    | status st ch => simp [quietOp] at hqo
    | sync t elim stay rel keep ch =>
      have he : elim = [] := by simpa [quietOp] using hqo
      subst he
      obtain ⟨q1, q2, q3, q4⟩ := quiet_step h t stay rel keep ch hok.1
      have hS' := (h.step_full _ hok.1).1
      have hmx' : (s.step (.sync t [] stay rel keep ch)).r.max = mx := by rw [q3.max, hmx]
      have hR' : (s.step (.sync t [] stay rel keep ch)).r.requiredTables ≤ Tmax := by rw [q3.req]; exact hR
      have hT' : (s.step (.sync t [] stay rel keep ch)).r.tableCount ≤ Tmax := by
        rcases q4 with q4 | q4 <;> omega
      have hrec := ih (s.step (.sync t [] stay rel keep ch)) hS' hmx' hT' hR'
        (fun op hop => hq op (List.mem_cons_of_mem _ hop)) hok.2
      have hlen : (s.step (.sync t [] stay rel keep ch)).r.tables.length ≤ Tmax := by
        have := hS'.rinv.wf.tc; omega
      have hbel := muv_below _ hS'.rinv Tmax hlen
      rw [hmx'] at hbel
      simp only [askCount]
      by_cases ha : s.asks (.sync t [] stay rel keep ch) = true
      · have := pot_lt hbel (q2 ha)
        rw [if_pos ha]; omega
      · have := pot_le hbel q1
        rw [if_neg ha]; omega

end RSys
end Pokerface
