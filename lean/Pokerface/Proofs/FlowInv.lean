import Pokerface.Proofs.FlowFrames
/-
  The flow invariant `Flow` (C05/C06): result present exactly when closed, what the round
  field is at each wait point, the seat to act has not acted, later streets only open for
  betting with two stacks, a showdown happens on the river.
-/
namespace Pokerface
open Game

structure Flow (g : Game) : Prop where
  res : g.result.isSome = true ↔ g.event = .gameClosed
  ante : g.event = .anteRequested → 0 < g.opts.ante ∧ g.round = .none
  blinds : g.event = .blindsRequested → g.round = .preflop
  rnd0 : g.round = .none → (g.event = .readyRequested ∨ g.event = .anteRequested) ∧ ∀ p ∈ g.players, p.wager = 0
  acted : g.event = .roundStarted → ∀ p, g.players[g.cur]? = some p → p.acted = false
  ready2 : g.event = .readyRequested → g.round ≠ .none → g.round ≠ .preflop → 2 ≤ g.movableCount
  closed : g.event = .gameClosed → g.aliveCount = 1 ∨ g.round = .river

/-! ### establishing `Flow` at the end of each chain -/

theorem flow_roundClosed (g : Game) (hres : g.result = none) (hr : g.round ≠ .none) : Flow g.roundClosed := by
  have he : g.roundClosed.event = .roundClosed := rfl
  have hq := quiet_roundClosed g
  refine ⟨?_, ?_, ?_, ?_, ?_, ?_, ?_⟩
  · rw [hq.result, hres, he]; simp
  · rw [he]; intro h; cases h
  · rw [he]; intro h; cases h
  · rw [hq.round]; intro h; exact absurd h hr
  · rw [he]; intro h; cases h
  · rw [he]; intro h; cases h
  · rw [he]; intro h; cases h

theorem flow_requestReady (g : Game) (hres : g.result = none)
    (h0 : g.round = .none → ∀ p ∈ g.players, p.wager = 0)
    (h2 : g.round ≠ .none → g.round ≠ .preflop → 2 ≤ g.movableCount) : Flow g.requestReady := by
  have he : g.requestReady.event = .readyRequested := rfl
  have hq := quiet_requestReady g
  refine ⟨?_, ?_, ?_, ?_, ?_, ?_, ?_⟩
  · rw [hq.result, hres, he]; simp
  · rw [he]; intro h; cases h
  · rw [he]; intro h; cases h
  · rw [hq.round]; intro h
    refine ⟨Or.inl he, ?_⟩
    have hw := map_wager_of_chips (noChip_requestReady g).chips
    intro p hp
    have : p.wager ∈ g.requestReady.players.map (·.wager) := List.mem_map_of_mem (f := (·.wager)) hp
    rw [hw] at this
    obtain ⟨q, hq, hqe⟩ := List.mem_map.mp this
    rw [← hqe]; exact h0 h q hq
  · rw [he]; intro h; cases h
  · rw [hq.round, (mov_requestReady g).movable]; intro _; exact h2
  · rw [he]; intro h; cases h

theorem flow_prepareRound (g : Game) (hres : g.result = none) (hr : g.round ≠ .none) : Flow g.prepareRound := by
  unfold Game.prepareRound
  split
  · rename_i h
    exact flow_requestReady g hres (fun h0 => absurd h0 hr) (fun _ h1 => absurd h h1)
  · split
    · exact flow_roundClosed g hres hr
    · rename_i h
      exact flow_requestReady g hres (fun h0 => absurd h0 hr) (fun _ _ => by omega)

theorem flow_requestBlinds (g : Game) (hres : g.result = none) (hr : g.round = .preflop) : Flow g.requestBlinds := by
  unfold Game.requestBlinds
  split
  · exact flow_prepareRound _ hres (by show g.round ≠ .none; rw [hr]; simp)
  · have he : (g.setEvent .blindsRequested).event = .blindsRequested := rfl
    refine ⟨?_, ?_, ?_, ?_, ?_, ?_, ?_⟩
    · rw [he]; show g.result.isSome = true ↔ _; rw [hres]; simp
    · rw [he]; intro h; cases h
    · intro _; exact hr
    · show g.round = .none → _; rw [hr]; intro h; cases h
    · rw [he]; intro h; cases h
    · rw [he]; intro h; cases h
    · rw [he]; intro h; cases h

theorem flow_afterRoundInitialized (g : Game) (hres : g.result = none) (hr : g.round ≠ .none) :
    Flow g.afterRoundInitialized := by
  unfold Game.afterRoundInitialized
  split
  · rename_i h; exact flow_requestBlinds g hres h
  · exact flow_prepareRound g hres hr

theorem dealStreet_result (g : Game) : g.dealStreet.result = g.result := by
  unfold Game.dealStreet
  have hh : ∀ (k i : Nat) (g : Game), (dealHoles k i g).result = g.result := by
    intro k
    induction k with
    | zero => intro i g; rfl
    | succ k ih => intro i g; unfold Game.dealHoles; rw [ih]; rfl
  split
  · exact hh _ _ _
  · rfl
  · rfl
  · rfl
  · rfl

theorem flow_initializeRound (g : Game) (hres : g.result = none) (hr : g.round ≠ .none) : Flow g.initializeRound := by
  unfold Game.initializeRound
  apply flow_afterRoundInitialized
  · show g.dealStreet.result = none
    rw [dealStreet_result]; exact hres
  · show g.dealStreet.round ≠ .none
    rw [dealStreet_round]; exact hr

theorem flow_enterRound (g : Game) (r : Round) (hres : g.result = none) (hr : r ≠ .none) : Flow (g.enterRound r) :=
  flow_initializeRound _ hres hr

theorem flow_getElem?_nextIdx {g : Game} (hs : Struct g) : ∃ p, g.players[g.nextIdx]? = some p := by
  have := nextIdx_lt hs
  simp only [Game.n] at this
  exact ⟨g.players[g.nextIdx], by simp [this]⟩

/-- what `requestPlayerAction` yields: the round is closed, or the next seat, which has not
    acted, is asked; the `acted` flags are untouched in the latter case -/
theorem requestPlayerAction_cases (g : Game) (hs : Struct g) :
    (g.requestPlayerAction = g.roundClosed) ∨
    (g.requestPlayerAction = g.setCurrentPlayer g.nextIdx ∧ g.aliveCount ≠ 1 ∧ g.movableCount ≠ 0 ∧
      ∃ p, g.players[g.nextIdx]? = some p ∧ p.acted = false) := by
  unfold Game.requestPlayerAction
  split
  · exact Or.inl rfl
  · split
    · exact Or.inl rfl
    · rename_i h1 h2
      split
      · rename_i hnone
        obtain ⟨p, hp⟩ := flow_getElem?_nextIdx hs
        rw [hp] at hnone; cases hnone
      · rename_i p hp
        split
        · exact Or.inl rfl
        · rename_i h3
          exact Or.inr ⟨rfl, h1, h2, p, hp, by simpa using h3⟩

theorem flow_requestPlayerAction (g : Game) (hs : Struct g) (he : g.event = .roundStarted)
    (hres : g.result = none) (hr : g.round ≠ .none) : Flow g.requestPlayerAction := by
  rcases requestPlayerAction_cases g hs with h | ⟨h, _, _, p, hp, hpa⟩
  · rw [h]; exact flow_roundClosed g hres hr
  · rw [h]
    have hev : (g.setCurrentPlayer g.nextIdx).event = .roundStarted := he
    have hq := quiet_setCurrentPlayer g g.nextIdx
    refine ⟨?_, ?_, ?_, ?_, ?_, ?_, ?_⟩
    · rw [hq.result, hres, hev]; simp
    · rw [hev]; intro h; cases h
    · rw [hev]; intro h; cases h
    · rw [hq.round]; intro h; exact absurd h hr
    · intro _ q hq'
      have hc : (g.setCurrentPlayer g.nextIdx).cur = g.nextIdx := rfl
      rw [hc] at hq'
      have := (acts_setCurrentPlayer g g.nextIdx).getElem g.nextIdx
      rw [hq', hp] at this
      simp at this
      rw [this]; exact hpa
    · rw [hev]; intro h; cases h
    · rw [hev]; intro h; cases h

theorem flow_openRound (g : Game) (hs : Struct g) (hres : g.result = none) (hr : g.round ≠ .none) : Flow g.openRound :=
  flow_requestPlayerAction _ (struct_same (g := g) (g' := g.setEvent .roundStarted) rfl rfl hs) rfl hres hr

theorem flow_startRound' (g : Game) (hs : Struct g) (hres : g.result = none) (hr : g.round ≠ .none) :
    Flow g.startRound' := by
  unfold Game.startRound'
  have h1 := noChip_setCurrentPlayer_dealer g
  have q1 := quiet_setCurrentPlayer g g.dealerIdx
  split
  · split
    · exact flow_roundClosed g hres hr
    · have q2 := q1.trans (quiet_seekBB g.n (g.setCurrentPlayer g.dealerIdx))
      exact flow_openRound _ ((noChip_seekBB _ _).struct (h1.struct hs)) (by rw [q2.result]; exact hres)
        (by rw [q2.round]; exact hr)
  · exact flow_openRound _ (h1.struct hs) (by rw [q1.result]; exact hres) (by rw [q1.round]; exact hr)

theorem flow_startRound (g : Game) (hs : Struct g) (hres : g.result = none) (hr : g.round ≠ .none) : Flow g.startRound :=
  flow_startRound' _ ((noChip_resetAllAllowed g).struct hs) hres hr

theorem flow_gameCompleted (g : Game) (hr : g.round ≠ .none) (hc : g.aliveCount = 1 ∨ g.round = .river) :
    Flow g.gameCompleted := by
  have he : g.gameCompleted.event = .gameClosed := rfl
  refine ⟨?_, ?_, ?_, ?_, ?_, ?_, ?_⟩
  · rw [he]; simp [Game.gameCompleted, Game.setEvent, Game.calculateGameResults]
  · rw [he]; intro h; cases h
  · rw [he]; intro h; cases h
  · intro h; exact absurd h hr
  · rw [he]; intro h; cases h
  · rw [he]; intro h; cases h
  · intro _
    rw [(mov_gameCompleted g).alive]; exact hc

theorem flow_nextRound' (g : Game) (hres : g.result = none) (hr : g.round ≠ .none) : Flow g.nextRound' := by
  unfold Game.nextRound'
  split
  · rename_i h; exact flow_gameCompleted g hr (Or.inl h)
  · split
    · exact flow_enterRound g _ hres (by simp)
    · exact flow_enterRound g _ hres (by simp)
    · exact flow_enterRound g _ hres (by simp)
    · rename_i h; exact flow_gameCompleted g hr (Or.inr h)
    · rename_i h; exact absurd h hr

end Pokerface
