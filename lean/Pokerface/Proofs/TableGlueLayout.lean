/-
  The glue between the seat manager and the hand engine, part 5: the layout of the undisturbed hand-off
  (a `setupPosition` that ran `Next()`, the game made from its positions).
-/
import Pokerface.Proofs.TableGlueHand

namespace Pokerface
namespace Table
open SM

/-- the setting `startGame` makes for a playable seat right after a `setupPosition` that ran `Next()`: the bankroll on
the sheet and the positions of the seat manager -/
theorem cfg_of_playable {t t' : Table} (h : TInv t) (hp : t.inPosition = false) (hs : t.setupPosition = (t', none))
    {i : Nat} (hi : t'.sm.playable i = true) :
    ∃ p', t'.players[i]? = some (some p') ∧
      t'.seatCfgAt i = { bankroll := p'.bankroll, dealer := decide (t'.sm.dealer = some i),
                         sb := decide (t'.sm.sb = some i),
                         bb := decide (t'.sm.sb ≠ some i) && decide (t'.sm.bb = some i) } := by
  have h' : TInv t' := by have := h.setupPosition; rwa [hs] at this
  obtain ⟨d, ks, kb, _, _, hpl⟩ := setup_nextOk h hp hs
  obtain ⟨p', hp'⟩ := h'.player_of_playable hi
  refine ⟨p', hp', ?_⟩
  have h1 := playerAt_eq_some.mpr hp'
  rw [hpl i] at h1
  cases hq : t.playerAt i with
  | none => rw [hq] at h1; cases h1
  | some p =>
    rw [hq] at h1
    simp only [Option.map_some, Option.some.injEq] at h1
    rw [seatCfgAt_copied (hpl i) hq, ← h1]
    rfl

/-- **Layout of the hand-off.**  After a `setupPosition` that ran a successful `Next()`: the playable seats clockwise
from the dealer are the dealer, (ring branch only) the small blind, the big blind, then seats that hold no position.
`ring` tells which branch `renewSeatStatus` took. -/
theorem handoff_layout {t t' : Table} (h : TInv t) (hp : t.inPosition = false) (hs : t.setupPosition = (t', none)) :
    ∃ (d s b : Nat) (rest : List Nat) (ring : Bool),
      t'.sm.dealer = some d ∧ t'.sm.sb = some s ∧ t'.sm.bb = some b ∧
      playableSeats t'.sm = some (if ring = true then d :: s :: b :: rest else d :: b :: rest) ∧
      (ring = false → s = d) ∧ (ring = true → d ≠ s) ∧ d ≠ b ∧ s ≠ b ∧
      (∀ x ∈ rest, x ≠ d ∧ x ≠ s ∧ x ≠ b) ∧
      (ring = true ↔ t.sm.nextDealer.1.playableCount ≠ 2) ∧
      d < t'.sm.max ∧ IsNextAfter t'.sm s b ∧ (ring = true → IsNextAfter t'.sm d s) := by
  obtain ⟨d, ks, kb, hn, _, _⟩ := setup_nextOk h hp hs
  obtain ⟨rest, hseats, hrest⟩ := playableSeats_nextOk hn
  have hks := hn.ks_lt
  have hkb := hn.kb_lt
  have h0 := hn.offset_zero
  have hdb : d ≠ (d + kb) % t.sm.max := by
    have := offset_ne (d := d) (j := 0) (k := kb) (m := t.sm.max) (by omega) hkb (by omega)
    rwa [h0] at this
  have hsb : (d + ks) % t.sm.max ≠ (d + kb) % t.sm.max := offset_ne (by omega) hkb (by omega)
  have hrest' : ∀ x ∈ rest, x ≠ d ∧ x ≠ (d + ks) % t.sm.max ∧ x ≠ (d + kb) % t.sm.max := by
    intro x hx
    obtain ⟨j, hj1, hj2, rfl⟩ := hrest x hx
    refine ⟨?_, offset_ne hj2 (by omega) (by omega), offset_ne hj2 hkb (by omega)⟩
    have := offset_ne (d := d) (j := j) (k := 0) (m := t.sm.max) hj2 (by omega) (by omega)
    rwa [h0] at this
  refine ⟨d, (d + ks) % t.sm.max, (d + kb) % t.sm.max, rest, decide (0 < ks), hn.dealer, hn.sb, hn.bb, ?_, ?_, ?_,
    hdb, hsb, hrest', ?_, by rw [hn.max_eq]; exact hn.d_lt, hn.bb_next_after_sb, ?_⟩
  · rw [hseats]
    by_cases hk : ks = 0
    · simp [hk]
    · have : 0 < ks := by omega
      simp [hk, this]
  · intro hr
    have : ks = 0 := by simpa using hr
    rw [this, h0]
  · intro hr
    have hpos : 0 < ks := by simpa using hr
    have := offset_ne (d := d) (j := 0) (k := ks) (m := t.sm.max) (by omega) (by omega) (by omega)
    rwa [h0] at this
  · rcases hn.branch with ⟨hc, hz⟩ | ⟨hc, hpos, _⟩
    · simp [hc, hz]
    · simp [hc, hpos]
  · intro hr
    have hpos : 0 < ks := by simpa using hr
    rcases hn.branch with ⟨_, hz⟩ | ⟨hc, _⟩
    · omega
    · exact hn.sb_next_after_dealer hc

end Table
end Pokerface
