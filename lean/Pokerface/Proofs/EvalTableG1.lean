import Pokerface.Proofs.EvalTable
/-! C03, step (i), group 1 of 8: kernel evaluation of the class check. -/
namespace Pokerface.C03

theorem nfGroup_1 : nfGroup 1 = true := by decide +kernel

end Pokerface.C03
