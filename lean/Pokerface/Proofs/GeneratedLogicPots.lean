import Pokerface.Model.View
import Pokerface.Generated.LogicPots
import Pokerface.Proofs.GeneratedLogicBase
import Pokerface.Proofs.Assoc
/-
  K1, translated logic (side pots, settlement, views): pot/level_list.go, settlement/*.go, game_state.go
  (`AsPlayer`, `AsObserver`), translated by `harness/cmd/genlogic` (cmd/genlogic/pots.go → Generated/LogicPots.lean,
  regenerated on every run).  Every theorem `…_eq` states that a function of the model (`Model/Pots.lean`,
  `Model/Settlement.lean`, `Model/View.lean`) is, for ALL arguments, what the translated definition says.  Loops are
  translated as a function of one iteration; the theorem states the model's recursion / fold / map in terms of that
  iteration.  Straight-line functions with several loops are translated as the list of steps they take, and the
  theorem interprets each step by the translated iteration of that loop.

  Go maps: `ll.contributors`, `ll.foldedPlayers`, `Pot.Contributors` are association lists sorted by key in the model
  (DESIGN §4).  The translated loop bodies are parametric in the map type and its update (`mapSet`, `mapAdd`); the
  theorems instantiate them with `assocSet` / `assocAdd`.  A key-sorted association list is determined by its set of
  bindings (`KeysSorted.eq_of_mem_iff`, Proofs/Assoc.lean), so the order in which a Go map iteration performs updates
  of distinct keys is immaterial; where the iteration order shows in the result (`Level.Contributors`) the lemma
  `potsContrib_perm` below states what is independent of it.
-/
set_option linter.unusedSimpArgs false
set_option linter.unusedVariables false
namespace Pokerface.GeneratedLogic
open Pokerface Game
open Pokerface.Generated.Logic

/-! ## pot/level_list.go -/

/-! ### `AssertLevel` -/

/-- one iteration of the search of `AssertLevel`: found iff the level values are equal -/
theorem potsAssertStep_eq (potLevel potWager potTotal level : Int) :
    potsAssertStep potLevel potWager potTotal level = (potLevel == level) := by
  unfold potsAssertStep; cases h : (potLevel == level) <;> simp [h]

/-- the constructor of the model's `Level` in the field order of level.go -/
def mkLevel (level wager total : Int) (contributors : List Nat) : Level :=
  { level := level, wager := wager, total := total, contributors := contributors }

/-- level_list.go `AssertLevel` as the model performs it inside `addContributor`: a level with that value is kept
    (the list is unchanged); otherwise a level `(level, 0, 0, [])` is appended -/
def assertLevel (levels : List Level) (level : Int) : List Level :=
  if levels.any (fun l => l.level == level) then levels
  else levels ++ [{ level := level, wager := 0, total := 0, contributors := [] }]

theorem potsAssertLevel_eq (levels : List Level) (level : Int) :
    assertLevel levels level =
      potsAssertLevel (levels.any fun l => potsAssertStep l.level l.wager l.total level) levels mkLevel level := by
  unfold assertLevel potsAssertLevel
  simp only [potsAssertStep_eq]
  cases h : levels.any (fun l => l.level == level) <;> simp [h, mkLevel]

/-! ### `AddContributor` -/

/-- the comparison function of `sort.Slice(ll.levels, …)`: by level value, whatever the other fields are -/
theorem potsLevelLess_eq (a wa ta b wb tb : Int) : potsLevelLess a wa ta b wb tb = decide (a < b) := rfl

/-- closed form of one iteration over `ll.contributors` for the level `potLevel`: the contributor is appended iff
    the level is at or below the wager -/
theorem potsContribStep_eq {I : Type} (potLevel potWager potTotal wager : Int) (idx : I) (c : List I) :
    potsContribStep potLevel potWager potTotal wager idx c = if potLevel ≤ wager then c ++ [idx] else c := by
  unfold potsContribStep; by_cases h : potLevel ≤ wager <;> simp [h]

/-- the translated iteration over any list of bindings: the keys of the bindings with `level ≤ wager`, in order -/
theorem foldl_contribStep (level w t : Int) (cs : List (Nat × Int)) (c : List Nat) :
    cs.foldl (fun c kv => potsContribStep level w t kv.2 kv.1 c) c
      = c ++ (cs.filter (fun kv => decide (level ≤ kv.2))).map (·.1) := by
  induction cs generalizing c with
  | nil => simp
  | cons kv cs ih =>
    rw [List.foldl_cons, ih, potsContribStep_eq, List.filter_cons]
    by_cases h : level ≤ kv.2 <;> simp [h]

/-- Go map iteration order of `ll.contributors`: whatever the order, the contributors of a level are a
    permutation of the model's (ascending) list — `Level.Contributors` is read for membership and length only -/
theorem potsContrib_perm (level w t : Int) (cs cs' : List (Nat × Int)) (hp : cs'.Perm cs) :
    (cs'.foldl (fun c kv => potsContribStep level w t kv.2 kv.1 c) []).Perm
      ((cs.filter (fun kv => decide (level ≤ kv.2))).map (·.1)) := by
  rw [foldl_contribStep]
  simpa using (hp.filter _).map _

/-- one iteration of "add contributors to each level": the list is reset, then the inner loop runs -/
theorem potsLevelContrib_eq {I : Type} (c0 : List I) (inner : List I → List I) :
    potsLevelContrib c0 inner = inner [] := rfl

/-- closed form of one iteration of "calculate total wagers": step = level − previous level, total = number of
    contributors of the level × step, the next previous level is this level; the old step and total and the number
    of all contributors are not read -/
theorem potsRetotalStep_eq (level prev n nAll w0 t0 : Int) :
    potsRetotalStep level prev n nAll w0 t0 = (level - prev, n * (level - prev), level) := rfl

/-- the loop "calculate total wagers" as the run of the translated iteration (`nAll`: `len(ll.contributors)`) -/
def retotalRun (nAll : Int) : Int → List Level → List Level
  | _, [] => []
  | prev, l :: ls =>
    let g := potsRetotalStep l.level prev l.contributors.length nAll l.wager l.total
    { l with wager := g.1, total := g.2.1 } :: retotalRun nAll g.2.2 ls

theorem retotalRun_eq (nAll prev : Int) (ls : List Level) : retotalRun nAll prev ls = retotal prev ls := by
  induction ls generalizing prev with
  | nil => rfl
  | cons l ls ih => simp [retotalRun, retotal, potsRetotalStep_eq, ih]

/-- the reading of the steps of `AddContributor(wager, idx, fold)`; `prev` is the translated start value of
    `prevLevel` -/
def addStep (wager : Int) (idx : Nat) (prev : Int) (ll : LevelList) (e : String) : LevelList :=
  if e = "contributors[contributorIdx] = wager" then { ll with contribs := assocSet ll.contribs idx wager }
  else if e = "foldedPlayers[contributorIdx] = true" then { ll with folded := setInsert ll.folded idx }
  else if e = "AssertLevel(wager)" then
    { ll with levels := potsAssertLevel (ll.levels.any fun l => potsAssertStep l.level l.wager l.total wager) ll.levels mkLevel wager }
  else if e = "sort levels" then
    { ll with levels := isort (fun a b => potsLevelLess a.level a.wager a.total b.level b.wager b.total) ll.levels }
  else if e = "contributors of each level" then
    { ll with levels := ll.levels.map fun l =>
        { l with contributors := potsLevelContrib l.contributors fun c0 =>
            ll.contribs.foldl (fun c kv => potsContribStep l.level l.wager l.total kv.2 kv.1 c) c0 } }
  else if e = "totals of each level" then { ll with levels := retotalRun ll.contribs.length prev ll.levels }
  else ll

/-- level_list.go `AddContributor`: the wager is recorded, the fold flag is recorded when set, the level is
    asserted, the levels are sorted by `potsLevelLess`, every level gets as contributors the keys of
    `ll.contributors` at or above it (`potsLevelContrib`, `potsContribStep`), and steps and totals are recomputed
    from `prevLevel = 0` (`potsRetotalStep`) — in this order -/
theorem potsAddContributor_eq (ll : LevelList) (wager : Int) (idx : Nat) (fold : Bool) :
    ll.addContributor wager idx fold =
      (let g := potsAddContributor fold
       g.2.foldl (addStep wager idx g.1) ll) := by
  have hless : (fun a b : Level => potsLevelLess a.level a.wager a.total b.level b.wager b.total)
      = (fun a b => decide (a.level < b.level)) := rfl
  cases fold <;>
    simp [LevelList.addContributor, potsAddContributor, addStep, ← potsAssertLevel_eq, assertLevel, hless,
      potsLevelContrib_eq, foldl_contribStep, retotalRun_eq]

/-! ### `GetPots` -/

/-- a pot as the tuple (Level, Wager, Total, Contributors, Levels) of the translated definitions -/
abbrev PotT := Int × Int × Int × List (Nat × Int) × List Level

def potOfTuple (t : PotT) : Pot :=
  { level := t.1, wager := t.2.1, total := t.2.2.1, contributors := t.2.2.2.1, levels := t.2.2.2.2 }

def tupleOfPot (p : Pot) : PotT := (p.level, p.wager, p.total, p.contributors, p.levels)

@[simp] theorem potOfTuple_tupleOfPot (p : Pot) : potOfTuple (tupleOfPot p) = p := rfl

/-- closed form of one iteration over `l.Contributors` (for any map type and update): a folded contributor is
    skipped, any other is entered with the step of the level -/
theorem potsOrigContribStep_eq {M : Type} (set add : M → Nat → Int → M) (f c : Bool) (i : Nat) (lv w t : Int) (m : M) :
    potsOrigContribStep set add f c i lv w t m = if f then m else set m i w := by
  cases f <;> rfl

/-- the translated iteration over `l.Contributors` on a level of the model (`snoc`: the map update read as appending) -/
def origContribOn (set : List (Nat × Int) → Nat → Int → List (Nat × Int)) (ll : LevelList) (l : Level)
    (m : List (Nat × Int)) (i : Nat) : List (Nat × Int) :=
  potsOrigContribStep set assocAdd (ll.folded.contains i) (assocGet? ll.contribs i).isSome i l.level l.wager l.total m

def snoc (m : List (Nat × Int)) (k : Nat) (v : Int) : List (Nat × Int) := m ++ [(k, v)]

/-- `m[k] = v` on a map that holds smaller keys only is the binding appended -/
theorem assocSet_snoc {β : Type} (m : List (Nat × β)) (k : Nat) (v : β) (h : ∀ kv ∈ m, kv.1 < k) :
    assocSet m k v = m ++ [(k, v)] := by
  induction m with
  | nil => rfl
  | cons kv m ih =>
    have h1 : kv.1 < k := h kv (by simp)
    have h2 : ¬ k < kv.1 := by omega
    have h3 : ¬ k = kv.1 := by omega
    obtain ⟨k', v'⟩ := kv
    simp only [assocSet, h2, h3, if_false]
    rw [ih (fun x hx => h x (by simp [hx]))]
    rfl

theorem foldl_origContrib_snoc (ll : LevelList) (l : Level) (ks : List Nat) (m : List (Nat × Int)) :
    ks.foldl (origContribOn snoc ll l) m
      = m ++ (ks.filter (fun i => !ll.folded.contains i)).map (fun i => (i, l.wager)) := by
  induction ks generalizing m with
  | nil => simp
  | cons k ks ih =>
    rw [List.foldl_cons, ih, origContribOn, potsOrigContribStep_eq, List.filter_cons]
    cases h : ll.folded.contains k <;> simp [h, snoc]

theorem foldl_origContrib_assocSet (ll : LevelList) (l : Level) (ks : List Nat) (m : List (Nat × Int))
    (hs : ks.Pairwise (· < ·)) (hm : ∀ kv ∈ m, ∀ k ∈ ks, kv.1 < k) :
    ks.foldl (origContribOn assocSet ll l) m = ks.foldl (origContribOn snoc ll l) m := by
  induction ks generalizing m with
  | nil => rfl
  | cons k ks ih =>
    rw [List.foldl_cons, List.foldl_cons]
    have hk : assocSet m k l.wager = m ++ [(k, l.wager)] := assocSet_snoc m k l.wager (fun kv h => hm kv h k (by simp))
    have hstep : origContribOn assocSet ll l m k = origContribOn snoc ll l m k := by
      rw [origContribOn, origContribOn, potsOrigContribStep_eq, potsOrigContribStep_eq, hk]; rfl
    rw [hstep]
    apply ih _ (List.pairwise_cons.mp hs).2
    intro kv hkv j hj
    rw [origContribOn, potsOrigContribStep_eq] at hkv
    have hkj : k < j := (List.pairwise_cons.mp hs).1 j hj
    cases hf : ll.folded.contains k
    · simp only [hf] at hkv
      rcases List.mem_append.mp hkv with h | h
      · exact hm kv h j (by simp [hj])
      · simp [snoc] at hkv h; subst h; exact hkj
    · simp only [hf, if_true] at hkv
      exact hm kv hkv j (by simp [hj])

/-- level_list.go `GetPots`, first loop, one iteration: the pot of the level `l` — its level, step and total, the
    level itself as its only layer, the non-folded contributors entered with the step (map updates read as
    appending: the contributors of a level are distinct) — is appended to `origPots` -/
theorem potsOrigPot_eq (ll : LevelList) (l : Level) (acc : List PotT) :
    potsOrigPot l.level l.wager l.total l ([] : List (Nat × Int))
        (fun m => l.contributors.foldl (origContribOn snoc ll l) m) acc
      = acc ++ [tupleOfPot (origPot ll.folded l)] := by
  unfold potsOrigPot
  simp only [foldl_origContrib_snoc]
  simp [origPot, tupleOfPot]

/-- the same with the map update `assocSet` of the model, on a level whose contributors ascend (every level built
    by `AddContributor`: `LLInv`, Proofs/PotsLevels.lean) -/
theorem potsOrigPot_assocSet_eq (ll : LevelList) (l : Level) (acc : List PotT) (hs : l.contributors.Pairwise (· < ·)) :
    potsOrigPot l.level l.wager l.total l ([] : List (Nat × Int))
        (fun m => l.contributors.foldl (origContribOn assocSet ll l) m) acc
      = acc ++ [tupleOfPot (origPot ll.folded l)] := by
  rw [← potsOrigPot_eq]
  unfold potsOrigPot
  simp only []
  rw [foldl_origContrib_assocSet ll l l.contributors [] hs (by simp)]

/-- closed form of one iteration over `p.Contributors` of the merge: `prev.Contributors[k] += w` -/
theorem potsMergeContribStep_eq {M : Type} (set add : M → Nat → Int → M) (k : Nat) (w : Int) (m : M) :
    potsMergeContribStep set add k w m = add m k w := rfl

/-- the translated iteration of the merge loop applied to the open pot `q` and the pot `p` at position `i` -/
def mergeStepOn (i : Nat) (q p : Pot) : Bool × PotT :=
  potsMergeStep (fun m : List (Nat × Int) => (m.length : Int))
    (fun m => p.contributors.foldl (fun m kv => potsMergeContribStep assocSet assocAdd kv.1 kv.2 m) m)
    (i : Int) q.level q.wager q.total q.contributors q.levels p.level p.wager p.total p.contributors p.levels

/-- the merge loop as the run of the translated iteration: `i` is the loop index, `prev` the open pot (none before
    the first iteration: `var prev *Pot = nil`, never read at `i = 0`), `acc` the closed pots in reverse -/
def mergeRun (i : Nat) (prev : Option Pot) (acc : List Pot) : List Pot → List Pot
  | [] => (match prev with | none => acc | some q => q :: acc).reverse
  | p :: ps =>
    let g := mergeStepOn i (prev.getD default) p
    mergeRun (i + 1) (some (potOfTuple g.2))
      (if g.1 then (match prev with | none => acc | some q => q :: acc) else acc) ps

/-- level_list.go `GetPots`, merge loop: the first pot, and every pot whose number of (non-folded) contributors
    differs from that of the open pot, is pushed and becomes the open pot; otherwise it is merged into the open
    pot: level replaced, step and total added, layers appended, contributions added key by key -/
theorem potsMerge_eq (i : Nat) (prev : Option Pot) (acc ps : List Pot) (h : i = 0 ↔ prev = none) :
    mergePots prev acc ps = mergeRun i prev acc ps := by
  induction ps generalizing i prev acc with
  | nil => cases prev <;> rfl
  | cons p ps ih =>
    cases prev with
    | none =>
      have hi : i = 0 := h.mpr rfl
      subst hi
      rw [mergePots, mergeRun, ih 1 (some p) acc (by simp)]
      simp [mergeStepOn, potsMergeStep, potOfTuple]
    | some q =>
      have hi0 : i ≠ 0 := fun e => by simpa using h.mp e
      have hi : ¬ ((i : Int) = 0) := by omega
      rw [mergePots, mergeRun]
      by_cases hl : q.contributors.length ≠ p.contributors.length
      · have hl' : ¬ ((q.contributors.length : Int) = (p.contributors.length : Int)) := by omega
        rw [if_pos hl, ih (i + 1) (some p) (q :: acc) (by simp)]
        simp [mergeStepOn, potsMergeStep, potOfTuple, hi, hi0, hl']
      · have hl' : (q.contributors.length : Int) = (p.contributors.length : Int) := by omega
        rw [if_neg hl, ih (i + 1) (some (mergeInto q p)) acc (by simp)]
        simp [mergeStepOn, potsMergeStep, potOfTuple, hi, hi0, hl', mergeInto, potsMergeContribStep_eq]

/-- closed form of one iteration of "put folded players back": a folded player who put in nothing is skipped -/
theorem potsFoldedStep_eq (w : Int) : potsFoldedStep w = (decide (w ≠ 0), w) := by
  unfold potsFoldedStep; by_cases h : w = 0 <;> simp [h]

/-- the inner loop of "put folded players back" as the run of the translated iteration: the player is entered with
    the whole wager into pot after pot, and the loop stops behind the first pot whose level exceeds the wager -/
def putFoldedRun (idx : Nat) (wager : Int) : List Pot → List Pot
  | [] => []
  | p :: ps =>
    let g := potsPutFoldedStep assocSet assocAdd idx wager p.level p.wager p.total p.contributors
    { p with contributors := g.2 } :: (if g.1 then putFoldedRun idx wager ps else ps)

theorem potsPutFolded_eq (idx : Nat) (wager : Int) (ps : List Pot) : putFolded idx wager ps = putFoldedRun idx wager ps := by
  induction ps with
  | nil => rfl
  | cons p ps ih =>
    simp only [putFolded, putFoldedRun, potsPutFoldedStep]
    by_cases h : wager < p.level <;> simp [h, ih]

/-- the state of `GetPots`: `origPots`, `pots` (closed pots, in order) and the open pot `prev` -/
structure GPState where
  orig : List PotT := []
  pots : List Pot := []
  prev : Option Pot := none

/-- the reading of the steps of `GetPots` -/
def getPotsStep (ll : LevelList) (s : GPState) (e : String) : GPState :=
  if e = "origPots := []" then { s with orig := [] }
  else if e = "origPots of the levels" then
    { s with orig := ll.levels.foldl (fun acc l =>
        potsOrigPot l.level l.wager l.total l ([] : List (Nat × Int))
          (fun m => l.contributors.foldl (origContribOn snoc ll l) m) acc) s.orig }
  else if e = "pots := []" then { s with pots := [] }
  else if e = "prev := nil" then { s with prev := none }
  else if e = "merge origPots" then { s with pots := mergeRun 0 s.prev s.pots.reverse (s.orig.map potOfTuple), prev := none }
  else if e = "put folded players back" then
    { s with pots := ll.folded.foldl (fun ps idx =>
        let g := potsFoldedStep ((assocGet? ll.contribs idx).getD 0)
        if g.1 then putFoldedRun idx g.2 ps else ps) s.pots }
  else s

theorem foldl_origPot (ll : LevelList) (ls : List Level) (acc : List PotT) :
    ls.foldl (fun acc l =>
        potsOrigPot l.level l.wager l.total l ([] : List (Nat × Int))
          (fun m => l.contributors.foldl (origContribOn snoc ll l) m) acc) acc
      = acc ++ ls.map (fun l => tupleOfPot (origPot ll.folded l)) := by
  induction ls generalizing acc with
  | nil => simp
  | cons l ls ih => rw [List.foldl_cons, potsOrigPot_eq, ih]; simp

/-- level_list.go `GetPots`: `origPots` starts empty and receives the pot of every level in order; `pots` starts
    empty with no open pot; the merge loop; the folded players are put back; `pots` is returned -/
theorem potsGetPots_eq (ll : LevelList) :
    ll.getPots = (potsGetPots.foldl (getPotsStep ll) {}).pots ∧ potsGetPots.getLast? = some "return pots" := by
  refine ⟨?_, by decide⟩
  have hmap : (ll.levels.map fun l => tupleOfPot (origPot ll.folded l)).map potOfTuple = ll.levels.map (origPot ll.folded) := by
    simp [List.map_map, Function.comp_def]
  have hput : ∀ ps : List Pot,
      ll.folded.foldl (fun ps idx =>
        let g := potsFoldedStep ((assocGet? ll.contribs idx).getD 0)
        if g.1 then putFoldedRun idx g.2 ps else ps) ps
      = ll.folded.foldl (fun ps idx =>
        let w := (assocGet? ll.contribs idx).getD 0
        if w = 0 then ps else putFolded idx w ps) ps := by
    intro ps
    congr 1
    funext ps idx
    simp only [potsFoldedStep_eq, potsPutFolded_eq]
    by_cases h : (assocGet? ll.contribs idx).getD 0 = 0 <;> simp [h]
  simp only [potsGetPots, getPotsStep, List.foldl_cons, List.foldl_nil, List.nil_append, List.cons_append]
  simp only [String.reduceEq, if_true, if_false, reduceIte, foldl_origPot, List.nil_append, hmap, hput, List.reverse_nil,
    ← potsMerge_eq 0 none [] _ (by simp), LevelList.getPots]

/-! ## settlement/rank.go, level.go, pot.go, settlement.go -/

/-! ### rank.go -/

/-- closed form of one iteration of the search of `Rank.AddContributor`: a group with that score takes the
    contributor and the function returns -/
theorem rankAddStep_eq {I : Type} (gScore score : Int) (i : I) (c : List I) :
    rankAddStep gScore score i c = if gScore = score then (true, c ++ [i]) else (false, c) := by
  unfold rankAddStep; by_cases h : gScore = score <;> simp [h]

def mkGroup (score : Int) (contributors : List Nat) : RankGroup := { score := score, contributors := contributors }

/-- the search loop of `Rank.AddContributor` as the run of the translated iteration: (returned, groups) -/
def rankAddRun (score : Int) (idx : Nat) : List RankGroup → Bool × List RankGroup
  | [] => (false, [])
  | g :: rest =>
    let r := rankAddStep g.score score idx g.contributors
    let g' := { g with contributors := r.2 }
    if r.1 then (true, g' :: rest) else ((rankAddRun score idx rest).1, g' :: (rankAddRun score idx rest).2)

/-- rank.go `AddContributor`: the first group with that score takes the contributor; without such a group a
    new one `(score, [idx])` is appended; the count of contributors grows by one in that case -/
theorem rankAdd_eq (gs : List RankGroup) (score : Int) (idx : Nat) (count : Int) :
    rankAdd gs score idx =
      (let t := rankAddRun score idx gs
       if t.1 then t.2 else (rankAddNew mkGroup count score idx t.2).2) ∧
    (rankAddNew mkGroup count score idx gs).1 = count + 1 := by
  refine ⟨?_, rfl⟩
  induction gs with
  | nil => simp [rankAdd, rankAddRun, rankAddNew, mkGroup]
  | cons g rest ih =>
    simp only [rankAdd, rankAddRun, rankAddStep_eq]
    by_cases h : g.score = score
    · simp [h]
    · simp only [h, if_false, Bool.false_eq_true]
      rw [ih]
      cases ht : (rankAddRun score idx rest).1 <;> simp [ht, rankAddNew, mkGroup]

/-- rank.go `Calculate`: the groups are sorted with the translated comparison, best score first -/
theorem rankCalculate_eq (gs : List RankGroup) :
    rankCalculate = ["sort groups"] ∧ sortGroups gs = isort (fun a b => rankGreater a.score b.score) gs :=
  ⟨rfl, rfl⟩

/-- rank.go `GetWinners`: nobody without groups, else the contributors of the first group -/
theorem rankWinners_eq {I : Type} (n : Int) (first : List I) : rankWinners n first = if n = 0 then [] else first := by
  unfold rankWinners; by_cases h : n = 0 <;> simp [h]

/-- closed form of one iteration of `GetLoser`: every group but the first contributes its members -/
theorem rankLoserStep_eq {I : Type} (i : Int) (g acc : List I) : rankLoserStep i g acc = if i = 0 then acc else acc ++ g := by
  unfold rankLoserStep; by_cases h : i = 0 <;> simp [h]

/-- the loop of `GetLoser` as the run of the translated iteration -/
def loserRun : Nat → List RankGroup → List Nat → List Nat
  | _, [], acc => acc
  | i, g :: gs, acc => loserRun (i + 1) gs (rankLoserStep (i : Int) g.contributors acc)

theorem loserRun_pos (i : Nat) (hi : 0 < i) (gs : List RankGroup) (acc : List Nat) :
    loserRun i gs acc = acc ++ gs.flatMap (·.contributors) := by
  induction gs generalizing i acc with
  | nil => simp [loserRun]
  | cons g gs ih =>
    have h0 : ¬ ((i : Int) = 0) := by omega
    rw [loserRun, ih (i + 1) (by omega), rankLoserStep_eq, if_neg h0]
    simp

theorem loserRun_zero (g : RankGroup) (gs : List RankGroup) :
    loserRun 0 (g :: gs) [] = gs.flatMap (·.contributors) := by
  rw [loserRun, loserRun_pos 1 (by omega), rankLoserStep_eq]
  simp

/-- rank.go `GetLoser`: nobody without groups; else the list starts empty and the loop runs -/
theorem rankLosers_eq {I : Type} (n : Int) (inner : List I → List I) :
    rankLosers n inner = if n = 0 then [] else inner [] := by
  unfold rankLosers; by_cases h : n = 0 <;> simp [h]

/-! ### level.go, settlement.go: `UpdateScore`, `AddPlayer`, `AddPot` -/

/-- the search of `LevelInfo.UpdateScore` as the run of the translated iteration: the steps taken -/
def levelScoreRun (idx : Nat) : List Nat → List String
  | [] => []
  | c :: cs => let r := levelScoreStep c idx; if r.1 then r.2 ++ levelScoreRun idx cs else r.2

theorem levelScoreRun_eq (idx : Nat) (cs : List Nat) :
    levelScoreRun idx cs = if cs.contains idx then ["rank.AddContributor(score, playerIdx)"] else [] := by
  induction cs with
  | nil => rfl
  | cons c cs ih =>
    simp only [levelScoreRun, levelScoreStep, ih]
    by_cases h : c = idx
    · simp [h]
    · have h' : ¬ idx = c := fun e => h e.symm
      simp [h, h']

/-- level.go `UpdateScore` on a level of the model: the steps of the search, `rank.AddContributor` read through
    the translated `Rank.AddContributor` -/
def levelUpdateScore (l : LevelInfo) (idx : Nat) (score : Int) : LevelInfo :=
  (levelScoreRun idx l.contributors).foldl (fun l e =>
    if e = "rank.AddContributor(score, playerIdx)" then
      { l with groups :=
          (let t := rankAddRun score idx l.groups
           if t.1 then t.2 else (rankAddNew mkGroup 0 score idx t.2).2) }
    else l) l

/-- settlement.go / level.go `UpdateScore`: every level of every pot that lists the player ranks the player once -/
theorem settleUpdateScore_eq (r : Result) (idx : Nat) (score : Int) :
    settleUpdateScore = ["every pot"] ∧
    r.updateScore idx score =
      { r with pots := r.pots.map fun p =>
          { p with levels := p.levels.map fun l =>
              (settleUpdateScoreStep idx score).foldl (fun l e =>
                if e.1 = "LevelInfo.UpdateScore" then levelUpdateScore l e.2.1 e.2.2 else l) l } } := by
  refine ⟨rfl, ?_⟩
  unfold Result.updateScore
  congr 1
  apply List.map_congr_left; intro p _
  congr 1
  apply List.map_congr_left; intro l _
  have hr := (rankAdd_eq l.groups score idx 0).1
  simp only [settleUpdateScoreStep, levelUpdateScore, levelScoreRun_eq]
  by_cases h : idx ∈ l.contributors
  · simp [h, hr]
  · simp [h]

def mkPlayerResult (idx : Nat) (final changed : Int) : PlayerResult := { idx := idx, finalStack := final, changed := changed }

/-- settlement.go `AddPlayer`: `(idx, bankroll, 0)` is appended -/
theorem settleAddPlayer_eq (r : Result) (idx : Nat) (bankroll : Int) :
    r.addPlayer idx bankroll = { r with players := settleAddPlayer mkPlayerResult idx bankroll r.players } := rfl

def mkLevelInfo (level wager total : Int) (contributors : List Nat) : LevelInfo :=
  { level := level, wager := wager, total := total, contributors := contributors }

/-- the reading of the recorded call of the loop of `AddPot` (`pr.level.AddLevel(level, wager, total, contributors)`)
    through the translated `AddLevel` -/
def addLevelStep (lis : List LevelInfo) (e : String × Int × Int × Int × List Nat) : List LevelInfo :=
  if e.1 = "AddLevel" then levelAddLevel mkLevelInfo e.2.1 e.2.2.1 e.2.2.2.1 e.2.2.2.2 lis else lis

/-- a pot result as the tuple (Total, level, Winners) of the translated `AddPot` -/
def potResultOfTuple (t : Int × List LevelInfo × List Winner) : PotResult :=
  { total := t.1, levels := t.2.1, winners := t.2.2 }

/-- settlement.go `AddPot`: a pot result with the total, no winners and one `LevelInfo` per level (value, step,
    total, contributors; no ranking yet) is appended -/
theorem settleAddPot_eq (r : Result) (total : Int) (levels : List Level) :
    r.addPot total levels =
      (let pots' := settleAddPot (W := Winner) total
          (fun lis => levels.foldl (fun lis l =>
            (settleAddPotStep l.level l.wager l.total l.contributors).foldl addLevelStep lis) lis)
          (r.pots.map fun p => (p.total, p.levels, p.winners))
       { r with pots := pots'.map potResultOfTuple }) := by
  have h : ∀ lis : List LevelInfo,
      levels.foldl (fun lis l => (settleAddPotStep l.level l.wager l.total l.contributors).foldl addLevelStep lis) lis
        = lis ++ levels.map fun l =>
            ({ level := l.level, wager := l.wager, total := l.total, contributors := l.contributors } : LevelInfo) := by
    intro lis
    induction levels generalizing lis with
    | nil => simp
    | cons l ls ih => rw [List.foldl_cons, ih]; simp [settleAddPotStep, addLevelStep, levelAddLevel, mkLevelInfo]
  simp [Result.addPot, settleAddPot, h, List.map_map, Function.comp_def, potResultOfTuple]

/-! ### pot.go `UpdateWinner`, settlement.go `Update` -/

theorem winnerStep_eq (wIdx idx : Nat) (ww w : Int) : winnerStep wIdx idx ww w = if wIdx = idx then (true, ww + w) else (false, ww) := by
  unfold winnerStep; by_cases h : wIdx = idx <;> simp [h]

def mkWinner (idx : Nat) (withdraw : Int) : Winner := { idx := idx, withdraw := withdraw }

/-- the search loop of `UpdateWinner` as the run of the translated iteration: (returned, winners) -/
def winnerRun (idx : Nat) (withdraw : Int) : List Winner → Bool × List Winner
  | [] => (false, [])
  | w :: rest =>
    let r := winnerStep w.idx idx w.withdraw withdraw
    let w' := { w with withdraw := r.2 }
    if r.1 then (true, w' :: rest) else ((winnerRun idx withdraw rest).1, w' :: (winnerRun idx withdraw rest).2)

/-- pot.go `UpdateWinner`: the first entry of the player grows by the amount; without one, `(idx, amount)` is appended -/
theorem winnerUpdate_eq (ws : List Winner) (idx : Nat) (withdraw : Int) :
    updateWinner ws idx withdraw =
      (let t := winnerRun idx withdraw ws
       if t.1 then t.2 else winnerNew mkWinner idx withdraw t.2) := by
  induction ws with
  | nil => simp [updateWinner, winnerRun, winnerNew, mkWinner]
  | cons w rest ih =>
    simp only [updateWinner, winnerRun, winnerStep_eq]
    by_cases h : w.idx = idx
    · simp [h]
    · simp only [h, if_false, Bool.false_eq_true]
      rw [ih]
      cases ht : (winnerRun idx withdraw rest).1 <;> simp [ht, winnerNew, mkWinner]

theorem settleUpdateStep_eq (pIdx idx : Nat) (f c w d : Int) :
    settleUpdateStep pIdx idx f c w d = if pIdx = idx then (true, f + d, c + d) else (false, f, c) := by
  unfold settleUpdateStep; by_cases h : pIdx = idx <;> simp [h]

/-- the player loop of `Update` as the run of the translated iteration -/
def bumpRun (idx : Nat) (wager d : Int) : List PlayerResult → List PlayerResult
  | [] => []
  | p :: rest =>
    let r := settleUpdateStep p.idx idx p.finalStack p.changed wager d
    let p' := { p with finalStack := r.2.1, changed := r.2.2 }
    if r.1 then p' :: rest else p' :: bumpRun idx wager d rest

theorem bumpPlayer_eq (ps : List PlayerResult) (idx : Nat) (wager d : Int) : bumpPlayer ps idx d = bumpRun idx wager d ps := by
  induction ps with
  | nil => rfl
  | cons p rest ih =>
    simp only [bumpPlayer, bumpRun, settleUpdateStep_eq]
    by_cases h : p.idx = idx <;> simp [h, ih]

/-- the reading of the steps of `Update` (`wager`: the argument of that name) -/
def updStep (wager : Int) (a : Acc) (e : String × Nat × Int) : Acc :=
  if e.1 = "UpdateWinner" then
    { a with winners :=
        (let t := winnerRun e.2.1 e.2.2 a.winners
         if t.1 then t.2 else winnerNew mkWinner e.2.1 e.2.2 t.2) }
  else if e.1 = "players loop" then { a with players := bumpRun e.2.1 wager e.2.2 a.players }
  else a

/-- settlement.go `Update`: a positive withdraw is recorded for the winner with the step added back
    (`withdraw + wager`, the gross share); then the first player entry with that index is adjusted by the withdraw -/
theorem settleUpdate_eq (a : Acc) (idx : Nat) (wager withdraw : Int) :
    a.update idx wager withdraw = (settleUpdate idx wager withdraw).foldl (updStep wager) a := by
  unfold Acc.update settleUpdate
  by_cases h : withdraw > 0 <;> simp [h, updStep, winnerUpdate_eq, ← bumpPlayer_eq]

/-- the reading of a recorded call `r.Update(potIdx, playerIdx, wager, withdraw)` through the translated `Update` -/
def doUpdate {P : Type} (a : Acc) (e : String × P × Nat × Int × Int) : Acc :=
  if e.1 = "Update" then (settleUpdate e.2.2.1 e.2.2.2.1 e.2.2.2.2).foldl (updStep e.2.2.2.1) a else a

/-! ### settlement.go `CalculateWinnerRewards`, `CalculateLoserResults`, `CalculatePot`, `Calculate` -/

/-- closed form of the quantities of the division: `based = total / count`, `remainder = total % count`, the
    odd chips start at `offset = oddChipOffset % count` and the next level of the pot starts at
    `(offset + remainder) % count` (Go's truncated `/` and `%`) -/
theorem settleRewards_eq (total wager n off : Int) :
    settleRewards total wager n off =
      (n, Int.tdiv total n, Int.tmod total n, Int.tmod off n, Int.tmod (Int.tmod off n + Int.tmod total n) n,
       ["rank.Calculate", "winners := rank.GetWinners", "reward loop"]) := rfl

/-- closed form of one iteration of the reward loop: the winner at position `i` gets `based`, plus one chip iff
    `(i − offset + count) % count < remainder`; the call is `Update(potIdx, winner, step, reward − step)` -/
theorem settleRewardStep_eq {P : Type} (potIdx : P) (i offset count remainder based wager total : Int) (w : Nat) :
    settleRewardStep potIdx i offset count remainder based wager total w =
      [("Update", potIdx, w, wager,
        (if Int.tmod (i - offset + count) count < remainder then based + 1 else based) - wager)] := by
  unfold settleRewardStep
  by_cases h : Int.tmod (i - offset + count) count < remainder <;> simp [h]

/-- the reward loop as the run of the translated iteration -/
def payRun (total wager based remainder count offset : Int) : Acc → Nat → List Nat → Acc
  | a, _, [] => a
  | a, i, w :: ws =>
    payRun total wager based remainder count offset
      ((settleRewardStep () (i : Int) offset count remainder based wager total w).foldl doUpdate a) (i + 1) ws

theorem payWinners_eq (total wager based remainder count offset : Int) (a : Acc) (i : Nat) (ws : List Nat) :
    payWinners wager based remainder count offset a i ws = payRun total wager based remainder count offset a i ws := by
  induction ws generalizing a i with
  | nil => rfl
  | cons w ws ih =>
    rw [payWinners, payRun, ih, settleRewardStep_eq]
    simp [doUpdate, settleUpdate_eq]

/-- `CalculateWinnerRewards` on a level of the model (`a`: player results, winners of the pot and odd-chip offset of
    the pot): the groups are sorted, the winners are those of `GetWinners`, the quantities are those of
    `settleRewards`, the loop is the run of `settleRewardStep`, and the offset is stored.  A level nobody is ranked
    in divides by zero in Go; the model leaves the accumulator as it is (outside the domain) -/
def rewardsOf (a : Acc) (l : LevelInfo) : Acc :=
  let gs := isort (fun x y => rankGreater x.score y.score) l.groups
  match gs with
  | [] => a
  | g :: _ =>
    let winners := rankWinners (gs.length : Int) g.contributors
    let q := settleRewards l.total l.wager (winners.length : Int) a.offset
    if q.2.2.2.2.2 = ["rank.Calculate", "winners := rank.GetWinners", "reward loop"] then
      let a1 := payRun l.total l.wager q.2.1 q.2.2.1 q.1 q.2.2.2.1 a 0 winners
      { a1 with offset := q.2.2.2.2.1 }
    else a

/-- `CalculateLoserResults` on a level of the model (the groups as `Calculate` sorted them): every member of
    every group but the first loses the step of the level -/
def losersOf (a : Acc) (l : LevelInfo) : Acc :=
  let gs := isort (fun x y => rankGreater x.score y.score) l.groups
  (rankLosers (gs.length : Int) (loserRun 0 gs)).foldl (fun a i => (settleLoserStep () l.wager l.total i).foldl doUpdate a) a

/-- the reading of the steps of one iteration of `CalculatePot` -/
def calcPotStep (l : LevelInfo) (a : Acc) (e : String) : Acc :=
  if e = "CalculateWinnerRewards(potIdx, l)" then rewardsOf a l
  else if e = "CalculateLoserResults(potIdx, l)" then losersOf a l
  else a

theorem payRun_offset (total wager based remainder count offset : Int) (a : Acc) (i : Nat) (ws : List Nat) :
    (payRun total wager based remainder count offset a i ws).offset = a.offset := by
  rw [← payWinners_eq]
  induction ws generalizing a i with
  | nil => rfl
  | cons w ws ih => rw [payWinners, ih]; rfl

/-- settlement.go `CalculatePot`, one iteration: the winners' rewards, then the losers' results -/
theorem settleLevel_eq (a : Acc) (l : LevelInfo) :
    settleLevel a l = settleCalcPotStep.foldl (calcPotStep l) a := by
  simp only [settleCalcPotStep, List.foldl_cons, List.foldl_nil, List.nil_append, List.cons_append, calcPotStep,
    String.reduceEq, if_true, if_false, reduceIte]
  unfold settleLevel rewardsOf losersOf sortGroups
  have hg : (fun x y : RankGroup => rankGreater x.score y.score) = (fun a b => decide (a.score > b.score)) := rfl
  rw [hg]
  cases hs : isort (fun a b : RankGroup => decide (a.score > b.score)) l.groups with
  | nil => simp [loserRun, rankLosers]
  | cons g rest =>
    have hn : ¬ (((g :: rest).length : Int) = 0) := by simp; omega
    simp only [rankWinners_eq, rankLosers_eq, hn, if_false, settleRewards_eq, if_true, loserRun_zero, payWinners_eq l.total]
    congr 1
    funext a i
    simp [settleLoserStep, doUpdate, settleUpdate_eq]

/-- settlement.go `CalculatePot`: the iteration over the levels of the pot, starting from the player results so
    far, the winners of the pot and the pot's odd-chip offset 0 -/
theorem settlePot_eq (players : List PlayerResult) (p : PotResult) :
    settlePot players p =
      (let a := p.levels.foldl (fun a l => settleCalcPotStep.foldl (calcPotStep l) a)
                  { players := players, winners := p.winners }
       (a.players, { p with winners := a.winners })) := by
  unfold settlePot
  have : (fun a l => settleCalcPotStep.foldl (calcPotStep l) a) = settleLevel := by
    funext a l; rw [settleLevel_eq]
  rw [this]

/-- the loop of `Calculate` as the run of the translated iteration -/
def calcRun : List PlayerResult → List PotResult → List PotResult → Result
  | ps, done, [] => { players := ps, pots := done.reverse }
  | ps, done, p :: rest =>
    let r := settleCalculateStep.foldl
      (fun s e => if e = "CalculatePot(potIdx, pot)" then settlePot s.1 s.2 else s) (ps, p)
    calcRun r.1 (r.2 :: done) rest

/-- settlement.go `Calculate`: `CalculatePot` for every pot in order -/
theorem settleCalculate_eq (r : Result) : r.calculate = calcRun r.players [] r.pots := by
  unfold Result.calculate
  generalize r.players = ps
  generalize ([] : List PotResult) = done
  induction r.pots generalizing ps done with
  | nil => rfl
  | cons p rest ih =>
    rw [Result.calculate.go, calcRun]
    simp only [settleCalculateStep, List.foldl_cons, List.foldl_nil, List.nil_append, if_true]
    exact ih _ _

/-! ## combination/combination.go (the selection of five cards), power.go (the best hand of a player) -/

/-- combination.go `gospersHack`, start values: `cur = (1 << k) − 1`, `limit = 1 << n` -/
theorem combosGosperInit_eq (k n : Nat) : combosGosperInit k n = ((1 <<< k) - 1, 1 <<< n) := rfl

/-- combination.go `gospersHack`: the loop `for cur < limit` (header pinned) as the run of the translated iteration
    (the pattern is recorded; the next pattern is `(((r ^ cur) >> 2) / lb) | r` with `lb = cur & -cur`, `r = cur + lb`);
    `k = 0` divides by zero in Go (observation O4) and is outside the model's domain -/
theorem combosGosperStep_eq (limit fuel cur : Nat) :
    gospersLoop limit (fuel + 1) cur =
      (if cur < limit then
         (let g := combosGosperStep lowbit cur []
          g.1 ++ gospersLoop limit fuel g.2)
       else []) ∧
    gospersLoop limit 0 cur = [] := by
  refine ⟨?_, rfl⟩
  rw [gospersLoop]
  by_cases h : cur < limit <;> simp [h, combosGosperStep]

theorem combosGosper_eq (k n : Nat) :
    gospersHack k n =
      (if k = 0 then [] else
        (let g := combosGosperInit k n
         gospersLoop g.2 g.2 g.1)) := rfl

/-- combination.go `binaryOnesPositions`: the loop `for i := 0; i < n; i++` (header pinned) as the run of the
    translated iteration on the bit test `(value>>i)&1 == 1` (read by the expression table) -/
theorem combosBits_eq (value n : Nat) :
    binaryOnesPositions value n =
      (List.range n).foldl (fun acc i => combosBitStep ((value >>> i) &&& 1 == 1) i acc) [] := by
  have h : ∀ (l acc : List Nat),
      l.foldl (fun acc i => combosBitStep ((value >>> i) &&& 1 == 1) i acc) acc
        = acc ++ l.filter (fun i => (value >>> i) &&& 1 == 1) := by
    intro l
    induction l with
    | nil => simp
    | cons i l ih =>
      intro acc
      rw [List.foldl_cons, ih, List.filter_cons]
      cases hb : ((value >>> i) &&& 1 == 1) <;> simp [combosBitStep, hb]
  rw [h]; simp [binaryOnesPositions]

/-- the selections of `n` out of `cards` by bit patterns, as the run of the translated iterations -/
def possibleRun {α : Type} [Inhabited α] (cards junk : List α) (k nn : Int) (acc : List (List α)) : List (List α) :=
  (gospersHack k.toNat nn.toNat).foldl (fun acc v =>
    combosPossibleStep (fun c =>
      (binaryOnesPositions v nn.toNat).foldl (fun c p => combosPickStep cards[p]! c) c) junk acc) acc

/-- combination.go `GetPossibleCombinations`: at most `n` cards ⇒ the cards themselves; else one selection per bit
    pattern of `gospersHack(n, total)`, each the cards at the set bits `binaryOnesPositions(v, total)`, in order
    (`junk`: whatever a variable `combination` held before an iteration: every iteration starts from the empty selection) -/
theorem combosPossible_eq {α : Type} [Inhabited α] (cards junk : List α) (n : Nat) :
    possibleCombinations cards n = combosPossible cards (n : Int) (possibleRun cards junk) := by
  have hpick : ∀ (ps : List Nat) (c : List α),
      ps.foldl (fun c p => combosPickStep cards[p]! c) c = c ++ ps.map fun p => cards[p]! := by
    intro ps
    induction ps with
    | nil => simp
    | cons p ps ih => intro c; rw [List.foldl_cons, ih]; simp [combosPickStep]
  have hrun : ∀ (vs : List Nat) (acc : List (List α)),
      vs.foldl (fun acc v =>
        combosPossibleStep (fun c =>
          (binaryOnesPositions v cards.length).foldl (fun c p => combosPickStep cards[p]! c) c) junk acc) acc
        = acc ++ vs.map fun v => (binaryOnesPositions v cards.length).map fun p => cards[p]! := by
    intro vs
    induction vs with
    | nil => simp
    | cons v vs ih => intro acc; rw [List.foldl_cons, ih]; simp only [combosPossibleStep, hpick]; simp
  unfold possibleCombinations combosPossible possibleRun
  by_cases h : cards.length ≤ n
  · have h' : (cards.length : Int) ≤ (n : Int) := by omega
    simp [h, h']
  · have h' : ¬ (cards.length : Int) ≤ (n : Int) := by omega
    simp only [h, h', if_false, decide_false, Bool.false_eq_true, Int.toNat_natCast, hrun, List.nil_append]

/-- combination.go `GetAllPossibleCombinations`: without required hole cards any five of hole cards ++ board;
    else every selection of exactly `holeCardsCount` hole cards joined with every selection of `5 − holeCardsCount`
    board cards, hole selections in the outer loop (`junk`: whatever a variable `allCards` held before an iteration) -/
theorem combosAll_eq {α : Type} [Inhabited α] (board hole junk : List α) (holeCount : Nat) :
    allPossibleCombinations board hole holeCount =
      combosAll (fun cs n => possibleCombinations cs n.toNat) board hole (holeCount : Int)
        (fun hcs bcs acc => hcs.foldl (fun acc cs => bcs.foldl (fun acc bs => combosAllStep cs bs junk acc) acc) acc) := by
  have hin : ∀ (cs : List α) (bcs acc : List (List α)),
      bcs.foldl (fun acc bs => combosAllStep cs bs junk acc) acc = acc ++ bcs.map fun bs => cs ++ bs := by
    intro cs bcs
    induction bcs with
    | nil => simp
    | cons b bcs ih => intro acc; rw [List.foldl_cons, ih]; simp [combosAllStep]
  have hout : ∀ (hcs bcs acc : List (List α)),
      hcs.foldl (fun acc cs => bcs.foldl (fun acc bs => combosAllStep cs bs junk acc) acc) acc
        = acc ++ hcs.flatMap fun cs => bcs.map fun bs => cs ++ bs := by
    intro hcs bcs
    induction hcs with
    | nil => simp
    | cons c hcs ih => intro acc; rw [List.foldl_cons, ih, hin]; simp
  unfold allPossibleCombinations combosAll
  by_cases h : holeCount = 0
  · simp [h]
  · have h' : ¬ ((holeCount : Int) = 0) := by omega
    have h5 : ((5 : Int) - (holeCount : Int)).toNat = 5 - holeCount := by omega
    simp [h, h', h5, hout]

/-- power.go `GetAllPossibileCombinations`, `CalculateCombinationPower`: the arguments handed to the package
    `combination`, in this order -/
theorem powerCalls_eq {B H R T C : Type} (all : B → H → Int → R) (b : B) (h : H) (n : Int) (d : R)
    (power : T → C → R) (t : T) (c : C) :
    powerCombos all b h n d = all b h n ∧ powerCalc power t c d = power t c := ⟨rfl, rfl⟩

/-- power.go `GetAllPowersByPlayer`, one iteration: the power state of the combination is appended -/
theorem powerAllStep_eq {C P : Type} (power : C → P) (c : C) (p0 : P) (acc : List P) :
    powerAllStep power c p0 acc = acc ++ [power c] := rfl

/-- power.go `GetAllPowersByPlayer`: the list of the power states of the candidate hands, in order, before the sort -/
theorem powerAll_eq (lvl : Cat → Nat) (pr : List Cat) (board hole : List Card) (required : Nat) (p0 : Power) :
    powerAll = ["powers := []", "combinations := GetAllPossibileCombinations(p, RequiredHoleCardsCount)",
      "power of every combination", "sort powers", "return powers"] ∧
    (allPossibleCombinations board hole required).map (calculatePower lvl pr) =
      (powerCombos (fun b h n => allPossibleCombinations b h n.toNat) board hole (required : Int) []).foldl
        (fun acc c => powerAllStep (fun c => powerCalc (calculatePower lvl) pr c p0) c p0 acc) [] := by
  refine ⟨rfl, ?_⟩
  have h : ∀ (cs : List (List Card)) (acc : List Power),
      cs.foldl (fun acc c => powerAllStep (fun c => powerCalc (calculatePower lvl) pr c p0) c p0 acc) acc
        = acc ++ cs.map (fun c => powerCalc (calculatePower lvl) pr c p0) := by
    intro cs
    induction cs with
    | nil => simp
    | cons c cs ih => intro acc; rw [List.foldl_cons, ih]; simp [powerAllStep]
  rw [h]
  simp [powerCombos, powerCalc]

/-- power.go `CalculatePlayerPower` on the model: the best (`bestPower`, below) of the power states collected by the
    translated iteration over the candidates `GetAllPossibileCombinations(p, RequiredHoleCardsCount)` -/
theorem playerPower_eq (lvl : Cat → Nat) (pr : List Cat) (board hole : List Card) (required : Nat) (p0 : Power) :
    playerPower lvl pr board hole required =
      bestPower ((powerCombos (fun b h n => allPossibleCombinations b h n.toNat) board hole (required : Int) []).foldl
        (fun acc c => powerAllStep (fun c => powerCalc (calculatePower lvl) pr c p0) c p0 acc) []) := by
  rw [← (powerAll_eq lvl pr board hole required p0).2]; rfl

/-- power.go `CalculatePlayerPower`: `sort.Slice(powers, less)` with the translated comparison `powerGreater`
    followed by `powers[0]`.  `sort.Slice` is not stable and its outcome among equal scores is unspecified
    (DESIGN §4); the model takes the first candidate no other candidate is `less` than: -/
theorem powerBest_eq (ps : List Power) (p : Power) :
    powerBest = ["powers := GetAllPowersByPlayer(p)", "return powers[0]"] ∧
    bestPower (p :: ps) =
      (match bestPower ps with
       | none => some p
       | some q => if powerGreater q.score p.score then some q else some p) := by
  refine ⟨rfl, ?_⟩
  rw [bestPower]
  cases bestPower ps with
  | none => rfl
  | some q => simp [powerGreater]

/-- what `powers[0]` of any list sorted by the translated `less` satisfies, the model's choice included: no candidate
    is `less` (has a greater score) than the chosen one, and the chosen one is a candidate -/
theorem powerBest_max (ps : List Power) (q : Power) (h : bestPower ps = some q) :
    q ∈ ps ∧ ∀ p ∈ ps, powerGreater p.score q.score = false := by
  induction ps generalizing q with
  | nil => simp [bestPower] at h
  | cons p ps ih =>
    rw [(powerBest_eq ps p).2] at h
    cases hb : bestPower ps with
    | none =>
      rw [hb] at h
      cases ps with
      | nil => simp at h; subst h; simp [powerGreater]
      | cons p' ps' =>
        exfalso
        rw [bestPower] at hb
        cases hb' : bestPower ps' <;> simp [hb'] at hb
        split at hb <;> simp at hb
    | some r =>
      rw [hb] at h
      obtain ⟨hr, hmax⟩ := ih r hb
      by_cases hg : powerGreater r.score p.score
      · simp [hg] at h; subst h
        refine ⟨by simp [hr], ?_⟩
        intro x hx
        rcases List.mem_cons.mp hx with rfl | hx
        · simp [powerGreater] at hg ⊢; omega
        · exact hmax x hx
      · simp [hg] at h; subst h
        refine ⟨by simp, ?_⟩
        intro x hx
        rcases List.mem_cons.mp hx with rfl | hx
        · simp [powerGreater]
        · have := hmax x hx
          simp [powerGreater] at hg this ⊢; omega

/-! ## game_state.go: the views -/

/-- closed forms of the translated iterations over the players (for any types of hole cards and combination):
    `AsPlayer` skips the viewer; a closed hand hides the folded players only; an open hand hides everybody else;
    `AsObserver` does the same without a viewer -/
theorem viewSteps_eq {H K : Type} (pIdx idx : Nat) (fold : Bool) (h : List H) (c : Option K) :
    viewAsPlayerClosedStep pIdx idx fold h c = (if pIdx = idx then (h, c) else if fold then ([], none) else (h, c)) ∧
    viewAsPlayerStep pIdx idx fold h c = (if pIdx = idx then (h, c) else ([], none)) ∧
    viewAsObserverClosedStep pIdx idx fold h c = (if fold then ([], none) else (h, c)) ∧
    viewAsObserverStep pIdx idx fold h c = ([], none) := by
  refine ⟨?_, ?_, ?_, rfl⟩
  · unfold viewAsPlayerClosedStep; by_cases e : pIdx = idx <;> cases fold <;> simp [e]
  · unfold viewAsPlayerStep; by_cases e : pIdx = idx <;> simp [e]
  · unfold viewAsObserverClosedStep; cases fold <;> simp

/-- a translated iteration applied to a player of the model: `HoleCards` and `Combination` are replaced by what
    the iteration leaves -/
def viewOn (step : Nat → Nat → Bool → List Card → Option Comb → List Card × Option Comb) (idx : Nat) (p : Player) : Player :=
  let r := step p.idx idx p.fold p.hole p.comb
  { p with hole := r.1, comb := r.2 }

/-- the reading of the steps of a view function: the loop over the players in the closed branch is followed by
    `return`; otherwise the loop of the open hand runs -/
def viewRun (g : Game) (v : List Card × List Card × List String)
    (closedStep openStep : Player → Player) : Game :=
  let g' := { g with opts := { g.opts with deck := v.1 }, burned := v.2.1 }
  if v.2.2 = ["players loop", "return"] then g'.mapP closedStep
  else if v.2.2 = ["players loop"] then g'.mapP openStep
  else g'

theorem evString_gameClosed {e : Ev} : evString e = "GameClosed" ↔ e = .gameClosed := by
  cases e <;> decide

/-- game_state.go `AsPlayer`: deck and burned cards are blanked first; on a closed hand every other player who
    folded loses hole cards and combination and nothing else happens; otherwise every other player does -/
theorem viewAsPlayer_eq (g : Game) (idx : Nat) :
    g.asPlayer idx =
      viewRun g (viewAsPlayer g.opts.deck g.burned (evString g.event))
        (viewOn viewAsPlayerClosedStep idx) (viewOn viewAsPlayerStep idx) := by
  have hc : (viewOn viewAsPlayerClosedStep idx) = fun p => if p.idx = idx then p else if p.fold then hidePlayer p else p := by
    funext p
    simp only [viewOn, (viewSteps_eq p.idx idx p.fold p.hole p.comb).1]
    obtain ⟨pi, _, _, _, _, f, _, _, _, _, _, _, _, _⟩ := p
    by_cases e : pi = idx <;> cases f <;> simp [e, hidePlayer]
  have ho : (viewOn viewAsPlayerStep idx) = fun p => if p.idx = idx then p else hidePlayer p := by
    funext p
    simp only [viewOn, (viewSteps_eq p.idx idx p.fold p.hole p.comb).2.1]
    obtain ⟨pi, _, _, _, _, f, _, _, _, _, _, _, _, _⟩ := p
    by_cases e : pi = idx <;> simp [e, hidePlayer]
  rw [hc, ho]
  unfold Game.asPlayer viewRun viewAsPlayer stripSecrets
  by_cases h : g.event = .gameClosed
  · have h' : evString g.event = "GameClosed" := evString_gameClosed.mpr h
    simp only [h', beq_self_eq_true, if_true]
    simp [h, mapP]
  · have h' : ¬ evString g.event = "GameClosed" := fun e => h (evString_gameClosed.mp e)
    simp [h, h', mapP]

/-- game_state.go `AsObserver`: the same without a viewer -/
theorem viewAsObserver_eq (g : Game) (idx : Nat) :
    g.asObserver =
      viewRun g (viewAsObserver g.opts.deck g.burned (evString g.event))
        (viewOn viewAsObserverClosedStep idx) (viewOn viewAsObserverStep idx) := by
  have hc : (viewOn viewAsObserverClosedStep idx) = fun p => if p.fold then hidePlayer p else p := by
    funext p
    simp only [viewOn, (viewSteps_eq p.idx idx p.fold p.hole p.comb).2.2.1]
    obtain ⟨pi, _, _, _, _, f, _, _, _, _, _, _, _, _⟩ := p
    cases f <;> simp [hidePlayer]
  have ho : (viewOn viewAsObserverStep idx) = hidePlayer := by
    funext p
    simp only [viewOn, (viewSteps_eq p.idx idx p.fold p.hole p.comb).2.2.2, hidePlayer]
  rw [hc, ho]
  unfold Game.asObserver viewRun viewAsObserver stripSecrets
  by_cases h : g.event = .gameClosed
  · have h' : evString g.event = "GameClosed" := evString_gameClosed.mpr h
    simp only [h', beq_self_eq_true, if_true]
    simp [h, mapP]
  · have h' : ¬ evString g.event = "GameClosed" := fun e => h (evString_gameClosed.mp e)
    simp [h, h', mapP]

/-! ## what the translated definitions compute, on concrete inputs (non-vacuity) -/

example : potsAddContributor true = (0, ["contributors[contributorIdx] = wager", "foldedPlayers[contributorIdx] = true",
    "AssertLevel(wager)", "sort levels", "contributors of each level", "totals of each level"]) := by decide

example : potsContribStep 50 0 0 100 (3 : Nat) [1] = [1, 3] ∧ potsContribStep 150 0 0 100 (3 : Nat) [1] = [1] := by decide

example : potsRetotalStep 100 25 3 5 0 0 = (75, 225, 100) := by decide

/-- the merge: a level with as many live contributors as the open pot is merged, another one opens a new pot -/
example : (potsMergeStep (fun m : List (Nat × Int) => (m.length : Int)) (fun m => m ++ [(9, 1)]) 1
      50 50 150 [(1, 50), (2, 50)] ["L50"] 100 50 100 [(1, 50), (2, 50)] ["L100"]).1 = false ∧
    (potsMergeStep (fun m : List (Nat × Int) => (m.length : Int)) (fun m => m) 1
      50 50 150 [(1, 50), (2, 50)] ["L50"] 100 50 50 [(1, 50)] ["L100"]).1 = true := by decide

example : potsPutFoldedStep assocSet assocAdd 4 30 50 50 150 [(1, 50)] = (false, [(1, 50), (4, 30)]) := by decide

/-- the D2 layout (DESIGN §7): 101 + 75 chips in two levels of one pot, two tied winners: the odd chip of the second
    level goes to the winner the first level did not favour -/
example : settleRewards 101 25 2 0 = (2, 50, 1, 0, 1, ["rank.Calculate", "winners := rank.GetWinners", "reward loop"]) ∧
    settleRewardStep (0 : Nat) 0 0 2 1 50 25 101 7 = [("Update", 0, 7, 25, 26)] ∧
    settleRewardStep (0 : Nat) 1 0 2 1 50 25 101 8 = [("Update", 0, 8, 25, 25)] := ⟨by decide, by decide, by decide⟩

example : settleRewards 75 25 2 1 = (2, 37, 1, 1, 0, ["rank.Calculate", "winners := rank.GetWinners", "reward loop"]) ∧
    settleRewardStep (0 : Nat) 0 1 2 1 37 25 75 7 = [("Update", 0, 7, 25, 12)] ∧
    settleRewardStep (0 : Nat) 1 1 2 1 37 25 75 8 = [("Update", 0, 8, 25, 13)] := ⟨by decide, by decide, by decide⟩

example : settleUpdate 3 25 26 = [("UpdateWinner", 3, 51), ("players loop", 3, 26)] ∧
    settleUpdate 3 25 (-25) = [("players loop", 3, -25)] := by decide

example : viewAsPlayer [1, 2, 3] [4] "GameClosed" = ([], [], ["players loop", "return"]) ∧
    viewAsPlayer [1, 2, 3] [4] "RoundClosed" = ([], [], ["players loop"]) := by decide

example : viewAsPlayerClosedStep 2 1 true ["SA", "HK"] (some 5) = ([], none) ∧
    viewAsPlayerClosedStep 2 1 false ["SA", "HK"] (some 5) = (["SA", "HK"], some 5) ∧
    viewAsPlayerClosedStep 1 1 true ["SA", "HK"] (some 5) = (["SA", "HK"], some 5) ∧
    viewAsPlayerStep 2 1 false ["SA", "HK"] (some 5) = ([], none) := by decide

example : combosPossible [1, 2, 3] 2 (possibleRun [1, 2, 3] [7]) = [[1, 2], [1, 3], [2, 3]] := by decide

example : combosAll (fun cs n => possibleCombinations cs n.toNat) [1, 2, 3] [8, 9] 2
      (fun hcs bcs acc => hcs.foldl (fun acc cs => bcs.foldl (fun acc bs => combosAllStep cs bs [7] acc) acc) acc)
    = [[8, 9, 1, 2, 3]] := by decide

end Pokerface.GeneratedLogic
