/-
  Exploration helpers for C20 (sweep counts), core-only, not imported by the proofs.

  `mkSync s t k ch` builds a VALID sync operation of table `t` with `k` eliminations
  (the first `k` members), releasing the first members asked for, dispatch choices `ch`.
  `runScript` folds a list of `(table, eliminations, choices)`.
  `sweepAsks` counts the asking syncs of one sweep given as a list of `(table, choices)`.
-/
import Pokerface.Model.RegulatorEnv

namespace Pokerface
namespace RSys

/-- a valid sync operation: eliminate the first `k` members, release the first `relCount` of the rest -/
def mkSync (s : RSys) (t : Nat) (k : Nat) (ch : List Nat) : EOp :=
  match s.env.membersOf t with
  | none => .sync t [] [] [] [] ch
  | some ms =>
    let elim := ms.take k
    let stay := ms.drop k
    let ans := s.syncAnswer t elim
    let all := stay ++ ans.2.2.2
    let n := ans.2.2.1.toNat
    .sync t elim stay (all.take n) (all.drop n) ch

/-- run a script of `(table, eliminations, choices)`; returns the final state, whether every
    operation was valid, and the number of asking operations -/
def runScript : RSys → List (Nat × Nat × List Nat) → RSys × Bool × Nat
  | s, [] => (s, true, 0)
  | s, (t, k, ch) :: rest =>
    let op := s.mkSync t k ch
    let (s', ok', n) := runScript (s.step op) rest
    (s', decide (s.ok op) && ok', (if s.asks op then 1 else 0) + n)

/-- the operations of a script (for `allOk` / `askCount` statements) -/
def scriptOps : RSys → List (Nat × Nat × List Nat) → List EOp
  | _, [] => []
  | s, (t, k, ch) :: rest => s.mkSync t k ch :: scriptOps (s.step (s.mkSync t k ch)) rest

/-- (count, required) of every table, in creation order -/
def sheet (s : RSys) : List (Nat × Int × Int) := s.r.tables.map fun t => (t.id, t.count, t.required)

/-! an adversarial settle phase: in every sweep the tables are synced in ascending order of their
    count (so that a table which receives released players has already been synced), and released
    players are dispatched, when possible, to tables that are NOT in deficit (stale `Required`). -/

/-- candidate sequences of dispatch choices, preferred first -/
def choiceSeqs (pref : List Nat) : Nat → List (List Nat)
  | 0 => [[]]
  | n + 1 => [] :: (pref.flatMap fun c => (choiceSeqs pref n).map fun cs => c :: cs)

/-- ids of the tables, those at or above the level `F` first (and among them the emptier first) -/
def prefOrder (s : RSys) : List Nat :=
  let F := s.r.playerCount / s.r.requiredTables
  let hi := s.r.tables.filter fun t => decide (F ≤ t.count)
  let lo := s.r.tables.filter fun t => !decide (F ≤ t.count)
  (hi.map (·.id)) ++ (lo.map (·.id))

/-- a valid elimination-free sync of table `t` with the most adversarial choices found -/
def advSync (s : RSys) (t : Nat) : EOp :=
  let cands := choiceSeqs (prefOrder s) 3
  match cands.find? (fun ch => decide (s.ok (s.mkSync t 0 ch))) with
  | some ch => s.mkSync t 0 ch
  | none => s.mkSync t 0 []

def insertBy (c : Int) (id : Nat) : List (Int × Nat) → List (Int × Nat)
  | [] => [(c, id)]
  | (c', id') :: rest => if c ≤ c' then (c, id) :: (c', id') :: rest else (c', id') :: insertBy c id rest

/-- one sweep: every table open at the start once, ascending count; returns the new state, validity,
    and whether some sync asked -/
def advSweep (s : RSys) (desc : Bool := false) : RSys × Bool × Bool :=
  let order0 := (s.r.tables.foldl (fun acc t => insertBy t.count t.id acc) []).map (·.2)
  let order := if desc then order0.reverse else order0
  order.foldl (fun (acc : RSys × Bool × Bool) t =>
    let (s', ok', asked) := acc
    if (s'.env.membersOf t).isNone then acc
    else
      let op := s'.advSync t
      (s'.step op, ok' && decide (s'.ok op), asked || s'.asks op)) (s, true, false)

/-- number of asking sweeps until a sweep asks nothing (at most `fuel`), with overall validity -/
def advSettle (fuel : Nat) (s : RSys) (desc : Bool := false) : Nat × Bool :=
  match fuel with
  | 0 => (0, true)
  | fuel + 1 =>
    let (s', ok', asked) := s.advSweep desc
    if asked then let (n, ok2) := advSettle fuel s'; (n + 1, ok' && ok2) else (0, ok')

end RSys
end Pokerface
