import Pokerface.Proofs.EvalTable
/-! C03, step (i), group 8 of 8: kernel evaluation of the class check. -/
namespace Pokerface.C03

theorem nfGroup_8 : nfGroup 8 = true := by decide +kernel

end Pokerface.C03
