import Pokerface.Proofs.TableDriver4
/-
  Progress of the table's driver: ready groups (flags), the player to act.
-/
namespace Pokerface.Drv
open Pokerface Game

/-- a started, not completed, non-empty group has a participant who is not ready yet
    (otherwise `validate` would have completed it) -/
def GOK (o : Option Group) : Prop :=
  ∀ G, o = some G → G.completed = false → G.parts ≠ [] → ∃ pr ∈ G.parts, pr.2 = false

theorem arm_flags {g g' : Game} {m : List Nat} {grp : Group} (h : arm g = some (g', m, grp)) : ∀ pr ∈ grp.parts, pr.2 = false := by
  unfold arm at h
  split at h
  · simp only [Option.some.injEq, Prod.mk.injEq] at h; rw [← h.2.2]
    intro pr hpr; simp only [allParts, List.mem_map] at hpr; obtain ⟨_, _, rfl⟩ := hpr; rfl
  · split at h
    · cases h
    · simp only [Option.some.injEq, Prod.mk.injEq] at h; rw [← h.2.2]
      intro pr hpr; simp only [allParts, List.mem_map] at hpr; obtain ⟨_, _, rfl⟩ := hpr; rfl
  · simp only [Option.some.injEq, Prod.mk.injEq] at h; rw [← h.2.2]
    intro pr hpr; simp only [blindParts, List.mem_map] at hpr; obtain ⟨_, _, rfl⟩ := hpr; rfl
  · cases h

theorem arm_gok {g g' : Game} {m : List Nat} {grp : Group} (h : arm g = some (g', m, grp)) : GOK (some grp) := by
  intro G hG _ hne
  cases hG
  cases hl : grp.parts with
  | nil => exact absurd hl hne
  | cons pr rest => exact ⟨pr, by simp, arm_flags h pr (by rw [hl]; simp)⟩

theorem update_group (k : Nat) (d : D) (s : Game) :
    (update k d s).group = d.group ∨ ∃ g g' m grp, arm g = some (g', m, grp) ∧ (update k d s).group = some grp := by
  induction k generalizing d s with
  | zero => exact Or.inl rfl
  | succ k ih =>
    rw [update]
    split
    · exact Or.inl rfl
    · split
      · exact Or.inl rfl
      · split
        · exact Or.inl rfl
        · rename_i s' _
          rcases ih { d with gs := s.hop, readyMarks := [] } s' with h | h
          · exact Or.inl h
          · exact Or.inr h
      · split
        · rename_i g' mk grp ha
          exact Or.inr ⟨_, _, _, _, ha, rfl⟩
        · exact Or.inl rfl

theorem update_gok (k : Nat) (d : D) (s : Game) (h : GOK d.group) : GOK (update k d s).group := by
  rcases update_group k d s with h1 | ⟨g, g', m, grp, ha, h1⟩
  · rw [h1]; exact h
  · rw [h1]; exact arm_gok ha

theorem gok_completed (G : Group) (h : G.completed = true) : GOK (some G) := by
  intro G' hG hc _
  cases hG
  rw [h] at hc; cases hc

theorem groupReady_gok (d : D) (i : Nat) (h : GOK d.group) : GOK (groupReady d i).group := by
  unfold groupReady
  cases hg : d.group with
  | none => simp only; rw [hg]; exact fun _ h => by cases h
  | some grp =>
    simp only
    split
    · unfold callBackend
      split
      · exact gok_completed _ rfl
      · exact update_gok _ _ _ (gok_completed _ rfl)
    · rename_i hc
      intro G hG hcomp _
      simp only [Option.some.injEq] at hG
      subst hG
      simp only at hcomp
      simp only [hcomp, Bool.not_false, Bool.and_true, Bool.not_eq_true] at hc
      have : ¬ (∀ pr ∈ (grp.parts.map fun pr => if pr.1 = i then (pr.1, true) else pr), pr.2 = true) := by
        intro hall
        have := List.all_eq_true.mpr hall
        rw [this] at hc; cases hc
      simp only [Classical.not_forall] at this
      obtain ⟨pr, hpr, hne⟩ := this
      exact ⟨pr, hpr, by simpa using hne⟩

theorem call_gok (d : D) (c : Call) (h : GOK d.group) : GOK (call d c).1.group := by
  cases c with
  | ready i =>
    simp only [call]
    split
    · exact h
    · split
      · exact h
      · exact groupReady_gok d i h
  | act i a x =>
    simp only [call]
    split
    · exact h
    · split
      · exact h
      · split
        · exact groupReady_gok d i h
        · unfold callBackend
          split
          · exact h
          · exact update_gok _ _ _ h

theorem runD_gok (d : D) (cs : List Call) (h : GOK d.group) : GOK (runD d cs).group := by
  induction cs generalizing d with
  | nil => exact h
  | cons c cs ih => exact ih _ (call_gok d c h)

theorem startD_gok (g0 : Game) : GOK (startD g0).group :=
  update_gok _ _ _ (fun _ h => by cases h)

/-- participants of the pending group that are not ready yet -/
def pending (d : D) : Nat :=
  match d.group with
  | some G => (G.parts.filter fun pr => !pr.2).length
  | none => 0

theorem count_set_le (l : List (Nat × Bool)) (i : Nat) :
    ((l.map fun pr => if pr.1 = i then (pr.1, true) else pr).filter fun pr => !pr.2).length ≤ (l.filter fun pr => !pr.2).length := by
  induction l with
  | nil => exact Nat.le_refl _
  | cons a l ih =>
    simp only [List.map_cons, List.filter_cons]
    by_cases h : a.1 = i
    · simp only [h, if_true, Bool.not_true, Bool.false_eq_true, if_false]
      split
      · simp only [List.length_cons]; omega
      · exact ih
    · simp only [h, if_false]
      split
      · simp only [List.length_cons]; omega
      · exact ih

theorem count_set_lt (l : List (Nat × Bool)) (i : Nat) (h : ∃ pr ∈ l, pr.1 = i ∧ pr.2 = false) :
    ((l.map fun pr => if pr.1 = i then (pr.1, true) else pr).filter fun pr => !pr.2).length < (l.filter fun pr => !pr.2).length := by
  induction l with
  | nil => obtain ⟨_, h, _⟩ := h; cases h
  | cons a l ih =>
    obtain ⟨pr, hpr, h1, h2⟩ := h
    have hle := count_set_le l i
    simp only [List.map_cons, List.filter_cons]
    rcases List.mem_cons.mp hpr with rfl | hpr
    · simp only [h1, h2, if_true, Bool.not_true, Bool.false_eq_true, if_false, Bool.not_false, List.length_cons]
      omega
    · have := ih ⟨pr, hpr, h1, h2⟩
      by_cases h : a.1 = i
      · simp only [h, if_true, Bool.not_true, Bool.false_eq_true, if_false]
        split
        · simp only [List.length_cons]; omega
        · exact this
      · simp only [h, if_false]
        split
        · simp only [List.length_cons]; omega
        · exact this

/-- the wrapper call by which participant `i` readies itself at the event `ev` -/
def readyCall (ev : Ev) (i : Nat) (x : Int) : Call :=
  if ev = .readyRequested then .ready i else .act i .pay x

theorem allowAction_pay (p : Player) : (allowAction .pay p).allowed.contains .pay = true := by
  unfold allowAction
  split
  · assumption
  · simp

/-- a participant of the group `handleState` arms passes the wrapper's checks -/
theorem arm_part {e g' : Game} {m : List Nat} {grp : Group} (hs : Struct e) (h : arm e.hop = some (g', m, grp))
    (i : Nat) (hi : i ∈ grp.parts.map (·.1)) :
    i < g'.players.length ∧ (e.event = .readyRequested → m.contains i = true) ∧
    (e.event ≠ .readyRequested → g'.allows i .pay = true) := by
  have hpl : e.hop.players = e.players := rfl
  have hev : e.hop.event = e.event := rfl
  have key : ∀ p ∈ e.players, p.idx < e.players.length ∧ e.players[p.idx]? = some p := by
    intro p hp
    obtain ⟨j, hj, hpj⟩ := List.getElem_of_mem hp
    have h1 : e.players[j]? = some p := by rw [List.getElem?_eq_getElem hj, hpj]
    have := hs.idx j p h1
    rw [this]; exact ⟨hj, h1⟩
  unfold arm at h
  split at h
  · rename_i he
    simp only [Option.some.injEq, Prod.mk.injEq] at h
    obtain ⟨rfl, rfl, rfl⟩ := h
    simp only [allParts, List.map_map, List.mem_map, Function.comp] at hi
    obtain ⟨p, hp, rfl⟩ := hi
    rw [hpl] at hp
    refine ⟨(key p hp).1, fun _ => ?_, fun h => absurd (hev ▸ he) h⟩
    simp only [List.contains_eq_mem, List.mem_map, decide_eq_true_eq]
    exact ⟨p, hp, rfl⟩
  · rename_i he
    split at h
    · cases h
    · simp only [Option.some.injEq, Prod.mk.injEq] at h
      obtain ⟨rfl, rfl, rfl⟩ := h
      simp only [allParts, List.map_map, List.mem_map, Function.comp] at hi
      obtain ⟨p, hp, rfl⟩ := hi
      rw [hpl] at hp
      refine ⟨by simp only [Game.mapP, List.length_map]; exact (key p hp).1, fun h => ?_, fun _ => ?_⟩
      · rw [hev] at he; rw [he] at h; cases h
      · unfold Game.allows
        simp only [Game.mapP, hpl, List.getElem?_map, (key p hp).2, Option.map_some]
        exact allowAction_pay p
  · rename_i he
    simp only [Option.some.injEq, Prod.mk.injEq] at h
    obtain ⟨rfl, rfl, rfl⟩ := h
    simp only [blindParts, List.map_map, List.mem_map, Function.comp, List.mem_filter] at hi
    obtain ⟨p, ⟨hp, how⟩, rfl⟩ := hi
    rw [hpl] at hp
    refine ⟨by simp only [List.length_map]; exact (key p hp).1, fun h => ?_, fun _ => ?_⟩
    · rw [hev] at he; rw [he] at h; cases h
    · unfold Game.allows
      simp only [hpl, List.getElem?_map, (key p hp).2, Option.map_some, how, if_true]
      exact allowAction_pay p
  · cases h

theorem readyCall_eq {g0 : Game} (h0 : Start0 g0) {d : D} {ops : List Op} {e : Game} (hh : Hist g0 ops e) (hp : Post d e)
    {g' : Game} {m : List Nat} {grp : Group} (ha : arm e.hop = some (g', m, grp)) (i : Nat) (hi : i ∈ grp.parts.map (·.1))
    (x : Int) : call d (readyCall e.event i x) = (groupReady d i, none) := by
  have hR := hh.reach h0
  have p3 := hp.2.2
  simp only [ha] at p3
  obtain ⟨q1, q2, _⟩ := p3
  obtain ⟨a1, a2, a3⟩ := arm_part (inv_reachable hR).struct ha i hi
  obtain ⟨e1, e2⟩ := arm_event ha
  have hev : e.hop.event = e.event := rfl
  rw [hev] at e1 e2
  unfold readyCall
  split
  · rename_i he
    have := a2 he
    simp only [call, q1, q2, Nat.not_le.mpr a1, this, if_false, Bool.not_true, Bool.false_eq_true]
  · rename_i he
    have := a3 he
    have hev2 : g'.event = .anteRequested ∨ g'.event = .blindsRequested := by
      rw [e1]; rcases e2 with h | h | h
      · exact absurd h he
      · exact Or.inl h
      · exact Or.inr h
    simp only [call, hasAction, q1, Nat.not_le.mpr a1, this, hev2, if_false, Bool.not_true, Bool.false_eq_true, and_self, if_true]

theorem group_progress {g0 : Game} (h0 : Start0 g0) {d : D} {ops : List Op} {e : Game} (hh : Hist g0 ops e) (hp : Post d e)
    (hg : GOK d.group) {g' : Game} {m : List Nat} {grp : Group} (ha : arm e.hop = some (g', m, grp)) (hne : grp.parts ≠ []) :
    ∃ i ∈ grp.parts.map (·.1), d.updates < (groupReady d i).updates ∨ pending (groupReady d i) < pending d := by
  have hR := hh.reach h0
  have p3 := hp.2.2
  simp only [ha] at p3
  obtain ⟨q1, q2, G, q3, q4, q5, q6⟩ := p3
  have hGne : G.parts ≠ [] := by
    intro h
    have := congrArg List.length q6
    rw [h] at this
    simp only [List.map_nil, List.length_nil, List.length_map] at this
    exact hne (List.eq_nil_of_length_eq_zero this.symm)
  obtain ⟨pr, hpr, h2⟩ := hg G q3 q5 hGne
  have hcl : d.closed = false := by
    cases hc : d.closed with
    | false => rfl
    | true =>
      have := hp.2.1.mp hc
      obtain ⟨_, hev⟩ := arm_event ha
      rw [show e.hop.event = e.event from rfl, this] at hev
      simp at hev
  refine ⟨pr.1, by rw [← q6]; exact List.mem_map_of_mem hpr, ?_⟩
  unfold groupReady
  rw [q3]
  simp only [q5]
  split
  · left
    obtain ⟨f1, f2⟩ := fire_ok hR ha
    unfold callBackend
    simp only [q1, q4, f2]
    have key : ∀ d'' : D, d''.closed = false → d''.updates = d.updates →
        d.updates < (update fuel d'' (e.step (fireOp grp.fire)).1.hop).updates := fun d'' h1 h2 =>
      h2 ▸ (update_any_fuel h0 (Hist.snoc _ hh f1) d'' fuel (by decide)).2.2 h1
    exact key _ hcl rfl
  · right
    simp only [pending, q3]
    exact count_set_lt _ _ ⟨pr, hpr, rfl, h2⟩

theorem pay_not_avail (g : Game) (p : Player) : Act.pay ∉ g.availableActions p := by
  unfold Game.availableActions
  split
  · simp
  · split
    · simp
    · simp only [List.mem_append, List.mem_cons, List.not_mem_nil, or_false, reduceCtorEq, false_or]
      split
      · split
        · split <;> simp
        · simp
      · split
        · split <;> simp
        · simp

theorem act_progress {g0 : Game} (h0 : Start0 g0) {d : D} {ops : List Op} {e : Game} (hh : Hist g0 ops e) (hp : Post d e)
    (hrs : e.event = .roundStarted) :
    ∃ a x, hasAction d d.gs.cur a = true ∧ (call d (.act d.gs.cur a x)).2 = none ∧
      d.updates < (call d (.act d.gs.cur a x)).1.updates := by
  have hR := hh.reach h0
  have hgs := Post_exact hp (by rw [hrs]; simp) (by rw [hrs]; simp)
  have hcl : d.closed = false := by
    cases hc : d.closed with
    | false => rfl
    | true => have := hp.2.1.mp hc; rw [hrs] at this; cases this
  obtain ⟨p, hpc, hne, hall⟩ := (C06.expected_step_succeeds hR).2.2.2.2 hrs
  obtain ⟨⟨p', hpc', hav, _⟩, _⟩ := (C04.one_actor hR).1 hrs
  rw [hpc] at hpc'
  cases hpc'
  have hcw : 0 ≤ e.cw := (inv_reachable hR).chips0.cw0
  cases hl : p.allowed with
  | nil => exact absurd hl hne
  | cons a rest =>
    have hmem : a ∈ p.allowed := by rw [hl]; simp
    have hnp : a ≠ .pay := by
      intro h
      rw [h, hav] at hmem
      exact pay_not_avail e p hmem
    obtain ⟨s1, s2, s3⟩ := hall none (Or.inl rfl) a (e.cw + 1) hmem
    have hacc : (e.step (.act none a (e.cw + 1))).2 = none := by
      cases a with
      | pass => exact s1 (by simp)
      | fold => exact s1 (by simp)
      | check => exact s1 (by simp)
      | call => exact s1 (by simp)
      | allin => exact s1 (by simp)
      | bet => exact s2 rfl (by omega)
      | raise => exact s3 rfl (by omega)
      | pay => exact absurd rfl hnp
    have hlen : ¬ d.gs.players.length ≤ d.gs.cur := by
      rw [hgs]
      have := (List.getElem?_eq_some_iff.mp hpc).1
      exact Nat.not_le.mpr this
    have hal : hasAction d d.gs.cur a = true := by
      unfold hasAction
      rw [hgs]
      exact allows_of_mem (g := e.hop) hpc hmem
    have hnb : ¬(a = .pay ∧ (d.gs.event = .anteRequested ∨ d.gs.event = .blindsRequested)) := fun h => hnp h.1
    refine ⟨a, e.cw + 1, hal, ?_⟩
    simp only [call, hlen, hal, hnb, if_false, Bool.not_true, Bool.false_eq_true]
    unfold callBackend
    rw [hgs, backend_hop]
    have hsn := fun h => Hist.snoc (.act none a (e.cw + 1)) hh h
    revert hacc hsn
    generalize e.step (.act none a (e.cw + 1)) = y
    obtain ⟨y1, y2⟩ := y
    intro hacc hsn
    simp only at hacc
    subst hacc
    simp only
    exact ⟨trivial, (update_any_fuel h0 (hsn rfl) _ fuel (by decide)).2.2 hcl⟩

theorem arm_parts_ne {e g' : Game} {m : List Nat} {grp : Group} (hs : Struct e) (h : arm e.hop = some (g', m, grp))
    (hb : e.event = .blindsRequested → ∃ p ∈ e.players, owesBlind e.opts p = true) : grp.parts ≠ [] := by
  have hpl : e.hop.players = e.players := rfl
  have hev : e.hop.event = e.event := rfl
  have hpos : e.players ≠ [] := by
    intro h0
    have := hs.pos
    simp [Game.n, h0] at this
  unfold arm at h
  split at h
  · simp only [Option.some.injEq, Prod.mk.injEq] at h; rw [← h.2.2]
    simp only [allParts, hpl, ne_eq, List.map_eq_nil_iff]; exact hpos
  · split at h
    · cases h
    · simp only [Option.some.injEq, Prod.mk.injEq] at h; rw [← h.2.2]
      simp only [allParts, hpl, ne_eq, List.map_eq_nil_iff]; exact hpos
  · rename_i he
    simp only [Option.some.injEq, Prod.mk.injEq] at h; rw [← h.2.2]
    obtain ⟨p, hp, how⟩ := hb (hev ▸ he)
    simp only [blindParts, hpl, ne_eq, List.map_eq_nil_iff]
    intro hnil
    have : p ∈ e.players.filter (owesBlind e.hop.opts) := List.mem_filter.mpr ⟨hp, how⟩
    rw [hnil] at this
    cases this
  · cases h

theorem owes_transfer {a b : Game} (h : clr a = clr b) (hx : ∃ p ∈ a.players, owesBlind a.opts p = true) :
    ∃ p ∈ b.players, owesBlind b.opts p = true := by
  obtain ⟨p, hp, how⟩ := hx
  have h1 : clearAllowed p ∈ (clr a).players := by
    simp only [clr, Game.mapP]; exact List.mem_map_of_mem hp
  rw [h] at h1
  simp only [clr, Game.mapP, List.mem_map] at h1
  obtain ⟨q, hq, hqp⟩ := h1
  have ho : (clr a).opts = (clr b).opts := by rw [h]
  simp only [clr_opts] at ho
  refine ⟨q, hq, ?_⟩
  have e1 : q.posBB = p.posBB := (congrArg Player.posBB hqp :)
  have e2 : q.posSB = p.posSB := (congrArg Player.posSB hqp :)
  have e3 : q.posDealer = p.posDealer := (congrArg Player.posDealer hqp :)
  unfold owesBlind at how ⊢
  rw [e1, e2, e3, ← ho]; exact how

/-- a driver whose held state offers nobody anything refuses every wrapper call and does not change -/
theorem stuck_of_no_marks (d : D) (h1 : d.readyMarks = []) (h2 : ∀ p ∈ d.gs.players, p.allowed = []) (c : Call) :
    (call d c).1 = d ∧ (call d c).2 ≠ none := by
  cases c with
  | ready i =>
    simp only [call, h1]
    split
    · exact ⟨rfl, by simp⟩
    · simp
  | act i a x =>
    have hal : hasAction d i a = false := by
      unfold hasAction Game.allows
      split
      · rename_i p hp; rw [h2 p (List.mem_of_getElem? hp)]; rfl
      · rfl
    simp only [call, hal]
    split
    · exact ⟨rfl, by simp⟩
    · simp

theorem stuck_run (d : D) (h1 : d.readyMarks = []) (h2 : ∀ p ∈ d.gs.players, p.allowed = []) (cs : List Call) :
    runD d cs = d := by
  induction cs with
  | nil => rfl
  | cons c cs ih =>
    show runD (call d c).1 cs = d
    rw [(stuck_of_no_marks d h1 h2 c).1]; exact ih

end Pokerface.Drv
