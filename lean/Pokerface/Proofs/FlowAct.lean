import Pokerface.Proofs.FlowInv
/-
  Shape of an accepted player action, precise enough for the termination measure (C06) and
  the round-closing analysis (C05).
-/
namespace Pokerface
open Game

theorem avail_not_pass {g : Game} {p : Player} {a : Act} (h : a ∈ g.availableActions p) (ha : a ≠ .pass) :
    p.fold = false ∧ p.stack ≠ 0 := by
  unfold Game.availableActions at h
  split at h
  · simp_all
  · split at h
    · simp_all
    · simp_all

theorem avail_pass {g : Game} {p : Player} (h : Act.pass ∈ g.availableActions p) :
    p.fold = true ∨ p.stack = 0 := by
  unfold Game.availableActions at h
  by_cases h1 : p.fold = true
  · exact Or.inl h1
  · by_cases h2 : p.stack = 0
    · exact Or.inr h2
    · exfalso
      simp only [h1, h2, if_false, Bool.false_eq_true] at h
      (repeat' split at h) <;> simp_all

theorem avail_check {g : Game} {p : Player} (h : Act.check ∈ g.availableActions p) : ¬ p.wager < g.cw := by
  unfold Game.availableActions at h
  intro hw
  (repeat' split at h) <;> simp_all

theorem avail_bet {g : Game} {p : Player} (h : Act.bet ∈ g.availableActions p) : ¬ p.wager < g.cw ∧ g.cw = 0 := by
  unfold Game.availableActions at h
  (repeat' split at h) <;> simp_all

theorem avail_raise {g : Game} {p : Player} (h : Act.raise ∈ g.availableActions p) :
    (p.wager < g.cw ∨ g.cw ≠ 0) ∧ Act.allin ∈ g.availableActions p := by
  unfold Game.availableActions at h ⊢
  (repeat' split at h) <;> simp_all

theorem avail_call {g : Game} {p : Player} (h : Act.call ∈ g.availableActions p) :
    p.wager < g.cw ∧ g.cw < p.initial := by
  unfold Game.availableActions at h
  (repeat' split at h) <;> simp_all

theorem avail_free (g : Game) (p : Player) : Act.pass ∈ g.availableActions p ∨ Act.allin ∈ g.availableActions p := by
  unfold Game.availableActions
  (repeat' split) <;> simp_all

/-- the function `Fold` applies to the folding seat -/
def foldMark (p : Player) : Player := { p with fold := true, acted := true }

/-- how the state handed to `resume` by an accepted action of seat `i` (holding `p`) is built -/
inductive ActShape (g : Game) (i : Nat) (p : Player) : Game → Prop
  /-- `Pass`, `Check`: only the `acted` mark -/
  | mark (h : p.fold = true ∨ p.stack = 0 ∨ p.wager = g.cw) : ActShape g i p (g.setActed i)
  /-- `Fold` -/
  | fold (hf : p.fold = false) (hs : 0 < p.stack) : ActShape g i p (g.modP i foldMark)
  /-- `Call`, `Allin`, `Bet`, `Raise`: mark, then a wager payment of `c ≥ 0` chips that is all-in or at
      least matches the wager to match; the minimal raise size is set before and/or after -/
  | pay (a b c : Int) (ha : 0 ≤ a) (hb : 0 ≤ b) (hc : 0 ≤ c) (hf : p.fold = false) (hs : 0 < p.stack)
      (hw : p.stack ≤ c ∨ g.cw ≤ p.wager + c) :
      ActShape g i p ((((g.setActed i).setPrev a).pay i c true).setPrev b)

theorem setPrev_self (g : Game) : g.setPrev g.prev = g := rfl

theorem pay_prev' (g : Game) (i : Nat) (c : Int) (w : Bool) : (g.pay i c w).prev = g.prev := by
  unfold Game.pay
  split
  · rfl
  · split
    · unfold Game.payAllin
      simp only
      split
      · split <;> split <;> rfl
      · rfl
    · unfold Game.payPart
      simp only
      split <;> rfl

theorem stack_pos_of_avail {g : Game} (ok : ChipsOK g) {i : Nat} {p : Player} (hp : g.players[i]? = some p)
    {a : Act} (h : a ∈ g.availableActions p) (ha : a ≠ .pass) : p.fold = false ∧ 0 < p.stack := by
  have h1 := avail_not_pass h ha
  have := (ok.pinv p (List.mem_of_getElem? hp)).stack0
  exact ⟨h1.1, by have := h1.2; omega⟩

/-- `pay` shape without a second `setPrev` -/
theorem ActShape.pay1 {g : Game} {i : Nat} {p : Player} (a c : Int) (ha : 0 ≤ a) (hc : 0 ≤ c) (hf : p.fold = false)
    (hs : 0 < p.stack) (hw : p.stack ≤ c ∨ g.cw ≤ p.wager + c) :
    ActShape g i p (((g.setActed i).setPrev a).pay i c true) := by
  have := ActShape.pay (g := g) (i := i) (p := p) a (((g.setActed i).setPrev a).pay i c true).prev c ha
    (by rw [pay_prev']; exact ha) hc hf hs hw
  exact this

/-- `pay` shape without any `setPrev` -/
theorem ActShape.pay0 {g : Game} {i : Nat} {p : Player} (c : Int) (hprev : 0 ≤ g.prev) (hc : 0 ≤ c) (hf : p.fold = false)
    (hs : 0 < p.stack) (hw : p.stack ≤ c ∨ g.cw ≤ p.wager + c) :
    ActShape g i p ((g.setActed i).pay i c true) :=
  ActShape.pay1 (g := g) g.prev c hprev hc hf hs hw

theorem doCall_shape2 (g : Game) (hi : Inv g) (i : Nat) (h : g.allows i .call = true) :
    ∃ p g1, g.players[i]? = some p ∧ g.event = .roundStarted ∧ i = g.cur ∧ g.doCall i = g1.resume ∧ ActShape g i p g1 := by
  obtain ⟨p, hp, he, hc, hav⟩ := allows_spec hi h
  have ok := hi.chips (by rw [he]; simp)
  obtain ⟨hf, hs⟩ := stack_pos_of_avail ok hp hav (by simp)
  have hw := (avail_call hav).1
  have e : g.doCall i = ((g.setActed i).pay i
      (if g.cw < g.opts.blindBB then g.opts.blindBB - p.wager else g.cw - p.wager) true).resume := by
    unfold Game.doCall; rw [hp]
  exact ⟨p, _, hp, he, hc, e, ActShape.pay0 _ ok.prev0 (by split <;> omega) hf hs (Or.inr (by split <;> omega))⟩

theorem doAllin_shape2 (g : Game) (hi : Inv g) (i : Nat) (h : g.allows i .allin = true) :
    ∃ p g1, g.players[i]? = some p ∧ g.event = .roundStarted ∧ i = g.cur ∧ g.doAllin i = g1.resume ∧ ActShape g i p g1 := by
  obtain ⟨p, hp, he, hc, hav⟩ := allows_spec hi h
  have ok := hi.chips (by rw [he]; simp)
  obtain ⟨hf, hs⟩ := stack_pos_of_avail ok hp hav (by simp)
  have e : g.doAllin i = ((if p.initial - g.cw ≥ g.prev then (g.setActed i).setPrev (p.initial - g.cw) else g.setActed i).pay i
      p.stack true).resume := by
    unfold Game.doAllin; rw [hp]
  refine ⟨p, _, hp, he, hc, e, ?_⟩
  split
  · rename_i hge
    exact ActShape.pay1 _ _ (Int.le_trans ok.prev0 hge) (by omega) hf hs (Or.inl (Int.le_refl _))
  · exact ActShape.pay0 _ ok.prev0 (by omega) hf hs (Or.inl (Int.le_refl _))

/-- Every accepted action of seat `i`: the seat is the seat to act in an open betting round, and
    the new state is `resume` of a state of one of the three shapes. -/
theorem act_shape2 (g : Game) (hi : Inv g) (i : Nat) (a : Act) (x : Int) (hacc : (g.act i a x).2 = none) :
    ∃ p g1, g.players[i]? = some p ∧ g.event = .roundStarted ∧ i = g.cur ∧ (g.act i a x).1 = g1.resume ∧
      ActShape g i p g1 := by
  unfold Game.act at hacc ⊢
  cases a with
  | pass =>
    simp only at hacc ⊢
    split at hacc
    · cases hacc
    · rename_i h
      obtain ⟨p, hp, he, hc, hav⟩ := allows_spec hi (by simpa using h)
      simp only [h, if_false, Bool.false_eq_true]
      refine ⟨p, _, hp, he, hc, rfl, ActShape.mark ?_⟩
      rcases avail_pass hav with h1 | h1
      · exact Or.inl h1
      · exact Or.inr (Or.inl h1)
  | pay =>
    simp only at hacc ⊢
    split at hacc
    · cases hacc
    · rename_i h
      obtain ⟨p, hp, he, _, hav⟩ := allows_spec hi (by simpa using h)
      exact absurd hav (not_available_pay g p)
  | fold =>
    simp only at hacc ⊢
    split at hacc
    · cases hacc
    · rename_i h
      obtain ⟨p, hp, he, hc, hav⟩ := allows_spec hi (by simpa using h)
      have ok := hi.chips (by rw [he]; simp)
      obtain ⟨hf, hs⟩ := stack_pos_of_avail ok hp hav (by simp)
      simp only [h, if_false, Bool.false_eq_true]
      exact ⟨p, _, hp, he, hc, rfl, ActShape.fold hf hs⟩
  | check =>
    simp only at hacc ⊢
    split at hacc
    · cases hacc
    · rename_i h
      obtain ⟨p, hp, he, hc, hav⟩ := allows_spec hi (by simpa using h)
      have ok := hi.chips (by rw [he]; simp)
      have := avail_check hav
      have := ok.wle p (List.mem_of_getElem? hp)
      simp only [h, if_false, Bool.false_eq_true]
      exact ⟨p, _, hp, he, hc, rfl, ActShape.mark (Or.inr (Or.inr (by omega)))⟩
  | call =>
    simp only at hacc ⊢
    split at hacc
    · cases hacc
    · rename_i h
      simp only [h, if_false, Bool.false_eq_true]
      exact doCall_shape2 g hi i (by simpa using h)
  | allin =>
    simp only at hacc ⊢
    split at hacc
    · cases hacc
    · rename_i h
      simp only [h, if_false, Bool.false_eq_true]
      exact doAllin_shape2 g hi i (by simpa using h)
  | bet =>
    simp only at hacc ⊢
    split at hacc
    · cases hacc
    · rename_i h
      split at hacc
      · cases hacc
      · rename_i hx
        obtain ⟨p, hp, he, hc, hav⟩ := allows_spec hi (by simpa using h)
        have ok := hi.chips (by rw [he]; simp)
        obtain ⟨hf, hs⟩ := stack_pos_of_avail ok hp hav (by simp)
        have hb := avail_bet hav
        have hx' : 0 ≤ x := by omega
        simp only [h, hx, if_false, Bool.false_eq_true]
        unfold Game.doBet
        unfold Game.recordBet
        have hm := midAct_pay (midAct_setActed (hi.midAct he) i) i x hx'
        exact ⟨p, _, hp, he, hc, rfl, ActShape.pay (g := g) (i := i) (p := p) g.prev
          (((g.setActed i).pay i x true).wagerOf i) x ok.prev0 (wagerOf_nonneg hm.chips i) hx' hf hs
          (Or.inr (by have := hb.1; omega))⟩
  | raise =>
    simp only at hacc ⊢
    split at hacc
    · cases hacc
    · rename_i h
      split at hacc
      · cases hacc
      · rename_i hx
        simp only [h, hx, if_false, Bool.false_eq_true]
        split at hacc
        · rename_i heq
          split at hacc
          · cases hacc
          · rename_i hc
            simp only [heq, hc, if_true, if_false, Bool.false_eq_true]
            exact doCall_shape2 g hi i (by simpa using hc)
        · rename_i hne
          simp only [hne, if_false]
          split at hacc
          · rename_i hnone
            obtain ⟨p', hp', _, _, _⟩ := allows_spec hi (by simpa using h)
            rw [hp'] at hnone; cases hnone
          · rename_i p hp
            try simp only [hp]
            split at hacc
            · rename_i hbig
              split at hacc
              · cases hacc
              · rename_i ha
                simp only [hbig, ha, if_true, if_false, Bool.false_eq_true]
                have := doAllin_shape2 g hi i (by simpa using ha)
                rw [hp] at this; exact this
            · rename_i hnot
              simp only [hnot, if_false]
              obtain ⟨p', hp', he, hc, hav⟩ := allows_spec hi (by simpa using h)
              rw [hp] at hp'; cases hp'
              have ok := hi.chips (by rw [he]; simp)
              obtain ⟨hf, hs⟩ := stack_pos_of_avail ok hp hav (by simp)
              have hw := ok.wle p (List.mem_of_getElem? hp)
              have hprev := ok.prev0
              have hcw := ok.cw0
              have hxcw : g.cw < x := by omega
              unfold Game.doRaise
              simp only
              refine ⟨p, _, rfl, he, hc, rfl, ActShape.pay1 _ _ ?_ ?_ hf hs (Or.inr ?_)⟩
              · split <;> omega
              · split <;> omega
              · split <;> omega

end Pokerface
