import Pokerface.Proofs.EvalTable
/-! C03, step (i), group 4 of 8: kernel evaluation of the class check. -/
namespace Pokerface.C03

theorem nfGroup_4 : nfGroup 4 = true := by decide +kernel

end Pokerface.C03
