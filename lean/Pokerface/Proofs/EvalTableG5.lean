import Pokerface.Proofs.EvalTable
/-! C03, step (i), group 5 of 8: kernel evaluation of the class check. -/
namespace Pokerface.C03

theorem nfGroup_5 : nfGroup 5 = true := by decide +kernel

end Pokerface.C03
