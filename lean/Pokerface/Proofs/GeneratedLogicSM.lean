import Pokerface.Model.SeatManager
import Pokerface.Generated.LogicSM
/-
  K1, translated logic (seat manager): seat_manager/seat_manager.go `Join`, `join`, `Seat`, `Reserve`,
  `Leave`, `leave`, `Next`, translated by `harness/cmd/genlogic` (Generated/LogicSM.lean, regenerated on
  every run) as lists of steps, equal to the model's `SM.step`.
-/
set_option linter.unusedSimpArgs false
namespace Pokerface.GeneratedLogic
open Pokerface

/-! ### seat_manager.go: `Join`, `join`, `Seat`, `Reserve`, `Leave`, `Next` -/

/-- the reading of one recorded effect on a seat -/
def seatStep (pid : Nat) (s : Seat) (e : String) : Seat :=
  if e = "reserve" then { s with reserved := true }
  else if e = "unreserve" then { s with reserved := false }
  else if e = "setPlayer" then { s with player := some pid }
  else if e = "clearPlayer" then { s with player := none }
  else s

/-- seat_manager.go `join` on seat `i`, as the translated decision says (`panic`: the seat does not
    exist and the Go code dereferences nil) -/
def joinAt (sm : SM) (pid i : Nat) : SM × Option SMErr × Option Nat :=
  match sm.seats[i]? with
  | none => (sm, some .panic, none)
  | some s =>
    if Generated.Logic.smJoinAt s.player.isSome = ["ErrNotAvailable"] then (sm, some .notAvailable, none)
    else (sm.modSeat i fun s => (Generated.Logic.smJoinAt false).foldl (seatStep pid) s, none, some i)

/-- seat_manager.go `Join` and `join` -/
theorem smJoin_eq (sm : SM) (seat : Int) (pid : Nat) (chose : Option Nat) :
    sm.step (.join seat pid chose) =
      (let s := sm.availableSeats.1
       let as := sm.availableSeats.2
       let r := Generated.Logic.smJoin seat sm.max s.length as.length
       if r = ["ErrInvalidSeat"] then (sm, some .invalidSeat, none)
       else if r = ["join(seatID)"] then joinAt sm pid seat.toNat
       else if r = ["ErrNoAvailableSeat"] then (sm, some .noAvailableSeat, none)
       else
         let pool := if r = ["join(s[0])"] ∨ r = ["join(s[rand.Intn(len(s)-1)])"] then s else as
         match chose with
         | none => (sm, some .badChoice, none)
         | some c => if pool.contains c then joinAt sm pid c else (sm, some .badChoice, none)) := by
  -- the seat lookup of the model's `step`, by the name of its matcher (a `match` written here would be another one)
  have hj : ∀ i, SM.step.match_1 (fun _ => SM × Option SMErr × Option Nat) sm.seats[i]? (fun _ => (sm, some SMErr.panic, none))
        (fun s => if s.player.isSome = true then (sm, some SMErr.notAvailable, none)
            else (sm.modSeat i fun s => { s with reserved := true, player := some pid }, none, some i)) = joinAt sm pid i := by
    intro i
    unfold joinAt Generated.Logic.smJoinAt
    cases sm.seats[i]? with
    | none => rfl
    | some s => cases h : s.player <;> simp [seatStep, h]
  unfold SM.step Generated.Logic.smJoin
  simp only [hj]
  by_cases h1 : seat ≥ (sm.max : Int) ∨ seat < -1
  · have h1' : (decide (seat ≥ (sm.max : Int)) || decide (seat < -1)) = true := by simpa using h1
    simp [h1, h1']
  · have h1' : (decide (seat ≥ (sm.max : Int)) || decide (seat < -1)) = false := by simpa using h1
    by_cases h2 : seat > -1
    · simp only [h1, h1', h2, if_false, if_true, decide_false, decide_true, Bool.false_eq_true, List.nil_append]
      simp
    · simp only [h1, h1', h2, if_false, decide_false, Bool.false_eq_true, hj]
      generalize sm.availableSeats.1 = s
      generalize sm.availableSeats.2 = as
      have hne : ∀ l : List Nat, ¬ ((l.length : Int) + 1 = 0) := fun l => by omega
      cases s with
      | nil =>
        cases as with
        | nil => simp
        | cons b bs =>
          by_cases hb : ((bs.length : Int) + 1 = 1) <;> simp [hb, hne] <;> cases chose <;> simp only [hj] <;> (try simp [hne])
      | cons a as' =>
        have : ¬ ((as'.length : Int) + 1 = 0) := by omega
        have h3 : ((as'.length : Int) + 1 > 0) := by omega
        by_cases hb : ((as'.length : Int) + 1 = 1) <;> simp [hb, this, h3] <;> cases chose <;> simp only [hj] <;> (try simp [hne])

/-- seat_manager.go `Seat` (`missing`: `getSeat` finds no seat with that id) -/
theorem smSeat_eq (sm : SM) (id : Int) :
    sm.step (.seat id) =
      (let r := Generated.Logic.smSeat (decide (id < 0 ∨ id ≥ (sm.max : Int)))
       if r = ["ErrNotFoundSeat"] then (sm, some .notFoundSeat, none)
       else (sm.modSeat id.toNat fun s => r.foldl (seatStep 0) s, none, none)) := by
  unfold SM.step Generated.Logic.smSeat
  by_cases h : id < 0 ∨ id ≥ (sm.max : Int) <;> simp [h, seatStep]

/-- seat_manager.go `Reserve` -/
theorem smReserve_eq (sm : SM) (id : Int) :
    sm.step (.reserve id) =
      (let r := Generated.Logic.smReserve (decide (id < 0 ∨ id ≥ (sm.max : Int)))
       if r = ["ErrNotFoundSeat"] then (sm, some .notFoundSeat, none)
       else (sm.modSeat id.toNat fun s => r.foldl (seatStep 0) s, none, none)) := by
  unfold SM.step Generated.Logic.smReserve
  by_cases h : id < 0 ∨ id ≥ (sm.max : Int) <;> simp [h, seatStep]

/-- seat_manager.go `Leave` and `leave` -/
theorem smLeave_eq (sm : SM) (id : Int) :
    Generated.Logic.smLeaveOp = ["leave(seatID)"] ∧
    sm.step (.leave id) =
      (let seat := if id < 0 ∨ id ≥ (sm.max : Int) then none else sm.seats[id.toNat]?
       let r := Generated.Logic.smLeave seat.isNone ((seat.map fun s => s.player.isNone).getD false)
       if r = ["ErrNotFoundSeat"] then (sm, some .notFoundSeat, none)
       else if r = ["ErrEmptySeat"] then (sm, some .emptySeat, none)
       else (sm.modSeat id.toNat fun s => r.foldl (seatStep 0) s, none, none)) := by
  refine ⟨by decide, ?_⟩
  unfold SM.step Generated.Logic.smLeave
  by_cases h : id < 0 ∨ id ≥ (sm.max : Int)
  · simp [h]
  · cases hs : sm.seats[id.toNat]? with
    | none => simp [h, hs]
    | some s => cases hp : s.player <;> simp [h, hs, hp, seatStep]

/-- seat_manager.go `Next`: the two guards; the count of playable seats is read after `nextDealer`
    moved the button, as in the source -/
theorem smNext_eq (sm : SM) :
    sm.step .next =
      (let r := Generated.Logic.smNext sm.nextDealer.2 sm.nextDealer.1.playableCount
       if r = ["ErrInsufficientNumberOfPlayers"] then (sm.nextDealer.1, some .insufficientPlayers, none)
       else match sm.nextDealer.1.renewSeatStatus with
         | none => (sm.nextDealer.1, some .panic, none)
         | some sm' => (sm', none, none)) := by
  unfold SM.step Generated.Logic.smNext
  simp only
  generalize sm.nextDealer = nd
  obtain ⟨sm', found⟩ := nd
  cases found
  · simp
  · by_cases h : sm'.playableCount < 2
    · have h' : (sm'.playableCount : Int) < 2 := by omega
      simp [h, h']
    · have h' : ¬ (sm'.playableCount : Int) < 2 := by omega
      simp [h, h']
      cases sm'.renewSeatStatus <;> rfl

/-! ### what the translated definitions compute, on concrete inputs (non-vacuity) -/

example : Generated.Logic.smJoin (-1) 9 3 0 = ["join(s[rand.Intn(len(s)-1)])"] := by decide

end Pokerface.GeneratedLogic
