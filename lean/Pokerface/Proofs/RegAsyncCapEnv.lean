/-
  C19 on the ASYNCHRONOUS system, forward-only domain (`ASys.okFwd`, `AReachableFwd`): the
  invariant `AInvF` = the C09 invariant `AInv` + the capacity tower `FInv` of the regulator +
  "tables only once `min` players registered" + "nobody is on the way while pending", its
  preservation by every valid operation, and the facts about the callbacks of one step that
  `AStepFacts` does not carry (`AStepFactsF`: how the membership sheet evolves).
-/
import Pokerface.Proofs.RegAsyncCapReg

namespace Pokerface
open Reg

namespace ASys
open RSys (membersOf_some)

/-! ### the regulator component of a step -/

theorem step_add_r (s : ASys) (ps ch : List Nat) : (s.step (.add ps ch)).r = (s.r.addPlayers ps ch).1 := by
  simp only [step]
  generalize s.r.addPlayers ps ch = p
  obtain ⟨r', e⟩ := p
  cases e <;> rfl

theorem step_sync_r (s : ASys) (t : Nat) (elim stay rel keep : List Nat) :
    (s.step (.sync t elim stay rel keep)).r = (s.syncAnswer t elim).1 := by
  simp only [step]
  split <;> rfl

theorem registered_mono (s : ASys) (op : AOp) :
    s.env.registered.length ≤ (s.step op).env.registered.length := by
  cases op with
  | add ps ch =>
    simp only [step]
    generalize s.r.addPlayers ps ch = p
    obtain ⟨r', e⟩ := p
    cases e
    · simp
    · exact Nat.le_refl _
  | status st ch => exact Nat.le_refl _
  | sync t elim stay rel keep =>
    simp only [step]
    split <;> exact Nat.le_refl _
  | report t ps rest ch => exact Nat.le_refl _

/-! ### consequences of `AInv` -/

theorem AInv.members_nil_iff {s : ASys} (h : AInv s) : s.env.members = [] ↔ s.r.tables = [] := by
  have := congrArg List.length h.sim
  simp only [tview, mview, List.length_map] at this
  constructor
  · intro hm; rw [hm] at this; exact List.length_eq_zero_iff.1 this
  · intro ht; rw [ht] at this; exact List.length_eq_zero_iff.1 this.symm

theorem AInv.mem_table {s : ASys} (h : AInv s) {e : Nat × List Nat} (he : e ∈ s.env.members) :
    ∃ tb ∈ s.r.tables, tb.id = e.1 ∧ tb.count = e.2.length := by
  have : (e.1, (e.2.length : Int)) ∈ mview s.env.members := List.mem_map.2 ⟨e, he, rfl⟩
  rw [← h.sim] at this
  obtain ⟨tb, htb, heq⟩ := List.mem_map.1 this
  simp only [Prod.mk.injEq] at heq
  exact ⟨tb, htb, heq.1, heq.2⟩

/-! ### the invariant -/

/-- invariant of the asynchronous system between operations, forward-only domain -/
structure AInvF (s : ASys) : Prop where
  a : AInv s
  f : FInv s.r
  regmin : s.r.tables ≠ [] → s.r.min ≤ s.env.registered.length
  pendfly : s.r.status = .pending → s.inflight = []

theorem AInvF.capacity {s : ASys} (h : AInvF s) {e : Nat × List Nat} (he : e ∈ s.env.members) :
    e.2.length ≤ s.r.max := by
  obtain ⟨tb, htb, _, hc⟩ := h.a.mem_table he
  have := h.f.wf.bnd tb htb
  omega

theorem AInvF.init (max min : Nat) (h1 : 1 ≤ max) : AInvF (ASys.init max min) :=
  ⟨AInv.init max min, FInv.init max min h1, fun h => absurd rfl h, fun _ => rfl⟩

/-- what happened to the membership sheet inside one step -/
structure AStepFactsF (s : ASys) (op : AOp) : Prop where
  members : (s.step op).env.members = Env.applyCalls (s.baseMembers op) (s.step op).r.calls
  valid : validCalls (mview (s.baseMembers op)) (s.step op).r.calls

theorem AInvF.step_add {s : ASys} (h : AInvF s) (ps ch : List Nat) (hok : s.okFwd (.add ps ch)) :
    AInvF (s.step (.add ps ch)) ∧ AStepFactsF s (.add ps ch) := by
  have hok' : s.ok (.add ps ch) := hok
  obtain ⟨hA', hF'⟩ := h.a.step_add ps ch hok'
  obtain ⟨hnd, hfresh, hbad⟩ := hok'
  have hf' : FInv (s.step (.add ps ch)).r := by
    rw [step_add_r]; exact addPlayers_specF s.r ps ch h.f hbad
  have hmono := registered_mono s (.add ps ch)
  have hst : (s.step (.add ps ch)).r.status = s.r.status := hF'.status_eq
  refine ⟨⟨hA', hf', ?_, ?_⟩, ?_⟩
  · intro hne
    rw [hF'.min_eq]
    by_cases ht : s.r.tables = []
    · have h0 : s.r.tableCount = 0 := by rw [h.f.wf.tc, ht]; rfl
      by_cases hs : s.r.status = .afterRegDeadline
      · exfalso; apply hne
        have heq : s.r.addPlayers ps ch = (s.r.beginOp ch, some .afterRegDeadline) := by
          unfold Reg.addPlayers
          have : (s.r.beginOp ch).status = .afterRegDeadline := hs
          simp only [this, if_true]
        rw [step_add_r, heq]; exact ht
      · by_cases hlt : s.r.playerCount + ps.length < s.r.min
        · exfalso; apply hne
          rw [step_add_r]; exact addPlayers_before_minF s.r ps ch h.f.wf h0 hlt
        · obtain ⟨_, _, _, _, hpc⟩ := addPlayers_specA s.r ps ch h.a.wf hs hbad
          have h1 := hA'.pc
          have h2 := hA'.lenle
          rw [step_add_r, hpc] at h1
          omega
    · have := h.regmin ht
      omega
  · intro hp
    rw [hst] at hp
    have : (s.step (.add ps ch)).inflight = s.inflight := by
      simp only [step]
      generalize s.r.addPlayers ps ch = p
      obtain ⟨r', e⟩ := p
      cases e <;> rfl
    rw [this]; exact h.pendfly hp
  · by_cases hs : s.r.status = .afterRegDeadline
    · have heq : s.r.addPlayers ps ch = (s.r.beginOp ch, some .afterRegDeadline) := by
        unfold Reg.addPlayers
        have : (s.r.beginOp ch).status = .afterRegDeadline := hs
        simp only [this, if_true]
      have hstep : s.step (.add ps ch) = { r := s.r.beginOp ch, env := s.env, inflight := s.inflight } := by
        simp only [step, heq]
      constructor
      · rw [hstep]; rfl
      · rw [hstep]; trivial
    · obtain ⟨he, _, hx, _, _⟩ := addPlayers_specA s.r ps ch h.a.wf hs hbad
      have heq : s.r.addPlayers ps ch = ((s.r.addPlayers ps ch).1, none) := Prod.ext rfl he
      have hstep : s.step (.add ps ch) =
          { r := (s.r.addPlayers ps ch).1,
            env := { members := Env.applyCalls s.env.members (s.r.addPlayers ps ch).1.calls,
                     alive := s.env.alive ++ ps, registered := s.env.registered ++ ps },
            inflight := s.inflight } := by
        simp only [step]; rw [heq]
      constructor
      · rw [hstep]; rfl
      · rw [hstep]
        show validCalls (mview s.env.members) _
        rw [← h.a.sim]; exact hx.valid

theorem AInvF.step_status {s : ASys} (h : AInvF s) (st : RStatus) (ch : List Nat)
    (hok : s.okFwd (.status st ch)) :
    AInvF (s.step (.status st ch)) ∧ AStepFactsF s (.status st ch) := by
  obtain ⟨hdom, hbad⟩ := hok
  obtain ⟨hA', hF'⟩ := h.a.step_status st ch hbad
  obtain ⟨_, hx, hstx, hpc⟩ := setStatus_specA s.r st ch h.a.wf hbad
  have hf' : FInv (s.step (.status st ch)).r := setStatus_specF s.r st ch h.f hdom hbad
  refine ⟨⟨hA', hf', ?_, ?_⟩, ⟨rfl, ?_⟩⟩
  · intro hne
    rw [hF'.min_eq]
    show s.r.min ≤ s.env.registered.length
    by_cases ht : s.r.tables = []
    · have h0 : s.r.tableCount = 0 := by rw [h.f.wf.tc, ht]; rfl
      by_cases hlt : s.r.playerCount < s.r.min
      · exact absurd (setStatus_before_minF s.r st ch h.f.wf h0 hlt) hne
      · have h1 := h.a.pc
        have h2 := h.a.lenle
        omega
    · exact h.regmin ht
  · intro hp
    have hp' : st = .pending := by
      have := hF'.status_eq
      simp only [statusAfter] at this
      rw [← this]; exact hp
    show s.inflight = []
    rcases hdom with h1 | h1
    · exact absurd hp' h1
    · exact h.pendfly h1
  · show validCalls (mview s.env.members) _
    rw [← h.a.sim]; exact hx.valid

theorem flyingOf_nil_of_inflight_nil {s : ASys} (h : s.inflight = []) (t : Nat) : s.flyingOf t = [] := by
  simp [flyingOf, h]

theorem AInvF.step_report {s : ASys} (h : AInvF s) (t : Nat) (ps rest ch : List Nat)
    (hok : s.okFwd (.report t ps rest ch)) :
    AInvF (s.step (.report t ps rest ch)) ∧ AStepFactsF s (.report t ps rest ch) := by
  have hok' : s.ok (.report t ps rest ch) := hok
  obtain ⟨hA', hF'⟩ := h.a.step_report t ps rest ch hok'
  obtain ⟨hperm, hbad⟩ := hok'
  obtain ⟨_, hx, hstx, hpc⟩ := releasePlayers_specA s.r ps ch h.a.wf hbad
  have hf' : FInv (s.step (.report t ps rest ch)).r := releasePlayers_specF s.r ps ch h.f hbad
  refine ⟨⟨hA', hf', ?_, ?_⟩, ⟨rfl, ?_⟩⟩
  · intro hne
    rw [hF'.min_eq]
    show s.r.min ≤ s.env.registered.length
    by_cases ht : s.r.tables = []
    · have h0 : s.r.tableCount = 0 := by rw [h.f.wf.tc, ht]; rfl
      by_cases hlt : s.r.playerCount < s.r.min
      · exact absurd (releasePlayers_before_minF s.r ps ch h.f.wf h0 hlt) hne
      · have h1 := h.a.pc
        have h2 := h.a.lenle
        omega
    · exact h.regmin ht
  · intro hp
    have hp0 : s.r.status = .pending := by
      have := hF'.status_eq
      simp only [statusAfter] at this
      rw [← this]; exact hp
    have hfl := h.pendfly hp0
    have hnil : ps ++ rest = [] := by
      have := hperm.length_eq
      rw [flyingOf_nil_of_inflight_nil hfl] at this
      exact List.length_eq_zero_iff.1 this.symm
    have hrest : rest = [] := (List.append_eq_nil_iff.1 hnil).2
    show s.inflight.filter (fun e => e.1 != t) ++ (if rest.isEmpty then [] else [(t, rest)]) = []
    rw [hfl, hrest]; rfl
  · show validCalls (mview s.env.members) _
    rw [← h.a.sim]; exact hx.valid

theorem AInvF.step_sync {s : ASys} (h : AInvF s) (t : Nat) (elim stay rel keep : List Nat)
    (hok : s.okFwd (.sync t elim stay rel keep)) :
    AInvF (s.step (.sync t elim stay rel keep)) ∧ AStepFactsF s (.sync t elim stay rel keep) := by
  have hok' : s.ok (.sync t elim stay rel keep) := hok
  obtain ⟨hA', hF'⟩ := h.a.step_sync t elim stay rel keep hok'
  simp only [ok] at hok'
  cases hm : s.env.membersOf t with
  | none =>
    have hft : s.r.findTable t = none := (h.a.unknown_iff t).1 hm
    have hans : (s.syncAnswer t elim).1 = s.r.beginOp [] := syncState_unknown s.r t elim.length hft
    have hstep : s.step (.sync t elim stay rel keep) =
        { r := s.r.beginOp [], env := s.env, inflight := s.inflight } := by
      simp only [step, hm, hans]
    have hbase : s.baseMembers (.sync t elim stay rel keep) = s.env.members := by
      simp only [baseMembers, hm]
    refine ⟨⟨hA', ?_, ?_, ?_⟩, ⟨?_, ?_⟩⟩
    · rw [hstep]; exact h.f.beginOp []
    · rw [hstep]; exact h.regmin
    · rw [hstep]; exact h.pendfly
    · rw [hstep, hbase]; rfl
    · rw [hstep, hbase]; trivial
  | some ms =>
    rw [hm] at hok'
    simp only [] at hok'
    have hp1 : ms.Perm (elim ++ stay) := by
      rw [show s.syncAnswer t elim = ((s.syncAnswer t elim).1, (s.syncAnswer t elim).2.1,
        (s.syncAnswer t elim).2.2.1, (s.syncAnswer t elim).2.2.2) from rfl] at hok'
      exact hok'.1
    obtain ⟨r1, relc, nw, t0, hans, hft, hc0, _, _, _, _, hc1, _, _⟩ := h.a.sync_known t elim stay ms hm hp1
    have hlen := hp1.length_eq
    rw [List.length_append] at hlen
    have hle : (elim.length : Int) ≤ t0.count := by omega
    have hpc : 0 ≤ s.r.playerCount - (elim.length : Int) := by
      obtain ⟨bwf, _, bsum⟩ := syncBase_factsD s.r t elim.length t0 h.a.wf hft hle
      have := sumCount_nonneg _ (fun t ht => (bwf.nn t ht).1)
      rw [h.a.cnt]; omega
    obtain ⟨hwf1, hq1, hst1⟩ := syncState_specF s.r t elim.length t0 h.f.wf h.f.q hpc hft (by omega) hle
    have hr1 : (s.r.syncState t elim.length).1 = r1 := by
      have : s.syncAnswer t elim = s.r.syncState t elim.length := rfl
      rw [← this, hans]
    rw [hr1] at hwf1 hq1 hst1
    obtain ⟨ht0, _⟩ := findTable_some hft
    have hne : s.r.tables ≠ [] := fun h0 => by rw [h0] at ht0; cases ht0
    have hnp : s.r.status ≠ .pending := fun hp => hne (h.f.pend hp)
    have hr : (s.step (.sync t elim stay rel keep)).r = r1 := by rw [step_sync_r, hans]
    have hreg : (s.step (.sync t elim stay rel keep)).env.registered = s.env.registered := by
      simp only [step, hm]
    refine ⟨⟨hA', ?_, ?_, ?_⟩, ⟨?_, ?_⟩⟩
    · rw [hr]
      exact ⟨hwf1, hq1, fun hp => absurd (hst1 ▸ hp) hnp⟩
    · intro _
      rw [hF'.min_eq, hreg]; exact h.regmin hne
    · intro hp
      rw [hr, hst1] at hp
      exact absurd hp hnp
    · rw [hr, hc1]
      simp only [step, hm, baseMembers]
      rfl
    · rw [hr, hc1]; trivial

theorem AInvF.step_full {s : ASys} (h : AInvF s) (op : AOp) (hok : s.okFwd op) :
    AInvF (s.step op) ∧ AStepFactsF s op := by
  cases op with
  | add ps ch => exact h.step_add ps ch hok
  | status st ch => exact h.step_status st ch hok
  | sync t elim stay rel keep => exact h.step_sync t elim stay rel keep hok
  | report t ps rest ch => exact h.step_report t ps rest ch hok

theorem AInvF.of_reachable {s : ASys} (h : AReachableFwd s) : AInvF s := by
  induction h with
  | init max min h1 => exact AInvF.init max min h1
  | step op _ hok ih => exact (ih.step_full op hok).1

/-! ### the initial allocation -/

/-- tables opened by an operation that started with no table get at least `min` players -/
theorem AInvF.initial_min {s : ASys} (h : AInvF s) (h0 : s.r.tableCount = 0) (op : AOp)
    (id : Nat) (ps : List Nat) (hc : RCall.requestTable id ps ∈ (s.step op).r.calls) :
    s.r.min ≤ ps.length := by
  cases op with
  | add qs ch =>
    rw [step_add_r] at hc
    exact addPlayers_initialF s.r qs ch h.f.wf h0 id ps hc
  | status st ch => exact setStatus_initialF s.r st ch h.f.wf h0 id ps hc
  | report t qs rest ch => exact releasePlayers_initialF s.r qs ch h.f.wf h0 id ps hc
  | sync t elim stay rel keep =>
    exfalso
    have ht := tables_nil_of_tc h.f.wf h0
    have hft : s.r.findTable t = none := by simp [Reg.findTable, ht]
    rw [step_sync_r] at hc
    have : (s.syncAnswer t elim).1 = s.r.beginOp [] := syncState_unknown s.r t elim.length hft
    rw [this] at hc
    simp [Reg.beginOp] at hc

/-! ### the synchronous forward-only domain embeds -/

/-- a `SetStatus` operation -/
def isStatus : AOp → Bool
  | .status _ _ => true
  | _ => false

theorem allOkFwd_of_allOk : ∀ (ops : List AOp) (s : ASys), s.allOk ops →
    (∀ op ∈ ops, isStatus op = false) → s.allOkFwd ops := by
  intro ops
  induction ops with
  | nil => intro _ _ _; trivial
  | cons op ops ih =>
    intro s hok hns
    refine ⟨?_, ih _ hok.2 (fun o ho => hns o (List.mem_cons_of_mem _ ho))⟩
    have h1 := hns op (List.mem_cons_self ..)
    cases op with
    | status st ch => cases h1
    | add ps ch => exact hok.1
    | sync t elim stay rel keep => exact hok.1
    | report t ps rest ch => exact hok.1

/-- the asynchronous script of a valid forward-only synchronous operation is valid, forward-only -/
theorem allOkFwd_expand (s : RSys) (op : EOp) (hok : s.ok op) : (ofRSys s).allOkFwd (expand s op) := by
  have hany := allOk_expand s op (RSys.okAny_of_ok hok)
  cases op with
  | status st ch => exact ⟨⟨hok.1, hok.2⟩, trivial⟩
  | add ps ch =>
    exact allOkFwd_of_allOk _ _ hany (by intro o ho; simp only [expand, List.mem_singleton] at ho; subst ho; rfl)
  | sync t elim stay rel keep ch =>
    apply allOkFwd_of_allOk _ _ hany
    intro o ho
    simp only [expand] at ho
    split at ho
    · simp only [List.mem_singleton] at ho; subst ho; rfl
    · split at ho
      · simp only [List.mem_singleton] at ho; subst ho; rfl
      · simp only [List.mem_cons, List.not_mem_nil, or_false] at ho
        rcases ho with rfl | rfl <;> rfl

/-- every state of the synchronous forward-only domain is a state of the asynchronous one -/
theorem AReachableFwd.ofRSys {s : RSys} (h : RSys.Reachable s) : AReachableFwd (ASys.ofRSys s) := by
  induction h with
  | init max min h1 => exact AReachableFwd.init max min h1
  | step op _ hok ih =>
    rw [← run_expand]
    exact ih.run _ (allOkFwd_expand _ op hok)

end ASys
end Pokerface
