/-
  `SyncState` on the widest domain: Proofs/RegSync.lean redone for `WF0` (no capacity bound, no `Q`).
-/
import Pokerface.Proofs.RegAnyDrain

namespace Pokerface
namespace Reg

/-- well-formedness after updating the one table `t0` with id `id` -/
theorem WF0.upd {r : Reg} (hwf : WF0 r) {id : Nat} {t0 : RTable} (ht0 : t0 ∈ r.tables) (hid0 : t0.id = id)
    (a : Int) (rq : Option Int) (r' : Reg)
    (htc : r'.tableCount = r.tableCount)
    (hnext : r'.nextId = r.nextId) (htab : r'.tables = upd id (adj a rq) r.tables)
    (hb : 0 ≤ (adj a rq t0).count ∧ 0 ≤ (adj a rq t0).required) : WF0 r' := by
  constructor
  · rw [htc, htab, upd_length]; exact hwf.tc
  · rw [htab, upd_ids _ _ _ (adj_id a rq)]; exact hwf.nodup
  · intro t' ht'
    rw [htab] at ht'; rw [hnext]
    rcases mem_upd ht' with h1 | ⟨t, h, _, rfl⟩
    · exact hwf.idlt t' h1
    · exact hwf.idlt t h
  · intro t' ht'
    rw [htab] at ht'
    rcases mem_upd ht' with h1 | ⟨t, h, hidt, rfl⟩
    · exact hwf.nn t' h1
    · have := eq_of_mem_of_id hwf.nodup h ht0 (hidt.trans hid0.symm)
      subst this; exact hb

theorem breakTable_spec0 {r : Reg} (hwf : WF0 r) {id : Nat} {t0 : RTable} (ht0 : t0 ∈ r.tables)
    (hid0 : t0.id = id) :
    WF0 (r.breakTable id) ∧ (r.breakTable id).findTable id = none ∧
    sumCount (r.breakTable id).tables = sumCount r.tables - t0.count := by
  have hmem : (id, t0.count) ∈ tview r.tables := List.mem_map.2 ⟨t0, ht0, by rw [hid0]⟩
  obtain ⟨h1, h2⟩ := tv_filter_spec (tview r.tables) id t0.count (by rw [tview_fst]; exact hwf.nodup) hmem
  refine ⟨?_, ?_, ?_⟩
  · constructor
    · simp only [breakTable]
      have : (r.tables.filter (fun t => t.id != id)).length = ((tview r.tables).filter (fun e => e.1 != id)).length := by
        rw [← tview_filter]; simp [tview]
      rw [this]
      have hl : (tview r.tables).length = r.tables.length := by simp [tview]
      have := hwf.tc
      omega
    · exact filter_ids_nodup _ _ hwf.nodup
    · intro t ht
      exact hwf.idlt t (List.mem_filter.1 ht).1
    · intro t ht
      exact hwf.nn t (List.mem_filter.1 ht).1
  · simp only [breakTable, findTable]
    rw [List.find?_eq_none]
    intro t ht
    have := (List.mem_filter.1 ht).2
    simpa using this
  · simp only [breakTable]
    rw [sumCount_eq, tview_filter, h1, sumCount_eq]

/-- What `SyncState` does after booking the eliminations, relative to the booked state `b`
    in which table `id` is `tb` (widest domain: no statement about `Required`). -/
structure SyncPost0 (b : Reg) (id : Nat) (tb : RTable) (r1 : Reg) (rel : Int) (nw : List Nat) : Prop where
  wf : WF0 r1
  calls : r1.calls = b.calls
  max_eq : r1.max = b.max
  min_eq : r1.min = b.min
  status_eq : r1.status = b.status
  pc_eq : r1.playerCount = b.playerCount
  next_eq : r1.nextId = b.nextId
  queue : b.queue = nw ++ r1.queue
  rel0 : 0 ≤ rel
  cnt : r1.playerCount = r1.queue.length + sumCount r1.tables + rel
  excl : nw = [] ∨ rel = 0
  cases :
    (r1.findTable id = none ∧ r1.tables = b.tables.filter (fun t => t.id != id) ∧ rel = tb.count ∧ nw = []) ∨
    (∃ a rq, r1.tables = upd id (adj a rq) b.tables ∧ a = (nw.length : Int) - rel ∧
      rel ≤ tb.count + nw.length)

theorem sync_break0 {b : Reg} (hwf : WF0 b) (hcnt : b.playerCount = b.queue.length + sumCount b.tables)
    {id : Nat} {tb : RTable} (htb : tb ∈ b.tables) (hid : tb.id = id) :
    SyncPost0 b id tb (b.breakTable id) tb.count [] := by
  obtain ⟨h1, h2, h3⟩ := breakTable_spec0 hwf htb hid
  refine ⟨h1, rfl, rfl, rfl, rfl, rfl, rfl, rfl, (hwf.nn tb htb).1, ?_, Or.inl rfl, Or.inl ⟨h2, rfl, rfl, rfl⟩⟩
  rw [h3]
  show b.playerCount = _
  rw [hcnt]
  show _ = (b.queue.length : Int) + _ + _
  omega

theorem sync_same0 {b : Reg} (hwf : WF0 b) (hcnt : b.playerCount = b.queue.length + sumCount b.tables)
    {id : Nat} {tb : RTable} (htb : tb ∈ b.tables) :
    SyncPost0 b id tb b 0 [] := by
  refine ⟨hwf, rfl, rfl, rfl, rfl, rfl, rfl, rfl, Int.le_refl _, by omega, Or.inl rfl, Or.inr ⟨0, none, ?_, rfl, ?_⟩⟩
  · rw [upd_adj_zero]
  · have := (hwf.nn tb htb).1; simp; omega

theorem sync_take0 {b : Reg} (hwf : WF0 b) (hcnt : b.playerCount = b.queue.length + sumCount b.tables)
    {id : Nat} {tb : RTable} (htb : tb ∈ b.tables) (hid : tb.id = id) (fl : Int) :
    SyncPost0 b id tb
      { b with queue := b.queue.drop (fl - tb.count).toNat,
               tables := upd id (adj ((b.queue.take (fl - tb.count).toNat).length : Int)
                  (if fl - tb.count - ((b.queue.take (fl - tb.count).toNat).length : Int) > 0
                   then some (fl - tb.count - ((b.queue.take (fl - tb.count).toNat).length : Int)) else none)) b.tables }
      0 (b.queue.take (fl - tb.count).toNat) := by
  have hbt := hwf.nn tb htb
  have hidm : id ∈ b.tables.map (·.id) := List.mem_map.2 ⟨tb, htb, hid⟩
  refine ⟨?_, rfl, rfl, rfl, rfl, rfl, rfl, ?_, Int.le_refl _, ?_, Or.inr rfl, Or.inr ⟨_, _, rfl, by omega, by omega⟩⟩
  · refine hwf.upd htb hid _ _ _ rfl rfl rfl ?_
    simp only [adj]
    split
    · simp only [Option.getD_some]; omega
    · simp only [Option.getD_none]; omega
  · simp only [List.take_append_drop]
  · simp only
    rw [sumCount_upd_adj hwf.nodup hidm, hcnt]
    have : b.queue.length = (b.queue.take (fl - tb.count).toNat).length + (b.queue.drop (fl - tb.count).toNat).length := by
      rw [← List.length_append, List.take_append_drop]
    omega

theorem sync_release0 {b : Reg} (hwf : WF0 b) (hcnt : b.playerCount = b.queue.length + sumCount b.tables)
    {id : Nat} {tb : RTable} (htb : tb ∈ b.tables) (hid : tb.id = id) (fl : Int) (hfl0 : 0 ≤ fl) :
    SyncPost0 b id tb (releaseLoop (tb.count - fl).toNat id fl b 0).2
      (releaseLoop (tb.count - fl).toNat id fl b 0).1 [] := by
  obtain ⟨j, hj, he⟩ := releaseLoop_spec (tb.count - fl).toNat id fl b 0
  rw [he]
  have hbt := hwf.nn tb htb
  have hidm : id ∈ b.tables.map (·.id) := List.mem_map.2 ⟨tb, htb, hid⟩
  refine ⟨?_, rfl, rfl, rfl, rfl, rfl, rfl, rfl, by simp, ?_, Or.inl rfl, Or.inr ⟨_, _, rfl, by simp, by simp; omega⟩⟩
  · refine hwf.upd htb hid _ _ _ rfl rfl rfl ?_
    simp only [adj, Option.getD_none]
    omega
  · simp only
    rw [sumCount_upd_adj hwf.nodup hidm, hcnt]
    omega

structure BaseFacts0 (r : Reg) (id : Nat) (out : Int) (t0 : RTable) : Prop where
  wf : WF0 (syncBase r id out)
  cnt : (syncBase r id out).playerCount = (syncBase r id out).queue.length + sumCount (syncBase r id out).tables
  mem : adj (-out) none t0 ∈ (syncBase r id out).tables

theorem syncBase_facts0 (r : Reg) (id : Nat) (out : Int) (t0 : RTable) (hwf : WF0 r)
    (hcnt : r.playerCount = r.queue.length + sumCount r.tables)
    (hf : r.findTable id = some t0) (ho : out ≤ t0.count) : BaseFacts0 r id out t0 := by
  obtain ⟨ht0, hid0⟩ := findTable_some hf
  have hbt := hwf.nn t0 ht0
  have hidm : id ∈ r.tables.map (·.id) := List.mem_map.2 ⟨t0, ht0, hid0⟩
  refine ⟨?_, ?_, ?_⟩
  · refine hwf.upd ht0 hid0 (-out) none _ rfl rfl (syncBase_tables r id out) ?_
    simp only [adj, Option.getD_none]; omega
  · rw [syncBase_tables, sumCount_upd_adj hwf.nodup hidm]
    show r.playerCount - out = (r.queue.length : Int) + _
    omega
  · rw [syncBase_tables]
    simp only [upd, List.mem_map]
    exact ⟨t0, ht0, by simp [hid0]⟩

/-- `SyncState` on a known table, in terms of the booked state (widest domain). -/
theorem syncState_spec0 (r : Reg) (id : Nat) (out : Int) (t0 : RTable) (hwf : WF0 r)
    (hcnt : r.playerCount = r.queue.length + sumCount r.tables)
    (hf : r.findTable id = some t0) (ho : out ≤ t0.count) :
    ∃ r1 rel nw, r.syncState id out = (r1, none, rel, nw) ∧
      SyncPost0 (syncBase r id out) id (adj (-out) none t0) r1 rel nw := by
  obtain ⟨bwf, bcnt, bmem⟩ := syncBase_facts0 r id out t0 hwf hcnt hf ho
  have hid0 := (findTable_some hf).2
  have hidb : (adj (-out) none t0).id = id := hid0
  have htc : (adj (-out) none t0).count = t0.count - out := by simp [adj, Int.sub_eq_add_neg]
  rw [syncState_eq, hf]
  simp only
  generalize syncBase r id out = b at *
  rw [← htc]
  generalize adj (-out) none t0 = tb at *
  split
  · exact ⟨_, _, _, rfl, sync_break0 bwf bcnt bmem hidb⟩
  · split
    · exact ⟨_, _, _, rfl, sync_same0 bwf bcnt bmem⟩
    · rename_i hreq
      have hreq' : 0 < b.requiredTables := by omega
      split
      · split
        · exact ⟨_, _, _, rfl, sync_break0 bwf bcnt bmem hidb⟩
        · refine ⟨_, _, _, rfl, ?_⟩
          rw [take_norm]
          exact sync_take0 bwf bcnt bmem hidb _
      · split
        · refine ⟨_, _, _, rfl, ?_⟩
          have hpc0 : 0 ≤ b.playerCount := by
            rw [bcnt]
            have : 0 ≤ sumCount b.tables := sumCount_nonneg _ (fun t ht => (bwf.nn t ht).1)
            omega
          exact sync_release0 bwf bcnt bmem hidb _ (floor_nonneg hpc0 hreq')
        · exact ⟨_, _, _, rfl, sync_same0 bwf bcnt bmem⟩

end Reg
end Pokerface
