import Pokerface.Proofs.SettleLevel
import Pokerface.Proofs.PotsFinal
/-
  `gameResults` as a whole: unfolding into update lists, and generic lemmas for summing
  per-level bounds over all levels of all pots (helper lemmas for C02).
-/
namespace Pokerface

/-- A level of a pot as it stands when `Calculate` starts. -/
def toInfo (rows : List (Nat × Int × Bool × Int)) (l : Level) : LevelInfo :=
  { level := l.level, wager := l.wager, total := l.total, contributors := l.contributors,
    groups := groupsOf (scoredRows rows l.contributors) }

theorem foldl_addPot (pots : List Pot) (r : Result) :
    pots.foldl (fun r p => r.addPot p.total p.levels) r
      = { players := r.players,
          pots := r.pots ++ pots.map (fun p => ({ total := p.total, levels := p.levels.map fun l =>
            ({ level := l.level, wager := l.wager, total := l.total, contributors := l.contributors } : LevelInfo) } : PotResult)) } := by
  induction pots generalizing r with
  | nil => cases r; simp
  | cons p ps ih => rw [List.foldl_cons, ih]; simp [Result.addPot]

/-- The state on which `Calculate` runs. -/
theorem gameResults_eq (pots : List Pot) (rows : List (Nat × Int × Bool × Int)) :
    gameResults pots rows =
      Result.calculate
        { players := rows.map (fun row => (⟨row.1, row.2.1, 0⟩ : PlayerResult)),
          pots := pots.map (fun p => ({ total := p.total, levels := p.levels.map (toInfo rows) } : PotResult)) } := by
  unfold gameResults
  simp only []
  rw [foldl_addPot, rows_fold]
  congr 1
  simp only [List.nil_append, List.map_map, Result.mk.injEq, true_and]
  apply List.map_congr_left
  intro p _
  simp only [Function.comp, List.map_map, PotResult.mk.injEq, true_and, and_true]
  apply List.map_congr_left
  intro l _
  simp [toInfo, groupsOf]

theorem gameResults_players (pots : List Pot) (rows : List (Nat × Int × Bool × Int)) :
    (gameResults pots rows).players
      = bumpAll (rows.map (fun row => (⟨row.1, row.2.1, 0⟩ : PlayerResult)))
          (pots.flatMap (fun p => potUpdates 0 (p.levels.map (toInfo rows)))) := by
  rw [gameResults_eq, calculate_players]
  simp only [List.flatMap_def, List.map_map, Function.comp_def]

theorem gameResults_pots_levels (pots : List Pot) (rows : List (Nat × Int × Bool × Int)) :
    (gameResults pots rows).pots.map (·.levels) = pots.map (fun p => p.levels.map (toInfo rows)) := by
  rw [gameResults_eq, calculate_pots_levels]
  simp only [List.map_map, Function.comp_def]

/-! ### summing per-level bounds -/

theorem net_flatMap {α : Type} (xs : List α) (f : α → List (Nat × Int)) (i : Nat) :
    net (xs.flatMap f) i = (xs.map (fun x => net (f x) i)).sum := by
  induction xs with
  | nil => rfl
  | cons x xs ih => simp [List.flatMap_cons, net_append, ih]

/-- Lower bounds per level add up over the levels of one pot. -/
theorem net_potUpdates_ge (ls : List LevelInfo) (i : Nat) (f : LevelInfo → Int)
    (hwf : ∀ l ∈ ls, ∃ xs, LevelWF xs l)
    (hf : ∀ l ∈ ls, ∀ o, 0 ≤ o → f l ≤ net (levelUpdates l o) i) (o : Int) (ho : 0 ≤ o) :
    (ls.map f).sum ≤ net (potUpdates o ls) i := by
  induction ls generalizing o with
  | nil => simp [potUpdates, net]
  | cons l ls ih =>
    obtain ⟨xs, hxs⟩ := hwf l (by simp)
    simp only [potUpdates, net_append, List.map_cons, List.sum_cons]
    have h1 := hf l (by simp) o ho
    have h2 := ih (fun x hx => hwf x (by simp [hx])) (fun x hx => hf x (by simp [hx]))
      (nextOffset l o) (nextOffset_nonneg hxs o ho)
    omega

/-- Upper bounds per level add up over the levels of one pot. -/
theorem net_potUpdates_le (ls : List LevelInfo) (i : Nat) (f : LevelInfo → Int)
    (hwf : ∀ l ∈ ls, ∃ xs, LevelWF xs l)
    (hf : ∀ l ∈ ls, ∀ o, 0 ≤ o → net (levelUpdates l o) i ≤ f l) (o : Int) (ho : 0 ≤ o) :
    net (potUpdates o ls) i ≤ (ls.map f).sum := by
  induction ls generalizing o with
  | nil => simp [potUpdates, net]
  | cons l ls ih =>
    obtain ⟨xs, hxs⟩ := hwf l (by simp)
    simp only [potUpdates, net_append, List.map_cons, List.sum_cons]
    have h1 := hf l (by simp) o ho
    have h2 := ih (fun x hx => hwf x (by simp [hx])) (fun x hx => hf x (by simp [hx]))
      (nextOffset l o) (nextOffset_nonneg hxs o ho)
    omega

theorem sum_map_flatMap {α β : Type} (xs : List α) (g : α → List β) (f : β → Int) :
    ((xs.flatMap g).map f).sum = (xs.map (fun x => ((g x).map f).sum)).sum := by
  induction xs with
  | nil => rfl
  | cons x xs ih => simp [List.flatMap_cons, ih]

theorem sum_le_sum {α : Type} (xs : List α) (f g : α → Int) (h : ∀ x ∈ xs, f x ≤ g x) :
    (xs.map f).sum ≤ (xs.map g).sum := by
  induction xs with
  | nil => simp
  | cons x xs ih =>
    simp only [List.map_cons, List.sum_cons]
    have := h x (by simp)
    have := ih (fun y hy => h y (by simp [hy]))
    omega

/-- Lower bounds per level add up over all levels of all pots. -/
theorem net_all_ge (pots : List (List LevelInfo)) (i : Nat) (f : LevelInfo → Int)
    (hwf : ∀ ls ∈ pots, ∀ l ∈ ls, ∃ xs, LevelWF xs l)
    (hf : ∀ ls ∈ pots, ∀ l ∈ ls, ∀ o, 0 ≤ o → f l ≤ net (levelUpdates l o) i) :
    ((pots.flatMap id).map f).sum ≤ net (pots.flatMap (fun ls => potUpdates 0 ls)) i := by
  rw [net_flatMap, sum_map_flatMap]
  apply sum_le_sum
  intro ls hls
  exact net_potUpdates_ge ls i f (hwf ls hls) (hf ls hls) 0 (Int.le_refl _)

/-- Upper bounds per level add up over all levels of all pots. -/
theorem net_all_le (pots : List (List LevelInfo)) (i : Nat) (f : LevelInfo → Int)
    (hwf : ∀ ls ∈ pots, ∀ l ∈ ls, ∃ xs, LevelWF xs l)
    (hf : ∀ ls ∈ pots, ∀ l ∈ ls, ∀ o, 0 ≤ o → net (levelUpdates l o) i ≤ f l) :
    net (pots.flatMap (fun ls => potUpdates 0 ls)) i ≤ ((pots.flatMap id).map f).sum := by
  rw [net_flatMap, sum_map_flatMap]
  apply sum_le_sum
  intro ls hls
  exact net_potUpdates_le ls i f (hwf ls hls) (hf ls hls) 0 (Int.le_refl _)

/-- The deltas of one pot add up to zero. -/
theorem potUpdates_sum (ls : List LevelInfo) (hwf : ∀ l ∈ ls, ∃ xs, LevelWF xs l) (o : Int) (ho : 0 ≤ o) :
    ((potUpdates o ls).map (·.2)).sum = 0 := by
  induction ls generalizing o with
  | nil => rfl
  | cons l ls ih =>
    obtain ⟨xs, hxs⟩ := hwf l (by simp)
    simp only [potUpdates, List.map_append, List.sum_append]
    rw [levelUpdates_sum hxs o ho, ih (fun x hx => hwf x (by simp [hx])) _ (nextOffset_nonneg hxs o ho)]
    rfl

/-- All updates of one pot address contributors of its levels. -/
theorem potUpdates_keys (ls : List LevelInfo) (hwf : ∀ l ∈ ls, ∃ xs, LevelWF xs l) (o : Int) :
    ∀ u ∈ potUpdates o ls, ∃ l ∈ ls, u.1 ∈ l.contributors := by
  induction ls generalizing o with
  | nil => simp [potUpdates]
  | cons l ls ih =>
    obtain ⟨xs, hxs⟩ := hwf l (by simp)
    intro u hu
    simp only [potUpdates, List.mem_append] at hu
    rcases hu with hu | hu
    · refine ⟨l, by simp, ?_⟩
      exact (levelUpdates_keys hxs o).subset (List.mem_map_of_mem hu)
    · obtain ⟨l', hl', h⟩ := ih (fun x hx => hwf x (by simp [hx])) _ u hu
      exact ⟨l', by simp [hl'], h⟩

end Pokerface
