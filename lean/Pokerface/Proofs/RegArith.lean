/-
  Integer arithmetic behind the regulator's water levels (DESIGN §4: the float
  quotients are modelled by exact integer quotients).
-/
import Pokerface.Model.Regulator

namespace Pokerface.Reg

theorem ceilDiv_pos (pc : Int) (mx : Nat) (hm : 0 < mx) (h : 0 < pc) : 0 < ceilDiv pc mx := by
  unfold ceilDiv
  have : (1 : Int) ≤ (pc + (mx : Int) - 1) / (mx : Int) := by
    rw [Int.le_ediv_iff_mul_le (by omega)]; omega
  omega

theorem ceilDiv_nonneg (pc : Int) (mx : Nat) (hm : 0 < mx) (h : 0 ≤ pc) : 0 ≤ ceilDiv pc mx := by
  unfold ceilDiv
  rw [Int.le_ediv_iff_mul_le (by omega)]; omega

theorem ceilDiv_nonpos (pc : Int) (mx : Nat) (hm : 0 < mx) (h : pc ≤ 0) : ceilDiv pc mx ≤ 0 := by
  unfold ceilDiv
  have : (pc + (mx : Int) - 1) / (mx : Int) < 1 := by
    rw [Int.ediv_lt_iff_lt_mul (by omega)]; omega
  omega

/-- `pc ≤ ⌈pc/max⌉ · max`. -/
theorem le_ceilDiv_mul (pc : Int) (mx : Nat) (hm : 0 < mx) : pc ≤ ceilDiv pc mx * (mx : Int) := by
  unfold ceilDiv
  have h : (pc + (mx : Int) - 1) / (mx : Int) < (pc + (mx : Int) - 1) / (mx : Int) + 1 := by omega
  rw [Int.ediv_lt_iff_lt_mul (by omega)] at h
  rw [Int.add_mul] at h
  omega

/-- `⌊pc/req⌋ ≤ max` when `pc ≤ req · max`. -/
theorem floor_le_max {pc req mx : Int} (hr : 0 < req) (h : pc ≤ req * mx) : pc / req ≤ mx := by
  have : pc / req < mx + 1 := by
    rw [Int.ediv_lt_iff_lt_mul hr, Int.add_mul, Int.mul_comm mx req]; omega
  omega

/-- `⌈pc/req⌉ ≤ max` when `pc ≤ req · max`. -/
theorem ceil_le_max {pc req mx : Int} (hr : 0 < req) (h : pc ≤ req * mx) : (pc + req - 1) / req ≤ mx := by
  have : (pc + req - 1) / req < mx + 1 := by
    rw [Int.ediv_lt_iff_lt_mul hr, Int.add_mul, Int.mul_comm mx req]; omega
  omega

theorem floor_le_self {pc req : Int} (hp : 0 ≤ pc) : pc / req ≤ pc := Int.ediv_le_self req hp

theorem floor_nonneg {pc req : Int} (hp : 0 ≤ pc) (hr : 0 < req) : 0 ≤ pc / req := by
  rw [Int.le_ediv_iff_mul_le hr]; omega

/-- a count strictly below the real quotient is at most its floor -/
theorem le_floor_of_mul_lt {tc pc req : Int} (hr : 0 < req) (h : tc * req < pc) : tc ≤ pc / req := by
  rw [Int.le_ediv_iff_mul_le hr]; omega

/-- a count strictly above the real quotient is above its floor -/
theorem floor_lt_of_lt_mul {tc pc req : Int} (hr : 0 < req) (h : pc < tc * req) : pc / req < tc := by
  rw [Int.ediv_lt_iff_lt_mul hr]; omega

end Pokerface.Reg
