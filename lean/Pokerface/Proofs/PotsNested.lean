import Pokerface.Properties.C16
/-
  Helper lemmas for C16Nested: positions of the published pots relative to the players'
  contributions (every non-folded contribution is a pot boundary), telescoping of per-owner slices.
-/
namespace Pokerface
open C16

/-- Every level merged into a published pot is at most the pot's own level. -/
theorem getPots_levels_le {ll : LevelList} (h : LLInv ll) {p : Pot} (hp : p ∈ ll.getPots) :
    ∀ l ∈ p.levels, l.level ≤ p.level := by
  obtain ⟨pre, post, hsplit⟩ := List.append_of_mem hp
  obtain ⟨preM, q, postM, hM, _, _, hpq⟩ := getPots_split hsplit
  obtain ⟨hg, hflat, _⟩ := mergedPots_spec h
  have hq : q ∈ mergedPots ll := by rw [hM]; simp
  obtain ⟨l0, hl0, hlev, _, _⟩ := (hg q hq).last
  have hs := h.sorted
  rw [← hflat, hM] at hs
  simp only [List.flatMap_append, List.flatMap_cons, List.map_append, List.pairwise_append] at hs
  have hsq : (q.levels.map (·.level)).Pairwise (· < ·) := hs.2.1.1
  intro l hl
  subst hpq
  have h1 := le_lastD_of_sorted hsq 0 l.level (List.mem_map_of_mem hl)
  have h2 : lastD 0 (q.levels.map (·.level)) = l0.level :=
    lastD_of_getLast? (by rw [List.getLast?_map, hl0]; rfl)
  simp only at hl ⊢
  omega

/-- The level of a published pot is one of the levels of the level list. -/
theorem getPots_level_mem {ll : LevelList} (h : LLInv ll)
    (hc : ∀ kv ∈ ll.contribs, kv.2 ∈ ll.levels.map (·.level))
    (hL : ∀ L ∈ ll.levels.map (·.level), 0 ≤ L) {p : Pot} (hp : p ∈ ll.getPots) :
    p.level ∈ ll.levels.map (·.level) := by
  obtain ⟨pre, post, hsplit⟩ := List.append_of_mem hp
  obtain ⟨_, _, _, _, _, _, l, hl, hlev⟩ := getPots_at h hc hL hsplit
  rw [← getPots_flatMap_levels h, ← hlev]
  apply List.mem_map_of_mem
  simp only [List.mem_flatMap]
  exact ⟨p, hp, hl⟩

/-- The level of the last published pot is the highest level of the level list. -/
theorem getPots_last_level {ll : LevelList} (h : LLInv ll) :
    lastD 0 (ll.getPots.map (·.level)) = lastD 0 (ll.levels.map (·.level)) := by
  obtain ⟨hg, hflat, _⟩ := mergedPots_spec h
  rw [getPots_levels, ← lastD_flatMap_levels _ hg, hflat]

/-- A published pot's level is some player's contribution, hence `≥ 0`. -/
theorem potsOf_level_entry (es : List Entry) (h : Valid es) {p : Pot} (hp : p ∈ potsOf es) :
    ∃ e ∈ es, e.2.1 = p.level := by
  rw [potsOf_eq] at hp
  have := getPots_level_mem (llOf_inv es) (fun kv hkv => (contribs_levels h kv hkv).2) (levels_nonneg h) hp
  exact (llOf_levels es p.level).1 this

theorem potsOf_level_nonneg (es : List Entry) (h : Valid es) {p : Pot} (hp : p ∈ potsOf es) : 0 ≤ p.level := by
  obtain ⟨e, he, hl⟩ := potsOf_level_entry es h hp
  rw [← hl]; exact h.2 e he

theorem prevLevel_nonneg (es : List Entry) (h : Valid es) {pre post : List Pot} {p : Pot}
    (hp : potsOf es = pre ++ p :: post) : 0 ≤ prevLevel pre := by
  rcases List.eq_nil_or_concat pre with rfl | ⟨init, q, rfl⟩
  · simp [prevLevel]
  · have : q ∈ potsOf es := by rw [hp]; simp
    have := potsOf_level_nonneg es h this
    simpa [prevLevel] using this

theorem prevLevel_le (es : List Entry) (h : Valid es) {pre post : List Pot} {p : Pot}
    (hp : potsOf es = pre ++ p :: post) : prevLevel pre ≤ p.level := by
  have := (getPots_at (llOf_inv es) (fun kv hkv => (contribs_levels h kv hkv).2) (levels_nonneg h) hp).1
  rwa [← prevLevel_eq] at this

/-- An entry whose idx is entered non-folded is not folded. -/
theorem isFolded_false_of_mem {es : List Entry} (h : Valid es) {i : Nat} {c : Int}
    (hi : (i, c, false) ∈ es) : isFolded es i = false := by
  rw [Bool.eq_false_iff]
  intro hf
  simp only [isFolded, List.any_eq_true, Bool.and_eq_true, beq_iff_eq] at hf
  obtain ⟨⟨j, c', f'⟩, he, h1, h2⟩ := hf
  simp only at h1 h2; subst h1; subst h2
  have := eq_of_nodup_map (·.1) h.1 hi he rfl
  simp at this

theorem isFolded_true_of_mem {es : List Entry} {i : Nat} {c : Int}
    (hi : (i, c, true) ∈ es) : isFolded es i = true := by
  simp only [isFolded, List.any_eq_true, Bool.and_eq_true, beq_iff_eq]
  exact ⟨_, hi, rfl, rfl⟩

/-- The contribution of a NON-FOLDED player is the level of a published pot: the merge loop of
    `GetPots` never merges across the stake of a player who is still in. -/
theorem nonfolded_contrib_is_pot_level (es : List Entry) (h : Valid es) {i : Nat} {c : Int}
    (hi : (i, c, false) ∈ es) : ∃ p ∈ potsOf es, p.level = c := by
  have hinv := llOf_inv es
  have hc := fun kv hkv => (contribs_levels h kv hkv).2
  have hic : (i, c) ∈ (llOf es).contribs := (llOf_contribs es h.1 (i, c)).2 ⟨false, hi⟩
  have hclev := hc _ hic
  simp only [List.mem_map] at hclev
  obtain ⟨l, hl, hlc⟩ := hclev
  have hl' := hl
  rw [← getPots_flatMap_levels hinv] at hl'
  simp only [List.mem_flatMap] at hl'
  obtain ⟨p, hp, hlp⟩ := hl'
  refine ⟨p, hp, ?_⟩
  obtain ⟨pre, post, hsplit⟩ := List.append_of_mem hp
  obtain ⟨_, _, _, _, _, hnf, _⟩ := getPots_at hinv hc (levels_nonneg h) hsplit
  have hle := getPots_levels_le hinv hp l hlp
  -- `i` is a non-folded contributor of the level `l`
  have hcon : l.contributors = contribsAt (llOf es).contribs l.level := by
    have := hinv.levels
    exact mkLevelsFrom_contributors _ _ _ l (this ▸ hl)
  have hnotf : (llOf es).folded.contains i = false := by
    rw [folded_contains]; exact isFolded_false_of_mem h hi
  have hin : i ∈ nf (llOf es).folded l := by
    simp only [nf, List.mem_filter, hcon, hnotf, Bool.not_false, and_true]
    exact mem_contribsAt.2 ⟨c, hic, by omega⟩
  rw [hnf l hlp] at hin
  simp only [List.mem_filter] at hin
  obtain ⟨v, hv, hpv⟩ := mem_contribsAt.1 hin.1
  have := hinv.contribs.unique hv hic
  omega

/-- A non-folded player's stake never lies strictly inside a pot: if the pot starts below the
    stake, the stake covers the whole pot. -/
theorem nonfolded_covers (es : List Entry) (h : Valid es) {pre post : List Pot} {p : Pot}
    (hp : potsOf es = pre ++ p :: post) {i : Nat} {c : Int} (hi : (i, c, false) ∈ es)
    (hlt : prevLevel pre < c) : p.level ≤ c := by
  obtain ⟨q, hq, hqc⟩ := nonfolded_contrib_is_pot_level es h hi
  have hs := levels_increasing es h
  rw [hp] at hq hs
  simp only [List.map_append, List.map_cons, List.pairwise_append, List.pairwise_cons] at hs
  simp only [List.mem_append, List.mem_cons] at hq
  rcases hq with hq | rfl | hq
  · -- q before p: its level is at most prevLevel pre
    have h1 := le_lastD_of_sorted hs.1 0 q.level (List.mem_map_of_mem hq)
    rw [← prevLevel_eq] at h1
    omega
  · omega
  · have := hs.2.1.1 q.level (List.mem_map_of_mem hq)
    omega

/-! ### slices -/

/-- Chips of an owner who paid `c` that lie between the levels `lo` and `hi`. -/
def slice (c lo hi : Int) : Int := min c hi - min c lo

/-- Slices of an owner who paid `c` in consecutive pots with levels `Ls`, the first starting at `prev`. -/
def slicesFrom (c : Int) : Int → List Int → List Int
  | _, [] => []
  | prev, L :: Ls => slice c prev L :: slicesFrom c L Ls

theorem slicesFrom_length (c prev : Int) (Ls : List Int) : (slicesFrom c prev Ls).length = Ls.length := by
  induction Ls generalizing prev with
  | nil => rfl
  | cons L Ls ih => simp [slicesFrom, ih]

theorem slicesFrom_sum (c prev : Int) (Ls : List Int) :
    (slicesFrom c prev Ls).sum = min c (lastD prev Ls) - min c prev := by
  induction Ls generalizing prev with
  | nil => simp [slicesFrom]
  | cons L Ls ih => simp only [slicesFrom, List.sum_cons, ih, lastD_cons, slice]; omega

theorem slicesFrom_append (c prev : Int) (X Y : List Int) :
    slicesFrom c prev (X ++ Y) = slicesFrom c prev X ++ slicesFrom c (lastD prev X) Y := by
  induction X generalizing prev with
  | nil => rfl
  | cons x xs ih => simp [slicesFrom, ih]

/-- The slice at position `pre.length` is the one between the last level of `pre` and the next level. -/
theorem slicesFrom_getElem? (c prev : Int) (X : List Int) (L : Int) (Y : List Int) :
    (slicesFrom c prev (X ++ L :: Y))[X.length]? = some (slice c (lastD prev X) L) := by
  rw [slicesFrom_append, List.getElem?_append_right (by rw [slicesFrom_length]; exact Nat.le_refl _),
    slicesFrom_length]
  simp [slicesFrom]

end Pokerface
