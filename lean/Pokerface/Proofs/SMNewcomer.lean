/-
  The newcomer who sits down on an inactive seat between dealer and big blind.
-/
import Pokerface.Proofs.SMLayout

namespace Pokerface
namespace SM

theorem next_succeeds_of_count {T : SM} (h : Inv T) (hc : 2 ≤ T.playableCount) : (T.step .next).2.1 = none := by
  obtain ⟨k, _, _, _, _, hf, _, _⟩ := nextDealer_spec T hc
  have hcm := (nextDealer_actUp T).playableCount_le
  rcases step_next_cases h with ⟨_, hbad | hbad⟩ | ⟨_, _, sm', _, he⟩
  · rw [hf] at hbad; cases hbad
  · omega
  · rw [he]

/-- `x` lies strictly between `d` and `e` going clockwise round a table of `m` seats. -/
def StrictlyBetween (m d x e : Nat) : Prop :=
  ∃ a b, 0 < a ∧ a < b ∧ b < m ∧ x = (d + a) % m ∧ e = (d + b) % m

theorem strictlyBetween_iff {m d a k : Nat} (ha : a < m) (hk : k < m) (ha0 : 0 < a) :
    StrictlyBetween m d ((d + a) % m) ((d + k) % m) ↔ a < k := by
  constructor
  · rintro ⟨a', b', h1, h2, h3, h4, h5⟩
    have e1 := offset_inj ha (by omega) h4
    have e2 := offset_inj hk h3 h5
    omega
  · intro h; exact ⟨a, k, ha0, h, hk, rfl, rfl⟩

/-- An occupied, non-reserved, inactive player sits at `x`, `a` seats clockwise after the dealer `d`, with at most one
playable seat strictly between the dealer and him. -/
structure Waiting (T : SM) (x d a : Nat) : Prop where
  inv : Inv T
  dealer : T.dealer = some d
  count : 2 ≤ T.playableCount
  a_pos : 0 < a
  a_lt : a < T.max
  x_eq : x = (d + a) % T.max
  seat : ∃ sx, T.seats[x]? = some sx ∧ sx.player.isSome = true ∧ sx.reserved = false ∧ sx.active = false
  atmost : ∀ j1 j2, 0 < j1 → j1 < a → 0 < j2 → j2 < a →
    T.playable ((d + j1) % T.max) = true → T.playable ((d + j2) % T.max) = true → j1 = j2

theorem Waiting.not_playable {T : SM} {x d a : Nat} (w : Waiting T x d a) : T.playable x = false := by
  obtain ⟨sx, hs, _, _, ha⟩ := w.seat
  simp [playable, hs, ha]

theorem deact_occupied {s : Seat} (h : s.player.isSome = true) : deact s = s := by
  unfold deact
  cases hp : s.player with
  | none => simp [hp] at h
  | some p => simp

/-- One `next` from a waiting situation: it succeeds, the button moves `k` seats; if it passes `x` the newcomer is
playable in the new hand, otherwise he is still waiting (and now nobody playable sits between the dealer and him). -/
theorem Waiting.step {T : SM} {x d a : Nat} (w : Waiting T x d a) :
    (T.step .next).2.1 = none ∧ (T.step .next).1.max = T.max ∧
    ∃ k, 1 ≤ k ∧ k < T.max ∧ k ≠ a ∧ (T.step .next).1.dealer = some ((d + k) % T.max) ∧
      T.playable ((d + k) % T.max) = true ∧
      (a < k → (T.step .next).1.playable x = true) ∧
      (k < a → Waiting (T.step .next).1 x ((d + k) % T.max) (a - k) ∧
        ∀ j, 0 < j → j < a - k → (T.step .next).1.playable (((d + k) % T.max + j) % T.max) = false) := by
  have hinv := w.inv
  have hok := next_succeeds_of_count hinv w.count
  obtain ⟨k, hk1, hk2, hpk, hall, hf, hmd, hseats⟩ := nextDealer_spec T w.count
  have hbase : T.scanBase = (d, 1) := by unfold scanBase; rw [w.dealer]
  rw [hbase] at hk1 hpk hall hmd hseats
  simp only at hk1 hpk hall hmd hseats
  obtain ⟨d', ks, kb, hn⟩ := next_ok hinv hok
  have hd' : d' = (d + k) % T.max := by
    have := hn.mid_dealer; rw [hmd] at this; cases this; rfl
  subst hd'
  have hxnp := w.not_playable
  have hka : k ≠ a := by
    intro h; subst h; rw [← w.x_eq, hxnp] at hpk; cases hpk
  obtain ⟨sx, hsx, hocc, hres, hact⟩ := w.seat
  refine ⟨hok, hn.max_eq, k, hk1, hk2, hka, hn.dealer, hpk, ?_, ?_⟩
  · intro hak
    apply hn.playable_mono hinv
    have := hseats a w.a_lt
    rw [← w.x_eq, if_pos ⟨w.a_pos, hak⟩, hsx] at this
    simp [playable, this, actv, hocc, hres]
  · intro hka'
    have hmodk : ∀ j, ((d + k) % T.max + j) % T.max = (d + (k + j)) % T.max := by
      intro j; rw [Nat.mod_add_mod, Nat.add_assoc]
    -- seats at offsets ≥ k from d are untouched by nextDealer
    have hmid_same : ∀ j, k ≤ j → j < T.max →
        T.nextDealer.1.seats[(d + j) % T.max]? = T.seats[(d + j) % T.max]? := by
      intro j hj1 hj2
      rw [hseats j hj2, if_neg (by omega)]
    have hmid_play : ∀ j, k ≤ j → j < T.max →
        T.nextDealer.1.playable ((d + j) % T.max) = T.playable ((d + j) % T.max) :=
      fun j hj1 hj2 => playable_congr (hmid_same j hj1 hj2)
    have hxoff : x = ((d + k) % T.max + (a - k)) % T.max := by
      rw [hmodk, w.x_eq]; congr 2; omega
    have halt : a - k < kb := by
      by_contra hcon
      have hkb1 : kb ≤ a - k := by omega
      have hbp := hn.bb_playable
      rw [hmodk, hmid_play (k + kb) (by omega) (by have := w.a_lt; omega)] at hbp
      by_cases hkbe : kb = a - k
      · have : (d + (k + kb)) % T.max = x := by rw [w.x_eq]; congr 2; omega
        rw [this, hxnp] at hbp; cases hbp
      · have := w.atmost k (k + kb) (by omega) (by omega) (by omega) (by omega) hpk hbp
        have := hn.ks_lt
        omega
    have hseatx : (T.step .next).1.seats[x]? = some sx := by
      have h1 := hn.seats (a - k) (by have := w.a_lt; omega)
      rw [← hxoff] at h1
      have h2 := hmid_same a (by omega) w.a_lt
      rw [← w.x_eq] at h2
      rw [h1, h2, hsx]
      unfold renewF
      rw [if_pos halt]
      simp [deact_occupied hocc]
    have hpost_play : ∀ j, 0 < j → j < a - k →
        (T.step .next).1.playable (((d + k) % T.max + j) % T.max) = T.playable ((d + (k + j)) % T.max) := by
      intro j hj1 hj2
      have hjm : j < T.max := by have := w.a_lt; omega
      rw [hn.playable_post hjm, if_pos (by omega), hmodk, hmid_play (k + j) (by omega) (by have := w.a_lt; omega)]
    have hnone : ∀ j, 0 < j → j < a - k →
        (T.step .next).1.playable (((d + k) % T.max + j) % T.max) = false := by
      intro j h1 h2
      rw [hpost_play j h1 h2]
      cases hp1 : T.playable ((d + (k + j)) % T.max) with
      | false => rfl
      | true =>
        have := w.atmost k (k + j) (by omega) (by omega) (by omega) (by omega) hpk hp1
        omega
    refine ⟨⟨step_inv hinv .next, hn.dealer, hn.mid_count.trans (hn.count_le hinv), by omega,
      by rw [hn.max_eq]; have := w.a_lt; omega, by rw [hn.max_eq]; exact hxoff, ⟨sx, hseatx, hocc, hres, hact⟩, ?_⟩,
      hnone⟩
    intro j1 j2 h1 h2 h3 h4 hp1 hp2
    rw [hn.max_eq, hnone j1 h1 h2] at hp1
    cases hp1

/-! ### iterating `next` -/

/-- `n` consecutive `next` operations. -/
def nexts (T : SM) (n : Nat) : SM := T.run (List.replicate n .next)

theorem nexts_zero (T : SM) : nexts T 0 = T := rfl

theorem nexts_succ (T : SM) (n : Nat) : nexts T (n + 1) = ((nexts T n).step .next).1 := by
  unfold nexts
  rw [List.replicate_succ', run, List.foldl_append]
  rfl

/-- The button passes seat `x` in the `(n+1)`-th `next` after `T`: `x` lies strictly between the dealer of hand `n`
and the dealer of hand `n+1`. -/
def Passed (T : SM) (x n : Nat) : Prop :=
  ∃ d e, (nexts T n).dealer = some d ∧ (nexts T (n + 1)).dealer = some e ∧ StrictlyBetween (nexts T n).max d x e

theorem Waiting.passed_iff {T : SM} {x d a k : Nat} (w : Waiting T x d a) (hk : k < T.max)
    (hd' : (T.step .next).1.dealer = some ((d + k) % T.max)) (e : SM) (he : e = (T.step .next).1) :
    (∃ d0 e0, T.dealer = some d0 ∧ e.dealer = some e0 ∧ StrictlyBetween T.max d0 x e0) ↔ a < k := by
  subst he
  constructor
  · rintro ⟨d0, e0, h1, h2, h3⟩
    rw [w.dealer] at h1; cases h1
    rw [hd'] at h2; cases h2
    rw [w.x_eq] at h3
    exact (strictlyBetween_iff w.a_lt hk w.a_pos).mp h3
  · intro h
    refine ⟨d, _, w.dealer, hd', ?_⟩
    rw [w.x_eq]
    exact (strictlyBetween_iff w.a_lt hk w.a_pos).mpr h

/-- As long as the button has not passed `x`, the newcomer is still waiting. -/
theorem waiting_nexts {T : SM} {x d a : Nat} (w : Waiting T x d a) (n : Nat)
    (hnp : ∀ m, m < n → ¬ Passed T x m) : ∃ d' a', Waiting (nexts T n) x d' a' := by
  induction n with
  | zero => exact ⟨d, a, w⟩
  | succ n ih =>
    obtain ⟨d', a', w'⟩ := ih (fun m hm => hnp m (by omega))
    obtain ⟨_, _, k, hk1, hk2, hka, hdk, _, _, hwait⟩ := w'.step
    have hnot := hnp n (by omega)
    have hiff := w'.passed_iff hk2 hdk (nexts T (n + 1)) (nexts_succ T n)
    have hlt : k < a' := by
      by_contra hcon
      exact hnot (hiff.mpr (by omega))
    rw [nexts_succ]
    exact ⟨_, _, (hwait hlt).1⟩

/-- Newcomer timing from a waiting situation. -/
theorem waiting_timing {T : SM} {x d a : Nat} (w : Waiting T x d a) (n : Nat)
    (hnp : ∀ m, m < n → ¬ Passed T x m) :
    (nexts T n).playable x = false ∧ ((nexts T n).step .next).2.1 = none ∧
    (Passed T x n → (nexts T (n + 1)).playable x = true) := by
  obtain ⟨d', a', w'⟩ := waiting_nexts w n hnp
  obtain ⟨hok, _, k, hk1, hk2, hka, hdk, _, hpass, _⟩ := w'.step
  refine ⟨w'.not_playable, hok, ?_⟩
  intro hp
  have hiff := w'.passed_iff hk2 hdk (nexts T (n + 1)) (nexts_succ T n)
  rw [nexts_succ]
  exact hpass (hiff.mp hp)

/-- The button passes the newcomer in the first or in the second `next`. -/
theorem waiting_passed_soon {T : SM} {x d a : Nat} (w : Waiting T x d a) : Passed T x 0 ∨ Passed T x 1 := by
  obtain ⟨_, hmax, k, hk1, hk2, hka, hdk, _, _, hwait⟩ := w.step
  have hiff := w.passed_iff hk2 hdk (nexts T 1) (nexts_succ T 0)
  by_cases h : a < k
  · left; exact hiff.mpr h
  · right
    have hlt : k < a := by omega
    obtain ⟨w1, hnone⟩ := hwait hlt
    have e1 : nexts T 1 = (T.step .next).1 := nexts_succ T 0
    rw [← e1] at w1 hnone hmax
    obtain ⟨_, _, k', hk1', hk2', hka', hdk', hpk', _, _⟩ := w1.step
    have hiff' := w1.passed_iff hk2' hdk' (nexts T 2) (nexts_succ T 1)
    apply hiff'.mpr
    by_contra hcon
    have hlt' : k' < a - k := by omega
    have := hnone k' (by omega) hlt'
    rw [hmax] at hpk'
    rw [this] at hpk'; cases hpk'


/-! ### the initial situation: right after a successful `next`, an empty seat between dealer and big blind -/

theorem run_two (S : SM) (a b : SMOp) : S.run [a, b] = ((S.step a).1.step b).1 := rfl

theorem waiting_init {sm : SM} (h : Inv sm) {d ks kb : Nat} (hn : NextOk sm (sm.step .next).1 d ks kb)
    {jx : Nat} (h1 : 0 < jx) (h2 : jx < kb) {s : Seat}
    (hs : (sm.step .next).1.seats[(d + jx) % sm.max]? = some s) (hemp : s.player = none)
    (pid : Nat) (c : Option Nat) :
    Waiting ((sm.step .next).1.run [.join (((d + jx) % sm.max : Nat) : Int) pid c, .seat (((d + jx) % sm.max : Nat) : Int)])
      ((d + jx) % sm.max) d jx := by
  have hkb := hn.kb_lt
  have hjm : jx < sm.max := by omega
  generalize hS0 : (sm.step .next).1 = S0 at *
  generalize hx : (d + jx) % sm.max = x at *
  have hinv0 : Inv S0 := by rw [← hS0]; exact step_inv h .next
  have hxlt : x < S0.max := by rw [← hinv0.wf]; exact (List.getElem?_eq_some_iff.mp hs).1
  have hxlen : x < S0.seats.length := (List.getElem?_eq_some_iff.mp hs).1
  -- the seat is inactive
  have hsact : s.active = false := by
    have := hn.seats jx hjm
    rw [hx, hs] at this
    cases hq : sm.nextDealer.1.seats[x]? with
    | none => rw [hq] at this; cases this
    | some q =>
      rw [hq] at this
      simp only [Option.map_some, Option.some.injEq, renewF, if_pos h2] at this
      unfold deact at this
      split at this
      · rw [this]
      · next hne => rw [← this] at hne; simp [hemp] at hne
  -- the two operations
  have hjoin : S0.step (.join (x : Int) pid c) =
      (S0.setSeat x { s with reserved := true, player := some pid }, none, some x) := by
    rw [step_join_eq, if_neg (by omega), if_pos (by omega)]
    simp only [Int.toNat_natCast]
    rcases joinAt_cases S0 pid x with ⟨h', _⟩ | ⟨s', h1', h2', _⟩ | ⟨s', h1', h2', h3'⟩
    · rw [hs] at h'; cases h'
    · rw [hs] at h1'; cases h1'; simp [hemp] at h2'
    · rw [hs] at h1'; cases h1'; exact h3'
  have hseat : ∀ S1 : SM, S1.max = S0.max →
      S1.step (.seat (x : Int)) = (S1.modSeat x fun s => { s with reserved := false }, none, none) := by
    intro S1 hm
    rcases step_seat_cases S1 (x : Int) with ⟨hr, _⟩ | ⟨k, hk, _, he⟩
    · omega
    · have : k = x := by omega
      subst this; exact he
  rw [run_two, hjoin]
  simp only
  have hs1 := hseat (S0.setSeat x { s with reserved := true, player := some pid }) rfl
  rw [hs1]
  simp only
  generalize hT : (S0.setSeat x { s with reserved := true, player := some pid }).modSeat x
    (fun s => { s with reserved := false }) = T
  have hTmax : T.max = sm.max := by rw [← hT]; simp [setSeat, hn.max_eq]
  have hTdealer : T.dealer = some d := by rw [← hT]; simp [setSeat, hn.dealer]
  have hTx : T.seats[x]? = some { player := some pid, active := false, reserved := false } := by
    rw [← hT, modSeat_seats, if_pos rfl, setSeat_seats, if_pos rfl, if_pos hxlen]
    simp [hsact]
  have hTj : ∀ j, j ≠ x → T.seats[j]? = S0.seats[j]? := by
    intro j hj
    have : ¬ x = j := fun h => hj h.symm
    rw [← hT, modSeat_seats, if_neg this, setSeat_seats, if_neg this]
  have hplay : ∀ j, T.playable j = S0.playable j := by
    intro j
    by_cases hj : j = x
    · subst hj; simp [playable, hTx, hs, hemp]
    · exact playable_congr (hTj j hj)
  have hcount : T.playableCount = S0.playableCount := by
    rw [playableCount_eq_countP, playableCount_eq_countP, hTmax, hn.max_eq]
    exact List.countP_congr (fun j _ => by rw [hplay j])
  have hTinv : Inv T := by
    have i1 := step_inv hinv0 (.join (x : Int) pid c)
    rw [hjoin] at i1
    have i2 := step_inv i1 (.seat (x : Int))
    rw [hs1, hT] at i2
    exact i2
  refine ⟨hTinv, hTdealer, ?_, h1, by rw [hTmax]; exact hjm, by rw [hTmax, hx], ⟨_, hTx, rfl, rfl, rfl⟩, ?_⟩
  · rw [hcount]; exact hn.mid_count.trans (hn.count_le h)
  · -- at most one playable seat strictly between dealer and x: only the small blind can be there
    have honly : ∀ j, 0 < j → j < jx → T.playable ((d + j) % T.max) = true → j = ks := by
      intro j hj1 hj2 hp
      rw [hTmax, hplay, hn.playable_post (by omega), if_pos (by omega)] at hp
      rcases hn.branch with ⟨_, h0⟩ | ⟨_, hpos, _, hall⟩
      · by_contra hne
        rw [hn.between j (by omega) (by omega)] at hp; cases hp
      · by_contra hne
        by_cases hlt : j < ks
        · rw [hall j hj1 hlt] at hp; cases hp
        · rw [hn.between j (by omega) (by omega)] at hp; cases hp
    intro j1 j2 a1 a2 a3 a4 p1 p2
    rw [honly j1 a1 a2 p1, honly j2 a3 a4 p2]

end SM
end Pokerface
