/-
  How the number of tables moves (C20, part (a) of the convergence sketch):
  only `breakTable` lowers it (by one, and only while more tables exist than
  needed) and only `allocateLoop` raises it (never beyond the number needed).
  No invariant is needed for these facts.
-/
import Pokerface.Proofs.RegSettle

namespace Pokerface
namespace Reg

/-- the fields that determine `requiredTables`, and the table count -/
structure SameNeeds (r r' : Reg) : Prop where
  pc : r'.playerCount = r.playerCount
  max : r'.max = r.max

theorem SameNeeds.req {r r' : Reg} (h : SameNeeds r r') : r'.requiredTables = r.requiredTables := by
  unfold requiredTables; rw [h.pc, h.max]

theorem SameNeeds.refl (r : Reg) : SameNeeds r r := ⟨rfl, rfl⟩
theorem SameNeeds.trans {a b c : Reg} (h1 : SameNeeds a b) (h2 : SameNeeds b c) : SameNeeds a c :=
  ⟨h2.pc.trans h1.pc, h2.max.trans h1.max⟩

theorem dispatchPlayer_tc {r r' : Reg} {cands rest : List Nat} (h : r.dispatchPlayer cands = some (rest, r')) :
    SameNeeds r r' ∧ r'.tableCount = r.tableCount := by
  unfold dispatchPlayer at h
  split at h
  · cases h
  · split at h
    · cases h; exact ⟨⟨rfl, rfl⟩, rfl⟩
    · split at h
      · cases h; exact ⟨⟨rfl, rfl⟩, rfl⟩
      · split at h
        · cases h; exact ⟨⟨rfl, rfl⟩, rfl⟩
        · cases h; exact ⟨⟨rfl, rfl⟩, rfl⟩

theorem dispatchLoop_tc (fuel : Nat) : ∀ (cands : List Nat) (r : Reg),
    SameNeeds r (dispatchLoop fuel cands r).2 ∧ (dispatchLoop fuel cands r).2.tableCount = r.tableCount := by
  induction fuel with
  | zero => intro _ r; exact ⟨SameNeeds.refl r, rfl⟩
  | succ n ih =>
    intro cands r
    rw [dispatchLoop]
    split
    · exact ⟨SameNeeds.refl r, rfl⟩
    · split
      · exact ⟨SameNeeds.refl r, rfl⟩
      · rename_i rest r1 hsome
        obtain ⟨h1, h2⟩ := dispatchPlayer_tc hsome
        obtain ⟨h3, h4⟩ := ih rest r1
        exact ⟨h1.trans h3, h4.trans h2⟩

theorem updateTableRequirements_tc (r : Reg) :
    SameNeeds r r.updateTableRequirements ∧ r.updateTableRequirements.tableCount = r.tableCount := by
  rw [updateTableRequirements_eq]
  split <;> exact ⟨⟨rfl, rfl⟩, rfl⟩

theorem allocateLoop_tc (fuel : Nat) : ∀ (wl reqT : Int) (r : Reg),
    SameNeeds r (allocateLoop fuel wl reqT r) ∧ r.tableCount ≤ (allocateLoop fuel wl reqT r).tableCount ∧
    ((allocateLoop fuel wl reqT r).tableCount = r.tableCount ∨ (allocateLoop fuel wl reqT r).tableCount ≤ reqT) := by
  induction fuel with
  | zero => intro _ _ r; exact ⟨SameNeeds.refl r, Int.le_refl _, Or.inl rfl⟩
  | succ n ih =>
    intro wl reqT r
    rw [allocateLoop_succ]
    split
    · rename_i hcond
      split
      · exact ⟨⟨rfl, rfl⟩, Int.le_refl _, Or.inl rfl⟩
      · simp only
        have ht : (r.openTable (r.capWl wl) (r.pullCount wl).toNat).tableCount = r.tableCount + 1 := rfl
        have hs : SameNeeds r (r.openTable (r.capWl wl) (r.pullCount wl).toNat) := ⟨rfl, rfl⟩
        split
        · exact ⟨hs, by omega, Or.inr (by omega)⟩
        · obtain ⟨h1, h2, h3⟩ := ih
            (((r.openTable (r.capWl wl) (r.pullCount wl).toNat).queue.length : Int) /
              (reqT - (r.openTable (r.capWl wl) (r.pullCount wl).toNat).tableCount)) reqT
            (r.openTable (r.capWl wl) (r.pullCount wl).toNat)
          refine ⟨hs.trans h1, by omega, Or.inr ?_⟩
          rcases h3 with h3 | h3 <;> omega
    · exact ⟨SameNeeds.refl r, Int.le_refl _, Or.inl rfl⟩

theorem floor_le_ceilDiv (pc : Int) (mx : Nat) (hm : 0 < mx) : pc / (mx : Int) ≤ ceilDiv pc mx := by
  unfold ceilDiv
  exact Int.ediv_le_ediv (by omega) (by omega)

theorem allocateTables_cases' (r : Reg) (hm : 0 < r.max) :
    r.allocateTables = r ∨
    ∃ fuel wl reqT, reqT ≤ r.requiredTables ∧ r.allocateTables = allocateLoop fuel wl reqT r := by
  have hfl := floor_le_ceilDiv r.playerCount r.max hm
  unfold allocateTables
  simp only
  repeat' split
  all_goals first
    | (left; rfl)
    | (right; exact ⟨_, _, _, Int.le_refl _, rfl⟩)
    | (right; exact ⟨_, _, _, hfl, rfl⟩)

/-- `allocateTables` never lowers the table count and never raises it beyond the number needed -/
theorem allocateTables_tc (r : Reg) (hm : 0 < r.max) :
    SameNeeds r r.allocateTables ∧ r.tableCount ≤ r.allocateTables.tableCount ∧
    (r.allocateTables.tableCount = r.tableCount ∨ r.allocateTables.tableCount ≤ r.requiredTables) := by
  rcases allocateTables_cases' r hm with h | ⟨fuel, wl, reqT, hle, h⟩
  · rw [h]; exact ⟨SameNeeds.refl r, Int.le_refl _, Or.inl rfl⟩
  · rw [h]
    obtain ⟨h1, h2, h3⟩ := allocateLoop_tc fuel wl reqT r
    refine ⟨h1, h2, ?_⟩
    rcases h3 with h3 | h3
    · exact Or.inl h3
    · exact Or.inr (by omega)

theorem drainWaitingQueue_tc (r : Reg) (hm : 0 < r.max) :
    SameNeeds r r.drainWaitingQueue ∧ r.tableCount ≤ r.drainWaitingQueue.tableCount ∧
    (r.drainWaitingQueue.tableCount = r.tableCount ∨ r.drainWaitingQueue.tableCount ≤ r.requiredTables) := by
  rw [drainWaitingQueue_eq]
  split
  · exact allocateTables_tc r hm
  · split
    · simp only
      obtain ⟨a1, a2⟩ := dispatchLoop_tc (r.queue.length + 1) r.queue r
      generalize dispatchLoop (r.queue.length + 1) r.queue r = p1 at *
      have hb : SameNeeds p1.2 (if (!p1.1.isEmpty) = true then p1.2.updateTableRequirements else p1.2) ∧
          (if (!p1.1.isEmpty) = true then p1.2.updateTableRequirements else p1.2).tableCount = p1.2.tableCount := by
        split
        · exact updateTableRequirements_tc p1.2
        · exact ⟨SameNeeds.refl _, rfl⟩
      obtain ⟨b1, b2⟩ := hb
      generalize (if (!p1.1.isEmpty) = true then p1.2.updateTableRequirements else p1.2) = r2 at *
      obtain ⟨c1, c2⟩ := dispatchLoop_tc (p1.1.length + 1) p1.1 r2
      generalize dispatchLoop (p1.1.length + 1) p1.1 r2 = p3 at *
      have d : ∀ r4 : Reg, r4 = { p3.2 with queue := p3.1 } → SameNeeds r r4 ∧ r4.tableCount = r.tableCount := by
        intro r4 h4
        subst h4
        exact ⟨((a1.trans b1).trans c1).trans ⟨rfl, rfl⟩, (c2.trans b2).trans a2⟩
      obtain ⟨d1, d2⟩ := d _ rfl
      generalize ({ p3.2 with queue := p3.1 } : Reg) = r4 at d1 d2 ⊢
      split
      · obtain ⟨e1, e2, e3⟩ := allocateTables_tc r4 (by rw [d1.max]; exact hm)
        refine ⟨d1.trans e1, by omega, ?_⟩
        rcases e3 with e3 | e3
        · exact Or.inl (by omega)
        · exact Or.inr (by rw [d1.req] at e3; exact e3)
      · exact ⟨d1, by omega, Or.inl d2⟩
    · exact ⟨SameNeeds.refl r, Int.le_refl _, Or.inl rfl⟩

theorem releasePlayers_tc (r : Reg) (rel ch : List Nat) (hm : 0 < r.max) :
    SameNeeds r (r.releasePlayers rel ch) ∧ r.tableCount ≤ (r.releasePlayers rel ch).tableCount ∧
    ((r.releasePlayers rel ch).tableCount = r.tableCount ∨
      (r.releasePlayers rel ch).tableCount ≤ r.requiredTables) := by
  unfold releasePlayers enterWaitingQueue
  simp only
  split
  · exact ⟨⟨rfl, rfl⟩, Int.le_refl _, Or.inl rfl⟩
  · obtain ⟨h1, h2, h3⟩ := drainWaitingQueue_tc ({ r.beginOp ch with queue := (r.beginOp ch).queue ++ rel } : Reg) hm
    exact ⟨⟨h1.pc, h1.max⟩, h2, h3⟩

/-- `SyncState(t, 0)`: the players needed do not change; the table count stays, or drops by one,
    and it drops only while more tables exist than are needed -/
theorem syncState_tc (r : Reg) (t : Nat) :
    SameNeeds r (r.syncState t 0).1 ∧
    ((r.syncState t 0).1.tableCount = r.tableCount ∨
      ((r.syncState t 0).1.tableCount = r.tableCount - 1 ∧ r.requiredTables < r.tableCount)) := by
  rw [syncState_eq]
  cases hf : r.findTable t with
  | none => exact ⟨⟨rfl, rfl⟩, Or.inl rfl⟩
  | some t0 =>
    simp only
    rw [syncBase_zero]
    have e1 : (r.beginOp []).requiredTables = r.requiredTables := rfl
    have e2 : (r.beginOp []).tableCount = r.tableCount := rfl
    have hs : SameNeeds r (r.beginOp []) := ⟨rfl, rfl⟩
    split
    · rename_i h; exact ⟨⟨rfl, rfl⟩, Or.inr ⟨rfl, by omega⟩⟩
    · split
      · exact ⟨hs, Or.inl rfl⟩
      · split
        · split
          · rename_i h; exact ⟨⟨rfl, rfl⟩, Or.inr ⟨rfl, by omega⟩⟩
          · rw [take_norm]; exact ⟨⟨rfl, rfl⟩, Or.inl rfl⟩
        · split
          · obtain ⟨j, _, he⟩ := releaseLoop_spec
              (t0.count - 0 - (r.beginOp []).playerCount / (r.beginOp []).requiredTables).toNat t
              ((r.beginOp []).playerCount / (r.beginOp []).requiredTables) (r.beginOp []) 0
            rw [he]
            exact ⟨⟨rfl, rfl⟩, Or.inl rfl⟩
          · exact ⟨hs, Or.inl rfl⟩

end Reg
end Pokerface
