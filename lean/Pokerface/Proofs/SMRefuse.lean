/-
  `next` is refused only when fewer than two seats are occupied and not reserved
  (needs the extra invariant "the dealer's seat is active").
-/
import Pokerface.Proofs.SMNewcomer

namespace Pokerface
namespace SM

/-- The dealer's seat, when there is a dealer, is active. -/
def DealerActive (sm : SM) : Prop :=
  ∀ d, sm.dealer = some d → ∃ s, sm.seats[d]? = some s ∧ s.active = true

theorem dealerActive_of_playable {sm : SM} (h : ∀ d, sm.dealer = some d → sm.playable d = true) : DealerActive sm := by
  intro d hd
  have hp := h d hd
  unfold playable at hp
  cases hs : sm.seats[d]? with
  | none => simp [hs] at hp
  | some s => simp [hs] at hp; exact ⟨s, rfl, hp.1.1⟩

theorem nextDealer_notfound (sm : SM) (h : sm.nextDealer.2 = false) :
    sm.nextDealer.1 = sm ∨ sm.nextDealer.1.dealer = none := by
  revert h
  rw [nextDealer_eq]
  split
  · split
    · intro _; left; rfl
    · split
      · intro _; left; rfl
      · intro hf; simp at hf
  · split
    · intro hf; simp at hf
    · split
      · intro hf; simp at hf
      · intro _; right; rfl

theorem DealerActive.setSeat {sm : SM} (ha : DealerActive sm) {i : Nat} {s : Seat} (hs : sm.seats[i]? = some s)
    (s' : Seat) (hact : s'.active = s.active) : DealerActive (sm.setSeat i s') := by
  intro d hd
  obtain ⟨q, hq, hqa⟩ := ha d hd
  rw [setSeat_seats]
  by_cases hid : i = d
  · subst hid
    have hl := (List.getElem?_eq_some_iff.mp hs).1
    rw [hs] at hq; cases hq
    exact ⟨s', by simp [hl], by rw [hact]; exact hqa⟩
  · exact ⟨q, by simp [hid, hq], hqa⟩

theorem DealerActive.modSeat {sm : SM} (ha : DealerActive sm) (i : Nat) (f : Seat → Seat)
    (hf : ∀ s, (f s).active = s.active) : DealerActive (sm.modSeat i f) := by
  intro d hd
  obtain ⟨q, hq, hqa⟩ := ha d hd
  rw [modSeat_seats]
  by_cases hid : i = d
  · exact ⟨f q, by simp [hid, hq], by rw [hf]; exact hqa⟩
  · exact ⟨q, by simp [hid, hq], hqa⟩

theorem step_dealerActive {sm : SM} (h : Inv sm) (ha : DealerActive sm) (op : SMOp) :
    DealerActive (sm.step op).1 := by
  cases op with
  | join seat pid chose =>
    rcases step_join_cases sm seat pid chose with ⟨e, he⟩ | ⟨i, s, hs, _, _, he⟩
    · rw [he]; exact ha
    · rw [he]; exact ha.setSeat hs _ rfl
  | seat id =>
    rcases step_seat_cases sm id with ⟨_, he⟩ | ⟨i, _, _, he⟩
    · rw [he]; exact ha
    · rw [he]; exact ha.modSeat i (fun s => { s with reserved := false }) (fun _ => rfl)
  | reserve id =>
    rcases step_reserve_cases sm id with ⟨_, he⟩ | ⟨i, _, _, he⟩
    · rw [he]; exact ha
    · rw [he]; exact ha.modSeat i (fun s => { s with reserved := true }) (fun _ => rfl)
  | leave id =>
    rcases step_leave_cases sm id with ⟨e, he⟩ | ⟨i, s, _, hs, _, he⟩
    · rw [he]; exact ha
    · rw [he]; exact ha.setSeat hs _ rfl
  | next =>
    rcases step_next_cases h with ⟨he, _⟩ | ⟨_, _, sm', _, he⟩
    · rw [he]
      by_cases hf : sm.nextDealer.2 = true
      · obtain ⟨d, hd, hp⟩ := nextDealer_found sm hf
        apply dealerActive_of_playable
        intro d' hd'; rw [hd] at hd'; cases hd'; exact hp
      · rcases nextDealer_notfound sm (by simpa using hf) with h' | h'
        · rw [h']; exact ha
        · intro d hd; rw [h'] at hd; cases hd
    · have hok : (sm.step .next).2.1 = none := by rw [he]
      obtain ⟨d, ks, kb, hn⟩ := next_ok h hok
      apply dealerActive_of_playable
      intro d' hd'; rw [hn.dealer] at hd'; cases hd'; exact hn.playable_dealer

theorem run_dealerActive {sm : SM} (h : Inv sm) (ha : DealerActive sm) (ops : List SMOp) :
    DealerActive (sm.run ops) := by
  induction ops generalizing sm with
  | nil => exact ha
  | cons op ops ih => exact ih (step_inv h op) (step_dealerActive h ha op)

theorem Reachable.dealerActive {sm : SM} (h : Reachable sm) : DealerActive sm := by
  obtain ⟨max, ops, rfl⟩ := h
  exact run_dealerActive (inv_new max) (by intro d hd; simp [SM.new] at hd) ops

/-! ### counting occupied non-reserved seats by index -/

theorem nonEmptyCount_eq_occ {sm : SM} (hw : sm.WF) : sm.nonEmptyCount = (List.range sm.max).countP sm.occ := by
  rw [nonEmptyCount_eq, ← hw]
  have : sm.occ = (fun o : Option Seat => match o with
      | some s => !s.reserved && s.player.isSome | none => false) ∘ (fun i => sm.seats[i]?) := by
    funext i; simp only [occ, Function.comp]
    cases sm.seats[i]? <;> rfl
  rw [this, ← List.countP_map, range_map_getElem?, List.countP_map]
  rfl

theorem playable_le_occ (sm : SM) (i : Nat) (h : sm.playable i = true) : sm.occ i = true := by
  unfold playable at h; unfold occ
  cases hs : sm.seats[i]? with
  | none => simp [hs] at h
  | some s => simp [hs] at h ⊢; exact ⟨h.1.2, h.2⟩

/-- If every occupied non-reserved seat of `sm` is playable in `t` (same table size), `t` has at least as many
playable seats as `sm` has occupied non-reserved ones. -/
theorem count_ge_of_occ {sm t : SM} (hw : sm.WF) (hm : t.max = sm.max)
    (h : ∀ i, i < sm.max → sm.occ i = true → t.playable i = true) : sm.nonEmptyCount ≤ t.playableCount := by
  rw [nonEmptyCount_eq_occ hw, playableCount_eq_countP, hm]
  apply List.countP_mono_left
  intro i hi; exact h i (List.mem_range.mp hi)

theorem playable_of_occ_actv {sm t : SM} {i : Nat} (hocc : sm.occ i = true)
    (hs : t.seats[i]? = (sm.seats[i]?).map actv) : t.playable i = true := by
  unfold occ at hocc; unfold playable
  rw [hs]
  cases hq : sm.seats[i]? with
  | none => simp [hq] at hocc
  | some s => simp [hq, actv] at hocc ⊢; exact hocc

theorem playable_of_occ_active {sm : SM} {i : Nat} (hocc : sm.occ i = true) {s : Seat}
    (hs : sm.seats[i]? = some s) (ha : s.active = true) : sm.playable i = true := by
  unfold occ at hocc; unfold playable
  rw [hs] at hocc ⊢
  simp [ha] at hocc ⊢; exact hocc

/-- **Converse of the refusal rule.**  With at least two occupied non-reserved seats `next` succeeds
(`nextDealer` lets every waiting player in when it has to). -/
theorem next_succeeds_of_nonEmpty {sm : SM} (h : Inv sm) (ha : DealerActive sm) (hc : 2 ≤ sm.nonEmptyCount) :
    (sm.step .next).2.1 = none := by
  by_cases h2 : 2 ≤ sm.playableCount
  · exact next_succeeds_of_count h h2
  -- it suffices that `nextDealer` finds a dealer and leaves at least two playable seats
  have key : sm.nextDealer.2 = true ∧ 2 ≤ sm.nextDealer.1.playableCount → (sm.step .next).2.1 = none := by
    rintro ⟨hf, hc2⟩
    rcases step_next_cases h with ⟨_, hbad | hbad⟩ | ⟨_, _, sm', _, he⟩
    · rw [hf] at hbad; cases hbad
    · omega
    · rw [he]
  apply key
  have hmaxpos : 0 < sm.max := by
    have := playableCount_le_nonEmpty h.wf
    have h1 : sm.nonEmptyCount ≤ sm.max := by
      rw [nonEmptyCount_eq_occ h.wf]
      exact (List.countP_le_length).trans (by simp)
    omega
  by_cases h1 : sm.playableCount = 1
  · -- exactly one playable seat: it becomes the dealer, everybody else who waits is let in
    have hne : ¬ sm.nonEmptyCount ≤ 1 := by omega
    have hfp : ∃ d, sm.firstPlayable = some d := by
      cases hfp : sm.firstPlayable with
      | some d => exact ⟨d, rfl⟩
      | none =>
        exfalso
        unfold firstPlayable at hfp
        rw [List.find?_eq_none] at hfp
        have : sm.playableCount = 0 := by
          rw [playableCount_eq_countP, List.countP_eq_zero]
          intro i hi; exact hfp i hi
        omega
    obtain ⟨d, hd⟩ := hfp
    have hnd : sm.nextDealer =
        (({ sm with dealer := some d } : SM).modAll ((sm.normalize d).drop 1) actvOcc, true) := by
      rw [nextDealer_eq, if_pos h1, if_neg hne, hd]
    have hpd : sm.playable d = true := by
      have := List.find?_some hd; simpa using this
    have hdlt := playable_lt h.wf hpd
    rw [hnd]
    refine ⟨rfl, hc.trans (count_ge_of_occ h.wf (by simp) ?_)⟩
    intro i hi hocc
    obtain ⟨j, hj, rfl⟩ := exists_offset d hi
    simp only
    by_cases hj0 : j = 0
    · subst hj0
      have e0 : (d + 0) % sm.max = d := by simp [Nat.mod_eq_of_lt hdlt]
      rw [e0]
      exact (ActUp.modAll _ _ actvOcc actvOcc_up).playable (by simpa using hpd)
    · unfold playable
      rw [modAll_seats _ _ _ actvOcc_actvOcc]
      have hmem : (d + j) % sm.max ∈ (sm.normalize d).drop 1 := (mem_normalize_drop sm d 1 hj).mpr (by omega)
      rw [if_pos hmem]
      unfold occ at hocc
      show (match (sm.seats[(d + j) % sm.max]?).map actvOcc with
        | some s => s.active && !s.reserved && s.player.isSome | none => false) = true
      cases hq : sm.seats[(d + j) % sm.max]? with
      | none => simp [hq] at hocc
      | some s =>
        simp [hq] at hocc
        simp [actvOcc, hocc]
  · -- no playable seat: everybody in the scan range is activated
    have h0 : sm.playableCount = 0 := by omega
    have hnone : ∀ i, sm.playable i = false := by
      intro i
      by_cases hi : i < sm.max
      · rw [playableCount_eq_countP, List.countP_eq_zero] at h0
        have := h0 i (List.mem_range.mpr hi)
        simpa using this
      · cases hp : sm.playable i with
        | false => rfl
        | true => exact absurd (playable_lt h.wf hp) hi
    have hfa : sm.findActive sm.scanIds = none := by
      rw [findActive_none]; intro x _; exact hnone x
    -- after activating the scan range every occupied non-reserved seat is playable
    have hall : ∀ i, i < sm.max → sm.occ i = true → (sm.modAll sm.scanIds actv).playable i = true := by
      intro i hi hocc
      by_cases hmem : i ∈ sm.scanIds
      · apply playable_of_occ_actv hocc
        rw [modAll_seats _ _ _ actv_actv, if_pos hmem]
      · -- only the dealer's own seat is outside the scan range, and it is active
        unfold scanIds at hmem
        cases hdl : sm.dealer with
        | none =>
          rw [hdl] at hmem
          exact absurd ((mem_normalize sm 0 i).mpr hi) hmem
        | some d =>
          rw [hdl] at hmem
          simp only at hmem
          have hdlt := h.dealer_lt d hdl
          obtain ⟨j, hj, rfl⟩ := exists_offset d hi
          have hj0 : j = 0 := by
            by_contra hne
            exact hmem ((mem_normalize_drop sm d 1 hj).mpr (by omega))
          subst hj0
          have e0 : (d + 0) % sm.max = d := by simp [Nat.mod_eq_of_lt hdlt]
          rw [e0] at hocc ⊢
          obtain ⟨s, hs, hsa⟩ := ha d hdl
          have := playable_of_occ_active hocc hs hsa
          rw [hnone d] at this; cases this
    have hcnt : 2 ≤ (sm.modAll sm.scanIds actv).playableCount :=
      hc.trans (count_ge_of_occ h.wf (by simp) hall)
    -- so the retry finds a dealer
    have hpos : 0 < sm.scanIds.countP (sm.modAll sm.scanIds actv).playable := by
      have hb := scanBase_le_one sm
      have e1 := playableCount_eq_normalize (sm.modAll sm.scanIds actv) sm.scanBase.1
      have hnm : (sm.modAll sm.scanIds actv).normalize sm.scanBase.1 = sm.normalize sm.scanBase.1 := by
        simp [normalize]
      rw [hnm] at e1
      have e2 := countP_drop_one_ge (sm.modAll sm.scanIds actv).playable (sm.normalize sm.scanBase.1)
      generalize sm.modAll sm.scanIds actv = M at *
      rw [scanIds_eq]
      by_cases hz : sm.scanBase.2 = 0
      · rw [hz, List.drop_zero]; omega
      · have hz' : sm.scanBase.2 = 1 := Nat.le_antisymm hb (Nat.pos_of_ne_zero hz)
        rw [hz']; omega
    obtain ⟨e, k, hfa2⟩ := findActive_some_of_countP_pos _ _ hpos
    have hnd : sm.nextDealer = ({ sm.modAll sm.scanIds actv with dealer := some e }, true) := by
      rw [nextDealer_eq, if_neg h1, hfa]
      simp only [hfa2]
    rw [hnd]
    exact ⟨rfl, hcnt⟩

end SM
end Pokerface
