import Pokerface.Proofs.TableDriver6
import Pokerface.Proofs.Forced
import Pokerface.Proofs.RaiseGhost
import Pokerface.Proofs.FlowC05
/-
  The engine requests blinds only when some blind is not zero (an engine invariant the driver's progress needs).
-/
namespace Pokerface.Drv
open Pokerface Game

/-- blinds are requested only when some blind is not zero -/
def NZ (g : Game) : Prop := g.event = .blindsRequested → ¬ g.opts.noBlinds

theorem prepareRound_ev (g : Game) : g.prepareRound.event = .readyRequested ∨ g.prepareRound.event = .roundClosed := by
  unfold Game.prepareRound
  split
  · exact Or.inl rfl
  · split
    · exact Or.inr rfl
    · exact Or.inl rfl

theorem enterRound_nz (g : Game) (r : Round) : NZ (g.enterRound r) := by
  intro h
  rw [(noChip_enterRound g r).opts]
  by_cases hr : r = .preflop
  · subst hr
    rw [enterRound_preflop, requestBlinds_preflop _ (preflopEntry_round g)] at h
    have ho : (preflopEntry g).opts = g.opts := (noChip_preflopEntry g).opts
    rw [← ho]
    intro hn
    rw [if_pos hn] at h
    have : ((preflopEntry g).setEvent .blindsPaid).requestReady.event = .readyRequested := rfl
    rw [this] at h; cases h
  · obtain ⟨y, hy, _, _⟩ := enterRound_postflop g r hr
    rw [hy] at h
    rcases prepareRound_ev y with h1 | h1 <;> rw [h1] at h <;> cases h

theorem nz_step (g : Game) (hi : Inv g) (hf : Flow g) (hn : NZ g) (op : Op) : NZ (g.step op).1 := by
  by_cases hacc : (g.step op).2 = none
  · cases op with
    | ready =>
      simp only [Game.step, Game.readyForAll] at hacc ⊢
      split
      · exact hn
      · simp only
        unfold Game.readiness
        split
        · split
          · intro h; cases h
          · exact enterRound_nz _ _
        · intro h
          rcases startRound_event g.resetAllAllowed with h1 | h1 <;> rw [h1] at h <;> cases h
    | payAnte =>
      simp only [Game.step, Game.payAnte] at hacc ⊢
      split
      · exact hn
      · split
        · exact hn
        · split
          · rename_i h1 h2 _ _ _ heq
            exfalso
            simp only [h1, if_false, ne_eq, Decidable.not_not] at hacc h2
            try rw [heq] at hacc
            simp [h2] at hacc
          · simp only
            unfold Game.antePaid
            exact enterRound_nz _ _
    | payBlinds =>
      simp only [Game.step, Game.payBlinds] at hacc ⊢
      split
      · exact hn
      · simp only
        unfold Game.blindsPaid
        intro h
        rcases prepareRound_ev _ with h1 | h1 <;> rw [h1] at h <;> cases h
    | next =>
      simp only [Game.step, Game.next] at hacc ⊢
      split
      · exact hn
      · rename_i he
        split
        · exact hn
        · simp only
          unfold Game.nextRound Game.nextRound'
          split
          · intro h; cases h
          · split
            · exact enterRound_nz _ _
            · exact enterRound_nz _ _
            · exact enterRound_nz _ _
            · intro h; cases h
            · intro h
              have : g.resetRoundStatus.resetAllPlayerStatus.event = g.event := rfl
              rw [this] at h
              exact absurd h (by simp only [ne_eq, Decidable.not_not] at he; rw [he]; simp)
    | act seat a x =>
      intro h
      cases seat with
      | none =>
        have := (act_step g hi g.cur a x hacc).2.1
        simp only [Game.step] at h
        rcases this with h1 | h1 <;> rw [h1] at h <;> cases h
      | some i =>
        have := (act_step g hi i a x hacc).2.1
        simp only [Game.step] at h
        rcases this with h1 | h1 <;> rw [h1] at h <;> cases h
  · rw [refused_same g hf op hacc]; exact hn

theorem nz_run (g : Game) (hi : Inv g) (hf : Flow g) (hn : NZ g) (ops : List Op) : NZ (g.run ops) := by
  induction ops generalizing g with
  | nil => exact hn
  | cons op ops ih => exact ih _ (inv_step g hi op) (flow_step g hi hf op) (nz_step g hi hf hn op)

theorem nz_reachable {g : Game} (h : Reachable g) : NZ g := by
  obtain ⟨c, ops, wf, hs, rfl⟩ := h
  refine nz_run _ (inv_start c wf hs) (flow_start c hs) ?_ ops
  intro he
  rw [(start_ok c hs).2.2] at he
  cases he

theorem run_opts (c : Config) (wf : WFConfig c) (hs : (start c).2 = none) (ops : List Op) :
    ((start c).1.run ops).opts = c.opts :=
  ((static_start c hs).trans (static_run_full _ (inv_start c wf hs) ops)).opts

end Pokerface.Drv
