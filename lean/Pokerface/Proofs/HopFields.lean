import Pokerface.Generated.Facts
/-
  K1 obligation of C07: the fields of the Go state that `encoding/json` does not carry — tagged
  `json:"-"` or unexported — are exactly the ones the model's `hop` / `json` drop (the pots'
  `Levels`, and the internals of `settlement.Result` that nothing reads after `Calculate`).
  `Generated/Facts.lean` is regenerated from the compiled packages by reflection on every run, so
  a field added to any state struct with `json:"-"` (or unexported) breaks this obligation, and
  a renamed JSON tag shows up in `json_tags`.
-/
namespace Pokerface.HopFields
open Pokerface.Generated

/-- (struct, field) of every field reachable from `GameState` that a JSON round trip loses -/
def droppedFields : List (String × String) :=
  (stateFields.filter fun f => f.2.2.2 == "-" || f.2.2.2 == "<unexported>").map fun f => (f.1, f.2.1)

theorem dropped_fields_exact :
    droppedFields = [("Pot", "Levels"), ("PotResult", "rank"), ("Rank", "contributerCount"), ("Rank", "groups"),
                     ("PotResult", "level"), ("PotLevel", "levels"), ("LevelInfo", "rank"), ("PotResult", "oddChipOffset")] := by decide

/-- every exported field of the engine's own state structs carries a JSON tag (no field falls
    back to its Go name silently) -/
theorem state_fields_tagged :
    (stateFields.filter fun f => (f.1 == "GameState" || f.1 == "Meta" || f.1 == "Status" || f.1 == "PlayerState"
        || f.1 == "CombinationInfo" || f.1 == "Action" || f.1 == "BlindSetting") && f.2.2.2 == "").length = 0 := by decide

/-- `omitempty` fields: a JSON round trip turns an empty slice/string/nil pointer of these into
    the zero value (the comparison of states in the correspondence is done on canonical JSON, so
    `[]` and `nil` are not distinguished) -/
theorem omitempty_fields :
    ((stateFields.filter fun f => f.2.2.2.toList.contains ',').map fun f => (f.1, f.2.1)) =
      [("Status", "Round"), ("Status", "Burned"), ("Status", "Board"), ("Status", "LastAction"), ("Action", "Value"),
       ("PlayerState", "DidAction"), ("PlayerState", "AllowedActions"), ("PlayerState", "HoleCards"),
       ("PlayerState", "Combination"), ("GameState", "Result")] := by decide

end Pokerface.HopFields
