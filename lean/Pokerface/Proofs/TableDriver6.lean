import Pokerface.Proofs.TableDriver5
import Pokerface.Proofs.GapsAStatic
/-
  The blinds group is not empty when some configured seat owes a blind (positions and options are static).
-/
namespace Pokerface.Drv
open Pokerface Game

/-- the configured seat owes a blind (`handleState`'s condition, on the configuration) -/
def seatOwes (m : Meta) (s : SeatCfg) : Bool :=
  (decide (m.blindBB > 0) && s.bb) || (decide (m.blindSB > 0) && s.sb) || (decide (m.blindDealer > 0) && s.dealer)

theorem owes_of_seat (c : Config) (wf : WFConfig c) (hs : (start c).2 = none) (ops : List Op)
    (h : ∃ s ∈ c.seats, seatOwes c.opts s = true) :
    ∃ p ∈ ((start c).1.run ops).players, owesBlind ((start c).1.run ops).opts p = true := by
  obtain ⟨s, hsm, how⟩ := h
  obtain ⟨i, hi⟩ := List.mem_iff_getElem?.mp hsm
  have hst := seat_static_of_config c wf hs ops i
  rw [hi] at hst
  have ho : ((start c).1.run ops).opts = c.opts :=
    ((static_start c hs).trans (static_run_full _ (inv_start c wf hs) ops)).opts
  cases hq : ((start c).1.run ops).players[i]? with
  | none => rw [hq] at hst; cases hst
  | some q =>
    rw [hq] at hst
    simp only [Option.map_some, Option.some.injEq, Player.static, Prod.mk.injEq] at hst
    obtain ⟨_, h1, h2, h3, _⟩ := hst
    refine ⟨q, List.mem_of_getElem? hq, ?_⟩
    unfold owesBlind
    unfold seatOwes at how
    rw [ho, h1, h2, h3]; exact how

theorem seatOwes_of_positions (c : Config) (wf : WFConfig c)
    (hnb : ¬(c.opts.blindDealer = 0 ∧ c.opts.blindSB = 0 ∧ c.opts.blindBB = 0))
    (hd : ∃ s ∈ c.seats, s.dealer = true) (hsb : ∃ s ∈ c.seats, s.sb = true) (hbb : ∃ s ∈ c.seats, s.bb = true) :
    ∃ s ∈ c.seats, seatOwes c.opts s = true := by
  have h1 := wf.opts.bd0
  have h2 := wf.opts.sb0
  have h3 := wf.opts.bb0
  by_cases b : c.opts.blindBB > 0
  · obtain ⟨s, hs, hp⟩ := hbb
    exact ⟨s, hs, by simp [seatOwes, b, hp]⟩
  · by_cases sb : c.opts.blindSB > 0
    · obtain ⟨s, hs, hp⟩ := hsb
      exact ⟨s, hs, by simp [seatOwes, sb, hp]⟩
    · have d : c.opts.blindDealer > 0 := by
        by_cases d : c.opts.blindDealer > 0
        · exact d
        · exact absurd ⟨by omega, by omega, by omega⟩ hnb
      obtain ⟨s, hs, hp⟩ := hd
      exact ⟨s, hs, by simp [seatOwes, d, hp]⟩

theorem update_updates_mono' (k : Nat) (d : D) (s : Game) (n : Nat) (h : d.updates = n) : n ≤ (update k d s).updates :=
  h ▸ update_updates_mono k d s

theorem groupReady_updates_mono (d : D) (i : Nat) : d.updates ≤ (groupReady d i).updates := by
  unfold groupReady
  split
  · exact Nat.le_refl _
  · simp only
    split
    · unfold callBackend
      split
      · exact Nat.le_refl _
      · exact update_updates_mono' _ _ _ _ rfl
    · exact Nat.le_refl _

theorem call_updates_mono (d : D) (c : Call) : d.updates ≤ (call d c).1.updates := by
  cases c with
  | ready i =>
    simp only [call]
    split
    · exact Nat.le_refl _
    · split
      · exact Nat.le_refl _
      · exact groupReady_updates_mono d i
  | act i a x =>
    simp only [call]
    split
    · exact Nat.le_refl _
    · split
      · exact Nat.le_refl _
      · split
        · exact groupReady_updates_mono d i
        · unfold callBackend
          split
          · exact Nat.le_refl _
          · exact update_updates_mono _ _ _

theorem runD_append (d : D) (a b : List Call) : runD d (a ++ b) = runD (runD d a) b := by
  simp [runD, List.foldl_append]

/-- the number of callbacks delivered is one more than the number of accepted backend operations, hence bounded -/
theorem updates_le (c : Config) (wf : WFConfig c) (hs : (start c).2 = none) (cs : List Call) :
    (runD (startD (start c).1) cs).updates ≤ C06.bound c + 1 := by
  obtain ⟨ops, e, hh, _, hu⟩ := runD_ok' ⟨c, wf, hs, rfl⟩ cs
  have := C06.terminates c wf hs ops
  unfold C06.acceptedCount at this
  rw [hh.accepted_eq] at this
  omega

end Pokerface.Drv
