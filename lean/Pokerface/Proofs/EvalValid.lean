import Pokerface.Properties.C03Spec
/-!
  C03: five distinct cards of a four-suit deck form a `Valid` hand.
-/
namespace Pokerface.C03

/-- Among distinct cards whose suits come from a list of `n` suits, a rank occurs at
    most `n` times. -/
theorem count_rank_le (suits : List Nat) (h : List Card) (hd : h.Nodup)
    (hs : ∀ c ∈ h, c.suit ∈ suits) (r : Nat) : (ranks h).count r ≤ suits.length := by
  unfold ranks
  rw [List.count_eq_countP, List.countP_map, List.countP_eq_length_filter,
    ← List.length_map (f := fun c : Card => c.suit)]
  apply List.Nodup.length_le_of_subset
  · -- the suits of the cards of rank `r` are distinct
    have hf : (h.filter ((· == r) ∘ fun c : Card => c.rank)).Nodup := hd.sublist List.filter_sublist
    unfold List.Nodup at hf ⊢
    rw [List.pairwise_map]
    refine hf.imp_of_mem ?_
    intro a b ha hb hab hsuit
    have ra := (List.mem_filter.1 ha).2
    have rb := (List.mem_filter.1 hb).2
    simp only [Function.comp_apply, beq_iff_eq] at ra rb
    apply hab
    cases a; cases b
    simp_all
  · intro s hs'
    obtain ⟨c, hc, rfl⟩ := List.mem_map.1 hs'
    exact hs c (List.mem_filter.1 hc).1

/-- Distinct cards of one suit have distinct ranks. -/
theorem ranks_nodup_of_sameSuit (h : List Card) (hd : h.Nodup) (hf : sameSuit h = true) :
    (ranks h).Nodup := by
  have hf : ∀ c ∈ h, ∀ d ∈ h, c.suit = d.suit := by
    simpa [sameSuit, List.all_eq_true] using hf
  unfold ranks
  unfold List.Nodup at hd ⊢
  rw [List.pairwise_map]
  refine hd.imp_of_mem ?_
  intro a b ha hb hab hrank
  apply hab
  have := hf a ha b hb
  cases a; cases b
  simp_all

/-- Five distinct cards, suits among the four suits of `deck.go`, ranks 2..14. -/
theorem valid_of_distinct_cards (h : List Card) (h5 : h.length = 5) (hd : h.Nodup)
    (hs : ∀ c ∈ h, c.suit ∈ suitCodes) (hr : ∀ c ∈ h, 2 ≤ c.rank ∧ c.rank ≤ 14) : Valid h :=
  { five := h5
    inRange := hr
    atMostFour := fun r => count_rank_le suitCodes h hd hs r
    flushDistinct := ranks_nodup_of_sameSuit h hd }

end Pokerface.C03
