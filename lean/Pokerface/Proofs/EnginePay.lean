import Pokerface.Proofs.EngineChips
/-
  The chip-moving functions of the engine model: `pay`, `resetAllPlayerStatus`,
  `resetRoundStatus`, and what they do to the chip invariant.
-/
namespace Pokerface
open Game

/-- static configuration of a player -/
def Player.static (p : Player) : Nat × Bool × Bool × Bool × Int :=
  (p.idx, p.posDealer, p.posSB, p.posBB, p.bankroll)

/-- what no function of the model changes at all -/
structure Static (g g' : Game) : Prop where
  ids : g'.players.map Player.static = g.players.map Player.static
  opts : g'.opts = g.opts
  mini : g'.miniBet = g.miniBet

theorem Static.refl (g : Game) : Static g g := ⟨rfl, rfl, rfl⟩
theorem Static.trans {a b c : Game} (h1 : Static a b) (h2 : Static b c) : Static a c :=
  ⟨h2.ids.trans h1.ids, h2.opts.trans h1.opts, h2.mini.trans h1.mini⟩

theorem Static.length {g g' : Game} (h : Static g g') : g'.n = g.n := by
  have := congrArg List.length h.ids
  simpa [Game.n] using this

theorem NoChip.static {g g' : Game} (h : NoChip g g') : Static g g' := by
  refine ⟨?_, h.opts, h.mini⟩
  have := congrArg (List.map (fun x : (Nat × Bool × Bool × Bool) × (Int × Int × Int × Int × Int) =>
    (x.1.1, x.1.2.1, x.1.2.2.1, x.1.2.2.2, x.2.1))) h.frame
  simp only [List.map_map, Function.comp_def, Player.frame, Player.chips] at this
  exact this

theorem static_modP (g : Game) (i : Nat) (f : Player → Player) (hf : ∀ p, (f p).static = p.static) :
    Static g (g.modP i f) :=
  ⟨by simp [Game.modP, map_modify_of_proj Player.static f hf], rfl, rfl⟩

theorem static_mapP (g : Game) (f : Player → Player) (hf : ∀ p, (f p).static = p.static) :
    Static g (g.mapP f) :=
  ⟨by simp [Game.mapP, List.map_map, Function.comp_def, hf], rfl, rfl⟩

/-- General update lemma: replace the chips of seat `i` and move the scalars consistently. -/
theorem chipsOK_update {g g' : Game} (i : Nat) (p : Player) (f : Player → Player)
    (ok : ChipsOK g) (hp : g.players[i]? = some p)
    (hplayers : g'.players = g.players.modify i f)
    (hrp : g'.roundPot = g.roundPot - p.wager + (f p).wager)
    (hcw : g.cw ≤ g'.cw) (hw : (f p).wager ≤ g'.cw)
    (hprev : 0 ≤ g'.prev) (hinv : PInv (f p)) : ChipsOK g' := by
  have hmem : p ∈ g.players := List.mem_of_getElem? hp
  refine ⟨?_, ?_, ?_, hprev, ?_⟩
  · rw [hplayers]
    exact forall_mem_modify_at PInv f g.players i ok.pinv (fun x hx => by
      rw [hp] at hx; cases hx; exact hinv)
  · rw [hrp, ok.rp]
    simp only [Game.wagerSum, hplayers]
    rw [sum_map_modify (·.wager) f g.players i p hp]
  · exact Int.le_trans ok.cw0 hcw
  · rw [hplayers]
    exact forall_mem_modify_at (fun q => q.wager ≤ g'.cw) f g.players i
      (fun q hq => Int.le_trans (ok.wle q hq) hcw) (fun x hx => by
        rw [hp] at hx; cases hx; exact hw)

theorem PInv_goAllin {p : Player} (h : PInv p) : PInv (goAllin p) := by
  have := h.split; have := h.rebase; have := h.stack0; have := h.wager0; have := h.pot0
  constructor <;> simp [goAllin] <;> omega

theorem PInv_putWager {p : Player} (h : PInv p) (c : Int) (hc : 0 ≤ c) (hlt : ¬ p.stack ≤ c) :
    PInv (putWager (p.wager + c) p) := by
  have := h.split; have := h.rebase; have := h.stack0; have := h.wager0; have := h.pot0
  constructor <;> simp [putWager] <;> omega

theorem chipsOK_payAllin (g : Game) (i : Nat) (p : Player) (ok : ChipsOK g)
    (hp : g.players[i]? = some p) : ChipsOK (g.payAllin i p true) := by
  have hmem : p ∈ g.players := List.mem_of_getElem? hp
  have hpi := ok.pinv p hmem
  have hpw := ok.wle p hmem
  have := hpi.rebase; have := hpi.stack0; have := hpi.wager0
  unfold Game.payAllin
  simp only [if_true]
  have key : ∀ g2 : Game, g2.players = g.players.modify i goAllin →
      g2.roundPot = g.roundPot + (p.initial - p.wager) → g.cw ≤ g2.cw → p.initial ≤ g2.cw → g2.prev = g.prev →
      ChipsOK g2 := by
    intro g2 h1 h2 h3 h4 h5
    refine chipsOK_update i p goAllin ok hp h1 ?_ h3 ?_ (by rw [h5]; exact ok.prev0) (PInv_goAllin hpi)
    · rw [h2]; simp [goAllin]; omega
    · simpa [goAllin] using h4
  have h2 : ChipsOK (if p.initial > g.cw then ((g.addRoundPot (p.initial - p.wager)).modP i goAllin).setCw p.initial
      else (g.addRoundPot (p.initial - p.wager)).modP i goAllin) := by
    split
    · exact key _ rfl rfl (by simp [Game.setCw]; omega) (by simp [Game.setCw]) rfl
    · exact key _ rfl rfl (by simp [Game.modP, Game.addRoundPot]) (by simp [Game.modP, Game.addRoundPot]; omega) rfl
  split
  · exact ChipsOK.of_noChip (noChip_becomeRaiser _ i) h2
  · exact ChipsOK.of_noChip (noChip_resetActed _) h2

theorem chipsOK_payPart (g : Game) (i : Nat) (p : Player) (c : Int) (ok : ChipsOK g)
    (hp : g.players[i]? = some p) (hc : 0 ≤ c) (hlt : ¬ p.stack ≤ c) : ChipsOK (g.payPart i p c true) := by
  have hmem : p ∈ g.players := List.mem_of_getElem? hp
  have hpi := ok.pinv p hmem
  have hpw := ok.wle p hmem
  unfold Game.payPart
  have key : ∀ g2 : Game, g2.players = g.players.modify i (putWager (p.wager + c)) →
      g2.roundPot = g.roundPot + c → g.cw ≤ g2.cw → p.wager + c ≤ g2.cw → g2.prev = g.prev →
      ChipsOK g2 := by
    intro g2 h1 h2 h3 h4 h5
    refine chipsOK_update i p _ ok hp h1 ?_ h3 ?_ (by rw [h5]; exact ok.prev0) (PInv_putWager hpi c hc hlt)
    · rw [h2]; simp [putWager]; omega
    · simpa [putWager] using h4
  simp only [Bool.true_and, decide_eq_true_eq]
  split
  · rename_i hlt2
    exact ChipsOK.of_noChip (noChip_becomeRaiser _ i)
      (key _ rfl rfl (by simp [Game.setCw]; omega) (by simp [Game.setCw]) rfl)
  · rename_i hge
    exact key _ rfl rfl (by simp [Game.modP, Game.addRoundPot]) (by simp [Game.modP, Game.addRoundPot]; omega) rfl

/-- `pay` as a wager keeps the chip invariant, for every non-negative amount. -/
theorem chipsOK_pay (g : Game) (i : Nat) (c : Int) (ok : ChipsOK g) (hc : 0 ≤ c) :
    ChipsOK (g.pay i c true) := by
  unfold Game.pay
  split
  · exact ok
  · rename_i p hp
    split
    · exact chipsOK_payAllin g i p ok hp
    · rename_i hlt
      exact chipsOK_payPart g i p c ok hp hc hlt

end Pokerface
