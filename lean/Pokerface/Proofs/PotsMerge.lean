import Pokerface.Proofs.PotsLevels
/-
  Analysis of `GetPots`: the merge loop and the "put folded players back" loop
  (helper lemmas for C16 / C02).
-/
namespace Pokerface

/-! ### `assocAdd` over the same key list -/

theorem assocSet_append_cons {β : Type} (pre : List (Nat × β)) (k : Nat) (v v' : β) (rest : List (Nat × β))
    (h : ∀ x ∈ pre, x.1 < k) : assocSet (pre ++ (k, v) :: rest) k v' = pre ++ (k, v') :: rest := by
  induction pre with
  | nil => simp [assocSet]
  | cons y ys ih =>
    obtain ⟨k', w⟩ := y
    have hk : k' < k := h (k', w) (by simp)
    simp only [List.cons_append, assocSet]
    rw [if_neg (by omega), if_neg (by omega), ih (fun x hx => h x (by simp [hx]))]

theorem foldl_assocAdd_aux (a b : Int) (suf pre : List Nat) (h : (pre ++ suf).Pairwise (· < ·)) :
    (suf.map (fun k => (k, b))).foldl (fun m kv => assocAdd m kv.1 kv.2)
        (pre.map (fun k => (k, a + b)) ++ suf.map (fun k => (k, a)))
      = (pre ++ suf).map (fun k => (k, a + b)) := by
  induction suf generalizing pre with
  | nil => simp
  | cons k suf ih =>
    simp only [List.map_cons, List.foldl_cons]
    have hsorted : KeysSorted (pre.map (fun k => (k, a + b)) ++ (k, a) :: suf.map (fun k => (k, a))) := by
      have : (pre.map (fun k => (k, a + b)) ++ (k, a) :: suf.map (fun k => (k, a))).map (·.1) = pre ++ k :: suf := by
        simp [List.map_append, List.map_map, Function.comp_def]
      unfold KeysSorted
      rw [← List.pairwise_map (f := fun x : Nat × Int => x.1) (R := (· < ·)), this]
      exact h
    have hget : assocGet? (pre.map (fun k => (k, a + b)) ++ (k, a) :: suf.map (fun k => (k, a))) k = some a :=
      assocGet?_of_mem hsorted (by simp)
    have hpre : ∀ x ∈ pre.map (fun k => (k, a + b)), x.1 < k := by
      intro x hx
      simp only [List.mem_map] at hx
      obtain ⟨y, hy, rfl⟩ := hx
      rw [List.pairwise_append] at h
      exact h.2.2 y hy k (by simp)
    have hstep : assocAdd (pre.map (fun k => (k, a + b)) ++ (k, a) :: suf.map (fun k => (k, a))) k b
        = pre.map (fun k => (k, a + b)) ++ (k, a + b) :: suf.map (fun k => (k, a)) := by
      unfold assocAdd
      rw [hget]
      simp only [Option.getD_some]
      exact assocSet_append_cons _ _ _ _ _ hpre
    rw [hstep]
    have := ih (pre ++ [k]) (by simpa using h)
    simpa using this

theorem foldl_assocAdd_same (ks : List Nat) (hk : ks.Pairwise (· < ·)) (a b : Int) :
    (ks.map (fun k => (k, b))).foldl (fun m kv => assocAdd m kv.1 kv.2) (ks.map (fun k => (k, a)))
      = ks.map (fun k => (k, a + b)) := by
  simpa using foldl_assocAdd_aux a b ks [] (by simpa using hk)

/-! ### the merge loop -/

/-- `mergePots` with an open pot and no finished ones, non tail-recursively. -/
def merge1 : Pot → List Pot → List Pot
  | prev, [] => [prev]
  | prev, p :: ps =>
    if prev.contributors.length ≠ p.contributors.length then prev :: merge1 p ps
    else merge1 (mergeInto prev p) ps

theorem mergePots_acc (o : Option Pot) (acc ps : List Pot) :
    mergePots o acc ps = acc.reverse ++ mergePots o [] ps := by
  induction ps generalizing o acc with
  | nil => cases o <;> simp [mergePots]
  | cons p ps ih =>
    cases o with
    | none => simp only [mergePots]; exact ih _ _
    | some prev =>
      simp only [mergePots]
      split
      · rw [ih _ (prev :: acc), ih _ [prev]]; simp
      · exact ih _ _

theorem mergePots_some (prev : Pot) (ps : List Pot) : mergePots (some prev) [] ps = merge1 prev ps := by
  induction ps generalizing prev with
  | nil => simp [mergePots, merge1]
  | cons p ps ih =>
    simp only [mergePots, merge1]
    split
    · rw [mergePots_acc, ih]; simp
    · exact ih _

theorem mergePots_none_cons (p : Pot) (ps : List Pot) : mergePots none [] (p :: ps) = merge1 p ps := by
  simp [mergePots, mergePots_some]

/-- Non-folded contributors of a level. -/
def nf (F : List Nat) (l : Level) : List Nat := l.contributors.filter (fun i => !F.contains i)

/-- A pot as the merge loop builds it: a run of levels with the same non-folded contributors. -/
structure GoodPot (F : List Nat) (q : Pot) : Prop where
  last : ∃ l0, q.levels.getLast? = some l0 ∧ q.level = l0.level ∧
    q.contributors = (nf F l0).map (fun i => (i, q.wager)) ∧ ∀ l ∈ q.levels, nf F l = nf F l0
  wager : q.wager = (q.levels.map (·.wager)).sum
  total : q.total = (q.levels.map (·.total)).sum

theorem goodPot_origPot (F : List Nat) (l : Level) : GoodPot F (origPot F l) :=
  ⟨⟨l, by simp [origPot], rfl, by simp [origPot, nf], by simp [origPot]⟩, by simp [origPot], by simp [origPot]⟩

theorem nf_sublist (F : List Nat) {a b : Level} (h : b.contributors.Sublist a.contributors) :
    (nf F b).Sublist (nf F a) := h.filter _

theorem nf_sorted (F : List Nat) {a : Level} (h : a.contributors.Pairwise (· < ·)) :
    (nf F a).Pairwise (· < ·) := h.sublist List.filter_sublist

theorem merge1_spec (F : List Nat) (rest : List Level) (prev : Pot)
    (hg : GoodPot F prev)
    (hch : (prev.levels ++ rest).Pairwise (fun a b => b.contributors.Sublist a.contributors))
    (hs : ∀ l ∈ prev.levels ++ rest, l.contributors.Pairwise (· < ·)) :
    (∀ q ∈ merge1 prev (rest.map (origPot F)), GoodPot F q) ∧
    (merge1 prev (rest.map (origPot F))).flatMap (·.levels) = prev.levels ++ rest ∧
    (merge1 prev (rest.map (origPot F))).Pairwise (fun a b => b.contributors.length < a.contributors.length) ∧
    (∀ q ∈ merge1 prev (rest.map (origPot F)), q.contributors.length ≤ prev.contributors.length) := by
  induction rest generalizing prev with
  | nil => simp [merge1, hg]
  | cons l rest ih =>
    obtain ⟨l0, hl0, hlev, hcon, hall⟩ := hg.last
    have hl0mem : l0 ∈ prev.levels := List.mem_of_getLast? hl0
    have hsub : (nf F l).Sublist (nf F l0) := by
      apply nf_sublist
      rw [List.pairwise_append] at hch
      exact hch.2.2 l0 hl0mem l (by simp)
    have hplen : prev.contributors.length = (nf F l0).length := by rw [hcon]; simp
    have hllen : (origPot F l).contributors.length = (nf F l).length := by simp [origPot, nf]
    simp only [List.map_cons, merge1]
    split
    · -- different sizes: close `prev`, open `origPot F l`
      rename_i hne
      have hlt : (origPot F l).contributors.length < prev.contributors.length := by
        have := hsub.length_le; omega
      have hch' : ((origPot F l).levels ++ rest).Pairwise (fun a b => b.contributors.Sublist a.contributors) := by
        rw [List.pairwise_append] at hch
        simpa [origPot] using hch.2.1
      have hs' : ∀ x ∈ (origPot F l).levels ++ rest, x.contributors.Pairwise (· < ·) := by
        intro x hx; apply hs; simp [origPot] at hx; simp [hx]
      obtain ⟨h1, h2, h3, h4⟩ := ih (origPot F l) (goodPot_origPot F l) hch' hs'
      refine ⟨?_, ?_, ?_, ?_⟩
      · intro q hq
        simp only [List.mem_cons] at hq
        rcases hq with rfl | hq
        · exact hg
        · exact h1 q hq
      · simp only [List.flatMap_cons, h2]; simp [origPot]
      · simp only [List.pairwise_cons]
        refine ⟨?_, h3⟩
        intro q hq
        have := h4 q hq; omega
      · intro q hq
        simp only [List.mem_cons] at hq
        rcases hq with rfl | hq
        · exact Nat.le_refl _
        · have := h4 q hq; omega
    · -- same size: merge
      rename_i heq
      have heq : prev.contributors.length = (origPot F l).contributors.length := by omega
      have hnf : nf F l = nf F l0 := hsub.eq_of_length (by omega)
      have hsorted0 : (nf F l0).Pairwise (· < ·) := nf_sorted F (hs l0 (by simp [hl0mem]))
      have hmc : (mergeInto prev (origPot F l)).contributors
          = (nf F l).map (fun i => (i, prev.wager + l.wager)) := by
        simp only [mergeInto]
        rw [hcon]
        have : (origPot F l).contributors = (nf F l0).map (fun i => (i, l.wager)) := by
          rw [← hnf]; rfl
        rw [this, foldl_assocAdd_same _ hsorted0, hnf]
      have hg' : GoodPot F (mergeInto prev (origPot F l)) := by
        refine ⟨⟨l, ?_, ?_, ?_, ?_⟩, ?_, ?_⟩
        · simp [mergeInto, origPot]
        · simp [mergeInto, origPot]
        · rw [hmc]; simp [mergeInto, origPot]
        · intro x hx
          simp only [mergeInto, origPot, List.mem_append, List.mem_singleton] at hx
          rcases hx with hx | rfl
          · rw [hall x hx, hnf]
          · rfl
        · simp [mergeInto, origPot, hg.wager]
        · simp [mergeInto, origPot, hg.total]
      have hlv : (mergeInto prev (origPot F l)).levels = prev.levels ++ [l] := by simp [mergeInto, origPot]
      have hch' : ((mergeInto prev (origPot F l)).levels ++ rest).Pairwise
          (fun a b => b.contributors.Sublist a.contributors) := by
        rw [hlv]; simpa using hch
      have hs' : ∀ x ∈ (mergeInto prev (origPot F l)).levels ++ rest, x.contributors.Pairwise (· < ·) := by
        rw [hlv]; simpa using hs
      obtain ⟨h1, h2, h3, h4⟩ := ih _ hg' hch' hs'
      refine ⟨h1, ?_, h3, ?_⟩
      · rw [h2, hlv]; simp
      · intro q hq
        have := h4 q hq
        rw [hmc] at this
        simp only [List.length_map] at this
        rw [hnf] at this
        omega

/-! ### putting folded players back -/

theorem putFolded_length (i : Nat) (w : Int) (ps : List Pot) : (putFolded i w ps).length = ps.length := by
  induction ps with
  | nil => rfl
  | cons p ps ih => simp only [putFolded]; split <;> simp [ih]

/-- `putFolded` at position `k`: pot `k` gets the entry iff all earlier pots have a level `≤ w`. -/
theorem putFolded_getElem? (i : Nat) (w : Int) (ps : List Pot) (k : Nat) :
    (putFolded i w ps)[k]? = (ps[k]?).map (fun q =>
      if ∀ L ∈ (ps.take k).map (fun p : Pot => p.level), L ≤ w then
        { q with contributors := assocSet q.contributors i w } else q) := by
  induction ps generalizing k with
  | nil => simp [putFolded]
  | cons p ps ih =>
    simp only [putFolded]
    cases k with
    | zero => split <;> simp
    | succ k =>
      split
      · rename_i hlt
        simp only [List.getElem?_cons_succ, List.take_succ_cons, List.map_cons, List.mem_cons, forall_eq_or_imp]
        have : ¬ (p.level ≤ w ∧ ∀ a ∈ (ps.take k).map (·.level), a ≤ w) := by omega
        simp only [this, if_false]
        cases ps[k]? <;> simp
      · rename_i hlt
        simp only [List.getElem?_cons_succ, List.take_succ_cons, List.map_cons, List.mem_cons, forall_eq_or_imp]
        rw [ih]
        have hle : p.level ≤ w := by omega
        simp only [hle, true_and]

theorem putFolded_fields (i : Nat) (w : Int) (ps : List Pot) :
    (putFolded i w ps).map (fun p => (p.level, p.wager, p.total, p.levels))
      = ps.map (fun p => (p.level, p.wager, p.total, p.levels)) := by
  induction ps with
  | nil => rfl
  | cons p ps ih => simp only [putFolded]; split <;> simp [ih]

/-- The "put folded players back" loop of `GetPots`, over `(idx, stake)` pairs. -/
def putAll (fs : List (Nat × Int)) (ps : List Pot) : List Pot :=
  fs.foldl (fun ps f => if f.2 = 0 then ps else putFolded f.1 f.2 ps) ps

theorem putAll_fields (fs : List (Nat × Int)) (ps : List Pot) :
    (putAll fs ps).map (fun p => (p.level, p.wager, p.total, p.levels))
      = ps.map (fun p => (p.level, p.wager, p.total, p.levels)) := by
  induction fs generalizing ps with
  | nil => rfl
  | cons f fs ih =>
    simp only [putAll, List.foldl_cons]
    split
    · exact ih ps
    · exact (ih _).trans (putFolded_fields _ _ _)

theorem putAll_length (fs : List (Nat × Int)) (ps : List Pot) : (putAll fs ps).length = ps.length := by
  have := congrArg List.length (putAll_fields fs ps)
  simpa using this

/-- Contributors of pot `k` after the loop. -/
def putContribs (fs : List (Nat × Int)) (Ls : List Int) (m : List (Nat × Int)) : List (Nat × Int) :=
  fs.foldl (fun m f => if f.2 ≠ 0 ∧ ∀ L ∈ Ls, L ≤ f.2 then assocSet m f.1 f.2 else m) m

theorem putAll_getElem? (fs : List (Nat × Int)) (ps : List Pot) (k : Nat) :
    (putAll fs ps)[k]? = (ps[k]?).map (fun q =>
      { q with contributors := putContribs fs ((ps.take k).map (·.level)) q.contributors }) := by
  induction fs generalizing ps with
  | nil => simp [putAll, putContribs]
  | cons f fs ih =>
    simp only [putAll, List.foldl_cons, putContribs]
    split
    · rename_i h0
      have := ih ps
      simp only [putAll] at this
      rw [this]
      simp [h0, putContribs]
    · rename_i h0
      have := ih (putFolded f.1 f.2 ps)
      simp only [putAll] at this
      rw [this, putFolded_getElem?]
      have hlv : ((putFolded f.1 f.2 ps).take k).map (·.level) = (ps.take k).map (·.level) := by
        have := congrArg (fun l => (l.map (fun x : Int × Int × Int × List Level => x.1)).take k) (putFolded_fields f.1 f.2 ps)
        simpa [List.map_take, List.map_map, Function.comp_def] using this
      rw [hlv]
      cases ps[k]? with
      | none => simp
      | some q =>
        simp only [Option.map_some, Option.some.injEq, putContribs, h0, ne_eq, not_false_eq_true, true_and]
        split <;> rfl

theorem assocSet_filter {β : Type} (P : Nat → Bool) (m : List (Nat × β)) (k : Nat) (v : β) (hk : P k = false) :
    (assocSet m k v).filter (fun x => P x.1) = m.filter (fun x => P x.1) := by
  induction m with
  | nil => simp [assocSet, hk]
  | cons y ys ih =>
    obtain ⟨k', v'⟩ := y
    unfold assocSet
    split
    · simp [List.filter_cons, hk]
    · split
      · rename_i _ h; subst h; simp [hk]
      · simp [List.filter_cons, ih]

theorem putContribs_sorted (fs : List (Nat × Int)) (Ls : List Int) (m : List (Nat × Int)) (h : KeysSorted m) :
    KeysSorted (putContribs fs Ls m) := by
  induction fs generalizing m with
  | nil => exact h
  | cons f fs ih =>
    simp only [putContribs, List.foldl_cons]
    split
    · exact ih _ (assocSet_sorted h _ _)
    · exact ih _ h

theorem putContribs_filter (P : Nat → Bool) (fs : List (Nat × Int)) (Ls : List Int) (m : List (Nat × Int))
    (hP : ∀ f ∈ fs, P f.1 = false) :
    (putContribs fs Ls m).filter (fun x => P x.1) = m.filter (fun x => P x.1) := by
  induction fs generalizing m with
  | nil => rfl
  | cons f fs ih =>
    simp only [putContribs, List.foldl_cons]
    have ih' := fun m => ih m (fun g hg => hP g (by simp [hg]))
    simp only [putContribs] at ih'
    split
    · rw [ih', assocSet_filter P _ _ _ (hP f (by simp))]
    · rw [ih']

/-- Membership in the contributors after the loop (keys of `fs` distinct). -/
theorem putContribs_mem (fs : List (Nat × Int)) (Ls : List Int) (m : List (Nat × Int)) (h : KeysSorted m)
    (hn : (fs.map (·.1)).Nodup) (x : Nat × Int) :
    x ∈ putContribs fs Ls m ↔
      (x ∈ fs ∧ x.2 ≠ 0 ∧ ∀ L ∈ Ls, L ≤ x.2) ∨
      (x ∈ m ∧ ∀ f ∈ fs, f.1 = x.1 → ¬ (f.2 ≠ 0 ∧ ∀ L ∈ Ls, L ≤ f.2)) := by
  induction fs generalizing m with
  | nil => simp [putContribs]
  | cons f fs ih =>
    simp only [List.map_cons, List.nodup_cons] at hn
    simp only [putContribs, List.foldl_cons]
    have ih' := fun m hm => ih m hm hn.2
    simp only [putContribs] at ih'
    have hfresh : ∀ g ∈ fs, g.1 ≠ f.1 := by
      intro g hg he
      exact hn.1 (by rw [← he]; exact List.mem_map_of_mem hg)
    split
    · rename_i hc
      rw [ih' _ (assocSet_sorted h _ _), assocSet_mem h]
      simp only [List.mem_cons, forall_eq_or_imp]
      constructor
      · rintro (⟨h1, h2⟩ | ⟨h1 | ⟨h1, h1'⟩, h2⟩)
        · exact Or.inl ⟨Or.inr h1, h2⟩
        · left
          have : x = f := by rw [h1]
          exact ⟨Or.inl this, this ▸ hc⟩
        · right
          exact ⟨h1', fun he => absurd he.symm h1, h2⟩
      · rintro (⟨h1 | h1, h2⟩ | ⟨h1, h2, h3⟩)
        · right
          subst h1
          exact ⟨Or.inl rfl, fun g hg he => absurd he (hfresh g hg)⟩
        · exact Or.inl ⟨h1, h2⟩
        · right
          refine ⟨Or.inr ⟨?_, h1⟩, h3⟩
          intro he
          exact h2 he.symm hc
    · rename_i hc
      rw [ih' _ h]
      simp only [List.mem_cons, forall_eq_or_imp]
      constructor
      · rintro (⟨h1, h2⟩ | ⟨h1, h2⟩)
        · exact Or.inl ⟨Or.inr h1, h2⟩
        · exact Or.inr ⟨h1, fun _ => hc, h2⟩
      · rintro (⟨h1 | h1, h2⟩ | ⟨h1, _, h3⟩)
        · subst h1; exact absurd h2 hc
        · exact Or.inl ⟨h1, h2⟩
        · exact Or.inr ⟨h1, h3⟩

end Pokerface
