import Pokerface.Proofs.TableDriver3
/-
  Fuel independence of `update`, the driver's own calls, the wrapper acts for its caller.
-/
namespace Pokerface.Drv
open Pokerface Game

/-- `update` reached its `0` case or the `fmt.Println(err); return` branch of `handleState` -/
def updateBad : Nat → D → Game → Bool
  | 0, _, _ => true
  | k + 1, d, s =>
    if d.closed then false else
    match s.hop.event with
    | .gameClosed => false
    | .roundClosed =>
      match backend s.hop .next with
      | .error _ => true
      | .ok s' => updateBad k { d with gs := s.hop, readyMarks := [] } s'
    | _ => false

theorem update_closed (k : Nat) (d : D) (s : Game) (hc : d.closed = true) :
    update k d s = { d with gs := s.hop, readyMarks := [] } := by
  cases k with
  | zero => rfl
  | succ k => rw [update]; simp [hc]

theorem update_of_final (k : Nat) (d : D) (e : Game) (hc : d.closed = false) (h : e.event ≠ .roundClosed) :
    update (k + 1) d e.hop = update 1 d e.hop ∧ updateBad (k + 1) d e.hop = false ∧
    d.updates < (update (k + 1) d e.hop).updates := by
  have hev : e.hop.hop.event = e.event := rfl
  refine ⟨?_, ?_, ?_⟩
  · rw [update, update]
    simp only [hc, hev, Bool.false_eq_true, if_false]
    split
    · rfl
    · rename_i h'; exact absurd h' h
    · rfl
  · rw [updateBad]
    simp only [hc, hev, Bool.false_eq_true, if_false]
    split
    · rfl
    · rename_i h'; exact absurd h' h
    · rfl
  · rw [update]
    simp only [hc, hev, Bool.false_eq_true, if_false]
    split
    · simp
    · rename_i h'; exact absurd h' h
    · split <;> simp

theorem update_of_next (k : Nat) (d : D) (e : Game) (hc : d.closed = false) (h : e.event = .roundClosed)
    (hacc : (e.step .next).2 = none) :
    update (k + 1) d e.hop =
      { update k { d with gs := e.hop, readyMarks := [] } (e.step .next).1.hop with
        updates := (update k { d with gs := e.hop, readyMarks := [] } (e.step .next).1.hop).updates + 1 } ∧
    updateBad (k + 1) d e.hop = updateBad k { d with gs := e.hop, readyMarks := [] } (e.step .next).1.hop := by
  have hev : e.hop.event = e.event := rfl
  have hhop : e.hop.hop = e.hop := C07.hop_idempotent e
  have hb := backend_hop e .next
  rw [update, updateBad]
  simp only [hc, hhop, hev, h, Bool.false_eq_true, if_false]
  rw [hb]
  revert hacc
  generalize e.step .next = y
  obtain ⟨y1, y2⟩ := y
  intro hacc
  simp only at hacc
  subst hacc
  exact ⟨rfl, rfl⟩

theorem update_updates_mono (k : Nat) (d : D) (s : Game) : d.updates ≤ (update k d s).updates := by
  induction k generalizing d s with
  | zero => exact Nat.le_refl _
  | succ k ih =>
    rw [update]
    split
    · exact Nat.le_refl _
    · split
      · simp
      · split
        · exact Nat.le_refl _
        · have := ih { d with gs := s.hop, readyMarks := [] } ‹_›
          simp only at this ⊢
          omega
      · split <;> simp

theorem update_fuel {g0 : Game} (h0 : Start0 g0) : ∀ (k : Nat) (d : D) (ops : List Op) (e : Game), Hist g0 ops e →
    d.closed = false → 1 ≤ k → (e.event = .roundClosed → 6 ≤ k + e.round.idx) →
    updateBad k d e.hop = false ∧ d.updates < (update k d e.hop).updates ∧
    ∀ k', 1 ≤ k' → (e.event = .roundClosed → 6 ≤ k' + e.round.idx) → update k' d e.hop = update k d e.hop := by
  intro k
  induction k with
  | zero => intro _ _ _ _ _ hk; omega
  | succ k ih =>
    intro d ops e hh hc _ hb
    have hR := hh.reach h0
    by_cases h : e.event = .roundClosed
    · have hacc := (C06.expected_step_succeeds hR).2.2.2.1 h
      have hrn : e.round ≠ .none := by
        intro h0'
        have := ((flow_reachable hR).rnd0 h0').1
        rw [h] at this
        rcases this with h | h <;> cases h
      have hch := next_chain e h hrn
      have hh' := Hist.snoc .next hh hacc
      have hidx : e.round.idx ≤ 4 := by cases e.round <;> simp [Round.idx]
      have hk1 : 1 ≤ k := by have := hb h; omega
      have hb1 : ∀ j, (6 ≤ j + 1 + e.round.idx) → (e.step .next).1.event = .roundClosed → 6 ≤ j + (e.step .next).1.round.idx := by
        intro j hj hy
        rcases hch with hch | hch
        · rw [hy] at hch; cases hch
        · omega
      obtain ⟨i1, i2, i3⟩ := ih { d with gs := e.hop, readyMarks := [] } _ _ hh' hc hk1 (hb1 k (hb h))
      obtain ⟨u1, u2⟩ := update_of_next k d e hc h hacc
      refine ⟨by rw [u2]; exact i1, ?_, ?_⟩
      · rw [u1]; simp only at i2 ⊢; omega
      · intro k' hk' hb'
        cases k' with
        | zero => omega
        | succ k' =>
          have hk1' : 1 ≤ k' := by have := hb' h; omega
          rw [u1, (update_of_next k' d e hc h hacc).1, i3 k' hk1' (hb1 k' (hb' h))]
    · obtain ⟨f1, f2, f3⟩ := update_of_final k d e hc h
      refine ⟨f2, f3, ?_⟩
      intro k' hk' _
      cases k' with
      | zero => omega
      | succ k' => rw [f1, (update_of_final k' d e hc h).1]

theorem update_any_fuel {g0 : Game} (h0 : Start0 g0) {ops : List Op} {e : Game} (hh : Hist g0 ops e) (d' : D) (k : Nat)
    (hk : 5 ≤ k) :
    update k d' e.hop = update fuel d' e.hop ∧ updateBad k d' e.hop = false ∧
    (d'.closed = false → d'.updates < (update fuel d' e.hop).updates) := by
  have hR := hh.reach h0
  have hrn : e.event = .roundClosed → 1 ≤ e.round.idx := by
    intro h
    have : e.round ≠ .none := by
      intro h0'
      have := ((flow_reachable hR).rnd0 h0').1
      rw [h] at this
      rcases this with h | h <;> cases h
    revert this
    cases e.round <;> simp [Round.idx]
  cases hc : d'.closed with
  | true =>
    refine ⟨by rw [update_closed _ _ _ hc, update_closed _ _ _ hc], ?_, fun h => by cases h⟩
    obtain ⟨k', rfl⟩ : ∃ k', k = k' + 1 := ⟨k - 1, by omega⟩
    rw [updateBad]; simp [hc]
  | false =>
    obtain ⟨i1, i2, i3⟩ := update_fuel h0 fuel d' ops e hh hc (by decide) (by intro _; simp only [fuel]; omega)
    obtain ⟨j1, _, _⟩ := update_fuel h0 k d' ops e hh hc (by omega) (by intro h; have := hrn h; omega)
    exact ⟨i3 k (by omega) (by intro h; have := hrn h; omega), j1, fun _ => i2⟩

/-- the backend operations the driver performs in state `d`: the callback of its pending group at a request
    event, or a player action at `RoundStarted` -/
def Performs (d : D) (op : Op) : Prop :=
  (∃ G, d.group = some G ∧ G.completed = false ∧ op = fireOp G.fire ∧
    (d.gs.event = .readyRequested ∨ d.gs.event = .anteRequested ∨ d.gs.event = .blindsRequested)) ∨
  (d.gs.event = .roundStarted ∧ ∃ a x, op = .act none a x)

theorem Post_event {d : D} {e : Game} (hp : Post d e) : d.gs.event = e.event := by
  have h := congrArg Game.event (Post_clr hp)
  exact h

theorem backend_answer {g0 : Game} (h0 : Start0 g0) {d : D} {ops : List Op} {e : Game} (hh : Hist g0 ops e) (hp : Post d e)
    (op : Op) (hperf : Performs d op) :
    (∀ s, backend d.gs op = .ok s → ∃ e1, Hist g0 (ops ++ [op]) e1 ∧ s = e1.hop) ∧
    backend d.gs op = backend e.hop op ∧
    ((∀ a x, op ≠ .act none a x) → ∃ s, backend d.gs op = .ok s) := by
  have hR := hh.reach h0
  have hev := Post_event hp
  rcases hperf with ⟨G, hG, hGc, rfl, hreq⟩ | ⟨hrs, a, x, rfl⟩
  · rw [hev] at hreq
    cases ha : arm e.hop with
    | none => exact absurd ha (arm_isSome (flow_reachable hR) hreq)
    | some t =>
      obtain ⟨g', m, grp⟩ := t
      have p3 := hp.2.2
      simp only [ha] at p3
      obtain ⟨q1, q2, G', q3, q4, q5, q6⟩ := p3
      rw [hG] at q3
      cases q3
      obtain ⟨f1, f2⟩ := fire_ok hR ha
      rw [q1, q4]
      have hbh : backend e.hop (fireOp grp.fire) = .ok (e.step (fireOp grp.fire)).1.hop := by
        rw [backend_hop]
        revert f1
        generalize e.step (fireOp grp.fire) = y
        obtain ⟨y1, y2⟩ := y
        intro f1; simp only at f1; subst f1; rfl
      refine ⟨?_, by rw [f2, hbh], fun _ => ⟨_, f2⟩⟩
      intro s hs
      rw [f2] at hs
      cases hs
      exact ⟨_, Hist.snoc _ hh f1, rfl⟩
  · rw [hev] at hrs
    have hgs := Post_exact hp (by rw [hrs]; simp) (by rw [hrs]; simp)
    rw [hgs]
    refine ⟨?_, rfl, fun h => absurd rfl (h a x)⟩
    intro s hs
    rw [backend_hop] at hs
    have hsn := fun h => Hist.snoc (.act none a x) hh h
    revert hs hsn
    generalize e.step (.act none a x) = y
    obtain ⟨y1, y2⟩ := y
    intro hs hsn
    cases y2 with
    | some err => cases hs
    | none =>
      simp only at hs
      cases hs
      exact ⟨_, hsn rfl, rfl⟩

/-- when a wrapper reaches the backend, the caller is the player to act -/
theorem act_for_caller {g0 : Game} (h0 : Start0 g0) {d : D} {ops : List Op} {e : Game} (hh : Hist g0 ops e) (hp : Post d e)
    (i : Nat) (a : Act) (hal : hasAction d i a = true)
    (hc : ¬(a = .pay ∧ (d.gs.event = .anteRequested ∨ d.gs.event = .blindsRequested))) :
    i = d.gs.cur ∧ d.gs.event = .roundStarted := by
  have hR := hh.reach h0
  unfold hasAction at hal
  cases ha : arm e.hop with
  | some t =>
    obtain ⟨g', m, grp⟩ := t
    have hgs : d.gs = g' := by
      have := hp.2.2
      simp only [ha] at this
      exact this.1
    exfalso
    have hne : e.event ≠ .roundStarted := by
      rcases (arm_event ha).2 with h | h | h <;> rw [show e.hop.event = e.event from rfl] at h <;> rw [h] <;> simp
    have hna := (C04.one_actor hR).2 hne
    rw [hgs] at hal hc
    exact hc (arm_allows hna ha i a hal)
  | none =>
    have hgs : d.gs = e.hop := by
      have := hp.2.2
      simp only [ha] at this
      exact this.1
    rw [hgs] at hal ⊢
    have hal' : e.allows i a = true := hal
    unfold Game.allows at hal'
    cases hpi : e.players[i]? with
    | none => simp [hpi] at hal'
    | some p =>
      simp only [hpi] at hal'
      by_cases hrs : e.event = .roundStarted
      · refine ⟨?_, hrs⟩
        by_cases hi : i = e.cur
        · exact hi
        · have := ((C04.one_actor hR).1 hrs).2 i p hpi hi
          rw [this] at hal'; simp at hal'
      · have := (C04.one_actor hR).2 hrs p (List.mem_of_getElem? hpi)
        rw [this] at hal'; simp at hal'

end Pokerface.Drv
