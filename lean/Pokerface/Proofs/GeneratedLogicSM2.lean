import Pokerface.Proofs.SMNext
import Pokerface.Generated.LogicSM2
/-
  K1, translated logic (seat manager, the core): seat_manager/seat_manager.go `nextDealer`, `renewSeatStatus`,
  `findActivePlayer`, `getNormalizeSeats`, `getPlayableSeat`, the counters, `getAvailableSeats`, `getSeat`, `resetSeat` / `Reset`,
  `ApplyStates`, the position getters and the locked wrappers of the queries, translated by `harness/cmd/genlogic` (group "SM2",
  Generated/LogicSM2.lean, regenerated on every run), equal to the functions of Model/SeatManager.lean.

  Reading (harness/cmd/genlogic/sm2.go): a seat pointer is a seat id (`S := Nat`), a nil pointer `none`, the seat map the model
  state (`ST := SM`); a loop of the Go code is the fold (`loopAll`, `loopBreak`, `findLoop`, `normLoop` below) of its translated
  iteration over the seats it ranges over; the three flags an iteration reads of seat `i` are `sActive`, `sReserved`,
  `sHasPlayer` (a seat id outside the seat list — never the case in the Go code, where the seats are the values of the map — reads
  as an inactive free seat, as the model's `playable` does).  A panic of a slice expression is `none`.
-/
set_option linter.unusedSimpArgs false
set_option linter.unusedVariables false
namespace Pokerface.GeneratedLogic
open Pokerface Generated.Logic

/-! ### the readings of a seat and of the loops -/

/-- `s.IsActive` of seat `i` -/
def sActive (st : SM) (i : Nat) : Bool := (st.seats[i]?.map (·.active)).getD false
/-- `s.IsReserved` of seat `i` -/
def sReserved (st : SM) (i : Nat) : Bool := (st.seats[i]?.map (·.reserved)).getD false
/-- `s.Player != nil` of seat `i` -/
def sHasPlayer (st : SM) (i : Nat) : Bool := (st.seats[i]?.bind (·.player)).isSome

theorem playable_flags (st : SM) (i : Nat) :
    st.playable i = (sActive st i && !sReserved st i && sHasPlayer st i) := by
  unfold SM.playable sActive sReserved sHasPlayer
  cases st.seats[i]? with
  | none => rfl
  | some s => simp

/-- a loop `for _, s := range ids { s.IsActive = step(s) }` that runs to the end -/
def loopAll (step : Bool → Bool → Bool → Bool) (st : SM) (ids : List Nat) : SM :=
  st.modAll ids fun s => { s with active := step s.active s.reserved s.player.isSome }

/-- a loop `for _, s := range ids { … }` whose iteration says whether the loop goes on (`break`): the flag `IsActive` the
    iteration leaves is written in either case -/
def loopBreak (step : Nat → Bool → Bool → Bool → Bool × Bool) : List Nat → SM → SM
  | [], st => st
  | i :: is, st =>
    let st' := st.modSeat i fun s => { s with active := (step i s.active s.reserved s.player.isSome).2 }
    if (step i (sActive st i) (sReserved st i) (sHasPlayer st i)).1 then loopBreak step is st' else st'

theorem modSeat_self (st : SM) (i : Nat) : st.modSeat i (fun s => s) = st := by
  cases st with
  | mk max seats dealer sb bb =>
    simp only [SM.modSeat]
    congr 1
    apply List.ext_getElem?
    intro j
    rw [List.getElem?_modify]
    split <;> simp

/-- a loop that breaks at the first seat equal to `b` and applies `f` to the seats before it -/
theorem loopBreak_takeWhile (step : Nat → Bool → Bool → Bool → Bool × Bool) (p : Nat → Bool) (f : Seat → Seat)
    (hgo : ∀ i a r h, (step i a r h).1 = p i)
    (hon : ∀ i (s : Seat), p i = true → { s with active := (step i s.active s.reserved s.player.isSome).2 } = f s)
    (hoff : ∀ i a r h, p i = false → (step i a r h).2 = a)
    (ids : List Nat) (st : SM) :
    loopBreak step ids st = st.modAll (ids.takeWhile p) f := by
  induction ids generalizing st with
  | nil => rfl
  | cons i is ih =>
    unfold loopBreak
    simp only [hgo]
    by_cases hp : p i = true
    · have hf : (fun s : Seat => { s with active := (step i s.active s.reserved s.player.isSome).2 }) = f := by
        funext s; exact hon i s hp
      simp only [hp, if_true, List.takeWhile_cons_of_pos, SM.modAll_cons, hf, ih]
    · have hp' : p i = false := by simpa using hp
      have hf : (fun s : Seat => { s with active := (step i s.active s.reserved s.player.isSome).2 }) = fun s => s := by
        funext s; rw [hoff i _ _ _ hp']
      simp [hp', hf, modSeat_self]

/-! ### the slice expressions -/

theorem sliceFrom_one {α : Type} (l : List α) : sm2SliceFrom l 1 = if l.isEmpty then none else some (l.drop 1) := by
  unfold sm2SliceFrom
  cases l with
  | nil => simp
  | cons a l => simp; omega

theorem sliceFrom_nat {α : Type} (l : List α) (k : Nat) (h : k ≤ l.length) : sm2SliceFrom l (k : Int) = some (l.drop k) := by
  unfold sm2SliceFrom
  have : ¬ ((k : Int) < 0 ∨ (k : Int) > (l.length : Int)) := by omega
  rw [if_neg this]; simp

theorem sliceFrom_neg {α : Type} (l : List α) : sm2SliceFrom l (-1) = none := by
  unfold sm2SliceFrom; simp

@[simp] theorem orPanic_none {α β : Type} (p : β) (k : α → β) : sm2OrPanic none p k = p := rfl
@[simp] theorem orPanic_some {α β : Type} (x : α) (p : β) (k : α → β) : sm2OrPanic (some x) p k = k x := rfl

/-! ### `getSeat`, the position getters, the queries under the read lock -/

/-- seat_manager.go `getSeat`: the seat of the map, nil when there is none -/
theorem sm2SeatLookup_eq (sm : SM) (i : Nat) :
    sm2SeatLookup (sm.seats[i]?).isSome i = if i < sm.seats.length then some i else none := by
  unfold sm2SeatLookup
  by_cases h : i < sm.seats.length
  · simp [h]
  · simp [h, List.getElem?_eq_none (by omega : sm.seats.length ≤ i)]

/-- seat_manager.go `Dealer`, `SmallBlind`, `BigBlind`: each returns its own pointer -/
theorem sm2Getters_eq (sm : SM) :
    sm2Dealer sm.dealer sm.sb sm.bb = sm.dealer ∧ sm2SmallBlind sm.dealer sm.sb sm.bb = sm.sb ∧
      sm2BigBlind sm.dealer sm.sb sm.bb = sm.bb := ⟨rfl, rfl, rfl⟩

/-- seat_manager.go, the queries under the read lock: each is answered by the internal function of the same name -/
theorem sm2Queries_eq :
    sm2QGetSeat = ["sm.getSeat(id)"] ∧ sm2QGetNormalizeSeats = ["sm.getNormalizeSeats(startID)"] ∧
    sm2QGetAvailableSeats = ["sm.getAvailableSeats()"] ∧ sm2QGetAvailableSeatCount = ["sm.getAvailableSeatCount()"] ∧
    sm2QGetPlayableSeats = ["sm.getPlayableSeats()"] ∧ sm2QGetPlayableSeatCount = ["sm.getPlayableSeatCount()"] ∧
    sm2QGetPlayerCount = ["sm.getPlayerCount()"] := by
  decide

/-! ### the counters, `getPlayableSeat`, `getAvailableSeats` -/

theorem foldl_count {α : Type} (p : α → Bool) (l : List α) (c : Int) :
    l.foldl (fun c a => if p a then c + 1 else c) c = c + ((l.filter p).length : Int) := by
  induction l generalizing c with
  | nil => simp
  | cons a l ih =>
    by_cases h : p a = true
    · simp [ih, h, List.filter_cons]; omega
    · simp [ih, h, List.filter_cons]

/-- seat_manager.go `getPlayableSeatCount`: the translated iteration over the seats 0 … max-1 -/
theorem sm2PlayableCount_eq (sm : SM) :
    (sm.playableCount : Int) =
      (List.range sm.max).foldl (fun c i => sm2PlayableCountStep (sActive sm i) (sReserved sm i) (sHasPlayer sm i) c) 0 := by
  have h : ∀ (c : Int) (i : Nat), sm2PlayableCountStep (sActive sm i) (sReserved sm i) (sHasPlayer sm i) c =
      if sm.playable i then c + 1 else c := by
    intro c i; rw [playable_flags]; unfold sm2PlayableCountStep; rfl
  simp only [h, foldl_count, SM.playableCount]
  simp

/-- seat_manager.go `getNonEmptySeatCount`: the translated iteration over the seats -/
theorem sm2NonEmptyCount_eq (sm : SM) :
    (sm.nonEmptyCount : Int) =
      sm.seats.foldl (fun c s => sm2NonEmptyCountStep s.active s.reserved s.player.isSome c) 0 := by
  have h : ∀ (c : Int) (s : Seat), sm2NonEmptyCountStep s.active s.reserved s.player.isSome c =
      if (!s.reserved && s.player.isSome) then c + 1 else c := by
    intro c s; unfold sm2NonEmptyCountStep; rfl
  simp only [h, foldl_count, SM.nonEmptyCount]
  simp

/-- seat_manager.go `getPlayerCount`: the translated iteration over the seats -/
theorem sm2PlayerCount_eq (sm : SM) :
    (sm.playerCount : Int) =
      sm.seats.foldl (fun c s => sm2PlayerCountStep s.active s.reserved s.player.isSome c) 0 := by
  have h : ∀ (c : Int) (s : Seat), sm2PlayerCountStep s.active s.reserved s.player.isSome c =
      if s.player.isSome then c + 1 else c := by
    intro c s; unfold sm2PlayerCountStep; rfl
  simp only [h, foldl_count, SM.playerCount]
  simp

theorem range_map_getElem?' {α} (l : List α) : (List.range l.length).map (fun i => l[i]?) = l.map some := by
  apply List.ext_getElem?
  intro i
  by_cases h : i < l.length
  · simp [h]
  · simp [h, List.getElem?_eq_none (by omega : l.length ≤ i)]

/-- the Go loops run over the indices 0 … max-1; on a well-formed state that is the iteration over the seat list -/
theorem range_fold_eq_seats_fold {β : Type} (sm : SM) (hw : sm.WF) (f : Bool → Bool → Bool → β → β) (c : β) :
    (List.range sm.max).foldl (fun c i => f (sActive sm i) (sReserved sm i) (sHasPlayer sm i) c) c =
      sm.seats.foldl (fun c s => f s.active s.reserved s.player.isSome c) c := by
  have h1 : (List.range sm.max).foldl (fun c i => f (sActive sm i) (sReserved sm i) (sHasPlayer sm i) c) c =
      ((List.range sm.max).map (fun i => sm.seats[i]?)).foldl (fun c o =>
        f ((o.map (·.active)).getD false) ((o.map (·.reserved)).getD false) ((o.bind (·.player)).isSome) c) c := by
    rw [List.foldl_map]; rfl
  rw [h1, ← hw, range_map_getElem?', List.foldl_map]
  rfl

theorem find?_eq_findSome? {α : Type} (p : α → Bool) (l : List α) :
    l.find? p = l.findSome? (fun a => if p a then some a else none) := by
  induction l with
  | nil => rfl
  | cons a l ih => by_cases h : p a = true <;> simp [List.find?_cons, List.findSome?_cons, h, ih]

/-- seat_manager.go `getPlayableSeat`: the first seat at which the translated iteration returns -/
theorem sm2PlayableSeat_eq (sm : SM) :
    sm.firstPlayable =
      (List.range sm.max).findSome? (fun i => sm2PlayableSeatStep i (sActive sm i) (sReserved sm i) (sHasPlayer sm i)) := by
  have h : ∀ i : Nat, sm2PlayableSeatStep i (sActive sm i) (sReserved sm i) (sHasPlayer sm i) =
      if sm.playable i then some i else none := by
    intro i; rw [playable_flags]; unfold sm2PlayableSeatStep; rfl
  simp only [h, SM.firstPlayable, find?_eq_findSome?]

/-- `free` of the model's `availableSeats` -/
def sFree (sm : SM) (i : Nat) : Bool :=
  match sm.seats[i]? with
  | some s => !s.reserved && s.player.isNone
  | none => false

theorem foldl_available (sm : SM) (l : List Nat) (a b : List Nat) :
    l.foldl (fun acc i => match sm.seats[i]? with
        | some s => sm2AvailableSeatsStep i s.active s.reserved s.player.isSome acc.1 acc.2
        | none => acc) (a, b) =
      (a ++ (l.filter (sFree sm)).filter (fun i => sActive sm i), b ++ (l.filter (sFree sm)).filter (fun i => !sActive sm i)) := by
  induction l generalizing a b with
  | nil => simp
  | cons i l ih =>
    rw [List.foldl_cons]
    have hstep : (match sm.seats[i]? with
        | some s => sm2AvailableSeatsStep i s.active s.reserved s.player.isSome a b
        | none => (a, b)) =
        if sFree sm i then (if sActive sm i then (a ++ [i], b) else (a, b ++ [i])) else (a, b) := by
      unfold sm2AvailableSeatsStep sFree sActive
      cases sm.seats[i]? with
      | none => simp
      | some s => rcases s with ⟨pl, ac, re⟩; cases pl <;> cases ac <;> cases re <;> simp
    simp only [hstep]
    by_cases hf : sFree sm i = true
    · by_cases ha : sActive sm i = true
      · simp [hf, ha, ih, List.filter_cons]
      · simp [hf, ha, ih, List.filter_cons]
    · simp [hf, ih, List.filter_cons]

/-- seat_manager.go `getAvailableSeats`: the translated iteration over the seats of the map (the Go code ranges over the map:
    the model lists the seats in ascending order, DESIGN §4) -/
theorem sm2AvailableSeats_eq (sm : SM) :
    sm.availableSeats =
      (List.range sm.max).foldl (fun acc i => match sm.seats[i]? with
        | some s => sm2AvailableSeatsStep i s.active s.reserved s.player.isSome acc.1 acc.2
        | none => acc) ([], []) := by
  rw [foldl_available]
  unfold SM.availableSeats
  simp only [List.nil_append]
  rfl

/-- seat_manager.go `getAvailableSeatCount`: the number of active free seats -/
theorem sm2AvailableCount_eq (sm : SM) :
    (sm.availableSeats.1.length : Int) =
      (List.range sm.max).foldl (fun c i => sm2AvailableCountStep (sActive sm i) (sReserved sm i) (sHasPlayer sm i) c) 0 := by
  have h : ∀ (c : Int) (i : Nat), sm2AvailableCountStep (sActive sm i) (sReserved sm i) (sHasPlayer sm i) c =
      if (sFree sm i && sActive sm i) then c + 1 else c := by
    intro c i
    unfold sm2AvailableCountStep sFree sActive sReserved sHasPlayer
    cases sm.seats[i]? with
    | none => simp
    | some s => rcases s with ⟨pl, ac, re⟩; cases pl <;> cases ac <;> cases re <;> simp
  simp only [h, foldl_count]
  unfold SM.availableSeats
  simp only [List.filter_filter]
  simp only [sFree, sActive, Bool.and_comm, Int.zero_add]
  congr 2

/-! ### `findActivePlayer`, `getNormalizeSeats` -/

/-- the loop of `findActivePlayer`: the first iteration that returns -/
def findLoop (st : SM) : List Nat → Nat → Option (Option Nat × Int)
  | [], _ => none
  | i :: is, k =>
    match sm2FindActiveStep i (k : Int) (sActive st i) (sReserved st i) (sHasPlayer st i) with
    | some r => some r
    | none => findLoop st is (k + 1)

/-- `findActivePlayer` as translated: the function around the loop, applied to the loop -/
def findActiveT (st : SM) (ids : List Nat) : Option Nat × Int := sm2FindActive (findLoop st ids 0)

theorem findStep_closed (st : SM) (i : Nat) (k : Int) :
    sm2FindActiveStep i k (sActive st i) (sReserved st i) (sHasPlayer st i) =
      if st.playable i then some (some i, k) else none := by
  rw [playable_flags]; unfold sm2FindActiveStep
  cases sActive st i <;> cases sReserved st i <;> cases sHasPlayer st i <;> rfl

theorem findLoop_eq (st : SM) (ids : List Nat) (k : Nat) :
    findLoop st ids k = (SM.findActive.go st ids k).map (fun p => (some p.1, (p.2 : Int))) := by
  induction ids generalizing k with
  | nil => rfl
  | cons i is ih =>
    unfold findLoop SM.findActive.go
    rw [findStep_closed]
    by_cases h : st.playable i = true <;> simp [h, ih]

/-- seat_manager.go `findActivePlayer`: the first playable seat of the list and its position; `(nil, -1)` when there is none -/
theorem sm2FindActive_eq (st : SM) (ids : List Nat) :
    findActiveT st ids = match st.findActive ids with
      | some (d, k) => (some d, (k : Int))
      | none => (none, -1) := by
  unfold findActiveT sm2FindActive SM.findActive
  rw [findLoop_eq]
  cases SM.findActive.go st ids 0 with
  | none => rfl
  | some p => rfl

/-- the loop of `getNormalizeSeats`, `n` iterations from the seat id `cur` (the map has the keys 0 … len-1) -/
def normLoop (st : SM) : Nat → Int → List Nat → List Nat
  | 0, _, seats => seats
  | n + 1, cur, seats =>
    let r := sm2NormalizeStep (fun c => decide (0 ≤ c ∧ c.toNat < st.seats.length)) Int.toNat (st.max : Int) cur seats
    normLoop st n r.2 r.1

/-- `getNormalizeSeats` as translated -/
def normalizeT (st : SM) (start : Int) : List Nat := sm2Normalize (normLoop st st.max) start

theorem normLoop_eq (st : SM) (hw : st.WF) (n cur : Nat) (hc : cur < st.max) (seats : List Nat) :
    normLoop st n (cur : Int) seats = seats ++ (List.range n).map (fun k => (cur + k) % st.max) := by
  induction n generalizing cur seats with
  | zero => simp [normLoop]
  | succ n ih =>
    unfold normLoop
    have hlt : cur < st.seats.length := by rw [hw]; exact hc
    have hp : decide (0 ≤ (cur : Int) ∧ (cur : Int).toNat < st.seats.length) = true := by
      simp [hlt]
    have hstep : sm2NormalizeStep (fun c => decide (0 ≤ c ∧ c.toNat < st.seats.length)) Int.toNat (st.max : Int) (cur : Int) seats =
        (seats ++ [cur], (((if cur + 1 = st.max then 0 else cur + 1 : Nat)) : Int)) := by
      unfold sm2NormalizeStep
      simp only [hp, if_true, Int.toNat_natCast]
      by_cases h : cur + 1 = st.max
      · have : ((cur : Int) + 1 == (st.max : Int)) = true := by simp; omega
        simp [h, this, hlt]
      · have : ((cur : Int) + 1 == (st.max : Int)) = false := by simp; omega
        simp [h, this, hlt]
    simp only [hstep]
    rw [ih _ (by split <;> omega)]
    rw [List.range_succ_eq_map, List.map_cons, List.map_map, List.append_assoc]
    congr 1
    simp only [List.singleton_append, Nat.add_zero, Nat.mod_eq_of_lt hc]
    congr 1
    apply List.map_congr_left
    intro k _
    simp only [Function.comp]
    by_cases h : cur + 1 = st.max
    · simp only [h, if_true]
      rw [← h]
      have : cur + (k + 1) = (cur + 1) + k := by omega
      rw [this, Nat.add_mod_left]
      simp
    · simp only [h, if_false]
      congr 1; omega

/-- seat_manager.go `getNormalizeSeats` on a well-formed state, from a seat of the table: the seat ids in table order -/
theorem sm2Normalize_eq (st : SM) (hw : st.WF) (start : Nat) (h : start < st.max) :
    normalizeT st (start : Int) = st.normalize start := by
  unfold normalizeT sm2Normalize
  simp only [normLoop_eq st hw _ _ h, List.nil_append]
  rfl

/-! ### `nextDealer` -/

/-- seat_manager.go `nextDealer` as translated: the state-reading calls are the model's functions (each tied to its own
    translation above), the three loops the folds of their translated iterations; result: (seats, `sm.dealer`, returned pointer) -/
def nextDealerT (sm : SM) : Option (SM × Option Nat × Option Nat) :=
  sm2NextDealer (fun st => (st.playableCount : Int)) (fun st => (st.nonEmptyCount : Int)) (fun st => (st.playerCount : Int))
    (fun st => (st.availableSeats.1.length : Int)) SM.firstPlayable
    (fun st k => st.normalize k.toNat) (fun o => ((o.getD 0 : Nat) : Int)) findActiveT
    (loopAll sm2NextDealerOccStep)
    (fun st ids dealer smDealer => loopBreak (fun i => sm2NextDealerPassStep i dealer smDealer) ids st)
    (loopAll sm2NextDealerAllStep) sm sm.dealer

theorem loopOcc_eq (st : SM) (ids : List Nat) : loopAll sm2NextDealerOccStep st ids = st.modAll ids SM.actvOcc := by
  unfold loopAll
  congr 1
  funext s
  rcases s with ⟨pl, ac, re⟩
  cases pl <;> cases ac <;> cases re <;> rfl

theorem loopAllAct_eq (st : SM) (ids : List Nat) : loopAll sm2NextDealerAllStep st ids = st.modAll ids SM.actv := rfl

theorem loopPass_eq (st : SM) (ids : List Nat) (d : Nat) (smDealer : Option Nat) :
    loopBreak (fun i => sm2NextDealerPassStep i (some d) smDealer) ids st = st.modAll (ids.takeWhile (· != d)) SM.actv := by
  apply loopBreak_takeWhile
  · intro i a r h
    unfold sm2NextDealerPassStep
    by_cases hid : i = d <;> simp [hid]
  · intro i s hp
    unfold sm2NextDealerPassStep
    have : ¬ i = d := by simpa using hp
    simp [this, SM.actv]
  · intro i a r h hp
    unfold sm2NextDealerPassStep
    have : i = d := by simpa using hp
    simp [this]

/-- before the first playable seat of a list no seat equals it -/
theorem takeWhile_of_findActive {sm : SM} {ids : List Nat} {d k : Nat} (h : sm.findActive ids = some (d, k)) :
    ids.takeWhile (· != d) = ids.take k := by
  obtain ⟨hget, hp, hall⟩ := (SM.findActive_some sm ids d k).mp h
  clear h
  induction ids generalizing k with
  | nil => simp
  | cons a l ih =>
    cases k with
    | zero => simp at hget; subst hget; simp
    | succ k =>
      have hne : a ≠ d := by
        intro had; subst had
        have := hall 0 (by omega) a (by simp)
        simp [hp] at this
      simp only [List.takeWhile_cons, List.take_succ_cons]
      have : (a != d) = true := by simpa using hne
      simp only [this, if_true]
      congr 1
      apply ih (by simpa using hget)
      intro j hj x hx
      exact hall (j + 1) (by omega) x (by simpa using hx)

theorem setDealer_back (X : SM) (d d0 : Option Nat) (h : X.dealer = d0) :
    ({ ({ X with dealer := d } : SM) with dealer := d0 } : SM) = X := by
  cases X; simp at h; subst h; rfl

theorem firstPlayable_of_count_one (sm : SM) (h : sm.playableCount = 1) : ∃ d, sm.firstPlayable = some d := by
  unfold SM.playableCount at h
  unfold SM.firstPlayable
  cases hf : (List.range sm.max).find? sm.playable with
  | some d => exact ⟨d, rfl⟩
  | none =>
    rw [List.find?_eq_none] at hf
    have : (List.range sm.max).filter sm.playable = [] := by
      rw [List.filter_eq_nil_iff]; exact hf
    rw [this] at h; simp at h

theorem normalize_length (sm : SM) (d : Nat) : (sm.normalize d).length = sm.max := by simp [SM.normalize]

/-- the part of `nextDealer` after the scan list is chosen -/
theorem nextDealer_scan (sm : SM) (ids : List Nat) (smDealer : Option Nat) :
    (if (findActiveT sm ids).1.isSome then
        some (loopBreak (fun i => sm2NextDealerPassStep i (findActiveT sm ids).1 smDealer) ids sm, (findActiveT sm ids).1, (findActiveT sm ids).1)
      else
        some (loopAll sm2NextDealerAllStep sm ids, (findActiveT (loopAll sm2NextDealerAllStep sm ids) ids).1,
          (findActiveT (loopAll sm2NextDealerAllStep sm ids) ids).1)) =
      match sm.findActive ids with
      | some (d, k) => some (sm.modAll (ids.take k) SM.actv, some d, some d)
      | none =>
        match (sm.modAll ids SM.actv).findActive ids with
        | some (d, _) => some (sm.modAll ids SM.actv, some d, some d)
        | none => some (sm.modAll ids SM.actv, none, none) := by
  rw [sm2FindActive_eq]
  cases hf : sm.findActive ids with
  | some p =>
    obtain ⟨d, k⟩ := p
    simp only [Option.isSome_some, if_true, loopPass_eq, takeWhile_of_findActive hf]
  | none =>
    simp only [Option.isSome_none, Bool.false_eq_true, if_false, loopAllAct_eq, sm2FindActive_eq]
    cases (sm.modAll ids SM.actv).findActive ids with
    | some p => rfl
    | none => rfl

/-- what the Go function leaves, read off the model's result: the seats (the field `dealer` of the state is not the seats'
    business: it keeps the value `d0` it had), `sm.dealer`, the returned pointer (`found` = it is not nil) -/
def ndResult (r : SM × Bool) (d0 : Option Nat) : SM × Option Nat × Option Nat :=
  ({ r.1 with dealer := d0 }, r.1.dealer, if r.2 then r.1.dealer else none)

theorem ndResult_set (X : SM) (d d0 : Option Nat) (b : Bool) (h : X.dealer = d0) :
    ndResult ({ X with dealer := d }, b) d0 = (X, d, if b then d else none) := by
  cases X; simp at h; subst h; rfl

theorem modAll_setDealer (sm : SM) (x : Option Nat) (ids : List Nat) (f : Seat → Seat) :
    ({ sm with dealer := x } : SM).modAll ids f = { sm.modAll ids f with dealer := x } := by
  induction ids generalizing sm with
  | nil => rfl
  | cons i is ih => simp only [SM.modAll_cons]; exact ih (sm.modSeat i f)

theorem nextDealer_model_scan (sm : SM) (h1 : ¬ sm.playableCount = 1) :
    ndResult sm.nextDealer sm.dealer =
      match sm.findActive sm.scanIds with
      | some (d, k) => (sm.modAll (sm.scanIds.take k) SM.actv, some d, some d)
      | none =>
        match (sm.modAll sm.scanIds SM.actv).findActive sm.scanIds with
        | some (d, _) => (sm.modAll sm.scanIds SM.actv, some d, some d)
        | none => (sm.modAll sm.scanIds SM.actv, none, none) := by
  rw [SM.nextDealer_eq]
  simp only [h1, if_false]
  cases sm.findActive sm.scanIds with
  | some p => obtain ⟨d, k⟩ := p; exact ndResult_set _ _ _ _ (by simp)
  | none =>
    simp only
    cases (sm.modAll sm.scanIds SM.actv).findActive sm.scanIds with
    | some p => obtain ⟨d, k⟩ := p; exact ndResult_set _ _ _ _ (by simp)
    | none => exact ndResult_set _ _ _ _ (by simp)

/-- seat_manager.go `nextDealer`: the seats, `sm.dealer` and the returned pointer are those of the model (`found` = the pointer
    is not nil); with no seats at all and a button set, `seats[1:]` panics (not a state of the model's domain) -/
theorem sm2NextDealer_eq (sm : SM) :
    nextDealerT sm =
      if sm.max = 0 ∧ sm.dealer.isSome then none else some (ndResult sm.nextDealer sm.dealer) := by
  unfold nextDealerT sm2NextDealer
  by_cases h1 : sm.playableCount = 1
  · have h1' : ((sm.playableCount : Int) == 1) = true := by simp [h1]
    have hmax : ¬ sm.max = 0 := by have := SM.playableCount_le_max sm; omega
    simp only [h1', if_true, hmax, false_and, if_false]
    by_cases h2 : sm.nonEmptyCount ≤ 1
    · have h2' : decide ((sm.nonEmptyCount : Int) ≤ 1) = true := by simp; omega
      have hm : sm.nextDealer = (sm, false) := by rw [SM.nextDealer_eq]; simp [h1, h2]
      simp only [h2', if_true, hm]
      cases sm; rfl
    · have h2' : decide ((sm.nonEmptyCount : Int) ≤ 1) = false := by simp; omega
      obtain ⟨d, hd⟩ := firstPlayable_of_count_one sm h1
      have hne : (sm.normalize d).isEmpty = false := by
        have := normalize_length sm d
        cases hn : sm.normalize d with
        | nil => rw [hn] at this; simp at this; omega
        | cons a l => rfl
      have hm : sm.nextDealer = ({ sm.modAll ((sm.normalize d).drop 1) SM.actvOcc with dealer := some d }, true) := by
        rw [SM.nextDealer_eq]; simp only [h1, h2, if_true, if_false, hd, modAll_setDealer]
      simp only [h2', if_false, Bool.false_eq_true, hd, Option.getD_some, Int.toNat_natCast, sliceFrom_one, hne, loopOcc_eq, hm, orPanic_some]
      rw [ndResult_set _ _ _ _ (by simp)]
      rfl
  · have h1' : ((sm.playableCount : Int) == 1) = false := by simp; omega
    simp only [h1', if_false, Bool.false_eq_true]
    rw [nextDealer_model_scan sm h1]
    cases hd : sm.dealer with
    | none =>
      have hs : sm.scanIds = sm.normalize 0 := by unfold SM.scanIds; rw [hd]
      simp only [Option.isSome_none, Bool.not_false, if_true, and_false, if_false, Bool.false_eq_true]
      have := nextDealer_scan sm (sm.normalize 0) none
      simp only [Int.toNat_zero] 
      rw [this, hs]
      cases sm.findActive (sm.normalize 0) with
      | some p => rfl
      | none =>
        simp only
        cases (sm.modAll (sm.normalize 0) SM.actv).findActive (sm.normalize 0) with
        | some p => rfl
        | none => rfl
    | some d0 =>
      have hs : sm.scanIds = (sm.normalize d0).drop 1 := by unfold SM.scanIds; rw [hd]
      simp only [Option.isSome_some, Bool.not_true, Bool.false_eq_true, if_false, and_true, Option.getD_some, Int.toNat_natCast,
        sliceFrom_one]
      by_cases hmax : sm.max = 0
      · have : (sm.normalize d0).isEmpty = true := by
          have := normalize_length sm d0
          cases hn : sm.normalize d0 with
          | nil => rfl
          | cons a l => rw [hn] at this; simp at this; omega
        simp [hmax, this]
      · have hne : (sm.normalize d0).isEmpty = false := by
          have := normalize_length sm d0
          cases hn : sm.normalize d0 with
          | nil => rw [hn] at this; simp at this; omega
          | cons a l => rfl
        simp only [hmax, hne, if_false, Bool.false_eq_true, orPanic_some]
        have := nextDealer_scan sm ((sm.normalize d0).drop 1) (some d0)
        rw [this, hs]
        cases sm.findActive ((sm.normalize d0).drop 1) with
        | some p => rfl
        | none =>
          simp only
          cases (sm.modAll ((sm.normalize d0).drop 1) SM.actv).findActive ((sm.normalize d0).drop 1) with
          | some p => rfl
          | none => rfl

/-! ### `renewSeatStatus` -/

/-- seat_manager.go `renewSeatStatus` as translated; result: (seats, `sm.sb`, `sm.bb`), `none` = panic -/
def renewT (sm : SM) : Option (SM × Option Nat × Option Nat) :=
  sm2Renew (fun st => (st.playableCount : Int)) (fun st => (st.nonEmptyCount : Int)) (fun st => (st.playerCount : Int))
    (fun st => (st.availableSeats.1.length : Int)) SM.firstPlayable
    (fun st k => st.normalize k.toNat) (fun o => ((o.getD 0 : Nat) : Int)) findActiveT
    (fun st ids dealer sb bb => loopBreak (fun i => sm2RenewDeactStep i dealer sb bb) ids st)
    (loopAll sm2RenewActStep) sm sm.dealer sm.sb sm.bb

theorem loopDeact_eq (st : SM) (ids : List Nat) (b : Nat) (dl sb : Option Nat) :
    loopBreak (fun i => sm2RenewDeactStep i dl sb (some b)) ids st = st.modAll (ids.takeWhile (· != b)) SM.deact := by
  apply loopBreak_takeWhile
  · intro i a r h
    unfold sm2RenewDeactStep
    by_cases hid : i = b <;> cases h <;> simp [hid]
  · intro i s hp
    unfold sm2RenewDeactStep
    have : ¬ i = b := by simpa using hp
    rcases s with ⟨pl, ac, re⟩
    cases pl <;> simp [this, SM.deact]
  · intro i a r h hp
    unfold sm2RenewDeactStep
    have : i = b := by simpa using hp
    simp [this]

theorem loopAct_eq (st : SM) (ids : List Nat) : loopAll sm2RenewActStep st ids = st.modAll ids SM.actv := rfl

/-- the seat list after a fold of seat updates depends on the seat list only -/
def seatsAll (seats : List Seat) (ids : List Nat) (f : Seat → Seat) : List Seat := ids.foldl (fun l i => l.modify i f) seats

theorem modAll_seats_eq (sm : SM) (ids : List Nat) (f : Seat → Seat) : (sm.modAll ids f).seats = seatsAll sm.seats ids f := by
  induction ids generalizing sm with
  | nil => rfl
  | cons i is ih => rw [SM.modAll_cons, ih]; rfl

theorem findActive_seats {X sm : SM} (h : X.seats = sm.seats) (ids : List Nat) : X.findActive ids = sm.findActive ids :=
  SM.findActive_congr ids (fun x _ => SM.playable_congr (by rw [h]))

/-- what the Go function writes, read off a state -/
def rnResult (r : SM) : List Seat × Option Nat × Option Nat := (r.seats, r.sb, r.bb)

/-- the same of the translated function's result -/
def rnGo (r : SM × Option Nat × Option Nat) : List Seat × Option Nat × Option Nat := (r.1.seats, r.2.1, r.2.2)

/-- the second half of `renewSeatStatus` (big blind, deactivation, activation) against the model's `renewTail` -/
theorem renew_tail (sm X : SM) (hX : X.seats = sm.seats) (orig seats : List Nat) (dl sbv : Option Nat) (hsb : X.sb = sbv) :
    (sm2OrPanic (sm2SliceFrom seats 1) none fun v_seats =>
        sm2OrPanic (sm2SliceFrom v_seats (findActiveT sm v_seats).snd) none fun v_seats_1 =>
          sm2OrPanic (sm2SliceFrom v_seats_1 1) none fun v_seats_2 =>
            some (loopAll sm2RenewActStep
                (loopBreak (fun i => sm2RenewDeactStep i dl sbv (findActiveT sm v_seats).fst) orig sm) v_seats_2,
              sbv, (findActiveT sm v_seats).fst)).map rnGo =
      (X.renewTail orig seats).map rnResult := by
  rw [sliceFrom_one]
  unfold SM.renewTail
  by_cases he : seats.isEmpty = true
  · simp [he]
  · simp only [he, if_false, Bool.false_eq_true, sm2FindActive_eq, findActive_seats hX, orPanic_some]
    cases hf : sm.findActive (seats.drop 1) with
    | none => simp [sliceFrom_neg]
    | some p =>
      obtain ⟨b, k⟩ := p
      have hk : k < (seats.drop 1).length := by
        have := ((SM.findActive_some sm _ b k).mp hf).1
        exact (List.getElem?_eq_some_iff.mp this).1
      have hne : ((seats.drop 1).drop k).isEmpty = false := by
        cases hn : (seats.drop 1).drop k with
        | nil =>
          have hl : ((seats.drop 1).drop k).length = (seats.drop 1).length - k := List.length_drop
          rw [hn] at hl; simp only [List.length_nil] at hl; omega
        | cons a l => rfl
      simp only [sliceFrom_nat _ k (Nat.le_of_lt hk), sliceFrom_one, hne, if_false, Bool.false_eq_true, loopDeact_eq, loopAct_eq,
        Option.map_some, rnResult, rnGo, orPanic_some]
      congr 1
      simp only [modAll_seats_eq, hX, SM.modAll_sb, SM.modAll_bb, hsb]

/-- seat_manager.go `renewSeatStatus` with a button set: it panics where the model says so, and the seats, `sm.sb`, `sm.bb` it
    leaves are the model's (`sm.max` and `sm.dealer` are not written) -/
theorem sm2Renew_eq (sm : SM) (d : Nat) (hd : sm.dealer = some d) :
    (renewT sm).map rnGo = sm.renewSeatStatus.map rnResult := by
  unfold renewT sm2Renew
  rw [SM.renewSeatStatus_eq]
  simp only [hd, Option.getD_some, Int.toNat_natCast]
  by_cases h2 : sm.playableCount = 2
  · have h2' : ((sm.playableCount : Int) == 2) = true := by simp [h2]
    simp only [h2', if_true]
    simp only [h2, if_true]
    exact renew_tail sm ({ sm with dealer := some d, sb := some d } : SM) rfl (sm.normalize d) (sm.normalize d) (some d) (some d) rfl
  · have h2' : ((sm.playableCount : Int) == 2) = false := by simp; omega
    simp only [h2', if_false, Bool.false_eq_true]
    simp only [h2, if_false]
    rw [sliceFrom_one (sm.normalize d)]
    by_cases he : (sm.normalize d).isEmpty = true
    · have : sm.normalize d = [] := by simpa using he
      simp [this, SM.findActive, SM.findActive.go]
    · simp only [he, if_false, Bool.false_eq_true, orPanic_some]
      rw [sm2FindActive_eq sm ((sm.normalize d).drop 1)]
      cases hf : sm.findActive ((sm.normalize d).drop 1) with
      | none => simp [sliceFrom_neg]
      | some p =>
        obtain ⟨s, k⟩ := p
        have hk : k < ((sm.normalize d).drop 1).length := by
          have := ((SM.findActive_some sm _ s k).mp hf).1
          exact (List.getElem?_eq_some_iff.mp this).1
        simp only [sliceFrom_nat _ k (Nat.le_of_lt hk), orPanic_some]
        exact renew_tail sm ({ sm with dealer := some d, sb := some s } : SM) rfl (sm.normalize d) (((sm.normalize d).drop 1).drop k) (some d) (some s) rfl

/-- seat_manager.go `renewSeatStatus` without a button: `sm.dealer.ID` dereferences nil (outside the translation); the model
    reports the panic -/
theorem sm2Renew_noDealer (sm : SM) (hd : sm.dealer = none) : sm.renewSeatStatus = none := by
  unfold SM.renewSeatStatus; rw [hd]

/-! ### `resetSeat` / `Reset`, `ApplyStates` -/

/-- seat_manager.go `resetSeat`: the seat written under the key `seatID` has that id, no player, is active and not reserved -/
theorem sm2ResetSeat_eq {I P : Type} (seatID id0 : I) (noPlayer player0 : P) :
    sm2ResetSeat seatID id0 noPlayer player0 = (seatID, noPlayer, true, false) := rfl

/-- seat_manager.go `Reset` (called by `NewSeatManager`): `resetSeat(i)` for every i < max — the model's `SM.new` -/
theorem sm2Reset_eq (max : Nat) :
    (∀ i : Int, sm2ResetStep i = [("resetSeat", i)]) ∧
    SM.new max = { max := max, seats := (List.range max).map fun i =>
      let r := sm2ResetSeat i 0 (none : Option Nat) (some 0)
      { player := r.2.1, active := r.2.2.1, reserved := r.2.2.2 } } := by
  refine ⟨fun i => rfl, ?_⟩
  unfold SM.new
  congr 1
  apply List.ext_getElem
  · simp
  · intro i h1 h2
    simp [sm2ResetSeat_eq]

/-- a position of the snapshot (`SeatManagerState.Dealer` …): the seat id, -1 for nil -/
def posInt (o : Option Nat) : Int :=
  match o with
  | some d => (d : Int)
  | none => -1

/-- `sm.seats[k]`: the seat with that key, nil when there is none -/
def seatAtT (st : SM) (k : Int) : Option Nat := if 0 ≤ k ∧ k.toNat < st.seats.length then some k.toNat else none

/-- the restore loop of `ApplyStates` over the seats 0 … max-1: the fold of the translated iteration (`snap`: `state.Seats`) -/
def restoreT (snap : List Seat) (st : SM) (max : Int) : SM :=
  (List.range max.toNat).foldl (fun st i => st.modSeat i fun s =>
    let n := snap[i]?.getD default
    let r := sm2ApplyStep s.player s.active s.reserved n.player n.active n.reserved
    { player := r.1, active := r.2.1, reserved := r.2.2 }) st

/-- seat_manager.go `ApplyStates` as translated, applied to the snapshot of the model state `snap` -/
def applyStatesT (target snap : SM) : SM :=
  let r := sm2ApplyStates seatAtT (restoreT snap.seats) (snap.max : Int) (posInt snap.dealer) (posInt snap.sb) (posInt snap.bb)
    target (target.max : Int) target.dealer target.sb target.bb
  { max := r.2.1.toNat, seats := r.1.seats, dealer := r.2.2.1, sb := r.2.2.2.1, bb := r.2.2.2.2 }

theorem foldl_modSeat_seats (g : Nat → Seat → Seat) (st : SM) (n j : Nat) :
    ((List.range n).foldl (fun st i => st.modSeat i (g i)) st).seats[j]? =
      if j < n then (st.seats[j]?).map (g j) else st.seats[j]? := by
  induction n with
  | zero => simp
  | succ n ih =>
    rw [List.range_succ, List.foldl_append, List.foldl_cons, List.foldl_nil, SM.modSeat_seats, ih]
    by_cases h1 : n = j
    · subst h1; simp
    · by_cases h2 : j < n
      · have : j < n + 1 := by omega
        simp [h1, h2, this]
      · have : ¬ j < n + 1 := by omega
        simp [h1, h2, this]

theorem restoreT_seats (snap : List Seat) (st : SM) (n : Nat) (hs : n ≤ snap.length) (ht : st.seats.length = n) :
    (restoreT snap st (n : Int)).seats = snap.take n := by
  apply List.ext_getElem?
  intro j
  unfold restoreT
  simp only [Int.toNat_natCast]
  show ((List.range n).foldl (fun st i => st.modSeat i ((fun i (_ : Seat) => snap[i]?.getD default) i)) st).seats[j]? = _
  rw [foldl_modSeat_seats (fun i _ => snap[i]?.getD default)]
  by_cases h : j < n
  · have h1 : j < st.seats.length := by omega
    have h2 : j < snap.length := by omega
    simp [h, h1, h2, List.getElem?_take]
  · have h1 : st.seats.length ≤ j := by omega
    simp [h, List.getElem?_take, List.getElem?_eq_none h1]

theorem seatAtT_pos (st : SM) (o : Option Nat) (h : ∀ d, o = some d → d < st.seats.length) :
    (if decide (posInt o ≥ 0) then seatAtT st (posInt o) else none) = o := by
  cases o with
  | none => simp [posInt]
  | some d =>
    have := h d rfl
    simp [posInt, seatAtT, this]

/-- seat_manager.go `ApplyStates`: applying the snapshot of a well-formed state `sm` (button and blinds on seats of the table)
    to a seat manager of the same size — a fresh one or `sm` itself — gives `sm` back: max, the three fields of every seat, the
    positions (restored only when ≥ 0) -/
theorem sm2ApplyStates_eq (sm target : SM) (hw : sm.WF) (ht : target.seats.length = sm.max)
    (hd : ∀ d, sm.dealer = some d → d < sm.max) (hs : ∀ d, sm.sb = some d → d < sm.max) (hb : ∀ d, sm.bb = some d → d < sm.max) :
    applyStatesT target sm = sm := by
  have hseats : (restoreT sm.seats target (sm.max : Int)).seats = sm.seats := by
    rw [restoreT_seats _ _ _ (by rw [hw]) ht, ← hw, List.take_length]
  have hlen : (restoreT sm.seats target (sm.max : Int)).seats.length = sm.max := by rw [hseats, hw]
  have e1 := seatAtT_pos (restoreT sm.seats target (sm.max : Int)) sm.dealer (by rw [hlen]; exact hd)
  have e2 := seatAtT_pos (restoreT sm.seats target (sm.max : Int)) sm.sb (by rw [hlen]; exact hs)
  have e3 := seatAtT_pos (restoreT sm.seats target (sm.max : Int)) sm.bb (by rw [hlen]; exact hb)
  unfold applyStatesT sm2ApplyStates
  cases sm with
  | mk max seats dealer sb bb =>
    simp only at e1 e2 e3 hseats ⊢
    cases dealer <;> cases sb <;> cases bb <;>
      simp [posInt] at e1 e2 e3 ⊢ <;> simp [e1, e2, e3, hseats]

/-! ### what the translated definitions compute, on concrete inputs (non-vacuity) -/

/-- four seats: 0 plays and holds the button, 1 sat in on a deactivated seat, 2 is free, 3 plays -/
def exSM : SM :=
  { max := 4, seats := [{ player := some 1 }, { player := some 2, active := false }, {}, { player := some 3 }], dealer := some 0 }

example : exSM.WF ∧ (0 : Nat) < exSM.max := ⟨rfl, by decide⟩
example : normalizeT exSM 3 = [3, 0, 1, 2] := by decide
example : findActiveT exSM [1, 2, 3, 0] = (some 3, 2) := by decide
example : (nextDealerT exSM).map (fun r => (r.1.seats.map (·.active), r.2)) =
    some ([true, true, true, true], some 3, some 3) := by decide
-- three playing seats and an empty one between small and big blind: the empty seat is deactivated
example : (renewT { exSM with seats := [{ player := some 1 }, { player := some 2 }, {}, { player := some 3 }] }).map
    (fun r => (r.1.seats.map (·.active), r.2)) = some ([true, true, false, true], some 1, some 3) := by decide
-- exactly two players who can play, a third waiting on a deactivated seat: heads-up layout, no panic, the third keeps waiting
example : (renewT exSM).map (fun r => (r.1.seats.map (·.active), r.2)) = some ([true, false, false, true], some 0, some 3) := by decide
-- one player who can play: `seats[-1:]` panics
example : renewT { exSM with seats := [{ player := some 1 }, {}, {}, {}] } = none := by decide
example : applyStatesT (SM.new 4) exSM = exSM := by decide
example : exSM.availableSeats = ([2], []) ∧ sm2AvailableSeatsStep 2 true false false [] ([] : List Nat) = ([2], []) := by decide

end Pokerface.GeneratedLogic
