import Pokerface.Proofs.BetsActs
/-
  Gap C12: what `Raise(x)` does when raise is NOT offered, when it is addressed to another seat, and at
  `x = cw` (carried out as `Call`).
-/
namespace Pokerface
open Game

/-- an action that is not in the seat's allowed list is refused without effect (any state) -/
theorem act_not_allowed (g : Game) (i : Nat) (a : Act) (x : Int) (h : g.allows i a = false) :
    g.act i a x = (g, some .invalidAction) := by
  unfold Game.act
  cases a <;> simp [h]

/-- no seat other than the one to act is allowed anything -/
theorem allows_other_false {g : Game} (hi : Inv g) {i : Nat} (hne : i ≠ g.cur) (a : Act) : g.allows i a = false := by
  cases hal : g.allows i a with
  | false => rfl
  | true =>
    obtain ⟨_, _, _, hc, _⟩ := allows_spec hi hal
    exact absurd hc hne

/-- an action addressed to a seat other than the one to act is refused without effect -/
theorem step_other_seat {g : Game} (hi : Inv g) {seat : Option Nat} (hs : ¬ ByCur g seat) (a : Act) (x : Int) :
    g.step (.act seat a x) = (g, some .invalidAction) := by
  cases seat with
  | none => exact absurd (Or.inl rfl) hs
  | some i =>
    have hne : i ≠ g.cur := fun h => hs (Or.inr (by rw [h]))
    exact act_not_allowed g i a x (allows_other_false hi hne a)

/-- at a decision point: an action that is not offered is refused without effect, whatever the amount -/
theorem step_not_offered {g : Game} {p : Player} (h : AtTurn g p) {a : Act} (ha : a ∉ p.allowed) (seat : Option Nat)
    (x : Int) : g.step (.act seat a x) = (g, some .invalidAction) := by
  by_cases hs : ByCur g seat
  · rw [step_byCur hs]
    apply act_not_allowed
    rw [h.allows a, ← h.allowed_eq]
    simpa using ha
  · exact step_other_seat h.inv hs a x

/-- `Raise(cw)` by the seat to act when both raise and call are offered: exactly `Call` -/
theorem act_raise_cw_eq_call {g : Game} {p : Player} (h : AtTurn g p) (hr : Act.raise ∈ g.availableActions p)
    (hc : Act.call ∈ g.availableActions p) (y : Int) : g.act g.cur .raise g.cw = g.act g.cur .call y := by
  have hw := mem_available_call hc
  have hw0 := h.pinv.wager0
  have hra := h.allows_of hr
  have hca := h.allows_of hc
  have n1 : ¬ (g.cw = 0 ∨ g.cw < g.cw) := by omega
  unfold Game.act
  simp only [hra, hca, Bool.not_true, Bool.false_eq_true, if_false, n1, if_true]

/-- `Raise(cw)` by the seat to act when raise is offered but call is not: refused without effect -/
theorem act_raise_cw_no_call {g : Game} {p : Player} (h : AtTurn g p) (hr : Act.raise ∈ g.availableActions p)
    (hc : Act.call ∉ g.availableActions p) : g.act g.cur .raise g.cw = (g, some .invalidAction) := by
  obtain ⟨hf, hs⟩ := avail_movable_of_mem hr (by simp)
  obtain ⟨_, _, _, _, _, m5, _, m7⟩ := avail_mem (g := g) hf hs
  have hprev := h.chips.prev0
  have hcw0 : g.cw ≠ 0 := by
    rcases m7.mp hr with ⟨a1, a2, a3⟩ | ⟨_, _, a3⟩
    · exact absurd (m5.mpr ⟨a1, a3⟩) hc
    · exact a3
  have hra := h.allows_of hr
  have hca : g.allows g.cur .call = false := by
    rw [h.allows .call]; simpa using hc
  have n1 : ¬ (g.cw = 0 ∨ g.cw < g.cw) := by omega
  unfold Game.act
  simp only [hra, hca, Bool.not_true, Bool.false_eq_true, if_false, n1, if_true, Bool.not_false]

end Pokerface
