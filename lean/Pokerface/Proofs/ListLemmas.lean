/-
  Small list lemmas used by the engine proofs (core only).
-/
namespace Pokerface

theorem map_modify_of_proj {α β : Type} (proj : α → β) (f : α → α) (h : ∀ x, proj (f x) = proj x) :
    ∀ (l : List α) (i : Nat), (l.modify i f).map proj = l.map proj
  | [], _ => by simp
  | a :: l, 0 => by simp [h]
  | a :: l, i + 1 => by simp [map_modify_of_proj proj f h l i]

theorem sum_map_modify {α : Type} (h : α → Int) (f : α → α) :
    ∀ (l : List α) (i : Nat) (x : α), l[i]? = some x →
      ((l.modify i f).map h).sum = (l.map h).sum - h x + h (f x)
  | [], i, x, hx => by simp at hx
  | a :: l, 0, x, hx => by
      simp at hx; subst hx; simp; omega
  | a :: l, i + 1, x, hx => by
      simp at hx
      have := sum_map_modify h f l i x hx
      simp [this]; omega

theorem forall_mem_modify {α : Type} (P : α → Prop) (f : α → α) (hf : ∀ x, P x → P (f x)) :
    ∀ (l : List α) (i : Nat), (∀ x ∈ l, P x) → ∀ x ∈ l.modify i f, P x
  | [], _, _ => by simp
  | a :: l, 0, hl => by
      intro x hx
      simp at hx
      rcases hx with rfl | hx
      · exact hf _ (hl _ (by simp))
      · exact hl _ (by simp [hx])
  | a :: l, i + 1, hl => by
      intro x hx
      simp at hx
      rcases hx with rfl | hx
      · exact hl _ (by simp)
      · exact forall_mem_modify P f hf l i (fun y hy => hl y (by simp [hy])) x hx

/-- modifying position `i` with a function that establishes `P` at that position only needs
    `P` elsewhere. -/
theorem forall_mem_modify_at {α : Type} (P : α → Prop) (f : α → α) :
    ∀ (l : List α) (i : Nat), (∀ x ∈ l, P x) → (∀ x, l[i]? = some x → P (f x)) → ∀ x ∈ l.modify i f, P x
  | [], _, _, _ => by simp
  | a :: l, 0, hl, hf => by
      intro x hx
      simp at hx
      rcases hx with rfl | hx
      · exact hf _ (by simp)
      · exact hl _ (by simp [hx])
  | a :: l, i + 1, hl, hf => by
      intro x hx
      simp at hx
      rcases hx with rfl | hx
      · exact hl _ (by simp)
      · exact forall_mem_modify_at P f l i (fun y hy => hl y (by simp [hy])) (fun y hy => hf y (by simpa using hy)) x hx

theorem forall_mem_map {α : Type} (P : α → Prop) (f : α → α) (hf : ∀ x, P x → P (f x)) (l : List α)
    (hl : ∀ x ∈ l, P x) : ∀ x ∈ l.map f, P x := by
  intro x hx
  simp at hx
  obtain ⟨y, hy, rfl⟩ := hx
  exact hf _ (hl _ hy)

end Pokerface
