/-
  Helpers for Properties/LinksTable.lean: the hand-off of the table composed with the engine.
  * `GetPlayableSeats()` lists the playable seats clockwise: each entry is the first playable seat after the one
    before it, and the dealer's seat is the first playable seat after the last entry,
  * the cached dealer of the engine only depends on the static part of the players,
  * the hypotheses of a hand-off (`HandOff`), its layout as game indices, the game players seat by seat,
  * solvency of a table, the chips moved by `Join` / `Leave`, sessions.
-/
import Pokerface.Proofs.TableGlueLayout
import Pokerface.Proofs.Forced
import Pokerface.Proofs.GapsAStatic
import Pokerface.Proofs.EngineFirst

namespace Pokerface
namespace Table
open SM

/-! ### consecutive entries of a filtered range -/

theorem filter_range'_head (q : Nat → Bool) : ∀ (n s b : Nat), ((List.range' s n).filter q)[0]? = some b →
    s ≤ b ∧ b < s + n ∧ q b = true ∧ ∀ j, s ≤ j → j < b → q j = false
  | 0, s, b, h => by simp at h
  | n + 1, s, b, h => by
    rw [List.range'_succ] at h
    by_cases hs : q s = true
    · rw [List.filter_cons_of_pos hs] at h
      simp only [List.getElem?_cons_zero, Option.some.injEq] at h
      subst h
      exact ⟨Nat.le_refl _, by omega, hs, fun j h1 h2 => by omega⟩
    · rw [List.filter_cons_of_neg hs] at h
      obtain ⟨h1, h2, h3, h4⟩ := filter_range'_head q n (s + 1) b h
      refine ⟨by omega, by omega, h3, fun j hj1 hj2 => ?_⟩
      by_cases hjs : j = s
      · subst hjs; simpa using hs
      · exact h4 j (by omega) hj2

theorem filter_range'_none (q : Nat → Bool) (n s : Nat) (h : ((List.range' s n).filter q)[0]? = none) :
    ∀ j, s ≤ j → j < s + n → q j = false := by
  intro j h1 h2
  have hnil : (List.range' s n).filter q = [] := by
    cases hl : (List.range' s n).filter q with
    | nil => rfl
    | cons a l => rw [hl] at h; simp at h
  have := List.filter_eq_nil_iff.mp hnil j (List.mem_range'_1.mpr ⟨h1, h2⟩)
  simpa using this

theorem filter_range'_consec (q : Nat → Bool) : ∀ (n s k a b : Nat),
    ((List.range' s n).filter q)[k]? = some a → ((List.range' s n).filter q)[k + 1]? = some b →
    s ≤ a ∧ a < b ∧ b < s + n ∧ q a = true ∧ q b = true ∧ ∀ j, a < j → j < b → q j = false
  | 0, s, k, a, b, h, _ => by simp at h
  | n + 1, s, k, a, b, ha, hb => by
    rw [List.range'_succ] at ha hb
    by_cases hs : q s = true
    · rw [List.filter_cons_of_pos hs] at ha hb
      cases k with
      | zero =>
        simp only [List.getElem?_cons_zero, Option.some.injEq] at ha
        subst ha
        simp only [Nat.zero_add, List.getElem?_cons_succ] at hb
        obtain ⟨h1, h2, h3, h4⟩ := filter_range'_head q n (s + 1) b hb
        exact ⟨Nat.le_refl _, by omega, by omega, hs, h3, fun j hj1 hj2 => h4 j (by omega) hj2⟩
      | succ k =>
        simp only [List.getElem?_cons_succ] at ha hb
        obtain ⟨h1, h2, h3, h4, h5, h6⟩ := filter_range'_consec q n (s + 1) k a b ha hb
        exact ⟨by omega, h2, by omega, h4, h5, h6⟩
    · rw [List.filter_cons_of_neg hs] at ha hb
      obtain ⟨h1, h2, h3, h4, h5, h6⟩ := filter_range'_consec q n (s + 1) k a b ha hb
      exact ⟨by omega, h2, by omega, h4, h5, h6⟩

theorem filter_range'_last (q : Nat → Bool) : ∀ (n s k a : Nat),
    ((List.range' s n).filter q)[k]? = some a → ((List.range' s n).filter q)[k + 1]? = none →
    s ≤ a ∧ a < s + n ∧ q a = true ∧ ∀ j, a < j → j < s + n → q j = false
  | 0, s, k, a, h, _ => by simp at h
  | n + 1, s, k, a, ha, hb => by
    rw [List.range'_succ] at ha hb
    by_cases hs : q s = true
    · rw [List.filter_cons_of_pos hs] at ha hb
      cases k with
      | zero =>
        simp only [List.getElem?_cons_zero, Option.some.injEq] at ha
        subst ha
        simp only [Nat.zero_add, List.getElem?_cons_succ] at hb
        have := filter_range'_none q n (s + 1) hb
        exact ⟨Nat.le_refl _, by omega, hs, fun j hj1 hj2 => this j (by omega) (by omega)⟩
      | succ k =>
        simp only [List.getElem?_cons_succ] at ha hb
        obtain ⟨h1, h2, h3, h4⟩ := filter_range'_last q n (s + 1) k a ha hb
        exact ⟨by omega, by omega, h3, fun j hj1 hj2 => h4 j hj1 (by omega)⟩
    · rw [List.filter_cons_of_neg hs] at ha hb
      obtain ⟨h1, h2, h3, h4⟩ := filter_range'_last q n (s + 1) k a ha hb
      exact ⟨by omega, by omega, h3, fun j hj1 hj2 => h4 j hj1 (by omega)⟩

/-! ### `GetPlayableSeats()` goes round the table clockwise -/

theorem normalize_filter_eq (sm : SM) (d : Nat) :
    (sm.normalize d).filter sm.playable =
      ((List.range' 0 sm.max).filter (sm.playable ∘ fun k => (d + k) % sm.max)).map fun k => (d + k) % sm.max := by
  unfold SM.normalize
  rw [List.range_eq_range', List.filter_map]

theorem off_add (m d a j : Nat) : ((d + a) % m + j) % m = (d + (a + j)) % m := by
  rw [Nat.mod_add_mod, Nat.add_assoc]

/-- two consecutive entries of `GetPlayableSeats()`: the second is the first playable seat clockwise after the first -/
theorem playableSeats_consecutive {sm : SM} {d : Nat} {seats : List Nat}
    (hs : seats = (sm.normalize d).filter sm.playable) {k x y : Nat} (hx : seats[k]? = some x)
    (hy : seats[k + 1]? = some y) : IsNextAfter sm x y := by
  rw [hs, normalize_filter_eq, List.getElem?_map] at hx hy
  cases ha : ((List.range' 0 sm.max).filter (sm.playable ∘ fun k => (d + k) % sm.max))[k]? with
  | none => rw [ha] at hx; cases hx
  | some a =>
    cases hb : ((List.range' 0 sm.max).filter (sm.playable ∘ fun k => (d + k) % sm.max))[k + 1]? with
    | none => rw [hb] at hy; cases hy
    | some b =>
      rw [ha] at hx; rw [hb] at hy
      simp only [Option.map_some, Option.some.injEq] at hx hy
      obtain ⟨_, h2, h3, h4, h5, h6⟩ := filter_range'_consec _ _ _ _ _ _ ha hb
      subst hx; subst hy
      refine ⟨b - a, by omega, by omega, ?_, h5, ?_⟩
      · rw [off_add]; congr 2; omega
      · intro j hj1 hj2
        rw [off_add]
        exact h6 (a + j) (by omega) (by omega)

/-- the last entry of `GetPlayableSeats()`: the first playable seat clockwise after it is the dealer's (when that one
is playable and is not the last entry itself) -/
theorem playableSeats_wrap {sm : SM} {d : Nat} {seats : List Nat} (hd : d < sm.max) (hpd : sm.playable d = true)
    (hs : seats = (sm.normalize d).filter sm.playable) {k x : Nat} (hx : seats[k]? = some x)
    (hlast : seats[k + 1]? = none) (hk : 0 < k) : IsNextAfter sm x d := by
  have h0 : seats[0]? = some d := by
    rw [hs, normalize_filter_eq, List.getElem?_map]
    have hq0 : (sm.playable ∘ fun k => (d + k) % sm.max) (0 + 0) = true := by
      simp [Nat.mod_eq_of_lt hd, hpd]
    rw [filter_range'_first _ 0 sm.max 0 (by omega) hq0 (by intro j hj; omega)]
    simp [Nat.mod_eq_of_lt hd]
  rw [hs, normalize_filter_eq, List.getElem?_map] at hx hlast
  cases ha : ((List.range' 0 sm.max).filter (sm.playable ∘ fun k => (d + k) % sm.max))[k]? with
  | none => rw [ha] at hx; cases hx
  | some a =>
    rw [ha] at hx
    simp only [Option.map_some, Option.some.injEq] at hx
    have hb : ((List.range' 0 sm.max).filter (sm.playable ∘ fun k => (d + k) % sm.max))[k + 1]? = none := by
      cases hb : ((List.range' 0 sm.max).filter (sm.playable ∘ fun k => (d + k) % sm.max))[k + 1]? with
      | none => rfl
      | some b => rw [hb] at hlast; cases hlast
    obtain ⟨_, h2, h3, h4⟩ := filter_range'_last _ _ _ _ _ ha hb
    -- `a ≠ 0`: the entry at `k > 0` is not the first one
    have ha0 : 0 < a := by
      cases hk0 : ((List.range' 0 sm.max).filter (sm.playable ∘ fun k => (d + k) % sm.max))[k - 1]? with
      | none =>
        have := List.getElem?_eq_none_iff.mp hk0
        have := (List.getElem?_eq_some_iff.mp ha).1
        omega
      | some a' =>
        have hka : ((List.range' 0 sm.max).filter (sm.playable ∘ fun k => (d + k) % sm.max))[k - 1 + 1]? = some a := by
          rw [show k - 1 + 1 = k by omega]; exact ha
        have := (filter_range'_consec _ _ _ _ _ _ hk0 hka).2.1
        omega
    subst hx
    refine ⟨sm.max - a, by omega, by omega, ?_, hpd, ?_⟩
    · rw [off_add, show d + (a + (sm.max - a)) = d + sm.max by omega, Nat.add_mod_right, Nat.mod_eq_of_lt hd]
    · intro j hj1 hj2
      rw [off_add]
      exact h4 (a + j) (by omega) (by omega)

/-! ### the engine's cached dealer only looks at the static part of the players -/

theorem dealerIdx_congr_static {g g' : Game} (h : g'.players.map Player.static = g.players.map Player.static) :
    g'.dealerIdx? = g.dealerIdx? := by
  have key : ∀ l : List Player, (l.reverse.find? (·.posDealer)).map (·.idx) =
      ((l.map Player.static).reverse.find? (fun f => f.2.1)).map (fun f => f.1) := by
    intro l
    rw [← List.map_reverse, List.find?_map]
    simp [Function.comp_def, Player.static, Option.map_map]
  unfold Game.dealerIdx?
  rw [key, key, h]


/-- the cached dealer in every state of a hand played from settings of which exactly the first is the dealer's -/
theorem dealerIdx_run_zero (m : Meta) (cfg : List SeatCfg) (wf : OptsOK m) (hs : (start ⟨m, cfg⟩).2 = none)
    (hne : cfg ≠ []) (h : ∀ (k : Nat) c, cfg[k]? = some c → (c.dealer = true ↔ k = 0)) (ops : List Op) :
    ((start ⟨m, cfg⟩).1.run ops).dealerIdx = 0 := by
  have h1 := static_of_config ⟨m, cfg⟩ ⟨wf⟩ hs ops
  have h2 : ((start ⟨m, cfg⟩).1.run ops).dealerIdx? =
      ({ opts := m, players := (⟨m, cfg⟩ : Config).players } : Game).dealerIdx? :=
    dealerIdx_congr_static (g := { opts := m, players := (⟨m, cfg⟩ : Config).players }) h1
  unfold Game.dealerIdx
  rw [h2, dealerIdx?_zero m cfg hne h]
  rfl

theorem cwIter_zero (n : Nat) : ∀ (k s : Nat), s + k < n → cwIter n k s = s + k
  | 0, s, _ => rfl
  | k + 1, s, h => by
    unfold cwIter
    have : cwNext n s = s + 1 := by unfold cwNext; rw [if_neg (by omega)]
    rw [this, cwIter_zero n k (s + 1) (by omega)]
    omega

/-! ### the hand-off -/

/-- The hypotheses of the link theorems: a table satisfying the invariant whose positions are not set up; `setupPosition`
runs `Next()` and succeeds, giving `t'`; `seats` is `GetPlayableSeats()`; every player on a playable seat has chips; the
options `m` the table hands to the engine have non-negative forced bets and a deck. -/
structure HandOff (t t' : Table) (seats : List Nat) (m : Meta) : Prop where
  inv : TInv t
  fresh : t.inPosition = false
  setup : t.setupPosition = (t', none)
  seats : playableSeats t'.sm = some seats
  bank : ∀ i p, t'.players[i]? = some (some p) → t'.sm.playable i = true → 0 < p.bankroll
  opts : OptsOK m
  deck : m.deck ≠ []

theorem HandOff.inv' {t t' : Table} {seats : List Nat} {m : Meta} (h : HandOff t t' seats m) : TInv t' := by
  have := h.inv.setupPosition; rwa [h.setup] at this

/-- the positions a seat gets from the seat manager -/
def posOf (sm : SM) (s : Nat) : Bool × Bool × Bool :=
  (decide (sm.dealer = some s), decide (sm.sb = some s), decide (sm.sb ≠ some s) && decide (sm.bb = some s))

/-- entry `k` of the player settings: the bankroll on the sheet and the positions of the seat manager for seat `seats[k]` -/
theorem HandOff.entry {t t' : Table} {seats : List Nat} {m : Meta} (h : HandOff t t' seats m) {k s : Nat}
    (hk : seats[k]? = some s) :
    t'.sm.playable s = true ∧ ∃ p, t'.players[s]? = some (some p) ∧ 0 < p.bankroll ∧
      (t'.gameSeats seats)[k]? = some ⟨p.bankroll, (posOf t'.sm s).1, (posOf t'.sm s).2.1, (posOf t'.sm s).2.2⟩ := by
  obtain ⟨_, _, _, _, _, hmem⟩ := playableSeats_spec h.seats
  have hp := ((hmem s).mp (List.mem_of_getElem? hk)).2
  obtain ⟨p, hp1, hp2⟩ := cfg_of_playable h.inv h.fresh h.setup hp
  refine ⟨hp, p, hp1, h.bank s p hp1 hp, ?_⟩
  rw [gameSeats_getElem?, hk, Option.map_some, hp2]
  rfl

/-- **The layout in game indices.**  Game index 0 is the dealer's seat; the big-blind seat has game index `kb`: 1 when
the small blind is the dealer (heads-up layout), 2 otherwise, with the small-blind seat at index 1. -/
theorem HandOff.layout {t t' : Table} {seats : List Nat} {m : Meta} (h : HandOff t t' seats m) :
    ∃ d s b kb, t'.sm.dealer = some d ∧ t'.sm.sb = some s ∧ t'.sm.bb = some b ∧
      seats[0]? = some d ∧ seats[kb]? = some b ∧
      ((kb = 1 ∧ s = d ∧ t.sm.nextDealer.1.playableCount = 2) ∨
        (kb = 2 ∧ seats[1]? = some s ∧ s ≠ d ∧ IsNextAfter t'.sm d s)) ∧
      d ≠ b ∧ s ≠ b ∧ seats.Nodup ∧ d < t'.sm.max ∧ t'.sm.playable d = true ∧ IsNextAfter t'.sm s b ∧
      seats = (t'.sm.normalize d).filter t'.sm.playable ∧ seats.length = t'.sm.playableCount := by
  obtain ⟨d, s, b, rest, ring, hd, hsb, hbb, hseats, hhu, hring, hdb, hsb', _, hriff, hdlt, hnab, hnad⟩ :=
    handoff_layout h.inv h.fresh h.setup
  rw [h.seats] at hseats
  have hse := Option.some.inj hseats
  obtain ⟨d', hd', hfil, hnd, hlen, hmem⟩ := playableSeats_spec h.seats
  rw [hd] at hd'; cases hd'
  have hpd : t'.sm.playable d = true := by
    apply ((hmem d).mp _).2
    rw [hse]; cases ring <;> simp
  cases ring with
  | false =>
    simp only [Bool.false_eq_true, if_false] at hse
    refine ⟨d, s, b, 1, hd, hsb, hbb, by rw [hse]; rfl, by rw [hse]; rfl, Or.inl ⟨rfl, hhu rfl, ?_⟩, hdb, hsb', hnd,
      hdlt, hpd, hnab, hfil, hlen⟩
    by_contra hne
    exact absurd (hriff.mpr hne) (by simp)
  | true =>
    simp only [if_true] at hse
    refine ⟨d, s, b, 2, hd, hsb, hbb, by rw [hse]; rfl, by rw [hse]; rfl,
      Or.inr ⟨rfl, by rw [hse]; rfl, fun e => hring rfl e.symm, hnad rfl⟩, hdb, hsb', hnd, hdlt, hpd, hnab, hfil, hlen⟩

/-- the seat left of the big blind: game index `cwNext n kb`, the first playable seat clockwise after the big-blind seat -/
theorem next_after_index {sm : SM} {d : Nat} {seats : List Nat} (hd : d < sm.max) (hpd : sm.playable d = true)
    (hs : seats = (sm.normalize d).filter sm.playable) (h0 : seats[0]? = some d) {kb b : Nat} (hkb : 0 < kb)
    (hb : seats[kb]? = some b) :
    ∃ x, seats[cwNext seats.length kb]? = some x ∧ IsNextAfter sm b x := by
  have hlt := (List.getElem?_eq_some_iff.mp hb).1
  unfold cwNext
  by_cases hl : kb + 1 = seats.length
  · rw [if_pos hl]
    exact ⟨d, h0, playableSeats_wrap hd hpd hs hb (List.getElem?_eq_none_iff.mpr (by omega)) hkb⟩
  · rw [if_neg hl]
    have hlt' : kb + 1 < seats.length := by omega
    exact ⟨seats[kb + 1], List.getElem?_eq_getElem hlt',
      playableSeats_consecutive hs hb (List.getElem?_eq_getElem hlt')⟩


/-! ### solvency -/

/-- every player on the sheet has chips, or is held out of play (reserved: e.g. busted, or joined and not yet seated) -/
def Solvent (t : Table) : Prop := ∀ i p, t.playerAt i = some p → 0 < p.bankroll ∨ SM.Held t.sm i

theorem Solvent.bank {t : Table} (h : Solvent t) {i : Nat} {p : TPlayer} (hp : t.players[i]? = some (some p))
    (hpl : t.sm.playable i = true) : 0 < p.bankroll := by
  rcases h i p (playerAt_eq_some.mpr hp) with h1 | h1
  · exact h1
  · rw [h1.not_playable] at hpl; cases hpl

/-- solvency survives `setupPosition` -/
theorem Solvent.setupPosition {t : Table} (hi : TInv t) (h : Solvent t) : Solvent t.setupPosition.1 := by
  intro i p hp
  have hm := setupPosition_money t i
  rw [hp] at hm
  cases hq : t.playerAt i with
  | none => rw [hq] at hm; cases hm
  | some q =>
    rw [hq] at hm
    simp only [Option.map_some, Option.some.injEq, money, Prod.mk.injEq] at hm
    rcases h i q hq with h1 | h1
    · left; rw [hm.2]; exact h1
    · right; exact setupPosition_held hi h1

theorem solvent_new (max : Nat) (o : TOpts) : Solvent (Table.new max o) := by
  intro i p hp
  unfold playerAt Table.new at hp
  simp only [List.getElem?_replicate] at hp
  split at hp <;> cases hp

/-! ### a hand that is not played moves no chips; where a played hand leaves `inPosition` -/

theorem closed_inPosition (t2 : Table) (finals : List Int) : (t2.closed finals).inPosition = false := rfl

theorem setupPosition_failed_inPosition {t : Table} (hp : t.inPosition = false) (he : t.setupPosition.2 ≠ none) :
    t.setupPosition.1.inPosition = false := by
  rw [setupPosition_eq, if_neg (by simp [hp])] at he ⊢
  split
  · exact hp
  · next h => rw [h] at he; exact absurd rfl he

/-- a played hand that ends with an error has not set up the next positions -/
theorem playHand_err_inPosition {t2 : Table} {cfg : List SeatCfg} {finals : List Int} (hok : startRefusal cfg = none)
    (hl : finals.length = cfg.length) (he : (playHand t2 cfg finals).2.err ≠ none) :
    (playHand t2 cfg finals).1.inPosition = false := by
  unfold playHand at he ⊢
  rw [hok] at he ⊢
  simp only at he ⊢
  rw [if_neg (by simp [hl])] at he ⊢
  by_cases hm : (t2.closed finals).maxGamesReached = true
  · rw [if_pos hm]; rfl
  · rw [if_neg hm] at he ⊢
    exact setupPosition_failed_inPosition rfl he

/-- `prepareNextGame` either plays a hand to the end (game created, accepted by `Start()`, one closing stack per
player) or leaves the chips on the sheet alone -/
theorem prepareNextGame_unplayed {t : Table} (hi : TInv t) (finals : List Int) :
    (∃ cfg, (t.step (.hand finals)).2.cfg = some cfg ∧ startRefusal cfg = none ∧ finals.length = cfg.length) ∨
    (t.step (.hand finals)).1.sheetTotal = t.sheetTotal := by
  show _ ∨ (t.prepareNextGame finals).1.sheetTotal = t.sheetTotal
  by_cases hmax : t.maxGamesReached = true
  · right; unfold Table.prepareNextGame; rw [if_pos hmax]
  · rcases hs : t.setupPosition with ⟨t1, e1⟩
    have ht1 : t1.sheetTotal = t.sheetTotal := by
      have := setupPosition_sheetTotal t; rw [hs] at this; exact this
    cases e1 with
    | some e1 => right; unfold Table.prepareNextGame; rw [if_neg hmax, hs]; exact ht1
    | none =>
      by_cases hen : (t1.gameCount = 0 ∧ t1.sm.playableCount < t1.opts.initialPlayers) ∨
          t1.sm.playableCount < t1.opts.minPlayers
      · right; unfold Table.prepareNextGame; rw [if_neg hmax, hs]; simp only; rw [if_pos hen]; exact ht1
      · cases hps : playableSeats t1.sm with
        | none =>
          right; unfold Table.prepareNextGame; rw [if_neg hmax, hs]; simp only; rw [if_neg hen, hps]; exact ht1
        | some seats =>
          have hcr : Created t t1 seats := ⟨by simpa using hmax, hs, hen, hps⟩
          have hnd := (hcr.facts hi).1
          have ht2 : (t1.assignGameIdx seats).sheetTotal = t.sheetTotal := by
            rw [assignGameIdx_sheetTotal _ _ hnd]; exact ht1
          rw [prepareNextGame_created hcr]
          cases hr : startRefusal ((t1.assignGameIdx seats).gameSeats seats) with
          | some e => right; rw [playHand_refused hr]; exact ht2
          | none =>
            by_cases hl : finals.length = ((t1.assignGameIdx seats).gameSeats seats).length
            · left
              refine ⟨_, ?_, hr, hl⟩
              show (t.prepareNextGame finals).2.cfg = _
              rw [prepareNextGame_created hcr, playHand_cfg]
            · right
              rw [playHand_badInput_or_refused (Or.inr ⟨hr, hl⟩)]; exact ht2

/-! ### the chips `Join` and `Leave` move -/

/-- the chips an operation other than a hand brings to the table: an accepted `Join` its bankroll, an accepted `Leave`
minus the bankroll of the player who leaves, everything else nothing -/
def chipsIn (t : Table) : TOp → Int
  | .join seat pid b chose => if (t.step (.join seat pid b chose)).2.err = none then b else 0
  | .leave seat => if (t.step (.leave seat)).2.err = none then - bank (t.playerAt seat.toNat) else 0
  | _ => 0

theorem sheetTotal_sm (t : Table) (sm' : SM) : ({ t with sm := sm' } : Table).sheetTotal = t.sheetTotal := rfl

theorem step_sheetTotal {t : Table} (hi : TInv t) (op : TOp) (hop : ∀ f, op ≠ .hand f) :
    (t.step op).1.sheetTotal = t.sheetTotal + chipsIn t op := by
  cases op with
  | join seat pid b chose =>
    rcases SM.step_join_cases t.sm seat pid chose with ⟨e, he⟩ | ⟨i, s, hs, hp, _, he⟩
    · simp only [chipsIn, Table.step, he]; simp
    · simp only [chipsIn, Table.step, he]
      have hil : i < t.players.length := by
        rw [hi.len, ← hi.seats_len]; exact (List.getElem?_eq_some_iff.mp hs).1
      have hnone : t.playerAt i = none := by
        have := hi.sync i
        rw [pidAt_eq] at this
        unfold SM.pidAt at this
        rw [hs, Option.bind_some, hp] at this
        cases hq : t.playerAt i with
        | none => rfl
        | some q => rw [hq] at this; cases this
      refine (sheetTotal_setPl _ i (by exact hil) _).trans ?_
      show t.sheetTotal - bank (t.playerAt i) + bank (some { pid := pid, bankroll := b }) = _
      rw [hnone]; simp [bank]
  | leave seat =>
    rcases leave_cases t seat with ⟨e, he⟩ | ⟨i, s, hseat, _, _, _, hl⟩
    · simp only [chipsIn, Table.step, he]; simp
    · simp only [chipsIn, Table.step, hl]
      rw [sheetTotal_setPl_none]
      subst hseat
      show t.sheetTotal - bank (t.playerAt i) = _
      simp only [Int.toNat_natCast, if_true]
      omega
  | activate seat => simp only [chipsIn, Table.step]; rw [sheetTotal_sm]; omega
  | reserve seat =>
    rcases SM.step_reserve_cases t.sm seat with ⟨_, he⟩ | ⟨i, _, _, he⟩
    · simp only [chipsIn, Table.step, he]; omega
    · simp only [chipsIn, Table.step, he]; rw [sheetTotal_sm]; omega
  | setup => simp only [chipsIn, Table.step]; rw [setupPosition_sheetTotal]; omega
  | hand f => exact absurd rfl (hop f)

end Table
end Pokerface
