import Pokerface.Proofs.EngineReach
/-
  Shape of an accepted player action: `resume` applied to a mid-action state that has the
  same seat to act, the same seats and the same street as before.
-/
namespace Pokerface
open Game

/-- the mid-action state `g1` of an accepted action on `g` -/
structure ActMid (g g1 : Game) : Prop where
  mid : MidAct g1
  soft : Soft g g1
  stat : Static g g1

theorem ActMid.n {g g1 : Game} (h : ActMid g g1) : g1.n = g.n := h.stat.length

theorem actMid_refl {g : Game} (hm : MidAct g) : ActMid g g := ⟨hm, Soft.refl g, Static.refl g⟩

theorem actMid_setActed {g g1 : Game} (h : ActMid g g1) (i : Nat) : ActMid g (g1.setActed i) :=
  ⟨midAct_setActed h.mid i, h.soft.trans (soft_setActed g1 i), h.stat.trans (noChip_setActed g1 i).static⟩

theorem actMid_pay {g g1 : Game} (h : ActMid g g1) (i : Nat) (c : Int) (hc : 0 ≤ c) : ActMid g (g1.pay i c true) :=
  ⟨midAct_pay h.mid i c hc, h.soft.trans (soft_pay g1 i c true), h.stat.trans (static_pay g1 i c true)⟩

theorem actMid_setPrev {g g1 : Game} (h : ActMid g g1) (x : Int) (hx : 0 ≤ x) : ActMid g (g1.setPrev x) :=
  ⟨midAct_setPrev h.mid x hx, h.soft.trans (soft_setPrev g1 x), h.stat.trans ⟨rfl, rfl, rfl⟩⟩

theorem actMid_recordBet {g g1 : Game} (h : ActMid g g1) (i : Nat) : ActMid g (g1.recordBet i) :=
  actMid_setPrev h _ (wagerOf_nonneg h.mid.chips i)

theorem doCall_shape (g : Game) (hi : Inv g) (i : Nat) (h : g.allows i .call = true) :
    ∃ g1, g.doCall i = g1.resume ∧ ActMid g g1 := by
  obtain ⟨p, hp, he, _, hav⟩ := allows_spec hi h
  unfold Game.doCall
  rw [hp]
  have hw := mem_available_call hav
  have hc : 0 ≤ (if g.cw < g.opts.blindBB then g.opts.blindBB - p.wager else g.cw - p.wager) := by
    split <;> omega
  exact ⟨_, rfl, actMid_pay (actMid_setActed (actMid_refl (hi.midAct he)) i) i _ hc⟩

theorem doAllin_shape (g : Game) (hi : Inv g) (i : Nat) (h : g.allows i .allin = true) :
    ∃ g1, g.doAllin i = g1.resume ∧ ActMid g g1 := by
  obtain ⟨p, hp, he, _, _⟩ := allows_spec hi h
  unfold Game.doAllin
  rw [hp]
  have hm := hi.midAct he
  have hs := (hm.chips.pinv p (List.mem_of_getElem? hp)).stack0
  refine ⟨_, rfl, actMid_pay ?_ i _ hs⟩
  split
  · rename_i hge
    exact actMid_setPrev (actMid_setActed (actMid_refl hm) i) _ (Int.le_trans hm.chips.prev0 hge)
  · exact actMid_setActed (actMid_refl hm) i

/-- Every accepted action is `resume` of a mid-action state with the same seat to act. -/
theorem act_shape (g : Game) (hi : Inv g) (i : Nat) (a : Act) (x : Int) (hacc : (g.act i a x).2 = none) :
    ∃ g1, (g.act i a x).1 = g1.resume ∧ ActMid g g1 := by
  unfold Game.act at hacc ⊢
  cases a with
  | pass =>
    simp only at hacc ⊢
    split at hacc
    · cases hacc
    · rename_i h
      obtain ⟨p, hp, he, _, _⟩ := allows_spec hi (by simpa using h)
      simp only [h, if_false, Bool.false_eq_true]
      exact ⟨_, rfl, actMid_setActed (actMid_refl (hi.midAct he)) i⟩
  | pay =>
    simp only at hacc ⊢
    split at hacc
    · cases hacc
    · rename_i h
      obtain ⟨p, hp, he, _, hav⟩ := allows_spec hi (by simpa using h)
      exact absurd hav (not_available_pay g p)
  | fold =>
    simp only at hacc ⊢
    split at hacc
    · cases hacc
    · rename_i h
      obtain ⟨p, hp, he, _, _⟩ := allows_spec hi (by simpa using h)
      simp only [h, if_false, Bool.false_eq_true]
      refine ⟨_, rfl, ?_⟩
      have nc := noChip_modP g i (fun p => { p with fold := true, acted := true }) (fun _ => rfl)
      have so := soft_modP g i (fun p => { p with fold := true, acted := true }) (fun _ => rfl)
      exact ⟨midAct_noChip (hi.midAct he) nc so rfl, so, nc.static⟩
  | check =>
    simp only at hacc ⊢
    split at hacc
    · cases hacc
    · rename_i h
      obtain ⟨p, hp, he, _, _⟩ := allows_spec hi (by simpa using h)
      simp only [h, if_false, Bool.false_eq_true]
      exact ⟨_, rfl, actMid_setActed (actMid_refl (hi.midAct he)) i⟩
  | call =>
    simp only at hacc ⊢
    split at hacc
    · cases hacc
    · rename_i h
      simp only [h, if_false, Bool.false_eq_true]
      exact doCall_shape g hi i (by simpa using h)
  | allin =>
    simp only at hacc ⊢
    split at hacc
    · cases hacc
    · rename_i h
      simp only [h, if_false, Bool.false_eq_true]
      exact doAllin_shape g hi i (by simpa using h)
  | bet =>
    simp only at hacc ⊢
    split at hacc
    · cases hacc
    · rename_i h
      split at hacc
      · cases hacc
      · rename_i hx
        obtain ⟨p, hp, he, _, _⟩ := allows_spec hi (by simpa using h)
        have hx' : 0 ≤ x := by omega
        simp only [h, hx, if_false, Bool.false_eq_true]
        unfold Game.doBet
        exact ⟨_, rfl, actMid_recordBet (actMid_pay (actMid_setActed (actMid_refl (hi.midAct he)) i) i x hx') i⟩
  | raise =>
    simp only at hacc ⊢
    split at hacc
    · cases hacc
    · rename_i h
      split at hacc
      · cases hacc
      · rename_i hx
        simp only [h, hx, if_false, Bool.false_eq_true]
        split at hacc
        · rename_i heq
          split at hacc
          · cases hacc
          · rename_i hc
            simp only [heq, hc, if_true, if_false, Bool.false_eq_true]
            exact doCall_shape g hi i (by simpa using hc)
        · rename_i hne
          simp only [hne, if_false]
          split at hacc
          · rename_i hnone
            obtain ⟨p', hp', _, _, _⟩ := allows_spec hi (by simpa using h)
            rw [hp'] at hnone; cases hnone
          · rename_i p hp
            try simp only [hp]
            split at hacc
            · rename_i hbig
              split at hacc
              · cases hacc
              · rename_i ha
                simp only [hbig, ha, if_true, if_false, Bool.false_eq_true]
                exact doAllin_shape g hi i (by simpa using ha)
            · rename_i hnot
              simp only [hnot, if_false]
              obtain ⟨p', hp', he, _, _⟩ := allows_spec hi (by simpa using h)
              have hm := hi.midAct he
              have hw := hm.chips.wle p (List.mem_of_getElem? hp)
              have hprev := hm.chips.prev0
              have hcw := hm.chips.cw0
              have hxcw : g.cw < x := by omega
              unfold Game.doRaise
              simp only
              refine ⟨_, rfl, actMid_pay (actMid_setPrev (actMid_setActed (actMid_refl hm) i) _ ?_) i _ ?_⟩
              · split <;> omega
              · split <;> omega

/-- what `resume` does to the seat to act on a mid-action state -/
theorem resume_cur (g1 : Game) (h : MidAct g1) (hopen : g1.resume.event = .roundStarted) :
    g1.resume.cur = g1.nextIdx := by
  unfold Game.resume at hopen ⊢
  rw [h.ev] at hopen ⊢
  simp only at hopen ⊢
  unfold Game.requestPlayerAction at hopen ⊢
  split
  · rename_i h1; simp only [h1, if_true] at hopen; cases hopen
  · rename_i h1
    simp only [h1, if_false] at hopen
    split
    · rename_i h2; simp only [h2, if_true] at hopen; cases hopen
    · rename_i h2
      simp only [h2, if_false] at hopen
      split
      · rename_i hnone
        have := nextIdx_lt h.struct
        simp [Game.n] at this
        have : g1.players[g1.nextIdx]? ≠ none := by simp [this]
        contradiction
      · rename_i p hp
        simp only [hp] at hopen
        split
        · rename_i ha; simp only [ha, if_true] at hopen; cases hopen
        · rfl

end Pokerface
