import Pokerface.Proofs.ShowdownPlay
import Pokerface.Proofs.BetsPhase
import Pokerface.Proofs.EngineOpens
import Pokerface.Proofs.FlowC06
import Pokerface.Properties.C05
/-
  The invariant `Lvl` (Proofs/ShowdownPlay.lean) holds in every state of a hand from the forced bets
  on, hence `Covered g` in EVERY reachable state: some non-folded player has put in at least as much
  as every other player.
-/
namespace Pokerface
open Game

/-! ### `lvs` through the functions of the chain -/

theorem lvs_of_frame_fold {l l' : List Player} (hfr : l'.map Player.frame = l.map Player.frame)
    (hfo : l'.map (·.fold) = l.map (·.fold)) : l'.map Player.lv = l.map Player.lv := by
  apply List.ext_getElem?
  intro k
  have h1 := congrArg (·[k]?) hfr
  have h2 := congrArg (·[k]?) hfo
  simp only [List.getElem?_map] at h1 h2 ⊢
  cases ha : l'[k]? with
  | none =>
    cases hb : l[k]? with
    | none => rfl
    | some b => rw [ha, hb] at h1; simp at h1
  | some a =>
    cases hb : l[k]? with
    | none => rw [ha, hb] at h1; simp at h1
    | some b =>
      rw [ha, hb] at h1 h2
      simp only [Option.map_some, Option.some.injEq, Player.frame, Player.chips, Prod.mk.injEq] at h1 h2
      simp only [Option.map_some, Player.lv]
      obtain ⟨_, _, hi, _, hp, hw⟩ := h1
      rw [h2, hi, hp, hw]

/-- same `(fold, initial, pot, wager)` seat by seat and same wager to match -/
structure LvSame (g g' : Game) : Prop where
  lvs : g'.lvs = g.lvs
  cw : g'.cw = g.cw

theorem LvSame.of {g g' : Game} (nc : NoChip g g') (mv : Mov g g') : LvSame g g' :=
  ⟨lvs_of_frame_fold nc.frame mv.folds.fold, nc.cw⟩

theorem LvSame.lvl {g g' : Game} (s : LvSame g g') (h : Lvl g.lvs g.cw) : Lvl g'.lvs g'.cw := by
  rw [s.lvs, s.cw]; exact h

theorem lvOK_of_chips {g : Game} (ok : ChipsOK g) : LvOK g.lvs g.cw := by
  intro k a ha
  simp only [Game.lvs, List.getElem?_map, Option.map_eq_some_iff] at ha
  obtain ⟨p, hp, rfl⟩ := ha
  have hm := List.mem_of_getElem? hp
  have pi := ok.pinv p hm
  have := pi.wager0; have := pi.stack0; have := pi.rebase; have := ok.wle p hm
  simp only [Player.lv]
  omega

theorem lvs_getElem {g : Game} {k : Nat} {a : Lv} (h : g.lvs[k]? = some a) : ∃ p, g.players[k]? = some p ∧ a = p.lv := by
  simp only [Game.lvs, List.getElem?_map, Option.map_eq_some_iff] at h
  obtain ⟨p, hp, rfl⟩ := h
  exact ⟨p, hp, rfl⟩

theorem payF_fold (c : Int) (p : Player) : (payF c p).fold = p.fold := by
  unfold payF; split <;> rfl

/-- a wager made by a non-folded seat keeps `Lvl` -/
theorem lvl_pay_game {g : Game} (ok : ChipsOK g) (h : Lvl g.lvs g.cw) (i : Nat) (c : Int) (hc : 0 ≤ c)
    (hnf : ∀ p, g.players[i]? = some p → p.fold = false) :
    Lvl (g.pay i c true).lvs (g.pay i c true).cw := by
  cases hp : g.players[i]? with
  | none =>
    have : g.pay i c true = g := by unfold Game.pay; rw [hp]
    rw [this]; exact h
  | some p =>
    have hfr := pay_frame hp c true
    have hfo : (g.pay i c true).players.map (·.fold) = (g.players.modify i (payF c)).map (·.fold) := by
      rw [(folds_pay g i c true).fold, map_modify_of_proj (·.fold) (payF c) (payF_fold c)]
    have hl : (g.pay i c true).lvs = (g.players.modify i (payF c)).map Player.lv := lvs_of_frame_fold hfr hfo
    have hcw := pay_cw hp c
    have pi := ok.pinv p (List.mem_of_getElem? hp)
    have := pi.wager0; have := pi.stack0; have := pi.rebase
    refine lvl_pay (i := i) (a := p.lv) (w' := (payF c p).wager) h (by simp [Game.lvs, hp]) ?_ ?_ ?_
      (Or.inl (hnf p hp)) ?_
    · rw [hl, List.getElem?_map, List.getElem?_modify_eq, hp]
      show some (payF c p).lv = some _
      congr 1
      unfold payF
      split <;> rfl
    · intro k hk
      rw [hl]
      simp only [Game.lvs, List.getElem?_map]
      rw [List.getElem?_modify_ne _ _ (Ne.symm hk)]
    · show p.wager ≤ (payF c p).wager
      unfold payF
      split
      · show p.wager ≤ p.initial; omega
      · show p.wager ≤ p.wager + c; omega
    · rw [hcw]
      unfold payF
      by_cases hs : p.stack ≤ c
      · rw [if_pos hs, if_pos hs]; rfl
      · rw [if_neg hs, if_neg hs]; rfl

/-- a fold by a seat whose wager is below the wager to match keeps `Lvl` -/
theorem lvl_fold_game {g : Game} (ok : ChipsOK g) (h : Lvl g.lvs g.cw) (i : Nat) (p : Player)
    (hp : g.players[i]? = some p) (hlt : p.wager < g.cw) :
    Lvl (g.modP i fun p => { p with fold := true, acted := true }).lvs
      (g.modP i fun p => { p with fold := true, acted := true }).cw := by
  show Lvl ((g.players.modify i fun p => { p with fold := true, acted := true }).map Player.lv) g.cw
  refine lvl_fold (i := i) (a := p.lv) h (lvOK_of_chips ok) (by simp [Game.lvs, hp]) ?_ ?_ hlt
  · simp only [List.getElem?_map, List.getElem?_modify_eq, hp, Option.map_some]
    rfl
  · intro k hk
    simp only [Game.lvs, List.getElem?_map]
    rw [List.getElem?_modify_ne _ _ (Ne.symm hk)]

theorem lvs_resets (g : Game) (ok : ChipsOK0 g) :
    g.resetRoundStatus.resetAllPlayerStatus.lvs = g.lvs.map Lv.sweep := by
  show (g.players.map _).map Player.lv = (g.players.map Player.lv).map Lv.sweep
  rw [List.map_map, List.map_map]
  apply List.map_congr_left
  intro p hp
  have := (ok.pinv p hp).rebase
  simp only [Function.comp_def, Player.lv, Lv.sweep, Prod.mk.injEq, true_and, and_true]
  exact this

/-- at the close of a round with two or more players left, the seats that still have chips are level -/
def CloseLevel (g : Game) : Prop :=
  g.event = .roundClosed → 2 ≤ g.aliveCount → ∀ p ∈ g.players, p.fold = false → 0 < p.stack → p.wager = g.cw

theorem lvl_nextRound (g : Game) (ok : ChipsOK g) (h : Lvl g.lvs g.cw) (hcl : 2 ≤ g.aliveCount → ∀ p ∈ g.players,
    p.fold = false → 0 < p.stack → p.wager = g.cw) : Lvl g.nextRound.lvs g.nextRound.cw := by
  unfold Game.nextRound
  refine (LvSame.of (noChip_nextRound' _) (mov_nextRound' _)).lvl ?_
  rw [lvs_resets g ok.zero]
  show Lvl (g.lvs.map Lv.sweep) 0
  apply lvl_sweep h (lvOK_of_chips ok)
  by_cases h2 : 2 ≤ g.aliveCount
  · left
    intro k a ha hf hi
    obtain ⟨p, hp, rfl⟩ := lvs_getElem ha
    have hm := List.mem_of_getElem? hp
    have := (ok.pinv p hm).rebase
    exact hcl h2 p hm hf (by simp only [Player.lv] at hi; omega)
  · right
    intro j k a b ha hb hfa hfb
    obtain ⟨p, hp, rfl⟩ := lvs_getElem ha
    obtain ⟨q, hq, rfl⟩ := lvs_getElem hb
    exact unique_of_filter_le_one (fun p : Player => !p.fold) g.players (by unfold Game.aliveCount at h2; omega)
      j k p q hp hq (by simp only [Player.lv] at hfa; simp [hfa]) (by simp only [Player.lv] at hfb; simp [hfb])

/-! ### events -/

theorem openRound_event' (g : Game) : g.openRound.event = .roundStarted ∨ g.openRound.event = .roundClosed := by
  unfold Game.openRound
  rcases requestPlayerAction_event (g.setEvent .roundStarted) with h | h
  · exact Or.inl h
  · exact Or.inr h

theorem startRound_event' (g : Game) : g.startRound.event = .roundStarted ∨ g.startRound.event = .roundClosed := by
  unfold Game.startRound Game.startRound'
  split
  · split
    · exact Or.inr rfl
    · exact openRound_event' _
  · exact openRound_event' _

theorem enterRound_event' (g : Game) (r : Round) (hr : r ≠ .preflop) :
    (g.enterRound r).event = .readyRequested ∨ (g.enterRound r).event = .roundClosed := by
  unfold Game.enterRound Game.initializeRound Game.afterRoundInitialized
  have hrd : ((((g.setRound r).dealStreet.updateCombinations).setEvent .roundInitialized)).round = r := by
    show (g.setRound r).dealStreet.round = r
    rw [dealStreet_round]; rfl
  rw [if_neg (by rw [hrd]; exact hr)]
  exact prepareRound_event _

theorem nextRound_event' (g : Game) (hr : g.round ≠ .none) : g.nextRound.event ≠ .blindsRequested := by
  have key : ∀ (X : Game) (r : Round), r ≠ .preflop → (X.enterRound r).event ≠ .blindsRequested := by
    intro X r h
    rcases enterRound_event' X r h with e | e <;> rw [e] <;> simp
  unfold Game.nextRound Game.nextRound'
  split
  · show Ev.gameClosed ≠ _; simp
  · split
    · exact key _ _ (by simp)
    · exact key _ _ (by simp)
    · exact key _ _ (by simp)
    · show Ev.gameClosed ≠ _; simp
    · rename_i heq
      exact absurd heq hr

theorem resume_event' (X : Game) (he : X.event = .roundStarted) :
    X.resume.event = .roundStarted ∨ X.resume.event = .roundClosed := by
  unfold Game.resume
  rw [he]
  simp only
  rcases requestPlayerAction_event X with h | h
  · exact Or.inl (h.trans he)
  · exact Or.inr h

/-! ### the invariant along a hand -/

/-- `Lvl`, and the blinds are not being requested (they are requested once, before any fold) -/
structure Good (g : Game) : Prop where
  lvl : Lvl g.lvs g.cw
  ev : g.event ≠ .blindsRequested

theorem good_resume {X : Game} (hm : MidAct X) (hl : Lvl X.lvs X.cw) : Good X.resume :=
  ⟨(LvSame.of (noChip_resume X) (mov_resume X)).lvl hl, by
    rcases resume_event' X hm.ev with e | e <;> rw [e] <;> simp⟩

theorem lvl_setActed {X : Game} (i : Nat) (hl : Lvl X.lvs X.cw) : Lvl (X.setActed i).lvs (X.setActed i).cw :=
  (LvSame.of (noChip_setActed X i) (mov_setActed X i)).lvl hl

theorem fold_of_available {g : Game} {p : Player} {a : Act} (h : a ∈ g.availableActions p) (ha : a ≠ .pass) :
    p.fold = false ∧ p.stack ≠ 0 := by
  by_cases h1 : p.fold = true
  · rw [avail_pass_only g p (Or.inl h1)] at h
    simp at h; exact absurd h ha
  · by_cases h2 : p.stack = 0
    · rw [avail_pass_only g p (Or.inr h2)] at h
      simp at h; exact absurd h ha
    · exact ⟨by simpa using h1, h2⟩

theorem setActed_fold {g : Game} {i : Nat} {p : Player} (hp : g.players[i]? = some p) (hf : p.fold = false) :
    ∀ q, (g.setActed i).players[i]? = some q → q.fold = false := by
  intro q hq
  have : (g.setActed i).players[i]? = some { p with acted := true } := by
    simp [Game.setActed, Game.modP, hp]
  rw [this] at hq; cases hq; exact hf

theorem good_doCall (g : Game) (hi : Inv g) (hg : Good g) (i : Nat) (h : g.allows i .call = true) : Good (g.doCall i) := by
  obtain ⟨p, hp, he, _, hav⟩ := allows_spec hi h
  have hnf := (fold_of_available hav (by simp)).1
  unfold Game.doCall
  rw [hp]
  simp only
  have hw := mem_available_call hav
  have hc : 0 ≤ (if g.cw < g.opts.blindBB then g.opts.blindBB - p.wager else g.cw - p.wager) := by
    split <;> omega
  have hm := midAct_setActed (hi.midAct he) i
  exact good_resume (midAct_pay hm i _ hc)
    (lvl_pay_game hm.chips (lvl_setActed i hg.lvl) i _ hc (setActed_fold hp hnf))

theorem good_doAllin (g : Game) (hi : Inv g) (hg : Good g) (i : Nat) (h : g.allows i .allin = true) : Good (g.doAllin i) := by
  obtain ⟨p, hp, he, _, hav⟩ := allows_spec hi h
  have hnf := (fold_of_available hav (by simp)).1
  unfold Game.doAllin
  rw [hp]
  simp only
  have hm := hi.midAct he
  have hs := (hm.chips.pinv p (List.mem_of_getElem? hp)).stack0
  have hm1 := midAct_setActed hm i
  split
  · rename_i hge
    have hm2 := midAct_setPrev hm1 (p.initial - g.cw) (Int.le_trans hm.chips.prev0 hge)
    exact good_resume (midAct_pay hm2 i _ hs)
      (lvl_pay_game hm2.chips (lvl_setActed i hg.lvl) i _ hs (setActed_fold hp hnf))
  · exact good_resume (midAct_pay hm1 i _ hs)
      (lvl_pay_game hm1.chips (lvl_setActed i hg.lvl) i _ hs (setActed_fold hp hnf))

theorem mem_available_fold {g : Game} {p : Player} (h : Act.fold ∈ g.availableActions p) : p.wager < g.cw := by
  obtain ⟨h1, h2⟩ := fold_of_available h (by simp)
  exact (avail_mem (g := g) h1 h2).2.2.2.1.mp h

theorem good_act (g : Game) (hi : Inv g) (hg : Good g) (i : Nat) (a : Act) (x : Int) : Good (g.act i a x).1 := by
  unfold Game.act
  cases a with
  | pass =>
    simp only
    split
    · exact hg
    · rename_i h
      obtain ⟨p, hp, he, _, _⟩ := allows_spec hi (by simpa using h)
      exact good_resume (midAct_setActed (hi.midAct he) i) (lvl_setActed i hg.lvl)
  | pay =>
    simp only
    split
    · exact hg
    · rename_i h
      obtain ⟨p, hp, he, _, hav⟩ := allows_spec hi (by simpa using h)
      exact absurd hav (not_available_pay g p)
  | fold =>
    simp only
    split
    · exact hg
    · rename_i h
      obtain ⟨p, hp, he, _, hav⟩ := allows_spec hi (by simpa using h)
      have hm := hi.midAct he
      unfold Game.doFold
      exact good_resume (midAct_noChip hm (noChip_modP g i _ (fun _ => rfl)) (soft_modP g i _ (fun _ => rfl)) rfl)
        (lvl_fold_game hm.chips hg.lvl i p hp (mem_available_fold hav))
  | check =>
    simp only
    split
    · exact hg
    · rename_i h
      obtain ⟨p, hp, he, _, _⟩ := allows_spec hi (by simpa using h)
      exact good_resume (midAct_setActed (hi.midAct he) i) (lvl_setActed i hg.lvl)
  | call =>
    simp only
    split
    · exact hg
    · rename_i h; exact good_doCall g hi hg i (by simpa using h)
  | allin =>
    simp only
    split
    · exact hg
    · rename_i h; exact good_doAllin g hi hg i (by simpa using h)
  | bet =>
    simp only
    split
    · exact hg
    · rename_i h
      split
      · exact hg
      · rename_i hx
        obtain ⟨p, hp, he, _, hav⟩ := allows_spec hi (by simpa using h)
        have hnf := (fold_of_available hav (by simp)).1
        have hx' : 0 ≤ x := by omega
        have hm1 := midAct_setActed (hi.midAct he) i
        unfold Game.doBet
        exact good_resume (midAct_recordBet (midAct_pay hm1 i x hx') i)
          (lvl_pay_game hm1.chips (lvl_setActed i hg.lvl) i x hx' (setActed_fold hp hnf))
  | raise =>
    simp only
    split
    · exact hg
    · rename_i h
      split
      · exact hg
      · rename_i hx
        split
        · split
          · exact hg
          · rename_i hc; exact good_doCall g hi hg i (by simpa using hc)
        · rename_i hne
          split
          · exact hg
          · rename_i p hp
            split
            · split
              · exact hg
              · rename_i ha; exact good_doAllin g hi hg i (by simpa using ha)
            · rename_i hnot
              obtain ⟨p', hp', he, _, hav⟩ := allows_spec hi (by simpa using h)
              rw [hp] at hp'; cases hp'
              have hnf := (fold_of_available hav (by simp)).1
              have hm := hi.midAct he
              have hw := hm.chips.wle p (List.mem_of_getElem? hp)
              have hprev := hm.chips.prev0
              have hcw := hm.chips.cw0
              have hxcw : g.cw < x := by omega
              unfold Game.doRaise
              simp only
              have hm2 : MidAct ((g.setActed i).setPrev
                  (if (g.opts.potLimit && decide (x - g.cw > g.cw + g.prev)) = true then g.cw + g.prev else x - g.cw)) := by
                apply midAct_setPrev (midAct_setActed hm i)
                split <;> omega
              have hreq : 0 ≤ (if (g.opts.potLimit && decide (x - g.cw > g.cw + g.prev)) = true
                  then g.cw + g.prev + g.cw - p.wager else x - p.wager) := by
                split <;> omega
              exact good_resume (midAct_pay hm2 i _ hreq)
                (lvl_pay_game hm2.chips (lvl_setActed i hg.lvl) i _ hreq (setActed_fold hp hnf))

/-- the invariant carried along a hand once the forced bets are in -/
structure LInv (g : Game) : Prop where
  rnd : g.round ≠ .none
  good : Good g
  close : CloseLevel g

theorem linv_step {g : Game} (hR : Reachable g) (h : LInv g) (op : Op) : LInv (g.step op).1 := by
  have hi := inv_reachable hR
  have hf := flow_reachable hR
  have hev : g.event ≠ .anteRequested := fun e => h.rnd (hf.ante e).2
  have ok := hi.chips hev
  refine ⟨?_, ?_, ?_⟩
  · rcases round_step g hi hf op with e | ⟨_, _, e, _⟩ | ⟨_, e, _⟩ | ⟨_, _, e⟩
    · rw [e]; exact h.rnd
    · exact absurd e h.rnd
    · exact absurd e h.rnd
    · intro hn
      rw [hn] at e
      simp [Round.idx] at e
  · cases op with
    | ready =>
      show Good g.readyForAll.1
      unfold Game.readyForAll
      split
      · exact h.good
      · have hrd : g.resetAllAllowed.round ≠ .none := h.rnd
        refine ⟨(LvSame.of ((noChip_resetAllAllowed g).trans (noChip_readiness _))
          ((mov_resetAllAllowed g).trans (mov_readiness _))).lvl h.good.lvl, ?_⟩
        show g.resetAllAllowed.readiness.event ≠ _
        unfold Game.readiness
        rw [if_neg hrd]
        rcases startRound_event' g.resetAllAllowed with e | e <;> rw [e] <;> simp
    | payAnte =>
      show Good g.payAnte.1
      unfold Game.payAnte
      by_cases ha : g.opts.ante = 0
      · rw [if_pos ha]; exact h.good
      · rw [if_neg ha, if_pos hev]; exact h.good
    | payBlinds =>
      show Good g.payBlinds.1
      unfold Game.payBlinds
      rw [if_pos h.good.ev]
      exact h.good
    | next =>
      show Good g.next.1
      unfold Game.next
      split
      · exact h.good
      · rename_i he
        have he' : g.event = .roundClosed := by simpa using he
        rw [if_neg h.rnd]
        exact ⟨lvl_nextRound g ok h.good.lvl (h.close he'), nextRound_event' g h.rnd⟩
    | act seat a x =>
      cases seat with
      | none => exact good_act g hi h.good _ a x
      | some i => exact good_act g hi h.good i a x
  · intro hc h2
    by_cases hacc : (g.step op).2 = none
    · exact C05.every_close_level hR op hacc hc h2
    · have e := refused_same g hf op hacc
      rw [e] at hc h2 ⊢
      exact h.close hc h2

theorem linv_run : ∀ (ops : List Op) (g : Game), Reachable g → LInv g → LInv (g.run ops)
  | [], _, _, h => h
  | op :: ops, g, hR, h => linv_run ops _ (hR.step op) (linv_step hR h op)

end Pokerface
