import Pokerface.Proofs.FlowC06
import Pokerface.Properties.C16
/-
  The published pots (`Game.pots`) and the settlement result (`Game.result`) through the
  event chain (used by C01).

  `updatePots` is the only function that writes `pots`, `calculateGameResults` the only one
  that writes `result`; `resetAllPlayerStatus` is the only one that moves chips into the
  per-player `pot` account.  The invariant `PotsOK` says

   * at `RoundClosed` the pots are exactly `potsOf` of the current per-player totals
     (`pot + wager`, fold flag) — they have just been published;
   * at any other wait point the pot totals add up to Σ pot (the part already swept);
   * a result, once written, is `gameResults` of the published pots and the rows of the
     current players, the pots are those of the current players, and all wagers are zero.
-/
namespace Pokerface
open Game

/-- what pot.go `updatePots` feeds to the pot package -/
def Game.entries (g : Game) : List (Nat × Int × Bool) :=
  g.players.map fun p => (p.idx, p.pot + p.wager, p.fold)

/-- what settlement.go `CalculateGameResults` feeds to the settlement package -/
def Game.rows (g : Game) : List (Nat × Int × Bool × Int) :=
  g.players.map fun p => (p.idx, p.bankroll, p.fold, ((p.comb.map (·.power)).getD 0 : Nat))

theorem updatePots_pots (g : Game) : g.updatePots.pots = potsOf g.entries := rfl
theorem calculateGameResults_result (g : Game) :
    g.calculateGameResults.result = some (gameResults g.pots g.rows) := rfl

/-! ## the frame: pots, per-player pot accounts and the result are left alone -/

structure PotsKeep (g g' : Game) : Prop where
  pots : g'.pots = g.pots
  potl : g'.players.map (·.pot) = g.players.map (·.pot)
  result : g'.result = g.result

theorem PotsKeep.refl (g : Game) : PotsKeep g g := ⟨rfl, rfl, rfl⟩
theorem PotsKeep.trans {a b c : Game} (h1 : PotsKeep a b) (h2 : PotsKeep b c) : PotsKeep a c :=
  ⟨h2.pots.trans h1.pots, h2.potl.trans h1.potl, h2.result.trans h1.result⟩

theorem PotsKeep.potSum {g g' : Game} (h : PotsKeep g g') : g'.potSum = g.potSum := by
  simp only [Game.potSum, h.potl]

theorem keep_modP (g : Game) (i : Nat) (f : Player → Player) (hf : ∀ p, (f p).pot = p.pot) : PotsKeep g (g.modP i f) :=
  ⟨rfl, by simp only [Game.modP]; exact map_modify_of_proj (·.pot) f hf g.players i, rfl⟩

theorem keep_mapP (g : Game) (f : Player → Player) (hf : ∀ p, (f p).pot = p.pot) : PotsKeep g (g.mapP f) :=
  ⟨rfl, by simp [Game.mapP, List.map_map, Function.comp_def, hf], rfl⟩

theorem keep_setEvent (g : Game) (e : Ev) : PotsKeep g (g.setEvent e) := ⟨rfl, rfl, rfl⟩
theorem keep_setRound (g : Game) (r : Round) : PotsKeep g (g.setRound r) := ⟨rfl, rfl, rfl⟩
theorem keep_setCur (g : Game) (i : Nat) : PotsKeep g (g.setCur i) := ⟨rfl, rfl, rfl⟩
theorem keep_setRaiser (g : Game) (i : Nat) : PotsKeep g (g.setRaiser i) := ⟨rfl, rfl, rfl⟩
theorem keep_setCw (g : Game) (x : Int) : PotsKeep g (g.setCw x) := ⟨rfl, rfl, rfl⟩
theorem keep_setPrev (g : Game) (x : Int) : PotsKeep g (g.setPrev x) := ⟨rfl, rfl, rfl⟩
theorem keep_addRoundPot (g : Game) (x : Int) : PotsKeep g (g.addRoundPot x) := ⟨rfl, rfl, rfl⟩
theorem keep_resetRoundStatus (g : Game) : PotsKeep g g.resetRoundStatus := ⟨rfl, rfl, rfl⟩
theorem keep_advance (g : Game) (k : Nat) : PotsKeep g (g.advance k) := ⟨rfl, rfl, rfl⟩
theorem keep_burn (g : Game) (k : Nat) : PotsKeep g (g.burn k) := ⟨rfl, rfl, rfl⟩
theorem keep_dealBoard (g : Game) (k : Nat) : PotsKeep g (g.dealBoard k) := ⟨rfl, rfl, rfl⟩
theorem keep_recordBet (g : Game) (i : Nat) : PotsKeep g (g.recordBet i) := ⟨rfl, rfl, rfl⟩

theorem keep_offer (g : Game) (i : Nat) : PotsKeep g (g.offer i) := keep_modP g i _ (fun _ => rfl)
theorem keep_setCurrentPlayer (g : Game) (i : Nat) : PotsKeep g (g.setCurrentPlayer i) :=
  ((keep_modP g g.cur clearAllowed (fun _ => rfl)).trans (keep_setCur _ i)).trans (keep_offer _ i)
theorem keep_resetAllAllowed (g : Game) : PotsKeep g g.resetAllAllowed := keep_mapP g _ (fun _ => rfl)
theorem keep_resetActed (g : Game) : PotsKeep g g.resetActed := keep_mapP g _ (fun _ => rfl)
theorem keep_setActed (g : Game) (i : Nat) : PotsKeep g (g.setActed i) := keep_modP g i _ (fun _ => rfl)
theorem keep_becomeRaiser (g : Game) (i : Nat) : PotsKeep g (g.becomeRaiser i) :=
  ((keep_setRaiser g i).trans (keep_resetActed _)).trans (keep_setActed _ i)

theorem keep_dealHole (g : Game) (i : Nat) : PotsKeep g (g.dealHole i) :=
  (keep_advance g _).trans (keep_modP _ i _ (fun _ => rfl))

theorem keep_dealHoles : ∀ (k i : Nat) (g : Game), PotsKeep g (dealHoles k i g)
  | 0, _, g => PotsKeep.refl g
  | k + 1, i, g => (keep_dealHole g i).trans (keep_dealHoles k (i + 1) _)

theorem newComb_pot (p : Player) (pw : Option Power) : (newComb p pw).pot = p.pot := by
  unfold Game.newComb; split <;> rfl

theorem keep_updateCombinations (g : Game) : PotsKeep g g.updateCombinations :=
  keep_mapP g _ (fun p => newComb_pot p _)

theorem keep_dealStreet (g : Game) : PotsKeep g g.dealStreet := by
  unfold Game.dealStreet
  split
  · exact keep_dealHoles _ _ _
  · exact ((keep_burn g 1).trans (keep_dealBoard _ 3)).trans (keep_setCurrentPlayer _ _)
  · exact ((keep_burn g 1).trans (keep_dealBoard _ 1)).trans (keep_setCurrentPlayer _ _)
  · exact ((keep_burn g 1).trans (keep_dealBoard _ 1)).trans (keep_setCurrentPlayer _ _)
  · exact PotsKeep.refl g

theorem keep_seekBB : ∀ (k : Nat) (g : Game), PotsKeep g (seekBB k g)
  | 0, g => PotsKeep.refl g
  | k + 1, g => by
    unfold Game.seekBB
    split
    · split
      · exact keep_setCurrentPlayer g _
      · exact (keep_setCurrentPlayer g _).trans (keep_seekBB k _)
    · exact keep_setCurrentPlayer g _

theorem keep_requestReady (g : Game) : PotsKeep g g.requestReady :=
  (keep_resetAllAllowed g).trans (keep_setEvent _ _)

/-! ### `pay` moves chips between `stack` and `wager` only -/

theorem keep_payAllin (g : Game) (i : Nat) (p : Player) (w : Bool) : PotsKeep g (g.payAllin i p w) := by
  unfold Game.payAllin
  have h1 : PotsKeep g ((g.addRoundPot (p.initial - p.wager)).modP i goAllin) :=
    (keep_addRoundPot g _).trans (keep_modP _ i _ (fun _ => rfl))
  simp only
  split
  · have h2 : PotsKeep g (if p.initial > g.cw then ((g.addRoundPot (p.initial - p.wager)).modP i goAllin).setCw p.initial
        else (g.addRoundPot (p.initial - p.wager)).modP i goAllin) := by
      split
      · exact h1.trans (keep_setCw _ _)
      · exact h1
    split
    · exact h2.trans (keep_becomeRaiser _ i)
    · exact h2.trans (keep_resetActed _)
  · exact h1

theorem keep_payPart (g : Game) (i : Nat) (p : Player) (c : Int) (w : Bool) : PotsKeep g (g.payPart i p c w) := by
  unfold Game.payPart
  have h1 : PotsKeep g ((g.modP i (putWager (p.wager + c))).addRoundPot c) :=
    (keep_modP g i (putWager (p.wager + c)) (fun _ => rfl)).trans (keep_addRoundPot _ _)
  simp only
  split
  · exact (h1.trans (keep_setCw _ _)).trans (keep_becomeRaiser _ i)
  · exact h1

theorem keep_pay (g : Game) (i : Nat) (c : Int) (w : Bool) : PotsKeep g (g.pay i c w) := by
  unfold Game.pay
  split
  · exact PotsKeep.refl g
  · split
    · exact keep_payAllin g i _ w
    · exact keep_payPart g i _ c w

theorem keep_payBlind (g : Game) (i : Nat) : PotsKeep g (g.payBlind i) := by
  unfold Game.payBlind
  split
  · exact PotsKeep.refl g
  · exact keep_pay g i _ true

theorem keep_foldl_payBlind : ∀ (is : List Nat) (g : Game), PotsKeep g (is.foldl payBlind g)
  | [], g => PotsKeep.refl g
  | i :: is, g => (keep_payBlind g i).trans (keep_foldl_payBlind is _)

theorem keep_payAnteLoop : ∀ (is : List Nat) (g : Game), PotsKeep g (payAnteLoop is g).1
  | [], g => PotsKeep.refl g
  | i :: is, g => by
    unfold Game.payAnteLoop
    split
    · exact PotsKeep.refl g
    · split
      · exact PotsKeep.refl g
      · exact (keep_pay g i _ false).trans (keep_payAnteLoop is _)

/-! ## sums -/

theorem map_idx_range {g : Game} (hs : Struct g) : g.players.map (·.idx) = List.range g.n := by
  apply List.ext_getElem
  · simp [Game.n]
  · intro i h1 h2
    simp only [List.length_map] at h1
    simp only [List.getElem_map, List.getElem_range]
    exact hs.idx i _ (List.getElem?_eq_getElem h1)

theorem entries_valid {g : Game} (hs : Struct g) (hp : ∀ p ∈ g.players, PInv p) : C16.Valid g.entries := by
  constructor
  · have : g.entries.map (·.1) = g.players.map (·.idx) := by
      simp [Game.entries, List.map_map, Function.comp_def]
    rw [this, map_idx_range hs]
    exact List.nodup_range
  · intro e he
    obtain ⟨p, hpm, rfl⟩ := List.mem_map.mp he
    have := (hp p hpm).pot0; have := (hp p hpm).wager0
    show 0 ≤ p.pot + p.wager
    omega

/-- `updatePots`: the totals of the published pots add up to everything put in. -/
theorem sum_fresh {g : Game} (hs : Struct g) (hp : ∀ p ∈ g.players, PInv p) :
    ((potsOf g.entries).map (·.total)).sum = g.potSum + g.wagerSum := by
  rw [C16.totals_sum _ (entries_valid hs hp)]
  simp only [Game.entries, List.map_map, Function.comp_def, Game.potSum, Game.wagerSum]
  exact (sum_map_add g.players (·.pot) (·.wager)).symm

/-- `ResetAllPlayerStatus` sweeps the wagers into the per-player pot accounts. -/
theorem potSum_resetAllPlayerStatus (g : Game) : g.resetAllPlayerStatus.potSum = g.potSum + g.wagerSum := by
  simp only [Game.potSum, Game.wagerSum, Game.resetAllPlayerStatus, Game.mapP, List.map_map, Function.comp_def]
  exact (sum_map_add g.players (·.pot) (·.wager)).symm

theorem wager_resetAllPlayerStatus (g : Game) : ∀ p ∈ g.resetAllPlayerStatus.players, p.wager = 0 := by
  intro p hp
  simp only [Game.resetAllPlayerStatus, Game.mapP] at hp
  obtain ⟨q, _, rfl⟩ := List.mem_map.mp hp
  rfl

theorem wagerSum_zero {g : Game} (h : ∀ p ∈ g.players, p.wager = 0) : g.wagerSum = 0 := by
  unfold Game.wagerSum
  have : g.players.map (·.wager) = g.players.map (fun _ => (0 : Int)) := List.map_congr_left h
  rw [this, sum_map_zero]

theorem pinv_of_noChip {g g' : Game} (h : NoChip g g') (hp : ∀ p ∈ g.players, PInv p) :
    ∀ p ∈ g'.players, PInv p := by
  intro p hpm
  have := forall_of_chips (fun c => ∃ q : Player, q.chips = c ∧ PInv q) h.chips
    (fun q hq => ⟨q, rfl, hp q hq⟩) p hpm
  obtain ⟨q, hq, hqi⟩ := this
  exact PInv_of_chips hq.symm hqi

/-! ## the invariant -/

/-- the pot totals add up to the chips in the per-player pot accounts -/
def PotsEq (g : Game) : Prop := (g.pots.map (·.total)).sum = g.potSum

/-- the pots are those of the current per-player totals -/
def PotsFresh (g : Game) : Prop := g.pots = potsOf g.entries

/-- the result is the settlement of the published pots for the current players -/
structure ResultGood (g : Game) : Prop where
  res : g.result = some (gameResults g.pots g.rows)
  fresh : PotsFresh g
  w0 : ∀ p ∈ g.players, p.wager = 0

structure PotsOK (g : Game) : Prop where
  closed : g.event = .roundClosed → PotsFresh g
  opened : g.event ≠ .roundClosed → PotsEq g
  res : g.result ≠ none → ResultGood g

/-- what the tail of every chain needs from the state it starts in -/
structure PotsPre (g : Game) : Prop where
  eq : PotsEq g
  res : g.result = none

theorem PotsKeep.potsEq {g g' : Game} (h : PotsKeep g g') (e : PotsEq g) : PotsEq g' := by
  unfold PotsEq at *
  rw [h.pots, h.potSum]; exact e

theorem PotsPre.keep {g g' : Game} (p : PotsPre g) (h : PotsKeep g g') : PotsPre g' :=
  ⟨h.potsEq p.eq, h.result.trans p.res⟩

theorem potsOK_of_pre {g : Game} (h : PotsPre g) (he : g.event ≠ .roundClosed) : PotsOK g :=
  ⟨fun e => absurd e he, fun _ => h.eq, fun hr => absurd h.res hr⟩

/-! ### tails of the chain -/

theorem potsOK_roundClosed (g : Game) (hr : g.result = none) : PotsOK g.roundClosed :=
  ⟨fun _ => rfl, fun h => absurd rfl h, fun h => absurd hr h⟩

theorem potsOK_requestPlayerAction (g : Game) (h : PotsPre g) (he : g.event ≠ .roundClosed) :
    PotsOK g.requestPlayerAction := by
  unfold Game.requestPlayerAction
  split
  · exact potsOK_roundClosed g h.res
  · split
    · exact potsOK_roundClosed g h.res
    · split
      · exact potsOK_of_pre h he
      · split
        · exact potsOK_roundClosed g h.res
        · exact potsOK_of_pre (h.keep (keep_setCurrentPlayer g _)) he

theorem potsOK_requestReady (g : Game) (h : PotsPre g) : PotsOK g.requestReady := by
  have he : g.requestReady.event = .readyRequested := rfl
  exact potsOK_of_pre (h.keep (keep_requestReady g)) (by rw [he]; intro h; cases h)

theorem potsOK_prepareRound (g : Game) (h : PotsPre g) : PotsOK g.prepareRound := by
  unfold Game.prepareRound
  split
  · exact potsOK_requestReady g h
  · split
    · exact potsOK_roundClosed g h.res
    · exact potsOK_requestReady g h

theorem potsOK_requestBlinds (g : Game) (h : PotsPre g) : PotsOK g.requestBlinds := by
  unfold Game.requestBlinds
  split
  · exact potsOK_prepareRound _ (h.keep (keep_setEvent g _))
  · have he : (g.setEvent .blindsRequested).event = .blindsRequested := rfl
    exact potsOK_of_pre (h.keep (keep_setEvent g _)) (by rw [he]; intro h; cases h)

theorem potsOK_afterRoundInitialized (g : Game) (h : PotsPre g) : PotsOK g.afterRoundInitialized := by
  unfold Game.afterRoundInitialized
  split
  · exact potsOK_requestBlinds g h
  · exact potsOK_prepareRound g h

theorem potsOK_initializeRound (g : Game) (h : PotsPre g) : PotsOK g.initializeRound :=
  potsOK_afterRoundInitialized _
    (h.keep (((keep_dealStreet g).trans (keep_updateCombinations _)).trans (keep_setEvent _ _)))

theorem potsOK_enterRound (g : Game) (r : Round) (h : PotsPre g) : PotsOK (g.enterRound r) :=
  potsOK_initializeRound _ (h.keep (keep_setRound g r))

theorem potsOK_openRound (g : Game) (h : PotsPre g) : PotsOK g.openRound := by
  have he : (g.setEvent .roundStarted).event = .roundStarted := rfl
  exact potsOK_requestPlayerAction _ (h.keep (keep_setEvent g _)) (by rw [he]; intro h; cases h)

theorem potsOK_startRound' (g : Game) (h : PotsPre g) : PotsOK g.startRound' := by
  unfold Game.startRound'
  split
  · split
    · exact potsOK_roundClosed g h.res
    · exact potsOK_openRound _ (h.keep ((keep_setCurrentPlayer g _).trans (keep_seekBB _ _)))
  · exact potsOK_openRound _ (h.keep (keep_setCurrentPlayer g _))

theorem potsOK_startRound (g : Game) (h : PotsPre g) : PotsOK g.startRound :=
  potsOK_startRound' _ (h.keep (keep_resetAllAllowed g))

theorem potsOK_readiness (g : Game) (h : PotsPre g) : PotsOK g.readiness := by
  unfold Game.readiness
  split
  · split
    · have he : (g.setEvent .anteRequested).event = .anteRequested := rfl
      exact potsOK_of_pre (h.keep (keep_setEvent g _)) (by rw [he]; intro h; cases h)
    · exact potsOK_enterRound g _ h
  · exact potsOK_startRound g h

/-- settlement: pots republished from the per-player totals, result computed from them -/
theorem potsOK_gameCompleted (g : Game) (hs : Struct g) (hp : ∀ p ∈ g.players, PInv p)
    (hw : ∀ p ∈ g.players, p.wager = 0) : PotsOK g.gameCompleted := by
  have he : g.gameCompleted.event = .gameClosed := rfl
  refine ⟨(by rw [he]; intro h; cases h), fun _ => ?_, fun _ => ⟨rfl, rfl, hw⟩⟩
  show ((potsOf g.entries).map (·.total)).sum = g.potSum
  rw [sum_fresh hs hp, wagerSum_zero hw]; omega

theorem potsOK_nextRound' (g : Game) (h : PotsPre g) (hs : Struct g) (hp : ∀ p ∈ g.players, PInv p)
    (hw : ∀ p ∈ g.players, p.wager = 0) (hr : g.round ≠ .none) : PotsOK g.nextRound' := by
  unfold Game.nextRound'
  split
  · exact potsOK_gameCompleted g hs hp hw
  · split
    · exact potsOK_enterRound g _ h
    · exact potsOK_enterRound g _ h
    · exact potsOK_enterRound g _ h
    · exact potsOK_gameCompleted g hs hp hw
    · rename_i h0; exact absurd h0 hr

theorem potsOK_resume (g : Game) (hr : g.result = none) (h : g.event ≠ .roundClosed → PotsEq g) :
    PotsOK g.resume := by
  unfold Game.resume
  split
  · rename_i he
    have hne : g.event ≠ .roundClosed := by rw [he]; intro h; cases h
    exact potsOK_requestPlayerAction g ⟨h hne, hr⟩ hne
  · exact potsOK_roundClosed g hr
  · rename_i h1 h2
    exact potsOK_of_pre ⟨h h2, hr⟩ h2

/-! ### operations -/

theorem potsOK_readyForAll (g : Game) (ok : PotsOK g) (hr : g.result = none) : PotsOK g.readyForAll.1 := by
  unfold Game.readyForAll
  split
  · exact ok
  · rename_i he
    have he' : g.event = .readyRequested := by simpa using he
    have hp : PotsPre g := ⟨ok.opened (by rw [he']; intro h; cases h), hr⟩
    exact potsOK_readiness _ (hp.keep (keep_resetAllAllowed g))

theorem potsOK_antePaid (g : Game) (h : AnteInv g) (hr : g.result = none) : PotsOK g.antePaid := by
  unfold Game.antePaid
  let g0 := g.resetAllAllowed.setEvent .antePaid
  have n0 : NoChip g g0 := (noChip_resetAllAllowed g).trans (noChip_setEvent _ _)
  have s0 : Struct g0 := n0.struct h.struct
  have p0 : ∀ p ∈ g0.players, PInv p := pinv_of_noChip n0 h.chips0.pinv
  have pre : PotsPre g0.updatePots.resetAllPlayerStatus := by
    refine ⟨?_, hr⟩
    show ((potsOf g0.entries).map (·.total)).sum = g0.updatePots.resetAllPlayerStatus.potSum
    rw [potSum_resetAllPlayerStatus, sum_fresh s0 p0]
    rfl
  exact potsOK_enterRound _ _ (pre.keep (keep_resetRoundStatus _))

theorem potsOK_payAnte (g : Game) (hi : Inv g) (ok : PotsOK g) (hr : g.result = none) : PotsOK g.payAnte.1 := by
  unfold Game.payAnte
  split
  · exact ok
  · split
    · exact ok
    · rename_i he
      have he' : g.event = .anteRequested := by simpa using he
      have ha : AnteInv g := ⟨hi.opts, hi.struct, hi.chips0, by
        have := hi.post.allowed; simpa [he'] using this, he'⟩
      have hl := anteInv_loop g.seatsFromDealer g ha
      have hk := keep_payAnteLoop g.seatsFromDealer g
      have hp : PotsPre g := ⟨ok.opened (by rw [he']; intro h; cases h), hr⟩
      split
      · rename_i g' e heq
        have : g' = (payAnteLoop g.seatsFromDealer g).1 := by rw [heq]
        rw [this]
        exact potsOK_of_pre (hp.keep hk) (by rw [hl.ev]; intro h; cases h)
      · rename_i g' heq
        have : g' = (payAnteLoop g.seatsFromDealer g).1 := by rw [heq]
        simp only
        rw [this]
        exact potsOK_antePaid _ hl (hk.result.trans hr)

theorem potsOK_payBlinds (g : Game) (ok : PotsOK g) (hr : g.result = none) : PotsOK g.payBlinds.1 := by
  unfold Game.payBlinds
  split
  · exact ok
  · rename_i he
    have he' : g.event = .blindsRequested := by simpa using he
    have hp : PotsPre g := ⟨ok.opened (by rw [he']; intro h; cases h), hr⟩
    unfold Game.blindsPaid
    exact potsOK_prepareRound _ (hp.keep ((((keep_foldl_payBlind _ g).trans (keep_setPrev _ _)).trans
      (keep_resetAllAllowed _)).trans (keep_setEvent _ _)))

theorem potsOK_nextRound (g : Game) (hi : Inv g) (hf : PotsFresh g) (hres : g.result = none) (hr : g.round ≠ .none) :
    PotsOK g.nextRound := by
  unfold Game.nextRound
  let g1 := g.resetRoundStatus.resetAllPlayerStatus
  have ok1 : ChipsOK g1 := chipsOK_resets (g := g) rfl rfl rfl rfl hi.chips0
  have sr : Struct g.resetRoundStatus :=
    struct_of_static (static_resetRoundStatus g) (dealerIdx_lt hi.struct) hi.struct
  have s1 : Struct g1 := struct_of_static (static_resetAllPlayerStatus _) sr.cur sr
  have pre : PotsPre g1 := by
    refine ⟨?_, hres⟩
    show (g.pots.map (·.total)).sum = g.resetRoundStatus.resetAllPlayerStatus.potSum
    rw [potSum_resetAllPlayerStatus, hf]
    exact sum_fresh hi.struct hi.chips0.pinv
  exact potsOK_nextRound' g1 pre s1 ok1.pinv (wager_resetAllPlayerStatus _) hr

theorem potsOK_next (g : Game) (hi : Inv g) (ok : PotsOK g) (hr : g.result = none) : PotsOK g.next.1 := by
  unfold Game.next
  split
  · exact ok
  · rename_i he
    split
    · exact ok
    · rename_i hrd
      exact potsOK_nextRound g hi (ok.closed (by simpa using he)) hr hrd

/-- the part of a player action before `resume`: pots, pot accounts, result and event untouched -/
structure PotsKeepE (g g' : Game) : Prop where
  keep : PotsKeep g g'
  event : g'.event = g.event

theorem PotsKeepE.trans {a b c : Game} (h1 : PotsKeepE a b) (h2 : PotsKeepE b c) : PotsKeepE a c :=
  ⟨h1.keep.trans h2.keep, h2.event.trans h1.event⟩

theorem keepE_setActed (g : Game) (i : Nat) : PotsKeepE g (g.setActed i) := ⟨keep_setActed g i, rfl⟩
theorem keepE_setPrev (g : Game) (x : Int) : PotsKeepE g (g.setPrev x) := ⟨keep_setPrev g x, rfl⟩
theorem keepE_recordBet (g : Game) (i : Nat) : PotsKeepE g (g.recordBet i) := ⟨keep_recordBet g i, rfl⟩
theorem keepE_pay (g : Game) (i : Nat) (c : Int) (w : Bool) : PotsKeepE g (g.pay i c w) := ⟨keep_pay g i c w, pay_event g i c w⟩

theorem potsOK_body {g g' : Game} (ok : PotsOK g) (hr : g.result = none) (k : PotsKeepE g g') : PotsOK g'.resume :=
  potsOK_resume g' (k.keep.result.trans hr) (fun hne => k.keep.potsEq (ok.opened (k.event ▸ hne)))

theorem potsOK_doCall (g : Game) (ok : PotsOK g) (hr : g.result = none) (i : Nat) : PotsOK (g.doCall i) := by
  unfold Game.doCall
  split
  · exact ok
  · exact potsOK_body ok hr ((keepE_setActed g i).trans (keepE_pay _ i _ true))

theorem potsOK_doAllin (g : Game) (ok : PotsOK g) (hr : g.result = none) (i : Nat) : PotsOK (g.doAllin i) := by
  unfold Game.doAllin
  split
  · exact ok
  · rename_i p hp
    apply potsOK_body ok hr
    have h1 : PotsKeepE g (if p.initial - g.cw ≥ g.prev then (g.setActed i).setPrev (p.initial - g.cw) else g.setActed i) := by
      split
      · exact (keepE_setActed g i).trans (keepE_setPrev _ _)
      · exact keepE_setActed g i
    exact h1.trans (keepE_pay _ i _ true)

theorem potsOK_act (g : Game) (ok : PotsOK g) (hr : g.result = none) (i : Nat) (a : Act) (x : Int) :
    PotsOK (g.act i a x).1 := by
  unfold Game.act
  cases a with
  | pass =>
    simp only
    split
    · exact ok
    · exact potsOK_body ok hr (keepE_setActed g i)
  | pay =>
    simp only
    split
    · exact ok
    · exact potsOK_body ok hr (keepE_pay g i x true)
  | fold =>
    simp only
    split
    · exact ok
    · unfold Game.doFold
      exact potsOK_body ok hr ⟨keep_modP g i _ (fun _ => rfl), rfl⟩
  | check =>
    simp only
    split
    · exact ok
    · exact potsOK_body ok hr (keepE_setActed g i)
  | call =>
    simp only
    split
    · exact ok
    · exact potsOK_doCall g ok hr i
  | allin =>
    simp only
    split
    · exact ok
    · exact potsOK_doAllin g ok hr i
  | bet =>
    simp only
    split
    · exact ok
    · split
      · exact ok
      · unfold Game.doBet
        exact potsOK_body ok hr (((keepE_setActed g i).trans (keepE_pay _ i x true)).trans (keepE_recordBet _ i))
  | raise =>
    simp only
    split
    · exact ok
    · split
      · exact ok
      · split
        · split
          · exact ok
          · exact potsOK_doCall g ok hr i
        · split
          · exact ok
          · split
            · split
              · exact ok
              · exact potsOK_doAllin g ok hr i
            · unfold Game.doRaise
              simp only
              exact potsOK_body ok hr (((keepE_setActed g i).trans (keepE_setPrev _ _)).trans (keepE_pay _ i _ true))

theorem potsOK_step (g : Game) (hi : Inv g) (hf : Flow g) (ok : PotsOK g) (op : Op) : PotsOK (g.step op).1 := by
  by_cases he : g.event = .gameClosed
  · rw [(closed_refuses g hi he op).2]; exact ok
  · have hr : g.result = none := by
      cases h : g.result with
      | none => rfl
      | some r => exact absurd (hf.res.mp (by rw [h]; rfl)) he
    unfold Game.step
    cases op with
    | ready => exact potsOK_readyForAll g ok hr
    | payAnte => exact potsOK_payAnte g hi ok hr
    | payBlinds => exact potsOK_payBlinds g ok hr
    | next => exact potsOK_next g hi ok hr
    | act seat a x =>
      cases seat with
      | none => exact potsOK_act g ok hr _ a x
      | some i => exact potsOK_act g ok hr i a x

theorem potsOK_run (g : Game) (hi : Inv g) (hf : Flow g) (ok : PotsOK g) (ops : List Op) : PotsOK (g.run ops) := by
  induction ops generalizing g with
  | nil => exact ok
  | cons op ops ih => exact ih _ (inv_step g hi op) (flow_step g hi hf op) (potsOK_step g hi hf ok op)

theorem potsOK_start (c : Config) (h : (start c).2 = none) : PotsOK (start c).1 := by
  obtain ⟨_, _, he⟩ := start_ok c h
  rw [he]
  have h0 : PotsPre c.game0 := by
    refine ⟨?_, rfl⟩
    show (([] : List Pot).map (·.total)).sum = (c.players.map (·.pot)).sum
    have : c.players.map (·.pot) = c.players.map (fun _ => (0 : Int)) := by
      apply List.map_congr_left
      intro p hp
      obtain ⟨i, hi, hpi⟩ := List.getElem_of_mem hp
      exact (config_players_getElem c i p (by simp [List.getElem?_eq_getElem hi, hpi])).2.2.2.2.1
    rw [this, sum_map_zero]; rfl
  exact potsOK_requestReady _ (h0.keep (keep_resetRoundStatus _))

theorem potsOK_reachable {g : Game} (h : Reachable g) : PotsOK g := by
  obtain ⟨c, ops, wf, hs, rfl⟩ := h
  exact potsOK_run _ (inv_start c wf hs) (flow_start c hs) (potsOK_start c hs) ops

/-- Published pots add up to what the players have put in: everything at `RoundClosed`
    (per-player pot + current wagers), the swept part otherwise. -/
theorem pots_total_of {g : Game} (hi : Inv g) (ok : PotsOK g) :
    (g.pots.map (·.total)).sum = g.potSum + (if g.event = .roundClosed then g.wagerSum else 0) := by
  by_cases he : g.event = .roundClosed
  · rw [if_pos he, ok.closed he]
    exact sum_fresh hi.struct hi.chips0.pinv
  · rw [if_neg he, ok.opened he]; omega

end Pokerface
