import Pokerface.Properties.C01
import Pokerface.Properties.C03
import Pokerface.Properties.C05
import Pokerface.Properties.C10
import Pokerface.Properties.C14
import Pokerface.Proofs.LinksScore
/-
  Links, part 2: engine-side glue between the separately proved properties.

  * the cards a player can select from (own hole cards + board) are pairwise distinct cards of
    the deck of the configuration (C14), hence every admissible selection is; with five cards it
    is a `C03.Valid` hand;
  * C10's `ReportedBest` holds from the preflop round on (C10 states it for a non-empty board);
  * every published strength is positive (`LinksScore.score_pos`), so the seats of a hand are in
    the domain of C02.
-/
namespace Pokerface
open Game Generated

/-- A configuration of a real poker variant, as far as the links need it:
    accepted by `Start()` with non-negative forced bets (`wf`, `started`: the domain of C01),
    a duplicate-free deck long enough for all hole cards + 8 (`cards`: the domain of C14),
    whose cards have one of the four suits of deck.go and a rank 2..14 (the domain of C03),
    the shipped category sizes, ranking table `T`, and the domain of C10 for the selection rule
    (`RequiredHoleCardsCount < 5`, `HoleCardsCount ≤ 4`). -/
structure PokerConfig (T : List Cat) (c : Config) : Prop where
  wf : WFConfig c
  cards : WFCards c
  started : (start c).2 = none
  suits : ∀ x ∈ c.opts.deck, x.suit ∈ suitCodes
  ranks : ∀ x ∈ c.opts.deck, 2 ≤ x.rank ∧ x.rank ≤ 14
  lvl : c.opts.lvl = combinationLevel
  table : c.opts.table = T
  req : c.opts.required < 5
  hole : c.opts.holeCount ≤ 4

namespace PokerConfig
variable {T : List Cat} {c : Config}

theorem reachC (h : PokerConfig T c) (ops : List Op) : ReachableC ((start c).1.run ops) :=
  ⟨c, ops, h.wf, h.cards, h.started, rfl⟩

theorem reach (h : PokerConfig T c) (ops : List Op) : Reachable ((start c).1.run ops) :=
  (h.reachC ops).reachable

theorem opts (_h : PokerConfig T c) (ops : List Op) : ((start c).1.run ops).opts = c.opts :=
  Game.opts_run c ops

end PokerConfig

/-! ### board cards are among the dealt cards -/

theorem mem_streetCards_of_mem_board {B F : List Card} (hF : F.length ≤ 5) {x : Card} (hx : x ∈ F) :
    x ∈ streetCards B F := by
  have hsplit : F = F.take 3 ++ ((F.drop 3).take 1 ++ (F.drop 4).take 1) := by
    rcases F with _ | ⟨a, _ | ⟨b, _ | ⟨c, _ | ⟨d, _ | ⟨e, _ | ⟨f, F⟩⟩⟩⟩⟩⟩ <;> simp at hF ⊢
  rw [hsplit] at hx
  simp only [List.mem_append] at hx
  unfold streetCards
  simp only [List.mem_append]
  rcases hx with h | h | h
  · exact Or.inl (Or.inl (Or.inl (Or.inl (Or.inr h))))
  · exact Or.inl (Or.inl (Or.inr h))
  · exact Or.inr h

/-- C14 for one seat: in every reachable state a player's hole cards followed by the board are
    pairwise distinct cards of the deck of the hand. -/
theorem own_cards_of_reachable {g : Game} (h : ReachableC g) {p : Player} (hp : p ∈ g.players) :
    (p.hole ++ g.board).Nodup ∧ ∀ x ∈ p.hole ++ g.board, x ∈ g.opts.deck := by
  obtain ⟨_, hpl, hbn, _, _⟩ := C14.no_card_in_two_places h
  obtain ⟨hhn, hdis⟩ := hpl p hp
  constructor
  · rw [List.nodup_append]
    exact ⟨hhn, hbn, fun a ha b hb hab => (hdis a ha).1 (hab ▸ hb)⟩
  · intro x hx
    have hpre := C14.dealt_is_prefix h
    have hb5 : g.board.length ≤ 5 := by
      rw [(C14.counts h).2.1]; cases g.round <;> decide
    have hd : x ∈ g.players.flatMap (·.hole) ++ streetCards g.burned g.board := by
      rcases List.mem_append.mp hx with hx | hx
      · exact List.mem_append_left _ (List.mem_flatMap.mpr ⟨p, hp, hx⟩)
      · exact List.mem_append_right _ (mem_streetCards_of_mem_board hb5 hx)
    rw [hpre] at hd
    exact List.mem_of_mem_take hd

/-- Every admissible selection consists of pairwise distinct cards of the deck. -/
theorem selection_of_reachable {g : Game} (h : ReachableC g) {p : Player} (hp : p ∈ g.players)
    {req : Nat} {s : List Card} (hs : Admissible g.board p.hole req s) :
    s.Nodup ∧ ∀ x ∈ s, x ∈ g.opts.deck := by
  obtain ⟨hn, hm⟩ := own_cards_of_reachable h hp
  exact ⟨hn.sublist hs.sublist, fun x hx => hm x (hs.sublist.subset hx)⟩

/-- All admissible selections of one player have the same number of cards. -/
theorem Admissible.length_eq {α : Type} {board hole : List α} {req : Nat} {s s' : List α}
    (h : Admissible board hole req s) (h' : Admissible board hole req s') : s.length = s'.length := by
  by_cases hreq : req = 0
  · rw [Admissible, if_pos hreq] at h h'
    rw [h.2, h'.2]
  · rw [Admissible, if_neg hreq] at h h'
    obtain ⟨hs, bs, rfl, _, h2, _, h4⟩ := h
    obtain ⟨hs', bs', rfl, _, h2', _, h4'⟩ := h'
    rw [List.length_append, List.length_append, h2, h4, h2', h4']

/-- An admissible selection of a player who holds at least one hole card is not empty. -/
theorem Admissible.ne_nil {α : Type} {board hole : List α} {req : Nat} {s : List α}
    (h : Admissible board hole req s) (hh : 1 ≤ hole.length) : s ≠ [] := by
  intro hnil
  by_cases hreq : req = 0
  · rw [Admissible, if_pos hreq] at h
    have := h.2
    rw [hnil, List.length_nil] at this
    omega
  · rw [Admissible, if_neg hreq] at h
    obtain ⟨hs, bs, rfl, _, h2, _, _⟩ := h
    have h0 : hs = [] := (List.append_eq_nil_iff.mp hnil).1
    rw [h0, List.length_nil] at h2
    omega

/-! ### the published combination, from the preflop round on -/

/-- C10's `reported_hand_is_best`, from the moment cards are dealt (C10 states it for a
    non-empty board; the preflop "hand" is the hole cards alone). -/
theorem reported_from_preflop (cfg : Config) (ops : List Op)
    (hreq : cfg.opts.required < 5) (hhc : cfg.opts.holeCount ≤ 4) :
    let g := (start cfg).1.run ops
    (g.board ≠ [] ∨ g.round ≠ .none) →
    ∀ p ∈ g.players, ∃ c, p.comb = some c ∧
      C10.ReportedBest cfg.opts.lvl cfg.opts.table cfg.opts.required g.board p.hole c := by
  intro g hne p hp
  obtain ⟨ho, hb, hpl⟩ := C10.domain_bounds_on_all_histories cfg ops
  obtain ⟨hh, hs⟩ := hpl p hp
  obtain ⟨c, hc⟩ := Option.isSome_iff_exists.mp hs
  refine ⟨c, hc, ?_⟩
  have := C10.reported_of_fresh g (C10.fresh_on_all_histories cfg ops hne) (by rw [ho]; exact hreq) hb p hp
    (by omega) c hc
  rw [ho] at this
  exact this

/-- the strength of a `ReportedBest` combination is the score of the selection it reports -/
theorem reported_power_eq {lvl : Cat → Nat} {pr : List Cat} {c : Comb} {sel : List Card} (hperm : c.cards.Perm sel)
    (hpow : c.power = (calculatePower lvl pr c.cards).score) :
    c.power = (calculatePower lvl pr sel).score := by
  rw [hpow, (calculatePower_of_perm lvl pr hperm).2]

/-! ### five-card selections are `C03.Valid`; the reported hand under the poker order -/

/-- C14 + C03: in every state of a hand of a `PokerConfig`, every admissible five-card selection
    of every player is a `C03.Valid` hand (five distinct cards of a four-suit deck, ranks 2..14). -/
theorem selection_valid {T : List Cat} {cfg : Config} (hc : PokerConfig T cfg) (ops : List Op)
    {p : Player} (hp : p ∈ ((start cfg).1.run ops).players) {req : Nat} {s : List Card}
    (hs : Admissible ((start cfg).1.run ops).board p.hole req s) (h5 : s.length = 5) : C03.Valid s := by
  obtain ⟨hn, hm⟩ := selection_of_reachable (hc.reachC ops) hp hs
  have hdeck : ∀ x ∈ s, x ∈ cfg.opts.deck := fun x hx => hc.opts ops ▸ hm x hx
  exact C03.valid_of_distinct s h5 hn (fun x hx => hc.suits x (hdeck x hx)) (fun x hx => hc.ranks x (hdeck x hx))

/-- The core of LINK 1, for any ranking table `T` for which score order and poker order agree on
    the valid hands satisfying `ok` (C03 proves this for the standard table with `ok` = all hands,
    and for the short-deck table with `ok` = "not A-9-8-7-6").  In every state from the deal on and
    for every seat: a combination is published; its cards are an admissible selection (up to
    order); and whenever selections have five cards, the published cards are a valid hand, the
    published category is the category of those cards by the rules, and no admissible selection
    has a greater poker key. -/
theorem reported_poker_best_of {T : List Cat} {cfg : Config} (hc : PokerConfig T cfg) (ops : List Op)
    (ok : List Card → Prop)
    (hlt : ∀ h₁ h₂, C03.Valid h₁ → C03.Valid h₂ → ok h₁ → ok h₂ →
      ((calculatePower combinationLevel T h₁).score < (calculatePower combinationLevel T h₂).score
        ↔ C03.pokerKey T h₁ < C03.pokerKey T h₂)) :
    let g := (start cfg).1.run ops
    (g.board ≠ [] ∨ g.round ≠ .none) →
    ∀ p ∈ g.players, ∃ c, p.comb = some c ∧
      (∃ sel, Admissible g.board p.hole cfg.opts.required sel ∧ c.cards.Perm sel) ∧
      ∀ s, Admissible g.board p.hole cfg.opts.required s → s.length = 5 →
        C03.Valid c.cards ∧ C03.Valid s ∧
        c.cat = some (C03.specCat (C03.ranks c.cards) (C03.sameSuit c.cards)) ∧
        (ok c.cards → ok s → ¬ C03.pokerKey T c.cards < C03.pokerKey T s) := by
  intro g hne p hp
  obtain ⟨c, hcomb, sel, hadm, _, hperm, hcat, hpow, _, hmax⟩ :=
    reported_from_preflop cfg ops hc.req hc.hole hne p hp
  refine ⟨c, hcomb, ⟨sel, hadm, hperm⟩, ?_⟩
  intro s hs h5
  have hvs : C03.Valid s := selection_valid hc ops hp hs h5
  have hvsel : C03.Valid sel := selection_valid hc ops hp hadm (by rw [hadm.length_eq hs]; exact h5)
  have hvc : C03.Valid c.cards := C03.valid_perm hperm.symm hvsel
  refine ⟨hvc, hvs, ?_, ?_⟩
  · rw [hcat, C03.category_correct _ _ _ hvc]
  · intro hok1 hok2 hkey
    have h1 := (hlt c.cards s hvc hvs hok1 hok2).mpr hkey
    have h2 := hmax s s hs (List.Perm.refl s)
    rw [hpow, hc.lvl, hc.table] at h2
    omega

/-- From the flop on every admissible selection has five cards when the rule is "any five" with
    at least two hole cards, or "exactly `k`" with `2 ≤ k ≤ HoleCardsCount` (hold'em: 0 of 2;
    Omaha-like: 2 of 4). -/
def FiveCardRule (m : Meta) : Prop :=
  (m.required = 0 ∧ 2 ≤ m.holeCount) ∨ (2 ≤ m.required ∧ m.required ≤ m.holeCount)

theorem five_cards_from_flop {T : List Cat} {cfg : Config} (hc : PokerConfig T cfg) (h5 : FiveCardRule cfg.opts)
    (ops : List Op) {p : Player} (hp : p ∈ ((start cfg).1.run ops).players)
    (hb : 3 ≤ ((start cfg).1.run ops).board.length) {s : List Card}
    (hs : Admissible ((start cfg).1.run ops).board p.hole cfg.opts.required s) : s.length = 5 := by
  have hR := hc.reachC ops
  have hcnt := C14.counts hR
  have hr : ((start cfg).1.run ops).round ≠ .none := by
    intro h0
    have hb0 : ((start cfg).1.run ops).board.length = 0 := by
      have := hcnt.2.1
      rw [h0] at this
      exact this
    omega
  have hhole : p.hole.length = cfg.opts.holeCount := by
    have := hcnt.1 p hp
    rw [if_neg hr, hc.opts ops] at this
    exact this
  have hreq := hc.req
  clear hcnt
  rcases h5 with ⟨h0, h2⟩ | ⟨h2, hle⟩
  · rw [Admissible, if_pos h0] at hs
    rw [hs.2]; omega
  · exact hs.length_eq_five (by omega) (by omega) (by omega)

/-! ### positivity of every published strength -/

/-- Among pairwise distinct cards with suits from the four suits there is a card above the deuce
    as soon as there are five of them. -/
theorem exists_above_deuce {s : List Card} (hn : s.Nodup) (hs : ∀ x ∈ s, x.suit ∈ suitCodes)
    (hr : ∀ x ∈ s, 2 ≤ x.rank) (h5 : 5 ≤ s.length) : ∃ x ∈ s, 2 < x.rank := by
  apply Classical.byContradiction
  intro hno
  have hall : ∀ x ∈ s, x.rank = 2 := by
    intro x hx
    have := hr x hx
    have : ¬ 2 < x.rank := fun h => hno ⟨x, hx, h⟩
    omega
  have hc := C03.count_rank_le suitCodes s hn hs 2
  have hcnt : (C03.ranks s).count 2 = (C03.ranks s).length := by
    apply List.count_eq_length.mpr
    intro r hr'
    obtain ⟨x, hx, rfl⟩ := List.mem_map.mp hr'
    exact (hall x hx).symm
  have hlen : (C03.ranks s).length = s.length := by simp [C03.ranks]
  rw [hcnt, hlen] at hc
  have : suitCodes.length = 4 := rfl
  omega

/-- **Positivity of the published strengths.**  For a `PokerConfig` with a shipped table and at
    least one hole card per player, in every state from the preflop round on every seat has a
    combination and its strength is positive. -/
theorem comb_power_pos {T : List Cat} (hT : ShippedTable T) {cfg : Config} (hc : PokerConfig T cfg)
    (h1 : 1 ≤ cfg.opts.holeCount) (ops : List Op) :
    let g := (start cfg).1.run ops
    g.round ≠ .none → ∀ p ∈ g.players, ∃ c, p.comb = some c ∧ 0 < c.power := by
  intro g hr p hp
  obtain ⟨c, hcomb, sel, hadm, _, hperm, _, hpow, _, _⟩ :=
    reported_from_preflop cfg ops hc.req hc.hole (Or.inr hr) p hp
  refine ⟨c, hcomb, ?_⟩
  have hR := hc.reachC ops
  have hopts := hc.opts ops
  obtain ⟨hn, hm⟩ := selection_of_reachable hR hp hadm
  have hdeck : ∀ x ∈ sel, x ∈ cfg.opts.deck := fun x hx => hopts ▸ hm x hx
  have hhole : p.hole.length = cfg.opts.holeCount := by
    have := (C14.counts hR).1 p hp
    rw [if_neg hr, hopts] at this
    exact this
  have hne : sel ≠ [] := hadm.ne_nil (by omega)
  rw [reported_power_eq hperm hpow, hc.lvl, hc.table]
  apply score_pos hT sel hne (fun x hx => (hc.ranks x (hdeck x hx)).1)
  by_cases h4 : sel.length ≤ 4
  · exact Or.inl h4
  · exact Or.inr (exists_above_deuce hn (fun x hx => hc.suits x (hdeck x hx))
      (fun x hx => (hc.ranks x (hdeck x hx)).1) (by omega))

/-! ### the seats of a hand are in the domain of C02 -/

/-- the `C02.Seat` record of a player (what `Game.seats` maps over the players) -/
def seatOf (p : Player) : C02.Seat :=
  ⟨p.idx, p.bankroll, p.pot + p.wager, p.fold, ((p.comb.map (·.power)).getD 0 : Nat)⟩

theorem seats_eq (g : Game) : g.seats = g.players.map seatOf := rfl

theorem mem_seats {g : Game} {p : Player} (hp : p ∈ g.players) : seatOf p ∈ g.seats :=
  List.mem_map_of_mem hp

/-- `C02.Valid` for the seats of a reachable state in which every non-folded player holds a
    positive strength. -/
theorem seats_valid_of_pos {g : Game} (h : Reachable g)
    (hpos : ∀ p ∈ g.players, p.fold = false → ∃ c, p.comb = some c ∧ 0 < c.power) : C02.Valid g.seats := by
  have hi := inv_reachable h
  constructor
  · have : g.seats.map (·.idx) = g.players.map (·.idx) := by
      simp [seats_eq, seatOf, List.map_map, Function.comp_def]
    rw [this, map_idx_range hi.struct]
    exact List.nodup_range
  · intro s hs
    obtain ⟨p, hp, rfl⟩ := List.mem_map.mp hs
    have hpi := hi.chips0.pinv p hp
    refine ⟨?_, ?_⟩
    · show 0 ≤ p.pot + p.wager
      have := hpi.pot0; have := hpi.wager0; omega
    · intro hf
      obtain ⟨c, hc, hpw⟩ := hpos p hp hf
      show (0 : Int) < ((p.comb.map (·.power)).getD 0 : Nat)
      rw [hc]
      simp only [Option.map_some, Option.getD_some]
      exact Int.natCast_pos.mpr hpw

/-- a closed hand is past the deal -/
theorem round_ne_none_of_closed {g : Game} (h : Reachable g) (he : g.event = .gameClosed) : g.round ≠ .none := by
  intro hr
  rcases ((flow_reachable h).rnd0 hr).1 with h1 | h1 <;> rw [he] at h1 <;> cases h1

/-! ### the showdown between live hands compares five-card poker hands -/

/-- At a showdown (closed hand, at least two players not folded) of a `PokerConfig` with a
    five-card rule: the board is full (C05), every seat has a published combination whose cards
    are a `C03.Valid` five-card hand, an admissible selection up to order, and whose strength is
    the evaluator's score of exactly those cards. -/
theorem showdown_hand {T : List Cat} {cfg : Config} (hc : PokerConfig T cfg) (h5 : FiveCardRule cfg.opts)
    (ops : List Op) :
    let g := (start cfg).1.run ops
    g.event = .gameClosed → 2 ≤ g.aliveCount →
    g.board.length = 5 ∧
    ∀ p ∈ g.players, ∃ c, p.comb = some c ∧ C03.Valid c.cards ∧
      (∃ sel, Admissible g.board p.hole cfg.opts.required sel ∧ c.cards.Perm sel) ∧
      c.power = (calculatePower combinationLevel T c.cards).score := by
  intro g he h2
  have hR := hc.reachC ops
  have hb : g.board.length = 5 :=
    C05.full_board_at_showdown hR.reachable (cinv_reachable hR).core.long he h2
  refine ⟨hb, ?_⟩
  intro p hp
  have hne : g.board ≠ [] := by intro h0; rw [h0] at hb; simp at hb
  obtain ⟨c, hcomb, sel, hadm, _, hperm, _, hpow, _, _⟩ :=
    reported_from_preflop cfg ops hc.req hc.hole (Or.inl hne) p hp
  have hlen : sel.length = 5 := five_cards_from_flop hc h5 ops hp (by rw [show ((start cfg).1.run ops).board.length = 5 from hb]; decide) hadm
  have hvc : C03.Valid c.cards := C03.valid_perm hperm.symm (selection_valid hc ops hp hadm hlen)
  rw [hc.lvl, hc.table] at hpow
  exact ⟨c, hcomb, hvc, ⟨sel, hadm, hperm⟩, hpow⟩

theorem seatOf_score {p : Player} {c : Comb} (h : p.comb = some c) : (seatOf p).score = (c.power : Int) := by
  simp [seatOf, h]

end Pokerface
