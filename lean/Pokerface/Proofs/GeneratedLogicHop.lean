import Pokerface.Model.Game
import Pokerface.Proofs.EngineHop
import Pokerface.Generated.LogicHop
import Pokerface.Generated.Tables
/-
  K1, translated logic (how a game object is BUILT and REBUILT — the anchors of C07): game.go (`NewGame`,
  `NewGameFromState`, `ApplyOptions`, `AddPlayer`, `addPlayer`, `LoadState`, `GetState`, `GetStateJSON`, `Player`,
  `Dealer` / `SmallBlind` / `BigBlind`, `GetPlayerCount`, `GetPlayers`), player.go (`State`, `SeatIndex`,
  `CheckPosition`), pokerface.go (`NewGame`, `NewGameFromState`), game_options.go (`NewStardardGameOptions`,
  `NewShortDeckGameOptions`) and table/native_backend.go (`cloneState`, `getState`, `CreateGame` and the twelve
  operations), translated by `harness/cmd/genlogic` (hop.go; Generated/LogicHop.lean, regenerated on every run).

  Reading.  What matters in this code is WHICH object an operation is applied to, and in which order — aliasing,
  which a pure model cannot express.  So the functions are translated as programs over UNINTERPRETED primitives:
  a generated definition takes the primitives it uses (`cloneState`, `newGameFromState`, `call`, `applyOptions`,
  `addPlayer`, `appendAll`, `mapSet`, `holds`, …) and the types they act on (`S` a state pointer, `G` a game
  object, `E` an error, …) as parameters.  Every theorem `hop…_eq` states, for ALL types, ALL primitives and ALL
  arguments, that the generated definition is the reference program written here (`Hop.backendCall`:
  clone in → rebuild → the one operation → clone out, error passed through; `Hop.addPlayer`; …).  Because the
  primitives are universally quantified the equality pins the term: a backend method that rebuilds the game from
  its argument instead of from the clone is another term and the theorem is false for it (take for `cloneState`
  a function that is not the identity, which is what any model with pointers does) — although on the pointer-free
  model of `Model/Game.lean` the two agree (that agreement is `C07.json_step`, a theorem, not a definition).

  The second half of each section instantiates the primitives with the model: the backend methods are
  `Hop.backendModel` (the definition `C07.backendCall` is stated with), `ApplyOptions` + `AddPlayer` build
  `Config.players`, the dealer cached by `LoadState` is `Game.dealerIdx?` (the LAST player holding the position),
  `Player(i)` is the object bound to `gs.Players[i]`, `GetPlayers` is `Game.seatsFromDealer`.

  This file imports only the model, `Proofs/EngineHop` (for `Game.json`) and the generated files.
-/
set_option linter.unusedSimpArgs false
set_option linter.unusedVariables false
namespace Pokerface.GeneratedLogic
open Pokerface Game
open Pokerface.Generated.Logic

/-! ### game.go `NewGame`, `NewGameFromState`; pokerface.go -/

/-- game.go `NewGame`: `ApplyOptions(opts)` on a FRESH object (empty player map, no cached dealer), which is returned -/
theorem hopNewGame_eq {O G : Type} (fresh : G) (applyOptions : O → G → G) (opts : O) (g0 : G) :
    hopNewGame fresh applyOptions opts g0 = applyOptions opts fresh := rfl

/-- game.go `NewGameFromState` is `LoadState(gs)` on a FRESH object, which is returned -/
theorem hopNewGameFromState_eq {S G : Type} (fresh : G) (loadState : S → G → G) (gs : S) (g0 : G) :
    hopNewGameFromState fresh loadState gs g0 = loadState gs fresh := rfl

/-- pokerface.go `NewGame`: the game of `NewGame(opts)` (its id and time stamps are set: not modelled) -/
theorem hopPfNewGame_eq {O G : Type} (newGame : O → G) (opts : O) (g0 : G) :
    hopPfNewGame newGame opts g0 = newGame opts := rfl

/-- pokerface.go `NewGameFromState`: `NewGameFromState` of the state HANDED IN (no copy at this level) -/
theorem hopPfNewGameFromState_eq {S G : Type} (newGameFromState : S → G) (gs : S) :
    hopPfNewGameFromState newGameFromState gs = newGameFromState gs := rfl

/-- pokerface.go `NewPokerFace`: the engine object has no state of its own -/
theorem hopNewPokerFace_eq : hopNewPokerFace = () := rfl

/-- game.go `GetState`: the pointer the object holds, not a copy (the engine writes through it) -/
theorem hopGetState_eq {S : Type} (gs : S) : hopGetState gs = gs := rfl

/-- game.go `GetStateJSON`: the state the object holds, marshalled -/
theorem hopGetStateJSON_eq {S R : Type} (marshal : S → R) (gs : S) : hopGetStateJSON marshal gs = marshal gs := rfl

/-! ### game.go `LoadState`, `addPlayer`; player.go `CheckPosition`, `State`, `SeatIndex` -/

/-- game.go `LoadState`: the state pointer is swapped FIRST; the loop that rebuilds the player objects then ranges
    over the players of the NEW state; nothing else happens (no early return) -/
theorem hopLoadState_eq {S : Type} (gs0 gs : S) :
    hopLoadState gs0 gs = (gs, gs, ["addPlayer loop over g.gs.Players", "return nil"]) := rfl

/-- game.go `LoadState`, one iteration: `addPlayer(ps)` for the player state at hand, on the same object -/
theorem hopLoadStateStep_eq {PS G : Type} (addPlayer : PS → G → G) (ps : PS) (g : G) :
    hopLoadStateStep addPlayer ps g = addPlayer ps g := rfl

namespace Hop

/-- reference for game.go `addPlayer`: a new player object `(state.Idx, this game, state)`; it becomes the cached dealer
    iff its state holds "dealer", the cached small blind iff it holds "sb", the cached big blind iff it holds "bb" and
    not "sb"; it is stored in the map under `state.Idx` -/
def addPlayer {PS Γ M : Type} (self : Γ) (holds : PS → String → Bool) (mapSet : M → Int → Option (Int × Γ × PS) → M)
    (idxOf : PS → Int) (d s b : Option (Int × Γ × PS)) (m : M) (state : PS) :
    Option (Int × Γ × PS) × Option (Int × Γ × PS) × Option (Int × Γ × PS) × M :=
  let p := some (idxOf state, self, state)
  (if holds state "dealer" then p else d,
   if holds state "sb" then p else s,
   if holds state "sb" then b else if holds state "bb" then p else b,
   mapSet m (idxOf state) p)

end Hop

/-- game.go `addPlayer` -/
theorem hopAddPlayer_eq {PS Γ M : Type} (self : Γ) (holds : PS → String → Bool) (mapSet : M → Int → Option (Int × Γ × PS) → M)
    (idxOf : PS → Int) (d s b : Option (Int × Γ × PS)) (m : M) (state : PS) :
    hopAddPlayer self holds mapSet idxOf d s b m state = Hop.addPlayer self holds mapSet idxOf d s b m state := by
  unfold hopAddPlayer Hop.addPlayer
  dsimp only
  cases holds state "dealer" <;> cases holds state "sb" <;> cases holds state "bb" <;> rfl

/-- player.go `CheckPosition`, one iteration: `return true` iff the entry is the position asked for -/
theorem hopCheckPositionStep_eq (p pos : String) : hopCheckPositionStep p pos = (p == pos) := by
  unfold hopCheckPositionStep; cases p == pos <;> rfl

/-- player.go `CheckPosition`: the loop returns `true` iff the list contains the position -/
theorem hopCheckPosition_contains (positions : List String) (pos : String) :
    positions.any (fun p => hopCheckPositionStep p pos) = positions.contains pos := by
  induction positions with
  | nil => rfl
  | cons a l ih =>
    rw [List.any_cons, ih, hopCheckPositionStep_eq, List.contains_cons, BEq.comm (a := a)]

/-- player.go `State`: looked up in the state the GAME holds now, by the player's index (not the pointer the
    player object was bound to) -/
theorem hopPlayerState_eq {PS : Type} (nilPS : PS) (playerAt : Int → PS) (playersLen idx : Int) :
    hopPlayerState nilPS playerAt playersLen idx = if idx < playersLen then playerAt idx else nilPS := by
  unfold hopPlayerState
  by_cases h : playersLen ≤ idx
  · have h' : ¬ idx < playersLen := by omega
    simp [h, h']
  · have h' : idx < playersLen := by omega
    simp [h, h']

/-- player.go `SeatIndex` -/
theorem hopSeatIndex_eq (idx : Int) : hopSeatIndex idx = idx := rfl

namespace Hop

/-- `PlayerState.Positions` of a model player -/
def posList (p : Player) : List String :=
  (if p.posDealer then ["dealer"] else []) ++ (if p.posSB then ["sb"] else []) ++ (if p.posBB then ["bb"] else [])

/-- `CheckPosition` on a model player -/
def holds (p : Player) (pos : String) : Bool :=
  if pos = "dealer" then p.posDealer else if pos = "sb" then p.posSB else if pos = "bb" then p.posBB else false

/-- the map of player objects: key ↦ object -/
abbrev PMap := Int → Option (Int × Unit × Player)

def mapSet (m : PMap) (k : Int) (v : Option (Int × Unit × Player)) : PMap := fun j => if j = k then v else m j

/-- (cached dealer, cached small blind, cached big blind, player objects) of the Go `game` struct -/
abbrev Cache := Option (Int × Unit × Player) × Option (Int × Unit × Player) × Option (Int × Unit × Player) × PMap

/-- the translated `addPlayer` on the model's players -/
def addModel (c : Cache) (p : Player) : Cache :=
  hopAddPlayer () holds mapSet (fun p : Player => (p.idx : Int)) c.1 c.2.1 c.2.2.1 c.2.2.2 p

/-- the loop of `LoadState` (every iteration is `addPlayer`, `hopLoadStateStep_eq`) from the caches `c` -/
def load (c : Cache) (ps : List Player) : Cache :=
  ps.foldl (fun c p => hopLoadStateStep (fun p c => addModel c p) p c) c

theorem snoc_induction {α : Type} {P : List α → Prop} (nil : P []) (snoc : ∀ l a, P l → P (l ++ [a])) : ∀ l, P l := by
  have h : ∀ l : List α, P l.reverse := by
    intro l
    induction l with
    | nil => exact nil
    | cons a l ih => rw [List.reverse_cons]; exact snoc _ _ ih
  intro l
  simpa using h l.reverse

/-- a fresh object: nothing cached, no player objects -/
def fresh : Cache := (none, none, none, fun _ => none)

/-- the player object bound to a player state -/
def obj (p : Player) : Int × Unit × Player := ((p.idx : Int), (), p)

/-- the players' `Idx` fields are their positions in `gs.Players` (what `ApplyOptions` establishes, `hopApplyOptions_players`) -/
def IdxOK (ps : List Player) : Prop := ∀ (k : Nat) (p : Player), ps[k]? = some p → p.idx = k

end Hop

/-- the model's position flags are `CheckPosition` on the position list -/
theorem hopCheckPosition_holds (p : Player) (pos : String) (h : pos = "dealer" ∨ pos = "sb" ∨ pos = "bb") :
    (Hop.posList p).any (fun q => hopCheckPositionStep q pos) = Hop.holds p pos := by
  rw [hopCheckPosition_contains]
  rcases h with h | h | h <;> subst h <;>
    cases hd : p.posDealer <;> cases hs : p.posSB <;> cases hb : p.posBB <;>
      simp [Hop.posList, Hop.holds, hd, hs, hb] <;> decide

theorem Hop.addModel_dealer (c : Hop.Cache) (p : Player) :
    (Hop.addModel c p).1 = if p.posDealer then some (Hop.obj p) else c.1 := by
  unfold Hop.addModel
  rw [hopAddPlayer_eq]
  simp [Hop.addPlayer, Hop.holds, Hop.obj]

theorem Hop.addModel_map (c : Hop.Cache) (p : Player) :
    (Hop.addModel c p).2.2.2 = Hop.mapSet c.2.2.2 p.idx (some (Hop.obj p)) := by
  unfold Hop.addModel
  rw [hopAddPlayer_eq]
  simp [Hop.addPlayer, Hop.obj]

theorem Hop.load_append (c : Hop.Cache) (l : List Player) (p : Player) :
    Hop.load c (l ++ [p]) = Hop.addModel (Hop.load c l) p := by
  simp [Hop.load, List.foldl_append, hopLoadStateStep_eq]

/-- game.go `LoadState` → `addPlayer`, the cached dealer, from ANY previous cache: the LAST player of the new state
    holding "dealer"; if none holds it, the dealer cached before stays (a fresh object has none) -/
theorem hopLoad_dealer_any (c : Hop.Cache) (ps : List Player) :
    (Hop.load c ps).1 = match ps.reverse.find? (·.posDealer) with
      | some p => some (Hop.obj p)
      | none => c.1 := by
  induction ps using Hop.snoc_induction with
  | nil => rfl
  | snoc l p ih =>
    rw [Hop.load_append, Hop.addModel_dealer, List.reverse_append, List.reverse_singleton, List.singleton_append, List.find?_cons]
    cases hp : p.posDealer
    · simpa using ih
    · simp

/-- **the cached dealer is `Game.dealerIdx?`**: after `NewGameFromState(gs)` (`LoadState` on a fresh object,
    `hopNewGameFromState_eq`) `Dealer()` is nil iff no player holds the position, otherwise it is the object of the
    last player holding it, whose `SeatIndex()` is that player's `Idx` -/
theorem hopLoad_dealer (g : Game) :
    ((Hop.load Hop.fresh g.players).1.map fun o => hopSeatIndex o.1) = g.dealerIdx?.map fun i : Nat => (i : Int) := by
  rw [hopLoad_dealer_any]
  unfold Game.dealerIdx?
  cases g.players.reverse.find? (·.posDealer) <;> rfl

/-- … and the object is bound to that player's state -/
theorem hopLoad_dealer_state (g : Game) :
    ((Hop.load Hop.fresh g.players).1.map fun o => o.2.2) = g.players.reverse.find? (·.posDealer) := by
  rw [hopLoad_dealer_any]
  cases g.players.reverse.find? (·.posDealer) <;> rfl

/-- game.go `LoadState` → `addPlayer`, the map of player objects: key `i` holds the object bound to `gs.Players[i]`
    (for a state whose `Idx` fields are the positions) -/
theorem hopLoad_map (ps : List Player) (h : Hop.IdxOK ps) (i : Nat) :
    (Hop.load Hop.fresh ps).2.2.2 (i : Int) = ps[i]?.map Hop.obj := by
  induction ps using Hop.snoc_induction with
  | nil => rfl
  | snoc l p ih =>
    have hl : Hop.IdxOK l := by
      intro k q hq
      apply h k q
      rw [List.getElem?_append_left (by
        rcases Nat.lt_or_ge k l.length with hk | hk
        · exact hk
        · rw [List.getElem?_eq_none hk] at hq; cases hq)]
      exact hq
    have hp : p.idx = l.length := h l.length p (by simp)
    rw [Hop.load_append, Hop.addModel_map, Hop.mapSet]
    by_cases hi : i = l.length
    · subst hi
      simp [hp]
    · have hi' : ¬ (i : Int) = (p.idx : Int) := by rw [hp]; omega
      rw [if_neg hi', ih hl]
      rcases Nat.lt_or_ge i l.length with hk | hk
      · rw [List.getElem?_append_left hk]
      · rw [List.getElem?_eq_none hk, List.getElem?_eq_none (by simp; omega)]

/-! ### game.go `Player(idx)`, the cached lookups, `GetPlayerCount`, `GetPlayers` -/

/-- game.go `Player(idx)`: nil outside `0 ≤ idx < GetPlayerCount()`, else the object stored under `idx` -/
theorem hopPlayer_eq {P : Type} (nilP : P) (lookup : Int → P) (idx count : Int) :
    hopPlayer nilP lookup idx count = if 0 ≤ idx ∧ idx < count then lookup idx else nilP := by
  unfold hopPlayer
  by_cases h1 : idx < 0
  · have : ¬ (0 ≤ idx ∧ idx < count) := by omega
    simp [h1, this]
  · by_cases h2 : idx ≥ count
    · have : ¬ (0 ≤ idx ∧ idx < count) := by omega
      simp [h1, h2, this]
    · have : 0 ≤ idx ∧ idx < count := by omega
      simp [h1, h2, this]

/-- **`Player(i)` of a rebuilt game is the object bound to `gs.Players[i]`** (`g.players[i]?` in the model) -/
theorem hopPlayer_model (g : Game) (h : Hop.IdxOK g.players) (i : Nat) :
    hopPlayer none (Hop.load Hop.fresh g.players).2.2.2 (i : Int) (hopGetPlayerCount g.n) = g.players[i]?.map Hop.obj := by
  rw [hopPlayer_eq, hopLoad_map _ h]
  unfold hopGetPlayerCount
  by_cases hi : i < g.n
  · have : 0 ≤ (i : Int) ∧ (i : Int) < (g.n : Int) := by omega
    simp [this]
  · have : ¬ (0 ≤ (i : Int) ∧ (i : Int) < (g.n : Int)) := by omega
    have hn : g.players.length ≤ i := by unfold Game.n at hi; omega
    simp [this, List.getElem?_eq_none hn]

/-- game.go `Dealer` / `SmallBlind` / `BigBlind`: each returns its own cached object -/
theorem hopDealer_eq {P : Type} (dealer sb bb : P) : hopDealer dealer sb bb = dealer := rfl
theorem hopSmallBlind_eq {P : Type} (dealer sb bb : P) : hopSmallBlind dealer sb bb = sb := rfl
theorem hopBigBlind_eq {P : Type} (dealer sb bb : P) : hopBigBlind dealer sb bb = bb := rfl

/-- game.go `GetPlayerCount`: the length of the state's player list -/
theorem hopGetPlayerCount_eq (n : Int) : hopGetPlayerCount n = n := rfl

/-- game.go `GetPlayers` up to its loop: an empty list, `cur` the seat index of the cached dealer, the bound of the loop the
    number of players -/
theorem hopGetPlayersInit_eq (count dealerSeat : Int) : hopGetPlayersInit count dealerSeat = ([], dealerSeat, count) := rfl

/-- game.go `GetPlayers`, one iteration: the object under `cur` is appended; `cur` moves on and wraps at the count -/
theorem hopGetPlayersStep_eq (players : List Int) (cur n : Int) :
    hopGetPlayersStep players cur n = (players ++ [cur], if cur + 1 = n then 0 else cur + 1) := by
  unfold hopGetPlayersStep
  by_cases h : cur + 1 = n <;> simp [h]

namespace Hop

/-- game.go `GetPlayers` for `n` players and a cached dealer of seat index `d`: the translated statements before the loop,
    then `playerCount` iterations (the header `for i := 0; i < playerCount; i++` and `return players` are pinned) -/
def getPlayers (n : Nat) (d : Int) : List Int × Int :=
  let ini := hopGetPlayersInit n d
  (List.range ini.2.2.toNat).foldl (fun acc _ => hopGetPlayersStep acc.1 acc.2 ini.2.2) (ini.1, ini.2.1)

theorem mod_succ (a n : Nat) (hn : 0 < n) :
    (a + 1) % n = if a % n + 1 = n then 0 else a % n + 1 := by
  have h2 : a % n < n := Nat.mod_lt _ hn
  have hd := Nat.div_add_mod a n
  by_cases h : a % n + 1 = n
  · rw [if_pos h]
    have : a + 1 = n * (a / n + 1) := by rw [Nat.mul_add, Nat.mul_one]; omega
    rw [this, Nat.mul_mod_right]
  · rw [if_neg h]
    have : a + 1 = n * (a / n) + (a % n + 1) := by omega
    rw [this, Nat.mul_add_mod]
    exact Nat.mod_eq_of_lt (by omega)

theorem getPlayers_prefix (n d : Nat) (k : Nat) :
    (List.range k).foldl (fun (acc : List Int × Int) _ => hopGetPlayersStep acc.1 acc.2 n) ([], ((d % n : Nat) : Int))
      = ((List.range k).map (fun j => (((d + j) % n : Nat) : Int)), (((d + k) % n : Nat) : Int)) := by
  induction k with
  | zero => simp
  | succ k ih =>
    rw [List.range_succ, List.foldl_append, ih]
    simp only [List.foldl_cons, List.foldl_nil, hopGetPlayersStep_eq, List.map_append, List.map_cons, List.map_nil]
    rcases Nat.eq_zero_or_pos n with hn | hn
    · subst hn
      simp only [Nat.mod_zero, Prod.mk.injEq, true_and]
      split
      · omega
      · omega
    · have hm := mod_succ (d + k) n hn
      have hlt : (d + k) % n < n := Nat.mod_lt _ hn
      rw [show d + (k + 1) = d + k + 1 from rfl, hm]
      by_cases hw : (d + k) % n + 1 = n
      · have hw' : (((d + k) % n : Nat) : Int) + 1 = (n : Int) := by omega
        rw [if_pos hw, if_pos hw']
        rfl
      · have hw' : ¬ (((d + k) % n : Nat) : Int) + 1 = (n : Int) := by omega
        rw [if_neg hw, if_neg hw']
        rfl

end Hop

/-- **`GetPlayers` is `Game.seatsFromDealer`**: the seat indices starting at the dealer, wrapping at the number of
    players, for every game whose dealer index is a seat index -/
theorem hopGetPlayers_model (g : Game) (h : g.dealerIdx < g.n) :
    (Hop.getPlayers g.n (g.dealerIdx : Int)).1 = g.seatsFromDealer.map fun i : Nat => (i : Int) := by
  have := Hop.getPlayers_prefix g.n g.dealerIdx g.n
  rw [Nat.mod_eq_of_lt h] at this
  unfold Hop.getPlayers Game.seatsFromDealer
  simp only [hopGetPlayersInit_eq, Int.toNat_natCast]
  rw [this]
  simp [List.map_map, Function.comp_def]

/-! ### game.go `ApplyOptions`, `AddPlayer` -/

/-- game.go `ApplyOptions`: a FRESH state whose Meta fields are the options of the same name (`Ante ← opts.Ante`, … —
    a field left out would hold its zero value, a field fed from another option that option), the deck a COPY
    (`append([]string{}, opts.Deck...)`: a new slice) when the options have one and nil otherwise, the player list
    empty and then extended by the loop over `opts.Players`; whatever the object held before (`meta0`, `players0`) is gone -/
theorem hopApplyOptions_eq {B T D PL : Type} (meta0 : Int × B × String × Int × Int × T × D × Int) (players0 : PL) (zeroBlind : B)
    (nilPowers : T) (nilDeck emptySlice : D) (nilPlayers emptyPlayers : PL) (appendAll : D → D → D) (addLoop : PL → PL)
    (oAnte : Int) (oBlind : B) (oLimit : String) (oHole oRequired : Int) (oPowers : T) (oDeck : D) (deckNotNil : Bool) (oBurn : Int) :
    hopApplyOptions meta0 players0 zeroBlind nilPowers nilDeck emptySlice nilPlayers emptyPlayers appendAll addLoop
        oAnte oBlind oLimit oHole oRequired oPowers oDeck deckNotNil oBurn
      = ((oAnte, oBlind, oLimit, oHole, oRequired, oPowers, (if deckNotNil then appendAll emptySlice oDeck else nilDeck), oBurn),
         addLoop emptyPlayers, ["AddPlayer loop over opts.Players", "return nil"]) := by
  unfold hopApplyOptions
  cases deckNotNil <;> rfl

/-- game.go `ApplyOptions`, one iteration: `AddPlayer(idx, p)` with the index and the setting at hand, in this order -/
theorem hopApplyOptionsStep_eq {I PSet G : Type} (addPlayerOp : I → PSet → G → G) (idx : I) (p : PSet) (g : G) :
    hopApplyOptionsStep addPlayerOp idx p g = addPlayerOp idx p g := rfl

/-- game.go `AddPlayer`: the new `PlayerState` — `Idx` the index, `Positions` and `Bankroll` of the setting,
    `InitialStackSize = StackSize = Bankroll`, an empty `Combination`, everything else zero — is APPENDED to the
    state's players, and is what `addPlayer` binds the new player object to -/
theorem hopAddPlayerSetting_eq {P A H C : Type} (nilPos : P) (nilActs : A) (nilCards : H) (nilComb emptyComb : C)
    (players0 : List (Int × P × Bool × Bool × A × Int × Int × Int × Int × Int × H × C)) (idx : Int) (positions : P) (bankroll : Int) :
    hopAddPlayerSetting nilPos nilActs nilCards nilComb emptyComb players0 idx positions bankroll
      = (players0 ++ [(idx, positions, false, false, nilActs, bankroll, bankroll, bankroll, 0, 0, nilCards, emptyComb)],
         (idx, positions, false, false, nilActs, bankroll, bankroll, bankroll, 0, 0, nilCards, emptyComb)) := rfl

namespace Hop

/-- a `PlayerState` as the translated `AddPlayer` builds it, read as a model player -/
def toPlayer (t : Int × List String × Bool × Bool × List Act × Int × Int × Int × Int × Int × List Card × Option Comb) : Player :=
  { idx := t.1.toNat, posDealer := t.2.1.contains "dealer", posSB := t.2.1.contains "sb", posBB := t.2.1.contains "bb",
    acted := t.2.2.1, fold := t.2.2.2.1, allowed := t.2.2.2.2.1, bankroll := t.2.2.2.2.2.1, initial := t.2.2.2.2.2.2.1,
    stack := t.2.2.2.2.2.2.2.1, pot := t.2.2.2.2.2.2.2.2.1, wager := t.2.2.2.2.2.2.2.2.2.1, hole := t.2.2.2.2.2.2.2.2.2.2.1,
    comb := t.2.2.2.2.2.2.2.2.2.2.2 }

/-- `PlayerSetting.Positions` of a configured seat -/
def seatPositions (s : SeatCfg) : List String :=
  (if s.dealer then ["dealer"] else []) ++ (if s.sb then ["sb"] else []) ++ (if s.bb then ["bb"] else [])

/-- the loop of `ApplyOptions` over the settings (every iteration is `AddPlayer(idx, p)`, `hopApplyOptionsStep_eq`)
    on the player list, started on the empty list (`hopApplyOptions_eq`) -/
def addSettings (seats : List SeatCfg) :=
  seats.zipIdx.foldl (fun ps (si : SeatCfg × Nat) =>
    hopApplyOptionsStep (fun (i : Nat) (s : SeatCfg) ps =>
      (hopAddPlayerSetting ([] : List String) ([] : List Act) ([] : List Card) (none : Option Comb) (some {}) ps (i : Int) (seatPositions s) s.bankroll).1)
      si.2 si.1 ps) []

theorem foldl_snoc {α β : Type} (f : α → β) (l : List α) (init : List β) :
    l.foldl (fun acc x => acc ++ [f x]) init = init ++ l.map f := by
  induction l generalizing init with
  | nil => simp
  | cons a l ih => simp [ih]

end Hop

/-- **`ApplyOptions` + `AddPlayer` build `Config.players`**: one player per setting, in the order of the settings,
    `Idx` the position, positions and bankroll of the setting, `initial = stack = bankroll`, nothing acted, folded,
    wagered or dealt, an empty combination -/
theorem hopApplyOptions_players (c : Config) : (Hop.addSettings c.seats).map Hop.toPlayer = c.players := by
  unfold Hop.addSettings Config.players
  simp only [hopApplyOptionsStep_eq, hopAddPlayerSetting_eq]
  rw [Hop.foldl_snoc (fun (si : SeatCfg × Nat) => ((si.2 : Int), Hop.seatPositions si.1, false, false, ([] : List Act), si.1.bankroll,
    si.1.bankroll, si.1.bankroll, (0 : Int), (0 : Int), ([] : List Card), (some {} : Option Comb)))]
  simp only [List.nil_append, List.map_map]
  apply List.map_congr_left
  rintro ⟨s, i⟩ _
  simp only [Function.comp_def, Hop.toPlayer, Hop.seatPositions, Int.toNat_natCast]
  cases hd : s.dealer <;> cases hs : s.sb <;> cases hb : s.bb <;> simp <;> decide

/-- the players `ApplyOptions` builds carry their position as `Idx` -/
theorem hopApplyOptions_idxOK (c : Config) : Hop.IdxOK c.players := by
  unfold Hop.IdxOK
  intro k p hp
  unfold Config.players at hp
  rw [List.getElem?_map, List.getElem?_zipIdx] at hp
  cases hs : c.seats[k]? with
  | none => rw [hs] at hp; cases hp
  | some s =>
    rw [hs] at hp
    simp only [Option.map_some, Option.some.injEq] at hp
    subst hp
    simp

/-- **`NewGame(opts)` in the model** is `{ opts := c.opts, players := c.players }` (what `start` begins with): its cached
    dealer is `dealerIdx?` of these players and `Player(i)` is bound to `players[i]` -/
theorem hopNewGame_model (c : Config) :
    let g : Game := { opts := c.opts, players := (Hop.addSettings c.seats).map Hop.toPlayer }
    g = { opts := c.opts, players := c.players } ∧
    ((Hop.load Hop.fresh g.players).1.map fun o => hopSeatIndex o.1) = g.dealerIdx?.map (fun i : Nat => (i : Int)) ∧
    ∀ i : Nat, hopPlayer none (Hop.load Hop.fresh g.players).2.2.2 (i : Int) (hopGetPlayerCount g.n) = g.players[i]?.map Hop.obj := by
  intro g
  have hg : g = { opts := c.opts, players := c.players } := by
    show ({ opts := c.opts, players := (Hop.addSettings c.seats).map Hop.toPlayer } : Game) = _
    rw [hopApplyOptions_players]
  refine ⟨hg, hopLoad_dealer g, fun i => hopPlayer_model g ?_ i⟩
  rw [hg]
  exact hopApplyOptions_idxOK c

/-! ### game_options.go -/

/-- game_options.go `NewStardardGameOptions`: the constants (the same as Generated/Tables.lean records by running the
    code), the ranking table is the package-level standard table ITSELF (shared, never written), the deck and the
    player list are fresh empty slices -/
theorem hopStandardOptions_eq {T D PL : Type} (powerStandard powerShortDeck nilT : T) (freshDeck nilD : D) (freshPlayers nilPL : PL) :
    hopStandardOptions powerStandard powerShortDeck nilT freshDeck nilD freshPlayers nilPL
      = (0, (0, 5, 10), "no", 2, 0, powerStandard, freshDeck, 1, freshPlayers) ∧
    (let o := hopStandardOptions powerStandard powerShortDeck nilT freshDeck nilD freshPlayers nilPL
     [o.1, o.2.1.1, o.2.1.2.1, o.2.1.2.2, o.2.2.2.1, o.2.2.2.2.1, o.2.2.2.2.2.2.2.1] = Generated.standardOptions ∧
     o.2.2.1 = Generated.standardOptionsLimit) := by
  exact ⟨rfl, rfl, rfl⟩

/-- game_options.go `NewShortDeckGameOptions`: the standard options (a new value per call) whose `CombinationPowers`
    field is then POINTED at the package-level short-deck table; no slice element is written -/
theorem hopShortDeckOptions_eq {O T : Type} (standardOptions : O) (powerStandard powerShortDeck : T) (opts0 : O) :
    hopShortDeckOptions standardOptions powerStandard powerShortDeck opts0 = (standardOptions, some powerShortDeck) := rfl

/-! ### table/native_backend.go -/

/-- native_backend.go `cloneState`: marshal, then unmarshal into a NEW value, which is returned; nil when either step
    reports an error (never the argument; never the partly filled value of a failed `Unmarshal`).
    `marshal` / `unmarshal` answer (the value, whether an error is returned). -/
theorem hopCloneState_eq {S J : Type} (marshal : S → J × Bool) (unmarshal : J → S × Bool) (noData : J) (zeroState : S) (gs : S) :
    hopCloneState marshal unmarshal noData zeroState gs
      = if (marshal gs).2 then none else if (unmarshal (marshal gs).1).2 then none else some (unmarshal (marshal gs).1).1 := rfl

/-- native_backend.go `NewNativeBackend`: the backend holds a new engine and nothing else (no state survives a call) -/
theorem hopNewNativeBackend_eq {PF : Type} (newPokerFace nilPF : PF) : hopNewNativeBackend newPokerFace nilPF = newPokerFace := rfl

/-- native_backend.go `getState`: a CLONE of the state the game holds -/
theorem hopNbGetState_eq {S G : Type} (cloneState : S → S) (getState : G → S) (g : G) :
    hopNbGetState cloneState getState g = cloneState (getState g) := rfl

namespace Hop

/-- reference for every operation of `table.NativeBackend`: the game is rebuilt from a CLONE of the argument, the one
    operation `op` runs on that game, an error is passed through with a nil state, otherwise the answer is
    `nb.getState` of that game (a clone of its state, `hopNbGetState_eq`).  The argument `gs` occurs once: under `clone`. -/
def backendCall {S G E : Type} (nilS : S) (clone : S → S) (rebuild : S → G) (op : G → G × Option E) (get : G → S) (gs : S) :
    S × Option E :=
  let r := op (rebuild (clone gs))
  if r.2.isSome then (nilS, r.2) else (get r.1, none)

/-- reference for `CreateGame`: a new game from the options, `Start()`, error passed through, else a clone of the state -/
def createGame {S G E O : Type} (nilS : S) (newGame : O → G) (start : G → G × Option E) (get : G → S) (opts : O) : S × Option E :=
  let r := start (newGame opts)
  if r.2.isSome then (nilS, r.2) else (get r.1, none)

end Hop

section Backend
variable {S G E : Type} (nilS : S) (cloneState : S → S) (newGameFromState : S → G) (call : String → List Int → G → G × Option E)
  (nbGetState rawState : G → S) (g0 : G) (gs : S)

/-- native_backend.go `CreateGame` -/
theorem hopBackendCreateGame_eq {O : Type} (newGame : O → G) (opts : O) :
    hopBackendCreateGame nilS cloneState newGameFromState call nbGetState rawState g0 newGame opts
      = Hop.createGame nilS newGame (call "Start" []) nbGetState opts := rfl

/-- native_backend.go `Next`: clone in → `NewGameFromState` → `Next()` → clone out -/
theorem hopBackendNext_eq : hopBackendNext nilS cloneState newGameFromState call nbGetState rawState g0 gs
    = Hop.backendCall nilS cloneState newGameFromState (call "Next" []) nbGetState gs := rfl
/-- native_backend.go `ReadyForAll` -/
theorem hopBackendReadyForAll_eq : hopBackendReadyForAll nilS cloneState newGameFromState call nbGetState rawState g0 gs
    = Hop.backendCall nilS cloneState newGameFromState (call "ReadyForAll" []) nbGetState gs := rfl
/-- native_backend.go `PayAnte` -/
theorem hopBackendPayAnte_eq : hopBackendPayAnte nilS cloneState newGameFromState call nbGetState rawState g0 gs
    = Hop.backendCall nilS cloneState newGameFromState (call "PayAnte" []) nbGetState gs := rfl
/-- native_backend.go `PayBlinds` -/
theorem hopBackendPayBlinds_eq : hopBackendPayBlinds nilS cloneState newGameFromState call nbGetState rawState g0 gs
    = Hop.backendCall nilS cloneState newGameFromState (call "PayBlinds" []) nbGetState gs := rfl
/-- native_backend.go `Pass` -/
theorem hopBackendPass_eq : hopBackendPass nilS cloneState newGameFromState call nbGetState rawState g0 gs
    = Hop.backendCall nilS cloneState newGameFromState (call "Pass" []) nbGetState gs := rfl
/-- native_backend.go `Fold` -/
theorem hopBackendFold_eq : hopBackendFold nilS cloneState newGameFromState call nbGetState rawState g0 gs
    = Hop.backendCall nilS cloneState newGameFromState (call "Fold" []) nbGetState gs := rfl
/-- native_backend.go `Check` -/
theorem hopBackendCheck_eq : hopBackendCheck nilS cloneState newGameFromState call nbGetState rawState g0 gs
    = Hop.backendCall nilS cloneState newGameFromState (call "Check" []) nbGetState gs := rfl
/-- native_backend.go `Call` -/
theorem hopBackendCall_eq : hopBackendCall nilS cloneState newGameFromState call nbGetState rawState g0 gs
    = Hop.backendCall nilS cloneState newGameFromState (call "Call" []) nbGetState gs := rfl
/-- native_backend.go `Allin` -/
theorem hopBackendAllin_eq : hopBackendAllin nilS cloneState newGameFromState call nbGetState rawState g0 gs
    = Hop.backendCall nilS cloneState newGameFromState (call "Allin" []) nbGetState gs := rfl
/-- native_backend.go `Pay(chips)` -/
theorem hopBackendPay_eq (chips : Int) : hopBackendPay nilS cloneState newGameFromState call nbGetState rawState g0 gs chips
    = Hop.backendCall nilS cloneState newGameFromState (call "Pay" [chips]) nbGetState gs := rfl
/-- native_backend.go `Bet(chips)` -/
theorem hopBackendBet_eq (chips : Int) : hopBackendBet nilS cloneState newGameFromState call nbGetState rawState g0 gs chips
    = Hop.backendCall nilS cloneState newGameFromState (call "Bet" [chips]) nbGetState gs := rfl
/-- native_backend.go `Raise(chipLevel)` -/
theorem hopBackendRaise_eq (chipLevel : Int) : hopBackendRaise nilS cloneState newGameFromState call nbGetState rawState g0 gs chipLevel
    = Hop.backendCall nilS cloneState newGameFromState (call "Raise" [chipLevel]) nbGetState gs := rfl

end Backend

namespace Hop

/-- the operation of the engine's alphabet (DESIGN §5) a method of `pokerface.Game` is, by its Go name -/
def opOf : String → List Int → Option Op
  | "Next", [] => some .next
  | "ReadyForAll", [] => some .ready
  | "PayAnte", [] => some .payAnte
  | "PayBlinds", [] => some .payBlinds
  | "Pass", [] => some (.act none .pass 0)
  | "Fold", [] => some (.act none .fold 0)
  | "Check", [] => some (.act none .check 0)
  | "Call", [] => some (.act none .call 0)
  | "Allin", [] => some (.act none .allin 0)
  | "Pay", [x] => some (.act none .pay x)
  | "Bet", [x] => some (.act none .bet x)
  | "Raise", [x] => some (.act none .raise x)
  | _, _ => none

/-- a method call on a model game -/
def modelCall (name : String) (args : List Int) (g : Game) : Game × Option Err :=
  match opOf name args with
  | some op => g.step op
  | none => (g, none)

/-- `(state, err)` as a driver sees it -/
def toExcept (r : Game × Option Err) : Except Err Game :=
  match r.2 with
  | none => .ok r.1
  | some e => .error e

/-- the model of one call of the stateless backend — literally the definition `C07.backendCall` is stated with:
    a JSON round trip of the argument, one operation, a JSON round trip of the answer -/
def backendModel (s : Game) (op : Op) : Except Err Game :=
  match s.json.step op with
  | (g', none) => .ok g'.json
  | (_, some e) => .error e

/-- native_backend.go `cloneState` on the model: the state as the JSON carries it (marshalling a model state cannot fail) -/
def cloneModel (s : Game) : Game := (hopCloneState (fun g => (g.json, false)) (fun j => (j, false)) s s s).getD s

theorem cloneModel_eq (s : Game) : cloneModel s = s.json := by
  unfold cloneModel; rw [hopCloneState_eq]; rfl

theorem backendCall_model (s nilS : Game) (op : Op) :
    toExcept (backendCall nilS cloneModel id (fun g => g.step op) (hopNbGetState cloneModel id) s) = backendModel s op := by
  unfold backendCall backendModel toExcept
  simp only [cloneModel_eq, hopNbGetState_eq, id]
  rcases s.json.step op with ⟨g', e⟩
  cases e <;> simp [cloneModel_eq]

end Hop

/-- **every operation of `table.NativeBackend` is the model's backend call for THAT operation**: the translated
    method, with `cloneState` the translated clone on the model (`Game.json`), `NewGameFromState` the model's rebuilt
    game (the model has no object besides the state: `id`; the caches are functions of the state, `hopLoad_dealer`),
    a method call read by its name (`Hop.opOf`) and `nb.getState` the translated one — is `Hop.backendModel`, the
    definition of `C07.backendCall`, for the operation of the same name, for every state, amount and `nilS`, `g0` -/
theorem hopBackend_model (s nilS g0 : Game) :
    let run := fun (f : Game → (Game → Game) → (Game → Game) → (String → List Int → Game → Game × Option Err) → (Game → Game) → (Game → Game) → Game → Game → Game × Option Err) =>
      Hop.toExcept (f nilS Hop.cloneModel id Hop.modelCall (hopNbGetState Hop.cloneModel id) id g0 s)
    run hopBackendNext = Hop.backendModel s .next ∧
    run hopBackendReadyForAll = Hop.backendModel s .ready ∧
    run hopBackendPayAnte = Hop.backendModel s .payAnte ∧
    run hopBackendPayBlinds = Hop.backendModel s .payBlinds ∧
    run hopBackendPass = Hop.backendModel s (.act none .pass 0) ∧
    run hopBackendFold = Hop.backendModel s (.act none .fold 0) ∧
    run hopBackendCheck = Hop.backendModel s (.act none .check 0) ∧
    run hopBackendCall = Hop.backendModel s (.act none .call 0) ∧
    run hopBackendAllin = Hop.backendModel s (.act none .allin 0) ∧
    (∀ x, run (fun a b c d e r f g => hopBackendPay a b c d e r f g x) = Hop.backendModel s (.act none .pay x)) ∧
    (∀ x, run (fun a b c d e r f g => hopBackendBet a b c d e r f g x) = Hop.backendModel s (.act none .bet x)) ∧
    (∀ x, run (fun a b c d e r f g => hopBackendRaise a b c d e r f g x) = Hop.backendModel s (.act none .raise x)) := by
  intro run
  refine ⟨?_, ?_, ?_, ?_, ?_, ?_, ?_, ?_, ?_, fun x => ?_, fun x => ?_, fun x => ?_⟩
  · exact (congrArg Hop.toExcept (hopBackendNext_eq ..)).trans (Hop.backendCall_model s nilS .next)
  · exact (congrArg Hop.toExcept (hopBackendReadyForAll_eq ..)).trans (Hop.backendCall_model s nilS .ready)
  · exact (congrArg Hop.toExcept (hopBackendPayAnte_eq ..)).trans (Hop.backendCall_model s nilS .payAnte)
  · exact (congrArg Hop.toExcept (hopBackendPayBlinds_eq ..)).trans (Hop.backendCall_model s nilS .payBlinds)
  · exact (congrArg Hop.toExcept (hopBackendPass_eq ..)).trans (Hop.backendCall_model s nilS (.act none .pass 0))
  · exact (congrArg Hop.toExcept (hopBackendFold_eq ..)).trans (Hop.backendCall_model s nilS (.act none .fold 0))
  · exact (congrArg Hop.toExcept (hopBackendCheck_eq ..)).trans (Hop.backendCall_model s nilS (.act none .check 0))
  · exact (congrArg Hop.toExcept (hopBackendCall_eq ..)).trans (Hop.backendCall_model s nilS (.act none .call 0))
  · exact (congrArg Hop.toExcept (hopBackendAllin_eq ..)).trans (Hop.backendCall_model s nilS (.act none .allin 0))
  · exact (congrArg Hop.toExcept (hopBackendPay_eq ..)).trans (Hop.backendCall_model s nilS (.act none .pay x))
  · exact (congrArg Hop.toExcept (hopBackendBet_eq ..)).trans (Hop.backendCall_model s nilS (.act none .bet x))
  · exact (congrArg Hop.toExcept (hopBackendRaise_eq ..)).trans (Hop.backendCall_model s nilS (.act none .raise x))

/-- `CreateGame` on the model: `NewGame(opts)` (`hopNewGame_model`), `Start()`, and on success the JSON of the state -/
theorem hopBackendCreateGame_model (c : Config) (nilS g0 : Game) :
    Hop.toExcept (hopBackendCreateGame nilS Hop.cloneModel id (fun _ _ _ => start c) (hopNbGetState Hop.cloneModel id) id g0
        (fun c : Config => ({ opts := c.opts, players := c.players } : Game)) c)
      = match start c with
        | (g, none) => .ok g.json
        | (_, some e) => .error e := by
  rw [hopBackendCreateGame_eq]
  unfold Hop.createGame Hop.toExcept
  simp only [hopNbGetState_eq, Hop.cloneModel_eq, id]
  rcases start c with ⟨g, e⟩
  cases e <;> simp

end Pokerface.GeneratedLogic
