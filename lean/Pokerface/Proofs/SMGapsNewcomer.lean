/-
  Review gap (C08, newcomer timing): the newcomer's `Join` and `Seat` (sit-in) need not be back to back.
  He joins an inactive seat between dealer and big blind, `k ≥ 0` hands are started while he has only joined
  (seat reserved), then he sits in, then further hands are started.

  `Pending` generalises `Waiting` (Proofs/SMNewcomer.lean) to an arbitrary reservation flag; `Arrived` is the
  situation after the button has passed the seat.
-/
import Pokerface.Proofs.SMNewcomer

namespace Pokerface
namespace SM

/-! ### seats that `next` does not touch -/

theorem actv_of_active {s : Seat} (h : s.active = true) : actv s = s := by
  cases s; simp_all [actv]

theorem renewF_fix (kb j : Nat) {s : Seat} (hocc : s.player.isSome = true) (hact : s.active = true) :
    renewF kb j s = s := by
  unfold renewF
  split
  · exact deact_occupied hocc
  · split
    · rfl
    · exact actv_of_active hact

/-- An occupied active seat of the state after `nextDealer` is left alone by `renewSeatStatus`. -/
theorem NextOk.seat_fix {sm sm' : SM} {d ks kb : Nat} (hn : NextOk sm sm' d ks kb) (hinv : Inv sm) {i : Nat} {s : Seat}
    (hs : sm.nextDealer.1.seats[i]? = some s) (hocc : s.player.isSome = true) (hact : s.active = true) :
    sm'.seats[i]? = some s := by
  have hi : i < sm.max := by
    have h1 := (List.getElem?_eq_some_iff.mp hs).1
    have h2 := (nextDealer_inv hinv).wf
    unfold WF at h2
    rw [h2, (nextDealer_actUp sm).max] at h1
    exact h1
  obtain ⟨j, hj, rfl⟩ := exists_offset d hi
  rw [hn.seats j hj, hs]
  simp [renewF_fix kb j hocc hact]

/-- An occupied active seat is left alone by a successful `next`. -/
theorem next_seat_fix {T : SM} (hinv : Inv T) (hok : (T.step .next).2.1 = none) {i : Nat} {s : Seat}
    (hs : T.seats[i]? = some s) (hocc : s.player.isSome = true) (hact : s.active = true) :
    (T.step .next).1.seats[i]? = some s := by
  obtain ⟨d, ks, kb, hn⟩ := next_ok hinv hok
  apply hn.seat_fix hinv _ hocc hact
  rcases (nextDealer_actUp T).seat i with h' | h'
  · rw [h', hs]
  · rw [h', hs]; simp [actv_of_active hact]

/-! ### the sit-in operation on a given seat -/

theorem step_seat_nat (T : SM) {x : Nat} (hx : x < T.max) :
    T.step (.seat (x : Int)) = (T.modSeat x fun s => { s with reserved := false }, none, none) := by
  rcases step_seat_cases T (x : Int) with ⟨hr, _⟩ | ⟨k, hk, _, he⟩
  · omega
  · have : k = x := by omega
    subst this; exact he

/-! ### pending: occupied, inactive (reserved or not), at most one playable seat between the dealer and him -/

/-- A player sits at `x`, `a` seats clockwise after the dealer `d`, on an *inactive* seat whose reservation flag is
`r` (`r = true`: he has only joined; `r = false`: he has sat in — then this is `Waiting`), with at most one playable
seat strictly between the dealer and him. -/
structure Pending (T : SM) (x d a : Nat) (r : Bool) : Prop where
  inv : Inv T
  dealer : T.dealer = some d
  count : 2 ≤ T.playableCount
  a_pos : 0 < a
  a_lt : a < T.max
  x_eq : x = (d + a) % T.max
  seat : ∃ sx, T.seats[x]? = some sx ∧ sx.player.isSome = true ∧ sx.reserved = r ∧ sx.active = false
  atmost : ∀ j1 j2, 0 < j1 → j1 < a → 0 < j2 → j2 < a →
    T.playable ((d + j1) % T.max) = true → T.playable ((d + j2) % T.max) = true → j1 = j2

theorem Pending.of_waiting {T : SM} {x d a : Nat} (w : Waiting T x d a) : Pending T x d a false :=
  ⟨w.inv, w.dealer, w.count, w.a_pos, w.a_lt, w.x_eq, w.seat, w.atmost⟩

theorem Pending.waiting {T : SM} {x d a : Nat} (w : Pending T x d a false) : Waiting T x d a :=
  ⟨w.inv, w.dealer, w.count, w.a_pos, w.a_lt, w.x_eq, w.seat, w.atmost⟩

theorem Pending.not_playable {T : SM} {x d a : Nat} {r : Bool} (w : Pending T x d a r) : T.playable x = false := by
  obtain ⟨sx, hs, _, _, ha⟩ := w.seat
  simp [playable, hs, ha]

theorem Pending.x_lt {T : SM} {x d a : Nat} {r : Bool} (w : Pending T x d a r) : x < T.max := by
  rw [w.x_eq]; exact Nat.mod_lt _ (by have := w.a_lt; omega)

/-- The button has passed the seat: occupied and *active*, reservation flag `r`; at least two playable seats. -/
structure Arrived (T : SM) (x : Nat) (r : Bool) : Prop where
  inv : Inv T
  count : 2 ≤ T.playableCount
  seat : ∃ sx, T.seats[x]? = some sx ∧ sx.player.isSome = true ∧ sx.reserved = r ∧ sx.active = true

theorem Arrived.playable_iff {T : SM} {x : Nat} {r : Bool} (w : Arrived T x r) : T.playable x = true ↔ r = false := by
  obtain ⟨sx, hs, ho, hr, ha⟩ := w.seat
  cases r <;> simp [playable, hs, ho, hr, ha]

theorem Arrived.x_lt {T : SM} {x : Nat} {r : Bool} (w : Arrived T x r) : x < T.max := by
  obtain ⟨sx, hs, _⟩ := w.seat
  have := (List.getElem?_eq_some_iff.mp hs).1
  have hw := w.inv.wf
  unfold WF at hw
  omega

/-- Once the button has passed, `next` keeps succeeding and keeps the seat as it is. -/
theorem Arrived.step {T : SM} {x : Nat} {r : Bool} (w : Arrived T x r) :
    (T.step .next).2.1 = none ∧ Arrived (T.step .next).1 x r := by
  have hok := next_succeeds_of_count w.inv w.count
  obtain ⟨d, ks, kb, hn⟩ := next_ok w.inv hok
  obtain ⟨sx, hs, ho, hr, ha⟩ := w.seat
  exact ⟨hok, step_inv w.inv .next, hn.mid_count.trans (hn.count_le w.inv),
    ⟨sx, next_seat_fix w.inv hok hs ho ha, ho, hr, ha⟩⟩

/-- One `next` from a pending situation (any reservation flag): it succeeds, the button moves `k` seats; if it passes
`x` the seat is activated (`Arrived`), otherwise the player is still pending and nobody playable sits between the new
dealer and him. -/
theorem Pending.step {T : SM} {x d a : Nat} {r : Bool} (w : Pending T x d a r) :
    (T.step .next).2.1 = none ∧ (T.step .next).1.max = T.max ∧
    ∃ k, 1 ≤ k ∧ k < T.max ∧ k ≠ a ∧ (T.step .next).1.dealer = some ((d + k) % T.max) ∧
      T.playable ((d + k) % T.max) = true ∧
      (a < k → Arrived (T.step .next).1 x r) ∧
      (k < a → Pending (T.step .next).1 x ((d + k) % T.max) (a - k) r ∧
        ∀ j, 0 < j → j < a - k → (T.step .next).1.playable (((d + k) % T.max + j) % T.max) = false) := by
  have hinv := w.inv
  have hok := next_succeeds_of_count hinv w.count
  obtain ⟨k, hk1, hk2, hpk, hall, hf, hmd, hseats⟩ := nextDealer_spec T w.count
  have hbase : T.scanBase = (d, 1) := by unfold scanBase; rw [w.dealer]
  rw [hbase] at hk1 hpk hall hmd hseats
  simp only at hk1 hpk hall hmd hseats
  obtain ⟨d', ks, kb, hn⟩ := next_ok hinv hok
  have hd' : d' = (d + k) % T.max := by
    have := hn.mid_dealer; rw [hmd] at this; cases this; rfl
  subst hd'
  have hxnp := w.not_playable
  have hka : k ≠ a := by
    intro h; subst h; rw [← w.x_eq, hxnp] at hpk; cases hpk
  obtain ⟨sx, hsx, hocc, hres, hact⟩ := w.seat
  refine ⟨hok, hn.max_eq, k, hk1, hk2, hka, hn.dealer, hpk, ?_, ?_⟩
  · intro hak
    have hx' := hseats a w.a_lt
    rw [← w.x_eq, if_pos ⟨w.a_pos, hak⟩, hsx] at hx'
    have hfix : (T.step .next).1.seats[x]? = some (actv sx) :=
      hn.seat_fix hinv (s := actv sx) (by simpa using hx') hocc rfl
    exact ⟨step_inv hinv .next, hn.mid_count.trans (hn.count_le hinv), ⟨actv sx, hfix, hocc, hres, rfl⟩⟩
  · intro hka'
    have hmodk : ∀ j, ((d + k) % T.max + j) % T.max = (d + (k + j)) % T.max := by
      intro j; rw [Nat.mod_add_mod, Nat.add_assoc]
    -- seats at offsets ≥ k from d are untouched by nextDealer
    have hmid_same : ∀ j, k ≤ j → j < T.max →
        T.nextDealer.1.seats[(d + j) % T.max]? = T.seats[(d + j) % T.max]? := by
      intro j hj1 hj2
      rw [hseats j hj2, if_neg (by omega)]
    have hmid_play : ∀ j, k ≤ j → j < T.max →
        T.nextDealer.1.playable ((d + j) % T.max) = T.playable ((d + j) % T.max) :=
      fun j hj1 hj2 => playable_congr (hmid_same j hj1 hj2)
    have hxoff : x = ((d + k) % T.max + (a - k)) % T.max := by
      rw [hmodk, w.x_eq]; congr 2; omega
    have halt : a - k < kb := by
      by_contra hcon
      have hkb1 : kb ≤ a - k := by omega
      have hbp := hn.bb_playable
      rw [hmodk, hmid_play (k + kb) (by omega) (by have := w.a_lt; omega)] at hbp
      by_cases hkbe : kb = a - k
      · have : (d + (k + kb)) % T.max = x := by rw [w.x_eq]; congr 2; omega
        rw [this, hxnp] at hbp; cases hbp
      · have := w.atmost k (k + kb) (by omega) (by omega) (by omega) (by omega) hpk hbp
        have := hn.ks_lt
        omega
    have hseatx : (T.step .next).1.seats[x]? = some sx := by
      have h1 := hn.seats (a - k) (by have := w.a_lt; omega)
      rw [← hxoff] at h1
      have h2 := hmid_same a (by omega) w.a_lt
      rw [← w.x_eq] at h2
      rw [h1, h2, hsx]
      unfold renewF
      rw [if_pos halt]
      simp [deact_occupied hocc]
    have hpost_play : ∀ j, 0 < j → j < a - k →
        (T.step .next).1.playable (((d + k) % T.max + j) % T.max) = T.playable ((d + (k + j)) % T.max) := by
      intro j hj1 hj2
      have hjm : j < T.max := by have := w.a_lt; omega
      rw [hn.playable_post hjm, if_pos (by omega), hmodk, hmid_play (k + j) (by omega) (by have := w.a_lt; omega)]
    have hnone : ∀ j, 0 < j → j < a - k →
        (T.step .next).1.playable (((d + k) % T.max + j) % T.max) = false := by
      intro j h1 h2
      rw [hpost_play j h1 h2]
      cases hp1 : T.playable ((d + (k + j)) % T.max) with
      | false => rfl
      | true =>
        have := w.atmost k (k + j) (by omega) (by omega) (by omega) (by omega) hpk hp1
        omega
    refine ⟨⟨step_inv hinv .next, hn.dealer, hn.mid_count.trans (hn.count_le hinv), by omega,
      by rw [hn.max_eq]; have := w.a_lt; omega, by rw [hn.max_eq]; exact hxoff, ⟨sx, hseatx, hocc, hres, hact⟩, ?_⟩,
      hnone⟩
    intro j1 j2 h1 h2 h3 h4 hp1 hp2
    rw [hn.max_eq, hnone j1 h1 h2] at hp1
    cases hp1

/-! ### sitting in -/

theorem playable_modSeat_unreserve_of_inactive {T : SM} {x : Nat} {sx : Seat} (hs : T.seats[x]? = some sx)
    (hact : sx.active = false) (j : Nat) :
    (T.modSeat x fun s => { s with reserved := false }).playable j = T.playable j := by
  unfold playable
  rw [modSeat_seats]
  by_cases hxj : x = j
  · subst hxj; rw [if_pos rfl, hs]; simp [hact]
  · rw [if_neg hxj]

theorem playable_modSeat_unreserve_mono (T : SM) (x j : Nat) (hp : T.playable j = true) :
    (T.modSeat x fun s => { s with reserved := false }).playable j = true := by
  unfold playable at *
  rw [modSeat_seats]
  by_cases hxj : x = j
  · subst hxj; rw [if_pos rfl]
    cases hs : T.seats[x]? with
    | none => simp [hs] at hp
    | some s => simp [hs] at hp ⊢; exact ⟨hp.1.1, hp.2⟩
  · rw [if_neg hxj]; exact hp

/-- Sitting in while still pending: nothing becomes playable; the player is now `Waiting`. -/
theorem Pending.sit {T : SM} {x d a : Nat} {r : Bool} (w : Pending T x d a r) :
    Pending (T.step (.seat (x : Int))).1 x d a false ∧ (T.step (.seat (x : Int))).1.max = T.max ∧
    ∀ j, (T.step (.seat (x : Int))).1.playable j = T.playable j := by
  obtain ⟨sx, hsx, hocc, hres, hact⟩ := w.seat
  have hinv' := step_inv w.inv (.seat (x : Int))
  rw [step_seat_nat T w.x_lt] at hinv' ⊢
  simp only at hinv' ⊢
  have hplay := playable_modSeat_unreserve_of_inactive hsx hact
  refine ⟨⟨hinv', w.dealer, ?_, w.a_pos, w.a_lt, w.x_eq, ?_, ?_⟩, rfl, hplay⟩
  · have : (T.modSeat x fun s => { s with reserved := false }).playableCount = T.playableCount := by
      rw [playableCount_eq_countP, playableCount_eq_countP]
      exact List.countP_congr (fun j _ => by rw [hplay j])
    rw [this]; exact w.count
  · refine ⟨{ sx with reserved := false }, ?_, hocc, rfl, hact⟩
    rw [modSeat_seats, if_pos rfl, hsx]; rfl
  · intro j1 j2 h1 h2 h3 h4 hp1 hp2
    simp only [modSeat_max] at hp1 hp2
    rw [hplay] at hp1 hp2
    exact w.atmost j1 j2 h1 h2 h3 h4 hp1 hp2

/-- Sitting in after the button has passed: the player is playable at once. -/
theorem Arrived.sit {T : SM} {x : Nat} {r : Bool} (w : Arrived T x r) :
    Arrived (T.step (.seat (x : Int))).1 x false := by
  obtain ⟨sx, hsx, hocc, hres, hact⟩ := w.seat
  have hinv' := step_inv w.inv (.seat (x : Int))
  rw [step_seat_nat T w.x_lt] at hinv' ⊢
  simp only at hinv' ⊢
  refine ⟨hinv', ?_, ⟨{ sx with reserved := false }, ?_, hocc, rfl, hact⟩⟩
  · refine w.count.trans ?_
    rw [playableCount_eq_countP, playableCount_eq_countP]
    apply List.countP_mono_left
    intro j _ hp
    exact playable_modSeat_unreserve_mono T x j hp
  · rw [modSeat_seats, if_pos rfl, hsx]; rfl

/-! ### the newcomer's history: `Join(x)`, `k` hands, `Seat(x)`, further hands -/

/-- Start of hand `n` (state right after the `n`-th `next`; `n = 0`: right after the `Join`) when the newcomer sits in
after `k` hands: `J` is the state right after his `Join(x)`. -/
def nhand (J : SM) (x k n : Nat) : SM :=
  if n ≤ k then nexts J n else nexts ((nexts J k).step (.seat (x : Int))).1 (n - k)

/-- The state in which the `(n+1)`-th `next` is called: hand `n`, after the sit-in when `n = k`. -/
def npre (J : SM) (x k n : Nat) : SM :=
  if n = k then ((nhand J x k n).step (.seat (x : Int))).1 else nhand J x k n

theorem nhand_zero (J : SM) (x k : Nat) : nhand J x k 0 = J := by
  unfold nhand; rw [if_pos (Nat.zero_le k)]; rfl

theorem nhand_succ (J : SM) (x k n : Nat) : nhand J x k (n + 1) = ((npre J x k n).step .next).1 := by
  unfold npre nhand
  by_cases h1 : n + 1 ≤ k
  · rw [if_pos h1, if_neg (by omega), if_pos (by omega), nexts_succ]
  · rw [if_neg h1]
    by_cases h2 : n = k
    · subst h2
      rw [if_pos rfl, if_pos (Nat.le_refl n)]
      have : n + 1 - n = 0 + 1 := by omega
      rw [this, nexts_succ, nexts_zero]
    · rw [if_neg h2, if_neg (by omega)]
      have : n + 1 - k = (n - k) + 1 := by omega
      rw [this, nexts_succ]

/-- `nhand` spelled out as one run of the operation list. -/
theorem nhand_eq_run (S0 : SM) (x : Nat) (pid : Nat) (c : Option Nat) (k n : Nat) :
    nhand (S0.step (.join (x : Int) pid c)).1 x k n =
      S0.run (.join (x : Int) pid c ::
        (if n ≤ k then List.replicate n .next
         else List.replicate k .next ++ .seat (x : Int) :: List.replicate (n - k) .next)) := by
  unfold nhand nexts
  by_cases h : n ≤ k
  · rw [if_pos h, if_pos h]; rfl
  · rw [if_neg h, if_neg h]
    show _ = ((S0.step (.join (x : Int) pid c)).1).run _
    simp only [run, List.foldl_append, List.foldl_cons]

/-- In the `(n+1)`-th `next` of the newcomer's history the button passes seat `x`. -/
def PassedN (J : SM) (x k n : Nat) : Prop :=
  ∃ d e, (nhand J x k n).dealer = some d ∧ (nhand J x k (n + 1)).dealer = some e ∧
    StrictlyBetween (nhand J x k n).max d x e

theorem passedN_iff {J : SM} {x k n d a k' : Nat} (hd : (nhand J x k n).dealer = some d) (ha0 : 0 < a)
    (ha : a < (nhand J x k n).max) (hx : x = (d + a) % (nhand J x k n).max) (hk : k' < (nhand J x k n).max)
    (he : (nhand J x k (n + 1)).dealer = some ((d + k') % (nhand J x k n).max)) :
    PassedN J x k n ↔ a < k' := by
  unfold PassedN
  generalize (nhand J x k n).max = M at ha hx hk he ⊢
  have key : StrictlyBetween M d x ((d + k') % M) ↔ a < k' := by
    have := strictlyBetween_iff (m := M) (d := d) ha hk ha0
    rw [← hx] at this; exact this
  constructor
  · rintro ⟨d0, e0, h1, h2, h3⟩
    rw [hd] at h1; cases h1
    rw [he] at h2; cases h2
    exact key.mp h3
  · intro h
    exact ⟨d, _, hd, he, key.mpr h⟩

/-- From hand `n` to the state in which the next `next` is called (sit-in when `n = k`), pending case. -/
theorem pending_pre {J : SM} {x k n d a : Nat} (w : Pending (nhand J x k n) x d a (decide (n ≤ k))) :
    Pending (npre J x k n) x d a (decide (n + 1 ≤ k)) ∧ (npre J x k n).max = (nhand J x k n).max ∧
    ∀ j, (npre J x k n).playable j = (nhand J x k n).playable j := by
  unfold npre
  by_cases h : n = k
  · rw [if_pos h]
    have : decide (n + 1 ≤ k) = false := by simp; omega
    rw [this]
    exact w.sit
  · rw [if_neg h]
    have : decide (n + 1 ≤ k) = decide (n ≤ k) := by
      by_cases h' : n ≤ k
      · have : n + 1 ≤ k := by omega
        simp [h', this]
      · have : ¬ n + 1 ≤ k := by omega
        simp [h', this]
    rw [this]
    exact ⟨w, rfl, fun _ => rfl⟩

theorem arrived_pre {J : SM} {x k n : Nat} (w : Arrived (nhand J x k n) x (decide (n ≤ k))) :
    Arrived (npre J x k n) x (decide (n + 1 ≤ k)) := by
  unfold npre
  by_cases h : n = k
  · rw [if_pos h]
    have : decide (n + 1 ≤ k) = false := by simp; omega
    rw [this]
    exact w.sit
  · rw [if_neg h]
    have : decide (n + 1 ≤ k) = decide (n ≤ k) := by
      by_cases h' : n ≤ k
      · have : n + 1 ≤ k := by omega
        simp [h', this]
      · have : ¬ n + 1 ≤ k := by omega
        simp [h', this]
    rw [this]
    exact w

/-- The two phases of the newcomer's history. -/
def NPhase (J : SM) (x k n : Nat) : Prop :=
  (∃ d a, Pending (nhand J x k n) x d a (decide (n ≤ k)) ∧ ∀ m, m < n → ¬ PassedN J x k m) ∨
  (Arrived (nhand J x k n) x (decide (n ≤ k)) ∧ ∃ m, m < n ∧ PassedN J x k m)

theorem newcomer_phase {J : SM} {x d a : Nat} (w : Pending J x d a true) (k n : Nat) : NPhase J x k n := by
  induction n with
  | zero =>
    left
    refine ⟨d, a, ?_, fun m hm => absurd hm (Nat.not_lt_zero m)⟩
    rw [nhand_zero]
    simpa using w
  | succ n ih =>
    rcases ih with ⟨d', a', w', hnp⟩ | ⟨w', m, hm, hpm⟩
    · obtain ⟨wp, hmax, _⟩ := pending_pre w'
      obtain ⟨_, _, k', hk1, hk2, hka, hdk, _, hpass, hwait⟩ := wp.step
      rw [← nhand_succ] at hdk hpass hwait
      rw [hmax] at hk2 hdk
      have hiff : PassedN J x k n ↔ a' < k' :=
        passedN_iff w'.dealer w'.a_pos w'.a_lt w'.x_eq hk2 hdk
      by_cases hlt : a' < k'
      · right
        exact ⟨hpass hlt, n, Nat.lt_succ_self n, hiff.mpr hlt⟩
      · left
        have hlt' : k' < a' := by omega
        refine ⟨_, _, (hwait hlt').1, ?_⟩
        intro m hm
        by_cases hmn : m = n
        · subst hmn; exact fun hp => hlt (hiff.mp hp)
        · exact hnp m (by omega)
    · right
      have wp := arrived_pre w'
      have := wp.step.2
      rw [← nhand_succ] at this
      exact ⟨this, m, by omega, hpm⟩

/-- Every `next` of the newcomer's history succeeds. -/
theorem newcomer_next_ok {J : SM} {x d a : Nat} (w : Pending J x d a true) (k n : Nat) :
    ((npre J x k n).step .next).2.1 = none := by
  rcases newcomer_phase w k n with ⟨d', a', w', _⟩ | ⟨w', _⟩
  · exact (pending_pre w').1.step.1
  · exact (arrived_pre w').step.1

/-- Dealt in exactly from the first hand after both the sit-in and the passing of the button. -/
theorem newcomer_playable_iff {J : SM} {x d a : Nat} (w : Pending J x d a true) (k n : Nat) :
    (nhand J x k n).playable x = true ↔ (k < n ∧ ∃ m, m < n ∧ PassedN J x k m) := by
  rcases newcomer_phase w k n with ⟨d', a', w', hnp⟩ | ⟨w', hp⟩
  · rw [w'.not_playable]
    constructor
    · intro h; cases h
    · rintro ⟨_, m, hm, hpm⟩; exact absurd hpm (hnp m hm)
  · rw [w'.playable_iff]
    constructor
    · intro h
      refine ⟨?_, hp⟩
      by_contra hc
      have : decide (n ≤ k) = true := by simp; omega
      rw [this] at h; cases h
    · rintro ⟨hk, _⟩
      simp; omega

/-- Right after the sit-in (between two hands) the seat is playable iff the button had already passed it. -/
theorem newcomer_sit_playable_iff {J : SM} {x d a : Nat} (w : Pending J x d a true) (k : Nat) :
    ((nhand J x k k).step (.seat (x : Int))).1.playable x = true ↔ ∃ m, m < k ∧ PassedN J x k m := by
  have hpre : npre J x k k = ((nhand J x k k).step (.seat (x : Int))).1 := by unfold npre; rw [if_pos rfl]
  have hdec : decide (k + 1 ≤ k) = false := by simp
  rcases newcomer_phase w k k with ⟨d', a', w', hnp⟩ | ⟨w', hp⟩
  · have wp := (pending_pre w').1
    rw [hpre] at wp
    rw [wp.not_playable]
    constructor
    · intro h; cases h
    · rintro ⟨m, hm, hpm⟩; exact absurd hpm (hnp m hm)
  · have wp := arrived_pre w'
    rw [hpre, hdec] at wp
    rw [wp.playable_iff]
    exact ⟨fun _ => hp, fun _ => rfl⟩

/-- The button passes the newcomer in the first or in the second `next`, whenever he sits in. -/
theorem newcomer_passed_soon {J : SM} {x d a : Nat} (w : Pending J x d a true) (k : Nat) :
    PassedN J x k 0 ∨ PassedN J x k 1 := by
  have w0 : Pending (nhand J x k 0) x d a (decide (0 ≤ k)) := by rw [nhand_zero]; simpa using w
  obtain ⟨wp, hmax, _⟩ := pending_pre w0
  obtain ⟨_, hmax1, k', hk1, hk2, hka, hdk, _, _, hwait⟩ := wp.step
  rw [← nhand_succ] at hdk hwait hmax1
  rw [hmax] at hk2 hdk hmax1
  have hiff : PassedN J x k 0 ↔ a < k' := passedN_iff w0.dealer w0.a_pos w0.a_lt w0.x_eq hk2 hdk
  by_cases h : a < k'
  · left; exact hiff.mpr h
  · right
    have hlt : k' < a := by omega
    rw [hmax] at hwait
    obtain ⟨w1, hnone⟩ := hwait hlt
    have w1' : Pending (nhand J x k 1) x ((d + k') % (nhand J x k 0).max) (a - k') (decide (1 ≤ k)) := by
      have : decide (1 ≤ k) = decide (0 + 1 ≤ k) := rfl
      rw [this]; exact w1
    obtain ⟨wp1, hmaxp1, hplay1⟩ := pending_pre w1'
    obtain ⟨_, _, k'', hk1', hk2', hka', hdk', hpk', _, _⟩ := wp1.step
    rw [← nhand_succ] at hdk'
    rw [hmaxp1] at hk2' hdk' hpk'
    have hiff' : PassedN J x k 1 ↔ a - k' < k'' :=
      passedN_iff w1'.dealer w1'.a_pos w1'.a_lt w1'.x_eq hk2' hdk'
    apply hiff'.mpr
    by_contra hcon
    have hlt' : k'' < a - k' := by omega
    have := hnone k'' (by omega) hlt'
    rw [hplay1, hmax1] at hpk'
    rw [this] at hpk'; cases hpk'

/-- The sit-in itself is accepted. -/
theorem newcomer_sit_ok {J : SM} {x d a : Nat} (w : Pending J x d a true) (k : Nat) :
    ((nhand J x k k).step (.seat (x : Int))).2.1 = none := by
  have hx : x < (nhand J x k k).max := by
    rcases newcomer_phase w k k with ⟨d', a', w', _⟩ | ⟨w', _⟩
    · exact w'.x_lt
    · exact w'.x_lt
  rw [step_seat_nat _ hx]

/-- There is a first hand `n0` — the first after both the sit-in and the passing of the button; it is hand `k+1`
(the first after the sit-in) or hand `2` — from which on, and not before, the newcomer is dealt in. -/
theorem newcomer_first_hand {J : SM} {x d a : Nat} (w : Pending J x d a true) (k : Nat) :
    ∃ n0, k < n0 ∧ (n0 = k + 1 ∨ n0 = 2) ∧ ∀ n, (nhand J x k n).playable x = true ↔ n0 ≤ n := by
  by_cases h0 : PassedN J x k 0
  · refine ⟨k + 1, by omega, Or.inl rfl, fun n => ?_⟩
    rw [newcomer_playable_iff w]
    constructor
    · rintro ⟨hk, _⟩; omega
    · intro hn; exact ⟨by omega, 0, by omega, h0⟩
  · have h1 : PassedN J x k 1 := (newcomer_passed_soon w k).resolve_left h0
    have hm : ∀ m, PassedN J x k m → 1 ≤ m := by
      intro m hpm
      cases m with
      | zero => exact absurd hpm h0
      | succ m => omega
    by_cases hk0 : k = 0
    · refine ⟨2, by omega, Or.inr rfl, fun n => ?_⟩
      rw [newcomer_playable_iff w]
      constructor
      · rintro ⟨hk, m, hmn, hpm⟩
        have := hm m hpm
        omega
      · intro hn; exact ⟨by omega, 1, by omega, h1⟩
    · refine ⟨k + 1, by omega, Or.inl rfl, fun n => ?_⟩
      rw [newcomer_playable_iff w]
      constructor
      · rintro ⟨hk, _⟩; omega
      · intro hn; exact ⟨by omega, 1, by omega, h1⟩

/-! ### the initial situation: `Join` on an empty seat between dealer and big blind right after a successful `next` -/

theorem pending_init {sm : SM} (h : Inv sm) {d ks kb : Nat} (hn : NextOk sm (sm.step .next).1 d ks kb)
    {jx : Nat} (h1 : 0 < jx) (h2 : jx < kb) {s : Seat}
    (hs : (sm.step .next).1.seats[(d + jx) % sm.max]? = some s) (hemp : s.player = none)
    (pid : Nat) (c : Option Nat) :
    Pending ((sm.step .next).1.step (.join (((d + jx) % sm.max : Nat) : Int) pid c)).1 ((d + jx) % sm.max) d jx true ∧
    ((sm.step .next).1.step (.join (((d + jx) % sm.max : Nat) : Int) pid c)).2 = (none, some ((d + jx) % sm.max)) ∧
    ((sm.step .next).1.step (.join (((d + jx) % sm.max : Nat) : Int) pid c)).1.seats[(d + jx) % sm.max]? =
      some { player := some pid, active := false, reserved := true } := by
  have hkb := hn.kb_lt
  have hjm : jx < sm.max := by omega
  generalize hS0 : (sm.step .next).1 = S0 at *
  generalize hx : (d + jx) % sm.max = x at *
  have hinv0 : Inv S0 := by rw [← hS0]; exact step_inv h .next
  have hxlt : x < S0.max := by rw [← hinv0.wf]; exact (List.getElem?_eq_some_iff.mp hs).1
  have hxlen : x < S0.seats.length := (List.getElem?_eq_some_iff.mp hs).1
  -- the seat is inactive
  have hsact : s.active = false := by
    have := hn.seats jx hjm
    rw [hx, hs] at this
    cases hq : sm.nextDealer.1.seats[x]? with
    | none => rw [hq] at this; cases this
    | some q =>
      rw [hq] at this
      simp only [Option.map_some, Option.some.injEq, renewF, if_pos h2] at this
      unfold deact at this
      split at this
      · rw [this]
      · next hne => rw [← this] at hne; simp [hemp] at hne
  have hjoin : S0.step (.join (x : Int) pid c) =
      (S0.setSeat x { s with reserved := true, player := some pid }, none, some x) := by
    rw [step_join_eq, if_neg (by omega), if_pos (by omega)]
    simp only [Int.toNat_natCast]
    rcases joinAt_cases S0 pid x with ⟨h', _⟩ | ⟨s', h1', h2', _⟩ | ⟨s', h1', h2', h3'⟩
    · rw [hs] at h'; cases h'
    · rw [hs] at h1'; cases h1'; simp [hemp] at h2'
    · rw [hs] at h1'; cases h1'; exact h3'
  have hTinv : Inv (S0.step (.join (x : Int) pid c)).1 := step_inv hinv0 _
  rw [hjoin] at hTinv ⊢
  simp only at hTinv ⊢
  generalize hT : S0.setSeat x { s with reserved := true, player := some pid } = T at *
  have hTmax : T.max = sm.max := by rw [← hT]; simp [setSeat, hn.max_eq]
  have hTdealer : T.dealer = some d := by rw [← hT]; simp [setSeat, hn.dealer]
  have hTx : T.seats[x]? = some { player := some pid, active := false, reserved := true } := by
    rw [← hT, setSeat_seats, if_pos rfl, if_pos hxlen]
    simp [hsact]
  have hTj : ∀ j, j ≠ x → T.seats[j]? = S0.seats[j]? := by
    intro j hj
    have : ¬ x = j := fun h => hj h.symm
    rw [← hT, setSeat_seats, if_neg this]
  have hplay : ∀ j, T.playable j = S0.playable j := by
    intro j
    by_cases hj : j = x
    · subst hj; simp [playable, hTx, hs, hemp]
    · exact playable_congr (hTj j hj)
  have hcount : T.playableCount = S0.playableCount := by
    rw [playableCount_eq_countP, playableCount_eq_countP, hTmax, hn.max_eq]
    exact List.countP_congr (fun j _ => by rw [hplay j])
  refine ⟨⟨hTinv, hTdealer, ?_, h1, by rw [hTmax]; exact hjm, by rw [hTmax, hx], ⟨_, hTx, rfl, rfl, rfl⟩, ?_⟩, trivial, hTx⟩
  · rw [hcount]; exact hn.mid_count.trans (hn.count_le h)
  · have honly : ∀ j, 0 < j → j < jx → T.playable ((d + j) % T.max) = true → j = ks := by
      intro j hj1 hj2 hp
      rw [hTmax, hplay, hn.playable_post (by omega), if_pos (by omega)] at hp
      rcases hn.branch with ⟨_, h0⟩ | ⟨_, hpos, _, hall⟩
      · by_contra hne
        rw [hn.between j (by omega) (by omega)] at hp; cases hp
      · by_contra hne
        by_cases hlt : j < ks
        · rw [hall j hj1 hlt] at hp; cases hp
        · rw [hn.between j (by omega) (by omega)] at hp; cases hp
    intro j1 j2 a1 a2 a3 a4 p1 p2
    rw [honly j1 a1 a2 p1, honly j2 a3 a4 p2]

end SM
end Pokerface
