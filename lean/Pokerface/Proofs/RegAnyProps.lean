/-
  Small lemmas connecting the widest-domain invariant `SInv0` to the statements of C09
  (Proofs/RegProps.lean redone for `SInv0`).
-/
import Pokerface.Proofs.RegAnyEnv

namespace Pokerface
open Reg

namespace RSys

theorem SInv0.members_nil_iff {s : RSys} (h : SInv0 s) : s.env.members = [] ↔ s.r.tables = [] := by
  have := congrArg List.length h.sim
  simp only [tview, mview, List.length_map] at this
  constructor
  · intro hm; rw [hm] at this; exact List.length_eq_zero_iff.1 this
  · intro ht; rw [ht] at this; exact List.length_eq_zero_iff.1 this.symm

theorem SInv0.mem_table {s : RSys} (h : SInv0 s) {e : Nat × List Nat} (he : e ∈ s.env.members) :
    ∃ tb ∈ s.r.tables, tb.id = e.1 ∧ tb.count = e.2.length := by
  have : (e.1, (e.2.length : Int)) ∈ mview s.env.members := List.mem_map.2 ⟨e, he, rfl⟩
  rw [← h.sim] at this
  obtain ⟨tb, htb, heq⟩ := List.mem_map.1 this
  simp only [Prod.mk.injEq] at heq
  exact ⟨tb, htb, heq.1, heq.2⟩

/-- what `SyncState` answers on a table the environment knows, for any split of its members
    into eliminated and staying ones -/
theorem SInv0.sync_known {s : RSys} (h : SInv0 s) (t : Nat) (elim stay ms : List Nat)
    (hm : s.env.membersOf t = some ms) (hp : ms.Perm (elim ++ stay)) :
    ∃ r1 relc nw t0, s.syncAnswer t elim = (r1, none, relc, nw) ∧ s.r.findTable t = some t0 ∧
      t0.count = ms.length ∧ 0 ≤ relc ∧ relc ≤ (stay.length : Int) + nw.length ∧ (nw = [] ∨ relc = 0) ∧
      s.r.queue = nw ++ r1.queue ∧ r1.calls = [] ∧
      (s.broken t elim = true → relc = stay.length ∧ nw = []) := by
  obtain ⟨r1, relc, nw, t0, hft, hc0, hans, post⟩ := sync_facts0 h t elim stay ms hm hp
  have hlen := hp.length_eq
  rw [List.length_append] at hlen
  have htb : (adj (-(elim.length : Int)) none t0).count = stay.length := by
    simp only [adj]; omega
  refine ⟨r1, relc, nw, t0, hans, hft, hc0, post.rel0, ?_, post.excl, post.queue, post.calls, ?_⟩
  · rcases post.cases with ⟨_, _, h3, h4⟩ | ⟨a, rq, _, _, h3⟩
    · rw [h3, htb, h4]; simp
    · rw [htb] at h3; exact h3
  · intro hb
    rcases post.cases with ⟨_, _, h3, h4⟩ | ⟨a, rq, htab, _, _⟩
    · exact ⟨by rw [h3, htb], h4⟩
    · exfalso
      obtain ⟨ht0, hid0⟩ := findTable_some hft
      have hidm : t ∈ r1.tables.map (·.id) := by
        rw [htab, upd_ids _ _ _ (adj_id a rq), syncBase_tables, upd_ids _ _ _ (adj_id _ _)]
        exact List.mem_map.2 ⟨t0, ht0, hid0⟩
      simp only [broken, hans] at hb
      cases hf : r1.findTable t with
      | none => exact findTable_ne_none hidm hf
      | some _ => rw [hf] at hb; cases hb

theorem SInv0.unknown_iff {s : RSys} (h : SInv0 s) (t : Nat) :
    s.env.membersOf t = none ↔ s.r.findTable t = none := by
  have hsf := sim_find s.r.tables s.env.members t h.sim
  unfold Env.membersOf Reg.findTable
  cases h1 : s.r.tables.find? (fun x => x.id == t) <;>
    cases h2 : s.env.members.find? (fun x => x.1 == t) <;> simp_all

end RSys
end Pokerface
