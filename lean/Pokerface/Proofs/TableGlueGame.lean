/-
  The glue between the seat manager and the hand engine, part 2: the game `startGame` creates.
  * game indices (`assignGameIdx`, `seatOfGameIdx`), the player settings (`gameSeats`),
  * `prepareNextGame` cut into "a game is created" (`Created`) and "the hand is played" (`playHand`),
  * the playable seats clockwise from the dealer right after a successful `Next()` (`playableSeats_nextOk`).
-/
import Pokerface.Proofs.TableGlue

namespace Pokerface
namespace Table

/-! ### game indices -/

theorem clearIdx_playerAt (t : Table) (j : Nat) :
    t.clearIdx.playerAt j = (t.playerAt j).map fun p => { p with gameIdx := -1 } := by
  unfold playerAt Table.clearIdx
  simp only [List.getElem?_map]
  cases t.players[j]? with
  | none => rfl
  | some o => cases o <;> rfl

theorem assignFold_playerAt (t : Table) (seats : List Nat) (k0 : Nat) (hnd : seats.Nodup) (j : Nat) :
    (t.assignFold seats k0).playerAt j =
      (t.playerAt j).map fun p => if j ∈ seats then { p with gameIdx := ((k0 + seats.idxOf j : Nat) : Int) } else p := by
  induction seats generalizing t k0 with
  | nil => simp [assignFold]
  | cons s seats ih =>
    rw [assignFold_cons, ih _ _ (List.nodup_cons.mp hnd).2, playerAt_modPl]
    by_cases hsj : s = j
    · subst hsj
      have hns : s ∉ seats := (List.nodup_cons.mp hnd).1
      simp only [hns, if_false, if_true, List.mem_cons, true_or, List.idxOf_cons_self, Nat.add_zero]
      cases t.playerAt s <;> simp
    · have hne : (s == j) = false := by simpa using hsj
      have hjs : ¬ j = s := fun h => hsj h.symm
      simp only [hsj, if_false, List.mem_cons, hjs, false_or, List.idxOf_cons, hne, cond_false]
      cases t.playerAt j with
      | none => rfl
      | some p =>
        simp only [Option.map_some]
        split
        · have : k0 + 1 + List.idxOf j seats = k0 + (List.idxOf j seats + 1) := by omega
          rw [this]
        · rfl

/-- the sheet after `startGame` has handed out the game indices: seat `seats[k]` carries index `k`, every other
seat `-1`; nothing else changes -/
theorem assignGameIdx_playerAt (t : Table) (seats : List Nat) (hnd : seats.Nodup) (j : Nat) :
    (t.assignGameIdx seats).playerAt j =
      (t.playerAt j).map fun p => { p with gameIdx := if j ∈ seats then ((seats.idxOf j : Nat) : Int) else -1 } := by
  rw [assignGameIdx_eq, assignFold_playerAt _ _ _ hnd, clearIdx_playerAt]
  cases t.playerAt j with
  | none => rfl
  | some p =>
    simp only [Option.map_some, Nat.zero_add]
    split <;> rfl

theorem assignFold_sm (t : Table) (seats : List Nat) (k0 : Nat) : (t.assignFold seats k0).sm = t.sm := by
  induction seats generalizing t k0 with
  | nil => rfl
  | cons s seats ih => rw [assignFold_cons, ih]; rfl

theorem assignFold_opts (t : Table) (seats : List Nat) (k0 : Nat) : (t.assignFold seats k0).opts = t.opts := by
  induction seats generalizing t k0 with
  | nil => rfl
  | cons s seats ih => rw [assignFold_cons, ih]; rfl

theorem assignFold_gameCount (t : Table) (seats : List Nat) (k0 : Nat) : (t.assignFold seats k0).gameCount = t.gameCount := by
  induction seats generalizing t k0 with
  | nil => rfl
  | cons s seats ih => rw [assignFold_cons, ih]; rfl

theorem assignFold_inPosition (t : Table) (seats : List Nat) (k0 : Nat) :
    (t.assignFold seats k0).inPosition = t.inPosition := by
  induction seats generalizing t k0 with
  | nil => rfl
  | cons s seats ih => rw [assignFold_cons, ih]; rfl

theorem assignFold_length (t : Table) (seats : List Nat) (k0 : Nat) :
    (t.assignFold seats k0).players.length = t.players.length := by
  induction seats generalizing t k0 with
  | nil => rfl
  | cons s seats ih => rw [assignFold_cons, ih]; simp

@[simp] theorem assignGameIdx_sm (t : Table) (seats : List Nat) : (t.assignGameIdx seats).sm = t.sm := by
  rw [assignGameIdx_eq, assignFold_sm]; rfl
@[simp] theorem assignGameIdx_opts (t : Table) (seats : List Nat) : (t.assignGameIdx seats).opts = t.opts := by
  rw [assignGameIdx_eq, assignFold_opts]; rfl
@[simp] theorem assignGameIdx_gameCount (t : Table) (seats : List Nat) : (t.assignGameIdx seats).gameCount = t.gameCount := by
  rw [assignGameIdx_eq, assignFold_gameCount]; rfl
@[simp] theorem assignGameIdx_inPosition (t : Table) (seats : List Nat) :
    (t.assignGameIdx seats).inPosition = t.inPosition := by
  rw [assignGameIdx_eq, assignFold_inPosition]; rfl
@[simp] theorem assignGameIdx_length (t : Table) (seats : List Nat) :
    (t.assignGameIdx seats).players.length = t.players.length := by
  rw [assignGameIdx_eq, assignFold_length]; simp [Table.clearIdx]

/-- `State.GetPlayerByGameIdx` finds the one seat that carries the index -/
theorem seatOfGameIdx_some {t : Table} {k s : Nat} {q : TPlayer} (hq : t.players[s]? = some (some q))
    (hk : q.gameIdx = (k : Int))
    (huniq : ∀ j q', t.players[j]? = some (some q') → q'.gameIdx = (k : Int) → j = s) :
    t.seatOfGameIdx k = some s := by
  unfold seatOfGameIdx
  cases hf : t.players.zipIdx.find? (fun x : Option TPlayer × Nat => match x.1 with
      | some p => p.gameIdx == (k : Int)
      | none => false) with
  | none =>
    exfalso
    rw [List.find?_eq_none] at hf
    have hm : ((some q, s) : Option TPlayer × Nat) ∈ t.players.zipIdx := List.mem_zipIdx_iff_getElem?.mpr hq
    have := hf _ hm
    simp [hk] at this
  | some x =>
    obtain ⟨o, i⟩ := x
    have hp := List.find?_some hf
    have hm := List.mem_zipIdx_iff_getElem?.mp (List.mem_of_find?_eq_some hf)
    simp only at hm hp
    cases o with
    | none => simp at hp
    | some q' =>
      simp only [beq_iff_eq] at hp
      have := huniq i q' hm hp
      subst this
      rfl

/-! ### the player settings handed to the engine -/

/-- the `PlayerSetting` made from one sheet entry -/
def _root_.Pokerface.TPlayer.cfg (p : TPlayer) : SeatCfg :=
  { bankroll := p.bankroll, dealer := p.dealer, sb := p.sb, bb := p.bb }

/-- the `PlayerSetting` of seat `s` (all-zero where the sheet has nobody: the Go code would dereference nil) -/
def seatCfgAt (t : Table) (s : Nat) : SeatCfg :=
  ((t.playerAt s).map TPlayer.cfg).getD { bankroll := 0, dealer := false, sb := false, bb := false }

theorem gameSeats_eq_map (t : Table) (seats : List Nat) : t.gameSeats seats = seats.map t.seatCfgAt := by
  unfold gameSeats
  apply List.map_congr_left
  intro s _
  unfold seatCfgAt playerAt
  cases h : t.players[s]? with
  | none => rfl
  | some o => cases o <;> rfl

theorem gameSeats_length (t : Table) (seats : List Nat) : (t.gameSeats seats).length = seats.length := by
  simp [gameSeats]

theorem gameSeats_getElem? (t : Table) (seats : List Nat) (k : Nat) :
    (t.gameSeats seats)[k]? = (seats[k]?).map t.seatCfgAt := by
  rw [gameSeats_eq_map, List.getElem?_map]

theorem seatCfgAt_of_player {t : Table} {s : Nat} {p : TPlayer} (h : t.players[s]? = some (some p)) :
    t.seatCfgAt s = p.cfg := by
  unfold seatCfgAt
  rw [playerAt_eq_some.mpr h]; rfl

/-- handing out the game indices does not change the settings -/
theorem gameSeats_assignGameIdx (t : Table) (seats : List Nat) (hnd : seats.Nodup) (l : List Nat) :
    (t.assignGameIdx seats).gameSeats l = t.gameSeats l := by
  rw [gameSeats_eq_map, gameSeats_eq_map]
  apply List.map_congr_left
  intro s _
  unfold seatCfgAt
  rw [assignGameIdx_playerAt _ _ hnd]
  cases t.playerAt s <;> rfl

/-! ### `prepareNextGame` in two halves -/

/-- `prepareNextGame` gets as far as creating a game: not over the game limit, positions set up (state `t1`), enough
playable seats, `seats` = `getPlayableSeats()` -/
structure Created (t t1 : Table) (seats : List Nat) : Prop where
  notMax : t.maxGamesReached = false
  setup : t.setupPosition = (t1, none)
  enough : ¬ ((t1.gameCount = 0 ∧ t1.sm.playableCount < t1.opts.initialPlayers) ∨
    t1.sm.playableCount < t1.opts.minPlayers)
  seats : playableSeats t1.sm = some seats

/-- the state in which the hand is over: closing stacks written back, game counted -/
def closed (t2 : Table) (finals : List Int) : Table :=
  { t2.applyResult finals with gameCount := (t2.applyResult finals).gameCount + 1, inPosition := false }

/-- `startGame` from `g.Start()` on, and the rest of `prepareNextGame` -/
def playHand (t2 : Table) (cfg : List SeatCfg) (finals : List Int) : Table × TOut :=
  match startRefusal cfg with
  | some e => (t2, { err := some (.game e), cfg := some cfg })
  | none =>
    if finals.length ≠ cfg.length then (t2, { err := some .badInput, cfg := some cfg })
    else if (t2.closed finals).maxGamesReached then (t2.closed finals, { err := some .maxGames, cfg := some cfg })
    else ((t2.closed finals).setupPosition.1, { err := (t2.closed finals).setupPosition.2, cfg := some cfg })

theorem prepareNextGame_created {t t1 : Table} {seats : List Nat} (h : Created t t1 seats) (finals : List Int) :
    t.prepareNextGame finals =
      playHand (t1.assignGameIdx seats) ((t1.assignGameIdx seats).gameSeats seats) finals := by
  unfold Table.prepareNextGame
  rw [if_neg (by simp [h.notMax]), h.setup]
  simp only
  rw [if_neg h.enough, h.seats]
  simp only
  unfold playHand
  cases startRefusal ((t1.assignGameIdx seats).gameSeats seats) with
  | some e => rfl
  | none =>
    simp only
    by_cases hl : finals.length ≠ ((t1.assignGameIdx seats).gameSeats seats).length
    · rw [if_pos hl, if_pos hl]
    · rw [if_neg hl, if_neg hl]
      by_cases hm : ((t1.assignGameIdx seats).closed finals).maxGamesReached = true
      · rw [if_pos hm]; exact if_pos hm
      · rw [if_neg hm]; exact if_neg hm

/-- a game was created only if `prepareNextGame` got that far -/
theorem prepareNextGame_cfg {t : Table} {finals : List Int} {cfg : List SeatCfg}
    (h : (t.prepareNextGame finals).2.cfg = some cfg) :
    ∃ t1 seats, Created t t1 seats ∧ cfg = (t1.assignGameIdx seats).gameSeats seats := by
  unfold Table.prepareNextGame at h
  split at h
  · cases h
  · next hmax =>
    rcases hs : t.setupPosition with ⟨t1, e⟩
    rw [hs] at h
    cases e with
    | some e => cases h
    | none =>
      simp only at h
      split at h
      · cases h
      · next hen =>
        cases hps : playableSeats t1.sm with
        | none => rw [hps] at h; cases h
        | some seats =>
          refine ⟨t1, seats, ⟨by simpa using hmax, hs, hen, hps⟩, ?_⟩
          rw [hps] at h
          simp only at h
          split at h
          · cases h; rfl
          · split at h
            · cases h; rfl
            · split at h
              · cases h; rfl
              · cases h; rfl

theorem playHand_cfg (t2 : Table) (cfg : List SeatCfg) (finals : List Int) : (playHand t2 cfg finals).2.cfg = some cfg := by
  unfold playHand
  split
  · rfl
  · split
    · rfl
    · split <;> rfl

/-! ### `getPlayableSeats` -/

theorem playableSeats_eq {sm : SM} {d : Nat} (hd : sm.dealer = some d) :
    playableSeats sm = some ((sm.normalize d).filter sm.playable) := by
  unfold playableSeats; rw [hd]; rfl

theorem playableSeats_spec {sm : SM} {seats : List Nat} (h : playableSeats sm = some seats) :
    ∃ d, sm.dealer = some d ∧ seats = (sm.normalize d).filter sm.playable ∧ seats.Nodup ∧
      seats.length = sm.playableCount ∧ ∀ s, s ∈ seats ↔ (s < sm.max ∧ sm.playable s = true) := by
  unfold playableSeats at h
  cases hd : sm.dealer with
  | none => rw [hd] at h; cases h
  | some d =>
    rw [hd] at h
    simp only [Option.map_some, Option.some.injEq] at h
    subst h
    refine ⟨d, rfl, rfl, (SM.normalize_nodup sm d).filter _, ?_, ?_⟩
    · rw [SM.playableCount_eq_normalize sm d, List.countP_eq_length_filter]
    · intro s
      rw [List.mem_filter, SM.mem_normalize]

theorem filter_range'_first (q : Nat → Bool) (a n k : Nat) (hk : k < n) (hq : q (a + k) = true)
    (hn : ∀ j, j < k → q (a + j) = false) :
    (List.range' a n).filter q = (a + k) :: (List.range' (a + k + 1) (n - k - 1)).filter q := by
  induction k generalizing a n with
  | zero =>
    obtain ⟨n', rfl⟩ : ∃ n', n = n' + 1 := ⟨n - 1, by omega⟩
    rw [List.range'_succ, List.filter_cons_of_pos (by simpa using hq)]
    simp
  | succ k ih =>
    obtain ⟨n', rfl⟩ : ∃ n', n = n' + 1 := ⟨n - 1, by omega⟩
    have h0 : q a = false := by simpa using hn 0 (by omega)
    rw [List.range'_succ, List.filter_cons_of_neg (by simp [h0])]
    have := ih (a + 1) n' (by omega) (by rw [← hq]; congr 1; omega)
      (fun j hj => by rw [← hn (j + 1) (by omega)]; congr 1; omega)
    rw [this]
    have e1 : a + 1 + k = a + (k + 1) := by omega
    have e2 : n' - k - 1 = n' + 1 - (k + 1) - 1 := by omega
    rw [e1, e2]

/-- **The playable seats clockwise from the dealer right after a successful `Next()`**: the dealer, then (ring
branch only) the small blind, then the big blind, then seats strictly behind the big blind. -/
theorem playableSeats_nextOk {sm sm' : SM} {d ks kb : Nat} (h : SM.NextOk sm sm' d ks kb) :
    ∃ rest, playableSeats sm' =
        some (if ks = 0 then d :: (d + kb) % sm.max :: rest else d :: (d + ks) % sm.max :: (d + kb) % sm.max :: rest) ∧
      ∀ x ∈ rest, ∃ j, kb < j ∧ j < sm.max ∧ x = (d + j) % sm.max := by
  have hks := h.ks_lt
  have hkb := h.kb_lt
  let f : Nat → Nat := fun k => (d + k) % sm.max
  let q : Nat → Bool := sm'.playable ∘ f
  refine ⟨((List.range' (kb + 1) (sm.max - kb - 1)).filter q).map f, ?_, ?_⟩
  · rw [playableSeats_eq h.dealer]
    have hnorm : sm'.normalize d = (List.range' 0 sm.max).map f := by
      unfold SM.normalize; rw [h.max_eq, List.range_eq_range']
    rw [hnorm, List.filter_map]
    have hq0 : q 0 = true := by
      show sm'.playable ((d + 0) % sm.max) = true
      rw [h.offset_zero]; exact h.playable_dealer
    have hqkb : q kb = true := h.playable_bb
    have hqbetween : ∀ j, ks < j → j < kb → q j = false := by
      intro j h1 h2
      show sm'.playable ((d + j) % sm.max) = false
      rw [h.playable_post (by omega), if_pos (by omega)]
      exact h.between j h1 h2
    have s1 := filter_range'_first q 0 sm.max 0 (by omega) (by simpa using hq0) (by intro j hj; omega)
    rw [s1]
    simp only [Nat.add_zero, Nat.zero_add, Nat.sub_zero]
    by_cases h0 : ks = 0
    · rw [if_pos h0]
      have s2 := filter_range'_first q 1 (sm.max - 1) (kb - 1) (by omega)
        (by rw [show 1 + (kb - 1) = kb by omega]; exact hqkb)
        (fun j hj => hqbetween (1 + j) (by omega) (by omega))
      rw [s2, show 1 + (kb - 1) = kb by omega, show sm.max - 1 - (kb - 1) - 1 = sm.max - kb - 1 by omega]
      simp only [List.map_cons]
      have e0 : f 0 = d := h.offset_zero
      rw [e0]
    · rw [if_neg h0]
      have hqks : q ks = true := h.playable_sb
      have hbefore : ∀ j, 0 < j → j < ks → q j = false := by
        intro j h1 h2
        show sm'.playable ((d + j) % sm.max) = false
        rw [h.playable_post (by omega), if_pos (by omega)]
        rcases h.branch with ⟨_, hz⟩ | ⟨_, _, _, hall⟩
        · exact absurd hz h0
        · exact hall j h1 h2
      have s2 := filter_range'_first q 1 (sm.max - 1) (ks - 1) (by omega)
        (by rw [show 1 + (ks - 1) = ks by omega]; exact hqks)
        (fun j hj => hbefore (1 + j) (by omega) (by omega))
      have s3 := filter_range'_first q (ks + 1) (sm.max - ks - 1) (kb - ks - 1) (by omega)
        (by rw [show ks + 1 + (kb - ks - 1) = kb by omega]; exact hqkb)
        (fun j hj => hqbetween (ks + 1 + j) (by omega) (by omega))
      rw [s2, show 1 + (ks - 1) = ks by omega, show sm.max - 1 - (ks - 1) - 1 = sm.max - ks - 1 by omega, s3,
        show ks + 1 + (kb - ks - 1) = kb by omega, show sm.max - ks - 1 - (kb - ks - 1) - 1 = sm.max - kb - 1 by omega]
      simp only [List.map_cons]
      have e0 : f 0 = d := h.offset_zero
      rw [e0]
  · intro x hx
    rw [List.mem_map] at hx
    obtain ⟨j, hj, rfl⟩ := hx
    rw [List.mem_filter, List.mem_range'_1] at hj
    exact ⟨j, by omega, by omega, rfl⟩

/-- seats at different offsets from the dealer are different seats -/
theorem offset_ne {m d j k : Nat} (hj : j < m) (hk : k < m) (h : j ≠ k) : (d + j) % m ≠ (d + k) % m :=
  fun he => h (SM.offset_inj hj hk he)

end Table
end Pokerface
