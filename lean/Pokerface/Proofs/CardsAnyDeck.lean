import Pokerface.Proofs.GapsBCards
/-
  "Cards once dealt never change" without the no-duplicates hypothesis: the `Stable` lemmas of
  Proofs/CardsOps.lean over `CInvL` (= `CInv` minus `deck.Nodup`).  Helper lemmas for C14AnyDeck.
-/
namespace Pokerface
open Game

/-- `stable_enterRound` reads only the `holes` and `pos` fields of the core invariant. -/
theorem stable_enterRoundL (g : Game) (hc : CCoreL g) (r : Round) (hn : Nxt g.round r) : Stable g (g.enterRound r) := by
  refine Stable.trans ?_ (cf_enterRound_tail g r).stable
  rcases hn with ⟨h1, rfl⟩ | ⟨h1, rfl⟩ | ⟨h1, rfl⟩ | ⟨h1, rfl⟩
  · have hs : (g.setRound .preflop).dealStreet = dealHoles g.n 0 (g.setRound .preflop) := rfl
    rw [hs]
    have hd := df_dealHoles g.n 0 (g.setRound .preflop)
    have hcn : g.holeCountNow = 0 := by simp [Game.holeCountNow, h1]
    have hpos : g.deckPos = 0 := by
      have := hc.pos; rw [hcn, h1] at this; simpa [Round.boardCount, Round.burnCount] using this
    refine ⟨by rw [hd.opts]; rfl, hd.n, by rw [hpos]; exact Nat.zero_le _, ?_, by rw [hd.board]; exact List.prefix_refl _,
      by rw [hd.burned]; exact List.prefix_refl _⟩
    intro k p p' hp _ hne
    have := hc.holes p (List.mem_of_getElem? hp)
    rw [hcn] at this
    exact absurd (List.eq_nil_of_length_eq_zero this) hne
  · exact stable_street g .flop 3 _
  · exact stable_street g .turn 1 _
  · exact stable_street g .river 1 _

theorem CStep.stableL {g g' : Game} (s : CStep g g') (hi : CInvL g) : Stable g g' := by
  cases s with
  | frame h => exact h.stable
  | deal r h hn => exact h.stable.trans (stable_enterRoundL _ (h.coreL hi.core) r hn)
  | ante h hr =>
    rename_i g1
    refine h.stable.trans ⟨rfl, rfl, Nat.le_refl _, ?_, List.prefix_refl _, List.prefix_refl _⟩
    intro i p p' hp hp' _
    have hp'' : g1.players[i]? = some p' := hp'
    rw [hp] at hp''
    cases hp''; rfl

theorem stable_stepL (g : Game) (hi : CInvL g) (op : Op) : Stable g (g.step op).1 := (cstep_stepL g hi op).stableL hi

theorem stable_runL (g : Game) (hi : CInvL g) (ops : List Op) : Stable g (g.run ops) := by
  induction ops generalizing g with
  | nil => exact Stable.refl g
  | cons op ops ih => exact (stable_stepL g hi op).trans (ih _ (cinvL_step g hi op))

theorem opts_runL (g : Game) (hi : CInvL g) (ops : List Op) : (g.run ops).opts = g.opts := by
  induction ops generalizing g with
  | nil => rfl
  | cons op ops ih =>
    show ((g.step op).1.run ops).opts = _
    rw [ih _ (cinvL_step g hi op), (cstep_stepL g hi op).opts]

end Pokerface
