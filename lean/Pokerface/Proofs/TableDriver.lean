import Pokerface.Model.TableDriver
import Pokerface.Properties.C04
import Pokerface.Properties.C06
import Pokerface.Properties.C07
/-
  Helper lemmas for C06Driver (the table's driver of a hand, table/game.go):
  the backend as a function of the engine step, and "the marks are invisible":
  the operations `payAnte` / `payBlinds` do not read `AllowedActions`.
-/
namespace Pokerface.Drv
open Pokerface Game

/-- the backend answers as the engine does on the state itself (C07.hop_step) -/
theorem backend_eq (s : Game) (op : Op) :
    backend s op = match s.step op with | (g', none) => .ok g'.hop | (_, some e) => .error e := by
  obtain ⟨h1, h2⟩ := C07.hop_step s op
  unfold backend
  revert h1 h2
  generalize s.hop.step op = x
  generalize s.step op = y
  obtain ⟨x1, x2⟩ := x; obtain ⟨y1, y2⟩ := y
  intro h1 h2; simp only at h1 h2; subst h2
  cases x2 with
  | none => simp [h1]
  | some e => rfl

/-- … and on the serialised state of an in-memory game as that game does -/
theorem backend_hop (e : Game) (op : Op) :
    backend e.hop op = match e.step op with | (g', none) => .ok g'.hop | (_, some err) => .error err := by
  obtain ⟨h1, h2⟩ := C07.hop_step e op
  rw [backend_eq]
  revert h1 h2
  generalize e.hop.step op = x
  generalize e.step op = y
  obtain ⟨x1, x2⟩ := x; obtain ⟨y1, y2⟩ := y
  intro h1 h2; simp only at h1 h2; subst h2
  cases x2 with
  | none => simp [h1]
  | some e => rfl

/-! ## states up to `AllowedActions` -/

/-- the state with every `AllowedActions` emptied -/
def clr (g : Game) : Game := g.mapP clearAllowed

@[simp] theorem clr_cw (g : Game) : (clr g).cw = g.cw := rfl
@[simp] theorem clr_prev (g : Game) : (clr g).prev = g.prev := rfl
@[simp] theorem clr_opts (g : Game) : (clr g).opts = g.opts := rfl
@[simp] theorem clr_event (g : Game) : (clr g).event = g.event := rfl
@[simp] theorem clr_round (g : Game) : (clr g).round = g.round := rfl
@[simp] theorem clr_n (g : Game) : (clr g).n = g.n := by simp [clr, Game.n, Game.mapP]
@[simp] theorem clr_get (g : Game) (i : Nat) : (clr g).players[i]? = (g.players[i]?).map clearAllowed := by
  simp [clr, Game.mapP]

theorem modP_clr (g : Game) (i : Nat) (f : Player → Player) (hf : ∀ p, f (clearAllowed p) = clearAllowed (f p)) :
    (clr g).modP i f = clr (g.modP i f) := by
  simp only [clr, Game.modP, Game.mapP]
  congr 1
  apply List.ext_getElem?
  intro k
  simp only [List.getElem?_modify, List.getElem?_map]
  cases g.players[k]? with
  | none => simp
  | some p => by_cases hk : i = k <;> simp [hk, hf]

@[simp] theorem clr_addRoundPot (g : Game) (x : Int) : (clr g).addRoundPot x = clr (g.addRoundPot x) := rfl
@[simp] theorem clr_setCw (g : Game) (x : Int) : (clr g).setCw x = clr (g.setCw x) := rfl
@[simp] theorem clr_setPrev (g : Game) (x : Int) : (clr g).setPrev x = clr (g.setPrev x) := rfl
@[simp] theorem clr_setRaiser (g : Game) (x : Nat) : (clr g).setRaiser x = clr (g.setRaiser x) := rfl
@[simp] theorem clr_setEvent (g : Game) (x : Ev) : (clr g).setEvent x = clr (g.setEvent x) := rfl

@[simp] theorem clr_resetActed (g : Game) : (clr g).resetActed = clr g.resetActed := by
  simp [clr, Game.resetActed, Game.mapP, List.map_map, Function.comp_def, clearAllowed]

@[simp] theorem clr_setActed (g : Game) (i : Nat) : (clr g).setActed i = clr (g.setActed i) :=
  modP_clr g i _ (fun _ => rfl)

@[simp] theorem clr_becomeRaiser (g : Game) (i : Nat) : (clr g).becomeRaiser i = clr (g.becomeRaiser i) := by
  simp [Game.becomeRaiser]

theorem clr_resetAllAllowed (g : Game) : (clr g).resetAllAllowed = g.resetAllAllowed := by
  simp [clr, Game.resetAllAllowed, Game.mapP, List.map_map, Function.comp_def, clearAllowed]

theorem clr_pay (g : Game) (i : Nat) (x : Int) (w : Bool) : (clr g).pay i x w = clr (g.pay i x w) := by
  unfold Game.pay
  rw [clr_get]
  cases g.players[i]? with
  | none => rfl
  | some p =>
    simp only [Option.map_some]
    have e1 : (clearAllowed p).stack = p.stack := rfl
    rw [e1]
    split
    · unfold Game.payAllin
      have e2 : (clearAllowed p).initial = p.initial := rfl
      have e3 : (clearAllowed p).wager = p.wager := rfl
      simp only [e2, e3, clr_addRoundPot, clr_cw, clr_prev]
      rw [modP_clr _ i goAllin (fun _ => rfl)]
      cases w
      · simp
      · simp only [if_true]
        split <;> split <;> simp
    · unfold Game.payPart
      have e3 : (clearAllowed p).wager = p.wager := rfl
      simp only [e3, clr_cw]
      rw [modP_clr _ i (putWager (p.wager + x)) (fun _ => rfl)]
      simp only [clr_addRoundPot]
      split <;> simp

theorem clr_seats (g : Game) : (clr g).seatsFromDealer = g.seatsFromDealer := by
  have : (clr g).dealerIdx? = g.dealerIdx? := by
    simp only [Game.dealerIdx?, clr, Game.mapP, ← List.map_reverse, List.find?_map, Option.map_map]
    rfl
  simp only [Game.seatsFromDealer, Game.dealerIdx, this, clr_n]

theorem clr_payAnteLoop (is : List Nat) (g : Game) :
    payAnteLoop is (clr g) = (clr (payAnteLoop is g).1, (payAnteLoop is g).2) := by
  induction is generalizing g with
  | nil => rfl
  | cons i is ih =>
    simp only [payAnteLoop, clr_get]
    cases g.players[i]? with
    | none => rfl
    | some p =>
      simp only [Option.map_some]
      have e3 : (clearAllowed p).wager = p.wager := rfl
      rw [e3]
      split
      · rfl
      · rw [clr_opts, clr_pay, ih]

theorem clr_antePaid (g : Game) : (clr g).antePaid = g.antePaid := by
  unfold Game.antePaid
  rw [clr_resetAllAllowed]

theorem clr_payAnte (g : Game) :
    (clr g).payAnte.2 = g.payAnte.2 ∧ (g.payAnte.2 = none → (clr g).payAnte.1 = g.payAnte.1) := by
  unfold Game.payAnte
  simp only [clr_opts, clr_event, clr_seats, clr_payAnteLoop]
  split
  · simp
  · split
    · simp
    · generalize payAnteLoop g.seatsFromDealer g = r
      obtain ⟨g', e⟩ := r
      cases e <;> simp [clr_antePaid]

theorem clr_payBlind (g : Game) (i : Nat) : (clr g).payBlind i = clr (g.payBlind i) := by
  unfold Game.payBlind
  rw [clr_get]
  cases g.players[i]? with
  | none => rfl
  | some p =>
    simp only [Option.map_some, clr_opts]
    have e1 : (clearAllowed p).stack = p.stack := rfl
    have e2 : blindOf g.opts (clearAllowed p) = blindOf g.opts p := rfl
    simp only [e1, e2, clr_pay]

theorem clr_foldBlind (is : List Nat) (g : Game) : is.foldl payBlind (clr g) = clr (is.foldl payBlind g) := by
  induction is generalizing g with
  | nil => rfl
  | cons i is ih => simp only [List.foldl_cons, clr_payBlind, ih]

theorem clr_payBlinds (g : Game) :
    (clr g).payBlinds.2 = g.payBlinds.2 ∧ (g.payBlinds.2 = none → (clr g).payBlinds.1 = g.payBlinds.1) := by
  unfold Game.payBlinds
  simp only [clr_event, clr_seats, clr_foldBlind]
  split
  · simp
  · unfold Game.blindsPaid
    simp only [clr_opts, clr_setPrev, clr_resetAllAllowed]
    simp

/-- "the marks are invisible": two states that differ in `AllowedActions` only get the same answer from
    `payAnte` / `payBlinds`, and when it is accepted, the same new state -/
theorem fire_clr {a b : Game} (h : clr a = clr b) (op : Op) (hop : op = .payAnte ∨ op = .payBlinds) :
    (a.step op).2 = (b.step op).2 ∧ ((b.step op).2 = none → (a.step op).1 = (b.step op).1) := by
  rcases hop with rfl | rfl
  · simp only [Game.step]
    obtain ⟨a1, a2⟩ := clr_payAnte a
    obtain ⟨b1, b2⟩ := clr_payAnte b
    rw [h] at a1 a2
    refine ⟨a1.symm.trans b1, fun hb => ?_⟩
    rw [← a2 (a1.symm.trans (b1.trans hb)), ← b2 hb]
  · simp only [Game.step]
    obtain ⟨a1, a2⟩ := clr_payBlinds a
    obtain ⟨b1, b2⟩ := clr_payBlinds b
    rw [h] at a1 a2
    refine ⟨a1.symm.trans b1, fun hb => ?_⟩
    rw [← a2 (a1.symm.trans (b1.trans hb)), ← b2 hb]

end Pokerface.Drv
