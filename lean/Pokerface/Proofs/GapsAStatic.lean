import Pokerface.Proofs.FlowCards
import Pokerface.Proofs.EngineAct
/-
  Gap C01: the static fields of every seat (`idx`, positions, `bankroll`) are those of the
  configuration in every reachable state — `Static` (Proofs/EnginePay.lean) through every
  operation, every run, and from `start`.
-/
namespace Pokerface
open Game

theorem static_payAnteLoop : ∀ (is : List Nat) (g : Game), Static g (payAnteLoop is g).1
  | [], g => Static.refl g
  | i :: is, g => by
    unfold Game.payAnteLoop
    split
    · exact Static.refl g
    · split
      · exact Static.refl g
      · exact (static_pay g i _ false).trans (static_payAnteLoop is _)

theorem static_payBlind (g : Game) (i : Nat) : Static g (g.payBlind i) := by
  unfold Game.payBlind
  split
  · exact Static.refl g
  · exact static_pay g i _ true

theorem static_foldl_payBlind : ∀ (is : List Nat) (g : Game), Static g (is.foldl payBlind g)
  | [], g => Static.refl g
  | i :: is, g => (static_payBlind g i).trans (static_foldl_payBlind is _)

theorem static_antePaid (g : Game) : Static g g.antePaid := by
  unfold Game.antePaid
  have h1 : Static g ((g.resetAllAllowed.setEvent .antePaid).updatePots) :=
    ((noChip_resetAllAllowed g).trans ((noChip_setEvent _ _).trans (noChip_updatePots _))).static
  exact (h1.trans ((static_resetAllPlayerStatus _).trans (static_resetRoundStatus _))).trans
    (noChip_enterRound _ _).static

theorem static_blindsPaid (g : Game) : Static g g.blindsPaid := by
  unfold Game.blindsPaid
  have h0 : Static g (g.setPrev (if g.opts.blindBB > 0 then g.opts.blindBB else g.opts.blindDealer)) := ⟨rfl, rfl, rfl⟩
  exact h0.trans (((noChip_resetAllAllowed _).trans (noChip_setEvent _ _)).trans (noChip_prepareRound _)).static

theorem static_nextRound (g : Game) : Static g g.nextRound := by
  unfold Game.nextRound
  exact ((static_resetRoundStatus g).trans (static_resetAllPlayerStatus _)).trans (noChip_nextRound' _).static

theorem act_refused_same (g : Game) (i : Nat) (a : Act) (x : Int) (h : (g.act i a x).2 ≠ none) :
    (g.act i a x).1 = g := by
  unfold Game.act at h ⊢
  cases a <;> simp only at h ⊢
  all_goals (repeat' split) <;> simp_all

theorem static_act (g : Game) (hi : Inv g) (i : Nat) (a : Act) (x : Int) : Static g (g.act i a x).1 := by
  by_cases hacc : (g.act i a x).2 = none
  · obtain ⟨g1, e, hm⟩ := act_shape g hi i a x hacc
    rw [e]
    exact hm.stat.trans (noChip_resume g1).static
  · rw [act_refused_same g i a x hacc]; exact Static.refl g

/-- one operation (accepted or refused, any arguments) leaves the static fields alone -/
theorem static_step (g : Game) (hi : Inv g) (op : Op) : Static g (g.step op).1 := by
  cases op with
  | ready =>
    simp only [Game.step]
    unfold Game.readyForAll
    split
    · exact Static.refl g
    · exact ((noChip_resetAllAllowed g).trans (noChip_readiness _)).static
  | payAnte =>
    simp only [Game.step]
    unfold Game.payAnte
    split
    · exact Static.refl g
    · split
      · exact Static.refl g
      · have hq := static_payAnteLoop g.seatsFromDealer g
        split
        · rename_i g' e heq
          have : g' = (payAnteLoop g.seatsFromDealer g).1 := by rw [heq]
          rw [this]; exact hq
        · rename_i g' heq
          have e : g' = (payAnteLoop g.seatsFromDealer g).1 := by rw [heq]
          simp only
          rw [e]
          exact hq.trans (static_antePaid _)
  | payBlinds =>
    simp only [Game.step]
    unfold Game.payBlinds
    split
    · exact Static.refl g
    · exact (static_foldl_payBlind g.seatsFromDealer g).trans (static_blindsPaid _)
  | next =>
    simp only [Game.step]
    unfold Game.next
    split
    · exact Static.refl g
    · split
      · exact Static.refl g
      · exact static_nextRound g
  | act seat a x =>
    cases seat with
    | none => exact static_act g hi _ a x
    | some i => exact static_act g hi i a x

theorem static_run_full (g : Game) (hi : Inv g) (ops : List Op) : Static g (g.run ops) := by
  induction ops generalizing g with
  | nil => exact Static.refl g
  | cons op ops ih => exact (static_step g hi op).trans (ih _ (inv_step g hi op))

/-- the static fields after `start` are those of the configured seats -/
theorem static_start (c : Config) (hs : (start c).2 = none) : Static c.game0 (start c).1 := by
  obtain ⟨_, _, he⟩ := start_ok c hs
  rw [he]
  exact (static_resetRoundStatus c.game0).trans (noChip_requestReady _).static

/-- In every state of every run from an accepted configuration, seat `i` holds the index, the
    positions and the bankroll of the `i`-th configured seat. -/
theorem static_of_config (c : Config) (wf : WFConfig c) (hs : (start c).2 = none) (ops : List Op) :
    ((start c).1.run ops).players.map Player.static = c.players.map Player.static :=
  ((static_start c hs).trans (static_run_full _ (inv_start c wf hs) ops)).ids

theorem config_players_static (c : Config) (i : Nat) :
    (c.players[i]?).map Player.static = (c.seats[i]?).map fun s => (i, s.dealer, s.sb, s.bb, s.bankroll) := by
  unfold Config.players
  simp only [List.getElem?_map, List.getElem?_zipIdx]
  cases c.seats[i]? with
  | none => rfl
  | some s => simp [Player.static]

/-- seat by seat: index, positions and bankroll are the configured ones -/
theorem seat_static_of_config (c : Config) (wf : WFConfig c) (hs : (start c).2 = none) (ops : List Op) (i : Nat) :
    (((start c).1.run ops).players[i]?).map Player.static =
      (c.seats[i]?).map fun s => (i, s.dealer, s.sb, s.bb, s.bankroll) := by
  have h := congrArg (fun l => l[i]?) (static_of_config c wf hs ops)
  simp only [List.getElem?_map] at h
  rw [h, config_players_static]

end Pokerface
