import Pokerface.Proofs.EnginePots
import Pokerface.Proofs.SettleNoPos
import Pokerface.Properties.C02
/-
  The settlement result written at `GameClosed`, in terms of the players of the closed hand
  (used by C01).  Positivity of `Combination.Power` is NOT needed here (`SettleNoPos`): the
  closing identities hold whatever strengths the players hold.
-/
namespace Pokerface
open Game

/-- the players of a hand as the `Seat` records of C02 -/
def Game.seats (g : Game) : List C02.Seat :=
  g.players.map fun p => ⟨p.idx, p.bankroll, p.pot + p.wager, p.fold, ((p.comb.map (·.power)).getD 0 : Nat)⟩

theorem entriesOf_seats (g : Game) : C02.entriesOf g.seats = g.entries := by
  simp [C02.entriesOf, Game.seats, Game.entries, List.map_map, Function.comp_def]

theorem rowsOf_seats (g : Game) : C02.rowsOf g.seats = g.rows := by
  simp [C02.rowsOf, Game.seats, Game.rows, List.map_map, Function.comp_def]

/-- the engine's result is the showdown function of C02 applied to its own players -/
theorem ResultGood.settle {g : Game} (h : ResultGood g) : g.result = some (C02.settle g.seats) := by
  rw [h.res, h.fresh]
  unfold C02.settle
  rw [entriesOf_seats, rowsOf_seats]

theorem gameIn0_engine {g : Game} (hs : Struct g) (hp : ∀ p ∈ g.players, PInv p) : GameIn0 g.entries g.rows := by
  have hv := entries_valid hs hp
  refine ⟨hv.1, hv.2, ?_⟩
  simp [Game.entries, Game.rows, List.map_map, Function.comp_def]

theorem resultGood_spec {g : Game} (hs : Struct g) (hp : ∀ p ∈ g.players, PInv p) (h : ResultGood g) :
    ∃ r, g.result = some r ∧ (r.players.map (·.changed)).sum = 0 ∧ r.players.length = g.n ∧
      ∀ (i : Nat) (p : Player), g.players[i]? = some p → ∃ pr : PlayerResult, r.players[i]? = some pr ∧ pr.idx = i ∧
        pr.finalStack = p.bankroll + pr.changed ∧ 0 ≤ pr.finalStack ∧ -p.pot ≤ pr.changed := by
  have gi := gameIn0_engine hs hp
  refine ⟨gameResults g.pots g.rows, h.res, ?_, ?_, ?_⟩
  · rw [h.fresh]; exact total_zero_sum0 gi
  · have := congrArg List.length (players_idx g.entries g.rows)
    rw [h.fresh]
    simpa [Game.rows, Game.n] using this
  · intro i p hip
    rw [h.fresh]
    have hidx := players_idx g.entries g.rows
    have hbase := players_base g.entries g.rows
    have hb := congrArg (fun l => l[i]?) hbase
    have hrow : (g.rows[i]?).map (fun r => (r.1, r.2.1)) = some (p.idx, p.bankroll) := by
      simp [Game.rows, hip]
    simp only [List.getElem?_map] at hb
    rw [hrow] at hb
    cases hpr : (gameResults (potsOf g.entries) g.rows).players[i]? with
    | none => rw [hpr] at hb; cases hb
    | some pr =>
      rw [hpr] at hb
      simp only [Option.map_some, Option.some.injEq, Prod.mk.injEq] at hb
      have hmem : p ∈ g.players := List.mem_of_getElem? hip
      have hi := hs.idx i p hip
      have hnd : ((gameResults (potsOf g.entries) g.rows).players.map (·.idx)).Nodup := by
        rw [hidx]
        have : g.rows.map (·.1) = g.players.map (·.idx) := by
          simp [Game.rows, List.map_map, Function.comp_def]
        rw [this, map_idx_range hs]; exact List.nodup_range
      have hc := C02.chg_self _ hnd (List.mem_of_getElem? hpr)
      have hl := total_lower0 gi (i := p.idx) (c := p.pot + p.wager) (f := p.fold)
        (List.mem_map.mpr ⟨p, hmem, rfl⟩)
      rw [← hb.1, hc] at hl
      have hw := h.w0 p hmem
      have hpi := hp p hmem
      have := hpi.split; have := hpi.stack0
      exact ⟨pr, rfl, by omega, by omega, by omega, by omega⟩

theorem result_ne_none_of_closed {g : Game} (h : Reachable g) (he : g.event = .gameClosed) : g.result ≠ none := by
  have := (flow_reachable h).res.mpr he
  intro hn; rw [hn] at this; cases this

theorem resultGood_reachable {g : Game} (h : Reachable g) (he : g.event = .gameClosed) : ResultGood g :=
  (potsOK_reachable h).res (result_ne_none_of_closed h he)

end Pokerface
