import Pokerface.Proofs.FlowC05
import Pokerface.Proofs.EngineFirst
/-
  C05, ghost history: the specification's own record of a betting round (`turnSince`, `quiet`),
  and the invariant `RoundInv` that ties the engine's `acted` marks to it.
-/
namespace Pokerface
open Game

/-! ## the ghost record and its rules (specification level) -/

/-- ghost history of the betting round in progress: `turnSince[i]` — seat `i` has had a turn since
    the wager to match last went up (or raised it); `quiet` — accepted turns since the last wager
    increase or all-in -/
structure Ghost where
  turnSince : List Bool
  quiet : Nat
deriving Repr, DecidableEq

def Ghost.fresh (n : Nat) : Ghost := ⟨List.replicate n false, 0⟩

/-- stack of seat `i` (0 when there is no such seat) -/
def Game.stackOf (g : Game) (i : Nat) : Int := ((g.players[i]?).map (·.stack)).getD 0

/-- the record after an accepted action by the seat to act, the new state being `g'`
    (rules of the specification, same as the run-time monitor): a wager increase clears every
    `turnSince`; the actor has had its turn; `quiet` restarts on an increase or an all-in -/
def Ghost.turn (gh : Ghost) (g g' : Game) : Ghost :=
  { turnSince := (if g.cw < g'.cw then List.replicate g.n false else gh.turnSince).set g.cur true,
    quiet := if g.cw < g'.cw ∨ (0 < g.stackOf g.cur ∧ g'.stackOf g.cur = 0) then 0 else gh.quiet + 1 }

/-- the record after operation `op` applied in state `g`: refused operations change nothing; an
    operation that opens a betting round starts a fresh record; an accepted action in an open
    round is a turn of the seat to act -/
def Ghost.step (gh : Ghost) (g : Game) (op : Op) : Ghost :=
  if (g.step op).2 ≠ none then gh
  else if g.event ≠ .roundStarted then (if (g.step op).1.event = .roundStarted then Ghost.fresh g.n else gh)
  else gh.turn g (g.step op).1

/-- run of operations with the ghost record alongside -/
def Game.runG : Game → Ghost → List Op → Game × Ghost
  | g, gh, [] => (g, gh)
  | g, gh, op :: ops => Game.runG (g.step op).1 (gh.step g op) ops

/-- reachable state together with its ghost record -/
def GReachable (g : Game) (gh : Ghost) : Prop :=
  ∃ (c : Config) (ops : List Op), WFConfig c ∧ (start c).2 = none ∧
    (g, gh) = (start c).1.runG (Ghost.fresh c.seats.length) ops

/-! ## the invariant -/

/-- ties the `acted` marks to the ghost record; `tgt` is the seat where the chain of acted seats
    ends (the seat to act, or — mid-action — the next seat) -/
structure RoundInv (g : Game) (ts : List Bool) (k : Nat) (tgt : Nat) : Prop where
  len : ts.length = g.n
  seen : ∀ (j : Nat) (p : Player), g.players[j]? = some p → p.acted = true → ts[j]? = some true
  level : ∀ (j : Nat) (p : Player), g.players[j]? = some p → p.acted = true → p.fold = false → 0 < p.stack →
    p.wager = g.cw
  lap : k + g.unacted ≤ g.n
  chain : ∀ (j : Nat) (p q : Player), g.players[j]? = some p → p.acted = true → g.players[cwNext g.n j]? = some q →
    cwNext g.n j = tgt ∨ q.acted = true

def unact (p : Player) : Player := { p with acted := false }
def markA (p : Player) : Player := { p with acted := true }

theorem lt_of_getElem? {g : Game} {i : Nat} {p : Player} (h : g.players[i]? = some p) : i < g.n := by
  unfold Game.n
  have := List.getElem?_eq_some_iff.mp h
  exact this.1

/-- the invariant after the marking/paying part of an accepted action by seat `i`: seat `i` is
    rewritten by `F`, the others by `G`, which is the identity (no reset) or `unact` (reset) -/
theorem roundInv_mid {g g1 : Game} {ts ts' : List Bool} {k k' : Nat} (i : Nat) (p : Player) (F G : Player → Player)
    (hinv : RoundInv g ts k i) (hp : g.players[i]? = some p) (hn : g1.n = g.n)
    (hpl : ∀ j p1, g1.players[j]? = some p1 → ∃ q, g.players[j]? = some q ∧ p1 = if i = j then F q else G q)
    (hlevel : (F p).acted = true → (F p).fold = false → 0 < (F p).stack → (F p).wager = g1.cw)
    (hcase : (G = id ∧ g1.cw = g.cw ∧ (F p).acted = true ∧ ts' = ts.set i true) ∨
             (G = unact ∧ ts'[i]? = some true ∧ ts'.length = g.n))
    (hlap : k' + g1.unacted ≤ g1.n) : RoundInv g1 ts' k' (cwNext g.n i) := by
  have hi : i < g.n := lt_of_getElem? hp
  have hlen := hinv.len
  refine ⟨?_, ?_, ?_, hlap, ?_⟩
  · rcases hcase with ⟨_, _, _, hts⟩ | ⟨_, _, hl⟩
    · rw [hts, List.length_set, hn]; exact hlen
    · rw [hl, hn]
  · intro j p1 hp1 ha
    obtain ⟨q, hq, he⟩ := hpl j p1 hp1
    by_cases hij : i = j
    · subst hij
      rcases hcase with ⟨_, _, _, hts⟩ | ⟨_, h2, _⟩
      · rw [hts]; simp [hlen, hi]
      · exact h2
    · rw [if_neg hij] at he
      rcases hcase with ⟨hG, _, _, hts⟩ | ⟨hG, _, _⟩
      · rw [hG] at he; simp only [id] at he; subst he
        rw [hts, List.getElem?_set_ne hij]
        exact hinv.seen j p1 hq ha
      · rw [hG] at he; subst he; simp [unact] at ha
  · intro j p1 hp1 ha hf hs
    obtain ⟨q, hq, he⟩ := hpl j p1 hp1
    by_cases hij : i = j
    · subst hij
      rw [hp] at hq; cases hq
      rw [if_pos rfl] at he; subst he
      exact hlevel ha hf hs
    · rw [if_neg hij] at he
      rcases hcase with ⟨hG, hcw, _, _⟩ | ⟨hG, _, _⟩
      · rw [hG] at he; simp only [id] at he; subst he
        rw [hcw]; exact hinv.level j p1 hq ha hf hs
      · rw [hG] at he; subst he; simp [unact] at ha
  · intro j p1 q1 hp1 ha hq1
    rw [hn] at hq1 ⊢
    obtain ⟨q, hq, he⟩ := hpl j p1 hp1
    by_cases hij : i = j
    · subst hij; exact Or.inl rfl
    · rw [if_neg hij] at he
      rcases hcase with ⟨hG, _, hFa, _⟩ | ⟨hG, _, _⟩
      · rw [hG] at he; simp only [id] at he; subst he
        obtain ⟨q', hq', he'⟩ := hpl _ q1 hq1
        right
        rcases hinv.chain j p1 q' hq ha hq' with h | h
        · rw [if_pos h.symm] at he'
          rw [h, hp] at hq'; cases hq'
          rw [he']; exact hFa
        · by_cases hin : i = cwNext g.n j
          · rw [if_pos hin] at he'
            rw [← hin, hp] at hq'; cases hq'
            rw [he']; exact hFa
          · rw [if_neg hin, hG] at he'
            simp only [id] at he'
            rw [he']; exact h
      · rw [hG] at he; subst he; simp [unact] at ha

/-! ## the chain of acted seats, once it reaches the next seat, covers the table -/

/-- `m` seats clockwise from `s` -/
def walk (n s : Nat) : Nat → Nat
  | 0 => s
  | m + 1 => cwNext n (walk n s m)

theorem walk_eq (n s : Nat) (hs : s < n) : ∀ m, walk n s m = (s + m) % n
  | 0 => by simp [walk, Nat.mod_eq_of_lt hs]
  | m + 1 => by
    have hn : 0 < n := by omega
    have hlt : (s + m) % n < n := Nat.mod_lt _ hn
    have e : (s + (m + 1)) % n = ((s + m) % n + 1) % n := by rw [← Nat.add_assoc, Nat.mod_add_mod]
    rw [walk, walk_eq n s hs m, e]
    unfold cwNext
    split
    · rename_i h; rw [h, Nat.mod_self]
    · rename_i h; rw [Nat.mod_eq_of_lt (a := (s + m) % n + 1) (by omega)]

theorem walk_covers (n s j : Nat) (hs : s < n) (hj : j < n) : ∃ m, walk n s m = j := by
  refine ⟨j + n - s, ?_⟩
  rw [walk_eq n s hs]
  have : s + (j + n - s) = j + n := by omega
  rw [this, Nat.add_mod_right, Nat.mod_eq_of_lt hj]

theorem cwNext_lt {n s : Nat} (hn : 0 < n) (hs : s < n) : cwNext n s < n := by
  unfold cwNext; split <;> omega

/-- if the seat after the actor has acted, every seat has -/
theorem all_acted {g : Game} {ts : List Bool} {k : Nat} {s : Nat} (h : RoundInv g ts k s)
    (q : Player) (hq : g.players[s]? = some q) (ha : q.acted = true) :
    ∀ (j : Nat) (p : Player), g.players[j]? = some p → p.acted = true := by
  have hs : s < g.n := lt_of_getElem? hq
  have key : ∀ (m : Nat) (p : Player), g.players[walk g.n s m]? = some p → p.acted = true := by
    intro m
    induction m with
    | zero => intro p hp; simp only [walk] at hp; rw [hq] at hp; cases hp; exact ha
    | succ m ih =>
      intro p hp
      simp only [walk] at hp
      have hlt : walk g.n s m < g.n := by rw [walk_eq g.n s hs]; exact Nat.mod_lt _ (by omega)
      have hlt' := hlt
      unfold Game.n at hlt'
      have hpm : g.players[walk g.n s m]? = some g.players[walk g.n s m] := List.getElem?_eq_getElem hlt'
      rcases h.chain _ _ p hpm (ih _ hpm) hp with h1 | h1
      · rw [h1, hq] at hp; cases hp; exact ha
      · exact h1
  intro j p hp
  obtain ⟨m, hm⟩ := walk_covers g.n s j hs (lt_of_getElem? hp)
  exact key m p (by rw [hm]; exact hp)

/-! ## what `pay` does to the seats -/

/-- four layers: seat `i` rewritten by `f0` then `f`, everybody by `u`, seat `i` by `m` -/
theorem layers_some {l : List Player} {i j : Nat} {f0 f u m : Player → Player} {p1 : Player}
    (h : ((((l.modify i f0).modify i f).map u).modify i m)[j]? = some p1) :
    ∃ q, l[j]? = some q ∧ p1 = if i = j then m (u (f (f0 q))) else u q := by
  simp only [List.getElem?_modify, List.getElem?_map] at h
  cases hq : l[j]? with
  | none => simp [hq] at h
  | some q =>
    refine ⟨q, rfl, ?_⟩
    by_cases hij : i = j <;> simp [hq, hij] at h ⊢ <;> exact h.symm

theorem layers_self {l : List Player} {i : Nat} {f0 f u m : Player → Player} {p : Player} (h : l[i]? = some p) :
    ((((l.modify i f0).modify i f).map u).modify i m)[i]? = some (m (u (f (f0 p)))) := by
  simp [List.getElem?_map, h]

def unactedL (l : List Player) : Nat := (l.filter (fun p => !p.acted)).length

theorem unacted_eq_L (g : Game) : g.unacted = unactedL g.players := rfl

theorem unactedL_modify (l : List Player) (i : Nat) (f : Player → Player) (hf : ∀ p, (f p).acted = p.acted) :
    unactedL (l.modify i f) = unactedL l := by
  have h := map_modify_of_proj (·.acted) f hf l i
  have key : ∀ l : List Player, unactedL l = ((l.map (·.acted)).filter (fun x => !x)).length := by
    intro l; unfold unactedL; rw [List.filter_map]; simp [Function.comp_def]
  rw [key, key, h]

theorem unactedL_mark (l : List Player) (i : Nat) (p : Player) (f : Player → Player) (hp : l[i]? = some p)
    (h0 : p.acted = false) (h1 : (f p).acted = true) : unactedL (l.modify i f) + 1 = unactedL l := by
  have := length_filter_modify (fun p : Player => !p.acted) f l i p hp
  simp only [h0, h1, Bool.not_false, Bool.not_true, if_true, Bool.false_eq_true, if_false] at this
  exact this

/-- the four outcomes of a wager payment (`player.go pay`): all-in as a full raise, all-in short of
    one, a raise, a plain payment — the seats in layer form, and the new wager to match -/
theorem pay_cases (g : Game) (i : Nat) (p : Player) (c : Int) (hp : g.players[i]? = some p) :
    (p.stack ≤ c ∧ (g.pay i c true).players = ((g.players.modify i goAllin).map unact).modify i markA ∧
      (g.pay i c true).cw = (if p.initial > g.cw then p.initial else g.cw)) ∨
    (p.stack ≤ c ∧ (g.pay i c true).players = ((g.players.modify i goAllin).map unact).modify i id ∧
      (g.pay i c true).cw = (if p.initial > g.cw then p.initial else g.cw)) ∨
    (¬ p.stack ≤ c ∧ g.cw < p.wager + c ∧
      (g.pay i c true).players = ((g.players.modify i (putWager (p.wager + c))).map unact).modify i markA ∧
      (g.pay i c true).cw = p.wager + c) ∨
    (¬ p.stack ≤ c ∧ ¬ g.cw < p.wager + c ∧
      (g.pay i c true).players = ((g.players.modify i (putWager (p.wager + c))).map id).modify i id ∧
      (g.pay i c true).cw = g.cw) := by
  unfold Game.pay
  rw [hp]
  simp only
  by_cases h1 : p.stack ≤ c
  · rw [if_pos h1]
    unfold Game.payAllin
    simp only [if_true]
    by_cases h2 : p.initial - g.cw ≥ g.cw + g.prev
    · left
      rw [if_pos h2]
      refine ⟨h1, ?_, ?_⟩
      · split <;> rfl
      · split <;> rfl
    · right; left
      rw [if_neg h2]
      refine ⟨h1, ?_, ?_⟩
      · rw [List.modify_id]; split <;> rfl
      · split <;> rfl
  · rw [if_neg h1]
    unfold Game.payPart
    by_cases h2 : g.cw < p.wager + c
    · right; right; left
      simp only [Bool.true_and, h2, decide_true, if_true]
      exact ⟨h1, trivial, rfl, rfl⟩
    · right; right; right
      simp only [Bool.true_and, h2, decide_false, Bool.false_eq_true, if_false]
      refine ⟨h1, not_false, ?_, rfl⟩
      rw [List.modify_id, List.map_id]
      rfl

/-! ## the invariant through the marking/paying part of an accepted action -/

theorem stackOf_of {g : Game} {i : Nat} {p : Player} (h : g.players[i]? = some p) : g.stackOf i = p.stack := by
  simp [Game.stackOf, h]

theorem turn_reset (gh : Ghost) (g g1 : Game) (hlen : gh.turnSince.length = g.n) (hc : g.cur < g.n)
    (h : g.cw < g1.cw ∨ (0 < g.stackOf g.cur ∧ g1.stackOf g.cur = 0)) :
    (gh.turn g g1).quiet = 0 ∧ (gh.turn g g1).turnSince[g.cur]? = some true ∧
    (gh.turn g g1).turnSince.length = g.n := by
  unfold Ghost.turn
  simp only [if_pos h]
  refine ⟨trivial, ?_, ?_⟩
  · split <;> simp [hlen, hc]
  · split <;> simp [hlen]

theorem turn_quiet (gh : Ghost) (g g1 : Game) (hcw : g1.cw = g.cw)
    (hs : ¬ (0 < g.stackOf g.cur ∧ g1.stackOf g.cur = 0)) :
    gh.turn g g1 = ⟨gh.turnSince.set g.cur true, gh.quiet + 1⟩ := by
  unfold Ghost.turn
  have : ¬ g.cw < g1.cw := by omega
  simp [this, hs]

theorem shape_apply {g g1 : Game} {ts ts' : List Bool} {k k' : Nat} (i : Nat) (p : Player) (f0 f u m : Player → Player)
    (hinv : RoundInv g ts k i) (hp : g.players[i]? = some p)
    (hpl : g1.players = (((g.players.modify i f0).modify i f).map u).modify i m)
    (hlevel : (m (u (f (f0 p)))).acted = true → (m (u (f (f0 p)))).fold = false → 0 < (m (u (f (f0 p)))).stack →
      (m (u (f (f0 p)))).wager = g1.cw)
    (hcase : (u = id ∧ g1.cw = g.cw ∧ (m (u (f (f0 p)))).acted = true ∧ ts' = ts.set i true) ∨
             (u = unact ∧ ts'[i]? = some true ∧ ts'.length = g.n))
    (hlap : k' + g1.unacted ≤ g1.n) : RoundInv g1 ts' k' (cwNext g.n i) :=
  roundInv_mid i p (fun q => m (u (f (f0 q)))) u hinv hp (by simp [Game.n, hpl])
    (fun j p1 h => layers_some (by rw [hpl] at h; exact h)) hlevel hcase hlap

theorem shape_roundInv {g g1 : Game} (hi : Inv g) (hf : Flow g) (he : g.event = .roundStarted) (gh : Ghost) {p : Player}
    (hinv : RoundInv g gh.turnSince gh.quiet g.cur) (hp : g.players[g.cur]? = some p)
    (sh : ActShape g g.cur p g1) :
    RoundInv g1 (gh.turn g g1).turnSince (gh.turn g g1).quiet (cwNext g.n g.cur) := by
  have ok := hi.chips (by rw [he]; simp)
  have hpa : p.acted = false := hf.acted he p hp
  have hpi := ok.pinv p (List.mem_of_getElem? hp)
  have hpw := ok.wle p (List.mem_of_getElem? hp)
  have hcur : g.cur < g.n := lt_of_getElem? hp
  have hsg : g.stackOf g.cur = p.stack := stackOf_of hp
  have hmarkU : unactedL (g.players.modify g.cur markA) + 1 = unactedL g.players :=
    unactedL_mark g.players g.cur p markA hp hpa rfl
  have hlapg := hinv.lap
  rw [unacted_eq_L] at hlapg
  cases sh with
  | mark h =>
    have hpl : (g.setActed g.cur).players = (((g.players.modify g.cur markA).modify g.cur id).map id).modify g.cur id := by
      rw [List.modify_id, List.map_id, List.modify_id]; rfl
    have hs1 : (g.setActed g.cur).stackOf g.cur = p.stack := by
      rw [stackOf_of (p := markA p) (by rw [hpl]; exact layers_self hp)]; rfl
    have ht := turn_quiet gh g (g.setActed g.cur) rfl (by rw [hsg, hs1]; omega)
    rw [ht]
    refine shape_apply g.cur p markA id id id hinv hp hpl ?_ (Or.inl ⟨rfl, rfl, rfl, rfl⟩) ?_
    · intro _ hf' hs'
      simp only [id, markA] at hf' hs' ⊢
      show p.wager = g.cw
      rcases h with h | h | h
      · rw [h] at hf'; cases hf'
      · omega
      · exact h
    · rw [unacted_eq_L, hpl, List.modify_id, List.map_id, List.modify_id, (quiet_setActed g g.cur).n]
      show gh.quiet + 1 + _ ≤ g.n
      omega
  | fold hfo hs =>
    have hpl : (g.modP g.cur foldMark).players
        = (((g.players.modify g.cur foldMark).modify g.cur id).map id).modify g.cur id := by
      rw [List.modify_id, List.map_id, List.modify_id]; rfl
    have hs1 : (g.modP g.cur foldMark).stackOf g.cur = p.stack := by
      rw [stackOf_of (p := foldMark p) (by rw [hpl]; exact layers_self hp)]; rfl
    have ht := turn_quiet gh g (g.modP g.cur foldMark) rfl (by rw [hsg, hs1]; omega)
    rw [ht]
    refine shape_apply g.cur p foldMark id id id hinv hp hpl ?_ (Or.inl ⟨rfl, rfl, rfl, rfl⟩) ?_
    · intro _ hf' _
      simp [foldMark] at hf'
    · rw [unacted_eq_L, hpl, List.modify_id, List.map_id, List.modify_id, (quiet_modP g g.cur foldMark).n]
      have := unactedL_mark g.players g.cur p foldMark hp hpa rfl
      show gh.quiet + 1 + _ ≤ g.n
      omega
  | pay a b c ha hb hc hfo hs hw =>
    have hp0 : ((g.setActed g.cur).setPrev a).players[g.cur]? = some (markA p) := setActed_getElem hp
    have hpl0 : ((g.setActed g.cur).setPrev a).players = g.players.modify g.cur markA := rfl
    have hcw0 : ((g.setActed g.cur).setPrev a).cw = g.cw := rfl
    have hpl1 : ((((g.setActed g.cur).setPrev a).pay g.cur c true).setPrev b).players
        = (((g.setActed g.cur).setPrev a).pay g.cur c true).players := rfl
    have hcw1 : ((((g.setActed g.cur).setPrev a).pay g.cur c true).setPrev b).cw
        = (((g.setActed g.cur).setPrev a).pay g.cur c true).cw := rfl
    have hn1 : ((((g.setActed g.cur).setPrev a).pay g.cur c true).setPrev b).n = g.n :=
      (((quiet_setActed g g.cur).trans (quiet_setPrev _ a)).trans ((quiet_pay _ g.cur c true).trans (quiet_setPrev _ b))).n
    have hub := unacted_le ((((g.setActed g.cur).setPrev a).pay g.cur c true).setPrev b)
    have hw0 : (markA p).wager = p.wager := rfl
    have hst0 : (markA p).stack = p.stack := rfl
    have hin0 : (markA p).initial = p.initial := rfl
    have hrb := hpi.rebase
    rcases pay_cases ((g.setActed g.cur).setPrev a) g.cur (markA p) c hp0 with
      ⟨h1, hpl, hcw⟩ | ⟨h1, hpl, hcw⟩ | ⟨h1, h2, hpl, hcw⟩ | ⟨h1, h2, hpl, hcw⟩
    · -- all-in, full raise
      rw [hpl0] at hpl
      have hs1 : ((((g.setActed g.cur).setPrev a).pay g.cur c true).setPrev b).stackOf g.cur = 0 := by
        rw [stackOf_of (p := markA (unact (goAllin (markA p)))) (by rw [hpl1, hpl]; exact layers_self hp)]; rfl
      obtain ⟨t1, t2, t3⟩ := turn_reset gh g _ hinv.len hcur (Or.inr ⟨by rw [hsg]; exact hs, hs1⟩)
      refine shape_apply g.cur p markA goAllin unact markA hinv hp (hpl1.trans hpl) ?_ (Or.inr ⟨rfl, t2, t3⟩) ?_
      · intro _ _ h0; simp [markA, unact, goAllin] at h0
      · rw [t1]; omega
    · -- all-in, short
      rw [hpl0] at hpl
      have hs1 : ((((g.setActed g.cur).setPrev a).pay g.cur c true).setPrev b).stackOf g.cur = 0 := by
        rw [stackOf_of (p := id (unact (goAllin (markA p)))) (by rw [hpl1, hpl]; exact layers_self hp)]; rfl
      obtain ⟨t1, t2, t3⟩ := turn_reset gh g _ hinv.len hcur (Or.inr ⟨by rw [hsg]; exact hs, hs1⟩)
      refine shape_apply g.cur p markA goAllin unact id hinv hp (hpl1.trans hpl) ?_ (Or.inr ⟨rfl, t2, t3⟩) ?_
      · intro _ _ h0; simp [markA, unact, goAllin] at h0
      · rw [t1]; omega
    · -- raise
      rw [hpl0] at hpl
      rw [hw0] at h2 hpl hcw
      rw [hcw0] at h2
      obtain ⟨t1, t2, t3⟩ := turn_reset gh g _ hinv.len hcur (Or.inl (by rw [hcw1, hcw]; exact h2))
      refine shape_apply g.cur p markA (putWager (p.wager + c)) unact markA hinv hp (hpl1.trans hpl) ?_
        (Or.inr ⟨rfl, t2, t3⟩) ?_
      · intro _ _ _
        rw [hcw1, hcw]; rfl
      · rw [t1]; omega
    · -- plain payment
      rw [hpl0] at hpl
      rw [hw0] at h2 hpl
      rw [hcw0] at h2 hcw
      rw [hst0] at h1
      have hs1 : ((((g.setActed g.cur).setPrev a).pay g.cur c true).setPrev b).stackOf g.cur = p.stack - c := by
        rw [stackOf_of (p := id (id (putWager (p.wager + c) (markA p)))) (by rw [hpl1, hpl]; exact layers_self hp)]
        simp only [id, putWager, markA]
        omega
      have ht := turn_quiet gh g _ (hcw1.trans hcw) (by rw [hsg, hs1]; omega)
      rw [ht]
      refine shape_apply g.cur p markA (putWager (p.wager + c)) id id hinv hp (hpl1.trans hpl) ?_
        (Or.inl ⟨rfl, hcw1.trans hcw, rfl, rfl⟩) ?_
      · intro _ _ _
        rw [hcw1, hcw]
        show p.wager + c = g.cw
        omega
      · rw [unacted_eq_L, hpl1, hpl, List.modify_id, List.map_id,
          unactedL_modify _ _ (putWager (p.wager + c)) (fun _ => rfl)]
        rw [hn1]
        show gh.quiet + 1 + _ ≤ g.n
        omega

/-! ## from the mid-action state to the next wait point -/

theorem roundInv_congr {g g' : Game} {ts : List Bool} {k tgt : Nat} (hn : g'.n = g.n) (hcw : g'.cw = g.cw)
    (hu : g'.unacted = g.unacted)
    (hpl : ∀ (j : Nat) (p' : Player), g'.players[j]? = some p' → ∃ q, g.players[j]? = some q ∧ p'.acted = q.acted ∧
      p'.fold = q.fold ∧ p'.stack = q.stack ∧ p'.wager = q.wager)
    (h : RoundInv g ts k tgt) : RoundInv g' ts k tgt := by
  refine ⟨by rw [hn]; exact h.len, ?_, ?_, by rw [hu, hn]; exact h.lap, ?_⟩
  · intro j p' hp' ha
    obtain ⟨q, hq, e1, _⟩ := hpl j p' hp'
    exact h.seen j q hq (by rw [← e1]; exact ha)
  · intro j p' hp' ha hf hs
    obtain ⟨q, hq, e1, e2, e3, e4⟩ := hpl j p' hp'
    rw [hcw, e4]
    exact h.level j q hq (by rw [← e1]; exact ha) (by rw [← e2]; exact hf) (by rw [← e3]; exact hs)
  · intro j p' q' hp' ha hq'
    rw [hn] at hq' ⊢
    obtain ⟨q, hq, e1, _⟩ := hpl j p' hp'
    obtain ⟨r, hr, f1, _⟩ := hpl _ q' hq'
    rcases h.chain j q r hq (by rw [← e1]; exact ha) hr with h1 | h1
    · exact Or.inl h1
    · exact Or.inr (by rw [f1]; exact h1)

theorem setCurrentPlayer_seat (g : Game) (i j : Nat) (p' : Player) (h : (g.setCurrentPlayer i).players[j]? = some p') :
    ∃ q, g.players[j]? = some q ∧ p'.acted = q.acted ∧ p'.fold = q.fold ∧ p'.stack = q.stack ∧ p'.wager = q.wager := by
  simp only [Game.setCurrentPlayer, Game.offer, Game.modP, Game.setCur, List.getElem?_modify] at h
  cases hq : g.players[j]? with
  | none => simp [hq] at h
  | some q =>
    refine ⟨q, rfl, ?_⟩
    simp only [hq] at h
    by_cases h1 : g.cur = j <;> by_cases h2 : i = j <;> simp [h1, h2, clearAllowed] at h <;> subst h <;> exact ⟨rfl, rfl, rfl, rfl⟩

theorem roundInv_setCurrentPlayer {g : Game} {ts : List Bool} {k tgt : Nat} (i : Nat) (h : RoundInv g ts k tgt) :
    RoundInv (g.setCurrentPlayer i) ts k tgt :=
  roundInv_congr (quiet_setCurrentPlayer g i).n rfl (acts_setCurrentPlayer g i).unacted
    (setCurrentPlayer_seat g i) h

theorem Mov.stackOf {g g' : Game} (h : Mov g g') (i : Nat) : g'.stackOf i = g.stackOf i := by
  have := congrArg (fun l => (l[i]?).map Prod.snd) h.mov
  simp only [List.getElem?_map, Option.map_map, Function.comp_def, Player.mov] at this
  unfold Game.stackOf
  rw [this]

theorem turn_congr (gh : Ghost) (g g1 g' : Game) (hcw : g'.cw = g1.cw) (hs : g'.stackOf g.cur = g1.stackOf g.cur) :
    gh.turn g g' = gh.turn g g1 := by
  unfold Ghost.turn
  rw [hcw, hs]

/-! ## a betting round opens with nobody marked -/

def AllUnacted (g : Game) : Prop := ∀ p ∈ g.players, p.acted = false

theorem Acts.allUnacted {g g' : Game} (h : Acts g g') (hu : AllUnacted g) : AllUnacted g' := by
  intro p hp
  have : p.acted ∈ g'.players.map (·.acted) := List.mem_map_of_mem (f := (·.acted)) hp
  rw [h.acted] at this
  obtain ⟨q, hq, hqe⟩ := List.mem_map.mp this
  rw [← hqe]; exact hu q hq

theorem allUnacted_resetAllAllowed (g : Game) : AllUnacted g.resetAllAllowed := by
  intro p hp
  simp [Game.resetAllAllowed, Game.mapP] at hp
  obtain ⟨q, _, rfl⟩ := hp
  rfl

theorem acts_seekBB : ∀ (k : Nat) (g : Game), Acts g (seekBB k g)
  | 0, g => Acts.refl g
  | k + 1, g => by
    unfold Game.seekBB
    split
    · split
      · exact acts_setCurrentPlayer g _
      · exact (acts_setCurrentPlayer g _).trans (acts_seekBB k _)
    · exact acts_setCurrentPlayer g _

theorem openRound_unacted (g : Game) (hs : Struct g) (hu : AllUnacted g) (he : g.openRound.event = .roundStarted) :
    AllUnacted g.openRound := by
  unfold Game.openRound at he ⊢
  rcases requestPlayerAction_cases (g.setEvent .roundStarted)
    (struct_same (g := g) (g' := g.setEvent .roundStarted) rfl rfl hs) with h | ⟨h, _⟩
  · rw [h] at he; cases he
  · rw [h]
    exact (acts_setCurrentPlayer _ _).allUnacted hu

theorem startRound_unacted (g : Game) (hs : Struct g) (he : g.startRound.event = .roundStarted) :
    AllUnacted g.startRound := by
  unfold Game.startRound Game.startRound' at he ⊢
  have hs1 : Struct g.resetAllAllowed := (noChip_resetAllAllowed g).struct hs
  have hu := allUnacted_resetAllAllowed g
  have h1 := noChip_setCurrentPlayer_dealer g.resetAllAllowed
  have a1 := acts_setCurrentPlayer g.resetAllAllowed g.resetAllAllowed.dealerIdx
  by_cases hr : g.resetAllAllowed.round = .preflop
  · rw [if_pos hr] at he ⊢
    by_cases hm : g.resetAllAllowed.movableCount = 0
    · rw [if_pos hm] at he; cases he
    · rw [if_neg hm] at he ⊢
      exact openRound_unacted _ ((noChip_seekBB _ _).struct (h1.struct hs1))
        ((a1.trans (acts_seekBB _ _)).allUnacted hu) he
  · rw [if_neg hr] at he ⊢
    exact openRound_unacted _ (h1.struct hs1) (a1.allUnacted hu) he

theorem fresh_roundInv {g : Game} (hu : AllUnacted g) (n tgt : Nat) (hn : g.n = n) :
    RoundInv g (Ghost.fresh n).turnSince (Ghost.fresh n).quiet tgt := by
  refine ⟨by simp [Ghost.fresh, hn], ?_, ?_, ?_, ?_⟩
  · intro j p hp ha; rw [hu p (List.mem_of_getElem? hp)] at ha; cases ha
  · intro j p hp ha; rw [hu p (List.mem_of_getElem? hp)] at ha; cases ha
  · have := unacted_le g; simp only [Ghost.fresh]; omega
  · intro j p q hp ha; rw [hu p (List.mem_of_getElem? hp)] at ha; cases ha

/-! ### chains that never end in an open betting round -/

theorem prepareRound_ne (g : Game) : g.prepareRound.event ≠ .roundStarted := by
  unfold Game.prepareRound
  split
  · intro h; cases h
  · split <;> (intro h; cases h)

theorem enterRound_ne (g : Game) (r : Round) : (g.enterRound r).event ≠ .roundStarted := by
  unfold Game.enterRound Game.initializeRound Game.afterRoundInitialized Game.requestBlinds
  split
  · split
    · exact prepareRound_ne _
    · intro h; cases h
  · exact prepareRound_ne _

theorem nextRound'_ne (g : Game) (he : g.event ≠ .roundStarted) : g.nextRound'.event ≠ .roundStarted := by
  unfold Game.nextRound'
  split
  · intro h; cases h
  · split
    · exact enterRound_ne _ _
    · exact enterRound_ne _ _
    · exact enterRound_ne _ _
    · intro h; cases h
    · exact he

/-- an accepted operation opens a betting round only from `ReadyRequested` on a dealt street, and
    then nobody is marked -/
theorem opens_unacted (g : Game) (hi : Inv g) (hne : g.event ≠ .roundStarted) (op : Op)
    (he' : (g.step op).1.event = .roundStarted) : AllUnacted (g.step op).1 := by
  cases op with
  | ready =>
    simp only [Game.step] at he' ⊢
    unfold Game.readyForAll at he' ⊢
    by_cases h0 : g.event ≠ .readyRequested
    · rw [if_pos h0] at he'; exact absurd he' hne
    · rw [if_neg h0] at he' ⊢
      simp only at he' ⊢
      unfold Game.readiness at he' ⊢
      by_cases hr : g.resetAllAllowed.round = .none
      · rw [if_pos hr] at he'
        split at he'
        · cases he'
        · exact absurd he' (enterRound_ne _ _)
      · rw [if_neg hr] at he' ⊢
        exact startRound_unacted _ ((noChip_resetAllAllowed g).struct hi.struct) he'
  | payAnte =>
    simp only [Game.step] at he' ⊢
    unfold Game.payAnte at he'
    split at he'
    · exact absurd he' hne
    · split at he'
      · exact absurd he' hne
      · rename_i he
        have hev : g.event = .anteRequested := by simpa using he
        have hq := anteInv_loop g.seatsFromDealer g ⟨hi.opts, hi.struct, hi.chips0, by
          have := hi.post.allowed; simpa [hev] using this, hev⟩
        split at he'
        · rename_i g' e heq
          have : g' = (payAnteLoop g.seatsFromDealer g).1 := by rw [heq]
          simp only at he'
          rw [this, hq.ev] at he'; cases he'
        · exact absurd he' (enterRound_ne _ _)
  | payBlinds =>
    simp only [Game.step] at he' ⊢
    unfold Game.payBlinds at he'
    split at he'
    · exact absurd he' hne
    · exact absurd he' (prepareRound_ne _)
  | next =>
    simp only [Game.step] at he' ⊢
    unfold Game.next at he'
    split at he'
    · exact absurd he' hne
    · split at he'
      · exact absurd he' hne
      · exact absurd he' (nextRound'_ne _ hne)
  | act seat a x =>
    have key : ∀ i, (g.act i a x).1.event = .roundStarted → False := by
      intro i h
      cases hacc : (g.act i a x).2 with
      | none =>
        obtain ⟨_, _, _, he, _⟩ := act_shape2 g hi i a x hacc
        exact hne he
      | some e =>
        have : (g.act i a x).1 = g := by
          have h' : (g.act i a x).2 ≠ none := by rw [hacc]; simp
          revert h'
          unfold Game.act
          cases a <;> simp only
          all_goals (repeat' split) <;> simp_all
        rw [this] at h; exact hne h
    cases seat with
    | none => exact (key _ he').elim
    | some i => exact (key i he').elim

/-! ## the invariant along every run -/

/-- in an open betting round the ghost record and the `acted` marks agree -/
def GI (g : Game) (gh : Ghost) : Prop := g.event = .roundStarted → RoundInv g gh.turnSince gh.quiet g.cur

theorem accepted_at_started (g : Game) (he : g.event = .roundStarted) (op : Op) (hacc : (g.step op).2 = none) :
    ∃ seat a x, op = .act seat a x := by
  cases op with
  | ready => simp [Game.step, Game.readyForAll, he] at hacc
  | payAnte =>
    simp only [Game.step, Game.payAnte, he] at hacc
    split at hacc <;> simp at hacc
  | payBlinds => simp [Game.step, Game.payBlinds, he] at hacc
  | next => simp [Game.step, Game.next, he] at hacc
  | act seat a x => exact ⟨seat, a, x, rfl⟩

/-- an accepted action in an open round: the new state is `requestPlayerAction` of a mid-action
    state on which the invariant holds for the updated ghost record -/
theorem act_ghost (g : Game) (gh : Ghost) (hi : Inv g) (hf : Flow g) (he : g.event = .roundStarted)
    (hG : RoundInv g gh.turnSince gh.quiet g.cur) (i : Nat) (a : Act) (x : Int) (hacc : (g.act i a x).2 = none) :
    ∃ g1, (g.act i a x).1 = g1.requestPlayerAction ∧ Struct g1 ∧ g1.event = .roundStarted ∧ g1.cur = g.cur ∧ g1.n = g.n ∧
      RoundInv g1 (gh.turn g (g.act i a x).1).turnSince (gh.turn g (g.act i a x).1).quiet (cwNext g.n g.cur) := by
  obtain ⟨p, g1, hp, _, hc, e, sh⟩ := act_shape2 g hi i a x hacc
  subst hc
  obtain ⟨hm, hq, hcur⟩ := shape_mid hi he sh
  have e' : (g.act g.cur a x).1 = g1.requestPlayerAction := by
    rw [e]; unfold Game.resume; rw [hm.ev]
  refine ⟨g1, e', hm.struct, hm.ev, hcur, hq.n, ?_⟩
  rw [e', turn_congr gh g g1 g1.requestPlayerAction (noChip_requestPlayerAction g1).cw
    ((mov_requestPlayerAction g1).stackOf g.cur)]
  exact shape_roundInv hi hf he gh hG hp sh

theorem gi_step (g : Game) (gh : Ghost) (hi : Inv g) (hf : Flow g) (hG : GI g gh) (op : Op) :
    GI (g.step op).1 (gh.step g op) := by
  unfold Ghost.step
  by_cases hacc' : (g.step op).2 ≠ none
  · rw [if_pos hacc', refused_same g hf op hacc']; exact hG
  have hacc : (g.step op).2 = none := Classical.not_not.mp hacc'
  rw [if_neg hacc']
  by_cases he : g.event ≠ .roundStarted
  · rw [if_pos he]
    intro he'
    rw [if_pos he']
    have hst := static_run g hi hf [op]
    exact fresh_roundInv (opens_unacted g hi he op he') g.n _ hst.1
  · rw [if_neg he]
    have he : g.event = .roundStarted := Classical.not_not.mp he
    obtain ⟨seat, a, x, rfl⟩ := accepted_at_started g he op hacc
    have key : ∀ i, (g.act i a x).2 = none → GI (g.act i a x).1 (gh.turn g (g.act i a x).1) := by
      intro i hacc he'
      obtain ⟨g1, e, hs1, hev1, hcur, hn, hinv⟩ := act_ghost g gh hi hf he (hG he) i a x hacc
      generalize gh.turn g (g.act i a x).1 = gh' at hinv ⊢
      rw [e] at he' ⊢
      rcases requestPlayerAction_cases g1 hs1 with h | ⟨h, _⟩
      · rw [h] at he'; cases he'
      · rw [h]
        have : (g1.setCurrentPlayer g1.nextIdx).cur = cwNext g.n g.cur := by
          show g1.nextIdx = _
          rw [nextIdx_eq, hn, hcur]
        rw [this]
        exact roundInv_setCurrentPlayer _ hinv
    cases seat with
    | none => exact key _ hacc
    | some i => exact key i hacc

theorem gi_runG : ∀ (ops : List Op) (g : Game) (gh : Ghost), Inv g → Flow g → GI g gh →
    Inv (g.runG gh ops).1 ∧ Flow (g.runG gh ops).1 ∧ GI (g.runG gh ops).1 (g.runG gh ops).2
  | [], _, _, hi, hf, hG => ⟨hi, hf, hG⟩
  | op :: ops, g, gh, hi, hf, hG =>
    gi_runG ops _ _ (inv_step g hi op) (flow_step g hi hf op) (gi_step g gh hi hf hG op)

theorem runG_fst : ∀ (ops : List Op) (g : Game) (gh : Ghost), (g.runG gh ops).1 = g.run ops
  | [], _, _ => rfl
  | _ :: ops, _, _ => runG_fst ops _ _

theorem greachable_inv {g : Game} {gh : Ghost} (h : GReachable g gh) : Reachable g ∧ GI g gh := by
  obtain ⟨c, ops, wf, hs, e⟩ := h
  have hi := inv_start c wf hs
  have hf := flow_start c hs
  have h0 : GI (start c).1 (Ghost.fresh c.seats.length) := by
    intro he
    obtain ⟨_, _, hst⟩ := start_ok c hs
    rw [hst] at he; cases he
  obtain ⟨_, _, h3⟩ := gi_runG ops _ _ hi hf h0
  have e1 : g = ((start c).1.runG (Ghost.fresh c.seats.length) ops).1 := congrArg Prod.fst e
  have e2 : gh = ((start c).1.runG (Ghost.fresh c.seats.length) ops).2 := congrArg Prod.snd e
  refine ⟨⟨c, ops, wf, hs, by rw [e1, runG_fst]⟩, ?_⟩
  rw [e1, e2]; exact h3

/-! ## the two statements -/

theorem roundClosed_seat (g : Game) (j : Nat) (p' : Player) (h : g.roundClosed.players[j]? = some p') :
    ∃ q, g.players[j]? = some q ∧ p'.fold = q.fold ∧ p'.stack = q.stack ∧ p'.wager = q.wager := by
  simp only [Game.roundClosed, Game.updatePots, Game.resetAllAllowed, Game.mapP, Game.setEvent, List.getElem?_map] at h
  cases hq : g.players[j]? with
  | none => simp [hq] at h
  | some q =>
    simp only [hq, Option.map_some, Option.some.injEq] at h
    subst h
    exact ⟨q, rfl, rfl, rfl, rfl⟩

theorem movable_pos_of_seat {g : Game} {j : Nat} {q : Player} (hq : g.players[j]? = some q) (hf : q.fold = false)
    (hs : 0 < q.stack) : g.movableCount ≠ 0 := by
  unfold Game.movableCount
  have hm : q ∈ g.players.filter (fun p => !(p.fold || p.stack == 0)) := by
    rw [List.mem_filter]
    refine ⟨List.mem_of_getElem? hq, ?_⟩
    have : ¬ q.stack = 0 := by omega
    simp [hf, this]
  intro h0
  rw [List.length_eq_zero_iff] at h0
  rw [h0] at hm; cases hm

/-- `no_premature_close`: an accepted action that closes the round with two players left leaves every
    non-folded seat with chips level with the wager to match and with a turn since it last rose -/
theorem closes_level (g : Game) (gh : Ghost) (hi : Inv g) (hf : Flow g) (he : g.event = .roundStarted)
    (hG : RoundInv g gh.turnSince gh.quiet g.cur) (i : Nat) (a : Act) (x : Int) (hacc : (g.act i a x).2 = none)
    (hclosed : (g.act i a x).1.event ≠ .roundStarted) (h2 : 2 ≤ (g.act i a x).1.aliveCount) :
    ∀ (j : Nat) (p : Player), (g.act i a x).1.players[j]? = some p → p.fold = false → 0 < p.stack →
      p.wager = (g.act i a x).1.cw ∧ (gh.turn g (g.act i a x).1).turnSince[j]? = some true := by
  obtain ⟨g1, e, hs1, hev1, hcur, hn, hinv⟩ := act_ghost g gh hi hf he hG i a x hacc
  generalize gh.turn g (g.act i a x).1 = gh' at hinv ⊢
  rw [e] at hclosed h2 ⊢
  have hal : g1.requestPlayerAction.aliveCount = g1.aliveCount := (mov_requestPlayerAction g1).alive
  have htgt : cwNext g.n g.cur = g1.nextIdx := by rw [nextIdx_eq, hn, hcur]
  rw [htgt] at hinv
  unfold Game.requestPlayerAction at hclosed ⊢
  by_cases h1 : g1.aliveCount = 1
  · omega
  · rw [if_neg h1] at hclosed ⊢
    by_cases hm : g1.movableCount = 0
    · rw [if_pos hm]
      intro j p hp hfo hst
      obtain ⟨q, hq, e1, e2, _⟩ := roundClosed_seat g1 j p hp
      exact absurd hm (movable_pos_of_seat hq (by rw [← e1]; exact hfo) (by rw [← e2]; exact hst))
    · rw [if_neg hm] at hclosed ⊢
      obtain ⟨qn, hqn⟩ := flow_getElem?_nextIdx hs1
      rw [hqn] at hclosed ⊢
      simp only at hclosed ⊢
      by_cases ha : qn.acted = true
      · rw [if_pos ha]
        have hall := all_acted hinv qn hqn ha
        intro j p hp hfo hst
        obtain ⟨q, hq, e1, e2, e3⟩ := roundClosed_seat g1 j p hp
        have hqa := hall j q hq
        refine ⟨?_, hinv.seen j q hq hqa⟩
        rw [e3]
        exact hinv.level j q hq hqa (by rw [← e1]; exact hfo) (by rw [← e2]; exact hst)
      · rw [if_neg ha] at hclosed
        exact absurd hev1 hclosed

/-- `one_lap`: in an open betting round fewer than `n` turns have passed since the last wager increase
    or all-in -/
theorem quiet_lt (g : Game) (gh : Ghost) (hi : Inv g) (hf : Flow g) (he : g.event = .roundStarted) (hG : GI g gh) :
    gh.quiet < g.n := by
  have hinv := hG he
  have hlt := hi.struct.cur
  have hlt' := hlt
  unfold Game.n at hlt'
  have hp : g.players[g.cur]? = some g.players[g.cur] := List.getElem?_eq_getElem hlt'
  have hpa := hf.acted he _ hp
  have h1 : 1 ≤ g.unacted := by
    unfold Game.unacted
    have hm : g.players[g.cur] ∈ g.players.filter (fun p => !p.acted) := by
      rw [List.mem_filter]
      exact ⟨List.getElem_mem hlt', by simp [hpa]⟩
    exact List.length_pos_of_mem hm
  have := hinv.lap
  omega

theorem runG_append : ∀ (ops : List Op) (g : Game) (gh : Ghost) (op : Op),
    g.runG gh (ops ++ [op]) = (((g.runG gh ops).1.step op).1, (g.runG gh ops).2.step (g.runG gh ops).1 op)
  | [], _, _, _ => rfl
  | _ :: ops, _, _, op => runG_append ops _ _ op

theorem greachable_step {g : Game} {gh : Ghost} (h : GReachable g gh) (op : Op) :
    GReachable (g.step op).1 (gh.step g op) := by
  obtain ⟨c, ops, wf, hs, e⟩ := h
  refine ⟨c, ops ++ [op], wf, hs, ?_⟩
  rw [runG_append, ← e]

theorem ghost_step_act {g : Game} (gh : Ghost) (he : g.event = .roundStarted) (op : Op) (hacc : (g.step op).2 = none) :
    gh.step g op = gh.turn g (g.step op).1 := by
  unfold Ghost.step
  rw [if_neg (by rw [hacc]; simp), if_neg (by rw [he]; simp)]

end Pokerface
