/-
  Helper lemmas for Properties/C09One.lean: small facts on the widest synchronous domains
  (`ReachableAny`, `ReachableRe`) — `max` stays positive, callbacks of an operation that ends
  in `pending`, table ids never come back (synchronous form, through the embedding into the
  asynchronous system).
-/
import Pokerface.Proofs.RegReentry3
import Pokerface.Proofs.RegAsyncCapReg

namespace Pokerface
open Reg

namespace Reg

theorem updateTableRequirements_status (r : Reg) : r.updateTableRequirements.status = r.status := by
  unfold updateTableRequirements; simp only; split <;> rfl

theorem updateTableRequirements_calls (r : Reg) : r.updateTableRequirements.calls = r.calls := by
  unfold updateTableRequirements; simp only; split <;> rfl

/-- `enterWaitingQueue` on a pending competition only appends to the queue -/
theorem enterWaitingQueue_pending_calls (r : Reg) (ps : List Nat) (h : r.status = .pending) :
    (r.enterWaitingQueue ps).calls = r.calls := by
  unfold enterWaitingQueue
  simp only [h, if_true]

/-- `AddPlayers` on a pending competition makes no callback -/
theorem addPlayers_pending_calls (r : Reg) (ps ch : List Nat) (h : r.status = .pending) :
    (r.addPlayers ps ch).1.calls = [] := by
  unfold addPlayers
  have h1 : (r.beginOp ch).status = .pending := h
  simp only [h1]
  rw [if_neg (by decide)]
  simp only
  rw [enterWaitingQueue_pending_calls _ _ (by simp [updateTableRequirements_status]),
    updateTableRequirements_calls]
  rfl

/-- `SetStatus(Pending)` makes no callback -/
theorem setStatus_to_pending_calls (r : Reg) (ch : List Nat) : (r.setStatus .pending ch).calls = [] := by
  unfold setStatus
  simp only
  split
  · rfl
  · rw [if_neg (by intro h; exact absurd h.2 (by decide))]
    rfl

/-- `ReleasePlayers` on a pending competition makes no callback -/
theorem releasePlayers_pending_calls (r : Reg) (ps ch : List Nat) (h : r.status = .pending) :
    (r.releasePlayers ps ch).calls = [] := by
  unfold releasePlayers
  rw [enterWaitingQueue_pending_calls _ _ (show (r.beginOp ch).status = .pending from h)]
  rfl

end Reg

namespace RSys
open ASys

/-- `max` never changes, so it stays positive on the widest domain with re-entries -/
theorem ReachableRe.max_pos {s : RSys} (h : ReachableRe s) : 0 < s.r.max := by
  induction h with
  | init max min h1 => exact h1
  | step op hr hok ih =>
    have := ((SInv0.of_reachableRe hr).step_full_re op hok).2.max_eq
    omega

theorem ReachableAny.max_pos {s : RSys} (h : ReachableAny s) : 0 < s.r.max := h.re.max_pos

/-- with no table, `WF0` and `0 < max` are `WF` -/
theorem WF_of_no_table {r : Reg} (h : WF0 r) (hm : 0 < r.max) (h0 : r.tableCount = 0) : WF r := by
  have ht := tables_nil_of_tc0 h h0
  exact ⟨hm, h.tc, h.nodup, h.idlt, fun t ht' => by rw [ht] at ht'; cases ht'⟩

/-- the asynchronous script of a synchronous operation valid with re-entries is valid with
    re-entries -/
theorem allOkRe_expand {s : RSys} (hS : SInv0 s) (op : EOp) (hok : s.okRe op) :
    (ofRSys s).allOkRe (expand s op) := by
  cases op with
  | add ps ch => exact ⟨hok, trivial⟩
  | status st ch =>
    have := allOk_expand s (.status st ch) hok
    exact ⟨this.1, trivial⟩
  | sync t elim stay rel keep ch =>
    have hall := allOk_expand s (.sync t elim stay rel keep ch) hok
    generalize expand s (.sync t elim stay rel keep ch) = l at hall
    have hA : ∀ (l : List AOp) (a : ASys), AInv a → a.allOk l → a.allOkRe l := by
      intro l
      induction l with
      | nil => intro _ _ _; trivial
      | cons op l ihl =>
        intro a ha hk
        exact ⟨ha.okRe_of_ok hk.1, ihl _ (ha.step_full op hk.1).1 hk.2⟩
    exact hA l _ (AInv.ofRSys hS) hall

/-- one synchronous step (valid with re-entries): a table id already handed out that names no
    table now names no table afterwards -/
theorem SInv0.gone_step_re {s : RSys} (hS : SInv0 s) (op : EOp) (hok : s.okRe op) (t : Nat)
    (hlt : t < s.r.nextId) (hun : s.env.membersOf t = none) :
    (s.step op).env.membersOf t = none ∧ t < (s.step op).r.nextId := by
  have := ASys.gone_stays_gone_re (expand s op) (ofRSys s) (AInv.ofRSys hS) (allOkRe_expand hS op hok) t hlt hun
  rw [run_expand] at this
  exact this

/-- broken tables do not come back, along any synchronous script valid with re-entries -/
theorem gone_stays_gone_sync_re : ∀ (ops : List EOp) (s : RSys), SInv0 s → s.allOkRe ops → ∀ t, t < s.r.nextId →
    s.env.membersOf t = none → (s.run ops).env.membersOf t = none ∧ t < (s.run ops).r.nextId := by
  intro ops
  induction ops with
  | nil => intro s _ _ t hlt hun; exact ⟨hun, hlt⟩
  | cons op ops ih =>
    intro s h hok t hlt hun
    obtain ⟨h1, h2⟩ := h.gone_step_re op hok.1 t hlt hun
    exact ih (s.step op) (h.step_full_re op hok.1).1 hok.2 t h2 h1

theorem allOkRe_of_allOkAny : ∀ (ops : List EOp) (s : RSys), SInv0 s → s.allOkAny ops → s.allOkRe ops := by
  intro ops
  induction ops with
  | nil => intro _ _ _; trivial
  | cons op ops ih =>
    intro s h hok
    exact ⟨h.okRe_of_okAny hok.1, ih _ (h.step_full op hok.1).1 hok.2⟩

end RSys
end Pokerface
