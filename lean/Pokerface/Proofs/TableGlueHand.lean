/-
  The glue between the seat manager and the hand engine, part 4: one whole `prepareNextGame`
  (game created, hand played, result written back, next positions), and what the operations of the table
  do to a seat that is held out of play.
-/
import Pokerface.Proofs.TableGlueResult
import Pokerface.Proofs.EngineReach

namespace Pokerface
namespace Table

/-! ### the game that is created -/

theorem Created.t1_eq {t t1 : Table} {seats : List Nat} (hc : Created t t1 seats) : t1 = t.setupPosition.1 := by
  rw [hc.setup]

theorem Created.tinv {t t1 : Table} {seats : List Nat} (h : TInv t) (hc : Created t t1 seats) : TInv t1 := by
  rw [hc.t1_eq]; exact h.setupPosition

theorem Created.facts {t t1 : Table} {seats : List Nat} (h : TInv t) (hc : Created t t1 seats) :
    seats.Nodup ∧ seats.length = t1.sm.playableCount ∧
    (∀ s ∈ seats, t1.sm.playable s = true ∧ ∃ p, t1.playerAt s = some p) ∧
    ∃ d, t1.sm.dealer = some d ∧ seats = (t1.sm.normalize d).filter t1.sm.playable := by
  obtain ⟨d, hd, hseats, hnd, hlen, hmem⟩ := playableSeats_spec hc.seats
  refine ⟨hnd, hlen, ?_, d, hd, hseats⟩
  intro s hs
  have hp := ((hmem s).mp hs).2
  obtain ⟨p, hp'⟩ := (hc.tinv h).player_of_playable hp
  exact ⟨hp, p, playerAt_eq_some.mpr hp'⟩

theorem Created.idxOK {t t1 : Table} {seats : List Nat} (h : TInv t) (hc : Created t t1 seats) :
    IdxOK (t1.assignGameIdx seats) seats := by
  obtain ⟨hnd, _, hpl, _⟩ := hc.facts h
  exact idxOK_assignGameIdx hnd (fun s hs => (hpl s hs).2)

theorem Created.cfg_eq {t t1 : Table} {seats : List Nat} (h : TInv t) (hc : Created t t1 seats) :
    (t1.assignGameIdx seats).gameSeats seats = t1.gameSeats seats :=
  gameSeats_assignGameIdx _ _ (hc.facts h).1 _

/-- the game index `k` is found on seat `seats[k]` once `startGame` has handed the indices out -/
theorem Created.seatOfGameIdx {t t1 : Table} {seats : List Nat} (h : TInv t) (hc : Created t t1 seats)
    {k s : Nat} (hks : seats[k]? = some s) : (t1.assignGameIdx seats).seatOfGameIdx k = some s := by
  have hi := hc.idxOK h
  obtain ⟨q, hq, hqk⟩ := hi.has k s hks
  apply seatOfGameIdx_some (playerAt_eq_some.mp hq) hqk
  intro j q' hj hk'
  have := hi.only j q' k (playerAt_eq_some.mpr hj) hk'
  rw [hks] at this
  exact (Option.some.inj this).symm

/-! ### the hand that is played -/

theorem closed_tinv {t2 : Table} (h : TInv t2) (finals : List Int) : TInv (t2.closed finals) :=
  (h.applyResult finals).of_same_pids rfl rfl (fun _ => rfl)

/-- a hand that was played to the end: where `prepareNextGame` leaves the table -/
theorem playHand_played {t2 : Table} {cfg : List SeatCfg} {finals : List Int} (hok : startRefusal cfg = none)
    (hl : finals.length = cfg.length) :
    (playHand t2 cfg finals).1 = t2.closed finals ∨ (playHand t2 cfg finals).1 = (t2.closed finals).setupPosition.1 := by
  unfold playHand
  rw [hok]
  simp only
  rw [if_neg (by simp [hl])]
  split
  · left; rfl
  · right; rfl

theorem playHand_refused {t2 : Table} {cfg : List SeatCfg} {finals : List Int} {e : Err} (hr : startRefusal cfg = some e) :
    playHand t2 cfg finals = (t2, { err := some (.game e), cfg := some cfg }) := by
  unfold playHand
  rw [hr]

theorem playHand_err_game {t2 : Table} {cfg : List SeatCfg} {finals : List Int} {e : Err} :
    (playHand t2 cfg finals).2.err = some (.game e) ↔ startRefusal cfg = some e := by
  constructor
  · intro h
    unfold playHand at h
    cases hr : startRefusal cfg with
    | some e' => rw [hr] at h; simp at h; rw [h]
    | none =>
      rw [hr] at h
      simp only at h
      split at h
      · simp at h
      · split at h
        · simp at h
        · exfalso
          simp only at h
          have : ∀ (t : Table) (e' : TErr), t.setupPosition.2 = some e' → ∀ x, e' ≠ .game x := by
            intro t e' he x
            rw [setupPosition_eq] at he
            split at he
            · cases he
            · split at he
              · next e0 _ =>
                simp only [Option.some.injEq] at he
                subst he
                cases e0 <;> simp [nextErr]
              · cases he
          exact this _ _ h e rfl
  · intro h; rw [playHand_refused h]

theorem playHand_badInput_or_refused {t2 : Table} {cfg : List SeatCfg} {finals : List Int}
    (h : (∃ e, (playHand t2 cfg finals).2.err = some (.game e)) ∨
      (startRefusal cfg = none ∧ finals.length ≠ cfg.length)) :
    (playHand t2 cfg finals).1 = t2 := by
  rcases h with ⟨e, he⟩ | ⟨hn, hl⟩
  · rw [playHand_refused (playHand_err_game.mp he)]
  · unfold playHand; rw [hn]; simp only; rw [if_pos hl]

/-- the chips and the players on the sheet after a hand that was played to the end -/
theorem played_sheet {t2 : Table} (h2 : TInv t2) {seats : List Nat} (hi : IdxOK t2 seats) {cfg : List SeatCfg}
    (hcfg : cfg = t2.gameSeats seats) {finals : List Int} (hok : startRefusal cfg = none) (hl : finals.length = cfg.length) :
    TInv (playHand t2 cfg finals).1 ∧
    (playHand t2 cfg finals).1.opts = t2.opts ∧
    (∀ j, ((playHand t2 cfg finals).1.playerAt j).map money =
      ((t2.playerAt j).bind (writeBack t2.opts.leaveMode finals)).map money) ∧
    (playHand t2 cfg finals).1.sheetTotal + (cfg.map (·.bankroll)).sum = t2.sheetTotal + finals.sum ∧
    (∀ i, SM.Held (t2.applyResult finals).sm i → SM.Held (playHand t2 cfg finals).1.sm i) := by
  have hlen : finals.length = seats.length := by rw [hl, hcfg, gameSeats_length]
  obtain ⟨hT, hopts, _, hpl, htot⟩ := applyResult_spec h2 hi finals (by omega)
  have htake : (t2.gameSeats seats).take finals.length = cfg := by
    rw [hcfg, hlen, ← gameSeats_length t2 seats, List.take_length]
  rw [htake] at htot
  have hcl := closed_tinv h2 finals
  rcases playHand_played (t2 := t2) hok hl with he | he <;> rw [he]
  · refine ⟨hcl, hopts, ?_, htot, fun i hh => hh⟩
    intro j
    show ((t2.applyResult finals).playerAt j).map money = _
    rw [hpl]
  · refine ⟨hcl.setupPosition, ?_, ?_, ?_, ?_⟩
    · rw [setupPosition_opts]; exact hopts
    · intro j
      rw [setupPosition_money]
      show ((t2.applyResult finals).playerAt j).map money = _
      rw [hpl]
    · rw [setupPosition_sheetTotal]; exact htot
    · intro i hh
      rcases setupPosition_sm (t2.closed finals) with hs | hs <;> rw [hs]
      · exact hh
      · exact SM.step_held hcl.smr.inv hh _ (by simp)


/-! ### one `prepareNextGame` that creates a game -/

/-- a `prepareNextGame` that creates a game, cut in two -/
theorem hand_created {t : Table} (h : TInv t) {finals : List Int} {cfg : List SeatCfg}
    (hc : (t.step (.hand finals)).2.cfg = some cfg) :
    ∃ t1 seats, Created t t1 seats ∧ cfg = t1.gameSeats seats ∧
      t.step (.hand finals) = playHand (t1.assignGameIdx seats) cfg finals := by
  obtain ⟨t1, seats, hcr, hcfg⟩ := prepareNextGame_cfg (t := t) (finals := finals) hc
  have he := hcr.cfg_eq h
  refine ⟨t1, seats, hcr, hcfg.trans he, ?_⟩
  show t.prepareNextGame finals = _
  rw [prepareNextGame_created hcr, hcfg]

/-- the game `prepareNextGame` creates does not depend on how the hand will end -/
theorem hand_cfg_indep (t : Table) (f1 f2 : List Int) : (t.step (.hand f1)).2.cfg = (t.step (.hand f2)).2.cfg := by
  have key : ∀ a b cfg, (t.step (.hand a)).2.cfg = some cfg → (t.step (.hand b)).2.cfg = some cfg := by
    intro a b cfg hc
    obtain ⟨t1, seats, hcr, hcfg⟩ := prepareNextGame_cfg (t := t) (finals := a) hc
    show (t.prepareNextGame b).2.cfg = _
    rw [prepareNextGame_created hcr, playHand_cfg, hcfg]
  cases h1 : (t.step (.hand f1)).2.cfg with
  | some cfg => rw [key f1 f2 cfg h1]
  | none =>
    cases h2 : (t.step (.hand f2)).2.cfg with
    | none => rfl
    | some cfg => rw [key f2 f1 cfg h2] at h1; cases h1

theorem pair_of_snd {α β} {p : α × β} {b : β} (h : p.2 = b) : p = (p.1, b) := by subst h; rfl

/-- sums of two lists related entry by entry -/
theorem sum_pointwise {α β} (g : α → Int) (f c : β → Int) :
    ∀ (l1 : List α) (l2 : List β), l1.length = l2.length →
      (∀ (i : Nat) a b, l1[i]? = some a → l2[i]? = some b → f b = g a + c b) →
      (l2.map f).sum = (l1.map g).sum + (l2.map c).sum
  | [], [], _, _ => by simp
  | [], _ :: _, hl, _ => by simp at hl
  | _ :: _, [], hl, _ => by simp at hl
  | a :: l1, b :: l2, hl, hp => by
    have ih := sum_pointwise g f c l1 l2 (by simpa using hl)
      (fun i a' b' h1 h2 => hp (i + 1) a' b' (by simpa using h1) (by simpa using h2))
    have h0 := hp 0 a b rfl rfl
    simp only [List.map_cons, List.sum_cons]
    omega


theorem setupPosition_err {t : Table} {e : TErr} (h : t.setupPosition.2 = some e) : ∃ e0, e = nextErr e0 := by
  rw [setupPosition_eq] at h
  split at h
  · cases h
  · split at h
    · next e0 _ => exact ⟨e0, (Option.some.inj h).symm⟩
    · cases h

theorem nextErr_ne_badInput (e0 : SMErr) : nextErr e0 ≠ .badInput := by cases e0 <;> simp [nextErr]

/-- the input error is reported only for an accepted game whose closing stacks do not fit -/
theorem playHand_err_badInput {t2 : Table} {cfg : List SeatCfg} {finals : List Int}
    (h : (playHand t2 cfg finals).2.err = some .badInput) : startRefusal cfg = none ∧ finals.length ≠ cfg.length := by
  unfold playHand at h
  cases hr : startRefusal cfg with
  | some e' => rw [hr] at h; simp at h
  | none =>
    rw [hr] at h
    simp only at h
    refine ⟨rfl, ?_⟩
    intro hl
    rw [if_neg (by simp [hl])] at h
    split at h
    · simp at h
    · simp only at h
      obtain ⟨e0, he0⟩ := setupPosition_err h
      exact nextErr_ne_badInput e0 he0.symm

/-- `prepareNextGame` either gets as far as creating a game, or stops before with an error of its own -/
theorem prepareNextGame_cases (t : Table) (finals : List Int) :
    (∃ t1 seats, Created t t1 seats) ∨
    ((t.prepareNextGame finals).2.cfg = none ∧ ∀ e, (t.prepareNextGame finals).2.err ≠ some (.game e)) := by
  by_cases hmax : t.maxGamesReached = true
  · right; unfold Table.prepareNextGame; rw [if_pos hmax]; exact ⟨rfl, by simp⟩
  · rcases hs : t.setupPosition with ⟨t1, e1⟩
    cases e1 with
    | some e1 =>
      right; unfold Table.prepareNextGame; rw [if_neg hmax, hs]
      refine ⟨rfl, ?_⟩
      intro e he
      simp only [Option.some.injEq] at he
      obtain ⟨e0, he0⟩ := setupPosition_err (t := t) (e := e1) (by rw [hs])
      subst he0
      cases e0 <;> simp [nextErr] at he
    | none =>
      by_cases hen : (t1.gameCount = 0 ∧ t1.sm.playableCount < t1.opts.initialPlayers) ∨
          t1.sm.playableCount < t1.opts.minPlayers
      · right; unfold Table.prepareNextGame; rw [if_neg hmax, hs]; simp only; rw [if_pos hen]; exact ⟨rfl, by simp⟩
      · cases hps : playableSeats t1.sm with
        | none =>
          right; unfold Table.prepareNextGame; rw [if_neg hmax, hs]; simp only; rw [if_neg hen, hps]
          exact ⟨rfl, by simp⟩
        | some seats => left; exact ⟨t1, seats, ⟨by simpa using hmax, hs, hen, hps⟩⟩

/-- a hand that ends without any error ends with a successful closing `setupPosition` from the state `closed` -/
theorem playHand_ok {t2 : Table} {cfg : List SeatCfg} {finals : List Int} (h : (playHand t2 cfg finals).2.err = none) :
    startRefusal cfg = none ∧ finals.length = cfg.length ∧
    (t2.closed finals).setupPosition = ((playHand t2 cfg finals).1, none) := by
  unfold playHand at h ⊢
  cases hr : startRefusal cfg with
  | some e' => rw [hr] at h; simp at h
  | none =>
    rw [hr] at h
    simp only at h ⊢
    by_cases hl : finals.length ≠ cfg.length
    · rw [if_pos hl] at h; simp at h
    · rw [if_neg hl] at h ⊢
      by_cases hm : (t2.closed finals).maxGamesReached = true
      · rw [if_pos hm] at h; simp at h
      · rw [if_neg hm] at h ⊢
        simp only at h ⊢
        refine ⟨trivial, by omega, ?_⟩
        rw [← h]

/-! ### a refused game is refused again -/

/-- the positions are set up, a game can be created, and `Start()` refuses it with `e` -/
structure Stuck (t : Table) (seats : List Nat) (e : Err) : Prop where
  inPos : t.inPosition = true
  created : Created t t seats
  nodup : seats.Nodup
  refused : startRefusal (t.gameSeats seats) = some e

theorem Stuck.step {t : Table} {seats : List Nat} {e : Err} (h : Stuck t seats e) (f : List Int) :
    (t.step (.hand f)).2.err = some (.game e) ∧ (t.step (.hand f)).1 = t.assignGameIdx seats ∧
    Stuck (t.assignGameIdx seats) seats e := by
  have hcfg : (t.assignGameIdx seats).gameSeats seats = t.gameSeats seats := gameSeats_assignGameIdx _ _ h.nodup _
  have hstep : t.step (.hand f) = (t.assignGameIdx seats, { err := some (.game e), cfg := some (t.gameSeats seats) }) := by
    show t.prepareNextGame f = _
    rw [prepareNextGame_created h.created, hcfg, playHand_refused h.refused]
  refine ⟨by rw [hstep], by rw [hstep], ?_⟩
  have hin : (t.assignGameIdx seats).inPosition = true := by rw [assignGameIdx_inPosition]; exact h.inPos
  refine ⟨hin, ⟨?_, setupPosition_inPosition hin, ?_, ?_⟩, h.nodup, ?_⟩
  · have := h.created.notMax
    unfold maxGamesReached at this ⊢
    rw [assignGameIdx_opts, assignGameIdx_gameCount]; exact this
  · have := h.created.enough
    rw [assignGameIdx_gameCount, assignGameIdx_sm, assignGameIdx_opts]; exact this
  · rw [assignGameIdx_sm]; exact h.created.seats
  · rw [gameSeats_assignGameIdx _ _ h.nodup]; exact h.refused

theorem setupPosition_ok_inPosition {t t1 : Table} (h : t.setupPosition = (t1, none)) : t1.inPosition = true := by
  by_cases hp : t.inPosition = true
  · rw [setupPosition_inPosition hp] at h; cases h; exact hp
  · obtain ⟨_, rfl⟩ := setupPosition_ok (by simpa using hp) h; rfl

/-- the first refusal leaves the table `Stuck` -/
theorem stuck_of_refused {t : Table} (hi : TInv t) {f : List Int} {e : Err}
    (h : (t.step (.hand f)).2.err = some (.game e)) :
    ∃ seats, Stuck (t.step (.hand f)).1 seats e := by
  have hc : ∃ cfg, (t.step (.hand f)).2.cfg = some cfg := by
    rcases prepareNextGame_cases t f with ⟨t1, seats, hcr⟩ | ⟨_, hne⟩
    · exact ⟨_, by show (t.prepareNextGame f).2.cfg = _; rw [prepareNextGame_created hcr, playHand_cfg]⟩
    · exact absurd h (hne e)
  obtain ⟨cfg, hc⟩ := hc
  obtain ⟨t1, seats, hcr, hcfg, hstep⟩ := hand_created hi hc
  have hr : startRefusal cfg = some e := by rw [hstep] at h; exact playHand_err_game.mp h
  have hnd := (hcr.facts hi).1
  have hst : (t.step (.hand f)).1 = t1.assignGameIdx seats := by rw [hstep, playHand_refused hr]
  have hin1 := setupPosition_ok_inPosition hcr.setup
  have hin : (t1.assignGameIdx seats).inPosition = true := by rw [assignGameIdx_inPosition]; exact hin1
  have hcnt : t1.gameCount = t.gameCount ∧ t1.opts = t.opts := by
    rw [hcr.t1_eq]; exact ⟨setupPosition_gameCount t, setupPosition_opts t⟩
  refine ⟨seats, ?_⟩
  rw [hst]
  refine ⟨hin, ⟨?_, setupPosition_inPosition hin, ?_, ?_⟩, hnd, ?_⟩
  · have := hcr.notMax
    unfold maxGamesReached at this ⊢
    rw [assignGameIdx_opts, assignGameIdx_gameCount, hcnt.1, hcnt.2]; exact this
  · have := hcr.enough
    rw [assignGameIdx_gameCount, assignGameIdx_sm, assignGameIdx_opts]; exact this
  · rw [assignGameIdx_sm]; exact hcr.seats
  · rw [gameSeats_assignGameIdx _ _ hnd, ← hcfg]; exact hr

/-- once `Start()` has refused a game, every further `prepareNextGame` — with nothing else happening at the table —
creates the same game and is refused in the same way -/
theorem refused_again {t : Table} {seats : List Nat} {e : Err} (h : Stuck t seats e) (fs : List (List Int)) (f : List Int) :
    ((t.run (fs.map .hand)).step (.hand f)).2.err = some (.game e) ∧
    ((t.run (fs.map .hand)).step (.hand f)).2.cfg = some (t.gameSeats seats) := by
  induction fs generalizing t with
  | nil =>
    have hcfg : (t.assignGameIdx seats).gameSeats seats = t.gameSeats seats := gameSeats_assignGameIdx _ _ h.nodup _
    refine ⟨(h.step f).1, ?_⟩
    show (t.prepareNextGame f).2.cfg = _
    rw [prepareNextGame_created h.created, playHand_cfg, hcfg]
  | cons f0 fs ih =>
    rw [List.map_cons, run_cons, (h.step f0).2.1]
    have := ih (h.step f0).2.2
    rw [gameSeats_assignGameIdx _ _ h.nodup] at this
    exact this


/-! ### flags on the sheet after the closing `setupPosition` -/

/-- when `setupPosition` ran `Next()` successfully (`inPosition` went from `false` to `true`), the `Playable` flags on
the sheet are those of the seat manager -/
theorem setupPosition_flag {t : Table} (hp : t.inPosition = false) (hin : t.setupPosition.1.inPosition = true)
    {i : Nat} {p : TPlayer} (h : t.setupPosition.1.playerAt i = some p) :
    p.playable = t.setupPosition.1.sm.playable i := by
  rw [setupPosition_eq, if_neg (by simp [hp])] at hin h ⊢
  cases he : (t.sm.step .next).2.1 with
  | some e =>
    rw [he] at hin
    simp only at hin
    rw [hp] at hin; cases hin
  | none =>
    rw [he] at h
    simp only at h ⊢
    have h' : ((copyPositions (t.sm.step .next).1 t.players)[i]?).join = some p := h
    rw [copyPositions_getElem?] at h'
    cases hq : t.players[i]? with
    | none => rw [hq] at h'; cases h'
    | some o =>
      cases o with
      | none => rw [hq] at h'; cases h'
      | some q =>
        rw [hq] at h'
        simp only [Option.map_some, Option.join_some, Option.some.injEq] at h'
        rw [← h']; rfl

/-- the same for the table a played hand returns -/
theorem played_flags {t2 : Table} {cfg : List SeatCfg} {finals : List Int} (hok : startRefusal cfg = none)
    (hl : finals.length = cfg.length) (hin : (playHand t2 cfg finals).1.inPosition = true) {i : Nat} {p : TPlayer}
    (h : (playHand t2 cfg finals).1.playerAt i = some p) : p.playable = (playHand t2 cfg finals).1.sm.playable i := by
  rcases playHand_played (t2 := t2) hok hl with he | he
  · rw [he] at hin; cases hin
  · rw [he] at hin h ⊢
    exact setupPosition_flag rfl hin h

/-! ### the engine's cached dealer -/

/-- `NewGame` on player settings of which exactly the first carries the dealer position: the cached dealer is player 0 -/
theorem dealerIdx?_zero (m : Meta) (cfg : List SeatCfg) (hne : cfg ≠ [])
    (h : ∀ (k : Nat) c, cfg[k]? = some c → (c.dealer = true ↔ k = 0)) :
    ({ opts := m, players := (⟨m, cfg⟩ : Config).players } : Game).dealerIdx? = some 0 := by
  cases cfg with
  | nil => exact absurd rfl hne
  | cons s0 tl =>
    have h0 : s0.dealer = true := (h 0 s0 rfl).mpr rfl
    have hrest : ∀ s ∈ tl, s.dealer = false := by
      intro s hs
      obtain ⟨k, hk⟩ := List.getElem?_of_mem hs
      have := h (k + 1) s (by simpa using hk)
      cases hd : s.dealer with
      | false => rfl
      | true => have := this.mp hd; omega
    have hmap := players_map_posDealer ⟨m, s0 :: tl⟩
    have hidx := config_players_getElem ⟨m, s0 :: tl⟩ 0
    cases hP : (⟨m, s0 :: tl⟩ : Config).players with
    | nil => rw [hP] at hmap; simp at hmap
    | cons p0 rest =>
      rw [hP] at hmap hidx
      simp only [List.map_cons, List.cons.injEq] at hmap
      have hp0 : p0.posDealer = true := by rw [hmap.1]; exact h0
      have hrest' : ∀ p ∈ rest, p.posDealer = false := by
        intro p hp
        have : p.posDealer ∈ rest.map (·.posDealer) := List.mem_map_of_mem hp
        rw [hmap.2, List.mem_map] at this
        obtain ⟨s, hs, he⟩ := this
        rw [← he]; exact hrest s hs
      have hnone : rest.reverse.find? (·.posDealer) = none := by
        rw [List.find?_eq_none]
        intro p hp
        rw [hrest' p (List.mem_reverse.mp hp)]
        simp
      unfold Game.dealerIdx?
      simp only [List.reverse_cons, List.find?_append, hnone, List.find?_cons, hp0, Option.none_or,
        Option.map_some]
      rw [(hidx p0 rfl).1]

/-! ### a seat that is held out stays held out, unless it is activated -/

theorem setupPosition_held {t : Table} (h : TInv t) {i : Nat} (hh : SM.Held t.sm i) : SM.Held t.setupPosition.1.sm i := by
  rcases setupPosition_sm t with hs | hs <;> rw [hs]
  · exact hh
  · exact SM.step_held h.smr.inv hh _ (by simp)

theorem prepareNextGame_held {t : Table} (h : TInv t) {i : Nat} (hh : SM.Held t.sm i) (finals : List Int) :
    SM.Held (t.prepareNextGame finals).1.sm i := by
  unfold Table.prepareNextGame
  split
  · exact hh
  · have h1 := h.setupPosition
    have hh1 := setupPosition_held h hh
    rcases hs : t.setupPosition with ⟨t1, e⟩
    rw [hs] at h1 hh1
    simp only at h1 hh1
    cases e with
    | some e => exact hh1
    | none =>
      simp only
      split
      · exact hh1
      · split
        · exact hh1
        · next seats _ =>
          have h2 := h1.assignGameIdx seats
          have hh2 : SM.Held (t1.assignGameIdx seats).sm i := by rw [assignGameIdx_sm]; exact hh1
          split
          · exact hh2
          · split
            · exact hh2
            · have hh3 := applyResult_held h2 hh2 finals
              have h4 := closed_tinv h2 finals
              split
              · exact hh3
              · exact setupPosition_held h4 hh3

theorem step_held {t : Table} (h : TInv t) {i : Nat} (hh : SM.Held t.sm i) (op : TOp)
    (hop : op ≠ .activate (i : Int)) : SM.Held (t.step op).1.sm i := by
  cases op with
  | join seat pid bankroll chose =>
    have := SM.step_held h.smr.inv hh (.join seat pid chose) (by simp)
    rcases SM.step_join_cases t.sm seat pid chose with ⟨e, he⟩ | ⟨k, s, hs, hp, _, he⟩
    · simp only [Table.step, he]; exact hh
    · simp only [Table.step, he]
      rw [he] at this
      exact this
  | leave seat => exact leave_held h hh seat
  | activate seat =>
    exact SM.step_held h.smr.inv hh (.seat seat) (by intro he; apply hop; cases he; rfl)
  | reserve seat =>
    have := SM.step_held h.smr.inv hh (.reserve seat) (by simp)
    rcases SM.step_reserve_cases t.sm seat with ⟨_, he⟩ | ⟨k, _, _, he⟩
    · simp only [Table.step, he]; exact hh
    · simp only [Table.step, he]
      rw [he] at this
      exact this
  | setup => exact setupPosition_held h hh
  | hand finals => exact prepareNextGame_held h hh finals

theorem run_held {t : Table} (h : TInv t) {i : Nat} (hh : SM.Held t.sm i) (ops : List TOp)
    (hops : ∀ op ∈ ops, op ≠ .activate (i : Int)) : SM.Held (t.run ops).sm i := by
  induction ops generalizing t with
  | nil => exact hh
  | cons op ops ih =>
    rw [run_cons]
    exact ih (h.step op) (step_held h hh op (hops op (by simp))) (fun o ho => hops o (by simp [ho]))

/-! ### the positions right after a successful `Next()` -/

/-- a successful `setupPosition` that ran `Next()`: the layout of `SM.NextOk`, and the sheet with the positions
copied -/
theorem setup_nextOk {t t' : Table} (h : TInv t) (hp : t.inPosition = false) (hs : t.setupPosition = (t', none)) :
    ∃ d ks kb, SM.NextOk t.sm t'.sm d ks kb ∧ t'.sm = (t.sm.step .next).1 ∧
      ∀ i, t'.playerAt i = (t.playerAt i).map (copyPos t'.sm i) := by
  obtain ⟨hok, rfl⟩ := setupPosition_ok hp hs
  obtain ⟨d, ks, kb, hn⟩ := SM.next_ok h.smr.inv hok
  refine ⟨d, ks, kb, hn, rfl, ?_⟩
  intro i
  unfold playerAt
  show ((copyPositions (t.sm.step .next).1 t.players)[i]?).join = _
  rw [copyPositions_getElem?]
  cases t.players[i]? with
  | none => rfl
  | some o => cases o <;> rfl

/-- the setting of a playable seat after such a `setupPosition` -/
theorem seatCfgAt_copied {t t' : Table} {i : Nat} {p : TPlayer} (hpl : t'.playerAt i = (t.playerAt i).map (copyPos t'.sm i))
    (hp : t.playerAt i = some p) :
    t'.seatCfgAt i = { bankroll := p.bankroll, dealer := decide (t'.sm.dealer = some i), sb := decide (t'.sm.sb = some i),
                       bb := decide (t'.sm.sb ≠ some i) && decide (t'.sm.bb = some i) } := by
  unfold seatCfgAt
  rw [hpl, hp]; rfl

end Table
end Pokerface
