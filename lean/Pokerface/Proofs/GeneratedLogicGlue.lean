import Pokerface.Model.Game
import Pokerface.Generated.LogicGlue
/-
  K1, translated logic (glue between the engine and the pots / the settlement / the evaluator):
  settlement.go `CalculateGameResults`, pot.go `updatePots`, power.go `UpdateCombinationOfAllPlayers`,
  translated by `harness/cmd/genlogic` (Generated/LogicGlue.lean, regenerated on every run).  Each of the
  three functions is one loop over the players (`CalculateGameResults` has a second one over the pots);
  the translator emits the body of the loop as a function of one iteration — the calls it makes on the
  result / the level list, in order, with their arguments translated (`calcResultsStep`,
  `calcResultsPotStep`, `updatePotsStep`), or the fields of `p.Combination` after the iteration
  (`updateCombStep`) — and pins the statements around the loop by their printed form.  The theorems state
  that the model's function is the fold / map of that translated iteration over the players.
-/
set_option linter.unusedSimpArgs false
namespace Pokerface.GeneratedLogic
open Pokerface Game

/-! ### pot.go: `updatePots` -/

/-- the reading of one recorded call on the level list (`ll.AddContributor(wager, idx, fold)`) -/
def llStep (ll : LevelList) (e : String × Int × Nat × Bool) : LevelList :=
  if e.1 = "AddContributor" then ll.addContributor e.2.1 e.2.2.1 e.2.2.2 else ll

/-- closed form of the translated iteration, a function of all the numeric and boolean fields of the player
    state: one `AddContributor(p.Pot+p.Wager, p.Idx, p.Fold)`, whatever the other fields are -/
theorem updatePotsStep_eq (idx : Nat) (bankroll initial stack pot wager : Int) (fold acted : Bool) :
    Generated.Logic.updatePotsStep idx bankroll initial stack pot wager fold acted
      = [("AddContributor", pot + wager, idx, fold)] := by rfl

/-- the translated iteration of `updatePots` on a player of the model -/
def updatePotsOn (p : Player) : List (String × Int × Nat × Bool) :=
  Generated.Logic.updatePotsStep p.idx p.bankroll p.initial p.stack p.pot p.wager p.fold p.acted

/-- pot.go `updatePots`: `ll := pot.NewLevelList()` (pinned), the translated iteration for every player in
    seat order, `Status.Pots = ll.GetPots()` (pinned) -/
theorem updatePots_eq (g : Game) :
    g.updatePots =
      { g with pots := (g.players.foldl
          (fun ll p => (updatePotsOn p).foldl llStep ll) ({} : LevelList)).getPots } := by
  simp [Game.updatePots, potsOf, List.foldl_map, updatePotsOn, Generated.Logic.updatePotsStep, llStep]

/-! ### settlement.go: `CalculateGameResults` -/

/-- the reading of one recorded call of the pot loop (`r.AddPot(total, levels)`) -/
def resPotStep (r : Result) (e : String × Int × List Level) : Result :=
  if e.1 = "AddPot" then r.addPot e.2.1 e.2.2 else r

/-- the reading of one recorded call of the player loop (`r.AddPlayer(idx, bankroll)`, `r.UpdateScore(idx, score)`) -/
def resStep (r : Result) (e : String × Nat × Int) : Result :=
  if e.1 = "AddPlayer" then r.addPlayer e.2.1 e.2.2
  else if e.1 = "UpdateScore" then r.updateScore e.2.1 e.2.2
  else r

/-- `p.Combination.Power` (the model reads 0 where the Go code would dereference a nil `Combination`) -/
def combPower (p : Player) : Int := ((p.comb.map (·.power)).getD 0 : Nat)

/-- closed form of the translated iterations (functions of all the fields of the pot / of the player state):
    every pot is added with its total and its levels; every player is added with `(Idx, Bankroll)` and scored
    0 when folded, `Combination.Power` otherwise, whatever the other fields are -/
theorem calcResultsStep_eq (idx : Nat) (bankroll initial stack pot wager : Int) (fold acted : Bool) (power : Int) :
    Generated.Logic.calcResultsStep idx bankroll initial stack pot wager fold acted power
      = [("AddPlayer", idx, bankroll), ("UpdateScore", idx, if fold then 0 else power)] ∧
    ∀ (level wager total : Int) (levels : List Level),
      Generated.Logic.calcResultsPotStep level wager total levels = [("AddPot", total, levels)] := by
  refine ⟨?_, fun _ _ _ _ => rfl⟩
  cases fold <;> rfl

/-- the translated iterations of `CalculateGameResults` on a pot / a player of the model -/
def calcResultsOnPot (p : Pot) : List (String × Int × List Level) :=
  Generated.Logic.calcResultsPotStep p.level p.wager p.total p.levels

def calcResultsOn (p : Player) : List (String × Nat × Int) :=
  Generated.Logic.calcResultsStep p.idx p.bankroll p.initial p.stack p.pot p.wager p.fold p.acted (combPower p)

/-- settlement.go `CalculateGameResults`: `r := settlement.NewResult()` (pinned), the translated pot
    iteration for every pot, the translated player iteration for every player in seat order,
    `r.Calculate()` and `g.gs.Result = r` (pinned) -/
theorem calculateGameResults_eq (g : Game) :
    g.calculateGameResults =
      (let r0 : Result := {}
       let r1 := g.pots.foldl (fun r p => (calcResultsOnPot p).foldl resPotStep r) r0
       let r2 := g.players.foldl (fun r p => (calcResultsOn p).foldl resStep r) r1
       { g with result := some r2.calculate }) := by
  unfold Game.calculateGameResults gameResults
  simp only [List.foldl_map]
  congr 4
  · funext r p
    cases h : p.fold <;>
      simp [calcResultsOn, Generated.Logic.calcResultsStep, resStep, combPower, h]

/-! ### power.go: `UpdateCombinationOfAllPlayers` -/

/-- closed form of the translated iteration (for any types of symbol, card and score): the power state
    comes from `CalculatePlayerPower(p)`; a player without `Combination` is skipped (nothing assigned);
    otherwise `Type` := the symbol of the category of the power state, `Cards` := a fresh slice holding
    the cards of the power state, `Power` := its score -/
theorem updateCombStep_eq {T C W : Type} (hasComb : Bool) (t t' : T) (c c' : List C) (w w' k : W) :
    Generated.Logic.updateCombStep hasComb t c w t' c' w' k
      = ("CalculatePlayerPower(p)", if hasComb then (t', c', w') else (t, c, w)) := by
  cases hasComb <;> simp [Generated.Logic.updateCombStep]

/-- one translated iteration applied to a player of the model, given the power state `pw` of that player
    (`k`: the category of `pw` as a number, which the iteration may read but does not):
    the three fields of `p.comb` are what the translated body leaves in `p.Combination` -/
def applyCombStep (p : Player) (pw : Power) (k : Nat) : Player :=
  let c := p.comb.getD {}
  let r := Generated.Logic.updateCombStep p.comb.isSome c.cat c.cards c.power (some pw.cat) pw.cards pw.score k
  { p with comb := p.comb.map fun _ => { cat := r.2.1, cards := r.2.2.1, power := r.2.2.2 } }

/-- power.go `UpdateCombinationOfAllPlayers`: for every player the translated iteration on the power state
    `CalculatePlayerPower(p)` (`playerPower`; a player without candidate hand — `powers[0]` panics in Go —
    is left as is); the iteration without `Combination` assigns nothing -/
theorem updateCombinations_eq (g : Game) (k : Nat) :
    (∀ {T C W : Type} (t t' : T) (c c' : List C) (w w' k : W),
      Generated.Logic.updateCombStep false t c w t' c' w' k = ("CalculatePlayerPower(p)", t, c, w)) ∧
    g.updateCombinations = g.mapP fun p =>
      match playerPower g.opts.lvl g.opts.table g.board p.hole g.opts.required with
      | none => p
      | some pw => applyCombStep p pw k := by
  refine ⟨fun _ _ _ _ _ _ _ => rfl, ?_⟩
  unfold Game.updateCombinations
  congr 1
  funext p
  cases hpw : playerPower g.opts.lvl g.opts.table g.board p.hole g.opts.required with
  | none => cases hc : p.comb <;> simp [newComb, hc]
  | some pw =>
    cases hc : p.comb with
    | none => cases p; simp_all [newComb, applyCombStep]
    | some c => simp [newComb, applyCombStep, hc, Generated.Logic.updateCombStep]

/-! ### what the translated definitions compute, on concrete inputs (non-vacuity) -/

example : Generated.Logic.calcResultsStep 2 1000 400 300 60 40 true false 77 = [("AddPlayer", 2, 1000), ("UpdateScore", 2, 0)] := by decide

example : Generated.Logic.calcResultsStep 2 1000 400 300 60 40 false false 77 = [("AddPlayer", 2, 1000), ("UpdateScore", 2, 77)] := by decide

example : Generated.Logic.updatePotsStep 1 1000 400 300 30 20 true false = [("AddContributor", 50, 1, true)] := by decide

example : Generated.Logic.updateCombStep true "" ["S2"] 0 "Pair" ["HA", "SA"] 5 1 = ("CalculatePlayerPower(p)", "Pair", ["HA", "SA"], 5) := by decide

end Pokerface.GeneratedLogic
