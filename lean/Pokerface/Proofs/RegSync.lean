/-
  Specification of `SyncState` (and `breakTable`, `releaseLoop`).
-/
import Pokerface.Proofs.RegDrain

namespace Pokerface
namespace Reg

/-! ### normal form of the table updates made by `SyncState` -/

/-- add `a` to the count and optionally overwrite `Required` -/
def adj (a : Int) (rq : Option Int) (t : RTable) : RTable :=
  { t with count := t.count + a, required := rq.getD t.required }

theorem adj_id (a rq) (t : RTable) : (adj a rq t).id = t.id := rfl
theorem adj_count (a rq) (t : RTable) : (adj a rq t).count = t.count + a := rfl

theorem upd_upd (id : Nat) (f g : RTable → RTable) (ts : List RTable) (hid : ∀ t, (f t).id = t.id) :
    upd id g (upd id f ts) = upd id (g ∘ f) ts := by
  simp only [upd, List.map_map]
  apply List.map_congr_left
  intro t _
  simp only [Function.comp]
  by_cases h : t.id = id
  · simp [h, hid]
  · simp [h]

theorem adj_adj (a1 a2 : Int) (rq1 rq2 : Option Int) :
    adj a2 rq2 ∘ adj a1 rq1 = adj (a1 + a2) (rq2.orElse fun _ => rq1) := by
  funext t
  cases rq2 <;> cases rq1 <;> simp [adj, Function.comp, Int.add_assoc]

theorem upd_congr (id : Nat) (f g : RTable → RTable) (ts : List RTable) (h : ∀ t, f t = g t) :
    upd id f ts = upd id g ts := by
  have : f = g := funext h
  rw [this]

theorem upd_adj_zero (id : Nat) (ts : List RTable) : upd id (adj 0 none) ts = ts := by
  simp only [upd]
  conv => rhs; rw [← List.map_id ts]
  apply List.map_congr_left
  intro t _
  split
  · cases t; simp [adj]
  · rfl

theorem mem_upd' {id : Nat} {f : RTable → RTable} {ts : List RTable} {t' : RTable} (h : t' ∈ upd id f ts) :
    (t' ∈ ts ∧ t'.id ≠ id) ∨ ∃ t ∈ ts, t.id = id ∧ t' = f t := by
  simp only [upd, List.mem_map] at h
  obtain ⟨t, ht, rfl⟩ := h
  split
  · exact Or.inr ⟨t, ht, ‹_›, rfl⟩
  · exact Or.inl ⟨ht, ‹_›⟩

/-- well-formedness after updating the one table `t0` with id `id` -/
theorem WF.upd {r : Reg} (hwf : WF r) {id : Nat} {t0 : RTable} (ht0 : t0 ∈ r.tables) (hid0 : t0.id = id)
    (a : Int) (rq : Option Int) (r' : Reg)
    (hmax : r'.max = r.max) (_hmin : r'.min = r.min) (htc : r'.tableCount = r.tableCount)
    (hnext : r'.nextId = r.nextId) (htab : r'.tables = upd id (adj a rq) r.tables)
    (hb : 0 ≤ (adj a rq t0).count ∧ 0 ≤ (adj a rq t0).required ∧
          (adj a rq t0).count + (adj a rq t0).required ≤ r.max) : WF r' := by
  constructor
  · rw [hmax]; exact hwf.maxpos
  · rw [htc, htab, upd_length]; exact hwf.tc
  · rw [htab, upd_ids _ _ _ (adj_id a rq)]; exact hwf.nodup
  · intro t' ht'
    rw [htab] at ht'; rw [hnext]
    rcases mem_upd ht' with h1 | ⟨t, h, _, rfl⟩
    · exact hwf.idlt t' h1
    · exact hwf.idlt t h
  · intro t' ht'
    rw [htab] at ht'; rw [hmax]
    rcases mem_upd ht' with h1 | ⟨t, h, hidt, rfl⟩
    · exact hwf.bnd t' h1
    · have := eq_of_mem_of_id hwf.nodup h ht0 (hidt.trans hid0.symm)
      subst this; exact hb

theorem sumCount_upd_adj {ts : List RTable} (hn : (ts.map (·.id)).Nodup) {id : Nat}
    (hm : id ∈ ts.map (·.id)) (a : Int) (rq : Option Int) :
    sumCount (upd id (adj a rq) ts) = sumCount ts + a := by
  rw [sumCount_eq, tview_upd id _ ts a (adj_id a rq) (adj_count a rq), sumCount_eq]
  exact sumTV_bump id a _ (by rw [tview_fst]; exact hn) (by rw [tview_fst]; exact hm)

/-! ### breaking a table: removing the entry with a given id -/

theorem tv_filter_spec (tv : List (Nat × Int)) (id : Nat) (c : Int) (hn : (tv.map (·.1)).Nodup)
    (hm : (id, c) ∈ tv) :
    sumTV (tv.filter (fun e => e.1 != id)) = sumTV tv - c ∧
    (tv.filter (fun e => e.1 != id)).length + 1 = tv.length := by
  induction tv with
  | nil => cases hm
  | cons e tv ih =>
    simp only [List.map_cons, List.nodup_cons] at hn
    by_cases he : e.1 = id
    · have hnot : ∀ x ∈ tv, x.1 ≠ id := by
        intro x hx hxe
        exact hn.1 (List.mem_map.2 ⟨x, hx, by rw [hxe, he]⟩)
      have hec : e = (id, c) := by
        rcases List.mem_cons.1 hm with h | h
        · exact h.symm
        · exact absurd rfl (hnot _ h)
      have hfil : tv.filter (fun e => e.1 != id) = tv := by
        rw [List.filter_eq_self]; intro x hx; simpa using hnot x hx
      simp only [List.filter_cons, he, bne_self_eq_false, Bool.false_eq_true, if_false, hfil, sumTV_cons,
        List.length_cons]
      rw [hec]; simp; omega
    · have hm' : (id, c) ∈ tv := by
        rcases List.mem_cons.1 hm with h | h
        · rw [← h] at he; exact absurd rfl he
        · exact h
      obtain ⟨i1, i2⟩ := ih hn.2 hm'
      have : (e.1 != id) = true := by simpa using he
      simp only [List.filter_cons, this, if_true, sumTV_cons, List.length_cons]
      omega

theorem filter_ids_nodup (ts : List RTable) (id : Nat) (hn : (ts.map (·.id)).Nodup) :
    ((ts.filter (fun t => t.id != id)).map (·.id)).Nodup := by
  have : ((ts.filter (fun t => t.id != id)).map (·.id)).Sublist (ts.map (·.id)) :=
    List.Sublist.map _ List.filter_sublist
  exact this.nodup hn

theorem tview_filter (ts : List RTable) (id : Nat) :
    tview (ts.filter (fun t => t.id != id)) = (tview ts).filter (fun e => e.1 != id) := by
  simp only [tview, List.filter_map]
  rfl

theorem breakTable_spec {r : Reg} (hwf : WF r) {id : Nat} {t0 : RTable} (ht0 : t0 ∈ r.tables)
    (hid0 : t0.id = id) :
    WF (r.breakTable id) ∧ (r.breakTable id).findTable id = none ∧
    sumCount (r.breakTable id).tables = sumCount r.tables - t0.count := by
  have hmem : (id, t0.count) ∈ tview r.tables := List.mem_map.2 ⟨t0, ht0, by rw [hid0]⟩
  obtain ⟨h1, h2⟩ := tv_filter_spec (tview r.tables) id t0.count (by rw [tview_fst]; exact hwf.nodup) hmem
  refine ⟨?_, ?_, ?_⟩
  · constructor
    · exact hwf.maxpos
    · simp only [breakTable]
      have : (r.tables.filter (fun t => t.id != id)).length = ((tview r.tables).filter (fun e => e.1 != id)).length := by
        rw [← tview_filter]; simp [tview]
      rw [this]
      have hl : (tview r.tables).length = r.tables.length := by simp [tview]
      have := hwf.tc
      omega
    · exact filter_ids_nodup _ _ hwf.nodup
    · intro t ht
      exact hwf.idlt t (List.mem_filter.1 ht).1
    · intro t ht
      exact hwf.bnd t (List.mem_filter.1 ht).1
  · simp only [breakTable, findTable]
    rw [List.find?_eq_none]
    intro t ht
    have := (List.mem_filter.1 ht).2
    simpa using this
  · simp only [breakTable]
    rw [sumCount_eq, tview_filter, h1, sumCount_eq]

/-! ### releaseLoop -/

theorem releaseLoop_spec (k : Nat) : ∀ (id : Nat) (fl : Int) (r : Reg) (p : Nat),
    ∃ j : Nat, j ≤ k ∧ releaseLoop k id fl r p =
      (p + j, { r with tables := upd id (adj (-(j : Int)) none) r.tables }) := by
  induction k with
  | zero =>
    intro id fl r p
    refine ⟨0, Nat.le_refl _, ?_⟩
    simp only [releaseLoop, Nat.add_zero, Int.natCast_zero, Int.neg_zero, upd_adj_zero]
  | succ n ih =>
    intro id fl r p
    rw [releaseLoop]
    split
    · refine ⟨0, Nat.zero_le _, ?_⟩
      simp only [Nat.add_zero, Int.natCast_zero, Int.neg_zero, upd_adj_zero]
    · obtain ⟨j, hj, he⟩ := ih id fl (r.setTable id fun t => { t with count := t.count - 1 }) (p + 1)
      refine ⟨j + 1, by omega, ?_⟩
      rw [he]
      have hf : (fun t : RTable => { t with count := t.count - 1 }) = adj (-1) none := by
        funext t; simp [adj, Int.sub_eq_add_neg]
      simp only [setTable_eq, hf, upd_upd _ _ _ _ (adj_id (-1) none), adj_adj]
      have : (-1 : Int) + -(j : Int) = -((j + 1 : Nat) : Int) := by omega
      simp only [this, Option.orElse]
      refine Prod.ext (by simp; omega) rfl

/-! ### SyncState -/

theorem sumCount_nonneg (ts : List RTable) (h : ∀ t ∈ ts, 0 ≤ t.count) : 0 ≤ sumCount ts := by
  induction ts with
  | nil => simp [sumCount]
  | cons t ts ih =>
    have h1 := h t (List.mem_cons_self ..)
    have h2 := ih (fun t' ht' => h t' (List.mem_cons_of_mem _ ht'))
    simp only [sumCount, List.map_cons, List.sum_cons] at h2 ⊢
    omega

theorem fun_sub (out : Int) : (fun t : RTable => { t with count := t.count - out }) = adj (-out) none := by
  funext t; simp [adj, Int.sub_eq_add_neg]
theorem fun_req (still : Int) : (fun t : RTable => { t with required := still }) = adj 0 (some still) := by
  funext t; simp [adj]
theorem fun_add (n : Int) : (fun t : RTable => { t with count := t.count + n }) = adj n none := by
  funext t; simp [adj]

theorem take_norm (b : Reg) (id : Nat) (still n : Int) :
    ((if still > 0 then b.setTable id (fun t => { t with required := still }) else b).setTable id
      (fun t => { t with count := t.count + n })) =
    { b with tables := upd id (adj n (if still > 0 then some still else none)) b.tables } := by
  split
  · simp only [setTable_eq, fun_req, fun_add, upd_upd _ _ _ _ (adj_id _ _), adj_adj]
    simp [Option.orElse]
  · simp only [setTable_eq, fun_add]

/-- What `SyncState` does after booking the eliminations, relative to the booked state `b`
    in which table `id` is `tb`. -/
structure SyncPost (b : Reg) (id : Nat) (tb : RTable) (r1 : Reg) (rel : Int) (nw : List Nat) : Prop where
  wf : WF r1
  calls : r1.calls = b.calls
  max_eq : r1.max = b.max
  min_eq : r1.min = b.min
  status_eq : r1.status = b.status
  pc_eq : r1.playerCount = b.playerCount
  next_eq : r1.nextId = b.nextId
  queue : b.queue = nw ++ r1.queue
  rel0 : 0 ≤ rel
  cnt : r1.playerCount = r1.queue.length + sumCount r1.tables + rel
  excl : nw = [] ∨ rel = 0
  cases :
    (r1.findTable id = none ∧ r1.tables = b.tables.filter (fun t => t.id != id) ∧ rel = tb.count ∧ nw = []) ∨
    (∃ a rq, r1.tables = upd id (adj a rq) b.tables ∧ a = (nw.length : Int) - rel ∧
      rel ≤ tb.count + nw.length ∧ (rel = 0 → Q b → Q r1))

theorem sync_break {b : Reg} (hwf : WF b) (hcnt : b.playerCount = b.queue.length + sumCount b.tables)
    {id : Nat} {tb : RTable} (htb : tb ∈ b.tables) (hid : tb.id = id) :
    SyncPost b id tb (b.breakTable id) tb.count [] := by
  obtain ⟨h1, h2, h3⟩ := breakTable_spec hwf htb hid
  refine ⟨h1, rfl, rfl, rfl, rfl, rfl, rfl, rfl, (hwf.bnd tb htb).1, ?_, Or.inl rfl, Or.inl ⟨h2, rfl, rfl, rfl⟩⟩
  rw [h3]
  show b.playerCount = _
  rw [hcnt]
  show _ = (b.queue.length : Int) + _ + _
  omega

theorem sync_same {b : Reg} (hwf : WF b) (hcnt : b.playerCount = b.queue.length + sumCount b.tables)
    {id : Nat} {tb : RTable} (htb : tb ∈ b.tables) :
    SyncPost b id tb b 0 [] := by
  refine ⟨hwf, rfl, rfl, rfl, rfl, rfl, rfl, rfl, Int.le_refl _, by omega, Or.inl rfl, Or.inr ⟨0, none, ?_, rfl, ?_, fun _ h => h⟩⟩
  · rw [upd_adj_zero]
  · have := (hwf.bnd tb htb).1; simp; omega

theorem sync_take {b : Reg} (hwf : WF b) (hcnt : b.playerCount = b.queue.length + sumCount b.tables)
    (hq : Q b) {id : Nat} {tb : RTable} (htb : tb ∈ b.tables) (hid : tb.id = id) (fl : Int)
    (hfl : fl ≤ b.max) (hge : tb.count ≤ fl) :
    SyncPost b id tb
      { b with queue := b.queue.drop (fl - tb.count).toNat,
               tables := upd id (adj ((b.queue.take (fl - tb.count).toNat).length : Int)
                  (if fl - tb.count - ((b.queue.take (fl - tb.count).toNat).length : Int) > 0
                   then some (fl - tb.count - ((b.queue.take (fl - tb.count).toNat).length : Int)) else none)) b.tables }
      0 (b.queue.take (fl - tb.count).toNat) := by
  have hbt := hwf.bnd tb htb
  have hlen : ((b.queue.take (fl - tb.count).toNat).length : Int) ≤ fl - tb.count := by
    rw [List.length_take]; omega
  have hidm : id ∈ b.tables.map (·.id) := List.mem_map.2 ⟨tb, htb, hid⟩
  refine ⟨?_, rfl, rfl, rfl, rfl, rfl, rfl, ?_, Int.le_refl _, ?_, Or.inr rfl, Or.inr ⟨_, _, rfl, by omega, by omega, ?_⟩⟩
  · refine hwf.upd htb hid _ _ _ rfl rfl rfl rfl rfl ?_
    simp only [adj]
    split
    · simp only [Option.getD_some]; omega
    · rename_i hst
      simp only [Option.getD_none]
      by_cases hqe : b.queue = []
      · simp only [hqe, List.take_nil, List.length_nil]; omega
      · have := hq hqe tb htb
        omega
  · simp only [List.take_append_drop]
  · simp only
    rw [sumCount_upd_adj hwf.nodup hidm, hcnt]
    have : b.queue.length = (b.queue.take (fl - tb.count).toNat).length + (b.queue.drop (fl - tb.count).toNat).length := by
      rw [← List.length_append, List.take_append_drop]
    omega
  · intro _ hqb hne t ht
    simp only at hne ht
    have hne0 : b.queue ≠ [] := by intro h; rw [h] at hne; simp at hne
    have hlt : (fl - tb.count).toNat < b.queue.length := by
      have : 0 < (b.queue.drop (fl - tb.count).toNat).length := List.length_pos_iff.2 hne
      rw [List.length_drop] at this; omega
    have hfull : ((b.queue.take (fl - tb.count).toNat).length : Int) = fl - tb.count := by
      rw [List.length_take]; omega
    rcases mem_upd ht with h | ⟨t', ht', _, rfl⟩
    · exact hqb hne0 t h
    · have := hqb hne0 t' ht'
      simp only [adj, hfull]
      simp; exact this

theorem sync_release {b : Reg} (hwf : WF b) (hcnt : b.playerCount = b.queue.length + sumCount b.tables)
    {id : Nat} {tb : RTable} (htb : tb ∈ b.tables) (hid : tb.id = id) (fl : Int) (hfl0 : 0 ≤ fl) :
    SyncPost b id tb (releaseLoop (tb.count - fl).toNat id fl b 0).2
      (releaseLoop (tb.count - fl).toNat id fl b 0).1 [] := by
  obtain ⟨j, hj, he⟩ := releaseLoop_spec (tb.count - fl).toNat id fl b 0
  rw [he]
  have hbt := hwf.bnd tb htb
  have hidm : id ∈ b.tables.map (·.id) := List.mem_map.2 ⟨tb, htb, hid⟩
  refine ⟨?_, rfl, rfl, rfl, rfl, rfl, rfl, rfl, by simp, ?_, Or.inl rfl, Or.inr ⟨_, _, rfl, by simp, by simp; omega, ?_⟩⟩
  · refine hwf.upd htb hid _ _ _ rfl rfl rfl rfl rfl ?_
    simp only [adj, Option.getD_none]
    omega
  · simp only
    rw [sumCount_upd_adj hwf.nodup hidm, hcnt]
    omega
  · intro hj0 hqb
    simp only [Nat.zero_add, Int.natCast_eq_zero] at hj0
    subst hj0
    simp only [Int.natCast_zero, Int.neg_zero, upd_adj_zero]
    exact hqb

/-- the state after `SyncState` has booked the eliminations -/
def syncBase (r : Reg) (id : Nat) (out : Int) : Reg :=
  ({ (r.beginOp []) with playerCount := r.playerCount - out }).setTable id
    fun t => { t with count := t.count - out }

theorem syncState_eq (r : Reg) (id : Nat) (out : Int) : r.syncState id out =
    match r.findTable id with
    | none => (r.beginOp [], some .notFoundTable, 0, [])
    | some t0 =>
      let b := syncBase r id out
      let tc := t0.count - out
      let req := b.requiredTables
      if b.status = .afterRegDeadline ∧ b.playerCount ≤ (b.max : Int) ∧ req < b.tableCount then
        (b.breakTable id, none, tc, [])
      else if req ≤ 0 then (b, none, 0, [])
      else
        let fl := b.playerCount / req
        if tc * req < b.playerCount then
          if b.lowWaterLevelTableCount ≥ 2 ∧ req < b.tableCount then (b.breakTable id, none, tc, [])
          else
            let players := b.queue.take (fl - tc).toNat
            let still := fl - tc - players.length
            ((if still > 0 then ({ b with queue := b.queue.drop (fl - tc).toNat }).setTable id
                  fun t => { t with required := still }
              else { b with queue := b.queue.drop (fl - tc).toNat }).setTable id
                fun t => { t with count := t.count + players.length },
              none, 0, players)
        else if tc * req > b.playerCount then
          ((releaseLoop (tc - fl).toNat id fl b 0).2, none, (releaseLoop (tc - fl).toNat id fl b 0).1, [])
        else (b, none, 0, []) := by
  rfl

theorem syncBase_tables (r : Reg) (id : Nat) (out : Int) :
    (syncBase r id out).tables = upd id (adj (-out) none) r.tables := by
  simp only [syncBase, setTable_eq, fun_sub, beginOp]

structure BaseFacts (r : Reg) (id : Nat) (out : Int) (t0 : RTable) : Prop where
  wf : WF (syncBase r id out)
  cnt : (syncBase r id out).playerCount = (syncBase r id out).queue.length + sumCount (syncBase r id out).tables
  q : Q (syncBase r id out)
  mem : adj (-out) none t0 ∈ (syncBase r id out).tables

theorem syncBase_facts (r : Reg) (id : Nat) (out : Int) (t0 : RTable) (hwf : WF r) (hq : Q r)
    (hcnt : r.playerCount = r.queue.length + sumCount r.tables)
    (hf : r.findTable id = some t0) (ho : out ≤ t0.count) (ho0 : 0 ≤ out) : BaseFacts r id out t0 := by
  obtain ⟨ht0, hid0⟩ := findTable_some hf
  have hbt := hwf.bnd t0 ht0
  have hidm : id ∈ r.tables.map (·.id) := List.mem_map.2 ⟨t0, ht0, hid0⟩
  refine ⟨?_, ?_, ?_, ?_⟩
  · refine hwf.upd ht0 hid0 (-out) none _ rfl rfl rfl rfl (syncBase_tables r id out) ?_
    simp only [adj, Option.getD_none]; omega
  · rw [syncBase_tables, sumCount_upd_adj hwf.nodup hidm]
    show r.playerCount - out = (r.queue.length : Int) + _
    omega
  · intro hne t ht
    rw [syncBase_tables] at ht
    have hne0 : r.queue ≠ [] := hne
    rcases mem_upd ht with h | ⟨t', ht', _, rfl⟩
    · exact hq hne0 t h
    · exact hq hne0 t' ht'
  · rw [syncBase_tables]
    simp only [upd, List.mem_map]
    exact ⟨t0, ht0, by simp [hid0]⟩

/-- `SyncState` on a known table, in terms of the booked state. -/
theorem syncState_spec (r : Reg) (id : Nat) (out : Int) (t0 : RTable) (hwf : WF r) (hq : Q r)
    (hcnt : r.playerCount = r.queue.length + sumCount r.tables)
    (hf : r.findTable id = some t0) (ho0 : 0 ≤ out) (ho : out ≤ t0.count) :
    ∃ r1 rel nw, r.syncState id out = (r1, none, rel, nw) ∧
      SyncPost (syncBase r id out) id (adj (-out) none t0) r1 rel nw := by
  obtain ⟨bwf, bcnt, bq, bmem⟩ := syncBase_facts r id out t0 hwf hq hcnt hf ho ho0
  have hid0 := (findTable_some hf).2
  have hidb : (adj (-out) none t0).id = id := hid0
  have htc : (adj (-out) none t0).count = t0.count - out := by simp [adj, Int.sub_eq_add_neg]
  rw [syncState_eq, hf]
  simp only
  generalize syncBase r id out = b at *
  have hmaxpos : 0 < b.max := bwf.maxpos
  rw [← htc]
  generalize adj (-out) none t0 = tb at *
  split
  · exact ⟨_, _, _, rfl, sync_break bwf bcnt bmem hidb⟩
  · split
    · exact ⟨_, _, _, rfl, sync_same bwf bcnt bmem⟩
    · rename_i hreq
      have hreq' : 0 < b.requiredTables := by omega
      have hle : b.playerCount ≤ b.requiredTables * (b.max : Int) := le_ceilDiv_mul b.playerCount b.max hmaxpos
      split
      · rename_i hlow
        split
        · exact ⟨_, _, _, rfl, sync_break bwf bcnt bmem hidb⟩
        · refine ⟨_, _, _, rfl, ?_⟩
          rw [take_norm]
          exact sync_take bwf bcnt bq bmem hidb _ (floor_le_max hreq' hle) (le_floor_of_mul_lt hreq' hlow)
      · split
        · refine ⟨_, _, _, rfl, ?_⟩
          have hpc0 : 0 ≤ b.playerCount := by
            rw [bcnt]
            have : 0 ≤ sumCount b.tables := sumCount_nonneg _ (fun t ht => (bwf.bnd t ht).1)
            omega
          exact sync_release bwf bcnt bmem hidb _ (floor_nonneg hpc0 hreq')
        · exact ⟨_, _, _, rfl, sync_same bwf bcnt bmem⟩

end Reg
end Pokerface
