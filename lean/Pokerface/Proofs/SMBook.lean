/-
  Bookkeeping over histories: counts of successful joins/leaves, pids, "held out until seated".
-/
import Pokerface.Proofs.SMJoin

namespace Pokerface
namespace SM

/-! ### counting successful joins and leaves along a history -/

def isJoin : SMOp → Bool
  | .join _ _ _ => true
  | _ => false

def isLeave : SMOp → Bool
  | .leave _ => true
  | _ => false

/-- Number of `join` operations of `ops` that succeed (return no error) when `ops` is run from `sm`. -/
def joinsOK : SM → List SMOp → Nat
  | _, [] => 0
  | sm, op :: ops =>
    (if isJoin op = true ∧ (sm.step op).2.1 = none then 1 else 0) + joinsOK (sm.step op).1 ops

/-- Number of `leave` operations of `ops` that succeed when `ops` is run from `sm`. -/
def leavesOK : SM → List SMOp → Nat
  | _, [] => 0
  | sm, op :: ops =>
    (if isLeave op = true ∧ (sm.step op).2.1 = none then 1 else 0) + leavesOK (sm.step op).1 ops

theorem step_playerCount {sm : SM} (h : Inv sm) (op : SMOp) :
    (sm.step op).1.playerCount + (if isLeave op = true ∧ (sm.step op).2.1 = none then 1 else 0) =
      sm.playerCount + (if isJoin op = true ∧ (sm.step op).2.1 = none then 1 else 0) := by
  cases op with
  | join seat pid chose =>
    rcases step_join_cases sm seat pid chose with ⟨e, he⟩ | ⟨i, s, hs, hp, _, he⟩
    · rw [he]; simp [isJoin, isLeave]
    · rw [he]
      have := playerCount_setSeat { s with reserved := true, player := some pid } hs
      simp [hp] at this
      simp [isJoin, isLeave, this]
  | seat id =>
    rcases step_seat_cases sm id with ⟨_, he⟩ | ⟨i, _, _, he⟩
    · rw [he]; simp [isJoin, isLeave]
    · rw [he]; simp [isJoin, isLeave]; exact playerCount_modSeat_same _ _ _ (fun _ => rfl)
  | reserve id =>
    rcases step_reserve_cases sm id with ⟨_, he⟩ | ⟨i, _, _, he⟩
    · rw [he]; simp [isJoin, isLeave]
    · rw [he]; simp [isJoin, isLeave]; exact playerCount_modSeat_same _ _ _ (fun _ => rfl)
  | leave id =>
    rcases step_leave_cases sm id with ⟨e, he⟩ | ⟨i, s, _, hs, hp, he⟩
    · rw [he]; simp [isJoin, isLeave]
    · rw [he]
      have := playerCount_setSeat { s with player := none, reserved := false } hs
      simp [hp] at this
      simp [isJoin, isLeave]; omega
  | next =>
    have := (next_samePlayers h).playerCount
    simp [isJoin, isLeave, this]

theorem run_cons (sm : SM) (op : SMOp) (ops : List SMOp) : sm.run (op :: ops) = (sm.step op).1.run ops := rfl

theorem run_playerCount {sm : SM} (h : Inv sm) (ops : List SMOp) :
    (sm.run ops).playerCount + leavesOK sm ops = sm.playerCount + joinsOK sm ops := by
  induction ops generalizing sm with
  | nil => simp [run, joinsOK, leavesOK]
  | cons op ops ih =>
    have h1 := ih (step_inv h op)
    have h2 := step_playerCount h op
    rw [run_cons]
    simp only [joinsOK, leavesOK]
    omega

theorem playerCount_new (max : Nat) : (SM.new max).playerCount = 0 := by
  simp [SM.new, playerCount]

/-! ### pids -/

/-- The player id sitting at seat `i`, if any. -/
def pidAt (sm : SM) (i : Nat) : Option Nat := (sm.seats[i]?).bind (·.player)

/-- The pids of the `join` operations of a history, in order. -/
def joinPids : List SMOp → List Nat
  | [] => []
  | .join _ pid _ :: ops => pid :: joinPids ops
  | _ :: ops => joinPids ops

theorem pidAt_setSeat {sm : SM} {i : Nat} {s : Seat} (s' : Seat) (h : sm.seats[i]? = some s) (j : Nat) :
    (sm.setSeat i s').pidAt j = if i = j then s'.player else sm.pidAt j := by
  unfold pidAt
  rw [setSeat_seats]
  have hl := (List.getElem?_eq_some_iff.mp h).1
  by_cases hij : i = j
  · subst hij; simp [hl]
  · simp [hij]

theorem pidAt_modSeat_same (sm : SM) (i : Nat) (f : Seat → Seat) (hf : ∀ s, (f s).player = s.player) (j : Nat) :
    (sm.modSeat i f).pidAt j = sm.pidAt j := by
  unfold pidAt
  rw [modSeat_seats]
  split
  · cases sm.seats[j]? <;> simp [hf]
  · rfl

theorem SamePlayers.pidAt {sm sm' : SM} (h : SamePlayers sm sm') (j : Nat) : sm'.pidAt j = sm.pidAt j := by
  have := h.seat j
  unfold SM.pidAt
  cases h1 : sm.seats[j]? <;> cases h2 : sm'.seats[j]? <;> simp [h1, h2, core] at this ⊢
  exact this.1

/-- Effect of one operation on who sits where. -/
theorem step_pid_cases {sm : SM} (h : Inv sm) (op : SMOp) :
    (∀ j, (sm.step op).1.pidAt j = sm.pidAt j) ∨
    (∃ i, (sm.step op).1.pidAt i = none ∧ ∀ j, j ≠ i → (sm.step op).1.pidAt j = sm.pidAt j) ∨
    (∃ i seat pid c, op = .join seat pid c ∧ sm.pidAt i = none ∧ (sm.step op).1.pidAt i = some pid ∧
      ∀ j, j ≠ i → (sm.step op).1.pidAt j = sm.pidAt j) := by
  cases op with
  | join seat pid chose =>
    rcases step_join_cases sm seat pid chose with ⟨e, he⟩ | ⟨i, s, hs, hp, _, he⟩
    · left; rw [he]; intro j; rfl
    · right; right
      refine ⟨i, seat, pid, chose, rfl, by simp [pidAt, hs, hp], ?_, ?_⟩
      · rw [he]; simp [pidAt_setSeat _ hs]
      · intro j hj; rw [he]
        have : ¬ i = j := fun h => hj h.symm
        simp [pidAt_setSeat _ hs, this]
  | seat id =>
    left
    rcases step_seat_cases sm id with ⟨_, he⟩ | ⟨i, _, _, he⟩
    · rw [he]; intro j; rfl
    · rw [he]; intro j; exact pidAt_modSeat_same sm i (fun s => { s with reserved := false }) (fun _ => rfl) j
  | reserve id =>
    left
    rcases step_reserve_cases sm id with ⟨_, he⟩ | ⟨i, _, _, he⟩
    · rw [he]; intro j; rfl
    · rw [he]; intro j; exact pidAt_modSeat_same sm i (fun s => { s with reserved := true }) (fun _ => rfl) j
  | leave id =>
    rcases step_leave_cases sm id with ⟨e, he⟩ | ⟨i, s, _, hs, hp, he⟩
    · left; rw [he]; intro j; rfl
    · right; left
      refine ⟨i, ?_, ?_⟩
      · rw [he]; simp [pidAt_setSeat _ hs]
      · intro j hj; rw [he]
        have : ¬ i = j := fun h => hj h.symm
        simp [pidAt_setSeat _ hs, this]
  | next =>
    left; exact (next_samePlayers h).pidAt

/-- No pid sits on two seats. -/
def NoDoubleBooking (sm : SM) : Prop :=
  ∀ i j p, sm.pidAt i = some p → sm.pidAt j = some p → i = j

theorem run_noDoubleBooking {sm : SM} (h : Inv sm) (ops : List SMOp)
    (hnd : NoDoubleBooking sm) (hfresh : ∀ i p, sm.pidAt i = some p → p ∉ joinPids ops)
    (hops : (joinPids ops).Nodup) : NoDoubleBooking (sm.run ops) := by
  induction ops generalizing sm with
  | nil => exact hnd
  | cons op ops ih =>
    rw [run_cons]
    have hinv := step_inv h op
    rcases step_pid_cases h op with hA | ⟨i, hi, hB⟩ | ⟨i, seat, pid, c, rfl, hi0, hi1, hC⟩
    · apply ih hinv
      · intro a b p ha hb; rw [hA] at ha hb; exact hnd a b p ha hb
      · intro a p ha; rw [hA] at ha
        have := hfresh a p ha
        cases op <;> simp [joinPids] at this ⊢ <;> tauto
      · cases op <;> simp [joinPids] at hops ⊢ <;> tauto
    · apply ih hinv
      · intro a b p ha hb
        by_cases ha' : a = i
        · subst ha'; rw [hi] at ha; cases ha
        · by_cases hb' : b = i
          · subst hb'; rw [hi] at hb; cases hb
          · rw [hB a ha'] at ha; rw [hB b hb'] at hb; exact hnd a b p ha hb
      · intro a p ha
        by_cases ha' : a = i
        · subst ha'; rw [hi] at ha; cases ha
        · rw [hB a ha'] at ha
          have := hfresh a p ha
          cases op <;> simp [joinPids] at this ⊢ <;> tauto
      · cases op <;> simp [joinPids] at hops ⊢ <;> tauto
    · simp only [joinPids, List.nodup_cons] at hops
      have hfr : ∀ a p, sm.pidAt a = some p → p ≠ pid ∧ p ∉ joinPids ops := by
        intro a p ha
        have := hfresh a p ha
        simpa [joinPids] using this
      apply ih hinv
      · intro a b p ha hb
        by_cases ha' : a = i
        · by_cases hb' : b = i
          · rw [ha', hb']
          · subst ha'; rw [hi1] at ha; cases ha
            rw [hC b hb'] at hb
            exact absurd rfl (hfr b _ hb).1
        · by_cases hb' : b = i
          · subst hb'; rw [hi1] at hb; cases hb
            rw [hC a ha'] at ha
            exact absurd rfl (hfr a _ ha).1
          · rw [hC a ha'] at ha; rw [hC b hb'] at hb; exact hnd a b p ha hb
      · intro a p ha
        by_cases ha' : a = i
        · subst ha'; rw [hi1] at ha; cases ha; exact hops.1
        · rw [hC a ha'] at ha; exact (hfr a p ha).2
      · exact hops.2

theorem pidAt_new (max i : Nat) : (SM.new max).pidAt i = none := by
  unfold pidAt SM.new
  simp only [List.getElem?_replicate]
  split <;> simp

/-! ### held out of play until seated -/

/-- Seat `i` cannot be dealt in: it is reserved or empty (or does not exist). -/
def Held (sm : SM) (i : Nat) : Prop := ∀ s, sm.seats[i]? = some s → s.reserved = true ∨ s.player = none

theorem Held.not_playable {sm : SM} {i : Nat} (h : Held sm i) : sm.playable i = false := by
  unfold playable
  cases hs : sm.seats[i]? with
  | none => rfl
  | some s =>
    rcases h s hs with h' | h' <;> simp [h']

theorem step_held {sm : SM} (hinv : Inv sm) {i : Nat} (h : Held sm i) (op : SMOp) (hop : op ≠ .seat (i : Int)) :
    Held (sm.step op).1 i := by
  cases op with
  | join seat pid chose =>
    rcases step_join_cases sm seat pid chose with ⟨e, he⟩ | ⟨k, s, hs, hp, _, he⟩
    · rw [he]; exact h
    · rw [he]; intro s' hs'
      rw [setSeat_seats] at hs'
      split at hs'
      · split at hs'
        · cases hs'; left; rfl
        · cases hs'
      · exact h s' hs'
  | seat id =>
    rcases step_seat_cases sm id with ⟨_, he⟩ | ⟨k, hk, _, he⟩
    · rw [he]; exact h
    · rw [he]; intro s' hs'
      rw [modSeat_seats] at hs'
      have : ¬ k = i := by rintro rfl; exact hop (by rw [hk])
      rw [if_neg this] at hs'
      exact h s' hs'
  | reserve id =>
    rcases step_reserve_cases sm id with ⟨_, he⟩ | ⟨k, hk, _, he⟩
    · rw [he]; exact h
    · rw [he]; intro s' hs'
      rw [modSeat_seats] at hs'
      split at hs'
      · cases hq : sm.seats[i]? with
        | none => rw [hq] at hs'; cases hs'
        | some q => rw [hq] at hs'; simp at hs'; subst hs'; left; rfl
      · exact h s' hs'
  | leave id =>
    rcases step_leave_cases sm id with ⟨e, he⟩ | ⟨k, s, _, hs, hp, he⟩
    · rw [he]; exact h
    · rw [he]; intro s' hs'
      rw [setSeat_seats] at hs'
      split at hs'
      · split at hs'
        · cases hs'; right; rfl
        · cases hs'
      · exact h s' hs'
  | next =>
    have := (next_samePlayers hinv).seat i
    intro s' hs'
    rw [hs'] at this
    cases hq : sm.seats[i]? with
    | none => rw [hq] at this; cases this
    | some q =>
      rw [hq] at this
      simp [core] at this
      rcases h q hq with h' | h'
      · left; rw [this.2, h']
      · right; rw [this.1, h']

theorem run_held {sm : SM} (hinv : Inv sm) {i : Nat} (h : Held sm i) (ops : List SMOp)
    (hops : ∀ op ∈ ops, op ≠ .seat (i : Int)) : Held (sm.run ops) i := by
  induction ops generalizing sm with
  | nil => exact h
  | cons op ops ih =>
    rw [run_cons]
    exact ih (step_inv hinv op) (step_held hinv h op (hops op (by simp))) (fun o ho => hops o (by simp [ho]))

end SM
end Pokerface
