import Pokerface.Proofs.PotsMerge
/-
  Structure of `potsOf entries` (helper lemmas for C16 / C02).
-/
namespace Pokerface

/-! ### integer sums -/

theorem perm_sum_int {l₁ l₂ : List Int} (h : l₁.Perm l₂) : l₁.sum = l₂.sum := by
  induction h with
  | nil => rfl
  | cons x _ ih => simp [ih]
  | swap x y l => simp only [List.sum_cons]; omega
  | trans _ _ ih1 ih2 => exact ih1.trans ih2

theorem sum_map_add {α : Type} (l : List α) (f g : α → Int) :
    (l.map f).sum + (l.map g).sum = (l.map (fun x => f x + g x)).sum := by
  induction l with
  | nil => rfl
  | cons x xs ih => simp only [List.map_cons, List.sum_cons, ← ih]; omega

theorem length_filter_mul {α : Type} (l : List α) (p : α → Bool) (d : Int) :
    ((l.filter p).length : Int) * d = (l.map (fun x => if p x then d else 0)).sum := by
  induction l with
  | nil => simp
  | cons x xs ih =>
    simp only [List.filter_cons, List.map_cons, List.sum_cons, ← ih]
    cases p x <;> simp [Int.add_mul]; omega

/-! ### `mkLevelsFrom` -/

/-- Last element of `X`, or `p` when `X` is empty. -/
def lastD (p : Int) (X : List Int) : Int := X.getLast?.getD p

@[simp] theorem lastD_nil (p : Int) : lastD p [] = p := rfl
@[simp] theorem lastD_cons (p L : Int) (X : List Int) : lastD p (L :: X) = lastD L X := by
  simp [lastD, List.getLast?_cons]

theorem lastD_append (p : Int) (X Y : List Int) : lastD p (X ++ Y) = lastD (lastD p X) Y := by
  induction X generalizing p with
  | nil => rfl
  | cons x xs ih => simp [ih]

theorem lastD_of_getLast? {p : Int} {X : List Int} {a : Int} (h : X.getLast? = some a) : lastD p X = a := by
  simp [lastD, h]

theorem mkLevelsFrom_length (c : List (Nat × Int)) (p : Int) (X : List Int) :
    (mkLevelsFrom c p X).length = X.length := by
  have := congrArg List.length (mkLevelsFrom_level c p X)
  simpa using this

theorem mkLevelsFrom_append (c : List (Nat × Int)) (p : Int) (X Y : List Int) :
    mkLevelsFrom c p (X ++ Y) = mkLevelsFrom c p X ++ mkLevelsFrom c (lastD p X) Y := by
  induction X generalizing p with
  | nil => rfl
  | cons x xs ih => simp [mkLevelsFrom, ih]

theorem mkLevelsFrom_wager_sum (c : List (Nat × Int)) (p : Int) (X : List Int) :
    ((mkLevelsFrom c p X).map (·.wager)).sum = lastD p X - p := by
  induction X generalizing p with
  | nil => simp [mkLevelsFrom]
  | cons x xs ih => simp only [mkLevelsFrom, List.map_cons, List.sum_cons, ih, lastD_cons]; omega

theorem mkLevelsFrom_contributors (c : List (Nat × Int)) (p : Int) (X : List Int) :
    ∀ l ∈ mkLevelsFrom c p X, l.contributors = contribsAt c l.level := by
  induction X generalizing p with
  | nil => simp [mkLevelsFrom]
  | cons x xs ih =>
    intro l hl
    simp only [mkLevelsFrom, List.mem_cons] at hl
    rcases hl with rfl | hl
    · rfl
    · exact ih _ l hl

theorem contribsAt_sorted {c : List (Nat × Int)} (h : KeysSorted c) (L : Int) :
    (contribsAt c L).Pairwise (· < ·) := by
  unfold contribsAt
  rw [List.pairwise_map]
  exact h.sublist List.filter_sublist

theorem contribsAt_sublist (c : List (Nat × Int)) {L₁ L₂ : Int} (h : L₁ ≤ L₂) :
    (contribsAt c L₂).Sublist (contribsAt c L₁) := by
  unfold contribsAt
  apply List.Sublist.map
  have : c.filter (fun kv => decide (L₂ ≤ kv.2))
      = (c.filter (fun kv => decide (L₁ ≤ kv.2))).filter (fun kv => decide (L₂ ≤ kv.2)) := by
    rw [List.filter_filter]
    apply List.filter_congr
    intro a _
    by_cases h2 : L₂ ≤ a.2
    · have : L₁ ≤ a.2 := by omega
      simp [h2, this]
    · simp [h2]
  rw [this]
  exact List.filter_sublist

theorem mem_contribsAt {c : List (Nat × Int)} {L : Int} {i : Nat} :
    i ∈ contribsAt c L ↔ ∃ v, (i, v) ∈ c ∧ L ≤ v := by
  simp only [contribsAt, List.mem_map, List.mem_filter, decide_eq_true_eq]
  constructor
  · rintro ⟨⟨k, v⟩, ⟨h1, h2⟩, rfl⟩; exact ⟨v, h1, h2⟩
  · rintro ⟨v, h1, h2⟩; exact ⟨(i, v), ⟨h1, h2⟩, rfl⟩

/-- Sum of the level totals = what everybody put in between `p` and the last level, provided every
    contribution is at most `p`, one of the level values, or at least all of them. -/
theorem mkLevelsFrom_total_sum (c : List (Nat × Int)) (p : Int) (X : List Int)
    (hp : ∀ x ∈ X, p ≤ x) (hs : X.Pairwise (· < ·))
    (hgap : ∀ kv ∈ c, kv.2 ≤ p ∨ kv.2 ∈ X ∨ ∀ x ∈ X, x ≤ kv.2) :
    ((mkLevelsFrom c p X).map (·.total)).sum = (c.map (fun kv => min kv.2 (lastD p X) - min kv.2 p)).sum := by
  induction X generalizing p with
  | nil =>
    simp only [mkLevelsFrom, List.map_nil, List.sum_nil, lastD_nil, Int.sub_self]
    induction c with
    | nil => rfl
    | cons _ _ ih => simp [← ih]
  | cons L X ih =>
    simp only [List.pairwise_cons] at hs
    have hpL : p ≤ L := hp L (by simp)
    have ih' := ih L (fun x hx => by have := hs.1 x hx; omega) hs.2 (by
      intro kv hkv
      rcases hgap kv hkv with h | h | h
      · left; omega
      · simp only [List.mem_cons] at h
        rcases h with h | h
        · left; omega
        · right; left; exact h
      · right; right; intro x hx; exact h x (by simp [hx]))
    simp only [mkLevelsFrom, List.map_cons, List.sum_cons, ih', lastD_cons]
    have hhead : ((contribsAt c L).length : Int) * (L - p) = (c.map (fun kv => min kv.2 L - min kv.2 p)).sum := by
      unfold contribsAt
      rw [List.length_map, length_filter_mul]
      congr 1
      apply List.map_congr_left
      intro kv hkv
      simp only [decide_eq_true_eq]
      rcases hgap kv hkv with h | h | h
      · split <;> omega
      · simp only [List.mem_cons] at h
        rcases h with h | h
        · split <;> omega
        · have := hs.1 _ h; split <;> omega
      · have := h L (by simp); split <;> omega
    rw [hhead, sum_map_add]
    congr 1
    apply List.map_congr_left
    intro kv _
    omega

/-- A segment of `mkLevelsFrom c 0 Ls` is itself of that form. -/
theorem mkLevelsFrom_segment (c : List (Nat × Int)) (Ls : List Int) (A S B : List Level)
    (h : mkLevelsFrom c 0 Ls = A ++ S ++ B) :
    Ls = A.map (·.level) ++ S.map (·.level) ++ B.map (·.level) ∧
    S = mkLevelsFrom c (lastD 0 (A.map (·.level))) (S.map (·.level)) := by
  have hL : Ls = A.map (·.level) ++ S.map (·.level) ++ B.map (·.level) := by
    have := congrArg (List.map (·.level)) h
    rw [mkLevelsFrom_level] at this
    simpa using this
  refine ⟨hL, ?_⟩
  rw [hL, mkLevelsFrom_append, mkLevelsFrom_append] at h
  have h1 := (List.append_inj' h (by simp [mkLevelsFrom_length])).1
  have h2 := (List.append_inj' h1 (by simp [mkLevelsFrom_length])).2
  exact h2.symm

/-- Wagers of the levels up to `v` add up to `v` (when `v` respects the gaps of the level values). -/
theorem mkLevelsFrom_wager_sum_upto (c : List (Nat × Int)) (p : Int) (X : List Int) (v : Int)
    (hp : ∀ x ∈ X, p ≤ x) (hs : X.Pairwise (· < ·))
    (hgap : v ≤ p ∨ v ∈ X ∨ ∀ x ∈ X, x ≤ v) :
    ((mkLevelsFrom c p X).map (fun l => if l.level ≤ v then l.wager else 0)).sum
      = min v (lastD p X) - min v p := by
  induction X generalizing p with
  | nil => simp [mkLevelsFrom]
  | cons L X ih =>
    simp only [List.pairwise_cons] at hs
    have hpL : p ≤ L := hp L (by simp)
    have ih' := ih L (fun x hx => by have := hs.1 x hx; omega) hs.2 (by
      rcases hgap with h | h | h
      · left; omega
      · simp only [List.mem_cons] at h
        rcases h with h | h
        · left; omega
        · right; left; exact h
      · right; right; intro x hx; exact h x (by simp [hx]))
    simp only [mkLevelsFrom, List.map_cons, List.sum_cons, ih', lastD_cons]
    rcases hgap with h | h | h
    · split <;> omega
    · simp only [List.mem_cons] at h
      rcases h with h | h
      · split <;> omega
      · have := hs.1 _ h; split <;> omega
    · have := h L (by simp); split <;> omega

/-- Wagers of the levels up to `v` add up to at most `v - p`, for any `v ≥ p`. -/
theorem mkLevelsFrom_wager_sum_upto_le (c : List (Nat × Int)) (p : Int) (X : List Int) (v : Int)
    (hp : ∀ x ∈ X, p ≤ x) (hs : X.Pairwise (· < ·)) :
    ((mkLevelsFrom c p X).map (fun l => if l.level ≤ v then l.wager else 0)).sum ≤ max (v - p) 0 := by
  induction X generalizing p with
  | nil => simp [mkLevelsFrom]; omega
  | cons L X ih =>
    simp only [List.pairwise_cons] at hs
    have hpL : p ≤ L := hp L (by simp)
    have ih' := ih L (fun x hx => by have := hs.1 x hx; omega) hs.2
    simp only [mkLevelsFrom, List.map_cons, List.sum_cons]
    split <;> omega

/-- Totals of the levels up to `v`: what everybody put in up to `min v cᵢ`. -/
theorem mkLevelsFrom_total_sum_upto (c : List (Nat × Int)) (p : Int) (X : List Int) (v : Int)
    (hp : ∀ x ∈ X, p ≤ x) (hs : X.Pairwise (· < ·))
    (hgap : ∀ kv ∈ c, min v kv.2 ≤ p ∨ min v kv.2 ∈ X ∨ ∀ x ∈ X, x ≤ min v kv.2) :
    ((mkLevelsFrom c p X).map (fun l => if l.level ≤ v then l.total else 0)).sum
      = (c.map (fun kv => min (min v kv.2) (lastD p X) - min (min v kv.2) p)).sum := by
  induction X generalizing p with
  | nil =>
    simp only [mkLevelsFrom, List.map_nil, List.sum_nil, lastD_nil, Int.sub_self]
    induction c with
    | nil => rfl
    | cons _ _ ih => simp [← ih]
  | cons L X ih =>
    simp only [List.pairwise_cons] at hs
    have hpL : p ≤ L := hp L (by simp)
    have ih' := ih L (fun x hx => by have := hs.1 x hx; omega) hs.2 (by
      intro kv hkv
      rcases hgap kv hkv with h | h | h
      · left; omega
      · simp only [List.mem_cons] at h
        rcases h with h | h
        · left; omega
        · right; left; exact h
      · right; right; intro x hx; exact h x (by simp [hx]))
    simp only [mkLevelsFrom, List.map_cons, List.sum_cons, ih', lastD_cons]
    have hhead : (if L ≤ v then ((contribsAt c L).length : Int) * (L - p) else 0)
        = (c.map (fun kv => min (min v kv.2) L - min (min v kv.2) p)).sum := by
      split
      · rename_i hLv
        unfold contribsAt
        rw [List.length_map, length_filter_mul]
        congr 1
        apply List.map_congr_left
        intro kv hkv
        simp only [decide_eq_true_eq]
        rcases hgap kv hkv with h | h | h
        · split <;> omega
        · simp only [List.mem_cons] at h
          rcases h with h | h
          · split <;> omega
          · have := hs.1 _ h; split <;> omega
        · have := h L (by simp); split <;> omega
      · rename_i hLv
        have : ∀ kv ∈ c, min (min v kv.2) L - min (min v kv.2) p = 0 := by
          intro kv hkv
          rcases hgap kv hkv with h | h | h
          · omega
          · simp only [List.mem_cons] at h
            rcases h with h | h
            · omega
            · have := hs.1 _ h; omega
          · have := h L (by simp); omega
        rw [List.map_congr_left this]
        clear this ih ih' hgap
        induction c with
        | nil => rfl
        | cons _ _ ih => simp [← ih]
    rw [hhead, sum_map_add]
    congr 1
    apply List.map_congr_left
    intro kv _
    omega

/-- Every level of `mkLevelsFrom` has a non-negative wager and total = count × wager. -/
theorem mkLevelsFrom_level_facts (c : List (Nat × Int)) (p : Int) (X : List Int)
    (hp : ∀ x ∈ X, p ≤ x) (hs : X.Pairwise (· < ·)) :
    ∀ l ∈ mkLevelsFrom c p X, 0 ≤ l.wager ∧ l.total = (l.contributors.length : Int) * l.wager := by
  induction X generalizing p with
  | nil => simp [mkLevelsFrom]
  | cons L X ih =>
    simp only [List.pairwise_cons] at hs
    intro l hl
    simp only [mkLevelsFrom, List.mem_cons] at hl
    rcases hl with rfl | hl
    · have := hp L (by simp)
      exact ⟨by simp only; omega, rfl⟩
    · exact ih L (fun x hx => by have := hs.1 x hx; omega) hs.2 l hl

/-! ### `getPots` -/

/-- The `(idx, stake)` pairs of the folded players, ascending idx. -/
def foldedStakes (ll : LevelList) : List (Nat × Int) :=
  ll.folded.map (fun idx => (idx, (assocGet? ll.contribs idx).getD 0))

/-- The pots before the folded players are put back. -/
def mergedPots (ll : LevelList) : List Pot := mergePots none [] (ll.levels.map (origPot ll.folded))

theorem getPots_eq (ll : LevelList) : ll.getPots = putAll (foldedStakes ll) (mergedPots ll) := by
  simp only [LevelList.getPots, putAll, foldedStakes, mergedPots, List.foldl_map]

theorem mergedPots_spec {ll : LevelList} (h : LLInv ll) :
    (∀ q ∈ mergedPots ll, GoodPot ll.folded q) ∧
    (mergedPots ll).flatMap (·.levels) = ll.levels ∧
    (mergedPots ll).Pairwise (fun a b => b.contributors.length < a.contributors.length) := by
  unfold mergedPots
  cases hl : ll.levels with
  | nil => simp [mergePots]
  | cons l rest =>
    simp only [List.map_cons, mergePots_none_cons]
    have hcon : ∀ x ∈ ll.levels, x.contributors = contribsAt ll.contribs x.level := by
      rw [h.levels]; exact mkLevelsFrom_contributors _ _ _
    have hch : (l :: rest).Pairwise (fun a b => b.contributors.Sublist a.contributors) := by
      rw [← hl]
      have hs := h.sorted
      rw [List.pairwise_map] at hs
      refine List.Pairwise.imp_of_mem ?_ hs
      intro a b ha hb hab
      rw [hcon a ha, hcon b hb]
      exact contribsAt_sublist _ (by omega)
    have hs : ∀ x ∈ l :: rest, x.contributors.Pairwise (· < ·) := by
      intro x hx
      rw [← hl] at hx
      rw [hcon x hx]
      exact contribsAt_sorted h.contribs _
    have := merge1_spec ll.folded rest (origPot ll.folded l) (goodPot_origPot _ _)
      (by simpa [origPot] using hch) (by simpa [origPot] using hs)
    obtain ⟨h1, h2, h3, _⟩ := this
    exact ⟨h1, by simpa [origPot] using h2, h3⟩

/-- Pot at position `k` of the published list in terms of the merged list. -/
theorem getPots_split {ll : LevelList} {pre post : List Pot} {p : Pot} (h : ll.getPots = pre ++ p :: post) :
    ∃ preM q postM, mergedPots ll = preM ++ q :: postM ∧ preM.length = pre.length ∧
      preM.map (fun p => (p.level, p.wager, p.total, p.levels)) = pre.map (fun p => (p.level, p.wager, p.total, p.levels)) ∧
      p = { q with contributors := putContribs (foldedStakes ll) (pre.map (·.level)) q.contributors } := by
  rw [getPots_eq] at h
  have hk := putAll_getElem? (foldedStakes ll) (mergedPots ll) pre.length
  rw [h] at hk
  simp only [List.getElem?_append_right (Nat.le_refl _), Nat.sub_self, List.getElem?_cons_zero] at hk
  cases hq : (mergedPots ll)[pre.length]? with
  | none => rw [hq] at hk; simp at hk
  | some q =>
    rw [hq] at hk
    simp only [Option.map_some, Option.some.injEq] at hk
    have hlt : pre.length < (mergedPots ll).length := by
      rcases List.getElem?_eq_some_iff.1 hq with ⟨hlt, _⟩; exact hlt
    have hf := putAll_fields (foldedStakes ll) (mergedPots ll)
    rw [h] at hf
    have hf2 := congrArg (List.take pre.length) hf
    simp only [List.map_append, List.map_cons] at hf2
    rw [List.take_left' (by simp), ← List.map_take] at hf2
    have hsplit : mergedPots ll = (mergedPots ll).take pre.length ++ q :: (mergedPots ll).drop (pre.length + 1) := by
      have h1 := List.take_append_drop pre.length (mergedPots ll)
      have h2 : (mergedPots ll).drop pre.length = q :: (mergedPots ll).drop (pre.length + 1) := by
        rw [List.drop_eq_getElem_cons hlt]
        congr 1
        rw [List.getElem?_eq_getElem hlt] at hq
        exact Option.some.inj hq
      rw [← h2, h1]
    refine ⟨(mergedPots ll).take pre.length, q, (mergedPots ll).drop (pre.length + 1), hsplit, ?_, hf2.symm, ?_⟩
    · simp; omega
    · rw [hk]
      have : ((mergedPots ll).take pre.length).map (·.level) = pre.map (·.level) := by
        have := congrArg (List.map (fun x : Int × Int × Int × List Level => x.1)) hf2
        simpa [List.map_map, Function.comp_def] using this.symm
      rw [this]

end Pokerface
