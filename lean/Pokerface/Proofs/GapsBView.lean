import Pokerface.Proofs.View
import Pokerface.Proofs.CardsOps
import Pokerface.Proofs.GapsBComb
/-
  C15: a hidden card occurs in NO card field of a view (helper lemmas for
  `hidden_card_nowhere_in_view` of Properties/C15.lean).

  Three ingredients:
   * the cards invariant `CCore` (C14): hole cards, board, burned cards and the undealt rest of
     the deck are pairwise disjoint — so a hidden card is on no public place;
   * the reported combination of a player consists of that player's own hole cards and board
     cards only (`CombOwn`, Proofs/GapsBComb.lean: on all histories, for every rule);
   * the redaction functions are `Game.blank (Hidden g v)` (Proofs/View.lean).
-/
namespace Pokerface
open Game

/- `Card` derives `BEq` and `DecidableEq` separately (Model/Cards.lean); membership in a list of
    cards is decidable (for the `by decide` examples of C15) once the derived `BEq` is known lawful. -/
deriving instance ReflBEq, LawfulBEq for Card

/-! ### where the cards are -/

theorem mem_streetCards (B F : List Card)
    (hl : (B.length = 0 ∧ F.length = 0) ∨ (B.length = 1 ∧ F.length = 3) ∨ (B.length = 2 ∧ F.length = 4) ∨
          (B.length = 3 ∧ F.length = 5)) (x : Card) : x ∈ streetCards B F ↔ x ∈ F ∨ x ∈ B := by
  rcases hl with ⟨hB, hF⟩ | ⟨hB, hF⟩ | ⟨hB, hF⟩ | ⟨hB, hF⟩
  · rcases B with _ | ⟨b, B⟩ <;> simp at hB
    rcases F with _ | ⟨f, F⟩ <;> simp at hF
    simp [streetCards]
  · rcases B with _ | ⟨b, _ | ⟨b2, B⟩⟩ <;> simp at hB
    rcases F with _ | ⟨f1, _ | ⟨f2, _ | ⟨f3, _ | ⟨f4, F⟩⟩⟩⟩ <;> simp at hF
    simp only [streetCards, List.take, List.drop, List.mem_cons, List.mem_append, List.not_mem_nil]
    grind
  · rcases B with _ | ⟨b, _ | ⟨b2, _ | ⟨b3, B⟩⟩⟩ <;> simp at hB
    rcases F with _ | ⟨f1, _ | ⟨f2, _ | ⟨f3, _ | ⟨f4, _ | ⟨f5, F⟩⟩⟩⟩⟩ <;> simp at hF
    simp only [streetCards, List.take, List.drop, List.mem_cons, List.mem_append, List.not_mem_nil]
    grind
  · rcases B with _ | ⟨b, _ | ⟨b2, _ | ⟨b3, _ | ⟨b4, B⟩⟩⟩⟩ <;> simp at hB
    rcases F with _ | ⟨f1, _ | ⟨f2, _ | ⟨f3, _ | ⟨f4, _ | ⟨f5, _ | ⟨f6, F⟩⟩⟩⟩⟩⟩ <;> simp at hF
    simp only [streetCards, List.take, List.drop, List.mem_cons, List.mem_append, List.not_mem_nil]
    grind

theorem CCore.round_lengths {g : Game} (hc : CCore g) :
    (g.burned.length = 0 ∧ g.board.length = 0) ∨ (g.burned.length = 1 ∧ g.board.length = 3) ∨
    (g.burned.length = 2 ∧ g.board.length = 4) ∨ (g.burned.length = 3 ∧ g.board.length = 5) := by
  rw [hc.board, hc.burned]; exact round_counts g.round

/-- a card is among the dealt cards iff it is a hole card, on the board, or burned -/
theorem CCore.mem_dealt {g : Game} (hc : CCore g) (x : Card) :
    x ∈ g.dealtCards ↔ x ∈ g.holeCards ∨ x ∈ g.board ∨ x ∈ g.burned := by
  simp only [Game.dealtCards, List.mem_append, mem_streetCards _ _ hc.round_lengths]

/-- C14 `no_duplicates` from the invariant -/
theorem CCore.nodup_places {g : Game} (hc : CCore g) : (g.holeCards ++ g.board ++ g.burned).Nodup := by
  apply nodup_rearrange
  · exact hc.round_lengths
  · have := hc.pref
    unfold Game.dealtCards at this
    rw [this]
    exact hc.nodup.sublist (List.take_sublist _ _)

/-- C14 `dealt_not_undealt` from the invariant -/
theorem CCore.dealt_not_undealt {g : Game} (hc : CCore g) :
    ∀ c ∈ g.dealtCards, c ∉ g.opts.deck.drop g.deckPos := by
  have hn := hc.nodup
  rw [← List.take_append_drop g.deckPos g.opts.deck, List.nodup_append] at hn
  intro c hcm hcd
  rw [hc.pref] at hcm
  exact hn.2.2 c hcm c hcd rfl

theorem mem_holeCards {g : Game} {p : Player} (hp : p ∈ g.players) {x : Card} (hx : x ∈ p.hole) : x ∈ g.holeCards :=
  List.mem_flatMap.mpr ⟨p, hp, hx⟩

/-- two different records of the player list share no hole card -/
theorem CCore.holes_disjoint {g : Game} (hc : CCore g) {p q : Player} (hp : p ∈ g.players) (hq : q ∈ g.players)
    (hne : p ≠ q) {x : Card} (hxp : x ∈ p.hole) : x ∉ q.hole := by
  have hn := hc.nodup_places
  rw [List.nodup_append] at hn
  have hn1 := hn.1
  rw [List.nodup_append] at hn1
  have hpw := ((List.pairwise_flatMap (R := (· ≠ ·))).mp hn1.1).2
  obtain ⟨i, hi, rfl⟩ := List.mem_iff_getElem.mp hp
  obtain ⟨j, hj, rfl⟩ := List.mem_iff_getElem.mp hq
  have hij : i ≠ j := fun e => hne (by subst e; rfl)
  intro hxq
  rcases Nat.lt_or_gt_of_ne hij with h | h
  · exact (List.pairwise_iff_getElem.mp hpw i j hi hj h) x hxp x hxq rfl
  · exact (List.pairwise_iff_getElem.mp hpw j i hj hi h) x hxq x hxp rfl

/-- **A hidden card is on no public place.**  In a state satisfying the cards invariant, a card
    that is in the undealt rest of the deck, or burned, or a hole card of a player whose record
    must be hidden from `v`, is not on the board and is not a hole card of any player whose
    record need not be hidden from `v`. -/
theorem hidden_not_public {g : Game} (hc : CCore g) (v : Viewer) (c : Card)
    (h : c ∈ g.opts.deck.drop g.deckPos ∨ c ∈ g.burned ∨ ∃ p ∈ g.players, Hidden g v p ∧ c ∈ p.hole) :
    c ∉ g.board ∧ ∀ q ∈ g.players, ¬ Hidden g v q → c ∉ q.hole := by
  have hn := hc.nodup_places
  rw [List.nodup_append] at hn
  obtain ⟨hn1, _, hx⟩ := hn
  rw [List.nodup_append] at hn1
  obtain ⟨_, _, hy⟩ := hn1
  rcases h with h | h | ⟨p, hp, hh, hcp⟩
  · refine ⟨fun hb => ?_, fun q hq _ hcq => ?_⟩
    · exact hc.dealt_not_undealt c ((hc.mem_dealt c).mpr (Or.inr (Or.inl hb))) h
    · exact hc.dealt_not_undealt c ((hc.mem_dealt c).mpr (Or.inl (mem_holeCards hq hcq))) h
  · refine ⟨fun hb => ?_, fun q hq _ hcq => ?_⟩
    · exact hx c (List.mem_append_right _ hb) c h rfl
    · exact hx c (List.mem_append_left _ (mem_holeCards hq hcq)) c h rfl
  · refine ⟨fun hb => ?_, fun q hq hnq hcq => ?_⟩
    · exact hy c (mem_holeCards hp hcp) c hb rfl
    · have hne : p ≠ q := fun e => hnq (e ▸ hh)
      exact hc.holes_disjoint hp hq hne hcp hcq

/-! ### the view -/

/-- **No hidden card anywhere in a redacted state.**  `g` satisfies the cards invariant and every
    reported combination consists of own hole cards and board cards.  Then a card hidden from `v`
    occurs in no card-valued field of `g.blank (Hidden g v)`: not in the deck list, not among the
    burned cards, not on the board, in nobody's hole cards and in nobody's reported combination. -/
theorem hidden_nowhere_in_blank {g : Game} (hc : CCore g)
    (hown : CombOwn g)
    (v : Viewer) (c : Card)
    (h : c ∈ g.opts.deck.drop g.deckPos ∨ c ∈ g.burned ∨ ∃ p ∈ g.players, Hidden g v p ∧ c ∈ p.hole) :
    c ∉ (g.blank (Hidden g v)).opts.deck ∧ c ∉ (g.blank (Hidden g v)).burned ∧
    c ∉ (g.blank (Hidden g v)).board ∧
    ∀ q ∈ (g.blank (Hidden g v)).players, c ∉ q.hole ∧ ∀ cb, q.comb = some cb → c ∉ cb.cards := by
  obtain ⟨hboard, hholes⟩ := hidden_not_public hc v c h
  refine ⟨List.not_mem_nil, List.not_mem_nil, hboard, ?_⟩
  intro q hq
  simp only [Game.blank, List.mem_map] at hq
  obtain ⟨p, hp, rfl⟩ := hq
  by_cases hh : Hidden g v p
  · simp only [hh, if_true]
    exact ⟨List.not_mem_nil, fun cb hcb => by cases hcb⟩
  · simp only [hh, if_false]
    refine ⟨hholes p hp hh, fun cb hcb hx => ?_⟩
    rcases hown p hp cb hcb c hx with h1 | h1
    · exact hholes p hp hh h1
    · exact hboard h1

end Pokerface
