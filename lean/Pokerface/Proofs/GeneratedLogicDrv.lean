import Pokerface.Model.TableDriver
import Pokerface.Generated.LogicDrv
import Pokerface.Proofs.GeneratedLogicBase
/-
  K1, translated logic (the table's driver of a hand): table/game.go (`handleState` with its three loops over the
  players and the callbacks of the ready group, `updateState`, `Close`, `Start`, the shortcuts `ReadyForAll`, `PayAnte`,
  `PayBlinds` and the nine wrappers `Ready, Pass, Pay, Fold, Check, Call, Allin, Bet, Raise`), translated by
  `harness/cmd/genlogic` (Generated/LogicDrv.lean, regenerated on every run).

  Two kinds of theorems:
  * `…_prog`: the translated function is a REFERENCE PROGRAM (`DrvRef.*`) for ALL types and ALL primitives (`isNilS`,
    `getPlayer`, `hasAction`, `backendCall`, `updateState`, `rgReady`, …): by parametricity this pins the term — which
    state the backend is called on, the name of the method, the name of the action tested, the order of the tests;
  * `…_eq`: with the primitives read on the model (`DrvM.*`) the translated function IS the corresponding part of
    `Model/TableDriver.lean`: `Drv.call d (.act i a x)` / `Drv.call d (.ready i)` for the wrappers, `Drv.callBackend d
    (Drv.fireOp f)` for the shortcuts, `Drv.startD` for `Start`, and `Drv.update` for `updateState` followed by
    `handleState` — the model composes the two, so `drvUpdateState_eq` states `Drv.update (n+1)` as the translated
    `updateState` followed, for the state it queued, by the reading `handleInterp` of the step list of the translated
    `handleState` (`drvHandleState_eq`: that reading is the branch of `Drv.update`); a step list the model never
    produces reads as `none`, so a reordered, dropped or added step breaks the equality.

  This file imports only the model and the generated file (and the event strings): its obligations do not depend on
  those of other areas.
-/
set_option linter.unusedSimpArgs false
set_option linter.unusedVariables false
namespace Pokerface.GeneratedLogic
open Pokerface Drv
open Pokerface.Generated.Logic

/-! ### reference programs over uninterpreted primitives -/

namespace DrvRef
variable {S P G E : Type}

/-- `gs, err := g.backend.<op>(held, args…)`, the error returned, else `g.updateState(gs)` -/
def callThenUpdate (backendCall : String → S → List Int → S × Option E) (updateState : S → G → G)
    (op : String) (args : List Int) (held : S) (g : G) : G × Option E :=
  match backendCall op held args with
  | (_, some e) => (g, some e)
  | (s, none) => (updateState s g, none)

theorem callThenUpdate_eq (backendCall : String → S → List Int → S × Option E) (updateState : S → G → G)
    (op : String) (args : List Int) (held : S) (g : G) :
    callThenUpdate backendCall updateState op args held g =
      if (backendCall op held args).2.isSome then (g, (backendCall op held args).2) else (updateState (backendCall op held args).1 g, none) := by
  unfold callThenUpdate
  rcases backendCall op held args with ⟨s, _ | e⟩ <;> rfl

/-- `Pass, Fold, Check, Call, Allin, Bet, Raise` -/
def wrapper (e1 e2 e3 : E) (isNilS : S → Bool) (getPlayer : S → Int → P) (isNilP : P → Bool) (hasAction : S → Int → String → Bool)
    (backendCall : String → S → List Int → S × Option E) (updateState : S → G → G) (held : S) (g0 : G) (i : Int)
    (action op : String) (args : List Int) : G × Option E :=
  if isNilS held then (g0, some e1)
  else if isNilP (getPlayer held i) then (g0, some e2)
  else if !hasAction held i action then (g0, some e3)
  else callThenUpdate backendCall updateState op args held g0

/-- `Pay`: at `AnteRequested` / `BlindsRequested` the payment is a `Ready` of the ready group -/
def pay (e1 e2 e3 : E) (isNilS : S → Bool) (getPlayer : S → Int → P) (isNilP : P → Bool) (hasAction : S → Int → String → Bool)
    (eventOf : S → String) (rgReady : Int → G → G)
    (backendCall : String → S → List Int → S × Option E) (updateState : S → G → G) (held : S) (g0 : G) (i : Int) (chips : Int) : G × Option E :=
  if isNilS held then (g0, some e1)
  else if isNilP (getPlayer held i) then (g0, some e2)
  else if !hasAction held i "pay" then (g0, some e3)
  else if eventOf held == "AnteRequested" || eventOf held == "BlindsRequested" then (rgReady i g0, none)
  else callThenUpdate backendCall updateState "Pay" [chips] held g0

/-- `Ready` -/
def ready (e1 e2 e3 : E) (isNilS : S → Bool) (getPlayer : S → Int → P) (isNilP : P → Bool) (hasAction : S → Int → String → Bool)
    (rgIsNil : G → Bool) (rgReady : Int → G → G) (held : S) (g0 : G) (i : Int) : G × Option E :=
  if isNilS held then (g0, some e1)
  else if isNilP (getPlayer held i) then (g0, some e2)
  else if !hasAction held i "ready" || rgIsNil g0 then (g0, some e3)
  else (rgReady i g0, none)

/-- `ReadyForAll`, `PayAnte` (with the nil test), `PayBlinds` (without) -/
def shortcut (e1 : E) (isNilS : S → Bool) (nilTest : Bool) (backendCall : String → S → List Int → S × Option E) (updateState : S → G → G)
    (op : String) (held : S) (g0 : G) : G × Option E :=
  if nilTest && isNilS held then (g0, some e1)
  else callThenUpdate backendCall updateState op [] held g0

end DrvRef

section prog
variable {S P G E : Type} (e1 e2 e3 : E) (isNilS : S → Bool) (getPlayer : S → Int → P) (nilP : P) (isNilP : P → Bool)
  (hasAction : S → Int → String → Bool) (eventOf : S → String) (rgIsNil : G → Bool) (rgReady : Int → G → G)
  (backendCall : String → S → List Int → S × Option E) (updateState : S → G → G) (held : S) (g0 : G) (i x : Int)

local macro "wrapper_tac" f:ident : tactic =>
  `(tactic| (unfold $f DrvRef.wrapper; rw [DrvRef.callThenUpdate_eq]; try rfl))

theorem drvWrapperPass_prog : drvWrapperPass e1 e2 e3 isNilS getPlayer nilP isNilP hasAction eventOf rgIsNil rgReady backendCall updateState held g0 i
    = DrvRef.wrapper e1 e2 e3 isNilS getPlayer isNilP hasAction backendCall updateState held g0 i "pass" "Pass" [] := by
  wrapper_tac drvWrapperPass

theorem drvWrapperFold_prog : drvWrapperFold e1 e2 e3 isNilS getPlayer nilP isNilP hasAction eventOf rgIsNil rgReady backendCall updateState held g0 i
    = DrvRef.wrapper e1 e2 e3 isNilS getPlayer isNilP hasAction backendCall updateState held g0 i "fold" "Fold" [] := by
  wrapper_tac drvWrapperFold

theorem drvWrapperCheck_prog : drvWrapperCheck e1 e2 e3 isNilS getPlayer nilP isNilP hasAction eventOf rgIsNil rgReady backendCall updateState held g0 i
    = DrvRef.wrapper e1 e2 e3 isNilS getPlayer isNilP hasAction backendCall updateState held g0 i "check" "Check" [] := by
  wrapper_tac drvWrapperCheck

theorem drvWrapperCall_prog : drvWrapperCall e1 e2 e3 isNilS getPlayer nilP isNilP hasAction eventOf rgIsNil rgReady backendCall updateState held g0 i
    = DrvRef.wrapper e1 e2 e3 isNilS getPlayer isNilP hasAction backendCall updateState held g0 i "call" "Call" [] := by
  wrapper_tac drvWrapperCall

theorem drvWrapperAllin_prog : drvWrapperAllin e1 e2 e3 isNilS getPlayer nilP isNilP hasAction eventOf rgIsNil rgReady backendCall updateState held g0 i
    = DrvRef.wrapper e1 e2 e3 isNilS getPlayer isNilP hasAction backendCall updateState held g0 i "allin" "Allin" [] := by
  wrapper_tac drvWrapperAllin

theorem drvWrapperBet_prog : drvWrapperBet e1 e2 e3 isNilS getPlayer nilP isNilP hasAction eventOf rgIsNil rgReady backendCall updateState held g0 i x
    = DrvRef.wrapper e1 e2 e3 isNilS getPlayer isNilP hasAction backendCall updateState held g0 i "bet" "Bet" [x] := by
  wrapper_tac drvWrapperBet

theorem drvWrapperRaise_prog : drvWrapperRaise e1 e2 e3 isNilS getPlayer nilP isNilP hasAction eventOf rgIsNil rgReady backendCall updateState held g0 i x
    = DrvRef.wrapper e1 e2 e3 isNilS getPlayer isNilP hasAction backendCall updateState held g0 i "raise" "Raise" [x] := by
  wrapper_tac drvWrapperRaise

theorem drvWrapperPay_prog : drvWrapperPay e1 e2 e3 isNilS getPlayer nilP isNilP hasAction eventOf rgIsNil rgReady backendCall updateState held g0 i x
    = DrvRef.pay e1 e2 e3 isNilS getPlayer isNilP hasAction eventOf rgReady backendCall updateState held g0 i x := by
  unfold drvWrapperPay DrvRef.pay; rw [DrvRef.callThenUpdate_eq]; dsimp only
  by_cases ha : (eventOf held == "AnteRequested") = true <;> by_cases hb : (eventOf held == "BlindsRequested") = true <;> simp [ha, hb]

theorem drvWrapperReady_prog : drvWrapperReady e1 e2 e3 isNilS getPlayer nilP isNilP hasAction eventOf rgIsNil rgReady backendCall updateState held g0 i
    = DrvRef.ready e1 e2 e3 isNilS getPlayer isNilP hasAction rgIsNil rgReady held g0 i := by
  unfold drvWrapperReady DrvRef.ready; rfl

local macro "shortcut_tac" f:ident : tactic =>
  `(tactic| (unfold $f DrvRef.shortcut; rw [DrvRef.callThenUpdate_eq]; try simp only [Bool.true_and, Bool.false_and, Bool.false_eq_true, if_false]; try rfl))

theorem drvReadyForAll_prog : drvReadyForAll e1 e2 e3 isNilS getPlayer nilP isNilP hasAction eventOf rgIsNil rgReady backendCall updateState held g0
    = DrvRef.shortcut e1 isNilS true backendCall updateState "ReadyForAll" held g0 := by
  shortcut_tac drvReadyForAll

theorem drvPayAnte_prog : drvPayAnte e1 e2 e3 isNilS getPlayer nilP isNilP hasAction eventOf rgIsNil rgReady backendCall updateState held g0
    = DrvRef.shortcut e1 isNilS true backendCall updateState "PayAnte" held g0 := by
  shortcut_tac drvPayAnte

theorem drvPayBlinds_prog : drvPayBlinds e1 e2 e3 isNilS getPlayer nilP isNilP hasAction eventOf rgIsNil rgReady backendCall updateState held g0
    = DrvRef.shortcut e1 isNilS false backendCall updateState "PayBlinds" held g0 := by
  shortcut_tac drvPayBlinds

end prog

/-- `Start`: the updater is started FIRST (`createGame` sees the driver it is called on), the game is created from the driver's options, an error is returned, else `updateState` -/
theorem drvStart_prog {S O G E : Type} (runStateUpdater : G → G) (createGame : O → G → S × Option E) (updateState : S → G → G) (opts : O) (g0 : G) :
    drvStart runStateUpdater createGame updateState opts g0 =
      match createGame opts (runStateUpdater g0) with
      | (_, some e) => (runStateUpdater g0, some e)
      | (s, none) => (updateState s (runStateUpdater g0), none) := by
  unfold drvStart; dsimp only
  rcases createGame opts (runStateUpdater g0) with ⟨s, _ | e⟩ <;> rfl

/-- `updateState`: the CLONE becomes the held state, and is queued unless the driver is closed -/
theorem drvUpdateState_prog {S : Type} (cloneState : S → S) (closed : Bool) (gs0 : S) (queue0 : List S) (gs : S) :
    drvUpdateState cloneState closed gs0 queue0 gs = (cloneState gs, if closed then queue0 else queue0 ++ [cloneState gs]) := by
  unfold drvUpdateState; cases closed <;> rfl

/-- `Close`: closed afterwards; the channel is closed once -/
theorem drvClose_eq (closed : Bool) : drvClose closed = (true, if closed then [] else ["close(incomingStates)"]) := by
  cases closed <;> rfl

/-! ### the primitives on the model -/

namespace DrvM

/-- what a wrapper tests: the held engine state with the driver's "ready" marks (in Go both live in `AllowedActions`) -/
abbrev St := Game × List Nat

def held (d : D) : St := (d.gs, d.readyMarks)

def actOfName : String → Option Act
  | "pass" => some .pass | "pay" => some .pay | "fold" => some .fold | "check" => some .check
  | "call" => some .call | "allin" => some .allin | "bet" => some .bet | "raise" => some .raise
  | _ => none

/-- `gs.HasAction(idx, name)` -/
def hasAction (s : St) (i : Int) (name : String) : Bool :=
  if name = "ready" then s.2.contains i.toNat
  else match actOfName name with
    | some a => s.1.allows i.toNat a
    | none => false

/-- a method of the backend, by its name -/
def opOf : String → List Int → Option Op
  | "Next", [] => some .next
  | "ReadyForAll", [] => some .ready
  | "PayAnte", [] => some .payAnte
  | "PayBlinds", [] => some .payBlinds
  | "Pass", [] => some (.act none .pass 0)
  | "Fold", [] => some (.act none .fold 0)
  | "Check", [] => some (.act none .check 0)
  | "Call", [] => some (.act none .call 0)
  | "Allin", [] => some (.act none .allin 0)
  | "Pay", [x] => some (.act none .pay x)
  | "Bet", [x] => some (.act none .bet x)
  | "Raise", [x] => some (.act none .raise x)
  | _, _ => none

/-- `g.backend.<name>(state, args…)` -/
def backendCall (name : String) (s : St) (args : List Int) : St × Option DErr :=
  match opOf name args with
  | none => (s, some .invalidAction)          -- not a method of the backend
  | some op =>
    match backend s.1 op with
    | .ok s' => ((s', []), none)
    | .error e => (s, some (.engine e))

/-- `g.updateState(gs)` (and the `handleState` of the clone it queued) -/
def updateState (s : St) (d : D) : D := update fuel d s.1

/-- `gs.GetPlayer(idx) == nil` -/
def noPlayer (s : St) (i : Int) : Bool := decide (s.1.players.length ≤ i.toNat)

def eventOf (s : St) : String := evString s.1.event

/-- `g.rg.Ready(id)` -/
def rgReady (i : Int) (d : D) : D := groupReady d i.toNat

end DrvM

theorem DrvM.callThenUpdate_model (d : D) (opn : String) (args : List Int) (op : Op) (h : DrvM.opOf opn args = some op) :
    DrvRef.callThenUpdate DrvM.backendCall DrvM.updateState opn args (DrvM.held d) d = callBackend d op := by
  unfold DrvRef.callThenUpdate DrvM.backendCall callBackend DrvM.updateState DrvM.held
  simp only [h]
  cases backend d.gs op <;> rfl

/-- an amount is not read by the operations that have none -/
theorem DrvM.callBackend_noAmount (d : D) (a : Act) (x : Int) (h : a = .pass ∨ a = .fold ∨ a = .check ∨ a = .call ∨ a = .allin) :
    callBackend d (.act none a x) = callBackend d (.act none a 0) := by
  rcases h with h | h | h | h | h <;> subst h <;> rfl

theorem DrvM.wrapper_model (d : D) (i : Nat) (a : Act) (x : Int) (name opn : String) (args : List Int)
    (hname : DrvM.actOfName name = some a) (hne : name ≠ "ready") (hop : DrvM.opOf opn args = some (.act none a x)) (hpay : a ≠ .pay) :
    DrvRef.wrapper DErr.noRunningGame DErr.playerNotInGame DErr.invalidAction (fun _ => false) DrvM.noPlayer id DrvM.hasAction
      DrvM.backendCall DrvM.updateState (DrvM.held d) d (i : Int) name opn args = call d (.act i a x) := by
  unfold DrvRef.wrapper call
  rw [DrvM.callThenUpdate_model d opn args _ hop]
  by_cases hl : d.gs.players.length ≤ i <;> simp [DrvM.noPlayer, DrvM.hasAction, DrvM.held, hname, hne, hpay, Drv.hasAction, hl]

/-! ### the wrappers on the model -/

section model
variable (d : D) (i : Nat) (x : Int)

local notation "RUN" f => f DErr.noRunningGame DErr.playerNotInGame DErr.invalidAction (fun _ => false) DrvM.noPlayer false id DrvM.hasAction
  DrvM.eventOf (fun _ => false) DrvM.rgReady DrvM.backendCall DrvM.updateState (DrvM.held d) d

/-- `Pass`: tests "pass" on the held state, calls `backend.Pass` on the held state, error passed through, else `updateState` -/
theorem drvWrapperPass_eq : (RUN drvWrapperPass) (i : Int) = call d (.act i .pass x) := by
  rw [drvWrapperPass_prog, DrvM.wrapper_model d i .pass 0 "pass" "Pass" [] rfl (by decide) rfl (by decide)]
  simp only [call, DrvM.callBackend_noAmount d .pass x (by simp)]

theorem drvWrapperFold_eq : (RUN drvWrapperFold) (i : Int) = call d (.act i .fold x) := by
  rw [drvWrapperFold_prog, DrvM.wrapper_model d i .fold 0 "fold" "Fold" [] rfl (by decide) rfl (by decide)]
  simp only [call, DrvM.callBackend_noAmount d .fold x (by simp)]

theorem drvWrapperCheck_eq : (RUN drvWrapperCheck) (i : Int) = call d (.act i .check x) := by
  rw [drvWrapperCheck_prog, DrvM.wrapper_model d i .check 0 "check" "Check" [] rfl (by decide) rfl (by decide)]
  simp only [call, DrvM.callBackend_noAmount d .check x (by simp)]

theorem drvWrapperCall_eq : (RUN drvWrapperCall) (i : Int) = call d (.act i .call x) := by
  rw [drvWrapperCall_prog, DrvM.wrapper_model d i .call 0 "call" "Call" [] rfl (by decide) rfl (by decide)]
  simp only [call, DrvM.callBackend_noAmount d .call x (by simp)]

theorem drvWrapperAllin_eq : (RUN drvWrapperAllin) (i : Int) = call d (.act i .allin x) := by
  rw [drvWrapperAllin_prog, DrvM.wrapper_model d i .allin 0 "allin" "Allin" [] rfl (by decide) rfl (by decide)]
  simp only [call, DrvM.callBackend_noAmount d .allin x (by simp)]

theorem drvWrapperBet_eq : (RUN drvWrapperBet) (i : Int) x = call d (.act i .bet x) := by
  rw [drvWrapperBet_prog, DrvM.wrapper_model d i .bet x "bet" "Bet" [x] rfl (by decide) rfl (by decide)]

theorem drvWrapperRaise_eq : (RUN drvWrapperRaise) (i : Int) x = call d (.act i .raise x) := by
  rw [drvWrapperRaise_prog, DrvM.wrapper_model d i .raise x "raise" "Raise" [x] rfl (by decide) rfl (by decide)]

/-- `Pay`: at `AnteRequested` / `BlindsRequested` (the `fallthrough`) a `Ready` of the ready group, else `backend.Pay` -/
theorem drvPay_eq : (RUN drvWrapperPay) (i : Int) x = call d (.act i .pay x) := by
  rw [drvWrapperPay_prog]
  unfold DrvRef.pay call
  rw [DrvM.callThenUpdate_model d "Pay" [x] (.act none .pay x) rfl]
  by_cases hl : d.gs.players.length ≤ i <;> cases hev : d.gs.event <;>
    simp [DrvM.noPlayer, DrvM.hasAction, DrvM.held, DrvM.actOfName, Drv.hasAction, DrvM.eventOf, DrvM.rgReady, evString, hev, hl]

theorem drvWrapperPay_eq : (RUN drvWrapperPay) (i : Int) x = call d (.act i .pay x) := drvPay_eq d i x

/-- `Ready`: tests the mark "ready" (and the group), then `rg.Ready` -/
theorem drvWrapperReady_eq : (RUN drvWrapperReady) (i : Int) = call d (.ready i) := by
  rw [drvWrapperReady_prog]
  unfold DrvRef.ready call
  by_cases hl : d.gs.players.length ≤ i <;> simp [DrvM.noPlayer, DrvM.hasAction, DrvM.held, DrvM.rgReady, hl]

/-- the shortcuts: the backend operation of the same name on the held state -/
theorem drvReadyForAll_eq : (RUN drvReadyForAll) = callBackend d (fireOp .readyForAll) := by
  rw [drvReadyForAll_prog]; unfold DrvRef.shortcut
  rw [DrvM.callThenUpdate_model d "ReadyForAll" [] .ready rfl]; rfl

theorem drvPayAnte_eq : (RUN drvPayAnte) = callBackend d (fireOp .payAnte) := by
  rw [drvPayAnte_prog]; unfold DrvRef.shortcut
  rw [DrvM.callThenUpdate_model d "PayAnte" [] .payAnte rfl]; rfl

theorem drvPayBlinds_eq : (RUN drvPayBlinds) = callBackend d (fireOp .payBlinds) := by
  rw [drvPayBlinds_prog]; unfold DrvRef.shortcut
  rw [DrvM.callThenUpdate_model d "PayBlinds" [] .payBlinds rfl]; rfl

end model

/-- `Start` once the backend created the game `g0`: the model's `startD` -/
theorem drvStart_eq (g0 : Game) :
    drvStart (E := DErr) (fun d : D => d) (fun (_ : Unit) _ => (DrvM.held { gs := g0 }, none)) DrvM.updateState () { gs := g0 } = (startD g0, none) := by
  rw [drvStart_prog]; rfl

/-! ### `handleState`: the callbacks, the loops over the players -/

/-- the shortcut a callback names -/
def DrvM.fireName : Fire → String
  | .readyForAll => "ReadyForAll" | .payAnte => "PayAnte" | .payBlinds => "PayBlinds"

/-- the translated shortcut of that name on the model -/
def DrvM.shortcutNamed (name : String) (d : D) : Option (D × Option DErr) :=
  let run := fun (f : DErr → DErr → DErr → (DrvM.St → Bool) → (DrvM.St → Int → Bool) → Bool → (Bool → Bool) → (DrvM.St → Int → String → Bool) →
      (DrvM.St → String) → (D → Bool) → (Int → D → D) → (String → DrvM.St → List Int → DrvM.St × Option DErr) → (DrvM.St → D → D) → DrvM.St → D → D × Option DErr) =>
    f DErr.noRunningGame DErr.playerNotInGame DErr.invalidAction (fun _ => false) DrvM.noPlayer false id DrvM.hasAction
      DrvM.eventOf (fun _ => false) DrvM.rgReady DrvM.backendCall DrvM.updateState (DrvM.held d) d
  if name = "ReadyForAll" then some (run drvReadyForAll)
  else if name = "PayAnte" then some (run drvPayAnte)
  else if name = "PayBlinds" then some (run drvPayBlinds)
  else none

/-- **which shortcut each event's ready group calls**: the callback `handleState` installs is the one of the group `Drv.arm`
    starts (none where nothing is armed), and the translated shortcut of that name is the backend call `Drv.fireOp` -/
theorem drvFire_eq (g : Game) :
    drvFire (evString g.event) g.opts.ante = (arm g).map (fun r => DrvM.fireName r.2.2.fire) ∧
    ∀ (f : Fire) (d : D), DrvM.shortcutNamed (DrvM.fireName f) d = some (callBackend d (fireOp f)) := by
  constructor
  · unfold drvFire arm
    cases hev : g.event <;> simp [evString, hev, DrvM.fireName]
    by_cases ha : g.opts.ante = 0 <;> simp [ha, DrvM.fireName]
  · intro f d
    cases f
    · simp only [DrvM.shortcutNamed, DrvM.fireName]; exact congrArg some (drvReadyForAll_eq d)
    · simp only [DrvM.shortcutNamed, DrvM.fireName]; exact congrArg some (drvPayAnte_eq d)
    · simp only [DrvM.shortcutNamed, DrvM.fireName]; exact congrArg some (drvPayBlinds_eq d)

/-- **the blinds group**: a player is added (not ready) and marked "pay" exactly when `Drv.owesBlind` -/
theorem drvBlindsParticipant_eq (m : Meta) (p : Player) (idx : Int) :
    drvBlindsStep idx m.blindBB m.blindSB m.blindDealer p.posBB p.posSB p.posDealer =
      if owesBlind m p then (some (idx, false), some "pay") else (none, none) := by
  unfold drvBlindsStep owesBlind
  by_cases h1 : m.blindBB > 0 <;> by_cases h2 : m.blindSB > 0 <;> by_cases h3 : m.blindDealer > 0 <;>
    cases p.posBB <;> cases p.posSB <;> cases p.posDealer <;> simp [h1, h2, h3]

/-- the ready and the ante group: every player is added, not ready; marked "ready" / "pay" -/
theorem drvReadyStep_eq (idx bb sb dl : Int) (a b c : Bool) : drvReadyStep idx bb sb dl a b c = (some (idx, false), some "ready") := rfl
theorem drvAnteStep_eq (idx bb sb dl : Int) (a b c : Bool) : drvAnteStep idx bb sb dl a b c = (some (idx, false), some "pay") := rfl

abbrev DrvM.StepFn := Int → Int → Int → Int → Bool → Bool → Bool → Option (Int × Bool) × Option String

def DrvM.stepAt (st : DrvM.StepFn) (g : Game) (p : Player) : Option (Int × Bool) × Option String :=
  st p.idx g.opts.blindBB g.opts.blindSB g.opts.blindDealer p.posBB p.posSB p.posDealer

/-- the participants a loop adds -/
def DrvM.loopParts (st : DrvM.StepFn) (g : Game) : List (Nat × Bool) :=
  g.players.filterMap fun p => (DrvM.stepAt st g p).1.map fun a => (a.1.toNat, a.2)

/-- the players after a loop: the mark "pay" is an engine action -/
def DrvM.loopPlayers (st : DrvM.StepFn) (g : Game) : List Player :=
  g.players.map fun p => if (DrvM.stepAt st g p).2 = some "pay" then allowAction .pay p else p

/-- the players a loop marks "ready" -/
def DrvM.loopReady (st : DrvM.StepFn) (g : Game) : List Nat :=
  g.players.filterMap fun p => if (DrvM.stepAt st g p).2 = some "ready" then some p.idx else none

def DrvM.stepOfEvent : Ev → Option DrvM.StepFn
  | .readyRequested => some drvReadyStep | .anteRequested => some drvAnteStep | .blindsRequested => some drvBlindsStep
  | _ => none

def DrvM.armSteps (oc : String) : List String :=
  ["rg.Stop", oc, "rg.ResetParticipants", "playersLoop", "rg.Start", "onStateUpdated(gs)"]

/-- a ready group armed with callback `f` by the loop of the event of `q` -/
def DrvM.armed (d1 : D) (q : Game) (f : Fire) : Option D :=
  match DrvM.stepOfEvent q.event with
  | some st => some { d1 with gs := { q with players := DrvM.loopPlayers st q }, readyMarks := DrvM.loopReady st q,
                              group := some { parts := DrvM.loopParts st q, fire := f }, updates := d1.updates + 1 }
  | none => none

/-- the reading of the step list of `handleState(q)` on the model (driver `d1` holding `q`; `n` bounds the chain of streets) -/
def DrvM.handleInterp (n : Nat) (d1 : D) (q : Game) (steps : List String) : Option D :=
  if steps = ["Close", "onStateUpdated(gs)"] then some { d1 with closed := (drvClose d1.closed).1, updates := d1.updates + 1 }
  else if steps = ["backend.Next(gs)", "return"] then
    (match backend q .next with | .error _ => some d1 | .ok _ => none)
  else if steps = ["backend.Next(gs)", "updateState(gs)", "onStateUpdated(gs)"] then
    (match backend q .next with
     | .ok s' => let d2 := update n d1 s'; some { d2 with updates := d2.updates + 1 }
     | .error _ => none)
  else if steps = DrvM.armSteps "rg.OnCompleted(ReadyForAll)" then DrvM.armed d1 q .readyForAll
  else if steps = DrvM.armSteps "rg.OnCompleted(PayAnte)" then DrvM.armed d1 q .payAnte
  else if steps = DrvM.armSteps "rg.OnCompleted(PayBlinds)" then DrvM.armed d1 q .payBlinds
  else if steps = ["onStateUpdated(gs)"] then some { d1 with updates := d1.updates + 1 }
  else none

def DrvM.nextFails (q : Game) : Bool := match backend q .next with | .ok _ => false | .error _ => true

theorem DrvM.loop_ready (q : Game) :
    DrvM.loopParts drvReadyStep q = allParts q ∧ DrvM.loopPlayers drvReadyStep q = q.players ∧ DrvM.loopReady drvReadyStep q = q.players.map (·.idx) := by
  refine ⟨?_, ?_, ?_⟩
  · unfold DrvM.loopParts allParts DrvM.stepAt
    induction q.players with
    | nil => rfl
    | cons p l ih => simp [List.filterMap_cons, drvReadyStep_eq, ih]
  · unfold DrvM.loopPlayers DrvM.stepAt
    induction q.players with
    | nil => rfl
    | cons p l ih => simp [drvReadyStep_eq, ih]
  · unfold DrvM.loopReady DrvM.stepAt
    induction q.players with
    | nil => rfl
    | cons p l ih => simp [List.filterMap_cons, drvReadyStep_eq, ih]

theorem DrvM.loop_ante (q : Game) :
    DrvM.loopParts drvAnteStep q = allParts q ∧ DrvM.loopPlayers drvAnteStep q = q.players.map (allowAction .pay) ∧ DrvM.loopReady drvAnteStep q = [] := by
  refine ⟨?_, ?_, ?_⟩
  · unfold DrvM.loopParts allParts DrvM.stepAt
    induction q.players with
    | nil => rfl
    | cons p l ih => simp [List.filterMap_cons, drvAnteStep_eq, ih]
  · unfold DrvM.loopPlayers DrvM.stepAt
    induction q.players with
    | nil => rfl
    | cons p l ih => simp [drvAnteStep_eq, ih]
  · unfold DrvM.loopReady DrvM.stepAt
    induction q.players with
    | nil => rfl
    | cons p l ih => simp [List.filterMap_cons, drvAnteStep_eq, ih]

theorem DrvM.loop_blinds (q : Game) :
    DrvM.loopParts drvBlindsStep q = blindParts q ∧
    DrvM.loopPlayers drvBlindsStep q = q.players.map (fun p => if owesBlind q.opts p then allowAction .pay p else p) ∧
    DrvM.loopReady drvBlindsStep q = [] := by
  have hstep : ∀ p, DrvM.stepAt drvBlindsStep q p = if owesBlind q.opts p then (some ((p.idx : Int), false), some "pay") else (none, none) :=
    fun p => drvBlindsParticipant_eq q.opts p p.idx
  refine ⟨?_, ?_, ?_⟩
  · unfold DrvM.loopParts blindParts
    simp only [hstep]
    induction q.players with
    | nil => rfl
    | cons p l ih =>
      by_cases h : owesBlind q.opts p = true <;> simp [List.filterMap_cons, List.filter_cons, h, ih]
  · unfold DrvM.loopPlayers
    simp only [hstep]
    induction q.players with
    | nil => rfl
    | cons p l ih =>
      by_cases h : owesBlind q.opts p = true <;> simp [h, ih]
  · unfold DrvM.loopReady
    simp only [hstep]
    induction q.players with
    | nil => rfl
    | cons p l ih =>
      by_cases h : owesBlind q.opts p = true <;> simp [List.filterMap_cons, h, ih]

/-- **`handleState`** of the state `updateState` queued (`s.hop`, the driver not closed): the reading of the translated step
    list — `Close` at GameClosed; at RoundClosed `backend.Next` of THAT state, on error `return` without the callback, else
    `updateState` of the answer; at the three request events (with `Ante == 0`: nothing) stop, callback, reset, the loop
    over the players, start; then the callback `onStateUpdated` — is the branch of `Drv.update`. -/
theorem drvHandleState_eq (n : Nat) (d : D) (s : Game) (hc : d.closed = false) :
    DrvM.handleInterp n { d with gs := s.hop, readyMarks := [] } s.hop
      (drvHandleState (evString s.hop.event) s.hop.opts.ante (DrvM.nextFails s.hop)) = some (update (n + 1) d s) := by
  unfold update
  simp only [hc, Bool.false_eq_true, if_false]
  cases hev : s.hop.event
  case anteRequested =>
    by_cases ha : s.hop.opts.ante = 0 <;> simp [drvHandleState, evString, DrvM.handleInterp, DrvM.armSteps, hev, arm, DrvM.armed, DrvM.stepOfEvent, drvClose_eq,
      DrvM.loop_ready, DrvM.loop_ante, DrvM.loop_blinds, Game.mapP, ha]
  case roundClosed =>
    unfold DrvM.nextFails
    cases hb : backend s.hop .next <;> simp [drvHandleState, evString, DrvM.handleInterp, DrvM.armSteps, hev, arm, DrvM.armed, DrvM.stepOfEvent, drvClose_eq,
      DrvM.loop_ready, DrvM.loop_ante, DrvM.loop_blinds, Game.mapP, hb]
  case readyRequested =>
    simp [drvHandleState, evString, DrvM.handleInterp, DrvM.armSteps, hev, arm, DrvM.armed, DrvM.stepOfEvent, drvClose_eq,
      DrvM.loop_ready, DrvM.loop_ante, DrvM.loop_blinds, Game.mapP]
    rw [← hev]
  all_goals simp [drvHandleState, evString, DrvM.handleInterp, DrvM.armSteps, hev, arm, DrvM.armed, DrvM.stepOfEvent, drvClose_eq,
      DrvM.loop_ready, DrvM.loop_ante, DrvM.loop_blinds, Game.mapP]

/-- **`updateState`** (then the updater's `handleState` of what it queued) is `Drv.update`: the clone (`Game.hop`) becomes the
    held state and the marks of the old one are gone; a closed driver queues nothing; otherwise the queued clone is handled. -/
theorem drvUpdateState_eq (n : Nat) (d : D) (s : Game) :
    update (n + 1) d s =
      (match drvUpdateState Game.hop d.closed d.gs [] s with
       | (gs', []) => some { d with gs := gs', readyMarks := [] }
       | (gs', q :: _) => DrvM.handleInterp n { d with gs := gs', readyMarks := [] } q
                            (drvHandleState (evString q.event) q.opts.ante (DrvM.nextFails q))).getD d ∧
    update 0 d s = { d with gs := (drvUpdateState Game.hop true d.gs [] s).1, readyMarks := [] } := by
  constructor
  · rw [drvUpdateState_prog]
    cases hc : d.closed
    · simp only [Bool.false_eq_true, if_false, List.nil_append]
      have h := drvHandleState_eq n d s hc
      simp only [hc] at h
      rw [h]; rfl
    · simp [update, hc]
  · rw [drvUpdateState_prog]; rfl

end Pokerface.GeneratedLogic
