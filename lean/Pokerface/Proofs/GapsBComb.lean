import Pokerface.Proofs.CardsOps
import Pokerface.Proofs.CombosReport
import Pokerface.Proofs.CombosEngine
/-
  C15 helper: in every state of every hand with a long enough, duplicate-free deck, the
  reported combination of a seat consists of that seat's OWN hole cards and of BOARD cards —
  for every rule (`RequiredHoleCardsCount`), every hole-card count and every ranking table,
  i.e. without the domain restriction of C10 (the enumeration `GetAllPossibleCombinations`
  only ever picks among the cards it is given; that it picks the BEST ones is C10 and needs the
  domain, that it picks no foreign card does not).
-/
namespace Pokerface
open Game

/-! ### the enumeration only selects among the cards it is given -/

theorem possibleCombinations_subset {α : Type} [Inhabited α] (cards : List α) (n : Nat) :
    ∀ s ∈ possibleCombinations cards n, ∀ x ∈ s, x ∈ cards := by
  intro s hs x hx
  unfold possibleCombinations at hs
  split at hs
  · simp only [List.mem_singleton] at hs
    subst hs; exact hx
  · obtain ⟨v, _, rfl⟩ := List.mem_map.mp hs
    obtain ⟨p, hp, rfl⟩ := List.mem_map.mp hx
    have hlt : p < cards.length := by
      simp only [binaryOnesPositions, List.mem_filter, List.mem_range] at hp
      exact hp.1
    rw [getElem!_pos cards p hlt]
    exact List.getElem_mem hlt

theorem allPossibleCombinations_subset {α : Type} [Inhabited α] (board hole : List α) (k : Nat) :
    ∀ s ∈ allPossibleCombinations board hole k, ∀ x ∈ s, x ∈ hole ∨ x ∈ board := by
  intro s hs x hx
  unfold allPossibleCombinations at hs
  split at hs
  · exact List.mem_append.mp (possibleCombinations_subset _ _ s hs x hx)
  · obtain ⟨hsel, hh, hs2⟩ := List.mem_flatMap.mp hs
    obtain ⟨bs, hb, rfl⟩ := List.mem_map.mp hs2
    rcases List.mem_append.mp hx with h | h
    · exact Or.inl (possibleCombinations_subset _ _ _ hh x h)
    · exact Or.inr (possibleCombinations_subset _ _ _ hb x h)

/-- the cards of the best hand `CalculatePlayerPower` returns are hole cards or board cards -/
theorem playerPower_cards_own {lvl : Cat → Nat} {pr : List Cat} {board hole : List Card} {req : Nat} {pw : Power}
    (hpw : playerPower lvl pr board hole req = some pw) : ∀ x ∈ pw.cards, x ∈ hole ∨ x ∈ board := by
  obtain ⟨hm, _⟩ := bestPower_spec hpw
  obtain ⟨sel, hsel, rfl⟩ := List.mem_map.mp hm
  intro x hx
  rw [calculatePower_cards_eq] at hx
  exact allPossibleCombinations_subset board hole req sel hsel x ((sortCards_perm sel).mem_iff.mp hx)

/-! ### the invariant -/

/-- every reported combination consists of its owner's hole cards and of board cards -/
def CombOwn (g : Game) : Prop :=
  ∀ p ∈ g.players, ∀ cb, p.comb = some cb → ∀ x ∈ cb.cards, x ∈ p.hole ∨ x ∈ g.board

theorem combOwn_of_key {g g' : Game} (hk : g'.key = g.key) (h : CombOwn g) : CombOwn g' := by
  obtain ⟨_, hb, _, hpl⟩ := key_eq_iff.mp hk
  intro p hp cb hcb x hx
  have hm : handOf p ∈ g.players.map handOf := hpl ▸ List.mem_map_of_mem hp
  obtain ⟨q, hq, hqp⟩ := List.mem_map.mp hm
  simp only [handOf, Prod.mk.injEq] at hqp
  rw [hb, ← hqp.1]
  exact h q hq cb (by rw [hqp.2]; exact hcb) x hx

theorem combOwn_updateCombinations (g : Game) (h : CombOwn g) : CombOwn g.updateCombinations := by
  intro p' hp' cb hcb x hx
  simp only [updateCombinations, mapP, List.mem_map] at hp'
  obtain ⟨p, hp, rfl⟩ := hp'
  show x ∈ (newComb p _).hole ∨ x ∈ g.board
  rw [newComb_hole]
  cases hpw : playerPower g.opts.lvl g.opts.table g.board p.hole g.opts.required with
  | none =>
    have e : newComb p none = p := by unfold newComb; split <;> first | rfl | simp_all
    rw [hpw, e] at hcb
    exact h p hp cb hcb x hx
  | some pw =>
    rw [hpw] at hcb
    cases hc : p.comb with
    | none =>
      have e : newComb p (some pw) = p := by unfold newComb; rw [hc]
      rw [e, hc] at hcb; cases hcb
    | some c0 =>
      have e : (newComb p (some pw)).comb = some { cat := some pw.cat, cards := pw.cards, power := pw.score } := by
        unfold newComb; rw [hc]
      rw [e] at hcb
      cases hcb
      exact playerPower_cards_own hpw x hx

/-- the cards of every published combination are `[]` (nothing evaluated yet) -/
def CombEmpty (g : Game) : Prop := ∀ p ∈ g.players, ∀ cb, p.comb = some cb → cb.cards = []

theorem combEmpty_dealHole (g : Game) (i : Nat) (h : CombEmpty g) : CombEmpty (g.dealHole i) := by
  intro p hp
  have hp' : p ∈ g.players.modify i fun p => { p with hole := g.dealt g.opts.holeCount } := hp
  exact forall_mem_modify (fun q : Player => ∀ cb, q.comb = some cb → cb.cards = [])
    (fun p => { p with hole := g.dealt g.opts.holeCount }) (fun q hq => hq) g.players i h p hp'

theorem combEmpty_dealHoles : ∀ (k i : Nat) (g : Game), CombEmpty g → CombEmpty (dealHoles k i g)
  | 0, _, _, h => h
  | k + 1, i, g, h => combEmpty_dealHoles k (i + 1) _ (combEmpty_dealHole g i h)

theorem CombEmpty.own {g : Game} (h : CombEmpty g) : CombOwn g := by
  intro p hp cb hcb x hx
  rw [h p hp cb hcb] at hx
  simp at hx

/-- dealing the street keeps `CombOwn`: hole cards are only dealt while every combination is
    still empty, and later streets only append to the board. -/
theorem combOwn_dealStreet (g : Game) (h : CombOwn g) (hpre : g.round = .preflop → CombEmpty g) :
    CombOwn g.dealStreet := by
  unfold Game.dealStreet
  split
  · next hr => exact (combEmpty_dealHoles _ _ _ (hpre hr)).own
  all_goals first
    | exact h
    | (apply combOwn_of_key (key_setCurrentPlayer _ _)
       intro p hp cb hcb x hx
       have hp' : p ∈ g.players := hp
       rcases h p hp' cb hcb x hx with h1 | h1
       · exact Or.inl h1
       · right
         show x ∈ g.board ++ _
         exact List.mem_append_left _ h1)

theorem combOwn_enterRound (g : Game) (r : Round) (h : CombOwn g) (hpre : r = .preflop → CombEmpty g) :
    CombOwn (g.enterRound r) := by
  have hk : (g.enterRound r).key = ((g.setRound r).dealStreet.updateCombinations).key := by
    simp [enterRound, initializeRound]
  apply combOwn_of_key hk
  apply combOwn_updateCombinations
  exact combOwn_dealStreet (g.setRound r) h hpre

/-! ### every operation keeps the key or enters the NEXT street -/

/-- `step_key_or_enter` with the street: an operation that deals enters the street that follows
    the current one (uses "antes are only requested before the deal" of the cards invariant). -/
theorem step_key_or_enter_nxt (g : Game) (hante : g.event = .anteRequested → g.round = .none) (op : Op) :
    (g.step op).1.key = g.key ∨
    ∃ (g0 : Game) (r : Round), g0.key = g.key ∧ Nxt g0.round r ∧ (g.step op).1 = g0.enterRound r := by
  have hact : ∀ i a x, (g.act i a x).1.key = g.key := by
    intro i a x
    unfold act
    repeat' split
    all_goals simp
  cases op with
  | ready =>
    simp only [step, readyForAll]
    split
    · left; rfl
    · simp only [readiness]
      split
      · next hr =>
        split
        · left; simp
        · right; exact ⟨_, _, by simp, Or.inl ⟨hr, rfl⟩, rfl⟩
      · left; simp
  | payAnte =>
    simp only [step, payAnte]
    split
    · left; rfl
    · split
      · left; rfl
      · next he =>
        have he' : g.event = .anteRequested := by simpa using he
        split
        · next g' e h =>
          left
          have := key_payAnteLoop g.seatsFromDealer g
          rw [h] at this
          exact this
        · next g' h =>
          right
          have := key_payAnteLoop g.seatsFromDealer g
          rw [h] at this
          refine ⟨_, _, by simpa [antePaid] using this, Or.inl ⟨?_, rfl⟩, rfl⟩
          have hk : (((((g'.resetAllAllowed.setEvent .antePaid).updatePots).resetAllPlayerStatus).resetRoundStatus)).key = g.key := by
            simpa using this
          exact ((key_eq_iff.mp hk).2.2.1).trans (hante he')
  | payBlinds =>
    simp only [step, payBlinds]
    split
    · left; rfl
    · left; simp
  | next =>
    simp only [step, next]
    split
    · left; rfl
    · split
      · left; rfl
      · simp only [nextRound, nextRound']
        split
        · left; simp
        · split
          · next hr => right; exact ⟨_, _, by simp, Or.inr (Or.inl ⟨hr, rfl⟩), rfl⟩
          · next hr => right; exact ⟨_, _, by simp, Or.inr (Or.inr (Or.inl ⟨hr, rfl⟩)), rfl⟩
          · next hr => right; exact ⟨_, _, by simp, Or.inr (Or.inr (Or.inr ⟨hr, rfl⟩)), rfl⟩
          · left; simp
          · left; simp
  | act seat a x =>
    cases seat with
    | none => left; exact hact _ _ _
    | some i => left; exact hact _ _ _

/-! ### all histories -/

/-- before the deal nothing has been evaluated: with no hole cards and an empty board, `CombOwn`
    says that every combination is empty -/
theorem combEmpty_of_round_none {g : Game} (hc : CCore g) (h : CombOwn g) (hr : g.round = .none) : CombEmpty g := by
  intro p hp cb hcb
  have hb : g.board = [] := List.eq_nil_of_length_eq_zero (by rw [hc.board, hr]; rfl)
  have hh : p.hole = [] := List.eq_nil_of_length_eq_zero (by rw [hc.holes p hp]; simp [Game.holeCountNow, hr])
  apply List.eq_nil_iff_forall_not_mem.mpr
  intro x hx
  rcases h p hp cb hcb x hx with h1 | h1
  · rw [hh] at h1; simp at h1
  · rw [hb] at h1; simp at h1

theorem combOwn_step (g : Game) (hi : CInv g) (h : CombOwn g) (op : Op) : CombOwn (g.step op).1 := by
  rcases step_key_or_enter_nxt g hi.ante op with hk | ⟨g0, r, hk, hn, he⟩
  · exact combOwn_of_key hk h
  · rw [he]
    have h0 : CombOwn g0 := combOwn_of_key hk h
    apply combOwn_enterRound g0 r h0
    intro hr
    subst hr
    have hr0 : g0.round = .none := by
      rcases hn with ⟨h1, _⟩ | ⟨_, h2⟩ | ⟨_, h2⟩ | ⟨_, h2⟩
      · exact h1
      all_goals cases h2
    have hrg : g.round = .none := by rw [← (key_eq_iff.mp hk).2.2.1]; exact hr0
    have hE := combEmpty_of_round_none hi.core h hrg
    -- transfer along the key
    intro p hp cb hcb
    have hm : handOf p ∈ g.players.map handOf := (key_eq_iff.mp hk).2.2.2 ▸ List.mem_map_of_mem hp
    obtain ⟨q, hq, hqp⟩ := List.mem_map.mp hm
    simp only [handOf, Prod.mk.injEq] at hqp
    exact hE q hq cb (by rw [hqp.2]; exact hcb)

theorem combOwn_run (g : Game) (hi : CInv g) (h : CombOwn g) (ops : List Op) : CombOwn (g.run ops) := by
  induction ops generalizing g with
  | nil => exact h
  | cons op ops ih => exact ih _ (cinv_step g hi op) (combOwn_step g hi h op)

theorem config_players_comb (c : Config) : ∀ p ∈ c.players, p.comb = some {} := by
  intro p hp
  simp only [Config.players, List.mem_map] at hp
  obtain ⟨⟨s, i⟩, _, rfl⟩ := hp
  rfl

theorem combOwn_start (c : Config) (hs : (start c).2 = none) : CombOwn (start c).1 := by
  apply CombEmpty.own
  rw [(start_ok c hs).2.2]
  intro p hp cb hcb
  have hp' : p ∈ (c.game0.resetRoundStatus.requestReady).players := hp
  simp only [Game.requestReady, Game.resetAllAllowed, Game.setEvent, Game.mapP, Game.resetRoundStatus,
    List.mem_map] at hp'
  obtain ⟨q, hq, rfl⟩ := hp'
  have hq' : q ∈ c.players := hq
  have := config_players_comb c q hq'
  have hcb' : q.comb = some cb := hcb
  rw [this] at hcb'
  cases hcb'
  rfl

/-- **The reported combination of a seat consists of that seat's own hole cards and of board
    cards**, in every reachable state of every hand with a duplicate-free, long enough deck —
    any rule, any hole-card count, any ranking table. -/
theorem combOwn_reachable {g : Game} (h : ReachableC g) : CombOwn g := by
  obtain ⟨c, ops, _, wc, hs, rfl⟩ := h
  exact combOwn_run _ (cinv_start c wc hs) (combOwn_start c hs) ops

end Pokerface
