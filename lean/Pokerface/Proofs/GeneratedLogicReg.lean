import Pokerface.Model.Regulator
import Pokerface.Generated.LogicReg
/-
  K1, translated logic (tournament regulator): regulator/regulator.go, translated by `harness/cmd/genlogic`
  (Generated/LogicReg.lean, regenerated on every run).  Every theorem `…_eq` states that a function of the
  model (`Model/Regulator.lean`) is, for all arguments, what the translated definition says; loops are
  translated as a function of one iteration and the theorem states the model's recursion / fold / map in terms
  of that iteration.  The float readings are listed at the head of Generated/LogicReg.lean.
-/
set_option linter.unusedSimpArgs false
set_option linter.unusedVariables false
namespace Pokerface.GeneratedLogic
open Pokerface Reg
open Pokerface.Generated.Logic

/-! ### `SetStatus`, `AddPlayers`, `ReleasePlayers`, `enterWaitingQueue` -/

/-- regulator.go `SetStatus`: unchanged status ⇒ nothing; else the status is stored and the queue is drained
    exactly on the move pending → normal, with the new status already in force (`g.2.1`, the status recorded at the
    call, is the final one) -/
theorem regSetStatus_eq (r : Reg) (s : RStatus) (ch : List Nat) :
    r.setStatus s ch =
      (let b := r.beginOp ch
       let g := regSetStatus RStatus.pending RStatus.normal RStatus.afterRegDeadline b.status s
       if g.2.2 = ["drainWaitingQueue"] ∧ g.2.1 = g.1 then ({ b with status := g.2.1 }).drainWaitingQueue
       else { b with status := g.1 }) := by
  unfold Reg.setStatus regSetStatus
  cases h : (r.beginOp ch).status <;> cases s <;> simp [h] <;> (rw [← h])

/-- regulator.go `AddPlayers`: refused after the registration deadline with the count untouched; else the count
    grows by `len(players)`, then `updateTableRequirements` — which sees the new count (`g.2.1`, the count recorded
    at that call, is the final one) — then `enterWaitingQueue` -/
theorem regAddPlayers_eq (r : Reg) (ps ch : List Nat) :
    r.addPlayers ps ch =
      (let b := r.beginOp ch
       let g := regAddPlayers RStatus.pending RStatus.normal RStatus.afterRegDeadline b.status b.playerCount ps.length
       if g.2.2 = ["ErrAfterRegDealline"] then ({ b with playerCount := g.1 }, some .afterRegDeadline)
       else if g.2.2 = ["updateTableRequirements", "enterWaitingQueue(players)"] ∧ g.2.1 = g.1 then
         (({ b with playerCount := g.2.1 }).updateTableRequirements.enterWaitingQueue ps, none)
       else (b, some .badChoice)) := by
  unfold Reg.addPlayers regAddPlayers
  generalize r.beginOp ch = b
  rcases b with ⟨mx, mn, pc, tc, st, q, ts, nid, calls, chs, bad⟩
  cases st <;> simp

/-- the reading of the steps of `enterWaitingQueue` -/
def enterStep (r : Reg) (e : String) : Reg :=
  if e = "drainWaitingQueue" then r.drainWaitingQueue else r

/-- regulator.go `enterWaitingQueue`: the players are appended to the queue; pending ⇒ nothing else, otherwise
    the queue is drained -/
theorem regEnterWaitingQueue_eq (r : Reg) (ps : List Nat) :
    r.enterWaitingQueue ps =
      (let g := regEnterWaitingQueue RStatus.pending RStatus.normal RStatus.afterRegDeadline r.status r.queue ps
       g.2.foldl enterStep { r with queue := g.1 }) := by
  unfold Reg.enterWaitingQueue regEnterWaitingQueue
  cases h : r.status <;> simp [h, enterStep]

/-- regulator.go `ReleasePlayers`: `enterWaitingQueue(players)` and nothing else -/
theorem regReleasePlayers_eq (r : Reg) (ps ch : List Nat) :
    regReleasePlayers = ["enterWaitingQueue(players)"] ∧
    r.releasePlayers ps ch = (r.beginOp ch).enterWaitingQueue ps := ⟨by decide, rfl⟩

/-! ### `breakTable`, `getAvailableTable` -/

/-- regulator.go `breakTable` (on a table that exists, the only use `SyncState` makes of it): the table is
    deleted and the table count decremented; an unknown table is refused with the count untouched -/
theorem regBreakTable_eq (r : Reg) (id : Nat) :
    regBreakTable false r.tableCount = (r.tableCount, ["ErrNotFoundTable"]) ∧
    r.breakTable id =
      (let g := regBreakTable true r.tableCount
       { r with tables := if "delete" ∈ g.2 then r.tables.filter (·.id != id) else r.tables, tableCount := g.1 }) := by
  constructor
  · simp [regBreakTable]
  · simp [Reg.breakTable, regBreakTable]

/-- regulator.go `getAvailableTable`, one iteration: a table is returned iff it still requires players -/
theorem regAvailableStep_eq (required : Int) : regAvailableStep required = decide (required > 0) := by
  unfold regAvailableStep; by_cases h : required > 0 <;> simp [h]

/-! ### `updateTableRequirements` -/

/-- closed form of the translated iteration: the requirement is raised to `waterLevel - PlayerCount` on a table
    below the water level and kept otherwise, whatever `remains` and `playerRemains` are (the loop updates them
    but never reads them again) -/
theorem regUpdateReqStep_eq (wl c q rem prem : Int) :
    regUpdateReqStep wl c q rem prem = (if c < wl then wl - c else q, rem - 1, prem - wl) := by
  unfold regUpdateReqStep; by_cases h : c < wl <;> simp [h]

/-- regulator.go `updateTableRequirements`: the loop runs iff `ceil(playerCount / max) = len(tables)`, with the
    water level `ceil(playerCount / requiredTables)`; every table gets the translated iteration -/
theorem regUpdateReq_eq (r : Reg) :
    r.updateTableRequirements =
      (let g := regUpdateReq r.playerCount r.max r.tables.length
       if g.1 then
         { r with tables := r.tables.map fun t =>
             { t with required := (regUpdateReqStep g.2.1 t.count t.required g.2.2.1 g.2.2.2).1 } }
       else r) := by
  unfold Reg.updateTableRequirements regUpdateReq
  simp only [regUpdateReqStep_eq, Reg.requiredTables, Reg.ceilDiv, regCeilDiv]
  by_cases h : (r.playerCount + (r.max : Int) - 1) / (r.max : Int) = (r.tables.length : Int)
  · have hwl : (if (r.tables.length : Int) > 0 then (r.playerCount + (r.tables.length : Int) - 1) / (r.tables.length : Int) else 0)
        = (r.playerCount + (r.tables.length : Int) - 1) / (r.tables.length : Int) := by
      by_cases h0 : (r.tables.length : Int) > 0
      · rw [if_pos h0]
      · have : (r.tables.length : Int) = 0 := by omega
        rw [if_neg h0, this]; simp
    simp only [h, hwl, if_true, beq_self_eq_true]
    congr 1
    apply List.map_congr_left
    intro t _
    by_cases hc : t.count < (r.playerCount + (r.tables.length : Int) - 1) / (r.tables.length : Int) <;> simp [hc]
  · simp [h]

/-! ### `getLowWaterLevelTableCount`, `calculateLowerWaterLevel` -/

theorem regLowCountStep_eq (wl n c : Int) : regLowCountStep wl n c = if c < wl then n + 1 else n := by
  unfold regLowCountStep; by_cases h : c < wl <;> simp [h]

theorem foldl_lowCount (wl : Int) (ts : List RTable) (n : Int) :
    ts.foldl (fun n t => regLowCountStep wl n t.count) n = n + ((ts.filter fun t => decide (t.count < wl)).length : Int) := by
  induction ts generalizing n with
  | nil => simp
  | cons t ts ih =>
    rw [List.foldl_cons, ih, regLowCountStep_eq, List.filter_cons]
    by_cases h : t.count < wl <;> simp [h] <;> omega

/-- regulator.go `getLowWaterLevelTableCount`: the water level is `floor(playerCount / ceil(playerCount / max))`, the
    count starts at 0 and the translated iteration runs over every table -/
theorem regLowCount_eq (r : Reg) :
    (r.lowWaterLevelTableCount : Int) =
      (let g := regLowCountInit r.playerCount r.max
       r.tables.foldl (fun n t => regLowCountStep g.1 n t.count) g.2) := by
  simp only [foldl_lowCount, Reg.lowWaterLevelTableCount, regLowCountInit, Reg.requiredTables, Reg.ceilDiv, regCeilDiv, regFloorDiv]
  simp
  rfl

theorem regLowerStep_eq (wl n pc c : Int) : regLowerStep wl n pc c = if c ≤ wl then (n + 1, pc) else (n, pc - c) := by
  unfold regLowerStep; by_cases h : c ≤ wl <;> simp [h]

theorem foldl_lower (wl : Int) (ts : List RTable) (n pc : Int) :
    ts.foldl (fun a t => regLowerStep wl a.1 a.2 t.count) (n, pc) =
      (n + ((ts.filter fun t => decide (t.count ≤ wl)).length : Int),
       pc - ((ts.filter fun t => !decide (t.count ≤ wl)).map (·.count)).sum) := by
  induction ts generalizing n pc with
  | nil => simp
  | cons t ts ih =>
    rw [List.foldl_cons, regLowerStep_eq, List.filter_cons, List.filter_cons]
    by_cases h : t.count ≤ wl
    · simp only [h, if_true, ih, decide_true, Bool.not_true, Bool.false_eq_true, if_false, List.length_cons]
      congr 1; push_cast; omega
    · simp only [h, if_false, ih, decide_false, Bool.not_false, if_true, List.map_cons, List.sum_cons, Bool.false_eq_true]
      congr 1; omega

/-- what `calculateLowerWaterLevel` returns, as the pair (denominator, numerator) = (`tableCount`, `playerCount`)
    of its float quotient: the translated start values, then the translated iteration over every table -/
def lowerWL (r : Reg) : Int × Int :=
  let g := regLowerInit r.playerCount r.max
  r.tables.foldl (fun a t => regLowerStep g.1 a.1 a.2 t.count) (g.2.1, g.2.2)

theorem lowerReached_def (r : Reg) (f : Int) :
    r.lowerWaterLevelReached f =
      (if ((r.tables.filter fun t => decide (t.count ≤ r.playerCount / ((r.playerCount + (r.max : Int) - 1) / (r.max : Int)))).length : Int) = 0 then
         decide (r.playerCount - ((r.tables.filter fun t => !decide (t.count ≤ r.playerCount / ((r.playerCount + (r.max : Int) - 1) / (r.max : Int)))).map (·.count)).sum > 0)
       else decide (r.playerCount - ((r.tables.filter fun t => !decide (t.count ≤ r.playerCount / ((r.playerCount + (r.max : Int) - 1) / (r.max : Int)))).map (·.count)).sum
          ≥ f * ((r.tables.filter fun t => decide (t.count ≤ r.playerCount / ((r.playerCount + (r.max : Int) - 1) / (r.max : Int)))).length : Int))) := rfl

/-- regulator.go `calculateLowerWaterLevel` and the test `lwl >= math.Floor(waterLevel)` of `SyncState`: the model's
    `lowerWaterLevelReached` is the translated test on the translated quotient (`regReleaseStep` stops, i.e. its first
    component is `false`, exactly when the lower water level is reached) -/
theorem regLower_eq (r : Reg) (f p c : Int) :
    r.lowerWaterLevelReached f = !(regReleaseStep (lowerWL r).2 (lowerWL r).1 f p c).1 := by
  rw [lowerReached_def]
  unfold lowerWL regLowerInit
  simp only [foldl_lower, regCeilDiv, regFloorDiv, regReleaseStep]
  simp only [Int.zero_add]
  generalize ((r.tables.filter fun t => decide (t.count ≤ r.playerCount / ((r.playerCount + (r.max : Int) - 1) / (r.max : Int)))).length : Int) = tc
  generalize (r.playerCount - ((r.tables.filter fun t => !decide (t.count ≤ r.playerCount / ((r.playerCount + (r.max : Int) - 1) / (r.max : Int)))).map (·.count)).sum) = pc
  by_cases h0 : tc = 0
  · by_cases h1 : pc > 0 <;> simp [h0, h1]
  · by_cases h1 : pc ≥ f * tc <;> simp [h0, h1]

/-! ### `requestPlayers`, `getPlayersFromWaitingQueue` -/

/-- `for i := 0; i < count; i++ { … }` (header pinned) with a translated body that may `break`: at most `k`
    iterations on the pair (waiting queue, players) -/
def runTake (step : List Nat → List Nat → Bool × List Nat × List Nat) : Nat → List Nat × List Nat → List Nat × List Nat
  | 0, s => s
  | k + 1, s => let g := step s.1 s.2; if g.1 then runTake step k g.2 else g.2

theorem regTakeStep_eq (q p : List Nat) :
    regRequestPlayersStep q p = (!q.isEmpty, q.drop 1, p ++ q.take 1) ∧
    regGetPlayersStep q p = (!q.isEmpty, q.drop 1, p ++ q.take 1) := by
  cases q <;> simp [regRequestPlayersStep, regGetPlayersStep] <;> omega

theorem runTake_eq (step : List Nat → List Nat → Bool × List Nat × List Nat)
    (hstep : ∀ q p, step q p = (!q.isEmpty, q.drop 1, p ++ q.take 1)) (k : Nat) (q p : List Nat) :
    runTake step k (q, p) = (q.drop k, p ++ q.take k) := by
  induction k generalizing q p with
  | zero => simp [runTake]
  | succ k ih =>
    cases q with
    | nil => simp [runTake, hstep]
    | cons a q => simp [runTake, hstep, ih]

/-- regulator.go `requestPlayers` and `getPlayersFromWaitingQueue` (the model's `takeQueue`): `players` starts
    empty, the translated iteration runs at most `count` times, moving the head of the queue to `players` -/
theorem regTakeQueue_eq (r : Reg) (count : Int) :
    r.takeQueue count =
      (let s := runTake regRequestPlayersStep count.toNat (r.queue, [])
       (s.2, { r with queue := s.1 })) ∧
    r.takeQueue count =
      (let s := runTake regGetPlayersStep count.toNat (r.queue, [])
       (s.2, { r with queue := s.1 })) := by
  constructor <;>
  · rw [runTake_eq _ (fun q p => by first | exact (regTakeStep_eq q p).1 | exact (regTakeStep_eq q p).2)]
    simp [Reg.takeQueue]

/-! ### the release loop of `SyncState` -/

theorem regReleaseStep_eq (n d f p c : Int) :
    regReleaseStep n d f p c =
      if (if d = 0 then decide (n > 0) else decide (n ≥ f * d)) = true then (false, p, c, c) else (true, p + 1, c - 1, c) := by
  unfold regReleaseStep
  by_cases h : d = 0 <;> simp [h]

/-- regulator.go `SyncState`, one iteration of the release loop, for any value `c` of `t.PlayerCount`: the loop
    stops when the translated test on `calculateLowerWaterLevel()` holds (a call made while `t.PlayerCount` still is
    `c`: fourth component); otherwise `picked++` and `t.PlayerCount--` -/
theorem regReleaseStep_loop (k id : Nat) (f : Int) (r : Reg) (p : Nat) (c : Int) :
    releaseLoop (k + 1) id f r p =
      (let s := regReleaseStep (lowerWL r).2 (lowerWL r).1 f p c
       if s.1 = true ∧ s.2.2.2 = c then
         releaseLoop k id f (r.setTable id fun t => { t with count := t.count + (s.2.2.1 - c) }) s.2.1.toNat
       else (p, r)) := by
  rw [releaseLoop, regLower_eq r f p c]
  rw [regReleaseStep_eq]
  generalize (if (lowerWL r).1 = 0 then decide ((lowerWL r).2 > 0) else decide ((lowerWL r).2 ≥ f * (lowerWL r).1)) = b
  have h1 : (((p : Int) + 1).toNat) = p + 1 := by omega
  have h2 : ∀ x : Int, x + (c - 1 - c) = x - 1 := fun x => by omega
  cases b <;> simp [h1, h2]

/-! ### `dispatchPlayer` -/

/-- closed form of the translated `dispatchPlayer`: no table (or a table that requires nobody) ⇒
    `ErrNoAvailableTable`; else the first `Required` candidates are picked and assigned, the others are left,
    `Required` decreases and `PlayerCount` increases by the number picked -/
theorem regDispatchPlayerClosed_eq (tNil : Bool) (req cnt : Int) (cands : List Nat) :
    regDispatchPlayer tNil req cnt cands =
      if tNil = true ∨ req = 0 then none
      else some (cands.drop req.toNat, cands.take req.toNat, req - (cands.take req.toNat).length,
                 cnt + (cands.take req.toNat).length) := by
  unfold regDispatchPlayer
  cases tNil
  · by_cases h0 : req = 0
    · simp [h0]
    · by_cases h1 : req ≥ (cands.length : Int)
      · have ht : cands.take req.toNat = cands := List.take_of_length_le (by omega)
        have hd : cands.drop req.toNat = [] := List.drop_of_length_le (by omega)
        simp [h0, h1, ht, hd]
      · have h2 : req < (cands.length : Int) := by omega
        simp [h0, h1, h2]
  · simp

/-- what the model does when the choice input is not a table that requires players (artefact of the model:
    the Go code takes the table from its own map iteration) -/
def badChoiceOf (r : Reg) (cands : List Nat) : Option (List Nat × Reg) :=
  some (cands, { r with badChoice := true, choices := [] })

/-- regulator.go `dispatchPlayer` (with `getAvailableTable`): no table requires players (translated test of
    `getAvailableTable` on every table) ⇒ the translated function on `t == nil`; otherwise on the chosen table
    `t` (validated by the same translated test): candidates left, players assigned through the callback, and the
    changes of `t.Required` and `t.PlayerCount` -/
theorem regDispatchPlayer_eq (r : Reg) (cands : List Nat) :
    r.dispatchPlayer cands =
      (if !(r.tables.any fun t => regAvailableStep t.required) then
         (regDispatchPlayer true 0 0 cands).map fun g => (g.1, r)
       else
         match r.choices with
         | [] => badChoiceOf r cands
         | c :: cs =>
           match r.findTable c with
           | none => badChoiceOf r cands
           | some t =>
             if !regAvailableStep t.required then badChoiceOf r cands
             else
               (regDispatchPlayer false t.required t.count cands).map fun g =>
                 (g.1, ({ r with choices := cs, calls := r.calls ++ [RCall.assign t.id g.2.1] }).setTable t.id fun t' =>
                    { t' with required := t'.required + (g.2.2.1 - t.required), count := t'.count + (g.2.2.2 - t.count) })) := by
  unfold Reg.dispatchPlayer
  simp only [regAvailableStep_eq, regDispatchPlayerClosed_eq, badChoiceOf]
  by_cases hany : (r.tables.any fun t => decide (t.required > 0)) = true
  · simp only [hany, Bool.not_true, Bool.false_eq_true, if_false]
    cases r.choices with
    | nil => rfl
    | cons c cs =>
      simp only
      cases r.findTable c with
      | none => rfl
      | some t =>
        simp only
        by_cases hr : t.required ≤ 0
        · have : ¬ t.required > 0 := by omega
          simp [hr, this]
        · have h1 : t.required > 0 := by omega
          have h2 : ¬ t.required = 0 := by omega
          have e1 : ∀ x n : Int, x + (t.required - n - t.required) = x - n := fun x n => by omega
          have e2 : ∀ x n : Int, x + (t.count + n - t.count) = x + n := fun x n => by omega
          simp [hr, h1, h2, e1, e2]
  · simp [hany]

/-! ### `drainWaitingQueue` -/

/-- the reading of one step of `drainWaitingQueue` on the pair (`candidates`, regulator); the two dispatch loops
    (pinned by their printed form) are the model's `dispatchLoop`, whose iteration is `regDispatchPlayer_eq` -/
def drainStep (s : List Nat × Reg) (e : String) : List Nat × Reg :=
  if e = "allocateTables" then (s.1, s.2.allocateTables)
  else if e = "candidates := r.waitingQueue" then (s.2.queue, s.2)
  else if e = "dispatchLoop" then dispatchLoop (s.1.length + 1) s.1 s.2
  else if e = "updateTableRequirements" then (s.1, s.2.updateTableRequirements)
  else if e = "r.waitingQueue = candidates" then (s.1, { s.2 with queue := s.1 })
  else s

/-- regulator.go `drainWaitingQueue`: with `lenAfter k` the length of `candidates` after the `k`-th dispatch
    loop, the model's function is the translated list of steps, read by `drainStep` -/
theorem regDrain_eq (r : Reg) :
    r.drainWaitingQueue =
      (let d1 := dispatchLoop (r.queue.length + 1) r.queue r
       let u := if !d1.1.isEmpty then d1.2.updateTableRequirements else d1.2
       let d2 := dispatchLoop (d1.1.length + 1) d1.1 u
       let lenAfter := fun k : Int => if k = 1 then (d1.1.length : Int) else (d2.1.length : Int)
       ((regDrain r.tableCount r.queue.length r.min lenAfter).foldl drainStep ([], r)).2) := by
  unfold Reg.drainWaitingQueue regDrain
  by_cases h0 : r.tableCount = 0 ∧ (r.queue.length : Int) ≥ (r.min : Int)
  · have h0' : (r.tableCount == 0 && decide ((r.queue.length : Int) ≥ (r.min : Int))) = true := by simpa using h0
    simp only [h0', if_pos h0]
    simp [drainStep]
  · have h0' : (r.tableCount == 0 && decide ((r.queue.length : Int) ≥ (r.min : Int))) = false := by simpa using h0
    simp only [h0', if_neg h0, Bool.false_eq_true, if_false]
    by_cases h1 : r.tableCount > 0
    · simp only [h1, if_true, decide_true]
      generalize hd1 : dispatchLoop (r.queue.length + 1) r.queue r = d1
      obtain ⟨c1, r1⟩ := d1
      cases c1 with
      | nil =>
        have hnil : ∀ x : Reg, dispatchLoop (0 + 1) [] x = ([], x) := fun x => by simp [dispatchLoop]
        simp [drainStep, hd1, hnil]
      | cons a c1 =>
        simp only [List.isEmpty_cons, Bool.not_false, if_true]
        generalize hd2 : dispatchLoop ((a :: c1).length + 1) (a :: c1) r1.updateTableRequirements = d2
        obtain ⟨c2, r2⟩ := d2
        have hlen : ((a :: c1).length : Int) > 0 := by simp only [List.length_cons]; omega
        simp only [List.length_cons] at hd2
        cases c2 with
        | nil => simp [drainStep, hd1, hd2, hlen]
        | cons b c2 =>
          have hlen2 : ((b :: c2).length : Int) > 0 := by simp only [List.length_cons]; omega
          simp [drainStep, hd1, hd2, hlen, hlen2]
    · simp [h1, drainStep]

/-! ### `allocateTables` -/

theorem allocateLoop_stop (fuel : Nat) (wl req : Int) (r : Reg) (h : ¬ (wl ≥ (r.min : Int) ∧ r.tableCount < req)) :
    allocateLoop fuel wl req r = r := by
  cases fuel with
  | zero => rfl
  | succ fuel => rw [allocateLoop, if_neg h]

/-- regulator.go `allocateTables`, up to its loop: nothing happens without a table and with fewer players than
    `minInitialPlayers`; otherwise the loop starts with the translated water level and number of tables -/
theorem regAllocInit_eq (r : Reg) :
    r.allocateTables =
      (match regAllocInit r.playerCount r.max r.min r.tableCount with
       | none => r
       | some g => allocateLoop (r.queue.length + 1) g.1 g.2 r) := by
  unfold Reg.allocateTables regAllocInit
  have hreq : regCeilDiv r.playerCount r.max = r.requiredTables := rfl
  have hreq0 : r.playerCount ≥ 0 → r.requiredTables ≥ 0 := by
    intro hp
    show (r.playerCount + (r.max : Int) - 1) / (r.max : Int) ≥ 0
    by_cases hm : r.max = 0
    · simp [hm]
    · exact Int.ediv_nonneg (by omega) (by omega)
  simp only [hreq, regFloorDiv]
  generalize r.requiredTables = req at *
  by_cases h0 : r.tableCount = 0
  · simp only [h0, if_true, beq_self_eq_true]
    by_cases h1 : r.playerCount < (r.min : Int)
    · simp [h1]
    · have hwl : (if req > 0 then r.playerCount / req else 0) = r.playerCount / req := by
        by_cases h : req > 0
        · rw [if_pos h]
        · have : req = 0 := by have := hreq0 (by omega); omega
          simp [this]
      simp only [h1, if_false, hwl, decide_false, Bool.false_eq_true]
      by_cases h2 : r.playerCount / req ≥ (r.min : Int) <;> simp [h2]
  · have h0' : (r.tableCount == 0) = false := by simpa using h0
    simp only [h0, h0', if_false, Bool.false_eq_true]
    by_cases h1 : r.tableCount > 0
    · simp only [h1, if_true, decide_true]
      by_cases h : req > 0
      · rw [if_pos h]
      · by_cases h' : req = 0
        · simp [h']
        · rw [allocateLoop_stop _ _ _ _ (by omega), allocateLoop_stop _ _ _ _ (by omega)]
    · simp [h1]

/-- closed form of the translated iteration of the loop of `allocateTables`: the water level is capped at the table
    size; the table asks for `waterLevel` players, or for the whole queue when that is more but less than a full
    table; no players ⇒ stop; else a table is requested and stored with `Required = waterLevel - len(players)` when
    positive, and the next water level is `floor(len(queue) / (requiredTables - tableCount))` -/
theorem regAllocStepClosed_eq (wl0 req tc qlen mx : Int) (got : Int → Int) :
    regAllocStep wl0 req tc qlen mx got =
      (let wl := if wl0 > mx then mx else wl0
       let rp := if qlen > wl ∧ qlen < mx then qlen else wl
       let n := got rp
       if n = 0 then (false, wl, tc, rp, 0, 0, [])
       else (true, (qlen - n) / (req - (tc + 1)), tc + 1, rp, (if n < wl then wl - n else 0), n, ["requestTable", "store"])) := by
  unfold regAllocStep
  simp only [regFloorDiv]
  by_cases h1 : wl0 > mx
  · by_cases h2 : qlen > mx ∧ qlen < mx
    · omega
    · have h2' : (decide (qlen > mx) && decide (qlen < mx)) = false := by simpa using h2
      simp only [h1, h2, h2', if_true, if_false, decide_true, Bool.false_eq_true]
      by_cases h3 : got mx = 0
      · simp [h3]
      · by_cases h4 : got mx < mx <;> simp [h3, h4]
  · by_cases h2 : qlen > wl0 ∧ qlen < mx
    · have h2' : (decide (qlen > wl0) && decide (qlen < mx)) = true := by simpa using h2
      simp only [h1, h2, h2', if_true, if_false, decide_false, Bool.false_eq_true]
      by_cases h3 : got qlen = 0
      · simp [h3]
      · by_cases h4 : got qlen < wl0 <;> simp [h3, h4]
    · have h2' : (decide (qlen > wl0) && decide (qlen < mx)) = false := by simpa using h2
      simp only [h1, h2, h2', if_false, decide_false, Bool.false_eq_true]
      by_cases h3 : got wl0 = 0
      · simp [h3]
      · by_cases h4 : got wl0 < wl0 <;> simp [h3, h4]

/-- regulator.go `allocateTables`, one iteration of its loop (header pinned: `waterLevel >= minInitialPlayers &&
    tableCount < requiredTables`): with `got a` the number of players the queue yields when `a` are asked, the
    model's recursion is the translated iteration -/
theorem regAllocStep_eq (fuel : Nat) (wl req : Int) (r : Reg) :
    allocateLoop (fuel + 1) wl req r =
      (if wl ≥ (r.min : Int) ∧ r.tableCount < req then
         let g := regAllocStep wl req r.tableCount r.queue.length r.max fun a => ((r.queue.take a.toNat).length : Int)
         let players := r.queue.take g.2.2.2.1.toNat
         let r1 := { r with queue := r.queue.drop g.2.2.2.1.toNat }
         if g.1 = false then r1
         else if g.2.2.2.2.2.2 = ["requestTable", "store"] then
           allocateLoop fuel g.2.1 req
             { r1 with nextId := r.nextId + 1, calls := r.calls ++ [RCall.requestTable r.nextId players],
                       tableCount := g.2.2.1,
                       tables := r.tables ++ [{ id := r.nextId, required := g.2.2.2.2.1, count := g.2.2.2.2.2.1 }] }
         else r1
       else r) := by
  rw [allocateLoop, regAllocStepClosed_eq]
  by_cases hh : wl ≥ (r.min : Int) ∧ r.tableCount < req
  · rw [if_pos hh, if_pos hh]
    dsimp only [Reg.takeQueue]
    generalize (if wl > (r.max : Int) then (r.max : Int) else wl) = w
    generalize (if (r.queue.length : Int) > w ∧ (r.queue.length : Int) < (r.max : Int) then (r.queue.length : Int) else w) = rp
    have hiso : (r.queue.take rp.toNat).isEmpty = decide (((r.queue.take rp.toNat).length : Int) = 0) := by
      cases r.queue.take rp.toNat <;> simp <;> omega
    have hlen : ((r.queue.drop rp.toNat).length : Int) = (r.queue.length : Int) - ((r.queue.take rp.toNat).length : Int) := by
      simp; omega
    simp only [hiso, hlen]
    generalize ((r.queue.take rp.toNat).length : Int) = n
    by_cases hn : n = 0
    · simp [hn]
    · simp only [hn, decide_false, Bool.false_eq_true, if_false]
      by_cases hexp : req - (r.tableCount + 1) ≤ 0
      · simp only [hexp, if_true]
        rw [allocateLoop_stop _ _ _ _ (by simp only; omega)]
        simp
      · simp only [hexp, if_false]
        simp
  · simp [hh]

/-! ### `SyncState` -/

/-- closed form of the translated `SyncState` (`got a`: players obtained from the queue when `a` are asked;
    `released c f`: players released by the release loop run for at most `c` rounds against the floor `f`) -/
theorem regSyncStateClosed_eq {S : Type} [BEq S] (pending normal after : S) (found : Bool) (status : S)
    (pc tcount treq out mx tableCount : Int) (lowCount : Int → Int → Int) (got : Int → Int)
    (released : Int → Int → Int → Int → Int) :
    regSyncState pending normal after found status pc tcount treq out mx tableCount lowCount got released =
      (let pc' := pc - out
       let tc := tcount - out
       let req := regCeilDiv pc' mx
       if found = false then ("ErrNotFoundTable", 0, 0, pc, tcount, treq, [])
       else if (status == after) = true ∧ pc' ≤ mx ∧ req < tableCount then ("ok", tc, 0, pc', tc, treq, ["breakTable"])
       else if req > 0 ∧ tc * req < pc' then
         if lowCount pc' tc ≥ 2 ∧ req < tableCount then ("ok", tc, 0, pc', tc, treq, ["breakTable"])
         else
           let count := pc' / req - tc
           if count - got count > 0 then ("players", 0, count, pc', tc + got count, count - got count, ["setRequired"])
           else ("players", 0, count, pc', tc + got count, treq, [])
       else if req > 0 ∧ tc * req > pc' then
         ("ok", 0 + released pc' tc (tc - pc' / req) (pc' / req), 0, pc', tc - released pc' tc (tc - pc' / req) (pc' / req), treq, [])
       else ("ok", 0, 0, pc', tc, treq, [])) := by
  unfold regSyncState
  dsimp only
  generalize regCeilDiv (pc - out) mx = req
  cases found
  · simp
  · simp only [Bool.not_true, Bool.false_eq_true, if_false, Bool.true_eq_false]
    have rest :
        (if (decide (req > 0) && decide ((tcount - out) * req < pc - out)) = true then
          if (decide (lowCount (pc - out) (tcount - out) ≥ (2 : Int)) && decide (req < tableCount)) = true then
            ("ok", tcount - out, (0 : Int), pc - out, tcount - out, treq, ([] : List String) ++ ["breakTable"])
          else
            if decide ((pc - out) / req - (tcount - out) - got ((pc - out) / req - (tcount - out)) > (0 : Int)) = true then
              ("players", (0 : Int), (pc - out) / req - (tcount - out), pc - out,
                tcount - out + got ((pc - out) / req - (tcount - out)),
                (pc - out) / req - (tcount - out) - got ((pc - out) / req - (tcount - out)), ([] : List String) ++ ["setRequired"])
            else
              ("players", (0 : Int), (pc - out) / req - (tcount - out), pc - out,
                tcount - out + got ((pc - out) / req - (tcount - out)), treq, ([] : List String))
        else
          if (decide (req > 0) && decide ((tcount - out) * req > pc - out)) = true then
            ("ok", (0 : Int) + released (pc - out) (tcount - out) (tcount - out - (pc - out) / req) ((pc - out) / req), (0 : Int), pc - out,
              tcount - out - released (pc - out) (tcount - out) (tcount - out - (pc - out) / req) ((pc - out) / req), treq, ([] : List String))
          else ("ok", (0 : Int), (0 : Int), pc - out, tcount - out, treq, ([] : List String))) =
        (if req > 0 ∧ (tcount - out) * req < pc - out then
          if lowCount (pc - out) (tcount - out) ≥ 2 ∧ req < tableCount then ("ok", tcount - out, 0, pc - out, tcount - out, treq, ["breakTable"])
          else
            if (pc - out) / req - (tcount - out) - got ((pc - out) / req - (tcount - out)) > 0 then
              ("players", 0, (pc - out) / req - (tcount - out), pc - out, tcount - out + got ((pc - out) / req - (tcount - out)),
                (pc - out) / req - (tcount - out) - got ((pc - out) / req - (tcount - out)), ["setRequired"])
            else ("players", 0, (pc - out) / req - (tcount - out), pc - out, tcount - out + got ((pc - out) / req - (tcount - out)), treq, [])
        else if req > 0 ∧ (tcount - out) * req > pc - out then
          ("ok", 0 + released (pc - out) (tcount - out) (tcount - out - (pc - out) / req) ((pc - out) / req), 0, pc - out,
            tcount - out - released (pc - out) (tcount - out) (tcount - out - (pc - out) / req) ((pc - out) / req), treq, [])
        else ("ok", 0, 0, pc - out, tcount - out, treq, [])) := by
      simp only [Bool.and_eq_true, decide_eq_true_eq, List.nil_append]
    by_cases hs : (status == after) = true
    · by_cases hb : pc - out ≤ mx ∧ req < tableCount
      · have hb' : (decide (pc - out ≤ mx) && decide (req < tableCount)) = true := by simpa using hb
        simp [hs, hb, hb']
      · have hb' : (decide (pc - out ≤ mx) && decide (req < tableCount)) = false := by simpa using hb
        have hn : ¬ ((status == after) = true ∧ pc - out ≤ mx ∧ req < tableCount) := fun h => hb h.2
        simp only [hs, hb', if_true, Bool.false_eq_true, if_false, true_and, if_neg hb]
        exact rest
    · have hn : ¬ ((status == after) = true ∧ pc - out ≤ mx ∧ req < tableCount) := fun h => hs h.1
      simp only [hs, if_false, false_and]
      exact rest

theorem setTable_count_zero (r : Reg) (id : Nat) : (r.setTable id fun t => { t with count := t.count - 0 }) = r := by
  simp [Reg.setTable]

theorem setTable_eta (r : Reg) (id : Nat) :
    (r.setTable id fun t => { id := t.id, required := t.required, count := t.count }) = r := by
  simp [Reg.setTable]

theorem setTable_count_count (r : Reg) (id : Nat) (a b : Int) :
    ((r.setTable id fun t => { t with count := t.count - a }).setTable id fun t => { t with count := t.count - b }) =
      r.setTable id fun t => { t with count := t.count - (a + b) } := by
  simp only [Reg.setTable, List.map_map]
  congr 1
  apply List.map_congr_left
  intro t _
  by_cases h : t.id = id <;> simp [h] <;> omega

/-- the release loop only lowers the count of the table, by the number of players it picked -/
theorem releaseLoop_snd (k id : Nat) (f : Int) (r : Reg) (p : Nat) :
    (releaseLoop k id f r p).2 =
      r.setTable id fun t => { t with count := t.count - (((releaseLoop k id f r p).1 : Int) - p) } := by
  induction k generalizing r p with
  | zero => simp [releaseLoop, setTable_eta]
  | succ k ih =>
    rw [releaseLoop]
    by_cases h : r.lowerWaterLevelReached f = true
    · simp [h, setTable_eta]
    · simp only [h, Bool.false_eq_true, if_false]
      rw [ih, setTable_count_count]
      congr 1
      funext t
      congr 1
      push_cast
      omega

/-- regulator.go `SyncState`: the model's function is the translated decision, read on the model state.
    `getLowWaterLevelTableCount` and the release loop see the state with the values of `r.playerCount` and
    `t.PlayerCount` current at their call (`at_`); the queue
    yields `min a len` players when `a` are asked; the release loop is the model's `releaseLoop`, whose iteration
    is `regReleaseStep_loop`.  The result gives the error, the returned count, the players asked from the queue,
    the new `playerCount`, the change of `t.PlayerCount`, `Required` when it was set, and whether the table was broken. -/
theorem regSyncState_eq (r : Reg) (id : Nat) (out : Int) :
    r.syncState id out =
      (let b := r.beginOp []
       let t0 := b.findTable id
       let tcnt := (t0.map (·.count)).getD 0
       let treq := (t0.map (·.required)).getD 0
       -- the state when `r.playerCount` is `pc` and `t.PlayerCount` is `tc` (what the calls made by the decision read)
       let at_ := fun (pc tc : Int) =>
         ({ b with playerCount := pc }).setTable id fun t => { t with count := t.count + (tc - tcnt) }
       let g := regSyncState RStatus.pending RStatus.normal RStatus.afterRegDeadline t0.isSome b.status b.playerCount tcnt treq out
                  b.max b.tableCount (fun pc tc => ((at_ pc tc).lowWaterLevelTableCount : Int))
                  (fun a => ((b.queue.take a.toNat).length : Int))
                  (fun pc tc c f => ((releaseLoop c.toNat id f (at_ pc tc) 0).1 : Int))
       if g.1 = "ErrNotFoundTable" then (b, some .notFoundTable, 0, [])
       else
         let asked := g.2.2.1
         let b2 := { b with playerCount := g.2.2.2.1, queue := b.queue.drop asked.toNat }
         let b3 := b2.setTable id fun t =>
           { t with count := t.count + (g.2.2.2.2.1 - tcnt),
                    required := if "setRequired" ∈ g.2.2.2.2.2.2 then g.2.2.2.2.2.1 else t.required }
         let b4 := if "breakTable" ∈ g.2.2.2.2.2.2 then b3.breakTable id else b3
         (b4, none, g.2.1, b.queue.take asked.toNat)) := by
  unfold Reg.syncState
  generalize r.beginOp [] = b
  cases ht : b.findTable id with
  | none => simp [regSyncStateClosed_eq, ht]
  | some t0 =>
    simp only [ht, Option.map_some, Option.getD_some, Option.isSome_some]
    generalize hb1 : (({ b with playerCount := b.playerCount - out }).setTable id fun t => { t with count := t.count - out }) = b1
    have e1 : b1.playerCount = b.playerCount - out := by rw [← hb1]; rfl
    have e2 : b1.max = b.max := by rw [← hb1]; rfl
    have e3 : b1.status = b.status := by rw [← hb1]; rfl
    have e4 : b1.tableCount = b.tableCount := by rw [← hb1]; rfl
    have e6 : b1.requiredTables = regCeilDiv (b.playerCount - out) b.max := by rw [← hb1]; rfl
    rw [regSyncStateClosed_eq]
    have hat : (({ b with playerCount := b.playerCount - out }).setTable id fun t =>
        { t with count := t.count + (t0.count - out - t0.count) }) = b1 := by
      rw [← hb1]
      have hc : ∀ x : Int, x + (t0.count - out - t0.count) = x - out := fun x => by omega
      simp only [hc]
    simp only [hat, e1, e2, e3, e4, e6, Bool.true_eq_false, if_false]
    generalize regCeilDiv (b.playerCount - out) (b.max : Int) = req
    by_cases hbr : b.status = RStatus.afterRegDeadline ∧ b.playerCount - out ≤ (b.max : Int) ∧ req < b.tableCount
    · have hbr' : (b.status == RStatus.afterRegDeadline) = true ∧ b.playerCount - out ≤ (b.max : Int) ∧ req < b.tableCount := by
        simpa using hbr
      simp only [if_pos hbr, if_pos hbr']
      have hc : ∀ x : Int, x + (t0.count - out - t0.count) = x - out := fun x => by omega
      subst hb1
      simp [hc]
    · have hbr' : ¬ ((b.status == RStatus.afterRegDeadline) = true ∧ b.playerCount - out ≤ (b.max : Int) ∧ req < b.tableCount) := by
        simpa using hbr
      simp only [if_neg hbr, if_neg hbr']
      by_cases hreq0 : req ≤ 0
      · have h1 : ¬ (req > 0 ∧ (t0.count - out) * req < b.playerCount - out) := by omega
        have h2 : ¬ (req > 0 ∧ (t0.count - out) * req > b.playerCount - out) := by omega
        simp only [if_pos hreq0, if_neg h1, if_neg h2]
        have hc : ∀ x : Int, x + (t0.count - out - t0.count) = x - out := fun x => by omega
        subst hb1
        simp [hc]
      · have hreq1 : req > 0 := by omega
        simp only [if_neg hreq0]
        by_cases hlt : (t0.count - out) * req < b.playerCount - out
        · have h1 : req > 0 ∧ (t0.count - out) * req < b.playerCount - out := ⟨hreq1, hlt⟩
          simp only [if_pos hlt, if_pos h1]
          by_cases hlow : (b1.lowWaterLevelTableCount : Int) ≥ 2 ∧ req < b.tableCount
          · have hlowN : b1.lowWaterLevelTableCount ≥ 2 ∧ req < b.tableCount := ⟨by omega, hlow.2⟩
            simp only [if_pos hlow, if_pos hlowN]
            have hc : ∀ x : Int, x + (t0.count - out - t0.count) = x - out := fun x => by omega
            subst hb1
            simp [hc]
          · have hlowN : ¬ (b1.lowWaterLevelTableCount ≥ 2 ∧ req < b.tableCount) := fun h => hlow ⟨by omega, h.2⟩
            simp only [if_neg hlow, if_neg hlowN]
            generalize (b.playerCount - out) / req - (t0.count - out) = cnt
            have hq : b1.queue = b.queue := by rw [← hb1]; rfl
            simp only [Reg.takeQueue, hq]
            generalize hn : ((b.queue.take cnt.toNat).length : Int) = n
            have hc : ∀ x : Int, x + (t0.count - out + n - t0.count) = x - out + n := fun x => by omega
            by_cases hstill : cnt - n > 0
            · simp only [if_pos hstill]
              subst hb1
              simp only [Reg.setTable, List.map_map]
              simp [hc]
              intro t _
              by_cases hid : t.id = id <;> simp [hid]
            · simp only [if_neg hstill]
              subst hb1
              simp only [Reg.setTable, List.map_map]
              simp [hc]
              intro t _
              by_cases hid : t.id = id <;> simp [hid]
        · simp only [if_neg hlt]
          have h1 : ¬ (req > 0 ∧ (t0.count - out) * req < b.playerCount - out) := fun h => hlt h.2
          simp only [if_neg h1]
          by_cases hgt : (t0.count - out) * req > b.playerCount - out
          · have h2 : req > 0 ∧ (t0.count - out) * req > b.playerCount - out := ⟨hreq1, hgt⟩
            simp only [if_pos hgt, if_pos h2]
            rw [releaseLoop_snd]
            generalize (releaseLoop (t0.count - out - (b.playerCount - out) / req).toNat id ((b.playerCount - out) / req) b1 0).1 = k
            have hc : ∀ x : Int, x + (t0.count - out - (k : Int) - t0.count) = x - out - (k : Int) := fun x => by omega
            subst hb1
            simp only [Reg.setTable, List.map_map]
            simp [hc]
            intro t _
            by_cases hid : t.id = id <;> simp [hid]
          · have h2 : ¬ (req > 0 ∧ (t0.count - out) * req > b.playerCount - out) := fun h => hgt h.2
            simp only [if_neg hgt, if_neg h2]
            have hc : ∀ x : Int, x + (t0.count - out - t0.count) = x - out := fun x => by omega
            subst hb1
            simp [hc]

/-! ### what the translated definitions compute, on concrete inputs (non-vacuity) -/

example : regSetStatus RStatus.pending RStatus.normal RStatus.afterRegDeadline RStatus.pending RStatus.normal
    = (RStatus.normal, RStatus.normal, ["drainWaitingQueue"]) := by decide

example : regAddPlayers RStatus.pending RStatus.normal RStatus.afterRegDeadline RStatus.afterRegDeadline 10 3
    = (10, 10, ["ErrAfterRegDealline"]) := by decide

-- 20 players, tables of 9, at least 6 to open: 3 tables are required, the first water level is 6
example : regAllocInit 20 9 6 0 = some (6, 3) := by decide

-- 13 players: ceil(13/9) = 2 tables would hold 6 each; 11 players: 5 each is below 6, so one table of 9
example : regAllocInit 13 9 6 0 = some (6, 2) ∧ regAllocInit 11 9 6 0 = some (9, 1) := by decide

example : regAllocStep 6 3 0 20 9 (fun a => a) = (true, 7, 1, 6, 0, 6, ["requestTable", "store"]) := by rfl

example : regDispatchPlayer false 2 4 [10, 11, 12] = some ([12], [10, 11], 0, 6) := by decide

-- a table of 9 at water level 7 releases players: 2 asked, the release loop decides how many
example : regSyncState RStatus.pending RStatus.normal RStatus.afterRegDeadline true RStatus.normal 21 9 0 0 9 3 (fun _ _ => 0) (fun a => a) (fun _ _ c _ => c)
    = ("ok", 2, 0, 21, 7, 0, []) := by rfl

-- after the deadline, 9 players left on 2 tables: the reporting table is broken
example : regSyncState RStatus.pending RStatus.normal RStatus.afterRegDeadline true RStatus.afterRegDeadline 10 5 0 1 9 2 (fun _ _ => 0) (fun a => a) (fun _ _ c _ => c)
    = ("ok", 4, 0, 9, 4, 0, ["breakTable"]) := by rfl

example : regDrain 2 3 6 (fun k => if k = 1 then 1 else 0)
    = ["candidates := r.waitingQueue", "dispatchLoop", "updateTableRequirements", "dispatchLoop", "r.waitingQueue = candidates", "nil"] := by decide

end Pokerface.GeneratedLogic
