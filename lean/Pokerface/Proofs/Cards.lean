import Pokerface.Proofs.CardsDefs
/-
  The cards invariant of the engine model (C14): where every card is, by street, and its
  preservation by every operation.  Style of EngineChips/EngineCtl: a frame relation `CF`
  with one lemma per chain function that leaves the card fields alone; the dealing functions
  are handled explicitly.
-/
namespace Pokerface
open Game

/-! ### list lemmas -/

theorem take_succ_modify {α : Type} (f : α → α) :
    ∀ (l : List α) (m : Nat) (h : m < l.length), (l.modify m f).take (m + 1) = l.take m ++ [f l[m]]
  | [], _, h => by simp at h
  | a :: l, 0, _ => by simp
  | a :: l, m + 1, h => by
    have := take_succ_modify f l m (by simpa using h)
    simp [this]

theorem take_add_dealt (deck : List Card) (pos k : Nat) :
    deck.take (pos + k) = deck.take pos ++ (deck.drop pos).take k := List.take_add

theorem length_drop_take {deck : List Card} {pos k : Nat} (h : pos + k ≤ deck.length) :
    ((deck.drop pos).take k).length = k := by
  simp; omega

theorem streetCards_nil : streetCards [] [] = [] := rfl

/-- dealing a street appends its burn card and its board cards to the dealing order -/
theorem streetCards_step (B F X Y : List Card) (hX : X.length = 1)
    (h : (B.length = 0 ∧ F.length = 0 ∧ Y.length = 3) ∨ (B.length = 1 ∧ F.length = 3 ∧ Y.length = 1) ∨
         (B.length = 2 ∧ F.length = 4 ∧ Y.length = 1)) :
    streetCards (B ++ X) (F ++ Y) = streetCards B F ++ X ++ Y := by
  obtain ⟨x, rfl⟩ := List.length_eq_one_iff.mp hX
  rcases h with ⟨hB, hF, hY⟩ | ⟨hB, hF, hY⟩ | ⟨hB, hF, hY⟩
  · rcases B with _ | ⟨b, B⟩ <;> simp at hB
    rcases F with _ | ⟨f, F⟩ <;> simp at hF
    rcases Y with _ | ⟨a, _ | ⟨b, _ | ⟨c, _ | ⟨d, Y⟩⟩⟩⟩ <;> simp at hY
    simp [streetCards]
  · rcases B with _ | ⟨b, _ | ⟨b2, B⟩⟩ <;> simp at hB
    rcases F with _ | ⟨f1, _ | ⟨f2, _ | ⟨f3, _ | ⟨f4, F⟩⟩⟩⟩ <;> simp at hF
    obtain ⟨y, rfl⟩ := List.length_eq_one_iff.mp hY
    simp [streetCards]
  · rcases B with _ | ⟨b, _ | ⟨b2, _ | ⟨b3, B⟩⟩⟩ <;> simp at hB
    rcases F with _ | ⟨f1, _ | ⟨f2, _ | ⟨f3, _ | ⟨f4, _ | ⟨f5, F⟩⟩⟩⟩⟩ <;> simp at hF
    obtain ⟨y, rfl⟩ := List.length_eq_one_iff.mp hY
    simp [streetCards]

/-! ### the invariant -/

/-- where the cards are, as a function of the street -/
structure CCore (g : Game) : Prop where
  nodup : g.opts.deck.Nodup
  long : g.n * g.opts.holeCount + 8 ≤ g.opts.deck.length
  holes : ∀ p ∈ g.players, p.hole.length = g.holeCountNow
  board : g.board.length = g.round.boardCount
  burned : g.burned.length = g.round.burnCount
  pos : g.deckPos = g.n * g.holeCountNow + g.round.boardCount + g.round.burnCount
  pref : g.dealtCards = g.opts.deck.take g.deckPos

/-- the cards invariant: `CCore` plus "antes are only ever requested before any card is dealt" -/
structure CInv (g : Game) : Prop where
  core : CCore g
  ante : g.event = .anteRequested → g.round = .none

/-- frame: the card fields and the street are unchanged, and the event has not become
    `AnteRequested` -/
structure CF (g g' : Game) : Prop where
  opts : g'.opts = g.opts
  pos : g'.deckPos = g.deckPos
  board : g'.board = g.board
  burned : g'.burned = g.burned
  holes : g'.players.map (·.hole) = g.players.map (·.hole)
  round : g'.round = g.round
  ante : g'.event = .anteRequested → g.event = .anteRequested

theorem CF.refl (g : Game) : CF g g := ⟨rfl, rfl, rfl, rfl, rfl, rfl, id⟩
theorem CF.trans {a b c : Game} (h1 : CF a b) (h2 : CF b c) : CF a c :=
  ⟨h2.opts.trans h1.opts, h2.pos.trans h1.pos, h2.board.trans h1.board, h2.burned.trans h1.burned,
   h2.holes.trans h1.holes, h2.round.trans h1.round, h1.ante ∘ h2.ante⟩

theorem CF.length {g g' : Game} (h : CF g g') : g'.n = g.n := by
  have := congrArg List.length h.holes
  simpa [Game.n] using this

theorem CF.holeCards {g g' : Game} (h : CF g g') : g'.holeCards = g.holeCards := by
  simp only [Game.holeCards, List.flatMap_def]
  rw [h.holes]

theorem CF.core {g g' : Game} (h : CF g g') (hc : CCore g) : CCore g' := by
  have hn := h.length
  have hcn : g'.holeCountNow = g.holeCountNow := by simp only [Game.holeCountNow, h.round, h.opts]
  refine ⟨by rw [h.opts]; exact hc.nodup, by rw [hn, h.opts]; exact hc.long, ?_, by rw [h.board, h.round]; exact hc.board,
    by rw [h.burned, h.round]; exact hc.burned, by rw [h.pos, hn, hcn, h.round]; exact hc.pos, ?_⟩
  · intro p hp
    have : p.hole ∈ g'.players.map (·.hole) := List.mem_map_of_mem hp
    rw [h.holes] at this
    obtain ⟨q, hq, hqe⟩ := List.mem_map.mp this
    rw [hcn, ← hqe]; exact hc.holes q hq
  · simp only [Game.dealtCards, h.holeCards, h.burned, h.board, h.opts, h.pos]
    exact hc.pref

theorem CF.inv {g g' : Game} (h : CF g g') (hi : CInv g) : CInv g' :=
  ⟨h.core hi.core, fun he => by rw [h.round]; exact hi.ante (h.ante he)⟩

theorem CF.stable {g g' : Game} (h : CF g g') : Stable g g' := by
  refine ⟨by rw [h.opts], by simpa using congrArg List.length h.holes, by rw [h.pos]; exact Nat.le_refl _, ?_,
    by rw [h.board]; exact List.prefix_refl _, by rw [h.burned]; exact List.prefix_refl _⟩
  intro k p p' hp hp' _
  have h1 : (g'.players.map (·.hole))[k]? = some p'.hole := by simp [hp']
  rw [h.holes] at h1
  simpa [hp] using h1.symm

theorem Stable.refl (g : Game) : Stable g g := (CF.refl g).stable

theorem Stable.trans {a b c : Game} (h1 : Stable a b) (h2 : Stable b c) : Stable a c := by
  refine ⟨h2.deck.trans h1.deck, h2.seats.trans h1.seats, Nat.le_trans h1.pos h2.pos, ?_,
    h1.board.trans h2.board, h1.burned.trans h2.burned⟩
  intro k p p'' hp hp'' hne
  have hk : k < b.players.length := by
    rw [h1.seats]
    exact (List.getElem?_eq_some_iff.mp hp).1
  have hq : b.players[k]? = some b.players[k] := List.getElem?_eq_getElem hk
  have e1 := h1.holes k p _ hp hq hne
  have e2 := h2.holes k _ p'' hq hp'' (by rw [e1]; exact hne)
  rw [e2, e1]

/-! ### frame lemmas, one per chain function -/

theorem cf_modP (g : Game) (i : Nat) (f : Player → Player) (hf : ∀ p, (f p).hole = p.hole) : CF g (g.modP i f) :=
  ⟨rfl, rfl, rfl, rfl, by simp [Game.modP, map_modify_of_proj (·.hole) f hf], rfl, id⟩

theorem cf_mapP (g : Game) (f : Player → Player) (hf : ∀ p, (f p).hole = p.hole) : CF g (g.mapP f) :=
  ⟨rfl, rfl, rfl, rfl, by simp [Game.mapP, List.map_map, Function.comp_def, hf], rfl, id⟩

theorem cf_setEvent (g : Game) (e : Ev) (he : e ≠ .anteRequested) : CF g (g.setEvent e) :=
  ⟨rfl, rfl, rfl, rfl, rfl, rfl, fun h => absurd h he⟩
theorem cf_setCur (g : Game) (i : Nat) : CF g (g.setCur i) := ⟨rfl, rfl, rfl, rfl, rfl, rfl, id⟩
theorem cf_setRaiser (g : Game) (i : Nat) : CF g (g.setRaiser i) := ⟨rfl, rfl, rfl, rfl, rfl, rfl, id⟩
theorem cf_setCw (g : Game) (x : Int) : CF g (g.setCw x) := ⟨rfl, rfl, rfl, rfl, rfl, rfl, id⟩
theorem cf_setPrev (g : Game) (x : Int) : CF g (g.setPrev x) := ⟨rfl, rfl, rfl, rfl, rfl, rfl, id⟩
theorem cf_addRoundPot (g : Game) (x : Int) : CF g (g.addRoundPot x) := ⟨rfl, rfl, rfl, rfl, rfl, rfl, id⟩
theorem cf_updatePots (g : Game) : CF g g.updatePots := ⟨rfl, rfl, rfl, rfl, rfl, rfl, id⟩
theorem cf_calculateGameResults (g : Game) : CF g g.calculateGameResults := ⟨rfl, rfl, rfl, rfl, rfl, rfl, id⟩
theorem cf_resetRoundStatus (g : Game) : CF g g.resetRoundStatus := ⟨rfl, rfl, rfl, rfl, rfl, rfl, id⟩

theorem cf_offer (g : Game) (i : Nat) : CF g (g.offer i) := cf_modP g i _ (fun _ => rfl)
theorem cf_setCurrentPlayer (g : Game) (i : Nat) : CF g (g.setCurrentPlayer i) :=
  ((cf_modP g g.cur clearAllowed (fun _ => rfl)).trans (cf_setCur _ i)).trans (cf_offer _ i)
theorem cf_resetAllAllowed (g : Game) : CF g g.resetAllAllowed := cf_mapP g _ (fun _ => rfl)
theorem cf_resetAllPlayerStatus (g : Game) : CF g g.resetAllPlayerStatus := cf_mapP g _ (fun _ => rfl)
theorem cf_resetActed (g : Game) : CF g g.resetActed := cf_mapP g _ (fun _ => rfl)
theorem cf_setActed (g : Game) (i : Nat) : CF g (g.setActed i) := cf_modP g i _ (fun _ => rfl)
theorem cf_becomeRaiser (g : Game) (i : Nat) : CF g (g.becomeRaiser i) :=
  ((cf_setRaiser g i).trans (cf_resetActed _)).trans (cf_setActed _ i)

theorem cf_payAllin (g : Game) (i : Nat) (p : Player) (w : Bool) : CF g (g.payAllin i p w) := by
  unfold Game.payAllin
  have h1 : CF g ((g.addRoundPot (p.initial - p.wager)).modP i goAllin) :=
    (cf_addRoundPot g _).trans (cf_modP _ i _ (fun _ => rfl))
  simp only
  split
  · have h2 : CF g (if p.initial > g.cw then ((g.addRoundPot (p.initial - p.wager)).modP i goAllin).setCw p.initial
        else (g.addRoundPot (p.initial - p.wager)).modP i goAllin) := by
      split
      · exact h1.trans (cf_setCw _ _)
      · exact h1
    split
    · exact h2.trans (cf_becomeRaiser _ i)
    · exact h2.trans (cf_resetActed _)
  · exact h1

theorem cf_payPart (g : Game) (i : Nat) (p : Player) (c : Int) (w : Bool) : CF g (g.payPart i p c w) := by
  unfold Game.payPart
  have h1 : CF g ((g.modP i (putWager (p.wager + c))).addRoundPot c) :=
    (cf_modP g i (putWager (p.wager + c)) (fun _ => rfl)).trans (cf_addRoundPot _ _)
  simp only
  split
  · exact (h1.trans (cf_setCw _ _)).trans (cf_becomeRaiser _ i)
  · exact h1

theorem cf_pay (g : Game) (i : Nat) (c : Int) (w : Bool) : CF g (g.pay i c w) := by
  unfold Game.pay
  split
  · exact CF.refl g
  · split
    · exact cf_payAllin g i _ w
    · exact cf_payPart g i _ c w

theorem newComb_hole (p : Player) (pw : Option Power) : (newComb p pw).hole = p.hole := by
  unfold Game.newComb; split <;> rfl

theorem cf_updateCombinations (g : Game) : CF g g.updateCombinations := cf_mapP g _ (fun p => newComb_hole p _)

theorem cf_roundClosed (g : Game) : CF g g.roundClosed :=
  ((cf_setEvent g _ (by decide)).trans (cf_resetAllAllowed _)).trans (cf_updatePots _)

theorem cf_requestPlayerAction (g : Game) : CF g g.requestPlayerAction := by
  unfold Game.requestPlayerAction
  split
  · exact cf_roundClosed g
  · split
    · exact cf_roundClosed g
    · split
      · exact CF.refl g
      · split
        · exact cf_roundClosed g
        · exact cf_setCurrentPlayer g _

theorem cf_requestReady (g : Game) : CF g g.requestReady :=
  (cf_resetAllAllowed g).trans (cf_setEvent _ _ (by decide))

theorem cf_prepareRound (g : Game) : CF g g.prepareRound := by
  unfold Game.prepareRound
  split
  · exact cf_requestReady g
  · split
    · exact cf_roundClosed g
    · exact cf_requestReady g

theorem cf_requestBlinds (g : Game) : CF g g.requestBlinds := by
  unfold Game.requestBlinds
  split
  · exact (cf_setEvent g _ (by decide)).trans (cf_prepareRound _)
  · exact cf_setEvent g _ (by decide)

theorem cf_afterRoundInitialized (g : Game) : CF g g.afterRoundInitialized := by
  unfold Game.afterRoundInitialized
  split
  · exact cf_requestBlinds g
  · exact cf_prepareRound g

theorem cf_seekBB : ∀ (k : Nat) (g : Game), CF g (seekBB k g)
  | 0, g => CF.refl g
  | k + 1, g => by
    unfold Game.seekBB
    split
    · split
      · exact cf_setCurrentPlayer g _
      · exact (cf_setCurrentPlayer g _).trans (cf_seekBB k _)
    · exact cf_setCurrentPlayer g _

theorem cf_openRound (g : Game) : CF g g.openRound :=
  (cf_setEvent g _ (by decide)).trans (cf_requestPlayerAction _)

theorem cf_startRound' (g : Game) : CF g g.startRound' := by
  unfold Game.startRound'
  split
  · split
    · exact cf_roundClosed g
    · exact ((cf_setCurrentPlayer g _).trans (cf_seekBB _ _)).trans (cf_openRound _)
  · exact (cf_setCurrentPlayer g _).trans (cf_openRound _)

theorem cf_startRound (g : Game) : CF g g.startRound := (cf_resetAllAllowed g).trans (cf_startRound' _)

theorem cf_gameCompleted (g : Game) : CF g g.gameCompleted :=
  ((cf_updatePots g).trans (cf_calculateGameResults _)).trans (cf_setEvent _ _ (by decide))

theorem cf_resume (g : Game) : CF g g.resume := by
  unfold Game.resume
  split
  · exact cf_requestPlayerAction g
  · exact cf_roundClosed g
  · exact CF.refl g

theorem cf_payAnteLoop : ∀ (is : List Nat) (g : Game), CF g (payAnteLoop is g).1
  | [], g => CF.refl g
  | i :: is, g => by
    unfold Game.payAnteLoop
    split
    · exact CF.refl g
    · split
      · exact CF.refl g
      · exact (cf_pay g i _ false).trans (cf_payAnteLoop is _)

theorem cf_payBlind (g : Game) (i : Nat) : CF g (g.payBlind i) := by
  unfold Game.payBlind
  split
  · exact CF.refl g
  · exact cf_pay g i _ true

theorem cf_foldl_payBlind : ∀ (is : List Nat) (g : Game), CF g (is.foldl payBlind g)
  | [], g => CF.refl g
  | i :: is, g => (cf_payBlind g i).trans (cf_foldl_payBlind is _)

theorem cf_blindsPaid (g : Game) : CF g g.blindsPaid :=
  (((cf_setPrev g _).trans (cf_resetAllAllowed _)).trans (cf_setEvent _ _ (by decide))).trans (cf_prepareRound _)

theorem cf_payBlinds (g : Game) : CF g g.payBlinds.1 := by
  unfold Game.payBlinds
  split
  · exact CF.refl g
  · exact (cf_foldl_payBlind _ g).trans (cf_blindsPaid _)

theorem cf_doCall (g : Game) (i : Nat) : CF g (g.doCall i) := by
  unfold Game.doCall
  split
  · exact CF.refl g
  · exact ((cf_setActed g i).trans (cf_pay _ i _ true)).trans (cf_resume _)

theorem cf_doAllin (g : Game) (i : Nat) : CF g (g.doAllin i) := by
  unfold Game.doAllin
  split
  · exact CF.refl g
  · rename_i p _
    have h1 : CF g (if p.initial - g.cw ≥ g.prev then (g.setActed i).setPrev (p.initial - g.cw) else g.setActed i) := by
      split
      · exact (cf_setActed g i).trans (cf_setPrev _ _)
      · exact cf_setActed g i
    exact (h1.trans (cf_pay _ i _ true)).trans (cf_resume _)

theorem cf_doFold (g : Game) (i : Nat) : CF g (g.doFold i) := by
  unfold Game.doFold
  exact (cf_modP g i (fun p => { p with fold := true, acted := true }) (fun _ => rfl)).trans (cf_resume _)

theorem cf_doBet (g : Game) (i : Nat) (x : Int) : CF g (g.doBet i x) :=
  (((cf_setActed g i).trans (cf_pay _ i x true)).trans (cf_setPrev _ _)).trans (cf_resume _)

theorem cf_doRaise (g : Game) (i : Nat) (p : Player) (x : Int) : CF g (g.doRaise i p x) := by
  unfold Game.doRaise
  simp only
  exact (((cf_setActed g i).trans (cf_setPrev _ _)).trans (cf_pay _ i _ true)).trans (cf_resume _)

/-- no player action touches a card -/
theorem cf_act (g : Game) (i : Nat) (a : Act) (x : Int) : CF g (g.act i a x).1 := by
  unfold Game.act
  cases a with
  | pass => simp only; split
            · exact CF.refl g
            · exact (cf_setActed g i).trans (cf_resume _)
  | pay => simp only; split
           · exact CF.refl g
           · exact (cf_pay g i x true).trans (cf_resume _)
  | fold => simp only; split
            · exact CF.refl g
            · exact cf_doFold g i
  | check => simp only; split
             · exact CF.refl g
             · exact (cf_setActed g i).trans (cf_resume _)
  | call => simp only; split
            · exact CF.refl g
            · exact cf_doCall g i
  | allin => simp only; split
             · exact CF.refl g
             · exact cf_doAllin g i
  | bet => simp only; split
           · exact CF.refl g
           · split
             · exact CF.refl g
             · exact cf_doBet g i x
  | raise =>
    simp only
    split
    · exact CF.refl g
    · split
      · exact CF.refl g
      · split
        · split
          · exact CF.refl g
          · exact cf_doCall g i
        · split
          · exact CF.refl g
          · split
            · split
              · exact CF.refl g
              · exact cf_doAllin g i
            · exact cf_doRaise g i _ x

/-! ### dealing -/

/-- what `dealHole`/`dealHoles` leave alone -/
structure DF (g g' : Game) : Prop where
  opts : g'.opts = g.opts
  board : g'.board = g.board
  burned : g'.burned = g.burned
  round : g'.round = g.round
  event : g'.event = g.event
  n : g'.n = g.n

theorem DF.refl (g : Game) : DF g g := ⟨rfl, rfl, rfl, rfl, rfl, rfl⟩
theorem DF.trans {a b c : Game} (h1 : DF a b) (h2 : DF b c) : DF a c :=
  ⟨h2.opts.trans h1.opts, h2.board.trans h1.board, h2.burned.trans h1.burned, h2.round.trans h1.round,
   h2.event.trans h1.event, h2.n.trans h1.n⟩

theorem df_dealHole (g : Game) (i : Nat) : DF g (g.dealHole i) :=
  ⟨rfl, rfl, rfl, rfl, rfl, by simp [Game.dealHole, Game.n, Game.modP, Game.advance]⟩

theorem df_dealHoles : ∀ (k i : Nat) (g : Game), DF g (dealHoles k i g)
  | 0, _, g => DF.refl g
  | k + 1, i, g => (df_dealHole g i).trans (df_dealHoles k (i + 1) _)

/-- the first `m` seats have been dealt their hole cards from the top of the deck -/
structure HD (deck : List Card) (hc m : Nat) (g : Game) : Prop where
  hdeck : g.opts.deck = deck
  hhc : g.opts.holeCount = hc
  pos : g.deckPos = m * hc
  cards : (g.players.take m).flatMap (·.hole) = deck.take (m * hc)
  len : ∀ p ∈ g.players.take m, p.hole.length = hc

theorem hd_dealHole {deck : List Card} {hc m : Nat} {g : Game} (h : HD deck hc m g) (hm : m < g.n)
    (hl : (m + 1) * hc ≤ deck.length) : HD deck hc (m + 1) (g.dealHole m) := by
  have hm' : m < g.players.length := hm
  have hd : g.dealt g.opts.holeCount = (deck.drop (m * hc)).take hc := by
    simp only [Game.dealt, h.hdeck, h.hhc, h.pos]
  have hpl : (g.dealHole m).players = g.players.modify m fun p => { p with hole := g.dealt g.opts.holeCount } := rfl
  have hmul : (m + 1) * hc = m * hc + hc := Nat.succ_mul m hc
  refine ⟨h.hdeck, h.hhc, ?_, ?_, ?_⟩
  · show g.deckPos + g.opts.holeCount = (m + 1) * hc
    rw [h.pos, h.hhc, hmul]
  · rw [hpl, take_succ_modify _ _ _ hm', List.flatMap_append, h.cards, hmul, take_add_dealt]
    simp [hd]
  · rw [hpl, take_succ_modify _ _ _ hm']
    intro p hp
    rcases List.mem_append.mp hp with hp | hp
    · exact h.len p hp
    · simp only [List.mem_singleton] at hp
      subst hp
      simp only [hd]
      exact length_drop_take (by omega)

theorem hd_dealHoles {deck : List Card} {hc : Nat} : ∀ (k i : Nat) (g : Game), HD deck hc i g → i + k = g.n →
    g.n * hc ≤ deck.length → HD deck hc (i + k) (dealHoles k i g)
  | 0, _, _, h, _, _ => h
  | k + 1, i, g, h, hn, hl => by
    have hlt : i < g.n := by omega
    have hle : (i + 1) * hc ≤ deck.length := Nat.le_trans (Nat.mul_le_mul_right hc (by omega)) hl
    have h1 := hd_dealHole h hlt hle
    have hn1 : (g.dealHole i).n = g.n := (df_dealHole g i).n
    have := hd_dealHoles k (i + 1) (g.dealHole i) h1 (by rw [hn1]; omega) (by rw [hn1]; exact hl)
    have e : i + (k + 1) = i + 1 + k := by omega
    rw [e]; exact this

theorem holeCountNow_of_ne {g : Game} (h : g.round ≠ .none) : g.holeCountNow = g.opts.holeCount := by
  simp [Game.holeCountNow, h]

/-- entering the preflop round from a state in which nothing has been dealt -/
theorem ccore_deal_preflop (g : Game) (hc : CCore g) (hr : g.round = .none) :
    CCore (g.setRound .preflop).dealStreet := by
  have hs : (g.setRound .preflop).dealStreet = dealHoles g.n 0 (g.setRound .preflop) := rfl
  rw [hs]
  have hcn : g.holeCountNow = 0 := by simp [Game.holeCountNow, hr]
  have hpos : g.deckPos = 0 := by
    have := hc.pos; rw [hcn, hr] at this; simpa [Round.boardCount, Round.burnCount] using this
  have hb : g.board = [] := List.eq_nil_of_length_eq_zero (by rw [hc.board, hr]; rfl)
  have hu : g.burned = [] := List.eq_nil_of_length_eq_zero (by rw [hc.burned, hr]; rfl)
  have h0 : HD g.opts.deck g.opts.holeCount 0 (g.setRound .preflop) :=
    ⟨rfl, rfl, by rw [Nat.zero_mul]; exact hpos, by simp, by simp⟩
  have hl : g.n * g.opts.holeCount ≤ g.opts.deck.length := by have := hc.long; omega
  have h1 := hd_dealHoles g.n 0 (g.setRound .preflop) h0 (by simp [Game.n, Game.setRound]) hl
  have hd := df_dealHoles g.n 0 (g.setRound .preflop)
  generalize dealHoles g.n 0 (g.setRound .preflop) = g2 at h1 hd
  have hn2 : g2.n = g.n := hd.n
  have hround : g2.round = .preflop := hd.round
  have hopts : g2.opts = g.opts := hd.opts
  have htake : g2.players.take (0 + g.n) = g2.players := by
    apply List.take_of_length_le; show g2.n ≤ 0 + g.n; omega
  have hcn2 : g2.holeCountNow = g.opts.holeCount := by rw [holeCountNow_of_ne (by rw [hround]; decide), hopts]
  have hpos2 : g2.deckPos = g.n * g.opts.holeCount := by simpa using h1.pos
  refine ⟨by rw [hopts]; exact hc.nodup, by rw [hn2, hopts]; exact hc.long, ?_, by rw [hd.board, hround]; show g.board.length = 0; rw [hb]; rfl,
    by rw [hd.burned, hround]; show g.burned.length = 0; rw [hu]; rfl, ?_, ?_⟩
  · intro p hp
    rw [hcn2]
    exact h1.len p (by rw [htake]; exact hp)
  · rw [hpos2, hn2, hcn2, hround]; rfl
  · have hcards := h1.cards
    rw [htake] at hcards
    have hbb : g2.board = [] := hd.board.trans hb
    have huu : g2.burned = [] := hd.burned.trans hu
    simp only [Game.dealtCards, Game.holeCards, hcards, hbb, huu, streetCards_nil, List.append_nil, hopts, hpos2]
    simp

/-- entering the flop, turn or river: burn one, deal `k` board cards, start at the dealer -/
theorem ccore_deal_street (g : Game) (hc : CCore g) (r : Round) (k : Nat)
    (hr : (g.round = .preflop ∧ r = .flop ∧ k = 3) ∨ (g.round = .flop ∧ r = .turn ∧ k = 1) ∨
          (g.round = .turn ∧ r = .river ∧ k = 1)) (d : Nat) :
    CCore ((((g.setRound r).burn 1).dealBoard k).setCurrentPlayer d) := by
  apply (cf_setCurrentPlayer _ d).core
  have hne : g.round ≠ .none := by rcases hr with ⟨h, _⟩ | ⟨h, _⟩ | ⟨h, _⟩ <;> rw [h] <;> decide
  have hne' : r ≠ .none := by rcases hr with ⟨_, h, _⟩ | ⟨_, h, _⟩ | ⟨_, h, _⟩ <;> rw [h] <;> decide
  have hcn := holeCountNow_of_ne hne
  have hpos := hc.pos
  rw [hcn] at hpos
  have hcounts : r.boardCount = g.round.boardCount + k ∧ r.burnCount = g.round.burnCount + 1 ∧
      g.round.boardCount + g.round.burnCount + 1 + k ≤ 8 := by
    rcases hr with ⟨h, h2, h3⟩ | ⟨h, h2, h3⟩ | ⟨h, h2, h3⟩ <;> rw [h, h2, h3] <;> decide
  have hlen : g.deckPos + 1 + k ≤ g.opts.deck.length := by have := hc.long; omega
  let X := (g.opts.deck.drop g.deckPos).take 1
  let Y := (g.opts.deck.drop (g.deckPos + 1)).take k
  have hX : X.length = 1 := length_drop_take (by omega)
  have hY : Y.length = k := length_drop_take (by omega)
  have hst : streetCards (g.burned ++ X) (g.board ++ Y) = streetCards g.burned g.board ++ X ++ Y := by
    apply streetCards_step _ _ _ _ hX
    have hb := hc.board; have hu := hc.burned
    rcases hr with ⟨h, _, h3⟩ | ⟨h, _, h3⟩ | ⟨h, _, h3⟩
    · left; rw [h] at hb hu; exact ⟨hu, hb, by rw [hY, h3]⟩
    · right; left; rw [h] at hb hu; exact ⟨hu, hb, by rw [hY, h3]⟩
    · right; right; rw [h] at hb hu; exact ⟨hu, hb, by rw [hY, h3]⟩
  have hcn2 : (((g.setRound r).burn 1).dealBoard k).holeCountNow = g.opts.holeCount := by
    simp [Game.holeCountNow, Game.dealBoard, Game.burn, Game.advance, Game.setRound, hne']
  refine ⟨hc.nodup, hc.long, ?_, ?_, ?_, ?_, ?_⟩
  · intro p hp
    rw [hcn2, ← hcn]; exact hc.holes p hp
  · show (g.board ++ Y).length = r.boardCount
    rw [List.length_append, hY, hc.board, hcounts.1]
  · show (g.burned ++ X).length = r.burnCount
    rw [List.length_append, hX, hc.burned, hcounts.2.1]
  · rw [hcn2]
    show g.deckPos + 1 + k = g.n * g.opts.holeCount + r.boardCount + r.burnCount
    rw [hcounts.1, hcounts.2.1]; omega
  · show g.holeCards ++ streetCards (g.burned ++ X) (g.board ++ Y) = g.opts.deck.take (g.deckPos + 1 + k)
    rw [hst, take_add_dealt, take_add_dealt, ← hc.pref]
    simp only [Game.dealtCards, List.append_assoc, X, Y]

end Pokerface
