import Pokerface.Proofs.SettleGame
/-
  The levels of `potsOf es` settled against the rows of the same players (helper lemmas for C02).
-/
namespace Pokerface

/-- A settlement row `(idx, bankroll, folded, score)`. -/
abbrev Row := Nat × Int × Bool × Int

/-- Score with which a row enters the ranking (`CalculateGameResults`: folded ⇒ 0). -/
def eff (r : Row) : Int := if r.2.2.1 then 0 else r.2.2.2

/-- Inputs of a showdown: pot entries `(idx, contribution, folded)` and rows for the same players
    in the same order; distinct idx, contributions ≥ 0, non-folded scores > 0 (reading I4). -/
structure GameIn (es : List (Nat × Int × Bool)) (rows : List Row) : Prop where
  nodup : (es.map (·.1)).Nodup
  nonneg : ∀ e ∈ es, 0 ≤ e.2.1
  same : rows.map (fun r => (r.1, r.2.2.1)) = es.map (fun e => (e.1, e.2.2))
  pos : ∀ r ∈ rows, r.2.2.1 = false → 0 < r.2.2.2

namespace GameIn
variable {es : List (Nat × Int × Bool)} {rows : List Row}

theorem idx_eq (g : GameIn es rows) : rows.map (·.1) = es.map (·.1) := by
  have := congrArg (List.map (fun x : Nat × Bool => x.1)) g.same
  simpa [List.map_map, Function.comp_def] using this

theorem rows_nodup (g : GameIn es rows) : (rows.map (·.1)).Nodup := g.idx_eq ▸ g.nodup

theorem row_of_entry (g : GameIn es rows) {i : Nat} {c : Int} {f : Bool} (h : (i, c, f) ∈ es) :
    ∃ r ∈ rows, r.1 = i ∧ r.2.2.1 = f := by
  have : (i, f) ∈ es.map (fun e => (e.1, e.2.2)) := List.mem_map.2 ⟨_, h, rfl⟩
  rw [← g.same] at this
  obtain ⟨r, hr, he⟩ := List.mem_map.1 this
  simp only [Prod.mk.injEq] at he
  exact ⟨r, hr, he.1, he.2⟩

theorem entry_of_row (g : GameIn es rows) {r : Row} (h : r ∈ rows) :
    ∃ c, (r.1, c, r.2.2.1) ∈ es := by
  have : (r.1, r.2.2.1) ∈ rows.map (fun r => (r.1, r.2.2.1)) := List.mem_map.2 ⟨_, h, rfl⟩
  rw [g.same] at this
  obtain ⟨⟨i, c, f⟩, he, hh⟩ := List.mem_map.1 this
  simp only [Prod.mk.injEq] at hh
  exact ⟨c, by rw [← hh.1, ← hh.2]; exact he⟩

theorem entry_unique (g : GameIn es rows) {i : Nat} {c c' : Int} {f f' : Bool}
    (h : (i, c, f) ∈ es) (h' : (i, c', f') ∈ es) : c = c' ∧ f = f' := by
  have := eq_of_nodup_map (·.1) g.nodup h h' rfl
  simp only [Prod.mk.injEq, true_and] at this
  exact this

theorem row_unique (g : GameIn es rows) {r r' : Row} (h : r ∈ rows) (h' : r' ∈ rows) (e : r.1 = r'.1) :
    r = r' := eq_of_nodup_map (·.1) g.rows_nodup h h' e

theorem eff_nonneg (g : GameIn es rows) {r : Row} (h : r ∈ rows) : 0 ≤ eff r := by
  unfold eff; split
  · exact Int.le_refl _
  · rename_i hf
    have := g.pos r h (by simpa using hf)
    omega

theorem eff_pos (g : GameIn es rows) {r : Row} (h : r ∈ rows) (hf : r.2.2.1 = false) : 0 < eff r := by
  unfold eff; rw [hf]; exact g.pos r h hf

theorem valid (g : GameIn es rows) :
    (∀ kv ∈ (llOf es).contribs, kv.2 ∈ (llOf es).levels.map (·.level)) ∧
    (∀ L ∈ (llOf es).levels.map (·.level), 0 ≤ L) := by
  constructor
  · intro kv hkv
    rw [llOf_contribs es g.nodup] at hkv
    obtain ⟨f, hf⟩ := hkv
    exact (llOf_levels es kv.2).2 ⟨_, hf, rfl⟩
  · intro L hL
    rw [llOf_levels] at hL
    obtain ⟨e, he, rfl⟩ := hL
    exact g.nonneg e he

/-- Contributors of a level of the list. -/
theorem mem_level (g : GameIn es rows) {l : Level} (hl : l ∈ (llOf es).levels) (i : Nat) :
    i ∈ l.contributors ↔ ∃ c f, (i, c, f) ∈ es ∧ l.level ≤ c := by
  have hc : l.contributors = contribsAt (llOf es).contribs l.level := by
    have h := (llOf_inv es).levels
    rw [h] at hl
    exact mkLevelsFrom_contributors _ _ _ l hl
  rw [hc, mem_contribsAt]
  constructor
  · rintro ⟨v, hv, hle⟩
    rw [llOf_contribs es g.nodup] at hv
    obtain ⟨f, hf⟩ := hv
    exact ⟨v, f, hf, hle⟩
  · rintro ⟨c, f, hm, hle⟩
    exact ⟨c, (llOf_contribs es g.nodup (i, c)).2 ⟨f, hm⟩, hle⟩

theorem level_contributors_sorted (_g : GameIn es rows) {l : Level} (hl : l ∈ (llOf es).levels) :
    l.contributors.Pairwise (· < ·) := by
  have h := (llOf_inv es).levels
  rw [h] at hl
  rw [mkLevelsFrom_contributors _ _ _ l hl]
  exact contribsAt_sorted (llOf_inv es).contribs _

theorem level_facts (g : GameIn es rows) {l : Level} (hl : l ∈ (llOf es).levels) :
    0 ≤ l.wager ∧ l.total = (l.contributors.length : Int) * l.wager := by
  have h := (llOf_inv es).levels
  rw [h] at hl
  exact mkLevelsFrom_level_facts _ _ _ g.valid.2 (llOf_inv es).sorted l hl

theorem level_ne (_g : GameIn es rows) {l : Level} (hl : l ∈ (llOf es).levels) :
    ∃ i c f, (i, c, f) ∈ es ∧ c = l.level := by
  have : l.level ∈ (llOf es).levels.map (·.level) := List.mem_map_of_mem hl
  rw [llOf_levels] at this
  obtain ⟨⟨i, c, f⟩, he, hc⟩ := this
  exact ⟨i, c, f, he, hc⟩

theorem mem_scoredRows (_g : GameIn es rows) (C : List Nat) (x : Nat × Int) :
    x ∈ scoredRows rows C ↔ ∃ r ∈ rows, r.1 ∈ C ∧ x = (r.1, eff r) := by
  simp only [scoredRows, List.mem_map, List.mem_filter, List.contains_eq_mem, decide_eq_true_eq, eff]
  constructor
  · rintro ⟨r, ⟨h1, h2⟩, rfl⟩; exact ⟨r, h1, h2, rfl⟩
  · rintro ⟨r, h1, h2, rfl⟩; exact ⟨r, ⟨h1, h2⟩, rfl⟩

theorem scoredRows_keys (_g : GameIn es rows) (C : List Nat) :
    (scoredRows rows C).map (·.1) = (rows.map (·.1)).filter (fun i => C.contains i) := by
  simp only [scoredRows, List.map_map, List.filter_map, Function.comp_def]

/-- The level is well formed for the level-by-level analysis. -/
theorem level_wf (g : GameIn es rows) {l : Level} (hl : l ∈ (llOf es).levels) :
    LevelWF (scoredRows rows l.contributors) (toInfo rows l) := by
  have hnd : ((scoredRows rows l.contributors).map (·.1)).Nodup := by
    rw [g.scoredRows_keys]; exact g.rows_nodup.sublist List.filter_sublist
  have hperm : ((scoredRows rows l.contributors).map (·.1)).Perm l.contributors := by
    rw [List.perm_ext_iff_of_nodup hnd ((g.level_contributors_sorted hl).imp (fun {a b} hab => by omega))]
    intro i
    rw [g.scoredRows_keys]
    simp only [List.mem_filter, List.contains_eq_mem, decide_eq_true_eq]
    constructor
    · exact fun h => h.2
    · intro h
      refine ⟨?_, h⟩
      obtain ⟨c, f, hm, _⟩ := (g.mem_level hl i).1 h
      rw [g.idx_eq]
      exact List.mem_map.2 ⟨_, hm, rfl⟩
  refine ⟨rfl, hperm, hnd, ?_, (g.level_facts hl).1, (g.level_facts hl).2⟩
  obtain ⟨i, c, f, he, hc⟩ := g.level_ne hl
  have : i ∈ l.contributors := (g.mem_level hl i).2 ⟨c, f, he, by omega⟩
  intro hnil
  have := hperm.symm.subset this
  rw [hnil] at this
  simp at this

end GameIn

/-! ### one player at one level -/

theorem net_of_mem_nodup (us : List (Nat × Int)) (h : (us.map (·.1)).Nodup) {i : Nat} {d : Int}
    (hm : (i, d) ∈ us) : net us i = d := by
  induction us with
  | nil => simp at hm
  | cons u us ih =>
    simp only [List.map_cons, List.nodup_cons] at h
    rw [net_cons]
    simp only [List.mem_cons] at hm
    rcases hm with rfl | hm
    · simp only [if_true]
      rw [net_eq_zero _ _ h.1]; omega
    · have : u.1 ≠ i := by
        intro e
        apply h.1
        rw [e]
        exact List.mem_map.2 ⟨_, hm, rfl⟩
      simp only [this, if_false, ih h.2 hm]; omega

section level
variable {es : List (Nat × Int × Bool)} {rows : List Row}

/-- The update addressed to a contributor. -/
theorem exists_update (g : GameIn es rows) {l : Level} (hl : l ∈ (llOf es).levels) (o : Int) {i : Nat}
    (hi : i ∈ l.contributors) :
    ∃ d, (i, d) ∈ levelUpdates (toInfo rows l) o ∧ net (levelUpdates (toInfo rows l) o) i = d := by
  have hk := levelUpdates_keys (g.level_wf hl) o
  have : i ∈ (levelUpdates (toInfo rows l) o).map (·.1) := hk.symm.subset hi
  obtain ⟨⟨j, d⟩, hu, rfl⟩ := List.mem_map.1 this
  refine ⟨d, hu, net_of_mem_nodup _ ?_ hu⟩
  exact hk.symm.nodup ((g.level_contributors_sorted hl).imp (fun {a b} hab => by omega))

theorem net_not_contributor (g : GameIn es rows) {l : Level} (hl : l ∈ (llOf es).levels) (o : Int) {i : Nat}
    (hi : i ∉ l.contributors) : net (levelUpdates (toInfo rows l) o) i = 0 := by
  apply net_eq_zero
  intro h
  exact hi ((levelUpdates_keys (g.level_wf hl) o).subset h)

theorem net_bounds (g : GameIn es rows) {l : Level} (hl : l ∈ (llOf es).levels) (o : Int) (ho : 0 ≤ o) {i : Nat}
    (hi : i ∈ l.contributors) :
    -l.wager ≤ net (levelUpdates (toInfo rows l) o) i ∧
      net (levelUpdates (toInfo rows l) o) i ≤ l.total - l.wager := by
  obtain ⟨d, hu, hd⟩ := exists_update g hl o hi
  rw [hd]
  exact levelUpdates_bounds (g.level_wf hl) o ho _ hu

/-- Winners of a level, in terms of rows. -/
theorem mem_levelWinners (g : GameIn es rows) {l : Level} (hl : l ∈ (llOf es).levels) :
    ∃ M, (∀ r ∈ rows, r.1 ∈ l.contributors → eff r ≤ M) ∧ (∃ r ∈ rows, r.1 ∈ l.contributors ∧ eff r = M) ∧
      levelWinners (toInfo rows l)
        = (rows.filter (fun r => l.contributors.contains r.1 && decide (eff r = M))).map (·.1) := by
  obtain ⟨M, h1, ⟨x, hx, hxM⟩, hW, _⟩ := levelWinners_spec (g.level_wf hl)
  refine ⟨M, ?_, ?_, ?_⟩
  · intro r hr hc
    exact h1 (r.1, eff r) ((g.mem_scoredRows _ _).2 ⟨r, hr, hc, rfl⟩)
  · obtain ⟨r, hr, hc, rfl⟩ := (g.mem_scoredRows _ _).1 hx
    exact ⟨r, hr, hc, hxM⟩
  · rw [hW]
    simp only [scoredRows, List.filter_map, List.map_map, List.filter_filter, Function.comp_def, eff]
    congr 1
    apply List.filter_congr
    intro r _
    exact Bool.and_comm _ _

/-- When every contributor enters with the same score, nobody loses anything at this level. -/
theorem net_all_equal (g : GameIn es rows) {l : Level} (hl : l ∈ (llOf es).levels) (o : Int) (s : Int)
    (hall : ∀ r ∈ rows, r.1 ∈ l.contributors → eff r = s) (i : Nat) :
    net (levelUpdates (toInfo rows l) o) i = 0 := by
  by_cases hi : i ∈ l.contributors
  · obtain ⟨d, hu, hd⟩ := exists_update g hl o hi
    rw [hd]
    apply levelUpdates_all_win (g.level_wf hl) o _ _ hu
    -- winners are all the contributors
    obtain ⟨M, h1, ⟨x, hx, hxM⟩, hW, hperm⟩ := levelWinners_spec (g.level_wf hl)
    have hMs : M = s := by
      obtain ⟨r, hr, hc, rfl⟩ := (g.mem_scoredRows _ _).1 hx
      rw [← hxM]; exact hall r hr hc
    have hfull : (scoredRows rows l.contributors).filter (fun x => x.2 = M) = scoredRows rows l.contributors := by
      apply List.filter_eq_self.2
      intro y hy
      obtain ⟨r, hr, hc, rfl⟩ := (g.mem_scoredRows _ _).1 hy
      simp only [decide_eq_true_eq]
      rw [hMs]; exact hall r hr hc
    rw [hfull] at hW
    have hlen := hperm.length_eq
    rw [List.length_append, hW] at hlen
    have : (levelLosers (toInfo rows l)).length = 0 := by omega
    exact List.length_eq_zero_iff.1 this
  · exact net_not_contributor g hl o hi

/-- A contributor whose score is not the best of the level loses the level's wager. -/
theorem net_loser (g : GameIn es rows) {l : Level} (hl : l ∈ (llOf es).levels) (o : Int) {r r' : Row}
    (hr : r ∈ rows) (hc : r.1 ∈ l.contributors) (hr' : r' ∈ rows) (hc' : r'.1 ∈ l.contributors)
    (hlt : eff r < eff r') : net (levelUpdates (toInfo rows l) o) r.1 = -l.wager := by
  obtain ⟨d, hu, hd⟩ := exists_update g hl o hc
  rw [hd]
  apply levelUpdates_loser (g.level_wf hl) o _ hu
  obtain ⟨M, h1, _, hW⟩ := mem_levelWinners g hl
  rw [hW]
  intro hmem
  obtain ⟨r2, hr2, he⟩ := List.mem_map.1 hmem
  simp only [List.mem_filter, Bool.and_eq_true, decide_eq_true_eq] at hr2
  have : r2 = r := g.row_unique hr2.1 hr he
  subst this
  have := h1 r' hr' hc'
  omega

end level

end Pokerface
