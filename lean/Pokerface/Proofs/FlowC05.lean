import Pokerface.Proofs.FlowCards
/-
  Helper lemmas for C05: the hand ends at once when one player is left; later streets open for
  betting only with two stacks.
-/
namespace Pokerface
open Game

/-- after an accepted action that leaves one player, the round is closed -/
theorem act_alone_closed (g : Game) (hi : Inv g) (i : Nat) (a : Act) (x : Int) (hacc : (g.act i a x).2 = none)
    (h1 : (g.act i a x).1.aliveCount = 1) : (g.act i a x).1.event = .roundClosed := by
  obtain ⟨p, g1, hp, he, hc, e, sh⟩ := act_shape2 g hi i a x hacc
  obtain ⟨hm, hq, _⟩ := shape_mid hi he sh
  rw [e] at h1 ⊢
  rw [(mov_resume g1).alive] at h1
  unfold Game.resume
  rw [hm.ev]
  simp only
  unfold Game.requestPlayerAction
  rw [if_pos h1]
  rfl

/-- `Next` on a closed round with one player left: the hand is closed, no card is dealt -/
theorem next_alone (g : Game) (hf : Flow g) (he : g.event = .roundClosed) (h1 : g.aliveCount = 1) :
    (g.step .next).2 = none ∧ (g.step .next).1.event = .gameClosed ∧ (g.step .next).1.deckPos = g.deckPos ∧
    (g.step .next).1.board = g.board ∧ (g.step .next).1.burned = g.burned := by
  have hr := hf.round_ne (by rw [he]; simp) (by rw [he]; simp)
  have m : Mov g g.resetRoundStatus.resetAllPlayerStatus := (mov_resetRoundStatus g).trans (mov_resetAllPlayerStatus _)
  have h1' : g.resetRoundStatus.resetAllPlayerStatus.aliveCount = 1 := by rw [m.alive]; exact h1
  have e : (g.step .next) = (g.resetRoundStatus.resetAllPlayerStatus.gameCompleted, none) := by
    simp only [Game.step, Game.next, he, ne_eq, not_true_eq_false, if_false, hr, Game.nextRound]
    unfold Game.nextRound'
    rw [if_pos h1']
  rw [e]
  exact ⟨rfl, rfl, rfl, rfl, rfl⟩

/-- entering a later street: the chain runs into `prepareRound` on a state with the same stacks -/
theorem enterRound_postflop (g : Game) (r : Round) (hr : r ≠ .preflop) :
    ∃ y : Game, g.enterRound r = y.prepareRound ∧ y.round = r ∧ Mov g y := by
  refine ⟨((g.setRound r).dealStreet.updateCombinations).setEvent .roundInitialized, ?_, ?_, ?_⟩
  · unfold Game.enterRound Game.initializeRound Game.afterRoundInitialized
    have : (((g.setRound r).dealStreet.updateCombinations).setEvent .roundInitialized).round = r := by
      show (g.setRound r).dealStreet.round = r
      rw [dealStreet_round]; rfl
    rw [this, if_neg hr]
  · show (g.setRound r).dealStreet.round = r
    rw [dealStreet_round]; rfl
  · exact ((mov_setRound g r).trans (mov_dealStreet _)).trans ((mov_updateCombinations _).trans (mov_setEvent _ _))

theorem flow_prepareRound_event (g : Game) (hr : g.round ≠ .preflop) :
    (g.movableCount ≤ 1 → g.prepareRound.event = .roundClosed) ∧
    (2 ≤ g.movableCount → g.prepareRound.event = .readyRequested) := by
  unfold Game.prepareRound
  rw [if_neg hr]
  constructor
  · intro h; rw [if_pos h]; rfl
  · intro h; rw [if_neg (by omega)]; rfl

/-- `Next` on a closed round with at least two players left, before the river: the next street is
    dealt, and it is opened for betting exactly when two players still have chips -/
theorem next_street (g : Game) (he : g.event = .roundClosed) (h1 : g.aliveCount ≠ 1)
    (hr : g.round = .preflop ∨ g.round = .flop ∨ g.round = .turn) :
    (g.step .next).2 = none ∧ (g.step .next).1.round.idx = g.round.idx + 1 ∧
    (g.movableCount ≤ 1 → (g.step .next).1.event = .roundClosed) ∧
    (2 ≤ g.movableCount → (g.step .next).1.event = .readyRequested) ∧
    (g.step .next).1.movableCount = g.movableCount ∧ (g.step .next).1.aliveCount = g.aliveCount := by
  have m : Mov g g.resetRoundStatus.resetAllPlayerStatus := (mov_resetRoundStatus g).trans (mov_resetAllPlayerStatus _)
  have q : Quiet g g.resetRoundStatus.resetAllPlayerStatus :=
    (quiet_resetRoundStatus g).trans (quiet_resetAllPlayerStatus _)
  have h1' : ¬ g.resetRoundStatus.resetAllPlayerStatus.aliveCount = 1 := by rw [m.alive]; exact h1
  have hrn : g.round ≠ .none := by rcases hr with h | h | h <;> rw [h] <;> simp
  have key : ∀ r : Round, r ≠ .preflop → r.idx = g.round.idx + 1 →
      g.resetRoundStatus.resetAllPlayerStatus.nextRound' = g.resetRoundStatus.resetAllPlayerStatus.enterRound r →
      (g.step .next).2 = none ∧ (g.step .next).1.round.idx = g.round.idx + 1 ∧
      (g.movableCount ≤ 1 → (g.step .next).1.event = .roundClosed) ∧
      (2 ≤ g.movableCount → (g.step .next).1.event = .readyRequested) ∧
      (g.step .next).1.movableCount = g.movableCount ∧ (g.step .next).1.aliveCount = g.aliveCount := by
    intro r hrp hidx hnr
    have e : (g.step .next) = (g.resetRoundStatus.resetAllPlayerStatus.enterRound r, none) := by
      simp only [Game.step, Game.next, he, ne_eq, not_true_eq_false, if_false, hrn, Game.nextRound]
      rw [hnr]
    rw [e]
    obtain ⟨y, hy, hyr, hym⟩ := enterRound_postflop g.resetRoundStatus.resetAllPlayerStatus r hrp
    have hp := flow_prepareRound_event y (by rw [hyr]; exact hrp)
    have mm := (m.trans hym).trans (mov_prepareRound y)
    simp only
    rw [hy]
    refine ⟨by trivial, ?_, ?_, ?_, mm.movable, mm.alive⟩
    · rw [(quiet_prepareRound y).round, hyr]; exact hidx
    · intro h; exact hp.1 (by rw [(m.trans hym).movable]; exact h)
    · intro h; exact hp.2 (by rw [(m.trans hym).movable]; exact h)
  have hround : g.resetRoundStatus.resetAllPlayerStatus.round = g.round := q.round
  rcases hr with h | h | h
  · apply key .flop (by simp) (by rw [h]; rfl)
    unfold Game.nextRound'
    rw [if_neg h1']
    simp only [hround, h]
  · apply key .turn (by simp) (by rw [h]; rfl)
    unfold Game.nextRound'
    rw [if_neg h1']
    simp only [hround, h]
  · apply key .river (by simp) (by rw [h]; rfl)
    unfold Game.nextRound'
    rw [if_neg h1']
    simp only [hround, h]

/-- `ready` on a later street opens the betting round on a state with the same stacks -/
theorem ready_postflop (g : Game) (he : g.event = .readyRequested) (hr : g.round ≠ .none) :
    (g.step .ready).1.movableCount = g.movableCount ∧ (g.step .ready).1.aliveCount = g.aliveCount ∧
    (g.step .ready).1.round = g.round := by
  have e : (g.step .ready).1 = g.resetAllAllowed.startRound := by
    simp only [Game.step, Game.readyForAll, he, ne_eq, not_true_eq_false, if_false, Game.readiness]
    have : g.resetAllAllowed.round = g.round := rfl
    rw [this, if_neg hr]
  rw [e]
  have m := (mov_resetAllAllowed g).trans (mov_startRound _)
  have q := (quiet_resetAllAllowed g).trans (quiet_startRound _)
  exact ⟨m.movable, m.alive, q.round⟩

end Pokerface
