/-
  The newcomer's arrival in ANY state (not only as the first operation after a successful `next`), with other
  players' operations on other seats before, between and after his `Join` and `Seat`, and between the `next`s.
-/
import Pokerface.Proofs.SMNewcomer
import Pokerface.Proofs.SMGapsNewcomer

namespace Pokerface
namespace SM

/-- A non-`next` operation changes neither the dealer nor the table size. -/
theorem step_dealer_max (T : SM) {op : SMOp} (h : op ≠ .next) :
    (T.step op).1.dealer = T.dealer ∧ (T.step op).1.max = T.max := by
  cases op with
  | join seat pid c =>
    rcases step_join_cases T seat pid c with ⟨e, he⟩ | ⟨i, s, _, _, _, he⟩ <;> rw [he] <;> simp [setSeat]
  | seat id =>
    rcases step_seat_cases T id with ⟨_, he⟩ | ⟨i, _, _, he⟩ <;> rw [he] <;> simp [modSeat]
  | reserve id =>
    rcases step_reserve_cases T id with ⟨_, he⟩ | ⟨i, _, _, he⟩ <;> rw [he] <;> simp [modSeat]
  | leave id =>
    rcases step_leave_cases T id with ⟨e, he⟩ | ⟨i, s, _, _, _, he⟩ <;> rw [he] <;> simp [setSeat]
  | next => exact absurd rfl h

/-- `Aside x T op`: the operation `op`, applied in `T`, is not `next` and leaves seat `x` exactly as it is
(somebody else's operation on another seat, or an operation that is refused). -/
def Aside (x : Nat) (T : SM) (op : SMOp) : Prop :=
  op ≠ .next ∧ (T.step op).1.seats[x]? = T.seats[x]?

/-- A syntactic sufficient condition for `Aside`: a `Seat`/`Reserve`/`Leave` on another seat id, or a `Join` that did
not land on `x`. -/
def Other (x : Nat) (T : SM) : SMOp → Prop
  | .join seat pid c => (T.step (.join seat pid c)).2.2 ≠ some x
  | .seat id => id ≠ (x : Int)
  | .reserve id => id ≠ (x : Int)
  | .leave id => id ≠ (x : Int)
  | .next => False

theorem Other.aside {x : Nat} {T : SM} {op : SMOp} (h : Other x T op) : Aside x T op := by
  cases op with
  | join seat pid c =>
    refine ⟨by simp, ?_⟩
    rcases step_join_cases T seat pid c with ⟨e, he⟩ | ⟨i, s, _, _, _, he⟩
    · rw [he]
    · have hi : i ≠ x := by
        intro hix; apply h; rw [he, hix]
      rw [he]; simp only; rw [setSeat_seats, if_neg hi]
  | seat id =>
    refine ⟨by simp, ?_⟩
    rcases step_seat_cases T id with ⟨_, he⟩ | ⟨i, hid, _, he⟩
    · rw [he]
    · have hi : i ≠ x := by intro hix; apply h; rw [hid, hix]
      rw [he]; simp only; rw [modSeat_seats, if_neg hi]
  | reserve id =>
    refine ⟨by simp, ?_⟩
    rcases step_reserve_cases T id with ⟨_, he⟩ | ⟨i, hid, _, he⟩
    · rw [he]
    · have hi : i ≠ x := by intro hix; apply h; rw [hid, hix]
      rw [he]; simp only; rw [modSeat_seats, if_neg hi]
  | leave id =>
    refine ⟨by simp, ?_⟩
    rcases step_leave_cases T id with ⟨e, he⟩ | ⟨i, s, hid, _, _, he⟩
    · rw [he]
    · have hi : i ≠ x := by intro hix; apply h; rw [hid, hix]
      rw [he]; simp only; rw [setSeat_seats, if_neg hi]
  | next => exact absurd h id

/-- Every operation of the list, applied in turn from `T`, is `Aside x`. -/
def AsideRun (x : Nat) : SM → List SMOp → Prop
  | _, [] => True
  | T, op :: ops => Aside x T op ∧ AsideRun x (T.step op).1 ops

theorem run_cons (T : SM) (op : SMOp) (ops : List SMOp) : T.run (op :: ops) = (T.step op).1.run ops := rfl

theorem AsideRun.frame {x : Nat} : ∀ {ops : List SMOp} {T : SM}, AsideRun x T ops →
    (T.run ops).dealer = T.dealer ∧ (T.run ops).max = T.max ∧ (T.run ops).seats[x]? = T.seats[x]?
  | [], _, _ => ⟨rfl, rfl, rfl⟩
  | op :: ops, T, h => by
    obtain ⟨⟨hne, hx⟩, hrest⟩ := h
    obtain ⟨h1, h2, h3⟩ := AsideRun.frame hrest
    obtain ⟨g1, g2⟩ := step_dealer_max T hne
    rw [run_cons]
    exact ⟨h1.trans g1, h2.trans g2, h3.trans hx⟩

/-- All operations of the list are `Other x` (syntactic form). -/
def OtherRun (x : Nat) : SM → List SMOp → Prop
  | _, [] => True
  | T, op :: ops => Other x T op ∧ OtherRun x (T.step op).1 ops

theorem OtherRun.asideRun {x : Nat} : ∀ {ops : List SMOp} {T : SM}, OtherRun x T ops → AsideRun x T ops
  | [], _, _ => trivial
  | _ :: _, _, h => ⟨h.1.aside, OtherRun.asideRun h.2⟩

/-- A `Join` (explicit seat or `-1`) that is accepted and lands on `x`: seat `x` held nobody, and the new state is the old
one with `x` holding the newcomer, reserved. -/
theorem join_landed {T : SM} {seat : Int} {pid : Nat} {c : Option Nat} {x : Nat}
    (h : (T.step (.join seat pid c)).2 = (none, some x)) :
    ∃ s, T.seats[x]? = some s ∧ s.player = none ∧ (seat = -1 ∨ seat = (x : Int)) ∧
      (T.step (.join seat pid c)).1 = T.setSeat x { s with reserved := true, player := some pid } := by
  rcases step_join_cases T seat pid c with ⟨e, he⟩ | ⟨i, s, h1, h2, h3, he⟩
  · rw [he] at h; cases h
  · rw [he] at h
    simp only [Prod.mk.injEq, Option.some.injEq, true_and] at h
    subst h
    exact ⟨s, h1, h2, h3, by rw [he]⟩

/-- D4 exclusion as a state predicate: at most one playable seat strictly between the dealer `d` and the seat `a`
places clockwise after him. -/
def FewBetween (T : SM) (d a : Nat) : Prop :=
  ∀ j1 j2, 0 < j1 → j1 < a → 0 < j2 → j2 < a →
    T.playable ((d + j1) % T.max) = true → T.playable ((d + j2) % T.max) = true → j1 = j2

/-- `Waiting` only depends on the dealer, the table size, seat `x`, the invariant, and the two exclusions
(at least two playable seats = no D10; at most one playable seat between dealer and `x` = no D4). -/
theorem Waiting.of_frame {T T' : SM} {x d a : Nat} (w : Waiting T x d a) (hinv : Inv T')
    (hd : T'.dealer = T.dealer) (hm : T'.max = T.max) (hx : T'.seats[x]? = T.seats[x]?)
    (hD10 : 2 ≤ T'.playableCount) (hD4 : FewBetween T' d a) : Waiting T' x d a :=
  ⟨hinv, hd.trans w.dealer, hD10, w.a_pos, hm ▸ w.a_lt, hm ▸ w.x_eq, hx ▸ w.seat, hD4⟩

theorem Waiting.aside {T : SM} {x d a : Nat} (w : Waiting T x d a) {ops : List SMOp} (h : AsideRun x T ops)
    (hD10 : 2 ≤ (T.run ops).playableCount) (hD4 : FewBetween (T.run ops) d a) : Waiting (T.run ops) x d a := by
  obtain ⟨h1, h2, h3⟩ := h.frame
  exact w.of_frame (run_inv w.inv ops) h1 h2 h3 hD10 hD4

/-- **Arrival in any state.**  `A` any state satisfying the invariant, dealer `d`, seat `x` `a` places after the dealer,
existing and *inactive* in `A`.  History: `pre` (asides), a `Join` (explicit seat or `-1`) accepted on seat `x`, `mid`
(asides), `Seat(x)`, `post` (asides).  If in the resulting state `T` at least two seats are playable and at most one
playable seat lies strictly between dealer and `x`, the newcomer is `Waiting` in `T`. -/
theorem waiting_arrival {A : SM} (hA : Inv A) {d a x : Nat} {s : Seat}
    (hd : A.dealer = some d) (ha0 : 0 < a) (ha : a < A.max) (hx : x = (d + a) % A.max)
    (hs : A.seats[x]? = some s) (hina : s.active = false)
    (seat : Int) (pid : Nat) (c : Option Nat) (pre mid post : List SMOp)
    (hpre : AsideRun x A pre)
    (hj : ((A.run pre).step (.join seat pid c)).2 = (none, some x))
    (hmid : AsideRun x ((A.run pre).step (.join seat pid c)).1 mid)
    (hpost : AsideRun x ((((A.run pre).step (.join seat pid c)).1.run mid).step (.seat (x : Int))).1 post)
    (hD10 : 2 ≤ (((((A.run pre).step (.join seat pid c)).1.run mid).step (.seat (x : Int))).1.run post).playableCount)
    (hD4 : FewBetween (((((A.run pre).step (.join seat pid c)).1.run mid).step (.seat (x : Int))).1.run post) d a) :
    s.player = none ∧
    ((A.run pre).step (.join seat pid c)).1.seats[x]? = some { player := some pid, active := false, reserved := true } ∧
    ((((A.run pre).step (.join seat pid c)).1.run mid).step (.seat (x : Int))).2.1 = none ∧
    (((((A.run pre).step (.join seat pid c)).1.run mid).step (.seat (x : Int))).1.run post).seats[x]? =
      some { player := some pid, active := false, reserved := false } ∧
    Waiting (((((A.run pre).step (.join seat pid c)).1.run mid).step (.seat (x : Int))).1.run post) x d a := by
  obtain ⟨p1, p2, p3⟩ := hpre.frame
  have hA1 : Inv (A.run pre) := run_inv hA pre
  generalize A.run pre = A1 at *
  obtain ⟨s', hs', hemp, _, hJ⟩ := join_landed hj
  rw [p3, hs] at hs'; cases hs'
  have hxlen : x < A1.seats.length := by
    have := (List.getElem?_eq_some_iff.mp (p3.trans hs)).1; exact this
  have hJinv : Inv (A1.step (.join seat pid c)).1 := step_inv hA1 _
  obtain ⟨j1, j2⟩ := step_dealer_max A1 (op := .join seat pid c) (by simp)
  have hJx : (A1.step (.join seat pid c)).1.seats[x]? = some { player := some pid, active := false, reserved := true } := by
    rw [hJ, setSeat_seats, if_pos rfl, if_pos hxlen, hina]
  generalize (A1.step (.join seat pid c)).1 = J at *
  obtain ⟨m1, m2, m3⟩ := hmid.frame
  have hJ1 : Inv (J.run mid) := run_inv hJinv mid
  generalize J.run mid = J1 at *
  have hxm : x < J1.max := by
    rw [m2, j2, p2, hx]; exact Nat.mod_lt _ (by omega)
  have hseat := step_seat_nat J1 hxm
  have hSinv : Inv (J1.step (.seat (x : Int))).1 := step_inv hJ1 _
  obtain ⟨s1, s2⟩ := step_dealer_max J1 (op := .seat (x : Int)) (by simp)
  have hSx : (J1.step (.seat (x : Int))).1.seats[x]? = some { player := some pid, active := false, reserved := false } := by
    rw [hseat]; simp only; rw [modSeat_seats, if_pos rfl, m3, hJx]; rfl
  have hok : (J1.step (.seat (x : Int))).2.1 = none := by rw [hseat]
  generalize (J1.step (.seat (x : Int))).1 = S at *
  obtain ⟨q1, q2, q3⟩ := hpost.frame
  have hT : Inv (S.run post) := run_inv hSinv post
  generalize S.run post = T at *
  have hTmax : T.max = A.max := by rw [q2, s2, m2, j2, p2]
  have hTd : T.dealer = some d := by rw [q1, s1, m1, j1, p1, hd]
  have hTx : T.seats[x]? = some { player := some pid, active := false, reserved := false } := by rw [q3, hSx]
  exact ⟨hemp, hJx, hok, hTx, hT, hTd, hD10, ha0, by rw [hTmax]; exact ha, by rw [hTmax]; exact hx,
    ⟨_, hTx, rfl, rfl, rfl⟩, hD4⟩

/-! ### histories with other players' operations between the `next`s -/

/-- In the `next` called in state `U` the button passes seat `x`. -/
def PassedStep (U : SM) (x : Nat) : Prop :=
  ∃ d e, U.dealer = some d ∧ (U.step .next).1.dealer = some e ∧ StrictlyBetween U.max d x e

/-- The exclusions D10 / D4 as a predicate of the state in which `next` is called: at least two playable seats, and at
most one playable seat strictly between the dealer and `x`. -/
def Excl (U : SM) (x : Nat) : Prop :=
  2 ≤ U.playableCount ∧
  ∀ d a, U.dealer = some d → 0 < a → a < U.max → x = (d + a) % U.max → FewBetween U d a

/-- A history `seg₁; next; seg₂; next; …` (each `segᵢ` a list of asides) is *calm* for `x`: every segment consists of
asides, and every `next` up to and including the one in which the button passes `x` is called in a state satisfying
the exclusions. -/
def Calm (x : Nat) : SM → List (List SMOp) → Prop
  | _, [] => True
  | T, seg :: segs =>
    AsideRun x T seg ∧ Excl (T.run seg) x ∧
    (¬ PassedStep (T.run seg) x → Calm x ((T.run seg).step .next).1 segs)

/-- Newcomer timing along such a history: in every segment before the button passes, `x` is not playable when `next` is
called, that `next` succeeds, and `x` is playable in the new hand iff the button passed `x` in that `next`. -/
def Timing (x : Nat) : SM → List (List SMOp) → Prop
  | _, [] => True
  | T, seg :: segs =>
    (T.run seg).playable x = false ∧ ((T.run seg).step .next).2.1 = none ∧
    (PassedStep (T.run seg) x → ((T.run seg).step .next).1.playable x = true) ∧
    (¬ PassedStep (T.run seg) x →
      ((T.run seg).step .next).1.playable x = false ∧ Timing x ((T.run seg).step .next).1 segs)

theorem waiting_timing_hist {x : Nat} : ∀ {segs : List (List SMOp)} {T : SM} {d a : Nat},
    Waiting T x d a → Calm x T segs → Timing x T segs
  | [], _, _, _, _, _ => trivial
  | seg :: segs, T, d, a, w, hc => by
    obtain ⟨has, ⟨hD10, hD4⟩, hrest⟩ := hc
    obtain ⟨f1, f2, _⟩ := has.frame
    have w' : Waiting (T.run seg) x d a :=
      w.aside has hD10 (hD4 d a (f1.trans w.dealer) w.a_pos (by rw [f2]; exact w.a_lt) (by rw [f2]; exact w.x_eq))
    obtain ⟨hok, _, k, hk1, hk2, hka, hdk, _, hpass, hwait⟩ := w'.step
    have hiff := w'.passed_iff hk2 hdk _ rfl
    refine ⟨w'.not_playable, hok, fun hp => hpass (hiff.mp hp), fun hnp => ?_⟩
    have hlt : k < a := by
      by_contra hcon; exact hnp (hiff.mpr (by omega))
    obtain ⟨w1, _⟩ := hwait hlt
    exact ⟨w1.not_playable, waiting_timing_hist w1 (hrest hnp)⟩

/-! ### abbreviations for the arrival history, explicit join, and the post-`next` starting point -/

/-- State right after the newcomer's `Join`: `pre; Join(seat, pid)`. -/
def arriveJ (A : SM) (pre : List SMOp) (seat : Int) (pid : Nat) (c : Option Nat) : SM :=
  ((A.run pre).step (.join seat pid c)).1

/-- State in which the newcomer's `Seat(x)` is called: `pre; Join; mid`. -/
def arriveM (A : SM) (pre : List SMOp) (seat : Int) (pid : Nat) (c : Option Nat) (mid : List SMOp) : SM :=
  (arriveJ A pre seat pid c).run mid

/-- State at the end of the arrival history `pre; Join(seat, pid); mid; Seat(x); post`. -/
def arrive (A : SM) (x : Nat) (pre : List SMOp) (seat : Int) (pid : Nat) (c : Option Nat) (mid post : List SMOp) : SM :=
  (((arriveM A pre seat pid c mid).step (.seat (x : Int))).1).run post

theorem run_append (T : SM) (l1 l2 : List SMOp) : T.run (l1 ++ l2) = (T.run l1).run l2 := by
  simp [run, List.foldl_append]

/-- `arrive` is the run of one operation list. -/
theorem arrive_eq_run (A : SM) (x : Nat) (pre : List SMOp) (seat : Int) (pid : Nat) (c : Option Nat)
    (mid post : List SMOp) :
    arrive A x pre seat pid c mid post =
      A.run (pre ++ .join seat pid c :: (mid ++ .seat (x : Int) :: post)) := by
  simp only [arrive, arriveM, arriveJ, run_append, run_cons]

/-- An explicit `Join(x)` on an existing seat that holds nobody is accepted on `x`. -/
theorem join_explicit_accepted {T : SM} {x : Nat} {s : Seat} (hs : T.seats[x]? = some s) (hemp : s.player = none)
    (hxm : x < T.max) (pid : Nat) (c : Option Nat) : (T.step (.join (x : Int) pid c)).2 = (none, some x) := by
  rw [step_join_eq, if_neg (by omega), if_pos (by omega)]
  simp only [Int.toNat_natCast]
  rcases joinAt_cases T pid x with ⟨h', _⟩ | ⟨s', h1', h2', _⟩ | ⟨s', h1', h2', h3'⟩
  · rw [hs] at h'; cases h'
  · rw [hs] at h1'; cases h1'; simp [hemp] at h2'
  · rw [h3']

/-- Right after a successful `next`, at most one playable seat (the small blind) lies strictly between the dealer and
any seat in front of the big blind. -/
theorem fewBetween_after_next {sm : SM} {d ks kb : Nat} (hn : NextOk sm (sm.step .next).1 d ks kb) {jx : Nat}
    (h2 : jx < kb) : FewBetween (sm.step .next).1 d jx := by
  have hkb := hn.kb_lt
  have honly : ∀ j, 0 < j → j < jx →
      (sm.step .next).1.playable ((d + j) % (sm.step .next).1.max) = true → j = ks := by
    intro j hj1 hj2 hp
    rw [hn.max_eq, hn.playable_post (by omega), if_pos (by omega)] at hp
    rcases hn.branch with ⟨_, h0⟩ | ⟨_, hpos, _, hall⟩
    · by_contra hne
      rw [hn.between j (by omega) (by omega)] at hp; cases hp
    · by_contra hne
      by_cases hlt : j < ks
      · rw [hall j hj1 hlt] at hp; cases hp
      · rw [hn.between j (by omega) (by omega)] at hp; cases hp
  intro j1 j2 a1 a2 a3 a4 p1 p2
  rw [honly j1 a1 a2 p1, honly j2 a3 a4 p2]

/-- Right after a successful `next`, a seat strictly between dealer and big blind that holds nobody is inactive. -/
theorem inactive_after_next {sm : SM} {d ks kb : Nat} (hn : NextOk sm (sm.step .next).1 d ks kb) {jx : Nat}
    (h2 : jx < kb) {s : Seat} (hs : (sm.step .next).1.seats[(d + jx) % sm.max]? = some s) (hemp : s.player = none) :
    s.active = false := by
  have hkb := hn.kb_lt
  have := hn.seats jx (by omega)
  rw [hs] at this
  cases hq : sm.nextDealer.1.seats[(d + jx) % sm.max]? with
  | none => rw [hq] at this; cases this
  | some q =>
    rw [hq] at this
    simp only [Option.map_some, Option.some.injEq, renewF, if_pos h2] at this
    unfold deact at this
    split at this
    · rw [this]
    · next hne => rw [← this] at hne; simp [hemp] at hne

/-- The D4 exclusion is inherited from an earlier state with the same dealer and size when no seat strictly between
the dealer and `x` has become playable since. -/
theorem FewBetween.mono {S T : SM} {d a : Nat} (h : FewBetween S d a) (hm : T.max = S.max)
    (hsub : ∀ j, 0 < j → j < a → T.playable ((d + j) % S.max) = true → S.playable ((d + j) % S.max) = true) :
    FewBetween T d a := by
  intro j1 j2 a1 a2 a3 a4 p1 p2
  rw [hm] at p1 p2
  exact h j1 j2 a1 a2 a3 a4 (hsub j1 a1 a2 p1) (hsub j2 a3 a4 p2)

/-- The arrival history changes neither the table size nor the dealer. -/
theorem arrive_max_dealer {A : SM} {x : Nat} {pre mid post : List SMOp} {seat : Int} {pid : Nat} {c : Option Nat}
    (hpre : AsideRun x A pre) (hmid : AsideRun x (arriveJ A pre seat pid c) mid)
    (hpost : AsideRun x ((arriveM A pre seat pid c mid).step (.seat (x : Int))).1 post) :
    (arrive A x pre seat pid c mid post).max = A.max ∧ (arrive A x pre seat pid c mid post).dealer = A.dealer := by
  obtain ⟨p1, p2, _⟩ := hpre.frame
  obtain ⟨m1, m2, _⟩ := hmid.frame
  obtain ⟨q1, q2, _⟩ := hpost.frame
  obtain ⟨j1, j2⟩ := step_dealer_max (A.run pre) (op := .join seat pid c) (by simp)
  obtain ⟨s1, s2⟩ := step_dealer_max (arriveM A pre seat pid c mid) (op := .seat (x : Int)) (by simp)
  simp only [arrive, arriveM, arriveJ] at m1 m2 s1 s2 q1 q2 ⊢
  exact ⟨by rw [q2, s2, m2, j2, p2], by rw [q1, s1, m1, j1, p1]⟩

end SM
end Pokerface
