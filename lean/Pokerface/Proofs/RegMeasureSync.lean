/-
  `SyncState(t, 0)` and the termination measure (C20).
-/
import Pokerface.Proofs.RegMeasureOps

namespace Pokerface
namespace Reg

theorem le_tot (g : RTable → Nat) {ts : List RTable} {t : RTable} (h : t ∈ ts) : g t ≤ tot g ts := by
  induction ts with
  | nil => cases h
  | cons x ts ih =>
    rw [tot_cons]
    rcases List.mem_cons.1 h with rfl | h'
    · omega
    · have := ih h'; omega

theorem tot_eq_zero {g : RTable → Nat} {ts : List RTable} (h : tot g ts = 0) : ∀ t ∈ ts, g t = 0 := by
  intro t ht
  have := le_tot g ht
  omega

/-- a release of at least one player means the lower-water-level test failed at the start -/
theorem releaseLoop_pos (k : Nat) (id : Nat) (fl : Int) (r : Reg)
    (h : 1 ≤ (releaseLoop k id fl r 0).1) : r.lowerWaterLevelReached fl = false := by
  cases k with
  | zero => simp [releaseLoop] at h
  | succ n =>
    rw [releaseLoop] at h
    cases hr : r.lowerWaterLevelReached fl with
    | false => rfl
    | true => rw [hr] at h; simp at h

/-- when nobody is in deficit and there are exactly the tables needed, the release loop stops at
    once (so a release proves the state is not `zeroed`) -/
theorem reached_of_zeroed (r : Reg) (hwf : WF r) (hcnt : r.playerCount = r.queue.length + sumCount r.tables)
    (hreq : 0 < r.requiredTables) (z : zeroed r) :
    r.lowerWaterLevelReached (flr r) = true := by
  obtain ⟨z1, z2⟩ := z
  have hall : ∀ tb ∈ r.tables, r.playerCount / r.requiredTables ≤ tb.count := by
    intro tb htb
    have := tot_eq_zero (g := dF (flr r)) z1 tb htb
    simp only [dF, flr] at this
    omega
  exact lowerWaterLevelReached_of_balanced r hreq (by rw [← z2, hwf.tc]) (by omega) hall

theorem syncState_meas (r : Reg) (t : Nat) (t0 : RTable) (h : RInv r) (hf : r.findTable t = some t0) :
    MLe (r.syncState t 0).1 r ∧
    (((r.syncState t 0).2.2.1 ≠ 0 ∨ (r.syncState t 0).2.2.2 ≠ [] ∨ (r.syncState t 0).1.findTable t = none) →
      MLt (r.syncState t 0).1 r) := by
  obtain ⟨ht0, hid0⟩ := findTable_some hf
  have hbt := h.wf.bnd t0 ht0
  have hidm : t ∈ r.tables.map (·.id) := List.mem_map.2 ⟨t0, ht0, hid0⟩
  rw [syncState_eq, hf]
  simp only
  rw [syncBase_zero, Int.sub_zero]
  have e1 : (r.beginOp []).requiredTables = r.requiredTables := rfl
  have e2 : (r.beginOp []).tableCount = r.tableCount := rfl
  have e3 : (r.beginOp []).playerCount = r.playerCount := rfl
  have hfb : (r.beginOp []).findTable t = some t0 := hf
  -- a break lowers |T − R|
  have hbreak : r.requiredTables < r.tableCount → MLt ((r.beginOp []).breakTable t) r := by
    intro hlt
    apply MLt_of_m1 (r := r) (r' := (r.beginOp []).breakTable t) rfl rfl
    show (r.tableCount - 1 - r.requiredTables).natAbs < _
    omega
  split
  · rename_i hc
    have := hbreak (by omega)
    exact ⟨MLt_le this, fun _ => this⟩
  · split
    · refine ⟨MLe_of_congr rfl rfl rfl rfl, fun hask => ?_⟩
      rcases hask with h1 | h1 | h1
      · exact absurd rfl h1
      · exact absurd rfl h1
      · rw [hfb] at h1; cases h1
    · rename_i hreq
      have hreq' : 0 < r.requiredTables := by omega
      split
      · rename_i hlow
        split
        · rename_i hc
          have := hbreak (by omega)
          exact ⟨MLt_le this, fun _ => this⟩
        · -- take
          rw [take_norm]
          have hle : t0.count ≤ flr r := le_floor_of_mul_lt hreq' hlow
          have hflr : (r.beginOp []).playerCount / (r.beginOp []).requiredTables = flr r := rfl
          rw [hflr]
          generalize hk : ((r.beginOp []).queue.take (flr r - t0.count).toNat).length = k
          have hk0 : (k : Int) ≤ flr r - t0.count := by
            rw [← hk, List.length_take]; omega
          have hq : 1 ≤ (k : Int) → t0.required = 0 := by
            intro hk1
            have hne : r.queue ≠ [] := by
              intro hnil
              have : (r.beginOp []).queue = [] := hnil
              rw [this] at hk
              simp at hk
              omega
            have := h.q hne t0 ht0
            omega
          obtain ⟨c1, c2⟩ := cv_take (flr r) t0 k (by omega) (by omega) hbt.2.1 hq
          have hsub : flr r - t0.count - (k : Int) = flr r - t0.count - k := rfl
          have hv := lexLe_of_upd (F := flr r) h.wf.nodup ht0 hid0 _ c1
          refine ⟨MLe_of_vec (r := r) rfl rfl rfl hv, fun hask => ?_⟩
          have hk1 : 1 ≤ (k : Int) := by
            rcases hask with h1 | h1 | h1
            · exact absurd rfl h1
            · have : 0 < ((r.beginOp []).queue.take (flr r - t0.count).toNat).length :=
                List.length_pos_iff.2 h1
              omega
            · exfalso
              have : t ∈ ((({ r.beginOp [] with
                    queue := (r.beginOp []).queue.drop (flr r - t0.count).toNat,
                    tables := upd t (adj k (if flr r - t0.count - k > 0 then some (flr r - t0.count - k) else none))
                      (r.beginOp []).tables } : Reg)).tables.map (·.id)) := by
                show t ∈ (upd t _ r.tables).map (·.id)
                rw [upd_ids _ _ _ (adj_id _ _)]; exact hidm
              exact findTable_ne_none this h1
          have hnz : ¬ zeroed r := by
            intro z
            have := tot_eq_zero (g := dF (flr r)) z.1 t0 ht0
            simp only [dF] at this
            omega
          exact MLt_of_vec (r := r) rfl rfl rfl hnz (lexLt_of_upd (F := flr r) h.wf.nodup ht0 hid0 _ (c2 hk1))
      · split
        · rename_i hhigh
          -- release
          have hflr : (r.beginOp []).playerCount / (r.beginOp []).requiredTables = flr r := rfl
          rw [hflr]
          have hlt : flr r < t0.count := floor_lt_of_lt_mul hreq' hhigh
          obtain ⟨j, hj, he⟩ := releaseLoop_spec (t0.count - flr r).toNat t (flr r) (r.beginOp []) 0
          have hpos := releaseLoop_pos (t0.count - flr r).toNat t (flr r) (r.beginOp [])
          rw [he] at hpos ⊢
          simp only at hpos ⊢
          obtain ⟨c1, c2⟩ := cv_release (flr r) t0 j (by omega) (by omega) hbt.2.1
          have hv := lexLe_of_upd (F := flr r) h.wf.nodup ht0 hid0 _ c1
          refine ⟨MLe_of_vec (r := r) rfl rfl rfl hv, fun hask => ?_⟩
          have hj1 : 1 ≤ (j : Int) := by
            rcases hask with h1 | h1 | h1
            · omega
            · exact absurd rfl h1
            · exfalso
              have : t ∈ (({ r.beginOp [] with tables := upd t (adj (-(j : Int)) none) (r.beginOp []).tables } : Reg).tables.map (·.id)) := by
                show t ∈ (upd t _ r.tables).map (·.id)
                rw [upd_ids _ _ _ (adj_id _ _)]; exact hidm
              exact findTable_ne_none this h1
          have hnz : ¬ zeroed r := by
            intro z
            have h1 := reached_of_zeroed r h.wf h.cnt hreq' z
            have h2 := hpos (by omega)
            have : (r.beginOp []).lowerWaterLevelReached (flr r) = r.lowerWaterLevelReached (flr r) := rfl
            rw [this, h1] at h2; cases h2
          exact MLt_of_vec (r := r) rfl rfl rfl hnz (lexLt_of_upd (F := flr r) h.wf.nodup ht0 hid0 _ (c2 hj1))
        · refine ⟨MLe_of_congr rfl rfl rfl rfl, fun hask => ?_⟩
          rcases hask with h1 | h1 | h1
          · exact absurd rfl h1
          · exact absurd rfl h1
          · rw [hfb] at h1; cases h1

end Reg
end Pokerface
