import Pokerface.Proofs.EngineCtl
/-
  The engine invariant `Inv` and its preservation by every operation of the
  alphabet (`step`), hence by every reachable state.
-/
namespace Pokerface
open Game

structure OptsOK (m : Meta) : Prop where
  ante0 : 0 ≤ m.ante
  bd0 : 0 ≤ m.blindDealer
  sb0 : 0 ≤ m.blindSB
  bb0 : 0 ≤ m.blindBB

/-- chip invariant without the "no wager above the wager to match" clause (which is
    suspended while antes are being collected) -/
structure ChipsOK0 (g : Game) : Prop where
  pinv : ∀ p ∈ g.players, PInv p
  rp : g.roundPot = g.wagerSum
  cw0 : 0 ≤ g.cw
  prev0 : 0 ≤ g.prev

def WLe (g : Game) : Prop := ∀ p ∈ g.players, p.wager ≤ g.cw

theorem ChipsOK.zero {g : Game} (h : ChipsOK g) : ChipsOK0 g := ⟨h.pinv, h.rp, h.cw0, h.prev0⟩
theorem ChipsOK0.full {g : Game} (h : ChipsOK0 g) (w : WLe g) : ChipsOK g := ⟨h.pinv, h.rp, h.cw0, h.prev0, w⟩

structure Inv (g : Game) : Prop where
  opts : OptsOK g.opts
  struct : Struct g
  chips0 : ChipsOK0 g
  wle : g.event ≠ .anteRequested → WLe g
  post : Post g

theorem Inv.chips {g : Game} (h : Inv g) (he : g.event ≠ .anteRequested) : ChipsOK g :=
  h.chips0.full (h.wle he)

/-! ### statics through the chip-moving functions -/

theorem struct_of_static {g g' : Game} (h : Static g g') (hc : g'.cur < g.n) (hs : Struct g) : Struct g' := by
  have hn := h.length
  refine ⟨?_, by rw [hn]; exact hs.pos, by rw [hn]; exact hc⟩
  intro i p hp
  have h1 : (g'.players.map Player.static)[i]? = some p.static := by simp [hp]
  rw [h.ids] at h1
  simp at h1
  obtain ⟨q, hq, hqe⟩ := h1
  rw [← hs.idx i q hq]
  simp [Player.static] at hqe
  exact hqe.1.symm

theorem static_payAllin (g : Game) (i : Nat) (p : Player) (w : Bool) : Static g (g.payAllin i p w) := by
  unfold Game.payAllin
  have h1 : Static g ((g.addRoundPot (p.initial - p.wager)).modP i goAllin) :=
    (Static.trans (a := g) (b := g.addRoundPot (p.initial - p.wager)) ⟨rfl, rfl, rfl⟩ (static_modP _ i goAllin (fun _ => rfl)))
  simp only
  split
  · have h2 : Static g (if p.initial > g.cw then ((g.addRoundPot (p.initial - p.wager)).modP i goAllin).setCw p.initial
        else (g.addRoundPot (p.initial - p.wager)).modP i goAllin) := by
      split
      · exact h1.trans (c := ((g.addRoundPot (p.initial - p.wager)).modP i goAllin).setCw p.initial) ⟨rfl, rfl, rfl⟩
      · exact h1
    split
    · exact h2.trans (noChip_becomeRaiser _ i).static
    · exact h2.trans (noChip_resetActed _).static
  · exact h1

theorem static_payPart (g : Game) (i : Nat) (p : Player) (c : Int) (w : Bool) : Static g (g.payPart i p c w) := by
  unfold Game.payPart
  have h1 : Static g ((g.modP i (putWager (p.wager + c))).addRoundPot c) :=
    (static_modP g i (putWager (p.wager + c)) (fun _ => rfl)).trans ⟨rfl, rfl, rfl⟩
  simp only
  split
  · exact (h1.trans (c := ((g.modP i (putWager (p.wager + c))).addRoundPot c).setCw (p.wager + c)) ⟨rfl, rfl, rfl⟩).trans (noChip_becomeRaiser _ i).static
  · exact h1

theorem static_pay (g : Game) (i : Nat) (c : Int) (w : Bool) : Static g (g.pay i c w) := by
  unfold Game.pay
  split
  · exact Static.refl g
  · split
    · exact static_payAllin g i _ w
    · exact static_payPart g i _ c w

theorem struct_pay (g : Game) (i : Nat) (c : Int) (w : Bool) (hs : Struct g) : Struct (g.pay i c w) :=
  struct_of_static (static_pay g i c w) (by rw [(soft_pay g i c w).cur]; exact hs.cur) hs

/-! ### `pay` that is not a wager (ante) -/

theorem chipsOK0_update {g g' : Game} (i : Nat) (p : Player) (f : Player → Player)
    (ok : ChipsOK0 g) (hp : g.players[i]? = some p)
    (hplayers : g'.players = g.players.modify i f)
    (hrp : g'.roundPot = g.roundPot - p.wager + (f p).wager)
    (hcw : g'.cw = g.cw) (hprev : g'.prev = g.prev) (hinv : PInv (f p)) : ChipsOK0 g' := by
  refine ⟨?_, ?_, by rw [hcw]; exact ok.cw0, by rw [hprev]; exact ok.prev0⟩
  · rw [hplayers]
    exact forall_mem_modify_at PInv f g.players i ok.pinv (fun x hx => by
      rw [hp] at hx; cases hx; exact hinv)
  · rw [hrp, ok.rp]
    simp only [Game.wagerSum, hplayers]
    rw [sum_map_modify (·.wager) f g.players i p hp]

theorem chipsOK0_pay_false (g : Game) (i : Nat) (c : Int) (ok : ChipsOK0 g) (hc : 0 ≤ c) :
    ChipsOK0 (g.pay i c false) := by
  unfold Game.pay
  split
  · exact ok
  · rename_i p hp
    have hpi := ok.pinv p (List.mem_of_getElem? hp)
    have := hpi.rebase; have := hpi.stack0; have := hpi.wager0
    split
    · unfold Game.payAllin
      simp only [Bool.false_eq_true, if_false]
      refine chipsOK0_update i p goAllin ok hp rfl ?_ rfl rfl (PInv_goAllin hpi)
      simp [Game.modP, Game.addRoundPot, goAllin]; omega
    · rename_i hlt
      unfold Game.payPart
      simp only [Bool.false_and, Bool.false_eq_true, if_false]
      refine chipsOK0_update i p _ ok hp rfl ?_ rfl rfl (PInv_putWager hpi c hc hlt)
      simp [Game.modP, Game.addRoundPot, putWager]; omega

/-! ### the two resets -/

theorem static_resetAllPlayerStatus (g : Game) : Static g g.resetAllPlayerStatus :=
  static_mapP g _ (fun _ => rfl)

theorem static_resetRoundStatus (g : Game) : Static g g.resetRoundStatus := ⟨rfl, rfl, rfl⟩

theorem sum_map_zero {α : Type} (l : List α) : (l.map (fun _ => (0 : Int))).sum = 0 := by
  induction l with
  | nil => rfl
  | cons a l ih => simp [ih]

/-- after both resets (in either order) the chip invariant holds with all wagers swept -/
theorem chipsOK_resets {g g' : Game}
    (hpl : g'.players = g.players.map fun p => { p with allowed := [], pot := p.pot + p.wager, wager := 0, initial := p.stack })
    (hrp : g'.roundPot = 0) (hcw : g'.cw = 0) (hprev : g'.prev = 0) (ok : ChipsOK0 g) : ChipsOK g' := by
  refine ⟨?_, ?_, by rw [hcw]; exact Int.le_refl 0, by rw [hprev]; exact Int.le_refl 0, ?_⟩
  · intro p hp
    rw [hpl] at hp
    obtain ⟨q, hq, rfl⟩ := List.mem_map.mp hp
    have h := ok.pinv q hq
    have := h.split; have := h.rebase; have := h.stack0; have := h.wager0; have := h.pot0
    constructor <;> simp <;> omega
  · rw [hrp]
    simp only [Game.wagerSum, hpl, List.map_map, Function.comp_def]
    exact (sum_map_zero _).symm
  · intro p hp
    rw [hpl] at hp
    obtain ⟨q, hq, rfl⟩ := List.mem_map.mp hp
    simp [hcw]

/-! ### the invariant through whole operations -/

theorem Inv.of_noChip {g g' : Game} (hi : Inv g) (h : NoChip g g') (he : g.event ≠ .anteRequested)
    (hp : Post g') : Inv g' :=
  let ok := ChipsOK.of_noChip h (hi.chips he)
  ⟨by rw [h.opts]; exact hi.opts, h.struct hi.struct, ok.zero, fun _ => ok.wle, hp⟩

theorem noChip_readiness (g : Game) : NoChip g g.readiness := by
  unfold Game.readiness
  split
  · split
    · exact noChip_setEvent g _
    · exact noChip_enterRound g _
  · exact noChip_startRound g

theorem post_readiness (g : Game) (hs : Struct g) (h : NoneAllowed g) : Post g.readiness := by
  unfold Game.readiness
  split
  · split
    · refine ⟨rfl, ?_⟩
      have : (g.setEvent .anteRequested).event = .anteRequested := rfl
      simp only [this]; exact h
    · exact post_enterRound g _ (fun _ => h)
  · exact post_startRound g hs

theorem inv_readyForAll (g : Game) (hi : Inv g) : Inv g.readyForAll.1 := by
  unfold Game.readyForAll
  split
  · exact hi
  · rename_i he
    have he' : g.event = .readyRequested := by simpa using he
    have h1 := noChip_resetAllAllowed g
    refine hi.of_noChip (h1.trans (noChip_readiness _)) (by rw [he']; simp) ?_
    exact post_readiness _ (h1.struct hi.struct) (noneAllowed_resetAllAllowed g)

/-- state of the ante loop: everything of `Inv` that survives a non-wager payment -/
structure AnteInv (g : Game) : Prop where
  opts : OptsOK g.opts
  struct : Struct g
  chips0 : ChipsOK0 g
  none : NoneAllowed g
  ev : g.event = .anteRequested

theorem anteInv_loop : ∀ (is : List Nat) (g : Game), AnteInv g → AnteInv (payAnteLoop is g).1
  | [], g, h => h
  | i :: is, g, h => by
    unfold Game.payAnteLoop
    split
    · exact h
    · split
      · exact h
      · apply anteInv_loop is
        have hst := static_pay g i g.opts.ante false
        have hso := soft_pay g i g.opts.ante false
        exact ⟨by rw [hst.opts]; exact h.opts, struct_pay g i _ _ h.struct,
          chipsOK0_pay_false g i _ h.chips0 h.opts.ante0, hso.noneAllowed h.none,
          by
            have : (g.pay i g.opts.ante false).event = g.event := by
              unfold Game.pay; split
              · rfl
              · split
                · unfold Game.payAllin; simp only [Bool.false_eq_true, if_false]; rfl
                · unfold Game.payPart; simp only [Bool.false_and, Bool.false_eq_true, if_false]; rfl
            rw [this]; exact h.ev⟩

theorem AnteInv.inv {g : Game} (h : AnteInv g) : Inv g :=
  ⟨h.opts, h.struct, h.chips0, fun he => absurd h.ev he, ⟨by rw [h.ev]; rfl, by simp only [h.ev]; exact h.none⟩⟩

theorem inv_antePaid (g : Game) (h : AnteInv g) : Inv g.antePaid := by
  unfold Game.antePaid
  -- the state after the two resets
  let g1 := (g.resetAllAllowed.setEvent .antePaid).updatePots
  let g2 := g1.resetAllPlayerStatus.resetRoundStatus
  have n1 : NoChip g g1 := ((noChip_resetAllAllowed g).trans (noChip_setEvent _ _)).trans (noChip_updatePots _)
  have ok1 : ChipsOK0 g1 := by
    have hw := map_wager_of_chips n1.chips
    refine ⟨?_, ?_, by rw [n1.cw]; exact h.chips0.cw0, by rw [n1.prev]; exact h.chips0.prev0⟩
    · intro p hp
      have := forall_of_chips (fun c => ∃ q : Player, q.chips = c ∧ PInv q) n1.chips
        (fun q hq => ⟨q, rfl, h.chips0.pinv q hq⟩) p hp
      obtain ⟨q, hq, hqi⟩ := this
      exact PInv_of_chips hq.symm hqi
    · rw [n1.rp, h.chips0.rp]; simp [Game.wagerSum, hw]
  have ok2 : ChipsOK g2 := chipsOK_resets (g := g1) rfl rfl rfl rfl ok1
  have st2 : Static g g2 := n1.static.trans ((static_resetAllPlayerStatus g1).trans (static_resetRoundStatus _))
  have s1 : Struct g1 := n1.struct h.struct
  have sr : Struct g1.resetAllPlayerStatus :=
    struct_of_static (static_resetAllPlayerStatus g1) s1.cur s1
  have s2 : Struct g2 := by
    refine struct_of_static (g := g1.resetAllPlayerStatus) (static_resetRoundStatus _) ?_ sr
    exact dealerIdx_lt sr
  have na2 : NoneAllowed g2 := noneAllowed_resetAllPlayerStatus g1
  have nc := noChip_enterRound g2 .preflop
  have okf := ChipsOK.of_noChip nc ok2
  exact ⟨by rw [nc.opts, st2.opts]; exact h.opts, nc.struct s2, okf.zero, fun _ => okf.wle,
    post_enterRound g2 _ (fun _ => na2)⟩

theorem inv_payAnte (g : Game) (hi : Inv g) : Inv g.payAnte.1 := by
  unfold Game.payAnte
  split
  · exact hi
  · split
    · exact hi
    · rename_i he
      have he' : g.event = .anteRequested := by simpa using he
      have ha : AnteInv g := ⟨hi.opts, hi.struct, hi.chips0, by
        have := hi.post.allowed; simpa [he'] using this, he'⟩
      have hl := anteInv_loop g.seatsFromDealer g ha
      split
      · rename_i g' e heq
        have : g' = (payAnteLoop g.seatsFromDealer g).1 := by rw [heq]
        rw [this]; exact hl.inv
      · rename_i g' heq
        have : g' = (payAnteLoop g.seatsFromDealer g).1 := by rw [heq]
        simp only
        rw [this]; exact inv_antePaid _ hl

end Pokerface

namespace Pokerface
open Game

/-! ### blinds -/

structure BInv (g : Game) : Prop where
  opts : OptsOK g.opts
  struct : Struct g
  chips : ChipsOK g
  none : NoneAllowed g

theorem becomeRaiser_event (g : Game) (i : Nat) : (g.becomeRaiser i).event = g.event := rfl
theorem resetActed_event (g : Game) : g.resetActed.event = g.event := rfl

theorem pay_event (g : Game) (i : Nat) (c : Int) (w : Bool) : (g.pay i c w).event = g.event := by
  unfold Game.pay
  split
  · rfl
  · split
    · unfold Game.payAllin
      simp only
      split
      · split
        · split <;> rfl
        · split <;> rfl
      · rfl
    · unfold Game.payPart
      simp only
      split <;> rfl

theorem blindOf_nonneg {m : Meta} (h : OptsOK m) (p : Player) : 0 ≤ blindOf m p := by
  unfold Game.blindOf
  have := h.bd0; have := h.sb0; have := h.bb0
  split
  · omega
  · split
    · omega
    · split <;> omega

theorem bInv_payBlind (g : Game) (i : Nat) (h : BInv g) : BInv (g.payBlind i) := by
  unfold Game.payBlind
  split
  · exact h
  · rename_i p hp
    have hpi := h.chips.pinv p (List.mem_of_getElem? hp)
    have hb := blindOf_nonneg h.opts p
    have hc : 0 ≤ (if p.stack < blindOf g.opts p then p.stack else blindOf g.opts p) := by
      have := hpi.stack0
      split <;> omega
    exact ⟨by rw [(static_pay g i _ true).opts]; exact h.opts, struct_pay g i _ _ h.struct,
      chipsOK_pay g i _ h.chips hc, (soft_pay g i _ true).noneAllowed h.none⟩

theorem bInv_foldl : ∀ (is : List Nat) (g : Game), BInv g → BInv (is.foldl payBlind g)
  | [], _, h => h
  | i :: is, g, h => bInv_foldl is _ (bInv_payBlind g i h)

theorem chipsOK_setPrev (g : Game) (x : Int) (hx : 0 ≤ x) (ok : ChipsOK g) : ChipsOK (g.setPrev x) :=
  ⟨ok.pinv, ok.rp, ok.cw0, hx, ok.wle⟩

theorem inv_blindsPaid (g : Game) (h : BInv g) : Inv g.blindsPaid := by
  unfold Game.blindsPaid
  have hx : 0 ≤ (if g.opts.blindBB > 0 then g.opts.blindBB else g.opts.blindDealer) := by
    have := h.opts.bd0; have := h.opts.bb0; split <;> omega
  have ok1 := chipsOK_setPrev g _ hx h.chips
  let g1 := g.setPrev (if g.opts.blindBB > 0 then g.opts.blindBB else g.opts.blindDealer)
  have nc : NoChip g1 (((g1.resetAllAllowed).setEvent .blindsPaid).prepareRound) :=
    ((noChip_resetAllAllowed g1).trans (noChip_setEvent _ _)).trans (noChip_prepareRound _)
  have okf := ChipsOK.of_noChip nc ok1
  exact ⟨by rw [nc.opts]; exact h.opts, nc.struct (struct_same (g := g) (g' := g1) rfl rfl h.struct),
    okf.zero, fun _ => okf.wle, post_prepareRound _⟩

theorem inv_payBlinds (g : Game) (hi : Inv g) : Inv g.payBlinds.1 := by
  unfold Game.payBlinds
  split
  · exact hi
  · rename_i he
    have he' : g.event = .blindsRequested := by simpa using he
    have hb : BInv g := ⟨hi.opts, hi.struct, hi.chips (by rw [he']; simp), by
      have := hi.post.allowed; simpa [he'] using this⟩
    exact inv_blindsPaid _ (bInv_foldl _ g hb)

/-! ### next street -/

theorem noChip_nextRound' (g : Game) : NoChip g g.nextRound' := by
  unfold Game.nextRound'
  split
  · exact noChip_gameCompleted g
  · split
    · exact noChip_enterRound g _
    · exact noChip_enterRound g _
    · exact noChip_enterRound g _
    · exact noChip_gameCompleted g
    · exact NoChip.refl g

theorem inv_nextRound (g : Game) (hi : Inv g) (hr : g.round ≠ .none) : Inv g.nextRound := by
  unfold Game.nextRound
  let g1 := g.resetRoundStatus.resetAllPlayerStatus
  have ok1 : ChipsOK g1 := chipsOK_resets (g := g) rfl rfl rfl rfl hi.chips0
  have sr : Struct g.resetRoundStatus :=
    struct_of_static (static_resetRoundStatus g) (dealerIdx_lt hi.struct) hi.struct
  have s1 : Struct g1 := struct_of_static (static_resetAllPlayerStatus _) sr.cur sr
  have st1 : Static g g1 := (static_resetRoundStatus g).trans (static_resetAllPlayerStatus _)
  have nc := noChip_nextRound' g1
  have okf := ChipsOK.of_noChip nc ok1
  exact ⟨by rw [nc.opts, st1.opts]; exact hi.opts, nc.struct s1, okf.zero, fun _ => okf.wle,
    post_nextRound' g1 (noneAllowed_resetAllPlayerStatus _) hr⟩

theorem inv_next (g : Game) (hi : Inv g) : Inv g.next.1 := by
  unfold Game.next
  split
  · exact hi
  · split
    · exact hi
    · rename_i hr; exact inv_nextRound g hi hr

/-! ### player actions -/

theorem allows_spec {g : Game} (hi : Inv g) {i : Nat} {a : Act} (h : g.allows i a = true) :
    ∃ p, g.players[i]? = some p ∧ g.event = .roundStarted ∧ i = g.cur ∧ a ∈ g.availableActions p := by
  unfold Game.allows at h
  split at h
  · rename_i p hp
    refine ⟨p, hp, ?_⟩
    have hmem : a ∈ p.allowed := by simpa using h
    have hpost := hi.post.allowed
    by_cases he : g.event = .roundStarted
    · simp only [he, if_true] at hpost
      have := hpost i p hp
      by_cases hc : i = g.cur
      · simp only [hc, if_true] at this
        refine ⟨he, hc, ?_⟩
        subst hc
        rw [← this]; exact hmem
      · simp only [hc, if_false] at this
        rw [this] at hmem; cases hmem
    · simp only [he, if_false] at hpost
      have := hpost p (List.mem_of_getElem? hp)
      rw [this] at hmem; cases hmem
  · cases h

/-- the state handed to `resume` by an accepted action: chips fine, still RoundStarted, and
    only the seat that has just acted can still carry an allowed list -/
structure MidAct (g : Game) : Prop where
  opts : OptsOK g.opts
  struct : Struct g
  chips : ChipsOK g
  ev : g.event = .roundStarted
  only : OnlyCur g

theorem inv_resume (g : Game) (h : MidAct g) : Inv g.resume := by
  unfold Game.resume
  rw [h.ev]
  simp only
  have nc := noChip_requestPlayerAction g
  have okf := ChipsOK.of_noChip nc h.chips
  exact ⟨by rw [nc.opts]; exact h.opts, nc.struct h.struct, okf.zero, fun _ => okf.wle,
    post_requestPlayerAction g h.struct h.ev h.only⟩

theorem Inv.midAct {g : Game} (hi : Inv g) (he : g.event = .roundStarted) : MidAct g :=
  ⟨hi.opts, hi.struct, hi.chips (by rw [he]; simp), he, by
    have := hi.post.allowed
    simp only [he, if_true] at this
    exact this.onlyCur⟩

theorem midAct_noChip {g g' : Game} (h : MidAct g) (nc : NoChip g g') (so : Soft g g') (he : g'.event = g.event) :
    MidAct g' :=
  ⟨by rw [nc.opts]; exact h.opts, nc.struct h.struct, ChipsOK.of_noChip nc h.chips, by rw [he]; exact h.ev,
    so.onlyCur h.only⟩

theorem midAct_setActed {g : Game} (h : MidAct g) (i : Nat) : MidAct (g.setActed i) :=
  midAct_noChip h (noChip_setActed g i) (soft_setActed g i) rfl

theorem midAct_pay {g : Game} (h : MidAct g) (i : Nat) (c : Int) (hc : 0 ≤ c) : MidAct (g.pay i c true) :=
  ⟨by rw [(static_pay g i c true).opts]; exact h.opts, struct_pay g i c true h.struct,
    chipsOK_pay g i c h.chips hc, by rw [pay_event]; exact h.ev, (soft_pay g i c true).onlyCur h.only⟩

theorem midAct_setPrev {g : Game} (h : MidAct g) (x : Int) (hx : 0 ≤ x) : MidAct (g.setPrev x) :=
  ⟨h.opts, struct_same (g := g) (g' := g.setPrev x) rfl rfl h.struct, chipsOK_setPrev g x hx h.chips, h.ev,
    (soft_setPrev g x).onlyCur h.only⟩

theorem wagerOf_nonneg {g : Game} (ok : ChipsOK g) (i : Nat) : 0 ≤ g.wagerOf i := by
  unfold Game.wagerOf
  cases hp : g.players[i]? with
  | none => simp
  | some p => simpa using (ok.pinv p (List.mem_of_getElem? hp)).wager0

theorem midAct_recordBet {g : Game} (h : MidAct g) (i : Nat) : MidAct (g.recordBet i) :=
  midAct_setPrev h _ (wagerOf_nonneg h.chips i)

theorem mem_available_call {g : Game} {p : Player} (h : Act.call ∈ g.availableActions p) : p.wager < g.cw := by
  unfold Game.availableActions at h
  by_cases h1 : p.fold = true
  · simp [h1] at h
  · by_cases h2 : p.stack = 0
    · simp [h1, h2] at h
    · by_cases h3 : p.wager < g.cw
      · exact h3
      · simp only [h1, h2, h3, if_false, Bool.false_eq_true] at h
        by_cases h4 : p.initial ≥ g.miniBet
        · by_cases h5 : g.cw = 0 <;> simp [h4, h5] at h
        · simp [h4] at h

theorem not_available_pay (g : Game) (p : Player) : Act.pay ∉ g.availableActions p := by
  unfold Game.availableActions
  by_cases h1 : p.fold = true
  · simp [h1]
  · by_cases h2 : p.stack = 0
    · simp [h1, h2]
    · by_cases h3 : p.wager < g.cw
      · by_cases h4 : p.initial > g.cw
        · by_cases h5 : p.initial > g.cw + g.prev <;> simp [h1, h2, h3, h4, h5]
        · simp [h1, h2, h3, h4]
      · simp only [h1, h2, h3, if_false, Bool.false_eq_true]
        by_cases h4 : p.initial ≥ g.miniBet
        · by_cases h5 : g.cw = 0 <;> simp [h4, h5]
        · simp [h4]

theorem inv_doCall (g : Game) (hi : Inv g) (i : Nat) (h : g.allows i .call = true) : Inv (g.doCall i) := by
  obtain ⟨p, hp, he, _, hav⟩ := allows_spec hi h
  unfold Game.doCall
  rw [hp]
  simp only
  have hw := mem_available_call hav
  have hc : 0 ≤ (if g.cw < g.opts.blindBB then g.opts.blindBB - p.wager else g.cw - p.wager) := by
    split <;> omega
  exact inv_resume _ (midAct_pay (midAct_setActed (hi.midAct he) i) i _ hc)

theorem inv_doAllin (g : Game) (hi : Inv g) (i : Nat) (h : g.allows i .allin = true) : Inv (g.doAllin i) := by
  obtain ⟨p, hp, he, _, _⟩ := allows_spec hi h
  unfold Game.doAllin
  rw [hp]
  simp only
  have hm := hi.midAct he
  have hs := (hm.chips.pinv p (List.mem_of_getElem? hp)).stack0
  apply inv_resume
  apply midAct_pay _ i _ hs
  split
  · rename_i hge
    exact midAct_setPrev (midAct_setActed hm i) _ (Int.le_trans hm.chips.prev0 hge)
  · exact midAct_setActed hm i

theorem inv_act (g : Game) (hi : Inv g) (i : Nat) (a : Act) (x : Int) : Inv (g.act i a x).1 := by
  unfold Game.act
  cases a with
  | pass =>
    simp only
    split
    · exact hi
    · rename_i h
      obtain ⟨p, hp, he, _, _⟩ := allows_spec hi (by simpa using h)
      exact inv_resume _ (midAct_setActed (hi.midAct he) i)
  | pay =>
    simp only
    split
    · exact hi
    · rename_i h
      obtain ⟨p, hp, he, _, hav⟩ := allows_spec hi (by simpa using h)
      exact absurd hav (not_available_pay g p)
  | fold =>
    simp only
    split
    · exact hi
    · rename_i h
      obtain ⟨p, hp, he, _, _⟩ := allows_spec hi (by simpa using h)
      unfold Game.doFold
      exact inv_resume _ (midAct_noChip (hi.midAct he) (noChip_modP g i _ (fun _ => rfl)) (soft_modP g i _ (fun _ => rfl)) rfl)
  | check =>
    simp only
    split
    · exact hi
    · rename_i h
      obtain ⟨p, hp, he, _, _⟩ := allows_spec hi (by simpa using h)
      exact inv_resume _ (midAct_setActed (hi.midAct he) i)
  | call =>
    simp only
    split
    · exact hi
    · rename_i h; exact inv_doCall g hi i (by simpa using h)
  | allin =>
    simp only
    split
    · exact hi
    · rename_i h; exact inv_doAllin g hi i (by simpa using h)
  | bet =>
    simp only
    split
    · exact hi
    · rename_i h
      split
      · exact hi
      · rename_i hx
        obtain ⟨p, hp, he, _, _⟩ := allows_spec hi (by simpa using h)
        have hx' : 0 ≤ x := by omega
        unfold Game.doBet
        exact inv_resume _ (midAct_recordBet (midAct_pay (midAct_setActed (hi.midAct he) i) i x hx') i)
  | raise =>
    simp only
    split
    · exact hi
    · rename_i h
      split
      · exact hi
      · rename_i hx
        split
        · split
          · exact hi
          · rename_i hc; exact inv_doCall g hi i (by simpa using hc)
        · rename_i hne
          split
          · exact hi
          · rename_i p hp
            split
            · split
              · exact hi
              · rename_i ha; exact inv_doAllin g hi i (by simpa using ha)
            · rename_i hnot
              obtain ⟨p', hp', he, _, _⟩ := allows_spec hi (by simpa using h)
              have hm := hi.midAct he
              have hw := hm.chips.wle p (List.mem_of_getElem? hp)
              have hprev := hm.chips.prev0
              have hcw := hm.chips.cw0
              have hxcw : g.cw < x := by omega
              unfold Game.doRaise
              simp only
              apply inv_resume
              apply midAct_pay
              · apply midAct_setPrev (midAct_setActed hm i)
                split <;> omega
              · split <;> omega

theorem inv_step (g : Game) (hi : Inv g) (op : Op) : Inv (g.step op).1 := by
  unfold Game.step
  cases op with
  | ready => exact inv_readyForAll g hi
  | payAnte => exact inv_payAnte g hi
  | payBlinds => exact inv_payBlinds g hi
  | next => exact inv_next g hi
  | act seat a x =>
    cases seat with
    | none => exact inv_act g hi _ a x
    | some i => exact inv_act g hi i a x

theorem inv_run (g : Game) (hi : Inv g) (ops : List Op) : Inv (g.run ops) := by
  induction ops generalizing g with
  | nil => exact hi
  | cons op ops ih => exact ih _ (inv_step g hi op)

end Pokerface
