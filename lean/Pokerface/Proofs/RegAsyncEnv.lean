/-
  The ASYNCHRONOUS system regulator × tables × players on the way back
  (Model/RegulatorAsync.lean): the invariant `AInv` — `RSys.SInv0` with the extra component
  `inflight` — and its preservation by every valid operation, from every reachable state.
-/
import Pokerface.Model.RegulatorAsync
import Pokerface.Proofs.RegAsyncReg

namespace Pokerface
open Reg

namespace ASys
open RSys (membersOf_some count_filter_elim)

/-! ### list facts about the batches on the way back -/

theorem flying_eq (s : ASys) : s.flying = seatedOf s.inflight := rfl

theorem flyingOf_eq (s : ASys) (t : Nat) : s.flyingOf t = seatedOf (s.inflight.filter (·.1 == t)) := rfl

theorem count_seatedOf_filter (m : List (Nat × List Nat)) (t a : Nat) :
    (seatedOf m).count a =
      (seatedOf (m.filter (·.1 == t))).count a + (seatedOf (m.filter (·.1 != t))).count a := by
  induction m with
  | nil => rfl
  | cons e m ih =>
    by_cases he : e.1 = t
    · have h1 : (e.1 == t) = true := by simpa using he
      have h2 : (e.1 != t) = false := by simpa using he
      simp only [List.filter_cons, h1, h2, if_true, Bool.false_eq_true, if_false]
      simp only [seatedOf, List.map_cons, List.flatten_cons, List.count_append] at ih ⊢
      omega
    · have h1 : (e.1 == t) = false := by simpa using he
      have h2 : (e.1 != t) = true := by simpa using he
      simp only [List.filter_cons, h1, h2, if_true, Bool.false_eq_true, if_false]
      simp only [seatedOf, List.map_cons, List.flatten_cons, List.count_append] at ih ⊢
      omega

theorem count_seatedOf_append (m m' : List (Nat × List Nat)) (a : Nat) :
    (seatedOf (m ++ m')).count a = (seatedOf m).count a + (seatedOf m').count a := by
  simp [seatedOf, List.count_append]

/-- a batch joins the players on the way (no batch for nobody) -/
theorem count_seatedOf_depart (m : List (Nat × List Nat)) (t : Nat) (rel : List Nat) (a : Nat) :
    (seatedOf (if rel.isEmpty then m else m ++ [(t, rel)])).count a = (seatedOf m).count a + rel.count a := by
  split
  · rename_i h
    have : rel = [] := by simpa using h
    simp [this]
  · rw [count_seatedOf_append]; simp [seatedOf]

/-- after a report of table `t` that leaves `rest` on the way -/
theorem count_seatedOf_report (m : List (Nat × List Nat)) (t : Nat) (rest : List Nat) (a : Nat) :
    (seatedOf (m.filter (fun e => e.1 != t) ++ (if rest.isEmpty then [] else [(t, rest)]))).count a =
      (seatedOf (m.filter (fun e => e.1 != t))).count a + rest.count a := by
  rw [count_seatedOf_append]
  split
  · rename_i h
    have : rest = [] := by simpa using h
    simp [this, seatedOf]
  · simp [seatedOf]

/-! ### the invariant -/

/-- invariant of the asynchronous system between operations -/
structure AInv (s : ASys) : Prop where
  wf : WF0 s.r
  cnt : s.r.playerCount = s.r.queue.length + sumCount s.r.tables + (s.flying.length : Int)
  sim : tview s.r.tables = mview s.env.members
  cons : s.env.alive.Perm (s.r.queue ++ seatedOf s.env.members ++ s.flying)
  nodup : s.env.alive.Nodup
  sub : ∀ p ∈ s.env.alive, p ∈ s.env.registered
  lenle : s.env.alive.length ≤ s.env.registered.length

/-- the invariant of an explicitly given state -/
theorem AInv.of_parts {r' : Reg} {e' : Env} {fl' : List (Nat × List Nat)} (wf : WF0 r')
    (cnt : r'.playerCount = r'.queue.length + sumCount r'.tables + ((seatedOf fl').length : Int))
    (sim : tview r'.tables = mview e'.members)
    (cons : e'.alive.Perm (r'.queue ++ seatedOf e'.members ++ seatedOf fl'))
    (nodup : e'.alive.Nodup) (sub : ∀ p ∈ e'.alive, p ∈ e'.registered)
    (lenle : e'.alive.length ≤ e'.registered.length) :
    AInv { r := r', env := e', inflight := fl' } :=
  ⟨wf, cnt, sim, cons, nodup, sub, lenle⟩

theorem AInv.ids_nodup {s : ASys} (h : AInv s) : (s.env.members.map (·.1)).Nodup := by
  rw [← mview_fst, ← h.sim, tview_fst]; exact h.wf.nodup

theorem AInv.pc {s : ASys} (h : AInv s) : s.r.playerCount = s.env.alive.length := by
  have h1 := h.cons.length_eq
  simp only [List.length_append] at h1
  have h2 := seatedOf_length s.env.members
  rw [← h.sim, ← sumCount_eq] at h2
  rw [h.cnt]
  omega

theorem AInv.pc_nonneg {s : ASys} (h : AInv s) : 0 ≤ s.r.playerCount := by
  rw [h.pc]; omega

theorem AInv.init (max min : Nat) : AInv (ASys.init max min) := by
  unfold ASys.init
  exact ⟨⟨rfl, List.nodup_nil, (fun _ h => by cases h), (fun _ h => by cases h)⟩, rfl,
    rfl, List.Perm.refl _, List.nodup_nil, (fun _ h => by cases h), Nat.le_refl _⟩

/-- the synchronous invariant is the asynchronous one with nobody on the way -/
theorem AInv.ofRSys {s : RSys} (h : RSys.SInv0 s) : AInv (ASys.ofRSys s) :=
  AInv.of_parts h.rinv.wf (by rw [h.rinv.cnt]; simp [seatedOf]) h.sim
    (by simpa [seatedOf] using h.cons) h.nodup h.sub h.lenle

/-- what happened inside one step, in terms of the observation functions of the model -/
structure AStepFacts (s : ASys) (op : AOp) : Prop where
  max_eq : (s.step op).r.max = s.r.max
  min_eq : (s.step op).r.min = s.r.min
  handout : s.r.queue ++ s.incoming op = s.returned op ++ handed (s.step op).r.calls ++ (s.step op).r.queue
  status_eq : (s.step op).r.status = s.statusAfter op
  flying : ((s.step op).flying ++ ASys.reported op).Perm (s.flying ++ s.departing op)
  reqmax : ∀ id ps, RCall.requestTable id ps ∈ (s.step op).r.calls → ps.length ≤ s.r.max
  newids : ∀ id ps, RCall.requestTable id ps ∈ (s.step op).r.calls → s.r.nextId ≤ id

theorem AStepFacts.of_eq {s : ASys} {op : AOp} {r' : Reg} {e' : Env} {fl' : List (Nat × List Nat)}
    {inc ret dep : List Nat} (hstep : s.step op = { r := r', env := e', inflight := fl' })
    (hi : s.incoming op = inc) (hr : s.returned op = ret) (hd : s.departing op = dep)
    (max_eq : r'.max = s.r.max) (min_eq : r'.min = s.r.min)
    (handout : s.r.queue ++ inc = ret ++ handed r'.calls ++ r'.queue)
    (status_eq : r'.status = s.statusAfter op)
    (flying : (seatedOf fl' ++ ASys.reported op).Perm (s.flying ++ dep))
    (reqmax : ∀ id ps, RCall.requestTable id ps ∈ r'.calls → ps.length ≤ s.r.max)
    (newids : ∀ id ps, RCall.requestTable id ps ∈ r'.calls → s.r.nextId ≤ id) : AStepFacts s op := by
  subst hi hr hd
  constructor <;> rw [hstep] <;> assumption

/-- a refused or unknown-table operation: only the scratch fields of the regulator change -/
theorem AInv.scratch {s : ASys} (h : AInv s) (ch : List Nat) :
    AInv { r := s.r.beginOp ch, env := s.env, inflight := s.inflight } :=
  ⟨h.wf.beginOp ch, h.cnt, h.sim, h.cons, h.nodup, h.sub, h.lenle⟩

theorem AInv.step_add {s : ASys} (h : AInv s) (ps ch : List Nat) (hok : s.ok (.add ps ch)) :
    AInv (s.step (.add ps ch)) ∧ AStepFacts s (.add ps ch) := by
  obtain ⟨hnd, hfresh, hbad⟩ := hok
  by_cases hs : s.r.status = .afterRegDeadline
  · have heq : s.r.addPlayers ps ch = (s.r.beginOp ch, some .afterRegDeadline) := by
      unfold Reg.addPlayers
      have : (s.r.beginOp ch).status = .afterRegDeadline := hs
      simp only [this, if_true]
    have hstep : s.step (.add ps ch) = { r := s.r.beginOp ch, env := s.env, inflight := s.inflight } := by
      simp only [step, heq]
    refine ⟨hstep ▸ h.scratch ch, AStepFacts.of_eq (inc := []) (ret := []) (dep := []) hstep
      (by simp only [incoming, heq]; rfl) rfl rfl rfl rfl ?_ rfl ?_ ?_ ?_⟩
    · simp [Reg.beginOp, handed]
    · simp [reported, flying_eq]
    · intro id qs hm; simp [Reg.beginOp] at hm
    · intro id qs hm; simp [Reg.beginOp] at hm
  · obtain ⟨he, hwf', hx, hst, hpc⟩ := addPlayers_specA s.r ps ch h.wf hs hbad
    have heq : s.r.addPlayers ps ch = ((s.r.addPlayers ps ch).1, none) := Prod.ext rfl he
    have hinc : s.incoming (.add ps ch) = ps := by simp only [incoming, he]; rfl
    have hstep : s.step (.add ps ch) =
        { r := (s.r.addPlayers ps ch).1,
          env := { members := Env.applyCalls s.env.members (s.r.addPlayers ps ch).1.calls,
                   alive := s.env.alive ++ ps, registered := s.env.registered ++ ps },
          inflight := s.inflight } := by
      simp only [step]; rw [heq]
    generalize (s.r.addPlayers ps ch).1 = r' at *
    obtain ⟨hsim', hseat'⟩ := opext_env hx h.sim h.ids_nodup
    have hc := hx.cnt0 h.wf
    have hdisj : ∀ p ∈ ps, p ∉ s.env.alive := fun p hp ha => hfresh p hp (h.sub p ha)
    refine ⟨hstep ▸ AInv.of_parts hwf' ?_ hsim' ?_ ?_ ?_ ?_,
      AStepFacts.of_eq (ret := []) (dep := []) hstep hinc rfl rfl hx.max_eq hx.min_eq ?_ hst ?_ hx.reqmax hx.newids⟩
    · rw [hpc, h.cnt, flying_eq]; omega
    · rw [List.perm_iff_count]
      intro a
      have c1 := h.cons.count_eq a
      have c2 := hseat'.count_eq a
      have c3 := congrArg (List.count a) hx.queue
      rw [flying_eq] at c1
      simp only [List.count_append] at c1 c2 c3 ⊢
      omega
    · rw [List.nodup_append]
      refine ⟨h.nodup, hnd, ?_⟩
      intro a ha b hb hab
      subst hab
      exact hdisj a hb ha
    · intro p hp
      rcases List.mem_append.1 hp with h1 | h1
      · exact List.mem_append_left _ (h.sub p h1)
      · exact List.mem_append_right _ h1
    · simp only [List.length_append]; have := h.lenle; omega
    · simpa using hx.queue
    · simp [reported, flying_eq]

theorem AInv.step_status {s : ASys} (h : AInv s) (st : RStatus) (ch : List Nat) (hok : s.ok (.status st ch)) :
    AInv (s.step (.status st ch)) ∧ AStepFacts s (.status st ch) := by
  have hbad : (s.r.setStatus st ch).badChoice = false := hok
  obtain ⟨hwf', hx, hst, hpc⟩ := setStatus_specA s.r st ch h.wf hbad
  have hstep : s.step (.status st ch) =
      { r := s.r.setStatus st ch,
        env := { s.env with members := Env.applyCalls s.env.members (s.r.setStatus st ch).calls },
        inflight := s.inflight } := rfl
  generalize s.r.setStatus st ch = r' at *
  obtain ⟨hsim', hseat'⟩ := opext_env hx h.sim h.ids_nodup
  have hc := hx.cnt0 h.wf
  refine ⟨hstep ▸ AInv.of_parts hwf' ?_ hsim' ?_ h.nodup h.sub h.lenle,
    AStepFacts.of_eq (inc := []) (ret := []) (dep := []) hstep rfl rfl rfl hx.max_eq hx.min_eq ?_ hst ?_
      hx.reqmax hx.newids⟩
  · rw [hpc, h.cnt, flying_eq]; simp only [List.length_nil] at hc; omega
  · rw [List.perm_iff_count]
    intro a
    have c1 := h.cons.count_eq a
    have c2 := hseat'.count_eq a
    have c3 := congrArg (List.count a) hx.queue
    rw [flying_eq] at c1
    simp only [List.count_append, List.count_nil] at c1 c2 c3 ⊢
    omega
  · simpa using hx.queue
  · simp [reported, flying_eq]

theorem AInv.step_report {s : ASys} (h : AInv s) (t : Nat) (ps rest ch : List Nat)
    (hok : s.ok (.report t ps rest ch)) :
    AInv (s.step (.report t ps rest ch)) ∧ AStepFacts s (.report t ps rest ch) := by
  obtain ⟨hperm, hbad⟩ := hok
  obtain ⟨hwf', hx, hst, hpc⟩ := releasePlayers_specA s.r ps ch h.wf hbad
  have hstep : s.step (.report t ps rest ch) =
      { r := s.r.releasePlayers ps ch,
        env := { s.env with members := Env.applyCalls s.env.members (s.r.releasePlayers ps ch).calls },
        inflight := s.inflight.filter (fun e => e.1 != t) ++ (if rest.isEmpty then [] else [(t, rest)]) } := rfl
  generalize s.r.releasePlayers ps ch = r' at *
  obtain ⟨hsim', hseat'⟩ := opext_env hx h.sim h.ids_nodup
  have hc := hx.cnt0 h.wf
  -- the players on the way before and after
  have hfly : ∀ a, (seatedOf s.inflight).count a =
      (seatedOf (s.inflight.filter (fun e => e.1 != t) ++ (if rest.isEmpty then [] else [(t, rest)]))).count a +
        ps.count a := by
    intro a
    have c1 := count_seatedOf_filter s.inflight t a
    have c2 := count_seatedOf_report s.inflight t rest a
    have c3 := hperm.count_eq a
    rw [flyingOf_eq] at c3
    simp only [List.count_append] at c3
    omega
  have hflyP : (seatedOf s.inflight).Perm
      (seatedOf (s.inflight.filter (fun e => e.1 != t) ++ (if rest.isEmpty then [] else [(t, rest)])) ++ ps) := by
    rw [List.perm_iff_count]; intro a; rw [List.count_append]; exact hfly a
  have hflyL := hflyP.length_eq
  rw [List.length_append] at hflyL
  refine ⟨hstep ▸ AInv.of_parts hwf' ?_ hsim' ?_ h.nodup h.sub h.lenle,
    AStepFacts.of_eq (inc := ps) (ret := []) (dep := []) hstep rfl rfl rfl hx.max_eq hx.min_eq ?_ hst ?_
      hx.reqmax hx.newids⟩
  · rw [hpc, h.cnt, flying_eq]; omega
  · rw [List.perm_iff_count]
    intro a
    have c1 := h.cons.count_eq a
    have c2 := hseat'.count_eq a
    have c3 := congrArg (List.count a) hx.queue
    have c4 := hfly a
    rw [flying_eq] at c1
    simp only [List.count_append] at c1 c2 c3 ⊢
    omega
  · simpa using hx.queue
  · rw [List.append_nil]; exact hflyP.symm

/-- what `SyncState` answers on a table the environment knows -/
theorem AInv.sync_facts {s : ASys} (h : AInv s) (t : Nat) (elim stay : List Nat) (ms : List Nat)
    (hm : s.env.membersOf t = some ms) (hperm : ms.Perm (elim ++ stay)) :
    ∃ r1 relc nw t0, s.r.findTable t = some t0 ∧ t0.count = ms.length ∧
      s.syncAnswer t elim = (r1, none, relc, nw) ∧
      SyncPostD (syncBase s.r t elim.length) t (adj (-(elim.length : Int)) none t0) r1 relc nw := by
  have hfm := membersOf_some hm
  have hsf := sim_find s.r.tables s.env.members t h.sim
  rw [hfm] at hsf
  simp only [Option.map_some] at hsf
  cases hft : s.r.tables.find? (fun x => x.id == t) with
  | none => rw [hft] at hsf; cases hsf
  | some t0 =>
    rw [hft] at hsf
    simp only [Option.map_some, Option.some.injEq] at hsf
    have hlen := hperm.length_eq
    rw [List.length_append] at hlen
    have hle : (elim.length : Int) ≤ t0.count := by omega
    -- eliminations never make the player total negative
    have hpc : 0 ≤ s.r.playerCount - (elim.length : Int) := by
      obtain ⟨bwf, _, bsum⟩ := syncBase_factsD s.r t elim.length t0 h.wf hft hle
      have := sumCount_nonneg _ (fun t ht => (bwf.nn t ht).1)
      rw [h.cnt]; omega
    obtain ⟨r1, relc, nw, heq, post⟩ := syncState_specD s.r t elim.length t0 h.wf hpc hft hle
    exact ⟨r1, relc, nw, t0, hft, hsf, heq, post⟩

theorem AInv.unknown_iff {s : ASys} (h : AInv s) (t : Nat) :
    s.env.membersOf t = none ↔ s.r.findTable t = none := by
  have hsf := sim_find s.r.tables s.env.members t h.sim
  unfold Env.membersOf Reg.findTable
  cases h1 : s.r.tables.find? (fun x => x.id == t) <;>
    cases h2 : s.env.members.find? (fun x => x.1 == t) <;> simp_all

theorem AInv.step_sync {s : ASys} (h : AInv s) (t : Nat) (elim stay rel keep : List Nat)
    (hok : s.ok (.sync t elim stay rel keep)) :
    AInv (s.step (.sync t elim stay rel keep)) ∧ AStepFacts s (.sync t elim stay rel keep) := by
  simp only [ok] at hok
  cases hm : s.env.membersOf t with
  | none =>
    have hft : s.r.findTable t = none := (h.unknown_iff t).1 hm
    have hans : (s.syncAnswer t elim).1 = s.r.beginOp [] := by
      simp only [syncAnswer, syncState_eq, hft]
    have hstep : s.step (.sync t elim stay rel keep) =
        { r := s.r.beginOp [], env := s.env, inflight := s.inflight } := by
      simp only [step, hm, hans]
    refine ⟨hstep ▸ h.scratch [], AStepFacts.of_eq (inc := []) (ret := []) (dep := []) hstep rfl
      (by simp only [returned, hm]) (by simp only [departing, hm]) rfl rfl ?_ rfl ?_ ?_ ?_⟩
    · simp [Reg.beginOp, handed]
    · simp [reported, flying_eq]
    · intro id qs hmm; simp [Reg.beginOp] at hmm
    · intro id qs hmm; simp [Reg.beginOp] at hmm
  | some ms =>
    rw [hm] at hok
    simp only [] at hok
    obtain ⟨r1, relc, nw, t0, hft, hc0, hans, post⟩ := h.sync_facts t elim stay ms hm (by
      rw [show s.syncAnswer t elim = ((s.syncAnswer t elim).1, (s.syncAnswer t elim).2.1,
        (s.syncAnswer t elim).2.2.1, (s.syncAnswer t elim).2.2.2) from rfl] at hok
      exact hok.1)
    have hbrk : s.broken t elim = (r1.findTable t).isNone := by simp only [broken, hans]
    rw [hans] at hok
    simp only [] at hok
    obtain ⟨hp1, hp2, hrl, hkeep⟩ := hok
    have hstep : s.step (.sync t elim stay rel keep) =
        { r := r1,
          env := { s.env with
                   members := if s.broken t elim then s.env.members.filter (fun e => e.1 != t)
                              else setMembers t keep s.env.members,
                   alive := s.env.alive.filter (fun p => !elim.contains p) },
          inflight := if rel.isEmpty then s.inflight else s.inflight ++ [(t, rel)] } := by
      simp only [step, hm, hans]; rfl
    have hret : s.returned (.sync t elim stay rel keep) = nw := by simp only [returned, hm, hans]
    have hdep : s.departing (.sync t elim stay rel keep) = rel := by simp only [departing, hm]
    obtain ⟨ht0, hid0⟩ := findTable_some hft
    have hfm := membersOf_some hm
    have hmn := h.ids_nodup
    have hbt : tview (syncBase s.r t elim.length).tables = bump t (-(elim.length : Int)) (tview s.r.tables) := by
      rw [syncBase_tables, tview_upd t _ _ (-(elim.length : Int)) (adj_id _ _) (adj_count _ _)]
    have hbq : (syncBase s.r t elim.length).queue = s.r.queue := rfl
    have hnd' : (s.env.alive.filter (fun p => !elim.contains p)).Nodup := h.nodup.filter _
    have hsub' : ∀ p ∈ s.env.alive.filter (fun p => !elim.contains p), p ∈ s.env.registered :=
      fun p hp => h.sub p (List.mem_filter.1 hp).1
    have hlen' : (s.env.alive.filter (fun p => !elim.contains p)).length ≤ s.env.registered.length :=
      Nat.le_trans (List.length_filter_le _ _) h.lenle
    have hq1 : s.r.queue = nw ++ r1.queue := hbq ▸ post.queue
    have hc1 : r1.calls = [] := post.calls
    have hlen1 := hp1.length_eq
    have hlen2 := hp2.length_eq
    simp only [List.length_append] at hlen1 hlen2
    -- the players on the way afterwards
    have hfly : ∀ a, (seatedOf (if rel.isEmpty then s.inflight else s.inflight ++ [(t, rel)])).count a =
        (seatedOf s.inflight).count a + rel.count a := fun a => count_seatedOf_depart s.inflight t rel a
    have hflyP : (seatedOf (if rel.isEmpty then s.inflight else s.inflight ++ [(t, rel)])).Perm
        (seatedOf s.inflight ++ rel) := by
      rw [List.perm_iff_count]; intro a; rw [List.count_append]; exact hfly a
    have hflyL := hflyP.length_eq
    rw [List.length_append] at hflyL
    -- the regulator's count identity afterwards
    have hcnt' : r1.playerCount = r1.queue.length + sumCount r1.tables +
        ((seatedOf (if rel.isEmpty then s.inflight else s.inflight ++ [(t, rel)])).length : Int) := by
      have hbs := (syncBase_factsD s.r t elim.length t0 h.wf hft (by omega)).2.2
      have hd := post.cntd
      rw [hbs, hbq] at hd
      have hpcb : (syncBase s.r t elim.length).playerCount = s.r.playerCount - (elim.length : Int) := rfl
      have hcnt := h.cnt
      rw [flying_eq] at hcnt
      rw [post.pc_eq, hpcb, hcnt]
      omega
    -- counting of the survivors
    have hcountBase : ∀ (m1 : List (Nat × List Nat)),
        (∀ a, (seatedOf m1).count a = keep.count a +
          (seatedOf (s.env.members.filter (fun e => e.1 != t))).count a) →
        (s.env.alive.filter (fun p => !elim.contains p)).Perm
          (r1.queue ++ seatedOf m1 ++ seatedOf (if rel.isEmpty then s.inflight else s.inflight ++ [(t, rel)])) := by
      intro m1 hm1
      rw [List.perm_iff_count]
      intro a
      have c1 := h.cons.count_eq a
      have c2 := (count_seatedOf_split s.env.members t ms keep hmn hfm a).1
      have c3 := hp1.count_eq a
      have c4 := hp2.count_eq a
      have c5 := congrArg (List.count a) hq1
      have c6 := hm1 a
      have c7 := List.nodup_iff_count.1 h.nodup a
      have c8 := hfly a
      rw [flying_eq] at c1
      rw [count_filter_elim]
      simp only [List.count_append] at c1 c3 c4 c5 ⊢
      split
      · rename_i hin
        have : 0 < elim.count a := List.count_pos_iff.2 hin
        omega
      · rename_i hnin
        have : elim.count a = 0 := List.count_eq_zero.2 hnin
        omega
    refine ⟨?_, AStepFacts.of_eq (inc := []) hstep rfl hret hdep post.max_eq post.min_eq ?_ post.status_eq ?_ ?_ ?_⟩
    rotate_left
    · rw [hc1, hq1]; simp [handed]
    · simpa [reported, flying_eq] using hflyP
    · intro id ps hmm; rw [hc1] at hmm; cases hmm
    · intro id ps hmm; rw [hc1] at hmm; cases hmm
    rw [hstep]
    rcases post.cases with ⟨hnone, htab, hrelc, hnw⟩ | ⟨a, rq, htab, ha, hrelle⟩
    · -- the table was broken
      have hb : s.broken t elim = true := by rw [hbrk, hnone]; rfl
      have hk := hkeep hb
      subst hk
      simp only [hb, if_true]
      have hsim1 : tview r1.tables = mview (s.env.members.filter (fun e => e.1 != t)) := by
        rw [htab, tview_filter, hbt, filter_bump, h.sim, mview_filter]
      exact AInv.of_parts post.wf hcnt' hsim1 (hcountBase _ (fun a => by simp)) hnd' hsub' hlen'
    · -- the table stays
      have hidm : t ∈ r1.tables.map (·.id) := by
        rw [htab, upd_ids _ _ _ (adj_id a rq), syncBase_tables, upd_ids _ _ _ (adj_id _ _)]
        exact List.mem_map.2 ⟨t0, ht0, hid0⟩
      have hb : s.broken t elim = false := by
        rw [hbrk]
        cases hf : r1.findTable t with
        | none => exact absurd hf (findTable_ne_none hidm)
        | some _ => rfl
      simp only [hb, Bool.false_eq_true, if_false]
      have hsim1 : tview r1.tables = mview (setMembers t keep s.env.members) := by
        rw [htab, tview_upd t _ _ a (adj_id _ _) (adj_count _ _), hbt, bump_bump,
          mview_setMembers s.env.members t ms keep hmn hfm, h.sim]
        congr 1
        omega
      have hseat1 : ∀ a, (seatedOf (setMembers t keep s.env.members)).count a = keep.count a +
          (seatedOf (s.env.members.filter (fun e => e.1 != t))).count a :=
        fun a => (count_seatedOf_split s.env.members t ms keep hmn hfm a).2
      exact AInv.of_parts post.wf hcnt' hsim1 (hcountBase _ hseat1) hnd' hsub' hlen'

theorem AInv.step_full {s : ASys} (h : AInv s) (op : AOp) (hok : s.ok op) :
    AInv (s.step op) ∧ AStepFacts s op := by
  cases op with
  | add ps ch => exact h.step_add ps ch hok
  | status st ch => exact h.step_status st ch hok
  | sync t elim stay rel keep => exact h.step_sync t elim stay rel keep hok
  | report t ps rest ch => exact h.step_report t ps rest ch hok

theorem AInv.of_reachable {s : ASys} (h : AReachable s) : AInv s := by
  induction h with
  | init max min _ => exact AInv.init max min
  | step op _ hok ih => exact (ih.step_full op hok).1

end ASys
end Pokerface
