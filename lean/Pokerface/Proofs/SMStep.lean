/-
  Step-level facts: invariant, case analysis of `next`, absence of panics.
-/
import Pokerface.Proofs.SMNext

namespace Pokerface
namespace SM

/-- Invariant of every reachable state: `max` seats, dealer inside the table. -/
structure Inv (sm : SM) : Prop where
  wf : sm.WF
  dealer_lt : ∀ d, sm.dealer = some d → d < sm.max

theorem inv_new (max : Nat) : Inv (SM.new max) :=
  ⟨by simp [WF, SM.new], by intro d h; simp [SM.new] at h⟩

theorem Inv.modSeat {sm : SM} (h : Inv sm) (i f) : Inv (sm.modSeat i f) :=
  ⟨by have := h.wf; simp [WF] at *; exact this, h.dealer_lt⟩

/-- `join(seatID, p)` of the Go code (the unexported one). -/
def joinAt (sm : SM) (pid i : Nat) : SM × Option SMErr × Option Nat :=
  match sm.seats[i]? with
  | none => (sm, some .panic, none)
  | some s =>
    if s.player.isSome then (sm, some .notAvailable, none)
    else (sm.modSeat i fun s => { s with reserved := true, player := some pid }, none, some i)

/-- The seats `Join(-1, …)` draws from: active free seats when there are any, otherwise inactive free seats. -/
def joinPool (sm : SM) : List Nat :=
  if !sm.availableSeats.1.isEmpty then sm.availableSeats.1 else sm.availableSeats.2

theorem step_join_eq (sm : SM) (seat : Int) (pid : Nat) (chose : Option Nat) :
    sm.step (.join seat pid chose) =
      if seat ≥ (sm.max : Int) ∨ seat < -1 then (sm, some .invalidSeat, none)
      else if seat > -1 then sm.joinAt pid seat.toNat
      else if sm.availableSeats.1.isEmpty && sm.availableSeats.2.isEmpty then (sm, some .noAvailableSeat, none)
      else match chose with
        | none => (sm, some .badChoice, none)
        | some c => if sm.joinPool.contains c then sm.joinAt pid c else (sm, some .badChoice, none) := by
  rfl

theorem joinAt_inv {sm : SM} (h : Inv sm) (pid i : Nat) : Inv (sm.joinAt pid i).1 := by
  unfold joinAt
  split
  · exact h
  · split
    · exact h
    · exact h.modSeat _ _

theorem joinAt_no_panic {sm : SM} (h : Inv sm) (pid : Nat) {i : Nat} (hi : i < sm.max) :
    (sm.joinAt pid i).2.1 ≠ some .panic := by
  unfold joinAt
  have : i < sm.seats.length := by rw [h.wf]; exact hi
  rw [List.getElem?_eq_getElem this]
  simp only
  split <;> simp

theorem mem_joinPool_lt {sm : SM} {c : Nat} (h : c ∈ sm.joinPool) : c < sm.max := by
  unfold joinPool availableSeats at h
  split at h <;> simp at h <;> omega

theorem step_next_eq (sm : SM) : sm.step .next =
    if sm.nextDealer.2 = false then (sm.nextDealer.1, some .insufficientPlayers, none)
    else if sm.nextDealer.1.playableCount < 2 then (sm.nextDealer.1, some .insufficientPlayers, none)
    else match sm.nextDealer.1.renewSeatStatus with
      | none => (sm.nextDealer.1, some .panic, none)
      | some sm' => (sm', none, none) := by
  unfold step
  cases h : sm.nextDealer with
  | mk s b =>
    cases b
    · simp
    · simp; rfl

theorem nextDealer_inv {sm : SM} (h : Inv sm) : Inv sm.nextDealer.1 := by
  have hw := (nextDealer_actUp sm).wf h.wf
  refine ⟨hw, ?_⟩
  by_cases hf : sm.nextDealer.2 = true
  · obtain ⟨d, hd, hp⟩ := nextDealer_found sm hf
    intro d' hd'
    rw [hd] at hd'; cases hd'
    exact playable_lt hw hp
  · revert hf
    rw [nextDealer_eq]
    split
    · split
      · intro _; exact h.dealer_lt
      · split
        · intro _; exact h.dealer_lt
        · intro hf; simp at hf
    · split
      · intro hf; simp at hf
      · split
        · intro hf; simp at hf
        · intro _ d hd; simp at hd

/-- Outcome of `next` on a state satisfying the invariant: refusal or success, never a panic. -/
theorem step_next_cases {sm : SM} (h : Inv sm) :
    (sm.step .next = (sm.nextDealer.1, some .insufficientPlayers, none) ∧
      (sm.nextDealer.2 = false ∨ sm.nextDealer.1.playableCount < 2)) ∨
    (sm.nextDealer.2 = true ∧ 2 ≤ sm.nextDealer.1.playableCount ∧
      ∃ sm', sm.nextDealer.1.renewSeatStatus = some sm' ∧ sm.step .next = (sm', none, none)) := by
  rw [step_next_eq]
  by_cases hf : sm.nextDealer.2 = false
  · left; rw [if_pos hf]; exact ⟨rfl, Or.inl hf⟩
  · rw [if_neg hf]
    by_cases hc : sm.nextDealer.1.playableCount < 2
    · left; rw [if_pos hc]; exact ⟨rfl, Or.inr hc⟩
    · right
      rw [if_neg hc]
      have hf' : sm.nextDealer.2 = true := by simpa using hf
      obtain ⟨d, hd, hp⟩ := nextDealer_found sm hf'
      have hinv := nextDealer_inv h
      obtain ⟨ks, kb, sm', _, _, _, _, _, hr, _⟩ :=
        renew_spec sm.nextDealer.1 d hd (hinv.dealer_lt d hd) (by omega)
      refine ⟨hf', by omega, sm', hr, ?_⟩
      rw [hr]

theorem renew_inv {sm sm' : SM} (h : Inv sm) (hc : 2 ≤ sm.playableCount) (hr : sm.renewSeatStatus = some sm')
    {d : Nat} (hd : sm.dealer = some d) : Inv sm' := by
  obtain ⟨ks, kb, sm'', _, _, _, _, _, hr', e1, e2, _, _, e5, _⟩ :=
    renew_spec sm d hd (h.dealer_lt d hd) hc
  rw [hr] at hr'; cases hr'
  refine ⟨by have := h.wf; unfold WF at *; rw [e5, e1, this], ?_⟩
  intro d' hd'; rw [e2] at hd'; cases hd'; rw [e1]; exact h.dealer_lt d hd

theorem step_inv {sm : SM} (h : Inv sm) (op : SMOp) : Inv (sm.step op).1 := by
  cases op with
  | join seat pid chose =>
    rw [step_join_eq]
    split
    · exact h
    · split
      · exact joinAt_inv h _ _
      · split
        · exact h
        · split
          · exact h
          · split
            · exact joinAt_inv h _ _
            · exact h
  | seat id =>
    unfold step; simp only; split
    · exact h
    · exact h.modSeat _ _
  | reserve id =>
    unfold step; simp only; split
    · exact h
    · exact h.modSeat _ _
  | leave id =>
    unfold step; simp only; split
    · exact h
    · split
      · exact h
      · split
        · exact h
        · exact h.modSeat _ _
  | next =>
    rcases step_next_cases h with ⟨he, _⟩ | ⟨hf, hc, sm', hr, he⟩
    · rw [he]; exact nextDealer_inv h
    · rw [he]
      obtain ⟨d, hd, _⟩ := nextDealer_found sm hf
      exact renew_inv (nextDealer_inv h) hc hr hd

theorem run_inv {sm : SM} (h : Inv sm) (ops : List SMOp) : Inv (sm.run ops) := by
  induction ops generalizing sm with
  | nil => exact h
  | cons op ops ih => exact ih (step_inv h op)

/-- States reachable from a fresh seat manager by any operation sequence
(join-any ops carry an arbitrary recorded choice). -/
def Reachable (sm : SM) : Prop := ∃ (max : Nat) (ops : List SMOp), sm = (SM.new max).run ops

theorem Reachable.inv {sm : SM} (h : Reachable sm) : Inv sm := by
  obtain ⟨max, ops, rfl⟩ := h
  exact run_inv (inv_new max) ops

theorem Reachable.step {sm : SM} (h : Reachable sm) (op : SMOp) : Reachable (sm.step op).1 := by
  obtain ⟨max, ops, rfl⟩ := h
  exact ⟨max, ops ++ [op], by simp [run, List.foldl_append]⟩

/-- No operation panics on a state satisfying the invariant. -/
theorem step_no_panic {sm : SM} (h : Inv sm) (op : SMOp) : (sm.step op).2.1 ≠ some .panic := by
  cases op with
  | join seat pid chose =>
    rw [step_join_eq]
    split
    · simp
    · split
      · apply joinAt_no_panic h; omega
      · split
        · simp
        · split
          · simp
          · split
            · next hc => exact joinAt_no_panic h _ (mem_joinPool_lt (by simpa using hc))
            · simp
  | seat id => unfold step; simp only; split <;> simp
  | reserve id => unfold step; simp only; split <;> simp
  | leave id =>
    unfold step; simp only; split
    · simp
    · split
      · simp
      · split <;> simp
  | next =>
    rcases step_next_cases h with ⟨he, _⟩ | ⟨_, _, sm', _, he⟩ <;> rw [he] <;> simp

end SM
end Pokerface
