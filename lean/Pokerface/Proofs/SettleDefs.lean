import Pokerface.Model.Settlement
/-
  Specification-level views of the settlement model (used by C02):
  the per-level list of `(idx, delta)` updates that `settleLevel` performs,
  the threaded odd-chip offset, and the read-out `chg` of a player's `changed`.
-/
namespace Pokerface

/-- `changed` of the first player entry with index `i` (0 when there is none). -/
def chg (ps : List PlayerResult) (i : Nat) : Int :=
  match ps.find? (fun p => p.idx == i) with
  | some p => p.changed
  | none => 0

/-- Apply a list of `(idx, delta)` updates with `bumpPlayer`. -/
def bumpAll (ps : List PlayerResult) (us : List (Nat × Int)) : List PlayerResult :=
  us.foldl (fun ps u => bumpPlayer ps u.1 u.2) ps

/-- Sum of the deltas addressed to `i` in an update list. -/
def net (us : List (Nat × Int)) (i : Nat) : Int :=
  ((us.filter (fun u => u.1 == i)).map (·.2)).sum

/-- rank.go `GetWinners` after `Calculate`. -/
def levelWinners (l : LevelInfo) : List Nat :=
  match sortGroups l.groups with
  | [] => []
  | g :: _ => g.contributors

/-- rank.go `GetLoser` after `Calculate`. -/
def levelLosers (l : LevelInfo) : List Nat :=
  match sortGroups l.groups with
  | [] => []
  | _ :: ls => ls.flatMap (·.contributors)

/-- Gross reward of the winner at position `p` of `n` winners when the (already reduced)
    odd-chip offset is `offset` (loop body of `CalculateWinnerRewards`). -/
def reward (total n offset : Int) (p : Nat) : Int :=
  if Int.tmod ((p : Int) - offset + n) n < Int.tmod total n then Int.tdiv total n + 1
  else Int.tdiv total n

/-- The `(idx, delta)` updates performed by `settleLevel` on a level when the pot's
    incoming odd-chip offset is `o`. -/
def levelUpdates (l : LevelInfo) (o : Int) : List (Nat × Int) :=
  let W := levelWinners l
  let n : Int := W.length
  (W.zipIdx.map fun wp => (wp.1, reward l.total n (Int.tmod o n) wp.2 - l.wager))
    ++ (levelLosers l).map (fun i => (i, -l.wager))

/-- The pot's odd-chip offset after `settleLevel`. -/
def nextOffset (l : LevelInfo) (o : Int) : Int :=
  match sortGroups l.groups with
  | [] => o
  | g :: _ =>
    let n : Int := g.contributors.length
    Int.tmod (Int.tmod o n + Int.tmod l.total n) n

/-- All updates of one pot (`CalculatePot`), offset threaded from `o`. -/
def potUpdates : Int → List LevelInfo → List (Nat × Int)
  | _, [] => []
  | o, l :: ls => levelUpdates l o ++ potUpdates (nextOffset l o) ls

/-- rank.go `AddContributor` for the `(idx, score)` pairs `xs`, in order. -/
def addScores (gs : List RankGroup) (xs : List (Nat × Int)) : List RankGroup :=
  xs.foldl (fun gs x => rankAdd gs x.2 x.1) gs

/-- rank groups after `UpdateScore` calls for the `(idx, score)` pairs `xs`, in order. -/
def groupsOf (xs : List (Nat × Int)) : List RankGroup := addScores [] xs

/-- The `(idx, effective score)` pairs of the rows `(idx, bankroll, folded, score)` whose idx is in `C`,
    in row order; folded players enter with score 0 (`CalculateGameResults`). -/
def scoredRows (rows : List (Nat × Int × Bool × Int)) (C : List Nat) : List (Nat × Int) :=
  (rows.filter (fun row => C.contains row.1)).map
    (fun row => (row.1, if row.2.2.1 then (0 : Int) else row.2.2.2))

/-- A level as it stands when `Calculate` starts: `xs` are the `(idx, effective score)` pairs of
    its contributors in the order in which the players were registered. -/
structure LevelWF (xs : List (Nat × Int)) (l : LevelInfo) : Prop where
  groups : l.groups = groupsOf xs
  perm : (xs.map (·.1)).Perm l.contributors
  nodup : (xs.map (·.1)).Nodup
  ne : xs ≠ []
  wager : 0 ≤ l.wager
  total : l.total = (l.contributors.length : Int) * l.wager

end Pokerface
