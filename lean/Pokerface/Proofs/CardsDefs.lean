import Pokerface.Model.Game
import Pokerface.Proofs.EngineReach
/-
  Specification-level notions used by property C14 (Properties/C14.lean) and by the cards
  invariant (Proofs/Cards.lean).  Only definitions here.
-/
namespace Pokerface
open Game

/-- The cards on the table in the order in which `InitializeRound` takes them off the deck:
    burn₁, flop₁, flop₂, flop₃, burn₂, turn, burn₃, river — as far as they have been dealt
    (`burned` and `board` are the lists `Status.Burned` and `Status.Board`, both in dealing
    order). -/
def streetCards (burned board : List Card) : List Card :=
  burned.take 1 ++ board.take 3 ++ (burned.drop 1).take 1 ++ (board.drop 3).take 1 ++
    (burned.drop 2).take 1 ++ (board.drop 4).take 1

/-- All hole cards, seat 0 first, then seat 1, … (the order in which they are dealt). -/
def Game.holeCards (g : Game) : List Card := g.players.flatMap (·.hole)

/-- Every card that has left the deck, in dealing order. -/
def Game.dealtCards (g : Game) : List Card := g.holeCards ++ streetCards g.burned g.board

/-- Number of board cards the street calls for. -/
def Round.boardCount : Round → Nat
  | .none => 0 | .preflop => 0 | .flop => 3 | .turn => 4 | .river => 5

/-- Number of burned cards the street calls for. -/
def Round.burnCount : Round → Nat
  | .none => 0 | .preflop => 0 | .flop => 1 | .turn => 2 | .river => 3

/-- Number of hole cards every player holds in the current street: none before the preflop
    round is entered, the configured number from then on. -/
def Game.holeCountNow (g : Game) : Nat := if g.round = .none then 0 else g.opts.holeCount

/-- Extra well-formedness of a configuration needed for the card properties (DESIGN §5):
    the deck has no duplicate card and is long enough for all hole cards, five board cards and
    three burned cards.  With a shorter deck the Go `Deal` indexes past the slice and panics
    (observation O2), while the model's `List.take` silently returns fewer cards — so this
    hypothesis is essential and explicit. -/
structure WFCards (c : Config) : Prop where
  nodup : c.opts.deck.Nodup
  long : c.seats.length * c.opts.holeCount + 8 ≤ c.opts.deck.length

/-- Reachable states of hands whose configuration also satisfies `WFCards`. -/
def ReachableC (g : Game) : Prop :=
  ∃ (c : Config) (ops : List Op), WFConfig c ∧ WFCards c ∧ (start c).2 = none ∧ g = (start c).1.run ops

theorem ReachableC.reachable {g : Game} (h : ReachableC g) : Reachable g := by
  obtain ⟨c, ops, wf, _, hs, he⟩ := h
  exact ⟨c, ops, wf, hs, he⟩

/-- Cards never move backwards between two states: the deck list is the same, the deck
    cursor does not decrease, hole cards that have been dealt are unchanged, and the old
    board / burned lists are prefixes of the new ones. -/
structure Stable (g g' : Game) : Prop where
  deck : g'.opts.deck = g.opts.deck
  seats : g'.players.length = g.players.length
  pos : g.deckPos ≤ g'.deckPos
  holes : ∀ (k : Nat) (p p' : Player), g.players[k]? = some p → g'.players[k]? = some p' →
    p.hole ≠ [] → p'.hole = p.hole
  board : g.board <+: g'.board
  burned : g.burned <+: g'.burned

end Pokerface
