import Pokerface.Proofs.FlowDecr
/-
  Helper lemmas for the statements of C06: the guard of `start`, the round field through
  every operation, refusals in a closed hand, the value of the measure at the start.
-/
namespace Pokerface
open Game

/-! ### `start` -/

theorem map_zipIdx_fst {α β : Type} (f : α → β) (l : List α) (k : Nat) :
    (l.zipIdx k).map (fun x => f x.1) = l.map f := by
  have := congrArg (List.map f) (List.zipIdx_map_fst k l)
  rw [List.map_map] at this
  exact this

theorem exists_map {α β : Type} (f : α → β) (P : β → Prop) (l : List α) :
    (∃ b ∈ l.map f, P b) ↔ ∃ a ∈ l, P (f a) := by
  constructor
  · rintro ⟨b, hb, hP⟩
    obtain ⟨a, ha, rfl⟩ := List.mem_map.mp hb
    exact ⟨a, ha, hP⟩
  · rintro ⟨a, ha, hP⟩
    exact ⟨f a, List.mem_map_of_mem ha, hP⟩

theorem players_map_posDealer (c : Config) : c.players.map (·.posDealer) = c.seats.map (·.dealer) := by
  simp only [Config.players, List.map_map, Function.comp_def]
  exact map_zipIdx_fst (·.dealer) c.seats 0

theorem players_map_bankroll (c : Config) : c.players.map (·.bankroll) = c.seats.map (·.bankroll) := by
  simp only [Config.players, List.map_map, Function.comp_def]
  exact map_zipIdx_fst (·.bankroll) c.seats 0

theorem players_map_stack (c : Config) : c.players.map (·.stack) = c.seats.map (·.bankroll) := by
  simp only [Config.players, List.map_map, Function.comp_def]
  exact map_zipIdx_fst (·.bankroll) c.seats 0

theorem players_length (c : Config) : c.players.length = c.seats.length := by
  simp [Config.players]

/-- no cached dealer exactly when no seat holds the dealer position -/
theorem dealerIdx?_isNone (c : Config) :
    (({ opts := c.opts, players := c.players } : Game).dealerIdx?.isNone = true) ↔ ¬ ∃ s ∈ c.seats, s.dealer = true := by
  have h1 : (∃ s ∈ c.seats, s.dealer = true) ↔ true ∈ c.seats.map (·.dealer) := by simp
  have h2 : (∃ p ∈ c.players, p.posDealer = true) ↔ true ∈ c.players.map (·.posDealer) := by simp
  rw [h1, ← players_map_posDealer, ← h2]
  unfold Game.dealerIdx?
  simp

theorem any_bankroll (c : Config) :
    (c.players.any (fun p => decide (p.bankroll ≤ 0)) = true) ↔ ∃ s ∈ c.seats, s.bankroll ≤ 0 := by
  rw [← exists_map (·.bankroll) (· ≤ 0) c.seats, ← players_map_bankroll, exists_map (·.bankroll) (· ≤ 0) c.players]
  simp

/-- the result of `start`, guard by guard (game.go `Start`) -/
theorem start_err (c : Config) : (start c).2 =
    if c.seats.length < 2 then some .insufficientPlayers
    else if ¬ ∃ s ∈ c.seats, s.dealer = true then some .noDealer
    else if ∃ s ∈ c.seats, s.bankroll ≤ 0 then some .notEnoughBankroll
    else if c.opts.deck = [] then some .noDeck
    else none := by
  have hd := dealerIdx?_isNone c
  have hb := any_bankroll c
  have hn : ({ opts := c.opts, players := c.players } : Game).n = c.seats.length := players_length c
  unfold start
  simp only [hn]
  split
  · rfl
  · split
    · rename_i h; rw [if_pos (hd.mp h)]
    · rename_i h
      rw [if_neg (fun h' => h (hd.mpr h'))]
      split
      · rename_i h; rw [if_pos (hb.mp h)]
      · rename_i h
        rw [if_neg (fun h' => h (hb.mpr h'))]
        by_cases hk : c.opts.deck = []
        · rw [if_pos (by simp [hk]), if_pos hk]
        · rw [if_neg (by simpa using hk), if_neg hk]

/-! ### the street through every operation -/

def Round.idx : Round → Nat
  | .none => 0 | .preflop => 1 | .flop => 2 | .turn => 3 | .river => 4

theorem flow_enterRound_round (g : Game) (r : Round) : (g.enterRound r).round = r := by
  unfold Game.enterRound Game.initializeRound
  rw [(quiet_afterRoundInitialized _).round]
  show (g.setRound r).dealStreet.round = r
  rw [dealStreet_round]; rfl

theorem nextRound'_round (g : Game) :
    g.nextRound'.round = g.round ∨ g.nextRound'.round.idx = g.round.idx + 1 := by
  unfold Game.nextRound'
  split
  · exact Or.inl rfl
  · split
    · rename_i h; right; rw [flow_enterRound_round, h]; rfl
    · rename_i h; right; rw [flow_enterRound_round, h]; rfl
    · rename_i h; right; rw [flow_enterRound_round, h]; rfl
    · exact Or.inl rfl
    · exact Or.inl rfl

theorem act_round (g : Game) (hi : Inv g) (i : Nat) (a : Act) (x : Int) : (g.act i a x).1.round = g.round := by
  cases hacc : (g.act i a x).2 with
  | some e =>
    have : (g.act i a x).1 = g := by
      have h : (g.act i a x).2 ≠ none := by rw [hacc]; simp
      revert h
      unfold Game.act
      cases a <;> simp only
      all_goals (repeat' split) <;> simp_all
    rw [this]
  | none =>
    obtain ⟨p, g1, hp, he, hc, e, sh⟩ := act_shape2 g hi i a x hacc
    obtain ⟨hm, hq, _⟩ := shape_mid hi he sh
    rw [e, (quiet_resume g1).round, hq.round]

/-- the street changes only in `ready` (none → preflop, no ante), `payAnte` (none → preflop) and
    `next` (one street forward) -/
theorem round_step (g : Game) (hi : Inv g) (hf : Flow g) (op : Op) :
    (g.step op).1.round = g.round ∨
    (op = .ready ∧ g.opts.ante = 0 ∧ g.round = .none ∧ (g.step op).1.round = .preflop) ∨
    (op = .payAnte ∧ g.round = .none ∧ (g.step op).1.round = .preflop) ∨
    (op = .next ∧ g.event = .roundClosed ∧ (g.step op).1.round.idx = g.round.idx + 1) := by
  cases op with
  | ready =>
    simp only [Game.step]
    unfold Game.readyForAll
    split
    · exact Or.inl rfl
    · simp only
      unfold Game.readiness
      have q1 := quiet_resetAllAllowed g
      split
      · rename_i hr
        split
        · exact Or.inl rfl
        · rename_i ha
          right; left
          have := hi.opts.ante0
          rw [q1.opts] at ha
          exact ⟨by trivial, by omega, by rw [← q1.round]; exact hr, flow_enterRound_round _ _⟩
      · left; rw [(quiet_startRound _).round]; exact q1.round
  | payAnte =>
    simp only [Game.step]
    cases hacc : g.payAnte.2 with
    | some e =>
      left
      have := refused_same g hf .payAnte (by simp [Game.step, hacc])
      simp only [Game.step] at this
      rw [this]
    | none =>
      right; right; left
      unfold Game.payAnte at hacc ⊢
      split
      · rename_i h; simp [h] at hacc
      · rename_i h0
        split
        · rename_i h; simp [h0, h] at hacc
        · rename_i he
          have he' : g.event = .anteRequested := by simpa using he
          refine ⟨by trivial, (hf.ante he').2, ?_⟩
          split
          · rename_i g' e heq
            simp only [h0, he, if_false, heq] at hacc
            cases hacc
          · exact flow_enterRound_round _ _
  | payBlinds =>
    left
    simp only [Game.step]
    unfold Game.payBlinds
    split
    · rfl
    · simp only
      unfold Game.blindsPaid
      rw [(quiet_prepareRound _).round]
      exact (quiet_foldl_payBlind _ g).round
  | next =>
    simp only [Game.step]
    unfold Game.next
    split
    · exact Or.inl rfl
    · rename_i he
      split
      · exact Or.inl rfl
      · simp only
        unfold Game.nextRound
        rcases nextRound'_round g.resetRoundStatus.resetAllPlayerStatus with h | h
        · left; rw [h]; rfl
        · right; right; right
          exact ⟨by trivial, by simpa using he, h⟩
  | act seat a x =>
    left
    cases seat with
    | none => exact act_round g hi _ a x
    | some i => exact act_round g hi i a x

/-! ### a closed hand -/

theorem act_not_allowed (g : Game) (i : Nat) (a : Act) (x : Int) (h : g.allows i a = false) :
    g.act i a x = (g, some .invalidAction) := by
  unfold Game.act
  cases a <;> simp [h]

theorem flow_allows_false_of_noneAllowed {g : Game} (h : NoneAllowed g) (i : Nat) (a : Act) : g.allows i a = false := by
  unfold Game.allows
  split
  · rename_i p hp
    rw [h p (List.mem_of_getElem? hp)]; rfl
  · rfl

theorem closed_refuses (g : Game) (hi : Inv g) (he : g.event = .gameClosed) (op : Op) :
    (g.step op).2 ≠ none ∧ (g.step op).1 = g := by
  have hna : NoneAllowed g := by
    have := hi.post.allowed
    simpa [he] using this
  cases op with
  | ready => simp [Game.step, Game.readyForAll, he]
  | payAnte =>
    simp only [Game.step, Game.payAnte, he]
    split <;> simp
  | payBlinds => simp [Game.step, Game.payBlinds, he]
  | next => simp [Game.step, Game.next, he]
  | act seat a x =>
    cases seat with
    | none => simp [Game.step, act_not_allowed g _ a x (flow_allows_false_of_noneAllowed hna _ a)]
    | some i => simp [Game.step, act_not_allowed g _ a x (flow_allows_false_of_noneAllowed hna _ a)]

/-! ### expected steps in an open betting round -/

theorem allows_of_mem {g : Game} {i : Nat} {p : Player} {a : Act} (hp : g.players[i]? = some p) (h : a ∈ p.allowed) :
    g.allows i a = true := by
  unfold Game.allows
  rw [hp]
  simpa using h

theorem raise_ok (g : Game) (hi : Inv g) (he : g.event = .roundStarted) (p : Player) (hp : g.players[g.cur]? = some p)
    (h : Act.raise ∈ p.allowed) (x : Int) (hx : g.cw < x) : (g.act g.cur .raise x).2 = none := by
  have ok := hi.chips (by rw [he]; simp)
  have hoff : p.allowed = g.availableActions p := by
    have := hi.post.allowed
    simp only [he, if_true] at this
    have := this g.cur p hp
    simpa using this
  have hall : g.allows g.cur .allin = true := by
    apply allows_of_mem hp
    rw [hoff] at h ⊢
    exact (avail_raise h).2
  have hr := allows_of_mem hp h
  have hcw := ok.cw0
  unfold Game.act
  simp only [hr, hall, hp]
  have h1 : ¬ (x = 0 ∨ x < g.cw) := by omega
  have h2 : ¬ x = g.cw := by omega
  simp only [h1, h2, if_false, Bool.not_true, Bool.false_eq_true]
  split <;> rfl

/-! ### the measure at the start -/

theorem start_mu (c : Config) (h : (start c).2 = none) :
    (start c).1.mu = (c.seats.length : Int) * (c.seats.map (·.bankroll)).sum + 4 * ((c.seats.length : Int) + 2) + 4 := by
  obtain ⟨_, _, he⟩ := start_ok c h
  rw [he]
  have m : Mov c.game0 c.game0.resetRoundStatus.requestReady := (mov_resetRoundStatus _).trans (mov_requestReady _)
  have hn : c.game0.n = c.seats.length := players_length c
  have hs : c.game0.stackSum = (c.seats.map (·.bankroll)).sum := by
    show (c.players.map (·.stack)).sum = _
    rw [players_map_stack]
  unfold Game.mu
  rw [m.n, m.stackSum, hn, hs, phase_ready (g := c.game0.resetRoundStatus.requestReady) rfl]
  have hr : c.game0.resetRoundStatus.requestReady.round = .none := rfl
  simp only [hr, if_true, m.n, hn]
  omega

end Pokerface
