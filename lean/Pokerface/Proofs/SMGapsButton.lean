/-
  Review gap (C17): exactly when is there no dealer (`dealer = none`)?
  `nextDealer` resets the dealer to `none` when it finds nobody even after letting everybody in, so
  "no previous dealer" covers more than "before the first hand".
-/
import Pokerface.Proofs.SMRefuse
import Pokerface.Proofs.SMGapsBook

namespace Pokerface
namespace SM

@[simp] theorem setSeat_dealer (sm : SM) (i : Nat) (s : Seat) : (sm.setSeat i s).dealer = sm.dealer := rfl

/-- Only `next` touches the dealer. -/
theorem step_dealer_of_ne_next (sm : SM) (op : SMOp) (h : op ≠ .next) : (sm.step op).1.dealer = sm.dealer := by
  cases op with
  | join seat pid chose =>
    rcases step_join_cases sm seat pid chose with ⟨e, he⟩ | ⟨i, s, _, _, _, he⟩ <;> (rw [he]; try rfl)
  | seat id =>
    rcases step_seat_cases sm id with ⟨_, he⟩ | ⟨i, _, _, he⟩ <;> (rw [he]; try rfl)
  | reserve id =>
    rcases step_reserve_cases sm id with ⟨_, he⟩ | ⟨i, _, _, he⟩ <;> (rw [he]; try rfl)
  | leave id =>
    rcases step_leave_cases sm id with ⟨e, he⟩ | ⟨i, s, _, _, _, he⟩ <;> (rw [he]; try rfl)
  | next => exact absurd rfl h

theorem run_dealer_of_no_next (sm : SM) (ops : List SMOp) (h : SMOp.next ∉ ops) : (sm.run ops).dealer = sm.dealer := by
  induction ops generalizing sm with
  | nil => rfl
  | cons op ops ih =>
    rw [run_cons, ih _ (fun hm => h (by simp [hm])), step_dealer_of_ne_next]
    intro he; exact h (by simp [he])

/-- A history containing a `next` splits at its last `next`. -/
theorem split_last_next (ops : List SMOp) (h : SMOp.next ∈ ops) :
    ∃ pre post, ops = pre ++ SMOp.next :: post ∧ SMOp.next ∉ post := by
  induction ops with
  | nil => cases h
  | cons op ops ih =>
    by_cases ht : SMOp.next ∈ ops
    · obtain ⟨pre, post, he, hp⟩ := ih ht
      exact ⟨op :: pre, post, by rw [he]; rfl, hp⟩
    · have : op = .next := by
        rcases List.mem_cons.mp h with h' | h'
        · exact h'.symm
        · exact absurd h' ht
      subst this
      exact ⟨[], ops, rfl, ht⟩

theorem run_split (sm : SM) (pre post : List SMOp) :
    sm.run (pre ++ SMOp.next :: post) = ((sm.run pre).step .next).1.run post := by
  rw [run_append, run_cons]

/-- The state in which `Next()` leaves the seat manager without a dealer. -/
def NoButtonAfterNext (sm : SM) : Prop :=
  sm.nonEmptyCount = 0 ∨ (sm.dealer = none ∧ sm.nonEmptyCount = 1 ∧ sm.playableCount = 1)

theorem occ_false_of_nonEmpty_zero {sm : SM} (hw : sm.WF) (h0 : sm.nonEmptyCount = 0) (i : Nat) : sm.occ i = false := by
  by_cases hi : i < sm.max
  · rw [nonEmptyCount_eq_occ hw, List.countP_eq_zero] at h0
    have := h0 i (List.mem_range.mpr hi)
    simpa using this
  · unfold occ
    have : sm.seats[i]? = none := by rw [List.getElem?_eq_none_iff, hw]; omega
    rw [this]

theorem exists_occ_of_nonEmpty_pos {sm : SM} (hw : sm.WF) (h : 0 < sm.nonEmptyCount) :
    ∃ i, i < sm.max ∧ sm.occ i = true := by
  rw [nonEmptyCount_eq_occ hw, List.countP_pos_iff] at h
  obtain ⟨i, hi, ho⟩ := h
  exact ⟨i, List.mem_range.mp hi, ho⟩

theorem occ_modAll_actv (sm : SM) (ids : List Nat) (i : Nat) : (sm.modAll ids actv).occ i = sm.occ i := by
  unfold occ
  rw [modAll_seats _ _ _ actv_actv]
  by_cases hm : i ∈ ids
  · rw [if_pos hm]; cases sm.seats[i]? <;> simp [actv]
  · rw [if_neg hm]

/-- `nextDealer` leaves no dealer exactly when nobody is occupied-and-not-reserved, or when there was no dealer
and the single occupied non-reserved seat is already playable (then nothing is touched). -/
theorem nextDealer_dealer_none_iff {sm : SM} (h : Inv sm) (ha : DealerActive sm) :
    sm.nextDealer.1.dealer = none ↔ NoButtonAfterNext sm := by
  have hple := playableCount_le_nonEmpty h.wf
  unfold NoButtonAfterNext
  by_cases h2 : 2 ≤ sm.playableCount
  · obtain ⟨k, _, _, _, _, _, hd, _⟩ := nextDealer_spec sm h2
    rw [hd]
    constructor
    · intro hc; cases hc
    · rintro (h0 | ⟨_, h1, _⟩) <;> omega
  by_cases h1 : sm.playableCount = 1
  · by_cases hne : sm.nonEmptyCount ≤ 1
    · have hnd : sm.nextDealer = (sm, false) := by rw [nextDealer_eq, if_pos h1, if_pos hne]
      rw [hnd]
      constructor
      · intro hd; right; exact ⟨hd, by omega, h1⟩
      · rintro (h0 | ⟨hd, _, _⟩)
        · omega
        · exact hd
    · have hfp : ∃ d, sm.firstPlayable = some d := by
        cases hfp : sm.firstPlayable with
        | some d => exact ⟨d, rfl⟩
        | none =>
          exfalso
          unfold firstPlayable at hfp
          rw [List.find?_eq_none] at hfp
          have : sm.playableCount = 0 := by
            rw [playableCount_eq_countP, List.countP_eq_zero]
            intro i hi; exact hfp i hi
          omega
      obtain ⟨d, hd⟩ := hfp
      have hnd : sm.nextDealer =
          (({ sm with dealer := some d } : SM).modAll ((sm.normalize d).drop 1) actvOcc, true) := by
        rw [nextDealer_eq, if_pos h1, if_neg hne, hd]
      rw [hnd]
      constructor
      · intro hc; simp at hc
      · rintro (h0 | ⟨_, h1', _⟩) <;> omega
  · have h0 : sm.playableCount = 0 := by omega
    have hnone : ∀ i, sm.playable i = false := by
      intro i
      by_cases hi : i < sm.max
      · rw [playableCount_eq_countP, List.countP_eq_zero] at h0
        have := h0 i (List.mem_range.mpr hi)
        simpa using this
      · cases hp : sm.playable i with
        | false => rfl
        | true => exact absurd (playable_lt h.wf hp) hi
    have hfa : sm.findActive sm.scanIds = none := by
      rw [findActive_none]; intro x _; exact hnone x
    by_cases hz : sm.nonEmptyCount = 0
    · -- nobody can be let in: the retry fails as well
      have hfa2 : (sm.modAll sm.scanIds actv).findActive sm.scanIds = none := by
        rw [findActive_none]
        intro x _
        cases hp : (sm.modAll sm.scanIds actv).playable x with
        | false => rfl
        | true =>
          have := playable_le_occ _ _ hp
          rw [occ_modAll_actv, occ_false_of_nonEmpty_zero h.wf hz] at this
          cases this
      have hnd : sm.nextDealer = ({ sm.modAll sm.scanIds actv with dealer := none }, false) := by
        rw [nextDealer_eq, if_neg h1, hfa]
        simp only [hfa2]
      rw [hnd]
      exact ⟨fun _ => Or.inl hz, fun _ => rfl⟩
    · -- somebody occupied and not reserved is in the scan range: after activation he is found
      obtain ⟨i, hi, hocc⟩ := exists_occ_of_nonEmpty_pos h.wf (by omega)
      have hmem : i ∈ sm.scanIds := by
        by_contra hmem
        unfold scanIds at hmem
        cases hdl : sm.dealer with
        | none =>
          rw [hdl] at hmem
          exact hmem ((mem_normalize sm 0 i).mpr hi)
        | some d =>
          rw [hdl] at hmem
          simp only at hmem
          have hdlt := h.dealer_lt d hdl
          obtain ⟨j, hj, rfl⟩ := exists_offset d hi
          have hj0 : j = 0 := by
            by_contra hne
            exact hmem ((mem_normalize_drop sm d 1 hj).mpr (by omega))
          subst hj0
          have e0 : (d + 0) % sm.max = d := by simp [Nat.mod_eq_of_lt hdlt]
          rw [e0] at hocc
          obtain ⟨s, hs, hsa⟩ := ha d hdl
          have := playable_of_occ_active hocc hs hsa
          rw [hnone d] at this; cases this
      have hpi : (sm.modAll sm.scanIds actv).playable i = true := by
        apply playable_of_occ_actv hocc
        rw [modAll_seats _ _ _ actv_actv, if_pos hmem]
      have hpos : 0 < sm.scanIds.countP (sm.modAll sm.scanIds actv).playable :=
        List.countP_pos_iff.mpr ⟨i, hmem, hpi⟩
      obtain ⟨e, k, hfa2⟩ := findActive_some_of_countP_pos _ _ hpos
      have hnd : sm.nextDealer = ({ sm.modAll sm.scanIds actv with dealer := some e }, true) := by
        rw [nextDealer_eq, if_neg h1, hfa]
        simp only [hfa2]
      rw [hnd]
      constructor
      · intro hc; simp at hc
      · rintro (h0' | ⟨_, _, h1'⟩) <;> omega

/-- The dealer after `next` (accepted or refused) is `none` exactly in the `NoButtonAfterNext` states. -/
theorem step_next_dealer_none_iff {sm : SM} (h : Inv sm) (ha : DealerActive sm) :
    (sm.step .next).1.dealer = none ↔ NoButtonAfterNext sm := by
  rw [← nextDealer_dealer_none_iff h ha]
  rcases step_next_cases h with ⟨he, _⟩ | ⟨hf, _, sm', _, he⟩
  · rw [he]
  · have hok : (sm.step .next).2.1 = none := by rw [he]
    obtain ⟨d, ks, kb, hn⟩ := next_ok h hok
    rw [hn.dealer, hn.mid_dealer]

end SM
end Pokerface
