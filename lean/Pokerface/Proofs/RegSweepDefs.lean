/-
  C20, the SMALL bound.  A numeric potential `phi` of the regulator state that
    * never rises in an elimination-free sync (followed by the `ReleasePlayers` it triggers), and
    * drops by at least one whenever that sync asks its table to release, receive or break.
  Hence at most `phi` syncs — a fortiori at most `phi` sweeps — ask for anything.

  With `N` players, `R = ⌈N/max⌉`, `F = ⌊N/R⌋`, `T` tables (count `c`, Required `ρ`):

      phi = 2·psi + D + [queue ≠ ∅]
      psi = G + (T if not calm) + (T − R)⁺ + (max + 2)·(R − T)⁺
      G   = Σ (c + ρ − F)⁺        players a table holds or may still be handed beyond the level `F`
      D   = #{ c < F }            tables in deficit
      calm: T = R and every table is covered (c + ρ ≥ F) — then `updateTableRequirements`
            can no longer hand out fresh `Required`s.

  This file: definitions and their behaviour under the elementary table updates.
-/
import Pokerface.Proofs.RegSettleSys

namespace Pokerface
namespace Reg

/-- what a table holds or may still be handed beyond the level `F` -/
def gF (F : Int) (t : RTable) : Nat := (t.count + t.required - F).toNat
/-- the table is not covered: even with its `Required` it stays below `F` -/
def uF (F : Int) (t : RTable) : Nat := if t.count + t.required < F then 1 else 0
/-- `Required` as a natural number -/
def rF (t : RTable) : Nat := t.required.toNat
/-- the table's deficit with respect to `F` -/
def eF (F : Int) (t : RTable) : Nat := (F - t.count).toNat

def Gs (r : Reg) : Nat := tot (gF (flr r)) r.tables
def Us (r : Reg) : Nat := tot (uF (flr r)) r.tables
def Ds (r : Reg) : Nat := tot (dF (flr r)) r.tables

/-- exactly the tables needed and every table covered -/
def calm (r : Reg) : Prop := r.tableCount = r.requiredTables ∧ Us r = 0

instance (r : Reg) : Decidable (calm r) := inferInstanceAs (Decidable (_ ∧ _))

def TP (r : Reg) : Nat := if calm r then 0 else r.tables.length
def dTR (r : Reg) : Nat := (r.tableCount - r.requiredTables).toNat
def dRT (r : Reg) : Nat := (r.requiredTables - r.tableCount).toNat

/-- `psi` with the calm-bonus ignored -/
def psi1 (r : Reg) : Nat := Gs r + r.tables.length + dTR r + (r.max + 2) * dRT r
def psi (r : Reg) : Nat := Gs r + TP r + dTR r + (r.max + 2) * dRT r
def qind (r : Reg) : Nat := if r.queue = [] then 0 else 1
def phi (r : Reg) : Nat := 2 * psi r + Ds r + qind r

theorem TP_le (r : Reg) : TP r ≤ r.tables.length := by unfold TP; split <;> omega
theorem psi_le_psi1 (r : Reg) : psi r ≤ psi1 r := by
  have := TP_le r; unfold psi psi1; omega
theorem qind_le (r : Reg) : qind r ≤ 1 := by unfold qind; split <;> omega
theorem TP_calm {r : Reg} (h : calm r) : TP r = 0 := by unfold TP; rw [if_pos h]
theorem TP_not_calm {r : Reg} (h : ¬ calm r) : TP r = r.tables.length := by unfold TP; rw [if_neg h]

theorem flr_same {r r' : Reg} (h : SameNeeds r r') : flr r' = flr r := by
  unfold flr; rw [h.req, h.pc]

/-! ### one table changes -/

/-- the table update made by `dispatchPlayer` -/
def give (k : Int) (t : RTable) : RTable := { t with required := t.required - k, count := t.count + k }

theorem gF_give (F k : Int) (t : RTable) : gF F (give k t) = gF F t := by
  simp only [gF, give]; congr 1; omega
theorem uF_give (F k : Int) (t : RTable) : uF F (give k t) = uF F t := by
  have e : (give k t).count + (give k t).required = t.count + t.required := by simp only [give]; omega
  simp only [uF, e]
theorem dF_give (F k : Int) (t : RTable) (hk : 0 ≤ k) : dF F (give k t) ≤ dF F t := by
  simp only [dF, give]; omega
theorem rF_give (k : Int) (t : RTable) (hk : 0 ≤ k) (hr : k ≤ t.required) : rF (give k t) + k.toNat = rF t := by
  simp only [rF, give]; omega

theorem tot_upd_eq (g : RTable → Nat) (ts : List RTable) (hn : (ts.map (·.id)).Nodup) {t0 : RTable}
    (ht0 : t0 ∈ ts) {id : Nat} (hid : t0.id = id) (f : RTable → RTable) (h : g (f t0) = g t0) :
    tot g (upd id f ts) = tot g ts := by
  have := tot_upd g ts hn ht0 hid f; omega

theorem tot_upd_le (g : RTable → Nat) (ts : List RTable) (hn : (ts.map (·.id)).Nodup) {t0 : RTable}
    (ht0 : t0 ∈ ts) {id : Nat} (hid : t0.id = id) (f : RTable → RTable) (h : g (f t0) ≤ g t0) :
    tot g (upd id f ts) ≤ tot g ts := by
  have := tot_upd g ts hn ht0 hid f; omega

/-- removing the table with a given id -/
theorem tot_filter_ne (g : RTable → Nat) (ts : List RTable) (hn : (ts.map (·.id)).Nodup) {t0 : RTable}
    (ht0 : t0 ∈ ts) {id : Nat} (hid : t0.id = id) :
    tot g (ts.filter (fun t => t.id != id)) + g t0 = tot g ts := by
  induction ts with
  | nil => cases ht0
  | cons t ts ih =>
    simp only [List.map_cons, List.nodup_cons] at hn
    by_cases he : t.id = id
    · have htt : t = t0 := by
        rcases List.mem_cons.1 ht0 with h | h
        · exact h.symm
        · exact absurd (List.mem_map.2 ⟨t0, h, by rw [hid, he]⟩) hn.1
      have hnot : id ∉ ts.map (·.id) := he ▸ hn.1
      have hrest : ts.filter (fun t => t.id != id) = ts := by
        apply List.filter_eq_self.2
        intro x hx
        have : x.id ≠ id := fun hh => hnot (List.mem_map.2 ⟨x, hx, hh⟩)
        simpa using this
      have : (t :: ts).filter (fun t => t.id != id) = ts.filter (fun t => t.id != id) := by
        simp [he]
      rw [this, hrest, tot_cons, htt]; omega
    · have ht0' : t0 ∈ ts := by
        rcases List.mem_cons.1 ht0 with h | h
        · rw [h] at hid; exact absurd hid he
        · exact h
      have : (t :: ts).filter (fun t => t.id != id) = t :: ts.filter (fun t => t.id != id) := by
        simp [he]
      rw [this, tot_cons, tot_cons]
      have := ih hn.2 ht0'
      omega

theorem filter_ne_length (ts : List RTable) (hn : (ts.map (·.id)).Nodup) {t0 : RTable}
    (ht0 : t0 ∈ ts) {id : Nat} (hid : t0.id = id) :
    (ts.filter (fun t => t.id != id)).length + 1 = ts.length := by
  have := tot_filter_ne (fun _ => 1) ts hn ht0 hid
  have e : ∀ l : List RTable, tot (fun _ => 1) l = l.length := by
    intro l; induction l with
    | nil => rfl
    | cons x l ih => rw [tot_cons, ih, List.length_cons]; omega
  rw [e, e] at this; exact this

theorem tot_len (g : RTable → Nat) (ts : List RTable) (h : ∀ t ∈ ts, g t ≤ 1) : tot g ts ≤ ts.length := by
  have := tot_le g ts 1 h; omega

theorem tot_le_tot (g g' : RTable → Nat) (ts : List RTable) (h : ∀ t ∈ ts, g t ≤ g' t) : tot g ts ≤ tot g' ts := by
  induction ts with
  | nil => exact Nat.le_refl _
  | cons t ts ih =>
    rw [tot_cons, tot_cons]
    have := h t (List.mem_cons_self ..)
    have := ih (fun t' ht' => h t' (List.mem_cons_of_mem _ ht'))
    omega

/-- pointwise `g ≤ g' + 1` -/
theorem tot_le_tot_add_len (g g' : RTable → Nat) (ts : List RTable) (h : ∀ t ∈ ts, g t ≤ g' t + 1) :
    tot g ts ≤ tot g' ts + ts.length := by
  induction ts with
  | nil => exact Nat.le_refl _
  | cons t ts ih =>
    rw [tot_cons, tot_cons, List.length_cons]
    have := h t (List.mem_cons_self ..)
    have := ih (fun t' ht' => h t' (List.mem_cons_of_mem _ ht'))
    omega

end Reg
end Pokerface
