import Pokerface.Proofs.FlowAct
import Pokerface.Proofs.Seats
/-
  `Flow` is preserved by every operation, hence holds in every reachable state;
  `payAnte` cannot fail inside its loop.
-/
namespace Pokerface
open Game

theorem Flow.result_none {g : Game} (hf : Flow g) (he : g.event ≠ .gameClosed) : g.result = none := by
  cases h : g.result with
  | none => rfl
  | some r => exact absurd (hf.res.mp (by rw [h]; rfl)) he

theorem Flow.round_ne {g : Game} (hf : Flow g) (h1 : g.event ≠ .readyRequested) (h2 : g.event ≠ .anteRequested) :
    g.round ≠ .none := by
  intro h
  rcases (hf.rnd0 h).1 with h' | h'
  · exact h1 h'
  · exact h2 h'

/-! ### antes -/

theorem pay_false_getElem_ne (g : Game) (i j : Nat) (c : Int) (hne : j ≠ i) :
    (g.pay i c false).players[j]? = g.players[j]? := by
  have hne' : i ≠ j := fun h => hne h.symm
  unfold Game.pay
  split
  · rfl
  · split
    · unfold Game.payAllin
      simp [Game.modP, Game.addRoundPot, hne']
    · unfold Game.payPart
      simp [Game.modP, Game.addRoundPot, hne']

/-- the per-seat ante loop cannot fail when no listed seat has a wager and no seat is listed twice -/
theorem payAnteLoop_ok : ∀ (is : List Nat) (g : Game), is.Nodup →
    (∀ i ∈ is, ∀ p, g.players[i]? = some p → p.wager = 0) → (payAnteLoop is g).2 = none
  | [], _, _, _ => rfl
  | i :: is, g, hnd, h0 => by
    have ⟨hi, hnd'⟩ := List.nodup_cons.mp hnd
    unfold Game.payAnteLoop
    split
    · rfl
    · rename_i p hp
      have := h0 i (by simp) p hp
      split
      · omega
      · apply payAnteLoop_ok is _ hnd'
        intro j hj q hq
        have hne : j ≠ i := fun h => hi (h ▸ hj)
        rw [pay_false_getElem_ne g i j _ hne] at hq
        exact h0 j (by simp [hj]) q hq

theorem payAnteLoop_ok' (g : Game) (hf : Flow g) (he : g.event = .anteRequested) :
    (payAnteLoop g.seatsFromDealer g).2 = none := by
  apply payAnteLoop_ok _ _ (Game.nodup_seatsFromDealer g)
  intro i _ p hp
  exact (hf.rnd0 (hf.ante he).2).2 p (List.mem_of_getElem? hp)

/-- `PayAnte` succeeds whenever the hand is waiting for it. -/
theorem payAnte_ok (g : Game) (hf : Flow g) (he : g.event = .anteRequested) : g.payAnte.2 = none := by
  have h1 := (hf.ante he).1
  have h2 := payAnteLoop_ok' g hf he
  unfold Game.payAnte
  have : ¬ g.opts.ante = 0 := by omega
  simp only [this, if_false, he, ne_eq, not_true_eq_false]
  split
  · rename_i g' e heq
    rw [heq] at h2; cases h2
  · rfl

/-! ### the operations -/

theorem flow_readyForAll (g : Game) (hi : Inv g) (hf : Flow g) : Flow g.readyForAll.1 := by
  unfold Game.readyForAll
  split
  · exact hf
  · rename_i he
    have he' : g.event = .readyRequested := by simpa using he
    have hres := hf.result_none (by rw [he']; simp)
    have hs1 : Struct g.resetAllAllowed := (noChip_resetAllAllowed g).struct hi.struct
    have q1 := quiet_resetAllAllowed g
    simp only
    unfold Game.readiness
    split
    · rename_i hr
      have hr' : g.round = .none := by rw [← q1.round]; exact hr
      split
      · rename_i ha
        have hev : (g.resetAllAllowed.setEvent .anteRequested).event = .anteRequested := rfl
        refine ⟨?_, ?_, ?_, ?_, ?_, ?_, ?_⟩
        · rw [hev]; show g.resetAllAllowed.result.isSome = true ↔ _; rw [q1.result, hres]; simp
        · intro _; exact ⟨ha, hr⟩
        · rw [hev]; intro h; cases h
        · intro _
          refine ⟨Or.inr hev, ?_⟩
          have hw := map_wager_of_chips (noChip_resetAllAllowed g).chips
          intro p hp
          have : p.wager ∈ g.resetAllAllowed.players.map (·.wager) := List.mem_map_of_mem (f := (·.wager)) hp
          rw [hw] at this
          obtain ⟨q, hq, hqe⟩ := List.mem_map.mp this
          rw [← hqe]; exact (hf.rnd0 hr').2 q hq
        · rw [hev]; intro h; cases h
        · rw [hev]; intro h; cases h
        · rw [hev]; intro h; cases h
      · exact flow_enterRound _ _ (by rw [q1.result]; exact hres) (by simp)
    · rename_i hr
      exact flow_startRound _ hs1 (by rw [q1.result]; exact hres) hr

theorem flow_payAnte (g : Game) (_hi : Inv g) (hf : Flow g) : Flow g.payAnte.1 := by
  unfold Game.payAnte
  split
  · exact hf
  · split
    · exact hf
    · rename_i he
      have he' : g.event = .anteRequested := by simpa using he
      have hres := hf.result_none (by rw [he']; simp)
      have hok := payAnteLoop_ok' g hf he'
      have hq := quiet_payAnteLoop g.seatsFromDealer g
      split
      · rename_i g' e heq
        rw [heq] at hok; cases hok
      · rename_i g' heq
        have : g' = (payAnteLoop g.seatsFromDealer g).1 := by rw [heq]
        simp only
        unfold Game.antePaid
        apply flow_enterRound _ _ _ (by simp)
        have q2 : Quiet g ((((g'.resetAllAllowed.setEvent .antePaid).updatePots).resetAllPlayerStatus).resetRoundStatus) := by
          rw [this]
          exact hq.trans ((((quiet_resetAllAllowed _).trans (quiet_setEvent _ _)).trans (quiet_updatePots _)).trans
            ((quiet_resetAllPlayerStatus _).trans (quiet_resetRoundStatus _)))
        rw [q2.result]; exact hres

theorem flow_payBlinds (g : Game) (_hi : Inv g) (hf : Flow g) : Flow g.payBlinds.1 := by
  unfold Game.payBlinds
  split
  · exact hf
  · rename_i he
    have he' : g.event = .blindsRequested := by simpa using he
    have hres := hf.result_none (by rw [he']; simp)
    have hr := hf.blinds he'
    simp only
    unfold Game.blindsPaid
    have q : Quiet g ((((g.seatsFromDealer.foldl payBlind g).setPrev
        (if (g.seatsFromDealer.foldl payBlind g).opts.blindBB > 0 then (g.seatsFromDealer.foldl payBlind g).opts.blindBB
          else (g.seatsFromDealer.foldl payBlind g).opts.blindDealer)).resetAllAllowed).setEvent .blindsPaid) :=
      (quiet_foldl_payBlind _ g).trans (((quiet_setPrev _ _).trans (quiet_resetAllAllowed _)).trans (quiet_setEvent _ _))
    exact flow_prepareRound _ (by rw [q.result]; exact hres) (by rw [q.round, hr]; simp)

theorem flow_next (g : Game) (_hi : Inv g) (hf : Flow g) : Flow g.next.1 := by
  unfold Game.next
  split
  · exact hf
  · split
    · exact hf
    · rename_i he hr
      have he' : g.event = .roundClosed := by simpa using he
      have hres := hf.result_none (by rw [he']; simp)
      simp only
      unfold Game.nextRound
      have q : Quiet g g.resetRoundStatus.resetAllPlayerStatus :=
        (quiet_resetRoundStatus g).trans (quiet_resetAllPlayerStatus _)
      exact flow_nextRound' _ (by rw [q.result]; exact hres) (by rw [q.round]; exact hr)

/-- the mid-action state of an accepted action: invariant pieces and frames -/
theorem shape_mid {g : Game} (hi : Inv g) (he : g.event = .roundStarted) {i : Nat} {p : Player} {g1 : Game}
    (h : ActShape g i p g1) : MidAct g1 ∧ Quiet g g1 ∧ g1.cur = g.cur := by
  have hm := hi.midAct he
  cases h with
  | mark _ => exact ⟨midAct_setActed hm i, quiet_setActed g i, rfl⟩
  | fold _ _ =>
    exact ⟨midAct_noChip hm (noChip_modP g i foldMark (fun _ => rfl)) (soft_modP g i foldMark (fun _ => rfl)) rfl,
      quiet_modP g i _, rfl⟩
  | pay a b c ha hb hc _ _ _ =>
    refine ⟨midAct_setPrev (midAct_pay (midAct_setPrev (midAct_setActed hm i) a ha) i c hc) b hb,
      (((quiet_setActed g i).trans (quiet_setPrev _ a)).trans (quiet_pay _ i c true)).trans (quiet_setPrev _ b), ?_⟩
    exact (soft_pay ((g.setActed i).setPrev a) i c true).cur

theorem flow_act (g : Game) (hi : Inv g) (hf : Flow g) (i : Nat) (a : Act) (x : Int) : Flow (g.act i a x).1 := by
  cases hacc : (g.act i a x).2 with
  | some e =>
    have : (g.act i a x).1 = g := by
      have h : (g.act i a x).2 ≠ none := by rw [hacc]; simp
      revert h
      unfold Game.act
      cases a <;> simp only
      all_goals (repeat' split) <;> simp_all
    rw [this]; exact hf
  | none =>
    obtain ⟨p, g1, hp, he, hc, e, sh⟩ := act_shape2 g hi i a x hacc
    obtain ⟨hm, hq, _⟩ := shape_mid hi he sh
    rw [e]
    unfold Game.resume
    rw [hm.ev]
    simp only
    have hres := hf.result_none (by rw [he]; simp)
    have hr := hf.round_ne (by rw [he]; simp) (by rw [he]; simp)
    exact flow_requestPlayerAction g1 hm.struct hm.ev (by rw [hq.result]; exact hres) (by rw [hq.round]; exact hr)

theorem flow_step (g : Game) (hi : Inv g) (hf : Flow g) (op : Op) : Flow (g.step op).1 := by
  unfold Game.step
  cases op with
  | ready => exact flow_readyForAll g hi hf
  | payAnte => exact flow_payAnte g hi hf
  | payBlinds => exact flow_payBlinds g hi hf
  | next => exact flow_next g hi hf
  | act seat a x =>
    cases seat with
    | none => exact flow_act g hi hf _ a x
    | some i => exact flow_act g hi hf i a x

theorem flow_run (g : Game) (hi : Inv g) (hf : Flow g) (ops : List Op) : Flow (g.run ops) := by
  induction ops generalizing g with
  | nil => exact hf
  | cons op ops ih => exact ih _ (inv_step g hi op) (flow_step g hi hf op)

theorem flow_start (c : Config) (h : (start c).2 = none) : Flow (start c).1 := by
  obtain ⟨_, _, he⟩ := start_ok c h
  rw [he]
  apply flow_requestReady
  · rfl
  · intro _ p hp
    have hp' : p ∈ c.players := hp
    obtain ⟨i, hi, hpi⟩ := List.getElem_of_mem hp'
    exact (config_players_getElem c i p (by simp [List.getElem?_eq_getElem hi, hpi])).2.2.2.1
  · intro h; exact absurd rfl h

theorem flow_reachable {g : Game} (h : Reachable g) : Flow g := by
  obtain ⟨c, ops, wf, hs, rfl⟩ := h
  exact flow_run _ (inv_start c wf hs) (flow_start c hs) ops

/-- requested by C04: `payAnte` never fails while the hand waits for the antes -/
theorem payAnte_no_error {g : Game} (h : Reachable g) (he : g.event = .anteRequested) : g.payAnte.2 = none :=
  payAnte_ok g (flow_reachable h) he

end Pokerface
