import Pokerface.Model.Combos
/-
  C10, part 1: `gospersHack k n` enumerates exactly the `n`-bit words with `k`
  one-bits, in ascending order, on the whole domain the engine reaches
  (`n ≤ 9`: at most 4 hole cards + 5 board cards).  Kernel-evaluated finite table.
-/
namespace Pokerface

/-- Specification-level: the number of one-bits of `v` among bit positions `< n`. -/
def bitCount (v n : Nat) : Nat := ((List.range n).filter (fun i => v.testBit i)).length

/-- Specification-level: the numbers below `2^n` with exactly `k` one-bits, ascending, each once. -/
def wordsOfWeight (k n : Nat) : List Nat := (List.range (2 ^ n)).filter (fun v => bitCount v n == k)

/-- `gospersLoop` with an extra flag telling whether the fuel ran out while `cur < limit`
    still held (`true` = the loop was cut short by the fuel). -/
def gospersCut (limit : Nat) : Nat → Nat → Bool
  | 0, cur => decide (cur < limit)
  | fuel + 1, cur =>
    if cur < limit then
      let lb := lowbit cur
      let r := cur + lb
      gospersCut limit fuel ((((r ^^^ cur) >>> 2) / lb) ||| r)
    else false

def gospersCheck (n k : Nat) : Bool :=
  (gospersHack k n == wordsOfWeight k n) && !(gospersCut (1 <<< n) (1 <<< n) ((1 <<< k) - 1))

theorem gospers_table :
    (List.range 10).all (fun n => (List.range (n + 1)).all (fun k => k == 0 || gospersCheck n k)) = true := by
  decide +kernel

theorem gospersCheck_of_le {n k : Nat} (hn : n ≤ 9) (hk : 0 < k) (hkn : k ≤ n) : gospersCheck n k = true := by
  have h := gospers_table
  rw [List.all_eq_true] at h
  have h1 := h n (List.mem_range.mpr (by omega))
  rw [List.all_eq_true] at h1
  have h2 := h1 k (List.mem_range.mpr (by omega))
  have : (k == 0) = false := by simp; omega
  simpa [this] using h2

end Pokerface
