import Pokerface.Model.Game
/-
  K1, translated logic: the strings of game.go / event.go for the street and the event, shared by the
  obligations of Proofs/GeneratedLogic.lean (betting) and Proofs/GeneratedLogicFlow.lean (flow).
-/
namespace Pokerface.GeneratedLogic
open Pokerface Game

/-- `Status.Round` as the string of game.go -/
def roundString : Round → String
  | .none => "" | .preflop => "preflop" | .flop => "flop" | .turn => "turn" | .river => "river"

/-- `Status.CurrentEvent` as the string of event.go (`GameEventSymbols`) -/
def evString : Ev → String
  | .none => "" | .started => "Started" | .initialized => "Initialized" | .prepared => "Prepared"
  | .anteRequested => "AnteRequested" | .antePaid => "AntePaid" | .blindsRequested => "BlindsRequested"
  | .blindsPaid => "BlindsPaid" | .readyRequested => "ReadyRequested" | .readiness => "Readiness"
  | .preflopRoundEntered => "PreflopRoundEntered" | .flopRoundEntered => "FlopRoundEntered"
  | .turnRoundEntered => "TurnRoundEntered" | .riverRoundEntered => "RiverRoundEntered"
  | .roundInitialized => "RoundInitialized" | .roundPrepared => "RoundPrepared" | .roundStarted => "RoundStarted"
  | .roundClosed => "RoundClosed" | .gameCompleted => "GameCompleted" | .settlementRequested => "SettlementRequested"
  | .settlementCompleted => "SettlementCompleted" | .gameClosed => "GameClosed"

theorem roundString_inj {a b : Round} : roundString a = roundString b ↔ a = b := by
  cases a <;> cases b <;> decide

theorem evString_roundClosed {e : Ev} : evString e = "RoundClosed" ↔ e = .roundClosed := by
  cases e <;> decide

theorem evString_inj {a b : Ev} : evString a = evString b ↔ a = b := by
  cases a <;> cases b <;> decide

end Pokerface.GeneratedLogic
