import Pokerface.Proofs.EnginePots
/-
  Gap C12 (d): no published pot ever has a negative total, after any operation with any argument.

  `potsOf es` has non-negative totals for valid entries (from the per-pot formula of C16).  Along a
  run the `pots` field only changes where `updatePots` is called: at every `RoundClosed`, before the
  settlement (`GameClosed`) and at `AntePaid`.  `PStep g g'` says: the pots of `g'` are those of `g`, or
  `g'` stands at `RoundClosed` / `GameClosed` (where `PotsOK` says they are `potsOf` of the current
  entries).
-/
namespace Pokerface
open Game

theorem sum_nonneg_int : ∀ (l : List Int), (∀ x ∈ l, 0 ≤ x) → 0 ≤ l.sum
  | [], _ => by simp
  | a :: l, h => by
    have := sum_nonneg_int l (fun x hx => h x (by simp [hx]))
    have := h a (by simp)
    simp; omega

/-- every pot of `potsOf es` has a non-negative total (entries with distinct idx, contributions ≥ 0) -/
theorem potsOf_total_nonneg (es : List C16.Entry) (h : C16.Valid es) : ∀ p ∈ potsOf es, 0 ≤ p.total := by
  intro p hp
  obtain ⟨pre, post, hsplit⟩ := List.append_of_mem hp
  obtain ⟨hle, _, ht, _⟩ := getPots_at (llOf_inv es) (fun kv hkv => (C16.contribs_levels h kv hkv).2)
    (C16.levels_nonneg h) hsplit
  rw [ht]
  apply sum_nonneg_int
  intro x hx
  obtain ⟨kv, _, rfl⟩ := List.mem_map.mp hx
  omega

/-- all published pot totals are non-negative -/
def PN (g : Game) : Prop := ∀ p ∈ g.pots, 0 ≤ p.total

theorem pn_fresh {g : Game} (hs : Struct g) (hp : ∀ p ∈ g.players, PInv p) (hf : PotsFresh g) : PN g := by
  intro p hpm
  rw [hf] at hpm
  exact potsOf_total_nonneg _ (entries_valid hs hp) p hpm

/-- pots unchanged, or the state stands where pots have just been published -/
def PStep (g g' : Game) : Prop := g'.pots = g.pots ∨ g'.event = .roundClosed ∨ g'.event = .gameClosed

theorem PStep.refl (g : Game) : PStep g g := Or.inl rfl
theorem PStep.of_keep {g g1 g2 : Game} (k : PotsKeep g g1) (h : PStep g1 g2) : PStep g g2 := by
  rcases h with h | h
  · exact Or.inl (h.trans k.pots)
  · exact Or.inr h
theorem PotsKeep.pstep {g g' : Game} (k : PotsKeep g g') : PStep g g' := Or.inl k.pots

theorem pstep_roundClosed (g : Game) : PStep g g.roundClosed := Or.inr (Or.inl rfl)

theorem pstep_requestPlayerAction (g : Game) : PStep g g.requestPlayerAction := by
  unfold Game.requestPlayerAction
  split
  · exact pstep_roundClosed g
  · split
    · exact pstep_roundClosed g
    · split
      · exact PStep.refl g
      · split
        · exact pstep_roundClosed g
        · exact (keep_setCurrentPlayer g _).pstep

theorem pstep_prepareRound (g : Game) : PStep g g.prepareRound := by
  unfold Game.prepareRound
  split
  · exact (keep_requestReady g).pstep
  · split
    · exact pstep_roundClosed g
    · exact (keep_requestReady g).pstep

theorem pstep_requestBlinds (g : Game) : PStep g g.requestBlinds := by
  unfold Game.requestBlinds
  split
  · exact PStep.of_keep (keep_setEvent g _) (pstep_prepareRound _)
  · exact (keep_setEvent g _).pstep

theorem pstep_afterRoundInitialized (g : Game) : PStep g g.afterRoundInitialized := by
  unfold Game.afterRoundInitialized
  split
  · exact pstep_requestBlinds g
  · exact pstep_prepareRound g

theorem pstep_initializeRound (g : Game) : PStep g g.initializeRound :=
  PStep.of_keep (((keep_dealStreet g).trans (keep_updateCombinations _)).trans (keep_setEvent _ _))
    (pstep_afterRoundInitialized _)

theorem pstep_enterRound (g : Game) (r : Round) : PStep g (g.enterRound r) :=
  PStep.of_keep (keep_setRound g r) (pstep_initializeRound _)

theorem pstep_openRound (g : Game) : PStep g g.openRound :=
  PStep.of_keep (keep_setEvent g _) (pstep_requestPlayerAction _)

theorem pstep_startRound' (g : Game) : PStep g g.startRound' := by
  unfold Game.startRound'
  split
  · split
    · exact pstep_roundClosed g
    · exact PStep.of_keep ((keep_setCurrentPlayer g _).trans (keep_seekBB _ _)) (pstep_openRound _)
  · exact PStep.of_keep (keep_setCurrentPlayer g _) (pstep_openRound _)

theorem pstep_startRound (g : Game) : PStep g g.startRound :=
  PStep.of_keep (keep_resetAllAllowed g) (pstep_startRound' _)

theorem pstep_readiness (g : Game) : PStep g g.readiness := by
  unfold Game.readiness
  split
  · split
    · exact (keep_setEvent g _).pstep
    · exact pstep_enterRound g _
  · exact pstep_startRound g

theorem pstep_gameCompleted (g : Game) : PStep g g.gameCompleted := Or.inr (Or.inr rfl)

theorem pstep_nextRound' (g : Game) : PStep g g.nextRound' := by
  unfold Game.nextRound'
  split
  · exact pstep_gameCompleted g
  · split
    · exact pstep_enterRound g _
    · exact pstep_enterRound g _
    · exact pstep_enterRound g _
    · exact pstep_gameCompleted g
    · exact PStep.refl g

theorem pstep_resume (g : Game) : PStep g g.resume := by
  unfold Game.resume
  split
  · exact pstep_requestPlayerAction g
  · exact pstep_roundClosed g
  · exact PStep.refl g

theorem keep_resetAllPlayerStatus_pots (g : Game) : g.resetAllPlayerStatus.pots = g.pots := rfl

theorem pstep_body {g g1 : Game} (k : PotsKeep g g1) : PStep g g1.resume := PStep.of_keep k (pstep_resume g1)

theorem pstep_doCall (g : Game) (i : Nat) : PStep g (g.doCall i) := by
  unfold Game.doCall
  split
  · exact PStep.refl g
  · exact pstep_body ((keep_setActed g i).trans (keep_pay _ i _ true))

theorem pstep_doAllin (g : Game) (i : Nat) : PStep g (g.doAllin i) := by
  unfold Game.doAllin
  split
  · exact PStep.refl g
  · rename_i p hp
    apply pstep_body
    have h1 : PotsKeep g (if p.initial - g.cw ≥ g.prev then (g.setActed i).setPrev (p.initial - g.cw) else g.setActed i) := by
      split
      · exact (keep_setActed g i).trans (keep_setPrev _ _)
      · exact keep_setActed g i
    exact h1.trans (keep_pay _ i _ true)

theorem pstep_act (g : Game) (i : Nat) (a : Act) (x : Int) : PStep g (g.act i a x).1 := by
  unfold Game.act
  cases a with
  | pass =>
    simp only
    split
    · exact PStep.refl g
    · exact pstep_body (keep_setActed g i)
  | pay =>
    simp only
    split
    · exact PStep.refl g
    · exact pstep_body (keep_pay g i x true)
  | fold =>
    simp only
    split
    · exact PStep.refl g
    · unfold Game.doFold
      exact pstep_body (keep_modP g i _ (fun _ => rfl))
  | check =>
    simp only
    split
    · exact PStep.refl g
    · exact pstep_body (keep_setActed g i)
  | call =>
    simp only
    split
    · exact PStep.refl g
    · exact pstep_doCall g i
  | allin =>
    simp only
    split
    · exact PStep.refl g
    · exact pstep_doAllin g i
  | bet =>
    simp only
    split
    · exact PStep.refl g
    · split
      · exact PStep.refl g
      · unfold Game.doBet
        exact pstep_body (((keep_setActed g i).trans (keep_pay _ i x true)).trans (keep_recordBet _ i))
  | raise =>
    simp only
    split
    · exact PStep.refl g
    · split
      · exact PStep.refl g
      · split
        · split
          · exact PStep.refl g
          · exact pstep_doCall g i
        · split
          · exact PStep.refl g
          · split
            · split
              · exact PStep.refl g
              · exact pstep_doAllin g i
            · unfold Game.doRaise
              simp only
              exact pstep_body (((keep_setActed g i).trans (keep_setPrev _ _)).trans (keep_pay _ i _ true))

/-- every operation except `PayAnte`: pots unchanged or freshly published -/
theorem pstep_step (g : Game) (op : Op) (hop : op ≠ .payAnte) : PStep g (g.step op).1 := by
  cases op with
  | ready =>
    simp only [Game.step]
    unfold Game.readyForAll
    split
    · exact PStep.refl g
    · exact PStep.of_keep (keep_resetAllAllowed g) (pstep_readiness _)
  | payAnte => exact absurd rfl hop
  | payBlinds =>
    simp only [Game.step]
    unfold Game.payBlinds
    split
    · exact PStep.refl g
    · unfold Game.blindsPaid
      exact PStep.of_keep ((((keep_foldl_payBlind _ g).trans (keep_setPrev _ _)).trans
        (keep_resetAllAllowed _)).trans (keep_setEvent _ _)) (pstep_prepareRound _)
  | next =>
    simp only [Game.step]
    unfold Game.next
    split
    · exact PStep.refl g
    · split
      · exact PStep.refl g
      · unfold Game.nextRound
        have k : PotsKeep g g.resetRoundStatus := keep_resetRoundStatus g
        rcases pstep_nextRound' g.resetRoundStatus.resetAllPlayerStatus with h | h
        · exact Or.inl (h.trans ((keep_resetAllPlayerStatus_pots _).trans k.pots))
        · exact Or.inr h
  | act seat a x =>
    cases seat with
    | none => exact pstep_act g _ a x
    | some i => exact pstep_act g i a x

/-- `PayAnte`: the pots are unchanged, or those published at `AntePaid` from a state with sound chips, or freshly
    published -/
theorem pstep_payAnte (g : Game) (hi : Inv g) :
    PStep g (g.step .payAnte).1 ∨
    ∃ y : Game, Struct y ∧ (∀ p ∈ y.players, PInv p) ∧ (g.step .payAnte).1.pots = potsOf y.entries := by
  simp only [Game.step]
  unfold Game.payAnte
  split
  · exact Or.inl (PStep.refl g)
  · split
    · exact Or.inl (PStep.refl g)
    · rename_i he
      have he' : g.event = .anteRequested := by simpa using he
      have ha : AnteInv g := ⟨hi.opts, hi.struct, hi.chips0, by
        have := hi.post.allowed; simpa [he'] using this, he'⟩
      have hl := anteInv_loop g.seatsFromDealer g ha
      have hk := keep_payAnteLoop g.seatsFromDealer g
      split
      · rename_i g' e heq
        have : g' = (payAnteLoop g.seatsFromDealer g).1 := by rw [heq]
        rw [this]
        exact Or.inl hk.pstep
      · rename_i g' heq
        have e : g' = (payAnteLoop g.seatsFromDealer g).1 := by rw [heq]
        simp only
        rw [e]
        generalize (payAnteLoop g.seatsFromDealer g).1 = g1 at hl
        unfold Game.antePaid
        let g0 := g1.resetAllAllowed.setEvent .antePaid
        have n0 : NoChip g1 g0 := (noChip_resetAllAllowed g1).trans (noChip_setEvent _ _)
        rcases pstep_enterRound (g0.updatePots.resetAllPlayerStatus.resetRoundStatus) .preflop with h | h
        · exact Or.inr ⟨g0, n0.struct hl.struct, pinv_of_noChip n0 hl.chips0.pinv, h⟩
        · exact Or.inl (Or.inr h)

/-- Along every operation the published pots keep non-negative totals. -/
theorem pn_step (g : Game) (hi : Inv g) (hf : Flow g) (ok : PotsOK g) (pn : PN g) (op : Op) : PN (g.step op).1 := by
  have hi' := inv_step g hi op
  have hf' := flow_step g hi hf op
  have ok' := potsOK_step g hi hf ok op
  have fromStep : PStep g (g.step op).1 → PN (g.step op).1 := by
    rintro (h | h | h)
    · intro p hp; rw [h] at hp; exact pn p hp
    · exact pn_fresh hi'.struct hi'.chips0.pinv (ok'.closed h)
    · have hres : (g.step op).1.result ≠ none := by
        have := hf'.res.mpr h
        intro hn; rw [hn] at this; cases this
      exact pn_fresh hi'.struct hi'.chips0.pinv (ok'.res hres).fresh
  by_cases hop : op = .payAnte
  · subst hop
    rcases pstep_payAnte g hi with h | ⟨y, hs, hp, hy⟩
    · exact fromStep h
    · intro p hpm
      rw [hy] at hpm
      exact potsOf_total_nonneg _ (entries_valid hs hp) p hpm
  · exact fromStep (pstep_step g op hop)

theorem pn_run (g : Game) (hi : Inv g) (hf : Flow g) (ok : PotsOK g) (pn : PN g) (ops : List Op) : PN (g.run ops) := by
  induction ops generalizing g with
  | nil => exact pn
  | cons op ops ih =>
    exact ih _ (inv_step g hi op) (flow_step g hi hf op) (potsOK_step g hi hf ok op) (pn_step g hi hf ok pn op)

theorem pn_start (c : Config) (h : (start c).2 = none) : PN (start c).1 := by
  obtain ⟨_, _, he⟩ := start_ok c h
  rw [he]
  intro p hp
  have : (c.game0.resetRoundStatus.requestReady).pots = [] :=
    ((keep_resetRoundStatus c.game0).trans (keep_requestReady _)).pots
  rw [this] at hp; cases hp

theorem pn_reachable {g : Game} (h : Reachable g) : PN g := by
  obtain ⟨c, ops, wf, hs, rfl⟩ := h
  exact pn_run _ (inv_start c wf hs) (flow_start c hs) (potsOK_start c hs) (pn_start c hs) ops

end Pokerface
