/-
  C20, the small bound: a closed form for the potential `phi`.
  With `T` tables, `R` tables needed, `e = (T − R)⁺` spare and `u = (R − T)⁺` missing tables:

      phi ≤ 2·(e + 1)·max + 5·T + 2·e + 2·(max + 3)·u + 1

  (`2·max + 5·T + 1` when there are exactly the tables needed).
-/
import Pokerface.Proofs.RegSweepSys

namespace Pokerface
namespace Reg

/-- `R·(max − F) ≤ max + R − 2` for `R ≥ 1`: the level is close to `max` when every needed table is needed -/
theorem req_mul_gap (r : Reg) (hm : 0 < r.max) (hR : 0 < r.requiredTables) :
    r.requiredTables * ((r.max : Int) - flr r) ≤ (r.max : Int) + r.requiredTables - 2 := by
  -- N < (F + 1)·R
  have h1 : flr r < flr r + 1 := by omega
  unfold flr at h1
  rw [Int.ediv_lt_iff_lt_mul hR] at h1
  have e1 : (r.playerCount / r.requiredTables + 1) * r.requiredTables =
      r.requiredTables * (r.playerCount / r.requiredTables) + r.requiredTables := by
    rw [Int.add_mul, Int.one_mul, Int.mul_comm]
  -- R·max ≤ N + max − 1
  have h2 : r.requiredTables ≤ (r.playerCount + (r.max : Int) - 1) / (r.max : Int) := Int.le_refl _
  rw [Int.le_ediv_iff_mul_le (by omega)] at h2
  have e2 : r.requiredTables * ((r.max : Int) - flr r) =
      r.requiredTables * (r.max : Int) - r.requiredTables * (r.playerCount / r.requiredTables) := by
    unfold flr; rw [Int.mul_sub]
  rw [e2]
  omega

theorem Gs_le (r : Reg) (hwf : WF r) (hm : 0 < r.max) (hpc : 0 ≤ r.playerCount) :
    (Gs r : Int) ≤ ((dTR r : Int) + 1) * (r.max : Int) + r.requiredTables := by
  obtain ⟨f0, f1⟩ := flr_bounds r hwf hpc
  have hR0 := ceilDiv_nonneg r.playerCount r.max hm hpc
  have hR0' : 0 ≤ r.requiredTables := hR0
  -- every table contributes at most `max − F`
  have hG : Gs r ≤ r.tables.length * ((r.max : Int) - flr r).toNat :=
    tot_le (gF (flr r)) r.tables _ (fun t ht => by
      have := hwf.bnd t ht
      simp only [gF]; omega)
  have hG' : (Gs r : Int) ≤ (r.tables.length : Int) * ((r.max : Int) - flr r) := by
    have h1 := Int.ofNat_le.2 hG
    rw [Int.natCast_mul, Int.toNat_of_nonneg (by omega)] at h1
    exact h1
  have hx0 : 0 ≤ (r.max : Int) - flr r := by omega
  have hxM : (r.max : Int) - flr r ≤ (r.max : Int) := by omega
  have hT : (r.tables.length : Int) = r.tableCount := hwf.tc.symm
  rw [hT] at hG'
  by_cases hR : 0 < r.requiredTables
  · have hkey := req_mul_gap r hm hR
    by_cases hTR : r.requiredTables ≤ r.tableCount
    · -- T = R + e
      have hd : (dTR r : Int) = r.tableCount - r.requiredTables := by unfold dTR; omega
      have hsplit : r.tableCount * ((r.max : Int) - flr r) =
          r.requiredTables * ((r.max : Int) - flr r) + (dTR r : Int) * ((r.max : Int) - flr r) := by
        rw [hd, ← Int.add_mul]; congr 1; omega
      have h3 : (dTR r : Int) * ((r.max : Int) - flr r) ≤ (dTR r : Int) * (r.max : Int) :=
        Int.mul_le_mul_of_nonneg_left hxM (by omega)
      have e4 : ((dTR r : Int) + 1) * (r.max : Int) = (dTR r : Int) * (r.max : Int) + (r.max : Int) := by
        rw [Int.add_mul, Int.one_mul]
      rw [e4]
      omega
    · have h3 : r.tableCount * ((r.max : Int) - flr r) ≤ r.requiredTables * ((r.max : Int) - flr r) :=
        Int.mul_le_mul_of_nonneg_right (by omega) hx0
      have hd : (dTR r : Int) = 0 := by unfold dTR; omega
      rw [hd]
      omega
  · -- nobody is left: `F = 0`
    have hR' : r.requiredTables = 0 := by omega
    have hF : flr r = 0 := by unfold flr; rw [hR']; simp
    have htc0 : 0 ≤ r.tableCount := by rw [hwf.tc]; omega
    have hd : (dTR r : Int) = r.tableCount := by unfold dTR; rw [hR']; omega
    rw [hF, Int.sub_zero] at hG'
    rw [hd, hR', Int.add_mul, Int.one_mul]
    omega

/-- the closed form -/
def smallBound (r : Reg) : Nat :=
  2 * (dTR r + 1) * r.max + 5 * r.tables.length + 2 * dTR r + 2 * (r.max + 3) * dRT r + 1

theorem phi_le_smallBound (r : Reg) (hwf : WF r) (hm : 0 < r.max) (hpc : 0 ≤ r.playerCount) :
    phi r ≤ smallBound r := by
  have hG := Gs_le r hwf hm hpc
  have hD : Ds r ≤ r.tables.length := tot_len _ _ (fun t _ => by simp only [dF]; omega)
  have hq := qind_le r
  have hTP := TP_le r
  have hRu : r.requiredTables ≤ (r.tables.length : Int) + (dRT r : Int) := by
    unfold dRT; rw [hwf.tc]; omega
  -- everything as natural numbers
  have hG2 : Gs r ≤ (dTR r + 1) * r.max + (r.tables.length + dRT r) := by
    have : (Gs r : Int) ≤ (((dTR r + 1) * r.max + (r.tables.length + dRT r) : Nat) : Int) := by
      rw [Int.natCast_add, Int.natCast_mul, Int.natCast_add, Int.natCast_add]
      simp only [Int.natCast_one]
      omega
    exact Int.ofNat_le.1 this
  unfold phi psi smallBound
  have e1 : 2 * (dTR r + 1) * r.max = 2 * ((dTR r + 1) * r.max) := by rw [Nat.mul_assoc]
  have e2 : 2 * (r.max + 3) * dRT r = 2 * ((r.max + 2) * dRT r) + 2 * dRT r := by
    rw [Nat.mul_assoc, ← Nat.mul_add]
    congr 1
    rw [Nat.add_mul (r.max) 3, Nat.add_mul (r.max) 2]
    omega
  rw [e1, e2]
  omega

end Reg
end Pokerface
