import Pokerface.Model.Game
/-
  C07: the JSON hop commutes with every operation of the engine.

  `Game.hop` (Model/Game.lean) drops the pots' `levels` — the only part of `GameState` proper
  that is not serialised (`json:"-"`).  The Go `settlement.Result` kept in `GameState.Result`
  has unexported internals too (`PotResult.level`, the rank groups), which the model keeps in
  `Game.result`; to cover them as well everything here is parametric in a function
  `σ : Option Result → Option Result` applied to the `result` field by the serialisation
  `ser σ g = { g.hop with result := σ g.result }`:
    * `σ = id`                       gives `ser id g = g.hop`;
    * `σ = Option.map stripResult`   gives `Game.json`, the state as the JSON really has it.

  `Same σ a b` : the two in-memory games have the same serialisation (`ser σ a = ser σ b`), i.e.
  they agree on every field except possibly `pots[·].levels` (and `result` up to `σ`).
  One lemma `same_<fn>` per function of the event chain: related inputs give related outputs.
  Nearly every function reads neither `pots` nor `result` and commutes with `ser σ`
  definitionally (`Same.map … (fun _ => rfl)`); `updatePots` overwrites the pots from the
  players; `calculateGameResults` is the only reader of `levels` and is only ever applied right
  after `updatePots` (in `gameCompleted`), and it overwrites `result`; nothing reads `result`.
-/
namespace Pokerface
open Game

/-- the serialisation of a game, parametric in what happens to the `result` field -/
def Game.ser (σ : Option Result → Option Result) (g : Game) : Game := { g.hop with result := σ g.result }

/-- what JSON keeps of a `settlement.Result`: not the levels/rank groups of the pots
    (`PotResult.level`, `PotResult.rank` are unexported) -/
def stripResult (r : Result) : Result := { r with pots := r.pots.map fun p => { p with levels := [] } }

/-- the state as it is after `json.Marshal`/`Unmarshal` + `NewGameFromState`, the internals of
    the settlement result dropped as well -/
def Game.json (g : Game) : Game := g.ser (Option.map stripResult)

theorem ser_id (g : Game) : g.ser id = g.hop := rfl

/-- same serialised state: equal up to the pots' `levels` (and up to `σ` on the result) -/
def Same (σ : Option Result → Option Result) (a b : Game) : Prop := a.ser σ = b.ser σ

/-- same serialised state and same error value -/
def SameR (σ : Option Result → Option Result) (x y : Game × Option Err) : Prop := Same σ x.1 y.1 ∧ x.2 = y.2

theorem hop_hop (g : Game) : g.hop.hop = g.hop := by
  simp [Game.hop, List.map_map, Function.comp_def]

theorem stripResult_idem (r : Result) : stripResult (stripResult r) = stripResult r := by
  simp [stripResult, List.map_map, Function.comp_def]

theorem json_json (g : Game) : g.json.json = g.json := by
  have h1 : g.json.json.result = g.json.result := by
    show (g.result.map stripResult).map stripResult = g.result.map stripResult
    cases g.result with
    | none => rfl
    | some r => simp [stripResult_idem]
  have h2 := hop_hop g
  cases g
  simp only [Game.json, Game.ser, Game.hop, Game.mk.injEq] at h1 h2 ⊢
  simp [h1, h2]

variable {σ : Option Result → Option Result}

theorem Same.refl (a : Game) : Same σ a a := rfl
theorem Same.symm {a b : Game} (h : Same σ a b) : Same σ b a := Eq.symm h
theorem Same.trans {a b c : Game} (h1 : Same σ a b) (h2 : Same σ b c) : Same σ a c := Eq.trans h1 h2
theorem SameR.refl (x : Game × Option Err) : SameR σ x x := ⟨rfl, rfl⟩
theorem SameR.mk' {a b : Game} (h : Same σ a b) (e : Option Err) : SameR σ (a, e) (b, e) := ⟨h, rfl⟩

/-- the rebuilt game and the original have the same serialisation (`σ = id`) -/
theorem same_hop_left (g : Game) : Same id g.hop g := hop_hop g
/-- … also when the result internals are dropped (`σ = Option.map stripResult`) -/
theorem same_json_left (g : Game) : Same (Option.map stripResult) g.json g := json_json g

namespace Same
variable {a b : Game}

/-- anything that looks neither at the levels nor at the result has the same value on both sides -/
theorem congr {α : Sort _} (h : Same σ a b) (f : Game → α) (hf : ∀ g : Game, f (g.ser σ) = f g) : f a = f b := by
  rw [← hf a, ← hf b, h]

/-- a function whose effect on the serialisation is a function of the serialisation maps related
    states to related states -/
theorem map' (F G : Game → Game) (hF : ∀ g : Game, (F g).ser σ = G (g.ser σ)) (h : Same σ a b) : Same σ (F a) (F b) := by
  unfold Same
  rw [hF a, hF b, h]

/-- in particular a function that commutes with the serialisation -/
theorem map (F : Game → Game) (hF : ∀ g : Game, F (g.ser σ) = (F g).ser σ) (h : Same σ a b) : Same σ (F a) (F b) := by
  unfold Same
  rw [← hF a, ← hF b, h]

theorem opts (h : Same σ a b) : a.opts = b.opts := h.congr Game.opts (fun _ => rfl)
theorem players (h : Same σ a b) : a.players = b.players := h.congr Game.players (fun _ => rfl)
theorem miniBet (h : Same σ a b) : a.miniBet = b.miniBet := h.congr Game.miniBet (fun _ => rfl)
theorem round (h : Same σ a b) : a.round = b.round := h.congr Game.round (fun _ => rfl)
theorem burned (h : Same σ a b) : a.burned = b.burned := h.congr Game.burned (fun _ => rfl)
theorem board (h : Same σ a b) : a.board = b.board := h.congr Game.board (fun _ => rfl)
theorem prev (h : Same σ a b) : a.prev = b.prev := h.congr Game.prev (fun _ => rfl)
theorem deckPos (h : Same σ a b) : a.deckPos = b.deckPos := h.congr Game.deckPos (fun _ => rfl)
theorem roundPot (h : Same σ a b) : a.roundPot = b.roundPot := h.congr Game.roundPot (fun _ => rfl)
theorem cw (h : Same σ a b) : a.cw = b.cw := h.congr Game.cw (fun _ => rfl)
theorem raiser (h : Same σ a b) : a.raiser = b.raiser := h.congr Game.raiser (fun _ => rfl)
theorem cur (h : Same σ a b) : a.cur = b.cur := h.congr Game.cur (fun _ => rfl)
theorem event (h : Same σ a b) : a.event = b.event := h.congr Game.event (fun _ => rfl)
theorem result (h : Same σ a b) : σ a.result = σ b.result := congrArg Game.result (show a.ser σ = b.ser σ from h)
theorem n (h : Same σ a b) : a.n = b.n := h.congr Game.n (fun _ => rfl)
theorem dealerIdx? (h : Same σ a b) : a.dealerIdx? = b.dealerIdx? := h.congr Game.dealerIdx? (fun _ => rfl)
theorem dealerIdx (h : Same σ a b) : a.dealerIdx = b.dealerIdx := h.congr Game.dealerIdx (fun _ => rfl)
theorem nextIdx (h : Same σ a b) : a.nextIdx = b.nextIdx := h.congr Game.nextIdx (fun _ => rfl)
theorem aliveCount (h : Same σ a b) : a.aliveCount = b.aliveCount := h.congr Game.aliveCount (fun _ => rfl)
theorem movableCount (h : Same σ a b) : a.movableCount = b.movableCount := h.congr Game.movableCount (fun _ => rfl)
theorem seatsFromDealer (h : Same σ a b) : a.seatsFromDealer = b.seatsFromDealer :=
  h.congr Game.seatsFromDealer (fun _ => rfl)
theorem availableActions (h : Same σ a b) : a.availableActions = b.availableActions :=
  h.congr Game.availableActions (fun _ => rfl)
theorem allows (h : Same σ a b) (i : Nat) (x : Act) : a.allows i x = b.allows i x :=
  h.congr (fun g => g.allows i x) (fun _ => rfl)
theorem dealt (h : Same σ a b) (k : Nat) : a.dealt k = b.dealt k := h.congr (fun g => g.dealt k) (fun _ => rfl)

/-- the pots agree on everything that is serialised -/
theorem pots (h : Same σ a b) :
    a.pots.map (fun p => { p with levels := [] }) = b.pots.map (fun p => { p with levels := [] }) :=
  congrArg Game.pots (show a.ser σ = b.ser σ from h)

end Same

section
variable {a b : Game}

theorem same_ite {c : Prop} [Decidable c] {a1 a2 b1 b2 : Game} (h1 : Same σ a1 b1) (h2 : Same σ a2 b2) :
    Same σ (if c then a1 else a2) (if c then b1 else b2) := by
  split <;> assumption

theorem sameR_ite {c : Prop} [Decidable c] {a1 a2 b1 b2 : Game × Option Err} (h1 : SameR σ a1 b1) (h2 : SameR σ a2 b2) :
    SameR σ (if c then a1 else a2) (if c then b1 else b2) := by
  split <;> assumption

/-! ### setters and the other functions that do not read `pots`: they commute with `hop` definitionally -/

theorem same_modP (h : Same σ a b) (i : Nat) (f : Player → Player) : Same σ (a.modP i f) (b.modP i f) :=
  h.map (fun g => g.modP i f) (fun _ => rfl)
theorem same_mapP (h : Same σ a b) (f : Player → Player) : Same σ (a.mapP f) (b.mapP f) :=
  h.map (fun g => g.mapP f) (fun _ => rfl)
theorem same_setEvent (h : Same σ a b) (e : Ev) : Same σ (a.setEvent e) (b.setEvent e) :=
  h.map (fun g => g.setEvent e) (fun _ => rfl)
theorem same_setRound (h : Same σ a b) (r : Round) : Same σ (a.setRound r) (b.setRound r) :=
  h.map (fun g => g.setRound r) (fun _ => rfl)
theorem same_setCur (h : Same σ a b) (i : Nat) : Same σ (a.setCur i) (b.setCur i) :=
  h.map (fun g => g.setCur i) (fun _ => rfl)
theorem same_setRaiser (h : Same σ a b) (i : Nat) : Same σ (a.setRaiser i) (b.setRaiser i) :=
  h.map (fun g => g.setRaiser i) (fun _ => rfl)
theorem same_setCw (h : Same σ a b) (x : Int) : Same σ (a.setCw x) (b.setCw x) :=
  h.map (fun g => g.setCw x) (fun _ => rfl)
theorem same_setPrev (h : Same σ a b) (x : Int) : Same σ (a.setPrev x) (b.setPrev x) :=
  h.map (fun g => g.setPrev x) (fun _ => rfl)
theorem same_addRoundPot (h : Same σ a b) (x : Int) : Same σ (a.addRoundPot x) (b.addRoundPot x) :=
  h.map (fun g => g.addRoundPot x) (fun _ => rfl)
theorem same_offer (h : Same σ a b) (i : Nat) : Same σ (a.offer i) (b.offer i) :=
  h.map (fun g => g.offer i) (fun _ => rfl)
theorem same_setCurrentPlayer (h : Same σ a b) (i : Nat) : Same σ (a.setCurrentPlayer i) (b.setCurrentPlayer i) :=
  h.map (fun g => g.setCurrentPlayer i) (fun _ => rfl)
theorem same_resetAllAllowed (h : Same σ a b) : Same σ a.resetAllAllowed b.resetAllAllowed :=
  h.map Game.resetAllAllowed (fun _ => rfl)
theorem same_resetAllPlayerStatus (h : Same σ a b) : Same σ a.resetAllPlayerStatus b.resetAllPlayerStatus :=
  h.map Game.resetAllPlayerStatus (fun _ => rfl)
theorem same_resetRoundStatus (h : Same σ a b) : Same σ a.resetRoundStatus b.resetRoundStatus :=
  h.map Game.resetRoundStatus (fun _ => rfl)
theorem same_resetActed (h : Same σ a b) : Same σ a.resetActed b.resetActed :=
  h.map Game.resetActed (fun _ => rfl)
theorem same_setActed (h : Same σ a b) (i : Nat) : Same σ (a.setActed i) (b.setActed i) :=
  h.map (fun g => g.setActed i) (fun _ => rfl)
theorem same_becomeRaiser (h : Same σ a b) (i : Nat) : Same σ (a.becomeRaiser i) (b.becomeRaiser i) :=
  h.map (fun g => g.becomeRaiser i) (fun _ => rfl)
theorem same_advance (h : Same σ a b) (k : Nat) : Same σ (a.advance k) (b.advance k) :=
  h.map (fun g => g.advance k) (fun _ => rfl)
theorem same_burn (h : Same σ a b) (k : Nat) : Same σ (a.burn k) (b.burn k) :=
  h.map (fun g => g.burn k) (fun _ => rfl)
theorem same_dealBoard (h : Same σ a b) (k : Nat) : Same σ (a.dealBoard k) (b.dealBoard k) :=
  h.map (fun g => g.dealBoard k) (fun _ => rfl)
theorem same_dealHole (h : Same σ a b) (i : Nat) : Same σ (a.dealHole i) (b.dealHole i) :=
  h.map (fun g => g.dealHole i) (fun _ => rfl)
theorem same_updateCombinations (h : Same σ a b) : Same σ a.updateCombinations b.updateCombinations :=
  h.map Game.updateCombinations (fun _ => rfl)

theorem same_dealHoles : ∀ (k i : Nat) {a b : Game}, Same σ a b → Same σ (dealHoles k i a) (dealHoles k i b)
  | 0, _, _, _, h => h
  | k + 1, i, _, _, h => same_dealHoles k (i + 1) (same_dealHole h i)

/-! ### `pay` -/

theorem same_payAllin (h : Same σ a b) (i : Nat) (p : Player) (w : Bool) :
    Same σ (a.payAllin i p w) (b.payAllin i p w) := by
  have g1 : Same σ ((a.addRoundPot (p.initial - p.wager)).modP i goAllin)
      ((b.addRoundPot (p.initial - p.wager)).modP i goAllin) := same_modP (same_addRoundPot h _) _ _
  have g2 : Same σ (if p.initial > b.cw then ((a.addRoundPot (p.initial - p.wager)).modP i goAllin).setCw p.initial
        else (a.addRoundPot (p.initial - p.wager)).modP i goAllin)
      (if p.initial > b.cw then ((b.addRoundPot (p.initial - p.wager)).modP i goAllin).setCw p.initial
        else (b.addRoundPot (p.initial - p.wager)).modP i goAllin) := same_ite (same_setCw g1 _) g1
  simp only [payAllin, h.cw, h.prev]
  exact same_ite (same_ite (same_becomeRaiser g2 i) (same_resetActed g2)) g1

theorem same_payPart (h : Same σ a b) (i : Nat) (p : Player) (c : Int) (w : Bool) :
    Same σ (a.payPart i p c w) (b.payPart i p c w) := by
  have g1 : Same σ ((a.modP i (putWager (p.wager + c))).addRoundPot c) ((b.modP i (putWager (p.wager + c))).addRoundPot c) :=
    same_addRoundPot (same_modP h _ _) _
  simp only [payPart, h.cw]
  exact same_ite (same_becomeRaiser (same_setCw g1 _) i) g1

theorem same_pay (h : Same σ a b) (i : Nat) (c : Int) (w : Bool) : Same σ (a.pay i c w) (b.pay i c w) := by
  unfold pay
  rw [h.players]
  split
  · exact h
  · exact same_ite (same_payAllin h _ _ _) (same_payPart h _ _ _ _)

/-! ### the pots: recomputed from the players; the result: recomputed from those pots -/

/-- `updatePots` does not look at the old pots -/
theorem updatePots_hop (g : Game) : g.hop.updatePots = g.updatePots := rfl

/-- pot.go `updatePots`: the pots as a function of the players -/
def potsOfPlayers (ps : List Player) : List Pot := potsOf (ps.map fun p => (p.idx, p.pot + p.wager, p.fold))

def stripPots (ps : List Pot) : List Pot := ps.map fun p => { p with levels := [] }

theorem same_updatePots (h : Same σ a b) : Same σ a.updatePots b.updatePots :=
  h.map' Game.updatePots (fun s => { s with pots := stripPots (potsOfPlayers s.players) }) (fun _ => rfl)

theorem same_roundClosed (h : Same σ a b) : Same σ a.roundClosed b.roundClosed :=
  same_updatePots (same_resetAllAllowed (same_setEvent h _))

/-- settlement: `updatePots` runs first, so neither the old levels nor the old result matter:
    the new pots AND the new result (which contains the levels) are functions of the players -/
theorem same_gameCompleted (h : Same σ a b) : Same σ a.gameCompleted b.gameCompleted :=
  h.map' Game.gameCompleted
    (fun s => { s with
      pots := stripPots (potsOfPlayers s.players),
      result := σ (some (gameResults (potsOfPlayers s.players)
        (s.players.map fun p => (p.idx, p.bankroll, p.fold, ((p.comb.map (·.power)).getD 0 : Nat))))),
      event := .gameClosed })
    (fun _ => rfl)

/-- … literally equal, in fact, when the two games differ in the levels only -/
theorem gameCompleted_eq (h : Same id a b) : a.gameCompleted = b.gameCompleted := by
  have : ∀ g : Game, g.hop.gameCompleted = g.gameCompleted := fun _ => rfl
  rw [← this a, ← this b, show a.hop = b.hop from h]

/-! ### the event chain -/

theorem same_requestPlayerAction (h : Same σ a b) : Same σ a.requestPlayerAction b.requestPlayerAction := by
  unfold requestPlayerAction
  rw [h.aliveCount, h.movableCount, h.nextIdx, h.players]
  refine same_ite (same_roundClosed h) (same_ite (same_roundClosed h) ?_)
  split
  · exact h
  · exact same_ite (same_roundClosed h) (same_setCurrentPlayer h _)

theorem same_requestReady (h : Same σ a b) : Same σ a.requestReady b.requestReady :=
  same_setEvent (same_resetAllAllowed h) _

theorem same_prepareRound (h : Same σ a b) : Same σ a.prepareRound b.prepareRound := by
  unfold prepareRound
  rw [h.round, h.movableCount]
  exact same_ite (same_requestReady h) (same_ite (same_roundClosed h) (same_requestReady h))

theorem same_requestBlinds (h : Same σ a b) : Same σ a.requestBlinds b.requestBlinds := by
  unfold requestBlinds
  rw [h.opts]
  exact same_ite (same_prepareRound (same_setEvent h _)) (same_setEvent h _)

theorem same_dealStreet (h : Same σ a b) : Same σ a.dealStreet b.dealStreet := by
  unfold dealStreet
  rw [h.round, h.n, h.dealerIdx]
  split
  · exact same_dealHoles _ _ h
  · exact same_setCurrentPlayer (same_dealBoard (same_burn h _) _) _
  · exact same_setCurrentPlayer (same_dealBoard (same_burn h _) _) _
  · exact same_setCurrentPlayer (same_dealBoard (same_burn h _) _) _
  · exact h

theorem same_afterRoundInitialized (h : Same σ a b) : Same σ a.afterRoundInitialized b.afterRoundInitialized := by
  unfold afterRoundInitialized
  rw [h.round]
  exact same_ite (same_requestBlinds h) (same_prepareRound h)

theorem same_initializeRound (h : Same σ a b) : Same σ a.initializeRound b.initializeRound :=
  same_afterRoundInitialized (same_setEvent (same_updateCombinations (same_dealStreet h)) _)

theorem same_enterRound (h : Same σ a b) (r : Round) : Same σ (a.enterRound r) (b.enterRound r) :=
  same_initializeRound (same_setRound h r)

theorem same_seekBB : ∀ (k : Nat) {a b : Game}, Same σ a b → Same σ (seekBB k a) (seekBB k b)
  | 0, _, _, h => h
  | k + 1, a, b, h => by
    unfold seekBB
    rw [h.nextIdx, h.players]
    split
    · exact same_ite (same_setCurrentPlayer h _) (same_seekBB k (same_setCurrentPlayer h _))
    · exact same_setCurrentPlayer h _

theorem same_openRound (h : Same σ a b) : Same σ a.openRound b.openRound :=
  same_requestPlayerAction (same_setEvent h _)

theorem same_startRound' (h : Same σ a b) : Same σ a.startRound' b.startRound' := by
  unfold startRound'
  rw [h.round, h.movableCount, h.n, h.dealerIdx]
  exact same_ite (same_ite (same_roundClosed h) (same_openRound (same_seekBB _ (same_setCurrentPlayer h _))))
    (same_openRound (same_setCurrentPlayer h _))

theorem same_startRound (h : Same σ a b) : Same σ a.startRound b.startRound :=
  same_startRound' (same_resetAllAllowed h)

theorem same_nextRound' (h : Same σ a b) : Same σ a.nextRound' b.nextRound' := by
  unfold nextRound'
  rw [h.aliveCount, h.round]
  refine same_ite (same_gameCompleted h) ?_
  split
  · exact same_enterRound h _
  · exact same_enterRound h _
  · exact same_enterRound h _
  · exact same_gameCompleted h
  · exact h

theorem same_nextRound (h : Same σ a b) : Same σ a.nextRound b.nextRound :=
  same_nextRound' (same_resetAllPlayerStatus (same_resetRoundStatus h))

theorem same_resume (h : Same σ a b) : Same σ a.resume b.resume := by
  unfold resume
  rw [h.event]
  split
  · exact same_requestPlayerAction h
  · exact same_roundClosed h
  · exact h

/-! ### the operations -/

theorem same_readiness (h : Same σ a b) : Same σ a.readiness b.readiness := by
  unfold readiness
  rw [h.round, h.opts]
  exact same_ite (same_ite (same_setEvent h _) (same_enterRound h _)) (same_startRound h)

theorem sameR_readyForAll (h : Same σ a b) : SameR σ a.readyForAll b.readyForAll := by
  unfold readyForAll
  rw [h.event]
  exact sameR_ite (SameR.mk' h _) (SameR.mk' (same_readiness (same_resetAllAllowed h)) _)

theorem sameR_payAnteLoop : ∀ (is : List Nat) {a b : Game}, Same σ a b → SameR σ (payAnteLoop is a) (payAnteLoop is b)
  | [], _, _, h => SameR.mk' h _
  | i :: is, a, b, h => by
    unfold payAnteLoop
    rw [h.players, h.opts]
    split
    · exact SameR.mk' h _
    · exact sameR_ite (SameR.mk' h _) (sameR_payAnteLoop is (same_pay h _ _ _))

theorem same_antePaid (h : Same σ a b) : Same σ a.antePaid b.antePaid :=
  same_enterRound (same_resetRoundStatus (same_resetAllPlayerStatus (same_updatePots
    (same_setEvent (same_resetAllAllowed h) _)))) _

theorem sameR_payAnte (h : Same σ a b) : SameR σ a.payAnte b.payAnte := by
  unfold payAnte
  rw [h.opts, h.event, h.seatsFromDealer]
  refine sameR_ite (SameR.mk' h _) (sameR_ite (SameR.mk' h _) ?_)
  have hl := sameR_payAnteLoop b.seatsFromDealer h
  revert hl
  generalize payAnteLoop b.seatsFromDealer a = x
  generalize payAnteLoop b.seatsFromDealer b = y
  intro hl
  obtain ⟨x1, x2⟩ := x
  obtain ⟨y1, y2⟩ := y
  obtain ⟨h1, h2⟩ := hl
  simp only at h1 h2
  subst h2
  cases x2 with
  | none => exact SameR.mk' (same_antePaid h1) _
  | some e => exact SameR.mk' h1 _

theorem same_payBlind (h : Same σ a b) (i : Nat) : Same σ (a.payBlind i) (b.payBlind i) := by
  unfold payBlind
  rw [h.players, h.opts]
  split
  · exact h
  · exact same_pay h _ _ _

theorem same_foldl_payBlind : ∀ (is : List Nat) {a b : Game}, Same σ a b → Same σ (is.foldl payBlind a) (is.foldl payBlind b)
  | [], _, _, h => h
  | i :: is, _, _, h => same_foldl_payBlind is (same_payBlind h i)

theorem same_blindsPaid (h : Same σ a b) : Same σ a.blindsPaid b.blindsPaid := by
  unfold blindsPaid
  rw [h.opts]
  exact same_prepareRound (same_setEvent (same_resetAllAllowed (same_setPrev h _)) _)

theorem sameR_payBlinds (h : Same σ a b) : SameR σ a.payBlinds b.payBlinds := by
  unfold payBlinds
  rw [h.event, h.seatsFromDealer]
  exact sameR_ite (SameR.mk' h _) (SameR.mk' (same_blindsPaid (same_foldl_payBlind _ h)) _)

theorem sameR_next (h : Same σ a b) : SameR σ a.next b.next := by
  unfold next
  rw [h.event, h.round]
  exact sameR_ite (SameR.mk' h _) (sameR_ite (SameR.mk' h _) (SameR.mk' (same_nextRound h) _))

theorem same_doCall (h : Same σ a b) (i : Nat) : Same σ (a.doCall i) (b.doCall i) := by
  unfold doCall
  rw [h.players, h.cw, h.opts]
  split
  · exact h
  · exact same_resume (same_pay (same_setActed h _) _ _ _)

theorem same_doAllin (h : Same σ a b) (i : Nat) : Same σ (a.doAllin i) (b.doAllin i) := by
  unfold doAllin
  rw [h.players, h.cw, h.prev]
  split
  · exact h
  · exact same_resume (same_pay (same_ite (same_setPrev (same_setActed h _) _) (same_setActed h _)) _ _ _)

theorem same_doFold (h : Same σ a b) (i : Nat) : Same σ (a.doFold i) (b.doFold i) :=
  same_resume (same_modP h _ _)

theorem same_recordBet (h : Same σ a b) (i : Nat) : Same σ (a.recordBet i) (b.recordBet i) := by
  unfold recordBet wagerOf
  rw [h.players]
  exact same_setPrev h _

theorem same_doBet (h : Same σ a b) (i : Nat) (x : Int) : Same σ (a.doBet i x) (b.doBet i x) :=
  same_resume (same_recordBet (same_pay (same_setActed h _) _ _ _) _)

theorem same_doRaise (h : Same σ a b) (i : Nat) (p : Player) (x : Int) : Same σ (a.doRaise i p x) (b.doRaise i p x) := by
  simp only [doRaise, h.cw, h.prev, h.opts]
  exact same_resume (same_pay (same_setPrev (same_setActed h _) _) _ _ _)

theorem sameR_act (h : Same σ a b) (i : Nat) (x : Act) (v : Int) : SameR σ (a.act i x v) (b.act i x v) := by
  unfold act
  cases x <;> simp only [h.allows, h.cw, h.prev, h.players]
  · exact sameR_ite (SameR.mk' h _) (SameR.mk' (same_resume (same_setActed h _)) _)
  · exact sameR_ite (SameR.mk' h _) (SameR.mk' (same_doFold h _) _)
  · exact sameR_ite (SameR.mk' h _) (SameR.mk' (same_resume (same_setActed h _)) _)
  · exact sameR_ite (SameR.mk' h _) (SameR.mk' (same_doCall h _) _)
  · exact sameR_ite (SameR.mk' h _) (SameR.mk' (same_doAllin h _) _)
  · exact sameR_ite (SameR.mk' h _) (sameR_ite (SameR.mk' h _) (SameR.mk' (same_doBet h _ _) _))
  · refine sameR_ite (SameR.mk' h _) (sameR_ite (SameR.mk' h _)
      (sameR_ite (sameR_ite (SameR.mk' h _) (SameR.mk' (same_doCall h _) _)) ?_))
    split
    · exact SameR.mk' h _
    · exact sameR_ite (sameR_ite (SameR.mk' h _) (SameR.mk' (same_doAllin h _) _)) (SameR.mk' (same_doRaise h _ _ _) _)
  · exact sameR_ite (SameR.mk' h _) (SameR.mk' (same_resume (same_pay h _ _ _)) _)

/-- every operation maps states with the same serialisation to states with the same
    serialisation, and answers with the same error -/
theorem sameR_step (h : Same σ a b) (op : Op) : SameR σ (a.step op) (b.step op) := by
  unfold step
  cases op with
  | ready => exact sameR_readyForAll h
  | payAnte => exact sameR_payAnte h
  | payBlinds => exact sameR_payBlinds h
  | next => exact sameR_next h
  | act seat x v =>
    cases seat with
    | none => simp only [h.cur]; exact sameR_act h _ _ _
    | some i => exact sameR_act h _ _ _

end

end Pokerface
