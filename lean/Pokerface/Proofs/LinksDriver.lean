import Pokerface.Proofs.TableGlueLinks
/-
  Helper for `Properties/LinksDriver.lean`: the layout of an undisturbed hand-off (`HandOff.layout`, `HandOff.entry`)
  puts a small-blind seat and a big-blind seat into the seat list handed to the engine.
-/
namespace Pokerface.LinksD
open Pokerface Table SM Game

/-- the small-blind seat and the big-blind seat of the seat manager are among the seats handed to the engine -/
theorem handOff_has_blind_seats {t t' : Table} {seats : List Nat} {m : Meta} (h : HandOff t t' seats m) :
    (∃ s ∈ t'.gameSeats seats, s.sb = true) ∧ (∃ s ∈ t'.gameSeats seats, s.bb = true) := by
  obtain ⟨d, s, b, kb, hd, hsb, hbb, h0, hkb, hbr, hdb, hsb', _⟩ := h.layout
  constructor
  · have key : ∀ k : Nat, seats[k]? = some s → ∃ x ∈ t'.gameSeats seats, x.sb = true := by
      intro k hk
      obtain ⟨_, p, _, _, hcfg⟩ := h.entry hk
      refine ⟨_, List.mem_of_getElem? hcfg, ?_⟩
      simp [posOf, hsb]
    rcases hbr with ⟨_, e, _⟩ | ⟨_, h1, _⟩
    · exact key 0 (by rw [h0, e])
    · exact key 1 h1
  · obtain ⟨_, p, _, _, hcfg⟩ := h.entry hkb
    refine ⟨_, List.mem_of_getElem? hcfg, ?_⟩
    have : ¬ s = b := hsb'
    simp [posOf, hsb, hbb, this]

end Pokerface.LinksD
