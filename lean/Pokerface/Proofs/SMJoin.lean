/-
  Join / seat / reserve / leave: exact post-states, player counts, pid bookkeeping.
-/
import Pokerface.Proofs.SMStep

namespace Pokerface
namespace SM

theorem modify_eq_set_of_getElem? {α} {l : List α} {i : Nat} {s : α} (f : α → α) (h : l[i]? = some s) :
    l.modify i f = l.set i (f s) := by
  apply List.ext_getElem?
  intro j
  rw [List.getElem?_modify, List.getElem?_set]
  by_cases hij : i = j
  · subst hij
    obtain ⟨hl, hg⟩ := List.getElem?_eq_some_iff.mp h
    simp [hl, hg]
  · simp [hij]

/-- Replace the record of seat `i`. -/
def setSeat (sm : SM) (i : Nat) (s : Seat) : SM := { sm with seats := sm.seats.set i s }

theorem modSeat_eq_setSeat {sm : SM} {i : Nat} {s : Seat} (f : Seat → Seat) (h : sm.seats[i]? = some s) :
    sm.modSeat i f = sm.setSeat i (f s) := by
  simp [modSeat, setSeat, modify_eq_set_of_getElem? f h]

theorem setSeat_seats (sm : SM) (i : Nat) (s : Seat) (j : Nat) :
    (sm.setSeat i s).seats[j]? = if i = j then (if j < sm.seats.length then some s else none) else sm.seats[j]? := by
  simp only [setSeat, List.getElem?_set]
  by_cases h : i = j
  · subst h; simp
  · simp [h]

/-! ### exact outcomes -/

theorem joinAt_cases (sm : SM) (pid i : Nat) :
    (sm.seats[i]? = none ∧ sm.joinAt pid i = (sm, some .panic, none)) ∨
    (∃ s, sm.seats[i]? = some s ∧ s.player.isSome = true ∧ sm.joinAt pid i = (sm, some .notAvailable, none)) ∨
    (∃ s, sm.seats[i]? = some s ∧ s.player = none ∧
      sm.joinAt pid i = (sm.setSeat i { s with reserved := true, player := some pid }, none, some i)) := by
  unfold joinAt
  cases h : sm.seats[i]? with
  | none => left; simp
  | some s =>
    right
    cases hp : s.player with
    | none =>
      right
      refine ⟨s, rfl, hp, ?_⟩
      simp only [hp, Option.isSome_none, Bool.false_eq_true, if_false]
      rw [modSeat_eq_setSeat _ h]
    | some p =>
      left
      exact ⟨s, rfl, by simp [hp], by simp [hp]⟩

/-- Every join is either refused without effect or fills one empty seat. -/
theorem step_join_cases (sm : SM) (seat : Int) (pid : Nat) (chose : Option Nat) :
    (∃ e, sm.step (.join seat pid chose) = (sm, some e, none)) ∨
    (∃ (i : Nat) (s : Seat), sm.seats[i]? = some s ∧ s.player = none ∧ (seat = -1 ∨ seat = (i : Int)) ∧
      sm.step (.join seat pid chose) =
        (sm.setSeat i { s with reserved := true, player := some pid }, none, some i)) := by
  have key : ∀ i : Nat, (seat = -1 ∨ seat = (i : Int)) →
      (∃ e, sm.joinAt pid i = (sm, some e, none)) ∨
      (∃ (i' : Nat) (s : Seat), sm.seats[i']? = some s ∧ s.player = none ∧ (seat = -1 ∨ seat = (i' : Int)) ∧
        sm.joinAt pid i = (sm.setSeat i' { s with reserved := true, player := some pid }, none, some i')) := by
    intro i hi
    rcases joinAt_cases sm pid i with ⟨_, h⟩ | ⟨s, _, _, h⟩ | ⟨s, h1, h2, h⟩
    · exact Or.inl ⟨_, h⟩
    · exact Or.inl ⟨_, h⟩
    · exact Or.inr ⟨i, s, h1, h2, hi, h⟩
  rw [step_join_eq]
  split
  · exact Or.inl ⟨_, rfl⟩
  · split
    · apply key; right; omega
    · split
      · exact Or.inl ⟨_, rfl⟩
      · split
        · exact Or.inl ⟨_, rfl⟩
        · split
          · apply key; left; omega
          · exact Or.inl ⟨_, rfl⟩

theorem step_leave_cases (sm : SM) (id : Int) :
    (∃ e, sm.step (.leave id) = (sm, some e, none)) ∨
    (∃ (i : Nat) (s : Seat), id = (i : Int) ∧ sm.seats[i]? = some s ∧ s.player.isSome = true ∧
      sm.step (.leave id) = (sm.setSeat i { s with player := none, reserved := false }, none, none)) := by
  unfold step
  simp only
  split
  · exact Or.inl ⟨_, rfl⟩
  · next hr =>
    split
    · exact Or.inl ⟨_, rfl⟩
    · next s hs =>
      split
      · exact Or.inl ⟨_, rfl⟩
      · next hp =>
        right
        refine ⟨id.toNat, s, by omega, hs, by cases hq : s.player <;> simp_all, ?_⟩
        rw [modSeat_eq_setSeat _ hs]

theorem step_seat_cases (sm : SM) (id : Int) :
    ((id < 0 ∨ id ≥ (sm.max : Int)) ∧ sm.step (.seat id) = (sm, some .notFoundSeat, none)) ∨
    (∃ i : Nat, id = (i : Int) ∧ i < sm.max ∧
      sm.step (.seat id) = (sm.modSeat i fun s => { s with reserved := false }, none, none)) := by
  unfold step
  simp only
  split
  · next h => exact Or.inl ⟨h, rfl⟩
  · next h => exact Or.inr ⟨id.toNat, by omega, by omega, rfl⟩

theorem step_reserve_cases (sm : SM) (id : Int) :
    ((id < 0 ∨ id ≥ (sm.max : Int)) ∧ sm.step (.reserve id) = (sm, some .notFoundSeat, none)) ∨
    (∃ i : Nat, id = (i : Int) ∧ i < sm.max ∧
      sm.step (.reserve id) = (sm.modSeat i fun s => { s with reserved := true }, none, none)) := by
  unfold step
  simp only
  split
  · next h => exact Or.inl ⟨h, rfl⟩
  · next h => exact Or.inr ⟨id.toNat, by omega, by omega, rfl⟩

/-! ### `next` leaves players and reservations alone -/

/-- What `next` never touches: who sits where and who is reserved. -/
def core (s : Seat) : Option Nat × Bool := (s.player, s.reserved)

def SamePlayers (sm sm' : SM) : Prop := sm'.seats.map core = sm.seats.map core

theorem SamePlayers.of_seatwise {sm sm' : SM}
    (h : ∀ i : Nat, ∃ f : Seat → Seat, (∀ s, core (f s) = core s) ∧ sm'.seats[i]? = (sm.seats[i]?).map f) :
    SamePlayers sm sm' := by
  apply List.ext_getElem?
  intro i
  obtain ⟨f, hf, he⟩ := h i
  rw [List.getElem?_map, List.getElem?_map, he]
  cases sm.seats[i]? <;> simp [hf]

theorem SamePlayers.seat {sm sm' : SM} (h : SamePlayers sm sm') (i : Nat) :
    (sm'.seats[i]?).map core = (sm.seats[i]?).map core := by
  have := congrArg (fun l => l[i]?) h
  simpa [List.getElem?_map] using this

theorem SamePlayers.trans {a b c : SM} (h1 : SamePlayers a b) (h2 : SamePlayers b c) : SamePlayers a c :=
  Eq.trans h2 h1

theorem ActUp.samePlayers {sm sm' : SM} (h : ActUp sm sm') : SamePlayers sm sm' := by
  apply SamePlayers.of_seatwise
  intro i
  rcases h.seat i with h' | h'
  · exact ⟨id, fun _ => rfl, by rw [h']; simp⟩
  · exact ⟨actv, fun _ => rfl, h'⟩

theorem core_renewF (kb j : Nat) (s : Seat) : core (renewF kb j s) = core s := by
  unfold renewF
  split
  · unfold deact core; split <;> rfl
  · split <;> rfl

theorem exists_offset {m : Nat} (d : Nat) {i : Nat} (hi : i < m) : ∃ j, j < m ∧ (d + j) % m = i := by
  let sm : SM := { max := m, seats := [] }
  have : i ∈ sm.normalize d := (mem_normalize sm d i).mpr hi
  rw [List.mem_iff_getElem?] at this
  obtain ⟨j, hj⟩ := this
  rw [normalize_getElem?] at hj
  split at hj
  · next h => exact ⟨j, h, by simpa using hj⟩
  · cases hj

theorem renew_samePlayers {sm sm' : SM} (h : Inv sm) (hc : 2 ≤ sm.playableCount)
    (hr : sm.renewSeatStatus = some sm') {d : Nat} (hd : sm.dealer = some d) : SamePlayers sm sm' := by
  obtain ⟨ks, kb, sm'', _, _, _, _, _, hr', e1, e2, _, _, e5, e6⟩ :=
    renew_spec sm d hd (h.dealer_lt d hd) hc
  rw [hr] at hr'; cases hr'
  apply SamePlayers.of_seatwise
  intro i
  by_cases hi : i < sm.max
  · obtain ⟨j, hj, rfl⟩ := exists_offset d hi
    exact ⟨renewF kb j, core_renewF kb j, e6 j hj⟩
  · refine ⟨id, fun _ => rfl, ?_⟩
    have h1 : sm.seats[i]? = none := by
      rw [List.getElem?_eq_none_iff, h.wf]; omega
    have h2 : sm'.seats[i]? = none := by
      rw [List.getElem?_eq_none_iff, e5, h.wf]; omega
    rw [h1, h2]; rfl

theorem next_samePlayers {sm : SM} (h : Inv sm) : SamePlayers sm (sm.step .next).1 := by
  have h1 := (nextDealer_actUp sm).samePlayers
  rcases step_next_cases h with ⟨he, _⟩ | ⟨hf, hc, sm', hr, he⟩
  · rw [he]; exact h1
  · rw [he]
    obtain ⟨d, hd, _⟩ := nextDealer_found sm hf
    exact h1.trans (renew_samePlayers (nextDealer_inv h) hc hr hd)

/-! ### player count -/

theorem playerCount_eq (sm : SM) : sm.playerCount = (sm.seats.map core).countP (fun c => c.1.isSome) := by
  unfold playerCount
  rw [List.countP_map, List.countP_eq_length_filter]
  rfl

theorem SamePlayers.playerCount {sm sm' : SM} (h : SamePlayers sm sm') : sm'.playerCount = sm.playerCount := by
  rw [playerCount_eq, playerCount_eq, h]

theorem playerCount_setSeat {sm : SM} {i : Nat} {s : Seat} (s' : Seat) (h : sm.seats[i]? = some s) :
    (sm.setSeat i s').playerCount + (if s.player.isSome then 1 else 0) =
      sm.playerCount + (if s'.player.isSome then 1 else 0) := by
  obtain ⟨hl, hg⟩ := List.getElem?_eq_some_iff.mp h
  unfold playerCount setSeat
  simp only [← List.countP_eq_length_filter]
  rw [List.countP_set hl, hg]
  have := List.boole_getElem_le_countP (p := fun s : Seat => s.player.isSome) hl
  rw [hg] at this
  omega

theorem playerCount_modSeat_same (sm : SM) (i : Nat) (f : Seat → Seat) (hf : ∀ s, (f s).player = s.player) :
    (sm.modSeat i f).playerCount = sm.playerCount := by
  cases h : sm.seats[i]? with
  | none =>
    have : sm.modSeat i f = sm := by
      unfold modSeat
      have : sm.seats.modify i f = sm.seats := by
        apply List.ext_getElem?; intro j
        rw [List.getElem?_modify]; split
        · next hij => subst hij; simp [h]
        · simp
      rw [this]
    rw [this]
  | some s =>
    rw [modSeat_eq_setSeat f h]
    have := playerCount_setSeat (f s) h
    rw [hf s] at this
    omega


/-! ### available seats -/

/-- Seat `i` exists, holds nobody and is not reserved. -/
def Free (sm : SM) (i : Nat) : Prop :=
  ∃ s, sm.seats[i]? = some s ∧ s.player = none ∧ s.reserved = false

/-- Seat `i` is free and active. -/
def FreeActive (sm : SM) (i : Nat) : Prop :=
  ∃ s, sm.seats[i]? = some s ∧ s.player = none ∧ s.reserved = false ∧ s.active = true

theorem FreeActive.free {sm : SM} {i : Nat} (h : FreeActive sm i) : Free sm i := by
  obtain ⟨s, h1, h2, h3, _⟩ := h; exact ⟨s, h1, h2, h3⟩

theorem mem_avail1 {sm : SM} (hw : sm.WF) (c : Nat) : c ∈ sm.availableSeats.1 ↔ FreeActive sm c := by
  unfold availableSeats FreeActive
  simp only [List.mem_filter, List.mem_range]
  constructor
  · rintro ⟨⟨_, h1⟩, h2⟩
    cases hs : sm.seats[c]? with
    | none => simp [hs] at h1
    | some s =>
      simp [hs] at h1 h2
      exact ⟨s, rfl, h1.2, h1.1, h2⟩
  · rintro ⟨s, hs, h1, h2, h3⟩
    have : c < sm.max := by rw [← hw]; exact (List.getElem?_eq_some_iff.mp hs).1
    simp [hs, h1, h2, h3, this]

theorem mem_avail2 {sm : SM} (hw : sm.WF) (c : Nat) :
    c ∈ sm.availableSeats.2 ↔ Free sm c ∧ ¬ FreeActive sm c := by
  unfold availableSeats FreeActive Free
  simp only [List.mem_filter, List.mem_range]
  constructor
  · rintro ⟨⟨_, h1⟩, h2⟩
    cases hs : sm.seats[c]? with
    | none => simp [hs] at h1
    | some s =>
      simp [hs] at h1 h2
      refine ⟨⟨s, rfl, h1.2, h1.1⟩, ?_⟩
      rintro ⟨s', hs', _, _, h3⟩
      cases hs'; simp [h2] at h3
  · rintro ⟨⟨s, hs, h1, h2⟩, h3⟩
    have : c < sm.max := by rw [← hw]; exact (List.getElem?_eq_some_iff.mp hs).1
    have h4 : s.active = false := by
      cases ha : s.active with
      | false => rfl
      | true => exact absurd ⟨s, hs, h1, h2, ha⟩ h3
    simp [hs, h1, h2, h4, this]

/-- The pool `Join(-1, …)` draws from: free seats, active ones only whenever a free active seat exists. -/
theorem mem_joinPool {sm : SM} (hw : sm.WF) (c : Nat) :
    c ∈ sm.joinPool ↔ Free sm c ∧ (FreeActive sm c ∨ ∀ j, ¬ FreeActive sm j) := by
  unfold joinPool
  split
  · next h =>
    have hne : ∃ j, j ∈ sm.availableSeats.1 := by
      cases hl : sm.availableSeats.1 with
      | nil => simp [hl] at h
      | cons a l => exact ⟨a, by simp⟩
    obtain ⟨j, hj⟩ := hne
    rw [mem_avail1 hw]
    constructor
    · intro hc; exact ⟨hc.free, Or.inl hc⟩
    · rintro ⟨_, hc | hc⟩
      · exact hc
      · exact absurd ((mem_avail1 hw j).mp hj) (hc j)
  · next h =>
    have hnil : sm.availableSeats.1 = [] := by simpa using h
    have hno : ∀ j, ¬ FreeActive sm j := by
      intro j hj
      have := (mem_avail1 hw j).mpr hj
      rw [hnil] at this; cases this
    rw [mem_avail2 hw]
    constructor
    · rintro ⟨hf, _⟩; exact ⟨hf, Or.inr hno⟩
    · rintro ⟨hf, _⟩; exact ⟨hf, hno c⟩

theorem no_pool_iff {sm : SM} (hw : sm.WF) :
    (sm.availableSeats.1.isEmpty && sm.availableSeats.2.isEmpty) = true ↔ ∀ i, ¬ Free sm i := by
  simp only [Bool.and_eq_true, List.isEmpty_iff]
  constructor
  · rintro ⟨h1, h2⟩ i hf
    by_cases ha : FreeActive sm i
    · have := (mem_avail1 hw i).mpr ha; rw [h1] at this; cases this
    · have := (mem_avail2 hw i).mpr ⟨hf, ha⟩; rw [h2] at this; cases this
  · intro h
    constructor
    · apply List.eq_nil_iff_forall_not_mem.mpr
      intro i hi; exact h i ((mem_avail1 hw i).mp hi).free
    · apply List.eq_nil_iff_forall_not_mem.mpr
      intro i hi; exact h i ((mem_avail2 hw i).mp hi).1

end SM
end Pokerface
