import Pokerface.Model.Game
import Pokerface.Proofs.ListLemmas
/-
  Chip bookkeeping invariant of the engine model and its preservation by every
  function of the event chain (used by C01, C11, C12, C13).
-/
namespace Pokerface
open Game

/-- per-player chip invariant -/
structure PInv (p : Player) : Prop where
  split : p.bankroll = p.stack + p.wager + p.pot
  stack0 : 0 ≤ p.stack
  wager0 : 0 ≤ p.wager
  pot0 : 0 ≤ p.pot
  rebase : p.stack = p.initial - p.wager

def Game.wagerSum (g : Game) : Int := (g.players.map (·.wager)).sum
def Game.potSum (g : Game) : Int := (g.players.map (·.pot)).sum

/-- chips of a player as seen by the invariants -/
def Player.chips (p : Player) : Int × Int × Int × Int × Int :=
  (p.bankroll, p.initial, p.stack, p.pot, p.wager)

theorem PInv_of_chips {p q : Player} (h : q.chips = p.chips) (hp : PInv p) : PInv q := by
  simp [Player.chips] at h
  obtain ⟨h1, h2, h3, h4, h5⟩ := h
  exact ⟨by rw [h1, h3, h5, h4]; exact hp.split, by rw [h3]; exact hp.stack0, by rw [h5]; exact hp.wager0,
    by rw [h4]; exact hp.pot0, by rw [h3, h2, h5]; exact hp.rebase⟩

/-- Group A: invariants that every function of the chain preserves. -/
structure ChipsOK (g : Game) : Prop where
  pinv : ∀ p ∈ g.players, PInv p
  rp : g.roundPot = g.wagerSum
  cw0 : 0 ≤ g.cw
  prev0 : 0 ≤ g.prev
  wle : ∀ p ∈ g.players, p.wager ≤ g.cw

/-- the fields of a player no function of the chain except `pay` and the two resets changes -/
def Player.frame (p : Player) : (Nat × Bool × Bool × Bool) × (Int × Int × Int × Int × Int) :=
  ((p.idx, p.posDealer, p.posSB, p.posBB), p.chips)

/-- structural facts: seat `i` holds the player with `idx = i`, and the seat to act exists -/
structure Struct (g : Game) : Prop where
  idx : ∀ (i : Nat) (p : Player), g.players[i]? = some p → p.idx = i
  pos : 0 < g.n
  cur : g.cur < g.n

/-- a function on games that leaves every chip field (and the static configuration) alone
    and keeps the structural facts -/
structure NoChip (g g' : Game) : Prop where
  struct : Struct g → Struct g'
  frame : g'.players.map Player.frame = g.players.map Player.frame
  opts : g'.opts = g.opts
  mini : g'.miniBet = g.miniBet
  rp : g'.roundPot = g.roundPot
  cw : g'.cw = g.cw
  prev : g'.prev = g.prev

theorem struct_same {g g' : Game} (hp : g'.players = g.players) (hc : g'.cur = g.cur) (h : Struct g) : Struct g' :=
  ⟨by rw [hp]; exact h.idx, by simp only [Game.n, hp]; exact h.pos, by simp only [Game.n, hp, hc]; exact h.cur⟩

theorem NoChip.refl (g : Game) : NoChip g g := ⟨id, rfl, rfl, rfl, rfl, rfl, rfl⟩

theorem NoChip.trans {a b c : Game} (h1 : NoChip a b) (h2 : NoChip b c) : NoChip a c :=
  ⟨h2.struct ∘ h1.struct, h2.frame.trans h1.frame, h2.opts.trans h1.opts, h2.mini.trans h1.mini, h2.rp.trans h1.rp,
   h2.cw.trans h1.cw, h2.prev.trans h1.prev⟩

theorem NoChip.chips {g g' : Game} (h : NoChip g g') :
    g'.players.map Player.chips = g.players.map Player.chips := by
  have := congrArg (List.map Prod.snd) h.frame
  simpa [List.map_map, Function.comp_def, Player.frame] using this

theorem NoChip.length {g g' : Game} (h : NoChip g g') : g'.n = g.n := by
  have := congrArg List.length h.frame
  simpa [Game.n] using this

theorem map_wager_of_chips {l l' : List Player} (h : l'.map Player.chips = l.map Player.chips) :
    l'.map (·.wager) = l.map (·.wager) := by
  have := congrArg (List.map (fun c : Int × Int × Int × Int × Int => c.2.2.2.2)) h
  simpa [List.map_map, Function.comp_def, Player.chips] using this

theorem forall_of_chips {l l' : List Player} (P : Int × Int × Int × Int × Int → Prop)
    (h : l'.map Player.chips = l.map Player.chips) (hl : ∀ p ∈ l, P p.chips) : ∀ p ∈ l', P p.chips := by
  intro p hp
  have : p.chips ∈ l'.map Player.chips := List.mem_map_of_mem hp
  rw [h] at this
  obtain ⟨q, hq, hqe⟩ := List.mem_map.mp this
  rw [← hqe]; exact hl q hq

theorem ChipsOK.of_noChip {g g' : Game} (h : NoChip g g') (ok : ChipsOK g) : ChipsOK g' := by
  have hw := map_wager_of_chips h.chips
  refine ⟨?_, ?_, ?_, ?_, ?_⟩
  · intro p hp
    have := forall_of_chips (fun c => ∃ q : Player, q.chips = c ∧ PInv q) h.chips
      (fun q hq => ⟨q, rfl, ok.pinv q hq⟩) p hp
    obtain ⟨q, hq, hqi⟩ := this
    exact PInv_of_chips hq.symm hqi
  · rw [h.rp, ok.rp]; simp [Game.wagerSum, hw]
  · rw [h.cw]; exact ok.cw0
  · rw [h.prev]; exact ok.prev0
  · intro p hp
    have := forall_of_chips (fun c => c.2.2.2.2 ≤ g.cw) h.chips (fun q hq => ok.wle q hq) p hp
    rw [h.cw]; exact this

/-! ### primitives that do not touch chips -/

theorem frame_idx {p q : Player} (h : q.frame = p.frame) : q.idx = p.idx := by
  simp [Player.frame] at h; exact h.1.1

theorem struct_of_players {g g' : Game} (hl : g'.players.map Player.frame = g.players.map Player.frame)
    (hc : g'.cur < g.n) (h : Struct g) : Struct g' := by
  have hn : g'.n = g.n := by simpa [Game.n] using congrArg List.length hl
  refine ⟨?_, by rw [hn]; exact h.pos, by rw [hn]; exact hc⟩
  intro i p hp
  have h1 : (g'.players.map Player.frame)[i]? = some p.frame := by simp [hp]
  rw [hl] at h1
  simp at h1
  obtain ⟨q, hq, hqe⟩ := h1
  rw [← h.idx i q hq]
  exact (frame_idx hqe).symm

theorem noChip_modP (g : Game) (i : Nat) (f : Player → Player) (hf : ∀ p, (f p).frame = p.frame) :
    NoChip g (g.modP i f) :=
  have hl : (g.modP i f).players.map Player.frame = g.players.map Player.frame := by
    simp [Game.modP, map_modify_of_proj Player.frame f hf]
  ⟨fun h => struct_of_players hl h.cur h, hl, rfl, rfl, rfl, rfl, rfl⟩

theorem noChip_mapP (g : Game) (f : Player → Player) (hf : ∀ p, (f p).frame = p.frame) :
    NoChip g (g.mapP f) :=
  have hl : (g.mapP f).players.map Player.frame = g.players.map Player.frame := by
    simp [Game.mapP, List.map_map, Function.comp_def, hf]
  ⟨fun h => struct_of_players hl h.cur h, hl, rfl, rfl, rfl, rfl, rfl⟩

theorem dealerIdx_lt {g : Game} (h : Struct g) : g.dealerIdx < g.n := by
  unfold Game.dealerIdx Game.dealerIdx?
  cases hf : g.players.reverse.find? (·.posDealer) with
  | none => simpa using h.pos
  | some p =>
    simp only [Option.map_some, Option.getD_some]
    have hm : p ∈ g.players := by
      have := List.mem_of_find?_eq_some hf
      simpa using this
    obtain ⟨i, hi, hpi⟩ := List.getElem_of_mem hm
    have : g.players[i]? = some p := by simp [List.getElem?_eq_getElem hi, hpi]
    rw [h.idx i p this]; exact hi

theorem nextIdx_lt {g : Game} (h : Struct g) : g.nextIdx < g.n := by
  unfold Game.nextIdx
  have := h.cur; have := h.pos
  split <;> omega

theorem noChip_setEvent (g : Game) (e : Ev) : NoChip g (g.setEvent e) := ⟨struct_same rfl rfl, rfl, rfl, rfl, rfl, rfl, rfl⟩
theorem noChip_setRound (g : Game) (r : Round) : NoChip g (g.setRound r) := ⟨struct_same rfl rfl, rfl, rfl, rfl, rfl, rfl, rfl⟩
theorem noChip_setCur (g : Game) (i : Nat) (hi : Struct g → i < g.n) : NoChip g (g.setCur i) :=
  ⟨fun h => ⟨h.idx, h.pos, hi h⟩, rfl, rfl, rfl, rfl, rfl, rfl⟩
theorem noChip_setRaiser (g : Game) (i : Nat) : NoChip g (g.setRaiser i) := ⟨struct_same rfl rfl, rfl, rfl, rfl, rfl, rfl, rfl⟩

theorem noChip_offer (g : Game) (i : Nat) : NoChip g (g.offer i) := noChip_modP g i _ (fun _ => rfl)

theorem noChip_setCurrentPlayer (g : Game) (i : Nat) (hi : Struct g → i < g.n) : NoChip g (g.setCurrentPlayer i) :=
  have h1 := noChip_modP g g.cur clearAllowed (fun _ => rfl)
  (h1.trans (noChip_setCur _ i (fun h => by
    rw [h1.length]; exact hi ⟨fun j p hp => by
      have := h.idx j
      simp only [Game.modP, List.getElem?_modify] at this
      cases hq : g.players[j]? with
      | none => rw [hq] at hp; cases hp
      | some q =>
        rw [hq] at hp; cases hp
        have := this (if g.cur = j then clearAllowed p else p) (by simp [hq])
        split at this <;> simpa [clearAllowed] using this,
      by rw [← h1.length]; exact h.pos, by rw [← h1.length]; exact h.cur⟩))).trans (noChip_offer _ i)

theorem noChip_setCurrentPlayer_next (g : Game) : NoChip g (g.setCurrentPlayer g.nextIdx) :=
  noChip_setCurrentPlayer g _ (fun h => nextIdx_lt h)

theorem noChip_setCurrentPlayer_dealer (g : Game) : NoChip g (g.setCurrentPlayer g.dealerIdx) :=
  noChip_setCurrentPlayer g _ (fun h => dealerIdx_lt h)

theorem noChip_resetAllAllowed (g : Game) : NoChip g g.resetAllAllowed := noChip_mapP g _ (fun _ => rfl)
theorem noChip_resetActed (g : Game) : NoChip g g.resetActed := noChip_mapP g _ (fun _ => rfl)
theorem noChip_setActed (g : Game) (i : Nat) : NoChip g (g.setActed i) := noChip_modP g i _ (fun _ => rfl)

theorem noChip_becomeRaiser (g : Game) (i : Nat) : NoChip g (g.becomeRaiser i) :=
  ((noChip_setRaiser g i).trans (noChip_resetActed _)).trans (noChip_setActed _ i)

theorem noChip_updatePots (g : Game) : NoChip g g.updatePots := ⟨struct_same rfl rfl, rfl, rfl, rfl, rfl, rfl, rfl⟩
theorem noChip_advance (g : Game) (k : Nat) : NoChip g (g.advance k) := ⟨struct_same rfl rfl, rfl, rfl, rfl, rfl, rfl, rfl⟩
theorem noChip_burn (g : Game) (k : Nat) : NoChip g (g.burn k) := ⟨struct_same rfl rfl, rfl, rfl, rfl, rfl, rfl, rfl⟩
theorem noChip_dealBoard (g : Game) (k : Nat) : NoChip g (g.dealBoard k) := ⟨struct_same rfl rfl, rfl, rfl, rfl, rfl, rfl, rfl⟩
theorem noChip_dealHole (g : Game) (i : Nat) : NoChip g (g.dealHole i) :=
  (noChip_advance g _).trans (noChip_modP _ i _ (fun _ => rfl))

theorem noChip_dealHoles : ∀ (k i : Nat) (g : Game), NoChip g (dealHoles k i g)
  | 0, _, g => NoChip.refl g
  | k + 1, i, g => (noChip_dealHole g i).trans (noChip_dealHoles k (i + 1) _)

theorem newComb_frame (p : Player) (pw : Option Power) : (newComb p pw).frame = p.frame := by
  unfold Game.newComb; split <;> rfl

theorem noChip_updateCombinations (g : Game) : NoChip g g.updateCombinations :=
  noChip_mapP g _ (fun p => newComb_frame p _)

theorem noChip_calculateGameResults (g : Game) : NoChip g g.calculateGameResults := ⟨struct_same rfl rfl, rfl, rfl, rfl, rfl, rfl, rfl⟩

theorem noChip_roundClosed (g : Game) : NoChip g g.roundClosed :=
  ((noChip_setEvent g _).trans (noChip_resetAllAllowed _)).trans (noChip_updatePots _)

theorem noChip_requestPlayerAction (g : Game) : NoChip g g.requestPlayerAction := by
  unfold Game.requestPlayerAction
  split
  · exact noChip_roundClosed g
  · split
    · exact noChip_roundClosed g
    · split
      · exact NoChip.refl g
      · split
        · exact noChip_roundClosed g
        · exact noChip_setCurrentPlayer_next g

theorem noChip_requestReady (g : Game) : NoChip g g.requestReady :=
  (noChip_resetAllAllowed g).trans (noChip_setEvent _ _)

theorem noChip_prepareRound (g : Game) : NoChip g g.prepareRound := by
  unfold Game.prepareRound
  split
  · exact noChip_requestReady g
  · split
    · exact noChip_roundClosed g
    · exact noChip_requestReady g

theorem noChip_requestBlinds (g : Game) : NoChip g g.requestBlinds := by
  unfold Game.requestBlinds
  split
  · exact (noChip_setEvent g _).trans (noChip_prepareRound _)
  · exact noChip_setEvent g _

theorem noChip_dealStreet (g : Game) : NoChip g g.dealStreet := by
  unfold Game.dealStreet
  split
  · exact noChip_dealHoles _ _ _
  · exact ((noChip_burn g 1).trans (noChip_dealBoard _ 3)).trans (noChip_setCurrentPlayer_dealer ((g.burn 1).dealBoard 3))
  · exact ((noChip_burn g 1).trans (noChip_dealBoard _ 1)).trans (noChip_setCurrentPlayer_dealer ((g.burn 1).dealBoard 1))
  · exact ((noChip_burn g 1).trans (noChip_dealBoard _ 1)).trans (noChip_setCurrentPlayer_dealer ((g.burn 1).dealBoard 1))
  · exact NoChip.refl g

theorem noChip_afterRoundInitialized (g : Game) : NoChip g g.afterRoundInitialized := by
  unfold Game.afterRoundInitialized
  split
  · exact noChip_requestBlinds g
  · exact noChip_prepareRound g

theorem noChip_initializeRound (g : Game) : NoChip g g.initializeRound :=
  (((noChip_dealStreet g).trans (noChip_updateCombinations _)).trans (noChip_setEvent _ _)).trans
    (noChip_afterRoundInitialized _)

theorem noChip_enterRound (g : Game) (r : Round) : NoChip g (g.enterRound r) :=
  (noChip_setRound g r).trans (noChip_initializeRound _)

theorem noChip_seekBB : ∀ (k : Nat) (g : Game), NoChip g (seekBB k g)
  | 0, g => NoChip.refl g
  | k + 1, g => by
    unfold Game.seekBB
    split
    · split
      · exact noChip_setCurrentPlayer_next g
      · exact (noChip_setCurrentPlayer_next g).trans (noChip_seekBB k _)
    · exact noChip_setCurrentPlayer_next g

theorem noChip_openRound (g : Game) : NoChip g g.openRound :=
  (noChip_setEvent g _).trans (noChip_requestPlayerAction _)

theorem noChip_startRound' (g : Game) : NoChip g g.startRound' := by
  unfold Game.startRound'
  split
  · split
    · exact noChip_roundClosed g
    · exact ((noChip_setCurrentPlayer_dealer g).trans (noChip_seekBB _ _)).trans (noChip_openRound _)
  · exact (noChip_setCurrentPlayer_dealer g).trans (noChip_openRound _)

theorem noChip_startRound (g : Game) : NoChip g g.startRound :=
  (noChip_resetAllAllowed g).trans (noChip_startRound' _)

theorem noChip_gameCompleted (g : Game) : NoChip g g.gameCompleted :=
  ((noChip_updatePots g).trans (noChip_calculateGameResults _)).trans (noChip_setEvent _ _)

theorem noChip_resume (g : Game) : NoChip g g.resume := by
  unfold Game.resume
  split
  · exact noChip_requestPlayerAction g
  · exact noChip_roundClosed g
  · exact NoChip.refl g

end Pokerface
