import Pokerface.Model.Game
import Pokerface.Proofs.ListLemmas
/-
  Chip bookkeeping invariant of the engine model and its preservation by every
  function of the event chain (used by C01, C11, C12, C13).
-/
namespace Pokerface
open Game

/-- per-player chip invariant -/
structure PInv (p : Player) : Prop where
  split : p.bankroll = p.stack + p.wager + p.pot
  stack0 : 0 ≤ p.stack
  wager0 : 0 ≤ p.wager
  pot0 : 0 ≤ p.pot
  rebase : p.stack = p.initial - p.wager

def Game.wagerSum (g : Game) : Int := (g.players.map (·.wager)).sum
def Game.potSum (g : Game) : Int := (g.players.map (·.pot)).sum

/-- chips of a player as seen by the invariants -/
def Player.chips (p : Player) : Int × Int × Int × Int × Int :=
  (p.bankroll, p.initial, p.stack, p.pot, p.wager)

theorem PInv_of_chips {p q : Player} (h : q.chips = p.chips) (hp : PInv p) : PInv q := by
  simp [Player.chips] at h
  obtain ⟨h1, h2, h3, h4, h5⟩ := h
  constructor <;> (first | rw [h1, h3, h5, h4] | rw [h3] | rw [h5] | rw [h4] | rw [h3, h2, h5])
  · exact hp.split
  · exact hp.stack0
  · exact hp.wager0
  · exact hp.pot0
  · exact hp.rebase

/-- Group A: invariants that every function of the chain preserves. -/
structure ChipsOK (g : Game) : Prop where
  pinv : ∀ p ∈ g.players, PInv p
  rp : g.roundPot = g.wagerSum
  cw0 : 0 ≤ g.cw
  prev0 : 0 ≤ g.prev
  wle : ∀ p ∈ g.players, p.wager ≤ g.cw

/-- a function on games that leaves every chip field alone -/
structure NoChip (g g' : Game) : Prop where
  chips : g'.players.map Player.chips = g.players.map Player.chips
  rp : g'.roundPot = g.roundPot
  cw : g'.cw = g.cw
  prev : g'.prev = g.prev

theorem NoChip.refl (g : Game) : NoChip g g := ⟨rfl, rfl, rfl, rfl⟩

theorem NoChip.trans {a b c : Game} (h1 : NoChip a b) (h2 : NoChip b c) : NoChip a c :=
  ⟨h2.chips.trans h1.chips, h2.rp.trans h1.rp, h2.cw.trans h1.cw, h2.prev.trans h1.prev⟩

theorem map_wager_of_chips {l l' : List Player} (h : l'.map Player.chips = l.map Player.chips) :
    l'.map (·.wager) = l.map (·.wager) := by
  have := congrArg (List.map (fun c : Int × Int × Int × Int × Int => c.2.2.2.2)) h
  simpa [List.map_map, Function.comp_def, Player.chips] using this

theorem forall_of_chips {l l' : List Player} (P : Int × Int × Int × Int × Int → Prop)
    (h : l'.map Player.chips = l.map Player.chips) (hl : ∀ p ∈ l, P p.chips) : ∀ p ∈ l', P p.chips := by
  intro p hp
  have : p.chips ∈ l'.map Player.chips := List.mem_map_of_mem hp
  rw [h] at this
  obtain ⟨q, hq, hqe⟩ := List.mem_map.mp this
  rw [← hqe]; exact hl q hq

theorem ChipsOK.of_noChip {g g' : Game} (h : NoChip g g') (ok : ChipsOK g) : ChipsOK g' := by
  have hw := map_wager_of_chips h.chips
  refine ⟨?_, ?_, ?_, ?_, ?_⟩
  · intro p hp
    have := forall_of_chips (fun c => ∃ q : Player, q.chips = c ∧ PInv q) h.chips
      (fun q hq => ⟨q, rfl, ok.pinv q hq⟩) p hp
    obtain ⟨q, hq, hqi⟩ := this
    exact PInv_of_chips hq.symm hqi
  · rw [h.rp, ok.rp]; simp [Game.wagerSum, hw]
  · rw [h.cw]; exact ok.cw0
  · rw [h.prev]; exact ok.prev0
  · intro p hp
    have := forall_of_chips (fun c => c.2.2.2.2 ≤ g.cw) h.chips (fun q hq => ok.wle q hq) p hp
    rw [h.cw]; exact this

/-! ### primitives that do not touch chips -/

theorem noChip_modP (g : Game) (i : Nat) (f : Player → Player) (hf : ∀ p, (f p).chips = p.chips) :
    NoChip g (g.modP i f) :=
  ⟨by simp [Game.modP, map_modify_of_proj Player.chips f hf], rfl, rfl, rfl⟩

theorem noChip_mapP (g : Game) (f : Player → Player) (hf : ∀ p, (f p).chips = p.chips) :
    NoChip g (g.mapP f) :=
  ⟨by simp [Game.mapP, List.map_map, Function.comp_def, hf], rfl, rfl, rfl⟩

theorem noChip_setCurrentPlayer (g : Game) (i : Nat) : NoChip g (g.setCurrentPlayer i) := by
  unfold Game.setCurrentPlayer
  refine NoChip.trans (noChip_modP g g.cur _ (fun p => rfl)) ?_
  exact NoChip.trans (b := { g.modP g.cur (fun p => { p with allowed := [] }) with cur := i }) ⟨rfl, rfl, rfl, rfl⟩
    (noChip_modP _ i _ (fun p => rfl))

theorem noChip_resetAllAllowed (g : Game) : NoChip g g.resetAllAllowed :=
  noChip_mapP g _ (fun _ => rfl)

theorem noChip_resetActed (g : Game) : NoChip g g.resetActed :=
  noChip_mapP g _ (fun _ => rfl)

theorem noChip_becomeRaiser (g : Game) (i : Nat) : NoChip g (g.becomeRaiser i) := by
  unfold Game.becomeRaiser
  exact NoChip.trans (b := ({ g with raiser := i } : Game).resetActed)
    (NoChip.trans (b := ({ g with raiser := i } : Game)) ⟨rfl, rfl, rfl, rfl⟩ (noChip_resetActed _))
    (noChip_modP _ i _ (fun _ => rfl))

theorem noChip_setActed (g : Game) (i : Nat) : NoChip g (g.setActed i) :=
  noChip_modP g i _ (fun _ => rfl)

theorem noChip_updatePots (g : Game) : NoChip g g.updatePots := ⟨rfl, rfl, rfl, rfl⟩

theorem noChip_deal (g : Game) (k : Nat) : NoChip g (g.deal k).2 := ⟨rfl, rfl, rfl, rfl⟩
theorem noChip_burn (g : Game) (k : Nat) : NoChip g (g.burn k) := ⟨rfl, rfl, rfl, rfl⟩
theorem noChip_dealBoard (g : Game) (k : Nat) : NoChip g (g.dealBoard k) := ⟨rfl, rfl, rfl, rfl⟩

theorem noChip_dealHoles : ∀ (k i : Nat) (g : Game), NoChip g (dealHoles k i g)
  | 0, _, g => NoChip.refl g
  | k + 1, i, g => by
    unfold Game.dealHoles
    exact NoChip.trans (NoChip.trans (noChip_deal g _) (noChip_modP _ i _ (fun _ => rfl))) (noChip_dealHoles k (i + 1) _)

theorem noChip_updateCombinations (g : Game) : NoChip g g.updateCombinations := by
  unfold Game.updateCombinations
  apply noChip_mapP
  intro p
  split
  · rfl
  · split <;> rfl

theorem noChip_calculateGameResults (g : Game) : NoChip g g.calculateGameResults := ⟨rfl, rfl, rfl, rfl⟩

theorem noChip_roundClosed (g : Game) : NoChip g g.roundClosed := by
  unfold Game.roundClosed
  exact NoChip.trans (NoChip.trans (b := ({ g with event := .roundClosed } : Game)) ⟨rfl, rfl, rfl, rfl⟩
    (noChip_resetAllAllowed _)) (noChip_updatePots _)

theorem noChip_requestPlayerAction (g : Game) : NoChip g g.requestPlayerAction := by
  unfold Game.requestPlayerAction
  split
  · exact noChip_roundClosed g
  · split
    · exact noChip_roundClosed g
    · split
      · exact NoChip.refl g
      · split
        · exact noChip_roundClosed g
        · exact noChip_setCurrentPlayer g _

theorem noChip_requestReady (g : Game) : NoChip g g.requestReady := by
  unfold Game.requestReady
  exact NoChip.trans (noChip_resetAllAllowed g) ⟨rfl, rfl, rfl, rfl⟩

theorem noChip_prepareRound (g : Game) : NoChip g g.prepareRound := by
  unfold Game.prepareRound
  split
  · exact noChip_requestReady g
  · split
    · exact noChip_roundClosed g
    · exact noChip_requestReady g

theorem noChip_requestBlinds (g : Game) : NoChip g g.requestBlinds := by
  unfold Game.requestBlinds
  split
  · exact NoChip.trans (b := ({ g with event := .blindsPaid } : Game)) ⟨rfl, rfl, rfl, rfl⟩ (noChip_prepareRound _)
  · exact ⟨rfl, rfl, rfl, rfl⟩

theorem noChip_initializeRound (g : Game) : NoChip g g.initializeRound := by
  unfold Game.initializeRound
  have h1 : NoChip g (match g.round with
      | .preflop => dealHoles g.n 0 g
      | .flop => ((g.burn 1).dealBoard 3).setCurrentPlayer g.dealerIdx
      | .turn => ((g.burn 1).dealBoard 1).setCurrentPlayer g.dealerIdx
      | .river => ((g.burn 1).dealBoard 1).setCurrentPlayer g.dealerIdx
      | .none => g) := by
    split
    · exact noChip_dealHoles _ _ _
    · exact NoChip.trans (NoChip.trans (noChip_burn g 1) (noChip_dealBoard _ 3)) (noChip_setCurrentPlayer _ _)
    · exact NoChip.trans (NoChip.trans (noChip_burn g 1) (noChip_dealBoard _ 1)) (noChip_setCurrentPlayer _ _)
    · exact NoChip.trans (NoChip.trans (noChip_burn g 1) (noChip_dealBoard _ 1)) (noChip_setCurrentPlayer _ _)
    · exact NoChip.refl g
  refine NoChip.trans h1 ?_
  generalize (match g.round with
      | .preflop => dealHoles g.n 0 g
      | .flop => ((g.burn 1).dealBoard 3).setCurrentPlayer g.dealerIdx
      | .turn => ((g.burn 1).dealBoard 1).setCurrentPlayer g.dealerIdx
      | .river => ((g.burn 1).dealBoard 1).setCurrentPlayer g.dealerIdx
      | .none => g) = g1
  refine NoChip.trans (noChip_updateCombinations g1) ?_
  generalize g1.updateCombinations = g2
  simp only
  split
  · exact NoChip.trans (b := ({ g2 with event := .roundInitialized } : Game)) ⟨rfl, rfl, rfl, rfl⟩ (noChip_requestBlinds _)
  · exact NoChip.trans (b := ({ g2 with event := .roundInitialized } : Game)) ⟨rfl, rfl, rfl, rfl⟩ (noChip_prepareRound _)

theorem noChip_enterRound (g : Game) (r : Round) : NoChip g (g.enterRound r) := by
  unfold Game.enterRound
  exact NoChip.trans (b := ({ g with round := r } : Game)) ⟨rfl, rfl, rfl, rfl⟩ (noChip_initializeRound _)

theorem noChip_seekBB : ∀ (k : Nat) (g : Game), NoChip g (seekBB k g)
  | 0, g => NoChip.refl g
  | k + 1, g => by
    unfold Game.seekBB
    simp only
    split
    · split
      · exact noChip_setCurrentPlayer g _
      · exact NoChip.trans (noChip_setCurrentPlayer g _) (noChip_seekBB k _)
    · exact noChip_setCurrentPlayer g _

theorem noChip_startRound (g : Game) : NoChip g g.startRound := by
  unfold Game.startRound
  simp only
  split
  · split
    · exact NoChip.trans (noChip_resetAllAllowed g) (noChip_roundClosed _)
    · refine NoChip.trans (noChip_resetAllAllowed g) ?_
      refine NoChip.trans (noChip_setCurrentPlayer _ _) ?_
      refine NoChip.trans (noChip_seekBB _ _) ?_
      exact NoChip.trans (b := ({ seekBB g.resetAllAllowed.n (g.resetAllAllowed.setCurrentPlayer g.resetAllAllowed.dealerIdx) with event := .roundStarted } : Game))
        ⟨rfl, rfl, rfl, rfl⟩ (noChip_requestPlayerAction _)
  · refine NoChip.trans (noChip_resetAllAllowed g) ?_
    refine NoChip.trans (noChip_setCurrentPlayer _ _) ?_
    exact NoChip.trans (b := ({ g.resetAllAllowed.setCurrentPlayer g.resetAllAllowed.dealerIdx with event := .roundStarted } : Game))
      ⟨rfl, rfl, rfl, rfl⟩ (noChip_requestPlayerAction _)

theorem noChip_gameCompleted (g : Game) : NoChip g g.gameCompleted := by
  unfold Game.gameCompleted
  exact ⟨rfl, rfl, rfl, rfl⟩

theorem noChip_resume (g : Game) : NoChip g g.resume := by
  unfold Game.resume
  split
  · exact noChip_requestPlayerAction g
  · exact noChip_roundClosed g
  · exact NoChip.refl g

end Pokerface
