import Pokerface.Proofs.TableDriver2
/-
  Consequences of the driver invariant: the history in the `C07.errs` form, the held state up to the marks.
-/
namespace Pokerface.Drv
open Pokerface Game

theorem errs_append (g : Game) (a b : List Op) : C07.errs g (a ++ b) = C07.errs g a ++ C07.errs (g.run a) b := by
  induction a generalizing g with
  | nil => rfl
  | cons x a ih => simp only [List.cons_append, C07.errs, ih, Game.run, List.foldl_cons]

theorem Hist.errs_none {g0 : Game} {ops : List Op} {e : Game} (h : Hist g0 ops e) : ∀ x ∈ C07.errs g0 ops, x = none := by
  induction h with
  | nil => intro x hx; cases hx
  | snoc op hh ha ih =>
    intro x hx
    rw [errs_append, ← hh.run_eq, List.mem_append] at hx
    rcases hx with hx | hx
    · exact ih x hx
    · simp only [C07.errs, List.mem_singleton] at hx
      rw [hx, ha]

theorem arm_clr {g g' : Game} {m : List Nat} {grp : Group} (h : arm g = some (g', m, grp)) : clr g' = clr g := by
  unfold arm at h
  split at h
  · simp only [Option.some.injEq, Prod.mk.injEq] at h; rw [← h.1]
  · split at h
    · cases h
    · simp only [Option.some.injEq, Prod.mk.injEq] at h; rw [← h.1]; exact clr_allowPay g
  · simp only [Option.some.injEq, Prod.mk.injEq] at h; rw [← h.1]; exact clr_allowPayIf g _
  · cases h

theorem arm_ready {g g' : Game} {m : List Nat} {grp : Group} (h : arm g = some (g', m, grp))
    (h2 : g.event ≠ .anteRequested) (h3 : g.event ≠ .blindsRequested) : g' = g := by
  unfold arm at h
  split at h
  · simp only [Option.some.injEq, Prod.mk.injEq] at h; exact h.1.symm
  · rename_i he; exact absurd he h2
  · rename_i he; exact absurd he h3
  · cases h

theorem Post_clr {d : D} {e : Game} (hp : Post d e) : clr d.gs = clr e.hop := by
  have := hp.2.2
  cases ha : arm e.hop with
  | none => simp only [ha] at this; rw [this.1]
  | some t =>
    obtain ⟨g', m, grp⟩ := t
    simp only [ha] at this
    rw [this.1]; exact arm_clr ha

theorem Post_exact {d : D} {e : Game} (hp : Post d e) (h2 : e.event ≠ .anteRequested) (h3 : e.event ≠ .blindsRequested) :
    d.gs = e.hop := by
  have := hp.2.2
  cases ha : arm e.hop with
  | none => simp only [ha] at this; exact this.1
  | some t =>
    obtain ⟨g', m, grp⟩ := t
    simp only [ha] at this
    rw [this.1]; exact arm_ready ha h2 h3

end Pokerface.Drv
