import Pokerface.Properties.Links
/-
  Engine invariant behind the hypotheses `hex` / `hle` of the showdown theorems (C02, Links):
  in every reachable state some NON-FOLDED player has put in (`pot + wager`) at least as much as
  every other player (`Covered`).  This file: the list-level invariant `Lvl` and its preservation
  by a wager, a fold and the sweep between rounds.  The engine part is in ShowdownPlayEngine.lean.

  `Lv` is the projection of a player the invariant speaks about: (fold, initial, pot, wager).
-/
namespace Pokerface
open Game

abbrev Lv := Bool × Int × Int × Int

def Player.lv (p : Player) : Lv := (p.fold, p.initial, p.pot, p.wager)
def Game.lvs (g : Game) : List Lv := g.players.map Player.lv

/-- the chip facts used (from `ChipsOK`): 0 ≤ wager ≤ wager to match, wager ≤ stack at the round start -/
def LvOK (l : List Lv) (cw : Int) : Prop :=
  ∀ (k : Nat) (p : Lv), l[k]? = some p → 0 ≤ p.2.2.2 ∧ p.2.2.2 ≤ cw ∧ p.2.2.2 ≤ p.2.1

/-- some non-folded seat has the largest swept part `pot`, and every non-folded seat that had
    chips when the round started has exactly that much -/
def Top (l : List Lv) : Prop :=
  ∃ (j : Nat) (q : Lv), l[j]? = some q ∧ q.1 = false ∧ (∀ (k : Nat) (p : Lv), l[k]? = some p → p.2.2.1 ≤ q.2.2.1) ∧
    (∀ (k : Nat) (p : Lv), l[k]? = some p → p.1 = false → 0 < p.2.1 → p.2.2.1 = q.2.2.1)

/-- the wager to match, when positive, is on the table in front of a non-folded seat -/
def Holder (l : List Lv) (cw : Int) : Prop :=
  0 < cw → ∃ (j : Nat) (q : Lv), l[j]? = some q ∧ q.1 = false ∧ q.2.2.2 = cw

structure Lvl (l : List Lv) (cw : Int) : Prop where
  top : Top l
  holder : Holder l cw

/-- The point of `Lvl`: a non-folded seat has the largest total `pot + wager`. -/
theorem Lvl.cover {l : List Lv} {cw : Int} (h : Lvl l cw) (ok : LvOK l cw) :
    ∃ (j : Nat) (q : Lv), l[j]? = some q ∧ q.1 = false ∧ ∀ (k : Nat) (p : Lv), l[k]? = some p → p.2.2.1 + p.2.2.2 ≤ q.2.2.1 + q.2.2.2 := by
  obtain ⟨j, q, hq, hqf, hmax, hlev⟩ := h.top
  by_cases hc : 0 < cw
  · obtain ⟨j', h', hh, hhf, hhw⟩ := h.holder hc
    refine ⟨j', h', hh, hhf, ?_⟩
    intro k p hp
    have h1 := ok k p hp
    have h2 := ok j' h' hh
    have h3 := hlev j' h' hh hhf (by omega)
    have h4 := hmax k p hp
    omega
  · refine ⟨j, q, hq, hqf, ?_⟩
    intro k p hp
    have h1 := ok k p hp
    have h2 := ok j q hq
    have h3 := hmax k p hp
    omega

/-- the part of `Lv` that a wager does not touch -/
def Lv.base (p : Lv) : Bool × Int × Int := (p.1, p.2.1, p.2.2.1)

theorem base_some {l l' : List Lv} (hb : ∀ k : Nat, (l'[k]?).map Lv.base = (l[k]?).map Lv.base) {k : Nat} {p : Lv}
    (hp : l[k]? = some p) : ∃ p', l'[k]? = some p' ∧ p'.1 = p.1 ∧ p'.2.1 = p.2.1 ∧ p'.2.2.1 = p.2.2.1 := by
  have h := hb k
  rw [hp] at h
  simp only [Option.map_some, Option.map_eq_some_iff] at h
  obtain ⟨p', hp', he⟩ := h
  simp only [Lv.base, Prod.mk.injEq] at he
  exact ⟨p', hp', he.1, he.2.1, he.2.2⟩

theorem base_some' {l l' : List Lv} (hb : ∀ k : Nat, (l'[k]?).map Lv.base = (l[k]?).map Lv.base) {k : Nat} {p' : Lv}
    (hp : l'[k]? = some p') : ∃ p, l[k]? = some p ∧ p'.1 = p.1 ∧ p'.2.1 = p.2.1 ∧ p'.2.2.1 = p.2.2.1 := by
  obtain ⟨p, hp1, h1, h2, h3⟩ := base_some (l := l') (l' := l) (fun k => (hb k).symm) hp
  exact ⟨p, hp1, h1.symm, h2.symm, h3.symm⟩

theorem top_of_base {l l' : List Lv} (hb : ∀ k : Nat, (l'[k]?).map Lv.base = (l[k]?).map Lv.base) (h : Top l) : Top l' := by
  obtain ⟨j, q, hq, hqf, hmax, hlev⟩ := h
  obtain ⟨q', hq', e1, e2, e3⟩ := base_some hb hq
  refine ⟨j, q', hq', by rw [e1]; exact hqf, ?_, ?_⟩
  · intro k p' hp'
    obtain ⟨p, hp, f1, f2, f3⟩ := base_some' hb hp'
    rw [f3, e3]; exact hmax k p hp
  · intro k p' hp' hf hi
    obtain ⟨p, hp, f1, f2, f3⟩ := base_some' hb hp'
    rw [f3, e3]; exact hlev k p hp (by rw [← f1]; exact hf) (by rw [← f2]; exact hi)

/-- A wager: seat `i` (not folded, or not going above the wager to match) raises its wager to `w'`;
    the wager to match becomes the larger of the two. -/
theorem lvl_pay {l l' : List Lv} {cw cw' : Int} {i : Nat} {a : Lv} {w' : Int}
    (h : Lvl l cw) (ha : l[i]? = some a) (ha' : l'[i]? = some (a.1, a.2.1, a.2.2.1, w'))
    (hoth : ∀ k : Nat, k ≠ i → l'[k]? = l[k]?) (hw : a.2.2.2 ≤ w') (hf : a.1 = false ∨ w' ≤ cw)
    (hcw : cw' = if cw < w' then w' else cw) : Lvl l' cw' := by
  have hb : ∀ k : Nat, (l'[k]?).map Lv.base = (l[k]?).map Lv.base := by
    intro k
    by_cases hk : k = i
    · subst hk; rw [ha, ha']; rfl
    · rw [hoth k hk]
  refine ⟨top_of_base hb h.top, ?_⟩
  intro hpos
  by_cases hlt : cw < w'
  · rw [if_pos hlt] at hcw
    refine ⟨i, _, ha', ?_, hcw.symm⟩
    rcases hf with hf | hf
    · exact hf
    · omega
  · rw [if_neg hlt] at hcw
    subst hcw
    obtain ⟨j, q, hq, hqf, hqw⟩ := h.holder hpos
    by_cases hj : j = i
    · subst hj
      rw [ha] at hq; cases hq
      exact ⟨j, _, ha', hqf, by show w' = cw'; omega⟩
    · exact ⟨j, q, by rw [hoth j hj]; exact hq, hqf, hqw⟩

/-- A fold: seat `i`, whose wager is below the wager to match, folds. -/
theorem lvl_fold {l l' : List Lv} {cw : Int} {i : Nat} {a : Lv}
    (h : Lvl l cw) (ok : LvOK l cw) (ha : l[i]? = some a) (ha' : l'[i]? = some (true, a.2.1, a.2.2.1, a.2.2.2))
    (hoth : ∀ k : Nat, k ≠ i → l'[k]? = l[k]?) (hlt : a.2.2.2 < cw) : Lvl l' cw := by
  have hpos : 0 < cw := by have := ok i a ha; omega
  obtain ⟨j, q, hq, hqf, hqw⟩ := h.holder hpos
  have hj : j ≠ i := by
    intro e; subst e; rw [ha] at hq; cases hq; omega
  have hq' : l'[j]? = some q := by rw [hoth j hj]; exact hq
  obtain ⟨t, qt, hqt, _, hmax, hlev⟩ := h.top
  have hqi : 0 < q.2.1 := by have := ok j q hq; omega
  have hqp : q.2.2.1 = qt.2.2.1 := hlev j q hq hqf hqi
  have hsome : ∀ (k : Nat) (p' : Lv), l'[k]? = some p' → ∃ p : Lv, l[k]? = some p ∧ p'.2.1 = p.2.1 ∧ p'.2.2.1 = p.2.2.1 ∧
      (p'.1 = false → p.1 = false) := by
    intro k p' hp'
    by_cases hk : k = i
    · subst hk; rw [ha'] at hp'; cases hp'
      exact ⟨a, ha, rfl, rfl, fun h => by cases h⟩
    · rw [hoth k hk] at hp'
      exact ⟨p', hp', rfl, rfl, id⟩
  refine ⟨⟨j, q, hq', hqf, ?_, ?_⟩, fun _ => ⟨j, q, hq', hqf, hqw⟩⟩
  · intro k p' hp'
    obtain ⟨p, hp, _, e2, _⟩ := hsome k p' hp'
    rw [e2, hqp]; exact hmax k p hp
  · intro k p' hp' hf hi
    obtain ⟨p, hp, e1, e2, e3⟩ := hsome k p' hp'
    rw [e2, hqp]; exact hlev k p hp (e3 hf) (by rw [← e1]; exact hi)

/-- the sweep between two rounds on `Lv` -/
def Lv.sweep (p : Lv) : Lv := (p.1, p.2.1 - p.2.2.2, p.2.2.1 + p.2.2.2, 0)

/-- The sweep at the end of a round, when the seats that still have chips are level
    (`C05.every_close_level`) or a single seat is left. -/
theorem lvl_sweep {l : List Lv} {cw : Int} (h : Lvl l cw) (ok : LvOK l cw)
    (hclose : (∀ (k : Nat) (p : Lv), l[k]? = some p → p.1 = false → 0 < p.2.1 - p.2.2.2 → p.2.2.2 = cw) ∨
      (∀ (j k : Nat) (p q : Lv), l[j]? = some p → l[k]? = some q → p.1 = false → q.1 = false → j = k)) :
    Lvl (l.map Lv.sweep) 0 := by
  obtain ⟨j, q, hq, hqf, hcov⟩ := h.cover ok
  obtain ⟨t, qt, hqt, _, hmax, hlev⟩ := h.top
  refine ⟨⟨j, q.sweep, by simp [hq], hqf, ?_, ?_⟩, fun h0 => absurd h0 (by omega)⟩
  · intro k p' hp'
    simp only [List.getElem?_map, Option.map_eq_some_iff] at hp'
    obtain ⟨p, hp, rfl⟩ := hp'
    exact hcov k p hp
  · intro k p' hp' hf hi
    simp only [List.getElem?_map, Option.map_eq_some_iff] at hp'
    obtain ⟨p, hp, rfl⟩ := hp'
    show p.2.2.1 + p.2.2.2 = q.2.2.1 + q.2.2.2
    rcases hclose with hc | hc
    · have hw : p.2.2.2 = cw := hc k p hp hf hi
      have h1 := ok k p hp
      have h2 := ok j q hq
      have h3 := hlev k p hp hf (by have : 0 < p.2.1 - p.2.2.2 := hi; omega)
      have h4 := hmax j q hq
      have h5 := hcov k p hp
      omega
    · have : k = j := hc k j p q hp hq hf hqf
      subst this
      rw [hp] at hq; cases hq; rfl

/-- at most one element satisfies `P`: two indices carrying such elements coincide -/
theorem unique_of_filter_le_one {α : Type} (P : α → Bool) : ∀ (l : List α), (l.filter P).length ≤ 1 →
    ∀ (j k : Nat) (a b : α), l[j]? = some a → l[k]? = some b → P a = true → P b = true → j = k
  | [], _, _, _, _, _, ha, _, _, _ => by simp at ha
  | x :: xs, h, j, k, a, b, ha, hb, pa, pb => by
    by_cases hx : P x = true
    · rw [List.filter_cons_of_pos hx] at h
      have hnil : xs.filter P = [] := by
        have : (xs.filter P).length = 0 := by simp only [List.length_cons] at h; omega
        exact List.length_eq_zero_iff.mp this
      have hnone : ∀ y ∈ xs, P y = false := by
        intro y hy
        have := List.filter_eq_nil_iff.mp hnil y hy
        simpa using this
      cases j with
      | zero =>
        cases k with
        | zero => rfl
        | succ k =>
          have := hnone b (List.mem_of_getElem? (by simpa using hb))
          rw [this] at pb; cases pb
      | succ j =>
        have := hnone a (List.mem_of_getElem? (by simpa using ha))
        rw [this] at pa; cases pa
    · rw [List.filter_cons_of_neg hx] at h
      cases j with
      | zero => simp at ha; subst ha; exact absurd pa hx
      | succ j =>
        cases k with
        | zero => simp at hb; subst hb; exact absurd pb hx
        | succ k =>
          have := unique_of_filter_le_one P xs h j k a b (by simpa using ha) (by simpa using hb) pa pb
          omega

/-- a non-empty list has an element maximising `f` -/
theorem exists_argmax {α : Type} (f : α → Int) : ∀ (l : List α), l ≠ [] → ∃ (j : Nat) (q : α), l[j]? = some q ∧ ∀ (k : Nat) (p : α), l[k]? = some p → f p ≤ f q
  | [], h => absurd rfl h
  | [x], _ => ⟨0, x, rfl, fun k p hp => by
      cases k with
      | zero => simp at hp; subst hp; exact Int.le_refl _
      | succ k => simp at hp⟩
  | x :: y :: ys, _ => by
    obtain ⟨j, q, hq, hmax⟩ := exists_argmax f (y :: ys) (by simp)
    by_cases hxq : f q ≤ f x
    · refine ⟨0, x, rfl, ?_⟩
      intro k p hp
      cases k with
      | zero => simp at hp; subst hp; exact Int.le_refl _
      | succ k => exact Int.le_trans (hmax k p (by simpa using hp)) hxq
    · refine ⟨j + 1, q, by simpa using hq, ?_⟩
      intro k p hp
      cases k with
      | zero => simp at hp; subst hp; omega
      | succ k => exact hmax k p (by simpa using hp)

end Pokerface
