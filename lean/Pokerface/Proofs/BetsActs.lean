import Pokerface.Proofs.Bets
/-
  Exact effects of the accepted player actions at a decision point (C11 `effects`, C12 raise rules).
-/
namespace Pokerface
open Game

theorem frame_chips {q p : Player} (h : q.frame = p.frame) :
    q.bankroll = p.bankroll ∧ q.initial = p.initial ∧ q.stack = p.stack ∧ q.pot = p.pot ∧ q.wager = p.wager ∧
    q.idx = p.idx ∧ q.posDealer = p.posDealer ∧ q.posSB = p.posSB ∧ q.posBB = p.posBB := by
  simp [Player.frame, Player.chips] at h
  obtain ⟨⟨a, b, c, d⟩, e, f, g, h, i⟩ := h
  exact ⟨e, f, g, h, i, a, b, c, d⟩

/-- the state after `resume`, seen from seat `i`: same chips at the seat, same scalars -/
theorem resume_at {g : Game} {i : Nat} {p : Player} (hp : g.players[i]? = some p) :
    (∃ q, g.resume.players[i]? = some q ∧ q.frame = p.frame) ∧
    g.resume.cw = g.cw ∧ g.resume.prev = g.prev ∧ g.resume.raiser = g.raiser :=
  have nc := noChip_resume g
  ⟨nc.at hp, nc.cw, nc.prev, resume_raiser g⟩

/-! ### accepted ⇒ offered -/

theorem act_simple_accepted {g : Game} {i : Nat} {a : Act} {x : Int} (ha : a ≠ .raise) (ha' : a ≠ .bet)
    (h : (g.act i a x).2 = none) : g.allows i a = true := by
  unfold Game.act at h
  cases a <;> simp only at h <;> first | contradiction | (split at h <;> first | (simp at h; done) | simp_all)

theorem act_bet_accepted {g : Game} {i : Nat} {x : Int} (h : (g.act i .bet x).2 = none) :
    g.allows i .bet = true ∧ 0 ≤ x ∧ g.act i .bet x = (g.doBet i x, none) := by
  unfold Game.act at h ⊢
  simp only at h ⊢
  split at h
  · simp at h
  · rename_i h1
    split at h
    · simp at h
    · rename_i h2
      have hb : g.allows i .bet = true := by simpa using h1
      refine ⟨hb, by omega, ?_⟩
      simp [hb, h2]

end Pokerface

namespace Pokerface
open Game

theorem act_passive_noChip (g : Game) (i : Nat) (a : Act) (x : Int) (ha : a = .check ∨ a = .fold ∨ a = .pass) :
    NoChip g (g.act i a x).1 := by
  unfold Game.act
  rcases ha with rfl | rfl | rfl <;> simp only <;> split
  · exact NoChip.refl g
  · exact (noChip_setActed g i).trans (noChip_resume _)
  · exact NoChip.refl g
  · unfold Game.doFold
    exact (noChip_modP g i (fun p => { p with fold := true, acted := true }) (fun _ => rfl)).trans (noChip_resume _)
  · exact NoChip.refl g
  · exact (noChip_setActed g i).trans (noChip_resume _)

theorem avail_movable_of_mem {g : Game} {p : Player} {a : Act} (h : a ∈ g.availableActions p) (ha : a ≠ .pass) :
    p.fold = false ∧ p.stack ≠ 0 := by
  by_cases h1 : p.fold = true
  · rw [avail_pass_only g p (Or.inl h1)] at h; simp at h; exact absurd h ha
  · by_cases h2 : p.stack = 0
    · rw [avail_pass_only g p (Or.inr h2)] at h; simp at h; exact absurd h ha
    · exact ⟨by simpa using h1, h2⟩

theorem AtTurn.of_allows {g : Game} {p : Player} (h : AtTurn g p) {a : Act} (ha : g.allows g.cur a = true) :
    a ∈ g.availableActions p := by
  rw [h.allows a] at ha; simpa using ha

theorem AtTurn.allows_of {g : Game} {p : Player} (h : AtTurn g p) {a : Act} (ha : a ∈ g.availableActions p) :
    g.allows g.cur a = true := by
  rw [h.allows a]; simpa using ha

/-- `Call` at a decision point: the caller ends level with the wager to match after the call (I2);
    that wager is the old one unless it was below the big blind (short big blind). -/
theorem doCall_effect {g : Game} {p : Player} (h : AtTurn g p) (hc : Act.call ∈ g.availableActions p) :
    ∃ q, (g.doCall g.cur).players[g.cur]? = some q ∧ q.wager = (g.doCall g.cur).cw ∧
      g.cw ≤ (g.doCall g.cur).cw ∧ (g.opts.blindBB ≤ g.cw → (g.doCall g.cur).cw = g.cw) ∧
      q.wager ≤ p.initial ∧ q.stack = p.initial - q.wager ∧ q.pot = p.pot ∧ q.bankroll = p.bankroll := by
  obtain ⟨hf, hs⟩ := avail_movable_of_mem hc (by simp)
  obtain ⟨_, _, _, _, _, m5, _, _⟩ := avail_mem (g := g) hf hs
  obtain ⟨hw, hi⟩ := m5.mp hc
  have hreb := h.pinv.rebase
  have hw0 := h.pinv.wager0
  unfold Game.doCall
  rw [h.seat]
  simp only
  have hp1 := setActed_self h.seat
  generalize hcdef : (if g.cw < g.opts.blindBB then g.opts.blindBB - p.wager else g.cw - p.wager) = c
  obtain ⟨q2, hq2, hf2⟩ := pay_self hp1 c true
  have hcw2 := pay_cw hp1 c
  obtain ⟨⟨q, hq, hfq⟩, hcw, _, _⟩ := resume_at hq2
  have e1 : (g.setActed g.cur).cw = g.cw := rfl
  rw [e1] at hcw2
  refine ⟨q, hq, ?_⟩
  rw [hcw, hcw2]
  obtain ⟨c1, c2, c3, c4, c5, _⟩ := frame_chips (hfq.trans hf2)
  rw [c5, c3, c4, c1]
  simp only [payF]
  split at hcdef <;> subst hcdef <;> split <;> simp [goAllin, putWager] at * <;> (try split) <;> omega

end Pokerface

namespace Pokerface
open Game

/-- `Allin` at a decision point commits exactly the remaining stack. -/
theorem doAllin_effect {g : Game} {p : Player} (h : AtTurn g p) :
    ∃ q, (g.doAllin g.cur).players[g.cur]? = some q ∧ q.stack = 0 ∧ q.wager = p.initial ∧
      q.pot = p.pot ∧ q.bankroll = p.bankroll ∧ q.initial = p.initial ∧
      (g.doAllin g.cur).cw = (if p.initial > g.cw then p.initial else g.cw) := by
  unfold Game.doAllin
  rw [h.seat]
  simp only
  have hp1 := setActed_self h.seat
  generalize hgm : (if p.initial - g.cw ≥ g.prev then (g.setActed g.cur).setPrev (p.initial - g.cw)
    else g.setActed g.cur) = gm
  have hm1 : gm.players[g.cur]? = some { p with acted := true } := by
    subst hgm; split <;> exact hp1
  have hm2 : gm.cw = g.cw := by subst hgm; split <;> rfl
  obtain ⟨q2, hq2, hf2⟩ := pay_self hm1 p.stack true
  have hcw2 := pay_cw hm1 p.stack
  obtain ⟨⟨q, hq, hfq⟩, hcw, _, _⟩ := resume_at hq2
  rw [hm2] at hcw2
  refine ⟨q, hq, ?_⟩
  rw [hcw, hcw2]
  obtain ⟨c1, c2, c3, c4, c5, _⟩ := frame_chips (hfq.trans hf2)
  rw [c5, c3, c4, c1, c2]
  simp [payF, goAllin]

/-- `Bet(x)` at a decision point where bet is offered, for a positive amount below the stack:
    exactly `x` becomes the player's wager, the wager to match and the minimum raise. -/
theorem doBet_effect {g : Game} {p : Player} (h : AtTurn g p) (hb : Act.bet ∈ g.availableActions p)
    {x : Int} (hx0 : 0 < x) (hxs : x < p.stack) :
    ∃ q, (g.doBet g.cur x).players[g.cur]? = some q ∧ q.wager = x ∧ (g.doBet g.cur x).cw = x ∧
      (g.doBet g.cur x).prev = x ∧ (g.doBet g.cur x).raiser = g.cur ∧ q.stack = p.stack - x ∧
      q.pot = p.pot ∧ q.bankroll = p.bankroll := by
  obtain ⟨hf, hs⟩ := avail_movable_of_mem hb (by simp)
  obtain ⟨_, _, _, _, _, _, m6, _⟩ := avail_mem (g := g) hf hs
  obtain ⟨_, _, hcw0⟩ := m6.mp hb
  have hreb := h.pinv.rebase
  have hw0 := h.pinv.wager0
  have hwle := h.chips.wle p h.mem
  have hwz : p.wager = 0 := by omega
  unfold Game.doBet
  have hp1 := setActed_self h.seat
  obtain ⟨q2, hq2, hf2⟩ := pay_self hp1 x true
  have hcw2 := pay_cw hp1 x
  have hr2 := pay_raiser hp1 x
  have hq2' : (((g.setActed g.cur).pay g.cur x true).recordBet g.cur).players[g.cur]? = some q2 := hq2
  have hrec : (((g.setActed g.cur).pay g.cur x true).recordBet g.cur).prev = q2.wager := by
    simp [Game.recordBet, Game.setPrev, Game.wagerOf, hq2]
  obtain ⟨⟨q, hq, hfq⟩, hcw, hprev, hrs⟩ := resume_at hq2'
  have e1 : (g.setActed g.cur).cw = g.cw := rfl
  rw [e1] at hcw2 hr2
  refine ⟨q, hq, ?_⟩
  rw [hcw, hprev, hrs]
  rw [hrec]
  show _ ∧ ((g.setActed g.cur).pay g.cur x true).cw = x ∧ q2.wager = x ∧ ((g.setActed g.cur).pay g.cur x true).raiser = g.cur ∧ _
  rw [hcw2, hr2]
  obtain ⟨c1, c2, c3, c4, c5, _⟩ := frame_chips (hfq.trans hf2)
  obtain ⟨d1, d2, d3, d4, d5, _⟩ := frame_chips hf2
  rw [c5, c3, c4, c1, d5]
  have hns : ¬ p.stack ≤ x := by omega
  simp [payF, putWager, hns, hwz, hcw0, hx0]
  omega

/-- `Raise(x)` carried out as a proper raise (`doRaise`, no-limit): exactly level `x`. -/
theorem doRaise_effect {g : Game} {p : Player} (h : AtTurn g p) (hnl : g.opts.potLimit = false)
    {x : Int} (hx1 : g.cw < x) (hx2 : x < p.initial) :
    ∃ q, (g.doRaise g.cur p x).players[g.cur]? = some q ∧ q.wager = x ∧ (g.doRaise g.cur p x).cw = x ∧
      (g.doRaise g.cur p x).prev = x - g.cw ∧ (g.doRaise g.cur p x).raiser = g.cur ∧
      q.stack = p.initial - x ∧ q.pot = p.pot ∧ q.bankroll = p.bankroll := by
  have hreb := h.pinv.rebase
  have hw0 := h.pinv.wager0
  have hwle := h.chips.wle p h.mem
  unfold Game.doRaise
  simp only [hnl, Bool.false_and, Bool.false_eq_true, if_false]
  have hp1 : ((g.setActed g.cur).setPrev (x - g.cw)).players[g.cur]? = some { p with acted := true } :=
    setActed_self h.seat
  obtain ⟨q2, hq2, hf2⟩ := pay_self hp1 (x - p.wager) true
  have hcw2 := pay_cw hp1 (x - p.wager)
  have hr2 := pay_raiser hp1 (x - p.wager)
  have hpv2 := pay_prev ((g.setActed g.cur).setPrev (x - g.cw)) g.cur (x - p.wager) true
  obtain ⟨⟨q, hq, hfq⟩, hcw, hprev, hrs⟩ := resume_at hq2
  have e1 : ((g.setActed g.cur).setPrev (x - g.cw)).cw = g.cw := rfl
  have e2 : ((g.setActed g.cur).setPrev (x - g.cw)).prev = x - g.cw := rfl
  rw [e1] at hcw2 hr2
  rw [e2] at hpv2
  refine ⟨q, hq, ?_⟩
  rw [hcw, hprev, hrs, hcw2, hr2, hpv2]
  obtain ⟨c1, c2, c3, c4, c5, _⟩ := frame_chips (hfq.trans hf2)
  rw [c5, c3, c4, c1]
  have hns : ¬ p.initial - p.wager ≤ x - p.wager := by omega
  simp [payF, putWager, hns, hreb]
  omega

end Pokerface

namespace Pokerface
open Game

/-- how `Raise(x)` is dispatched at a decision point where raise is offered and `x` is above the wager to match -/
theorem act_raise_dispatch {g : Game} {p : Player} (h : AtTurn g p) (hr : Act.raise ∈ g.availableActions p)
    {x : Int} (hx1 : g.cw < x) :
    g.act g.cur .raise x =
      if x ≥ p.initial ∨ x - g.cw < g.prev then (g.doAllin g.cur, none) else (g.doRaise g.cur p x, none) := by
  obtain ⟨hf, hs⟩ := avail_movable_of_mem hr (by simp)
  obtain ⟨m1, _⟩ := avail_mem (g := g) hf hs
  have ha := h.allows_of hr
  have hal := h.allows_of m1
  have hcw0 := h.chips.cw0
  have n1 : ¬ (x = 0 ∨ x < g.cw) := by omega
  have n2 : ¬ x = g.cw := by omega
  unfold Game.act
  simp only [ha, hal, Bool.not_true, Bool.false_eq_true, if_false, n1, n2, h.seat]

end Pokerface

namespace Pokerface
open Game

theorem act_call_eq {g : Game} {i : Nat} (x : Int) (h : g.allows i .call = true) :
    g.act i .call x = (g.doCall i, none) := by unfold Game.act; simp [h]

theorem act_allin_eq {g : Game} {i : Nat} (x : Int) (h : g.allows i .allin = true) :
    g.act i .allin x = (g.doAllin i, none) := by unfold Game.act; simp [h]

theorem act_accepted_of_allows {g : Game} {i : Nat} {a : Act} (x : Int) (h : g.allows i a = true)
    (ha : a ≠ .bet) (ha' : a ≠ .raise) : (g.act i a x).2 = none := by
  unfold Game.act
  cases a <;> simp_all

theorem act_bet_accepted_of_allows {g : Game} {i : Nat} {x : Int} (h : g.allows i .bet = true) (hx : 0 ≤ x) :
    (g.act i .bet x).2 = none := by
  unfold Game.act
  have : ¬ x < 0 := by omega
  simp [h, this]

end Pokerface
