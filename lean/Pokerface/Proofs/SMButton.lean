/-
  `nextDealer` with at least two playable seats; counting lemmas for `next`.
-/
import Pokerface.Proofs.SMJoin

namespace Pokerface
namespace SM

/-! ### counts over the seat list -/

theorem range_map_getElem? {α} (l : List α) : (List.range l.length).map (fun i => l[i]?) = l.map some := by
  apply List.ext_getElem?
  intro i
  simp only [List.getElem?_map]
  by_cases h : i < l.length
  · simp [h]
  · have : (List.range l.length)[i]? = none := by simp; omega
    rw [this]; simp at h; simp [h]

def seatPlayable (s : Seat) : Bool := s.active && !s.reserved && s.player.isSome

theorem playableCount_eq_seats {sm : SM} (hw : sm.WF) : sm.playableCount = sm.seats.countP seatPlayable := by
  rw [playableCount_eq_countP, ← hw]
  have : sm.playable = (fun o : Option Seat => match o with | some s => seatPlayable s | none => false) ∘
      (fun i => sm.seats[i]?) := by
    funext i; simp only [playable, Function.comp, seatPlayable]
    cases sm.seats[i]? <;> rfl
  rw [this, ← List.countP_map, range_map_getElem?, List.countP_map]
  rfl

theorem nonEmptyCount_eq (sm : SM) :
    sm.nonEmptyCount = sm.seats.countP (fun s => !s.reserved && s.player.isSome) := by
  simp [nonEmptyCount, List.countP_eq_length_filter]

theorem playableCount_le_nonEmpty {sm : SM} (hw : sm.WF) : sm.playableCount ≤ sm.nonEmptyCount := by
  rw [playableCount_eq_seats hw, nonEmptyCount_eq]
  apply List.countP_mono_left
  intro s _ h
  simp [seatPlayable] at h ⊢
  exact ⟨h.1.2, h.2⟩

theorem SamePlayers.nonEmptyCount {sm sm' : SM} (h : SamePlayers sm sm') : sm'.nonEmptyCount = sm.nonEmptyCount := by
  have e : ∀ t : SM, t.nonEmptyCount = (t.seats.map core).countP (fun c => !c.2 && c.1.isSome) := by
    intro t; rw [nonEmptyCount_eq, List.countP_map]; rfl
  rw [e, e, h]

theorem ActUp.playableCount_le {sm sm' : SM} (h : ActUp sm sm') : sm.playableCount ≤ sm'.playableCount := by
  rw [playableCount_eq_countP, playableCount_eq_countP, h.max]
  apply List.countP_mono_left
  intro i _ hp
  exact h.playable hp

/-! ### nextDealer with two or more playable seats -/

/-- Where `nextDealer` starts scanning: `(start seat, first offset)`. -/
def scanBase (sm : SM) : Nat × Nat :=
  match sm.dealer with
  | none => (0, 0)
  | some d => (d, 1)

theorem scanIds_eq (sm : SM) : sm.scanIds = (sm.normalize sm.scanBase.1).drop sm.scanBase.2 := by
  unfold scanIds scanBase
  cases sm.dealer <;> simp

theorem scanBase_le_one (sm : SM) : sm.scanBase.2 ≤ 1 := by
  unfold scanBase; cases sm.dealer <;> simp

/-- `nextDealer` when at least two seats are playable: the new dealer sits at the first playable offset
`k ≥ a` from the scan start; the seats at offsets `a … k-1` are activated; nothing else changes. -/
theorem nextDealer_spec (sm : SM) (hc : 2 ≤ sm.playableCount) :
    ∃ k, sm.scanBase.2 ≤ k ∧ k < sm.max ∧
      sm.playable ((sm.scanBase.1 + k) % sm.max) = true ∧
      (∀ j, sm.scanBase.2 ≤ j → j < k → sm.playable ((sm.scanBase.1 + j) % sm.max) = false) ∧
      sm.nextDealer.2 = true ∧
      sm.nextDealer.1.dealer = some ((sm.scanBase.1 + k) % sm.max) ∧
      ∀ j, j < sm.max → sm.nextDealer.1.seats[(sm.scanBase.1 + j) % sm.max]? =
        if sm.scanBase.2 ≤ j ∧ j < k then (sm.seats[(sm.scanBase.1 + j) % sm.max]?).map actv
        else sm.seats[(sm.scanBase.1 + j) % sm.max]? := by
  have hcn := playableCount_eq_normalize sm sm.scanBase.1
  have h1 := countP_drop_one_ge sm.playable (sm.normalize sm.scanBase.1)
  have hpos : 0 < sm.scanIds.countP sm.playable := by
    rw [scanIds_eq]
    have := scanBase_le_one sm
    by_cases h0 : sm.scanBase.2 = 0
    · rw [h0, List.drop_zero]; omega
    · have h0' : sm.scanBase.2 = 1 := Nat.le_antisymm this (Nat.pos_of_ne_zero h0)
      rw [h0']; omega
  obtain ⟨e, k, hf⟩ := findActive_some_of_countP_pos sm _ hpos
  have hne : ¬ sm.playableCount = 1 := by omega
  obtain ⟨hget, hpe, hall⟩ := (findActive_some _ _ _ _).mp hf
  rw [scanIds_eq, normalize_drop_getElem?] at hget
  split at hget
  case isFalse => cases hget
  next hlt =>
  simp only [Option.some.injEq] at hget
  have hnd : sm.nextDealer = ({ sm.modAll (sm.scanIds.take k) actv with dealer := some e }, true) := by
    rw [nextDealer_eq, if_neg hne, hf]
  refine ⟨sm.scanBase.2 + k, by omega, hlt, by rw [hget]; exact hpe, ?_, by rw [hnd], by rw [hnd, hget], ?_⟩
  · intro j hj1 hj2
    apply hall (j - sm.scanBase.2) (by omega)
    rw [scanIds_eq, normalize_drop_getElem?]
    have e' : sm.scanBase.2 + (j - sm.scanBase.2) = j := by omega
    rw [e', if_pos (by omega)]
  · intro j hj
    rw [hnd]
    show (sm.modAll (sm.scanIds.take k) actv).seats[(sm.scanBase.1 + j) % sm.max]? = _
    rw [modAll_seats _ _ _ actv_actv]
    have hmem : (sm.scanBase.1 + j) % sm.max ∈ sm.scanIds.take k ↔ sm.scanBase.2 ≤ j ∧ j < sm.scanBase.2 + k := by
      rw [scanIds_eq, List.mem_iff_getElem?]
      constructor
      · rintro ⟨i, hi⟩
        rw [List.getElem?_take] at hi
        split at hi
        · next hik =>
          rw [normalize_drop_getElem?] at hi
          split at hi
          · next him =>
            have := offset_inj him hj (by simpa using hi)
            omega
          · cases hi
        · cases hi
      · rintro ⟨h1, h2⟩
        refine ⟨j - sm.scanBase.2, ?_⟩
        rw [List.getElem?_take, if_pos (by omega), normalize_drop_getElem?]
        have e' : sm.scanBase.2 + (j - sm.scanBase.2) = j := by omega
        rw [e', if_pos hj]
    simp only [hmem]

end SM
end Pokerface
